(* StatusProofs: proofs of the statements of Props/C08.v about the model Http/Status.v (response path of the v2 server
   and the client's reading of it) over the regenerated table Gen/TablesStatus.v.  Facts about the table (statuses of the
   call sites, default statuses, formats ending in the cause's %s, the list of in-place writes) are proved by
   reflexivity / finite enumeration so that a regenerated table that changes them breaks the proof that depends on it. *)
From Coq Require Import List Bool Arith NArith ZArith Lia.
From Coq.Strings Require Import Byte.
From GR Require Import Base.Bytes Gen.TablesStatus Http.Status.
Import ListNotations.
Local Open Scope Z_scope.

(* ------------------------------------------------------------------------------------------------ vocabulary *)

(* the status an error response is sent with: its own, or 500 (literal on purpose) *)
Definition status_or_500 (e : err_resp) : Z := match e_status e with Some s => s | None => 500 end.

(* the protocol's default statuses (literals on purpose: a changed table must break the proof) *)
Definition protocol_default (k : mkind) : Z :=
  match k with
  | RegisterCreate | RegisterCreateWithReturnEntity => 201
  | RegisterUpdate | RegisterPartialUpdate | RegisterDelete => 204
  | _ => 200
  end.

Definition infix (a b : bytes) : Prop := exists p q, b = p ++ a ++ q.

Definition heap_after (x : exchange) : heap := match x with Exchanged _ _ h _ => h | Crashed h => h end.

(* the error object as serialized: the message defaulted to the status text when absent *)
Definition on_wire (e : err_resp) : err_resp :=
  match e_message e with Some _ => e | None => with_message e (Some (status_text (status_or_500 e))) end.

(* what the client holds for an error response e *)
Definition delivered (e : err_resp) : err_resp :=
  with_status (match e_message e with Some _ => e | None => with_message e (Some (status_text (status_or_500 e))) end)
              (Some (status_or_500 e)).

(* kinds whose implementation returns a pointer result that ServeHTTP serializes (a nil one cannot be serialized) or that
   the adapter dereferences (create) *)
Definition returns_pointer (k : mkind) : bool :=
  match k with
  | RegisterUpdate | RegisterPartialUpdate | RegisterDelete | RegisterAction
  | RegisterBatchCreate | RegisterBatchCreateWithReturnEntity => false
  | _ => true
  end.

Definition is_create (k : mkind) : bool :=
  match k with RegisterCreate | RegisterCreateWithReturnEntity => true | _ => false end.

(* methods without a result *)
Definition no_result (k : mkind) : bool :=
  match k with RegisterUpdate | RegisterPartialUpdate | RegisterDelete | RegisterAction => true | _ => false end.

(* the kinds whose successful response has a body *)
Definition has_body (k : mkind) : bool :=
  match k with
  | RegisterCreate | RegisterUpdate | RegisterPartialUpdate | RegisterDelete | RegisterAction => false
  | _ => true
  end.

(* an error response allocated by the server: status and message only *)
Definition fresh_err (s : Z) (msg : bytes) : err_resp := with_message (with_status err_empty (Some s)) (Some msg).

(* ------------------------------------------------------------------------------------------------ table facts *)

(* every newErrorResponsef call site of v2/restli answers 4xx or 5xx *)
Lemma all_site_statuses_4xx_5xx : forallb (fun s => (400 <=? s) && (s <=? 599)) all_site_statuses = true.
Proof. reflexivity. Qed.

Lemma all_site_statuses_ge_400 : forall s, In s all_site_statuses -> 400 <= s <= 599.
Proof.
  intros s Hin. pose proof all_site_statuses_4xx_5xx as H. rewrite forallb_forall in H.
  apply H in Hin. apply andb_true_iff in Hin as [H1 H2]. apply Z.leb_le in H1. apply Z.leb_le in H2. lia.
Qed.

(* the lemma that breaks when someone changes a default status in server.go *)
Lemma reg_default_is_protocol_default : forall k,
  match reg_default_status k with Some d => d | None => serve_initial_status end = protocol_default k.
Proof. destruct k; reflexivity. Qed.

Lemma protocol_default_valid k : valid_code (protocol_default k) = true.
Proof. destruct k; reflexivity. Qed.

Lemma protocol_default_2xx k : protocol_default k / 100 = 2.
Proof. destruct k; reflexivity. Qed.

(* the current ServeHTTP assigns no field through the resource's pointer *)
Lemma message_not_in_place : in_place f_message = false.
Proof. reflexivity. Qed.

Lemma unset_status_500 : serve_unset_status = 500.
Proof. reflexivity. Qed.

Lemma wrap_site_status k : s_status (wrap_site k) = 500 \/ s_status (wrap_site k) = 400.
Proof. destruct k; cbv; auto. Qed.

(* ------------------------------------------------------------------------------------------------ fmt *)

(* [fmt_ok g n]: g consumes exactly n operands (same parsing as sprintf) *)
Fixpoint fmt_ok (f : bytes) (n : nat) : bool :=
  match f with
  | [] => Nat.eqb n 0
  | c :: t =>
      if Byte.eqb c c_pct then
        match t with
        | v :: t' =>
            if Byte.eqb v c_q then match n with S n' => fmt_ok t' n' | O => false end
            else if Byte.eqb v c_s then match n with S n' => fmt_ok t' n' | O => false end
            else fmt_ok t n
        | [] => false
        end
      else fmt_ok t n
  end.

Lemma sprintf_cause_aux msg : forall k f, (length f <= k)%nat -> forall ops, fmt_ok f (length ops) = true ->
  sprintf (f ++ [c_pct; c_s]) (ops ++ [msg]) = sprintf f ops ++ msg.
Proof.
  induction k as [|k IH]; intros f Hlen ops Hok.
  - destruct f as [|c t]; [|simpl in Hlen; lia].
    destruct ops as [|a r]; [|simpl in Hok; discriminate Hok].
    simpl. rewrite app_nil_r. reflexivity.
  - destruct f as [|c t].
    + destruct ops as [|a r]; [|simpl in Hok; discriminate Hok].
      simpl. rewrite app_nil_r. reflexivity.
    + simpl in Hlen. cbn [fmt_ok] in Hok. cbn [app sprintf].
      destruct (Byte.eqb c c_pct) eqn:Ec.
      * destruct t as [|v t']; [discriminate Hok|].
        simpl in Hlen. cbn [app].
        destruct (Byte.eqb v c_q) eqn:Eq.
        { destruct ops as [|a r]; [discriminate Hok|]. cbn [length] in Hok. cbn [app].
          rewrite (IH t' ltac:(lia) r Hok). rewrite app_assoc. reflexivity. }
        destruct (Byte.eqb v c_s) eqn:Es.
        { destruct ops as [|a r]; [discriminate Hok|]. cbn [length] in Hok. cbn [app].
          rewrite (IH t' ltac:(lia) r Hok). rewrite app_assoc. reflexivity. }
        change (v :: t' ++ [c_pct; c_s]) with ((v :: t') ++ [c_pct; c_s]).
        rewrite (IH (v :: t') ltac:(simpl; lia) ops Hok). reflexivity.
      * rewrite (IH t ltac:(lia) ops Hok). reflexivity.
Qed.

(* the format ends in the cause's %s and the text before it consumes exactly n operands *)
Definition ends_in_cause (f : bytes) (n : nat) : bool :=
  bytes_eqb (skipn (length f - 2) f) [c_pct; c_s] && fmt_ok (firstn (length f - 2) f) n.

Lemma sprintf_cause f ops msg : ends_in_cause f (length ops) = true ->
  sprintf f (ops ++ [msg]) = sprintf (firstn (length f - 2) f) ops ++ msg.
Proof.
  unfold ends_in_cause. intro H. apply andb_true_iff in H as [Hs Hok]. apply bytes_eqb_eq in Hs.
  rewrite <- (firstn_skipn (length f - 2) f) at 1. rewrite Hs.
  apply (sprintf_cause_aux msg (length (firstn (length f - 2) f))); [lia|exact Hok].
Qed.

Lemma sprintf_cause_infix f ops msg : ends_in_cause f (length ops) = true -> infix msg (sprintf f (ops ++ [msg])).
Proof. intro H. rewrite (sprintf_cause f ops msg H). exists (sprintf (firstn (length f - 2) f) ops), []. rewrite app_nil_r. reflexivity. Qed.

(* the three formats that wrap the implementation's error take the name and end in the cause *)
Lemma wrap_site_fmt k : ends_in_cause (s_fmt (wrap_site k)) 1 = true.
Proof. destruct k; vm_compute; reflexivity. Qed.

(* ------------------------------------------------------------------------------------------------ records *)

Lemma with_status_same e s : e_status e = Some s -> with_status e (Some s) = e.
Proof. destruct e; simpl; intro H; subst; reflexivity. Qed.

Lemma valid_code_range s : valid_code s = true <-> 100 <= s <= 999.
Proof.
  unfold valid_code. rewrite andb_true_iff, !Z.leb_le. tauto.
Qed.

(* ------------------------------------------------------------------------------------------------ the handler *)

Lemma decode_ok m : decode_request m RqOk = None.
Proof. unfold decode_request. destruct (reg_adapter (m_kind m)); reflexivity. Qed.

(* the status the adapter leaves in ctx when the implementation returns an error or the method has no created status *)
Definition ctx_status (k : mkind) (i : impl) : Z := apply_override (protocol_default k) i.

Lemma rh_decode_fail m d i e : decode_request m d = Some e ->
  receive_handler m d i = (NoBody, Some e, serve_initial_status, false, false).
Proof. intro H. unfold receive_handler. rewrite H. reflexivity. Qed.

(* receive only looks at the request through decode_request *)
Lemma rh_decoded m d i : decode_request m d = None -> receive_handler m d i = receive_handler m RqOk i.
Proof. intro H. unfold receive_handler. rewrite H, decode_ok. reflexivity. Qed.

Lemma rh_errresp m i l : i_outcome i = OErrResp l ->
  receive_handler m RqOk i = (NoBody, Some (EShared l), ctx_status (m_kind m) i, false, true).
Proof.
  intro H. unfold receive_handler, ctx_status. rewrite decode_ok, <- reg_default_is_protocol_default.
  unfold reg_closure, adapter_wrap. rewrite H. cbn.
  destruct (reg_adapter (m_kind m)); reflexivity.
Qed.

Lemma rh_plain m i msg : i_outcome i = OPlain msg ->
  receive_handler m RqOk i =
  (NoBody, Some (EFresh (fresh_err (s_status (wrap_site (m_kind m))) (sprintf (s_fmt (wrap_site (m_kind m))) ([m_name m] ++ [msg])))),
   ctx_status (m_kind m) i, false, true).
Proof.
  intro H. unfold receive_handler, ctx_status. rewrite decode_ok, <- reg_default_is_protocol_default.
  unfold reg_closure, adapter_wrap. rewrite H. cbn.
  destruct (reg_adapter (m_kind m)); reflexivity.
Qed.

(* the error response receive's recover() builds *)
Definition recovered (msg : bytes) : err_resp :=
  mkErr (Some recover_status) None None (Some msg) None None None (if recover_has_stack then Some stack_marker else None) None false.

Lemma rh_panic m i msg : i_outcome i = OPanic msg ->
  receive_handler m RqOk i = (NoBody, Some (EFresh (recovered msg)), ctx_status (m_kind m) i, false, true).
Proof.
  intro H. unfold receive_handler, ctx_status. rewrite decode_ok, <- reg_default_is_protocol_default.
  unfold reg_closure, adapter_wrap. rewrite H. reflexivity.
Qed.

(* ------------------------------------------------------------------------------------------------ ServeHTTP's tail *)

(* the guard of handler.go:139-148 is exactly net/http's range.  A tree without the guard (serve_status_guard = None)
   breaks this lemma and with it [no_crash]. *)
Lemma guard_table : serve_status_guard = Some (100, 999).
Proof. reflexivity. Qed.

Lemma guard_status_500 : serve_guard_status = 500 /\ serve_guard_sets_header = true.
Proof. split; reflexivity. Qed.

Lemma server_statuses_valid :
  valid_code serve_guard_status = true /\ valid_code serve_marshal_fail_status = true /\
  valid_code serve_plain_error_status = true.
Proof. repeat split; reflexivity. Qed.

(* the error response that replaces a response whose status net/http cannot write (literal 500) *)
Definition guard_err (s : Z) : err_resp :=
  mkErr (Some 500) None None (Some (sprintf_d serve_guard_fmt s)) None None None None None false.
Definition guard_response (s : Z) (idh : bool) : response :=
  {| r_status := 500; r_errhdr := true; r_idhdr := idh; r_body := WError (guard_err s) |}.

Lemma guarded_body_spec s hdr idh b h :
  guarded_body s hdr idh b h = if valid_code s then serve_body s hdr idh b h else Resp (guard_response s idh) h.
Proof.
  unfold guarded_body, status_guard. rewrite guard_table. unfold valid_code.
  destruct (Z.ltb_spec s 100) as [H1|H1]; destruct (Z.ltb_spec 999 s) as [H2|H2];
    destruct (Z.leb_spec 100 s) as [H3|H3]; destruct (Z.leb_spec s 999) as [H4|H4]; try lia; cbn [orb andb];
    try reflexivity;
    (destruct guard_status_500 as [-> ->]; rewrite orb_true_r; reflexivity).
Qed.

Lemma guarded_body_valid s hdr idh b h : valid_code s = true -> guarded_body s hdr idh b h = serve_body s hdr idh b h.
Proof. intro H. rewrite guarded_body_spec, H. reflexivity. Qed.

Lemma guarded_body_invalid s hdr idh b h : valid_code s = false -> guarded_body s hdr idh b h = Resp (guard_response s idh) h.
Proof. intro H. rewrite guarded_body_spec, H. reflexivity. Qed.

(* no panic escapes the tail of ServeHTTP *)
Lemma guarded_body_resp s hdr idh b h : exists r, guarded_body s hdr idh b h = Resp r h.
Proof.
  rewrite guarded_body_spec. destruct (valid_code s) eqn:Hv; [|eexists; reflexivity].
  destruct server_statuses_valid as (_ & Hm & _).
  unfold serve_body, write. destruct b as [[[|txt|txt]|e]|]; rewrite ?Hv, ?Hm; eexists; reflexivity.
Qed.

(* an error response allocated by the server (it has a status and a message) goes out as it is *)
Lemma call_fresh h m d i b e s idh inv st msg :
  receive_handler m d i = (b, Some (EFresh e), s, idh, inv) ->
  e_status e = Some st -> e_message e = Some msg ->
  call h m d i = if valid_code st
                 then Exchanged {| r_status := st; r_errhdr := true; r_idhdr := idh; r_body := WError e |} (CError e true) h inv
                 else Exchanged (guard_response st idh) (CError (guard_err st) true) h inv.
Proof.
  intros Hrh Hst Hmsg. unfold call, serve. rewrite Hrh. unfold serve_error_response. rewrite Hmsg, Hst.
  rewrite guarded_body_spec.
  unfold serve_body, write. destruct (valid_code st) eqn:Hv; [|reflexivity].
  unfold client. cbn. rewrite Hst. reflexivity.
Qed.

(* the resource's own error response: serialized from a copy with the message defaulted, the cell untouched *)
Lemma call_shared h m d i b l s idh inv e :
  receive_handler m d i = (b, Some (EShared l), s, idh, inv) -> h_get h l = Some e ->
  call h m d i = if valid_code (status_or_500 e)
                 then Exchanged {| r_status := status_or_500 e; r_errhdr := true; r_idhdr := idh; r_body := WError (on_wire e) |}
                                (CError (delivered e) true) h inv
                 else Exchanged (guard_response (status_or_500 e) idh) (CError (guard_err (status_or_500 e)) true) h inv.
Proof.
  intros Hrh Hget. unfold call, serve. rewrite Hrh. unfold serve_error_response. rewrite Hget.
  rewrite message_not_in_place. unfold delivered, on_wire, status_or_500. rewrite unset_status_500.
  destruct (e_message e) as [msg|] eqn:Hmsg.
  - rewrite guarded_body_spec. unfold serve_body, write.
    destruct (valid_code (match e_status e with Some s0 => s0 | None => 500 end)) eqn:Hv; [|reflexivity].
    unfold client. cbn. destruct (e_status e) as [st|] eqn:Hst.
    + rewrite (with_status_same e st Hst). reflexivity.
    + reflexivity.
  - rewrite guarded_body_spec. unfold serve_body, write.
    destruct (valid_code (match e_status e with Some s0 => s0 | None => 500 end)) eqn:Hv; [|reflexivity].
    unfold client. cbn. destruct (e_status e) as [st|] eqn:Hst.
    + rewrite with_status_same; [reflexivity|]. exact Hst.
    + reflexivity.
Qed.

Lemma call_dangling h m d i b l s idh inv :
  receive_handler m d i = (b, Some (EShared l), s, idh, inv) -> h_get h l = None -> call h m d i = Crashed h.
Proof.
  intros Hrh Hget. unfold call, serve. rewrite Hrh. unfold serve_error_response. rewrite Hget. reflexivity.
Qed.

(* ------------------------------------------------------------------------------------------------ T1 *)

Lemma error_response_delivered_strong : forall h m i l e, h_get h l = Some e -> i_outcome i = OErrResp l ->
  valid_code (status_or_500 e) = true ->
  call h m RqOk i =
  Exchanged {| r_status := status_or_500 e; r_errhdr := true; r_idhdr := false; r_body := WError (on_wire e) |}
            (CError (delivered e) true) h true.
Proof.
  intros h m i l e Hget Hout Hv.
  rewrite (call_shared h m RqOk i _ l _ _ _ e (rh_errresp m i l Hout) Hget). rewrite Hv. reflexivity.
Qed.

Lemma error_response_delivered : forall h m i l e, h_get h l = Some e -> i_outcome i = OErrResp l ->
  valid_code (status_or_500 e) = true ->
  exists r, call h m RqOk i = Exchanged r (CError (delivered e) true) h true /\
            r_status r = status_or_500 e /\ r_errhdr r = true /\
            r_body r = WError (match e_message e with Some _ => e
                                                    | None => with_message e (Some (status_text (status_or_500 e))) end).
Proof.
  intros h m i l e Hget Hout Hv. eexists. split.
  - exact (error_response_delivered_strong h m i l e Hget Hout Hv).
  - repeat split; reflexivity.
Qed.

Lemma delivered_fields : forall e,
  e_svc (delivered e) = e_svc e /\ e_code (delivered e) = e_code e /\ e_exc (delivered e) = e_exc e /\
  e_doc (delivered e) = e_doc e /\ e_reqid (delivered e) = e_reqid e /\ e_dtype (delivered e) = e_dtype e /\
  e_stack (delivered e) = e_stack e /\ e_details (delivered e) = e_details e /\
  e_status (delivered e) = Some (status_or_500 e) /\
  e_message (delivered e) = Some (match e_message e with Some t => t | None => status_text (status_or_500 e) end).
Proof.
  intro e. unfold delivered. destruct (e_message e) as [t|] eqn:Hm.
  - simpl. rewrite Hm. repeat split; reflexivity.
  - simpl. repeat split; reflexivity.
Qed.

Lemma delivered_message : forall e t, e_message e = Some t -> e_message (delivered e) = e_message e.
Proof.
  intros e t H. destruct (delivered_fields e) as (_ & _ & _ & _ & _ & _ & _ & _ & _ & Hm). rewrite Hm, H. reflexivity.
Qed.

(* an error response that carries a status and a message arrives unchanged *)
Lemma delivered_complete : forall e s t, e_status e = Some s -> e_message e = Some t -> delivered e = e.
Proof.
  intros e s t Hs Ht. unfold delivered, status_or_500. rewrite Ht, Hs. apply with_status_same. exact Hs.
Qed.

(* ------------------------------------------------------------------------------------------------ T2 *)

Lemma wrap_site_valid k : valid_code (s_status (wrap_site k)) = true.
Proof. destruct k; reflexivity. Qed.

Lemma wrap_site_range k : 400 <= s_status (wrap_site k) <= 599.
Proof. destruct (wrap_site_status k) as [H|H]; rewrite H; lia. Qed.

(* the status of a wrapped plain error, in literals: 500, except 400 for actions (actions.go:135) *)
Lemma plain_error_status k : s_status (wrap_site k) = match reg_adapter k with AdAction => 400 | _ => 500 end.
Proof. destruct k; reflexivity. Qed.

(* a plain error: the adapter's site status (500; 400 for an action), "<name> failed: <cause>" *)
Lemma plain_error_response : forall h m i msg, i_outcome i = OPlain msg ->
  let s := s_status (wrap_site (m_kind m)) in
  let e := fresh_err s (sprintf (s_fmt (wrap_site (m_kind m))) [m_name m; msg]) in
  call h m RqOk i = Exchanged {| r_status := s; r_errhdr := true; r_idhdr := false; r_body := WError e |} (CError e true) h true.
Proof.
  intros h m i msg Hout s e.
  rewrite (call_fresh h m RqOk i _ e _ _ _ s (sprintf (s_fmt (wrap_site (m_kind m))) [m_name m; msg]) (rh_plain m i msg Hout)
             eq_refl eq_refl).
  unfold s. rewrite wrap_site_valid. reflexivity.
Qed.

(* a panic of the implementation: 500 with the panic's text (and a stack trace) *)
Lemma panic_error_response : forall h m i msg, i_outcome i = OPanic msg ->
  call h m RqOk i = Exchanged {| r_status := 500; r_errhdr := true; r_idhdr := false; r_body := WError (recovered msg) |}
                              (CError (recovered msg) true) h true.
Proof.
  intros h m i msg Hout.
  rewrite (call_fresh h m RqOk i _ (recovered msg) _ _ _ 500 msg (rh_panic m i msg Hout) eq_refl eq_refl). reflexivity.
Qed.

Definition marshal_failed (txt : bytes) : err_resp :=
  mkErr (Some 500) None None (Some (marshal_panic_prefix ++ txt)) None None None None None false.

(* a nil pointer result: create dereferences it in the adapter (recovered by receive), the others fail to serialize -
   unless the status the implementation left in ctx is one net/http cannot write: the guard answers first *)
Lemma nil_result_error_response : forall h m i, i_outcome i = OReturn RNil -> returns_pointer (m_kind m) = true ->
  let e := if is_create (m_kind m) then recovered nil_deref
           else if valid_code (ctx_status (m_kind m) i) then marshal_failed nil_deref
           else guard_err (ctx_status (m_kind m) i) in
  call h m RqOk i = Exchanged {| r_status := 500; r_errhdr := true; r_idhdr := false; r_body := WError e |} (CError e true) h true.
Proof.
  intros h m i Hout Hp e. unfold e. clear e.
  unfold call, serve, receive_handler. rewrite decode_ok. unfold adapter_wrap, reg_closure. rewrite Hout.
  unfold ctx_status.
  destruct (m_kind m); try discriminate Hp; cbn -[guarded_body]; rewrite guarded_body_spec; cbn;
    unfold serve_initial_status; try reflexivity;
    match goal with |- context [valid_code ?s] => destruct (valid_code s) eqn:Hv end; reflexivity.
Qed.

Lemma infix_refl a : infix a a.
Proof. exists [], []. rewrite app_nil_r. reflexivity. Qed.

(* the side condition of the nil-result clause: the status left in ctx can be written (create never gets that far) *)
Definition nil_reaches_marshal (k : mkind) (i : impl) : Prop :=
  is_create k = true \/ valid_code (match i_override i with Some o => o | None => protocol_default k end) = true.

Lemma other_failure_is_error_response : forall h m i msg,
  ( i_outcome i = OPlain msg \/ i_outcome i = OPanic msg \/
    (i_outcome i = OReturn RNil /\ returns_pointer (m_kind m) = true /\ msg = nil_deref /\ nil_reaches_marshal (m_kind m) i) ) ->
  exists r e s msg', call h m RqOk i = Exchanged r (CError e true) h true /\
     r_status r = s /\ 400 <= s <= 599 /\ r_errhdr r = true /\ r_body r = WError e /\ e_status e = Some s /\
     e_message e = Some msg' /\ infix msg msg'.
Proof.
  intros h m i msg [Hout | [Hout | (Hout & Hp & Hmsg & Hside)]].
  - eexists _, _, _, _. split; [exact (plain_error_response h m i msg Hout)|].
    cbn. repeat split; try reflexivity; try apply wrap_site_range.
    apply (sprintf_cause_infix _ [m_name m] msg). apply wrap_site_fmt.
  - eexists _, _, _, _. split; [exact (panic_error_response h m i msg Hout)|].
    cbn. repeat split; try reflexivity; try lia. apply infix_refl.
  - subst msg. pose proof (nil_result_error_response h m i Hout Hp) as Hc. cbv zeta in Hc.
    unfold nil_reaches_marshal in Hside. unfold ctx_status, apply_override in Hc.
    destruct (is_create (m_kind m)).
    + eexists _, _, 500, _. split; [exact Hc|].
      cbn. repeat split; try reflexivity; try lia. apply infix_refl.
    + destruct Hside as [Hside|Hside]; [discriminate Hside|]. rewrite Hside in Hc.
      eexists _, _, 500, _. split; [exact Hc|].
      cbn. repeat split; try reflexivity; try lia. exists marshal_panic_prefix, []. rewrite app_nil_r. reflexivity.
Qed.

(* whatever status the implementation left: a nil pointer result is a 500 error response with a message *)
Lemma nil_result_is_500 : forall h m i, i_outcome i = OReturn RNil -> returns_pointer (m_kind m) = true ->
  exists r e msg', call h m RqOk i = Exchanged r (CError e true) h true /\
     r_status r = 500 /\ r_errhdr r = true /\ r_body r = WError e /\ e_status e = Some 500 /\ e_message e = Some msg'.
Proof.
  intros h m i Hout Hp. pose proof (nil_result_error_response h m i Hout Hp) as Hc. cbv zeta in Hc.
  destruct (is_create (m_kind m)); [|destruct (valid_code (ctx_status (m_kind m) i))];
    (eexists _, _, _; split; [exact Hc|]; cbn; repeat split; reflexivity).
Qed.

(* The statement without [nil_reaches_marshal] is false since ServeHTTP checks the status before serializing: get sets
   ctx.ResponseStatus = 0 and returns a nil pointer; the answer is the guard's error response, whose message does not
   mention the nil dereference. *)
Definition other_failure_full : Prop := forall h m i msg,
  ( i_outcome i = OPlain msg \/ i_outcome i = OPanic msg \/
    (i_outcome i = OReturn RNil /\ returns_pointer (m_kind m) = true /\ msg = nil_deref) ) ->
  exists r e s msg', call h m RqOk i = Exchanged r (CError e true) h true /\
     r_status r = s /\ 400 <= s <= 599 /\ r_errhdr r = true /\ r_body r = WError e /\ e_status e = Some s /\
     e_message e = Some msg' /\ infix msg msg'.

Definition name_get : bytes := [x67; x65; x74].
Definition nil_meth : meth := {| m_kind := RegisterGet; m_name := name_get |}.
Definition nil_override_impl : impl :=
  {| i_override := Some 0; i_outcome := OReturn RNil; i_created_status := 0; i_id_marshals := true |}.

Lemma nil_override_witness :
  call [] nil_meth RqOk nil_override_impl = Exchanged (guard_response 0 false) (CError (guard_err 0) true) [] true.
Proof. vm_compute. reflexivity. Qed.

(* deciding [infix] *)
Fixpoint infixb (a b : bytes) : bool :=
  has_prefix a b || match b with [] => false | _ :: t => infixb a t end.

Lemma infixb_complete a b : infix a b -> infixb a b = true.
Proof.
  intros (p & q & ->). induction p as [|c p IH].
  - assert (Hp : has_prefix a (a ++ q) = true) by (apply has_prefix_spec; exists q; reflexivity).
    cbn [app]. destruct (a ++ q); cbn [infixb]; rewrite Hp; reflexivity.
  - cbn [app infixb]. rewrite IH. apply orb_true_r.
Qed.

Lemma other_failure_refuted : ~ other_failure_full.
Proof.
  intro H.
  destruct (H [] nil_meth nil_override_impl nil_deref (or_intror (or_intror (conj eq_refl (conj eq_refl eq_refl)))))
    as (r & e & s & msg' & Hc & _ & _ & _ & _ & _ & Hm & Hi).
  rewrite nil_override_witness in Hc. inversion Hc as [[Hr He]]. subst e. cbn in Hm. inversion Hm as [Hm']. subst msg'.
  apply infixb_complete in Hi. vm_compute in Hi. discriminate Hi.
Qed.

(* ------------------------------------------------------------------------------------------------ T3 *)

Definition served_heap (s : served) : heap := match s with Resp _ h => h | ServePanic h => h end.

Lemma write_heap s a b w h : served_heap (write s a b w h) = h.
Proof. unfold write. destruct (valid_code s); reflexivity. Qed.

Lemma serve_body_heap s a b o h : served_heap (serve_body s a b o h) = h.
Proof. unfold serve_body. destruct o as [[[|txt|txt]|e]|]; apply write_heap. Qed.

(* the only place the model can write a cell; it does not, BECAUSE the table lists no in-place write of Message *)
Lemma serve_error_response_heap h ev e' st h' : serve_error_response h ev = Some (e', st, h') -> h' = h.
Proof.
  unfold serve_error_response. rewrite message_not_in_place. intro H.
  destruct ev as [l|e|msg].
  - destruct (h_get h l) as [e|]; [|discriminate H].
    destruct (e_message e); inversion H; reflexivity.
  - destruct (e_message e); inversion H; reflexivity.
  - discriminate H.
Qed.

Lemma guarded_body_heap s a b o h : served_heap (guarded_body s a b o h) = h.
Proof. unfold guarded_body. destruct (status_guard s a o) as [[s' a'] o']. apply serve_body_heap. Qed.

Lemma serve_heap h m d i : served_heap (fst (serve h m d i)) = h.
Proof.
  unfold serve. destruct (receive_handler m d i) as [[[[b e] s] idh] inv]. cbn [fst].
  destruct e as [[l|e|msg]|].
  - destruct (serve_error_response h (EShared l)) as [[[e' st] h']|] eqn:Hs; [|reflexivity].
    apply serve_error_response_heap in Hs. subst h'. apply guarded_body_heap.
  - destruct (serve_error_response h (EFresh e)) as [[[e' st] h']|] eqn:Hs; [|reflexivity].
    apply serve_error_response_heap in Hs. subst h'. apply guarded_body_heap.
  - apply write_heap.
  - apply guarded_body_heap.
Qed.

Lemma error_objects_not_modified : forall h m d i, heap_after (call h m d i) = h.
Proof.
  intros h m d i. unfold call. pose proof (serve_heap h m d i) as H.
  destruct (serve h m d i) as [[r h'|h'] inv]; exact H.
Qed.

(* Non-vacuity of the dependence on the table: ServeHTTP's error-response branch with the flag [in_place f_message] made a
   parameter.  At the table's value it IS the model's function; with the flag set, a shared error object without a
   message is modified in its cell. *)
Definition serve_error_response_flag (flag : bool) (h : heap) (ev : errv) : option (err_resp * Z * heap) :=
  let go (e : err_resp) (shared : option loc) :=
    let st := match e_status e with Some s => s | None => serve_unset_status end in
    match e_message e with
    | Some _ => (e, st, h)
    | None =>
        let e' := with_message e (Some (status_text st)) in
        match shared with
        | Some l => if flag then (e', st, h_set h l e') else (e', st, h)
        | None => (e', st, h)
        end
    end in
  match ev with
  | EShared l => match h_get h l with Some e => Some (go e (Some l)) | None => None end
  | EFresh e => Some (go e None)
  | EPlainErr _ => None
  end.

Lemma serve_error_response_flag_is_model h ev :
  serve_error_response_flag (in_place f_message) h ev = serve_error_response h ev.
Proof. reflexivity. Qed.

Lemma h_get_set h : forall l e e', h_get h l = Some e -> h_get (h_set h l e') l = Some e'.
Proof.
  induction h as [|x t IH]; intros l e e' H.
  - destruct l; discriminate H.
  - destruct l as [|l'].
    + reflexivity.
    + simpl. simpl in H. exact (IH l' e e' H).
Qed.

Lemma in_place_write_would_modify : forall h l e, h_get h l = Some e -> e_message e = None ->
  exists e' st h', serve_error_response_flag true h (EShared l) = Some (e', st, h') /\
                   h_get h' l = Some e' /\ e_message e' = Some (status_text (status_or_500 e)) /\ h' <> h.
Proof.
  intros h l e Hget Hmsg. unfold serve_error_response_flag. rewrite Hget, Hmsg. eexists _, _, _. split; [reflexivity|].
  split; [exact (h_get_set h l e _ Hget)|]. split; [reflexivity|].
  intro Heq. pose proof (h_get_set h l e (with_message e (Some (status_text (status_or_500 e)))) Hget) as H1.
  unfold status_or_500 in H1. rewrite <- unset_status_500 in H1. rewrite Heq in H1. rewrite Hget in H1.
  inversion H1 as [H2]. rewrite H2 in Hmsg. discriminate Hmsg.
Qed.

(* ... and, stated on the model itself: were Message listed in the table, the resource's object would be modified *)
Lemma in_place_write_would_modify_model : in_place f_message = true ->
  forall h l e, h_get h l = Some e -> e_message e = None ->
  exists e' st h', serve_error_response h (EShared l) = Some (e', st, h') /\ h' <> h.
Proof.
  intros Hflag h l e Hget Hmsg. rewrite <- serve_error_response_flag_is_model, Hflag.
  destruct (in_place_write_would_modify h l e Hget Hmsg) as (e' & st & h' & H1 & _ & _ & H2).
  exists e', st, h'. split; assumption.
Qed.

(* ------------------------------------------------------------------------------------------------ T4 *)

(* the status a successful call answers *)
Definition success_status (k : mkind) (i : impl) : Z :=
  let s := match i_override i with Some o => o | None => protocol_default k end in
  match k with
  | RegisterCreate | RegisterCreateWithReturnEntity => if Z.eqb (i_created_status i) 0 then s else i_created_status i
  | _ => s
  end.

Definition success_response (k : mkind) (i : impl) : response :=
  {| r_status := success_status k i; r_errhdr := false; r_idhdr := is_create k;
     r_body := if has_body k then WValue else WNone |}.

Lemma success_exchange : forall h m i, i_outcome i = OReturn (RValue MOk) ->
  (is_create (m_kind m) = true -> i_id_marshals i = true) ->
  call h m RqOk i = if valid_code (success_status (m_kind m) i)
                    then Exchanged (success_response (m_kind m) i) (client (m_kind m) (success_response (m_kind m) i)) h true
                    else Exchanged (guard_response (success_status (m_kind m) i) (is_create (m_kind m)))
                                   (CError (guard_err (success_status (m_kind m) i)) true) h true.
Proof.
  intros h m i Hout Hid.
  unfold call, serve, receive_handler. rewrite decode_ok. unfold adapter_wrap, reg_closure. rewrite Hout.
  unfold success_response, success_status, apply_override.
  destruct (m_kind m); cbn in Hid; try rewrite (Hid eq_refl); cbn -[guarded_body]; rewrite guarded_body_spec;
    unfold serve_body, write, serve_initial_status; destruct (i_override i) as [o|]; cbn;
    try match goal with |- context [valid_code ?s] => destruct (valid_code s) eqn:Hv end; reflexivity.
Qed.

Lemma success_statuses : forall h m i, i_outcome i = OReturn (RValue MOk) -> i_id_marshals i = true ->
  let s := match i_override i with Some o => o | None => protocol_default (m_kind m) end in
  let s' := match m_kind m with
            | RegisterCreate | RegisterCreateWithReturnEntity => if Z.eqb (i_created_status i) 0 then s else i_created_status i
            | _ => s
            end in
  valid_code s' = true ->
  exists r c, call h m RqOk i = Exchanged r c h true /\ r_errhdr r = false /\ r_status r = s'.
Proof.
  intros h m i Hout Hid s s' Hv.
  pose proof (success_exchange h m i Hout (fun _ => Hid)) as Hc.
  change (success_status (m_kind m) i) with s' in Hc. rewrite Hv in Hc.
  eexists _, _. split; [exact Hc|]. split; reflexivity.
Qed.

Lemma success_status_default k i : i_override i = None -> i_created_status i = 0 -> success_status k i = protocol_default k.
Proof. intros Ho Hc. unfold success_status. rewrite Ho, Hc. destruct k; reflexivity. Qed.

(* without an override: 201 for create (the client gets the created entity with that status), 204 for update,
   partial_update and delete, 200 for everything else; the client gets its result *)
Lemma success_default_statuses : forall h m i, i_outcome i = OReturn (RValue MOk) -> i_id_marshals i = true ->
  i_override i = None -> i_created_status i = 0 ->
  exists r, call h m RqOk i =
            Exchanged r (match client_reading (m_kind m) with
                         | RdCreated | RdCreatedAndUnmarshal => CCreated 201
                         | _ => COk
                         end) h true /\
            r_status r = protocol_default (m_kind m) /\ r_errhdr r = false /\ r_idhdr r = is_create (m_kind m).
Proof.
  intros h m i Hout Hid Ho Hc.
  pose proof (success_exchange h m i Hout (fun _ => Hid)) as Hx.
  unfold success_response in Hx. rewrite (success_status_default _ i Ho Hc), protocol_default_valid in Hx.
  exists (success_response (m_kind m) i). unfold success_response. rewrite (success_status_default _ i Ho Hc).
  split; [rewrite Hx|repeat split; reflexivity].
  destruct (m_kind m); reflexivity.
Qed.

(* update, partial_update, delete and actions without results succeed whatever the implementation returns beside a nil
   error *)
Lemma success_no_result : forall h m i r0, no_result (m_kind m) = true -> i_outcome i = OReturn r0 ->
  let s := match i_override i with Some o => o | None => protocol_default (m_kind m) end in
  valid_code s = true ->
  exists r c, call h m RqOk i = Exchanged r c h true /\ r_status r = s /\ r_errhdr r = false /\ r_idhdr r = false /\
              r_body r = WNone /\ c = (if Z.eqb (s / 100) 2 then COk else CUnexpected s).
Proof.
  intros h m i r0 Hk Hout s Hv.
  unfold call, serve, receive_handler. rewrite decode_ok. unfold adapter_wrap, reg_closure. rewrite Hout.
  unfold apply_override. subst s.
  destruct (m_kind m); try discriminate Hk; cbn -[guarded_body]; rewrite guarded_body_spec;
    unfold serve_body, write, serve_initial_status; cbn in Hv; rewrite Hv;
    (eexists _, _; split; [reflexivity|]; cbn; repeat split;
     unfold client; cbn;
     match goal with |- context [Z.eqb ?a 2] => destruct (Z.eqb a 2); reflexivity end).
Qed.

(* ------------------------------------------------------------------------------------------------ T5 *)

(* every request-decoding failure is a server-allocated error response with status 400 (literal) and a message *)
Lemma decode_request_shape m d e0 : decode_request m d = Some e0 -> exists msg, e0 = EFresh (fresh_err 400 msg).
Proof.
  unfold decode_request. intro H.
  destruct (reg_adapter (m_kind m)); destruct d as [|c|c|c|]; try discriminate H;
    inversion H; eexists; reflexivity.
Qed.

Lemma malformed_request_exchange : forall h m d i e0, decode_request m d = Some e0 ->
  exists msg, e0 = EFresh (fresh_err 400 msg) /\
    call h m d i = Exchanged {| r_status := 400; r_errhdr := true; r_idhdr := false; r_body := WError (fresh_err 400 msg) |}
                             (CError (fresh_err 400 msg) true) h false.
Proof.
  intros h m d i e0 Hd. destruct (decode_request_shape m d e0 Hd) as [msg He]. subst e0.
  exists msg. split; [reflexivity|].
  rewrite (call_fresh h m d i _ (fresh_err 400 msg) _ _ _ 400 msg (rh_decode_fail m d i _ Hd) eq_refl eq_refl).
  reflexivity.
Qed.

Lemma malformed_request_is_400 : forall h m d i e0, decode_request m d = Some e0 ->
  exists r e, call h m d i = Exchanged r (CError e true) h false /\ r_status r = 400 /\ r_errhdr r = true /\
              r_body r = WError e /\ e_status e = Some 400.
Proof.
  intros h m d i e0 Hd. destruct (malformed_request_exchange h m d i e0 Hd) as (msg & _ & Hc).
  eexists _, _. split; [exact Hc|]. repeat split; reflexivity.
Qed.

(* which requests are malformed: everything but a well-formed one, a body where one is expected anyway, and a query on an
   action (actions read no query parameters) *)
Lemma malformed_iff m d :
  decode_request m d = None <->
  (d = RqOk \/ (d = RqExtraBody /\ (reg_adapter (m_kind m) = AdBody \/ reg_adapter (m_kind m) = AdAction)) \/
   (exists c, d = RqBadQuery c /\ reg_adapter (m_kind m) = AdAction)).
Proof.
  unfold decode_request. destruct (reg_adapter (m_kind m)); destruct d as [|c|c|c|]; split; intro H;
    try reflexivity; try discriminate H; auto;
    try (right; right; exists c; split; reflexivity);
    try (destruct H as [H | [(H & [H1 | H1]) | (c' & H & H1)]]; discriminate).
Qed.

(* ------------------------------------------------------------------------------------------------ T6 *)

(* a request that is not rejected by the decoder is handled like a well-formed one *)
Lemma call_decoded h m d i : decode_request m d = None -> call h m d i = call h m RqOk i.
Proof. intro H. unfold call, serve. rewrite (rh_decoded m d i H). reflexivity. Qed.

(* the error pointer the implementation returns points to an object *)
Definition no_dangling (h : heap) (i : impl) : Prop := forall l, i_outcome i = OErrResp l -> exists e, h_get h l = Some e.

(* No panic escapes ServeHTTP, whatever statuses the resource chooses, and the heap is unchanged.  Depends on the guard
   found in the tree ([guard_table], through [guarded_body_spec] / [guarded_body_resp]) and on the server's own statuses
   being ones net/http accepts ([server_statuses_valid]). *)
Lemma no_crash : forall h m d i, no_dangling h i -> exists r c inv, call h m d i = Exchanged r c h inv.
Proof.
  intros h m d i Hwf. destruct (decode_request m d) as [e0|] eqn:Hd.
  - destruct (malformed_request_exchange h m d i e0 Hd) as (msg & _ & Hc). rewrite Hc. eexists _, _, _. reflexivity.
  - rewrite (call_decoded h m d i Hd).
    destruct (i_outcome i) as [r|l|msg|msg] eqn:Hout.
    + unfold call, serve, receive_handler. rewrite decode_ok. unfold adapter_wrap, reg_closure. rewrite Hout.
      destruct (m_kind m), r as [[|t|t]|], (i_id_marshals i); cbn -[guarded_body];
        match goal with |- context [guarded_body ?s ?a ?b ?c ?hh] =>
          destruct (guarded_body_resp s a b c hh) as [r' Hr]; rewrite Hr end;
        eexists _, _, _; reflexivity.
    + destruct (Hwf l Hout) as [e Hget].
      rewrite (call_shared h m RqOk i _ l _ _ _ e (rh_errresp m i l Hout) Hget).
      destruct (valid_code (status_or_500 e)); eexists _, _, _; reflexivity.
    + pose proof (plain_error_response h m i msg Hout) as Hc. cbv zeta in Hc. rewrite Hc. eexists _, _, _. reflexivity.
    + rewrite (panic_error_response h m i msg Hout). eexists _, _, _. reflexivity.
Qed.

(* the only way out of [no_crash]'s premise: a dangling pointer, which Go's type system excludes *)
Lemma dangling_crashes : forall h m i l, i_outcome i = OErrResp l -> h_get h l = None -> call h m RqOk i = Crashed h.
Proof. intros h m i l Hout Hget. exact (call_dangling h m RqOk i _ l _ _ _ (rh_errresp m i l Hout) Hget). Qed.

(* ------------------------------------------------------------------------------------------------ invalid statuses *)

(* an error object whose status net/http cannot write: 500, the error header, a server-made error response *)
Lemma invalid_error_status_is_500 : forall h m i l e s, h_get h l = Some e -> i_outcome i = OErrResp l ->
  e_status e = Some s -> valid_code s = false ->
  call h m RqOk i = Exchanged (guard_response s false) (CError (guard_err s) true) h true.
Proof.
  intros h m i l e s Hget Hout Hs Hv.
  rewrite (call_shared h m RqOk i _ l _ _ _ e (rh_errresp m i l Hout) Hget).
  unfold status_or_500. rewrite Hs, Hv. reflexivity.
Qed.

(* a successful outcome whose status (the override, or create's CreatedEntity.Status) cannot be written *)
Lemma invalid_success_status_is_500 : forall h m i, i_outcome i = OReturn (RValue MOk) ->
  (is_create (m_kind m) = true -> i_id_marshals i = true) ->
  valid_code (success_status (m_kind m) i) = false ->
  call h m RqOk i = Exchanged (guard_response (success_status (m_kind m) i) (is_create (m_kind m)))
                              (CError (guard_err (success_status (m_kind m) i)) true) h true.
Proof. intros h m i Hout Hid Hv. rewrite (success_exchange h m i Hout Hid), Hv. reflexivity. Qed.

Lemma guard_response_fields s idh :
  r_status (guard_response s idh) = 500 /\ r_errhdr (guard_response s idh) = true /\
  r_body (guard_response s idh) = WError (guard_err s) /\ e_status (guard_err s) = Some 500 /\
  e_message (guard_err s) = Some (sprintf_d serve_guard_fmt s).
Proof. repeat split; reflexivity. Qed.

Lemma invalid_status_is_500 : forall h m i,
  ( (exists l e s, h_get h l = Some e /\ i_outcome i = OErrResp l /\ e_status e = Some s /\ valid_code s = false) \/
    (i_outcome i = OReturn (RValue MOk) /\ i_id_marshals i = true /\
     let s := match i_override i with Some o => o | None => protocol_default (m_kind m) end in
     valid_code (match m_kind m with
                 | RegisterCreate | RegisterCreateWithReturnEntity =>
                     if Z.eqb (i_created_status i) 0 then s else i_created_status i
                 | _ => s
                 end) = false) ) ->
  exists r e, call h m RqOk i = Exchanged r (CError e true) h true /\
              r_status r = 500 /\ r_errhdr r = true /\ r_body r = WError e /\ e_status e = Some 500.
Proof.
  intros h m i [(l & e & s & Hget & Hout & Hs & Hv) | (Hout & Hid & Hv)].
  - eexists _, _. split; [exact (invalid_error_status_is_500 h m i l e s Hget Hout Hs Hv)|]. repeat split; reflexivity.
  - eexists _, _. split; [exact (invalid_success_status_is_500 h m i Hout (fun _ => Hid) Hv)|]. repeat split; reflexivity.
Qed.

(* ------------------------------------------------------------------------------------------------ filters *)

Definition fresult_ok (r : fresult) : bool := match r with FOk => true | _ => false end.
(* a filter none of whose hooks fails (it may add context values and response headers) *)
Definition passing (f : filter) : bool := fresult_ok (f_pre f) && fresult_ok (f_post f).

Lemma first_err_all_ok : forall l, forallb fresult_ok l = true -> first_err l = None.
Proof.
  induction l as [|r t IH]; intros Hall; [reflexivity|].
  simpl in Hall. apply andb_true_iff in Hall. destruct Hall as [Hr Ht].
  destruct r; try discriminate Hr. simpl. apply IH. exact Ht.
Qed.

Lemma serve_is_tail : forall h m d i, serve h m d i = serve_tail h (receive_handler m d i).
Proof.
  intros h m d i. unfold serve, serve_tail.
  destruct (receive_handler m d i) as [[[[b e] s] idh] inv]. reflexivity.
Qed.

Lemma serve_f_nil : forall h m d i, serve_f h [] m d i = serve h m d i.
Proof.
  intros h m d i. rewrite serve_is_tail. unfold serve_f, receive_f, run_pre_filters, run_post_filters. simpl.
  destruct (receive_handler m d i) as [[[[b e] s] idh] inv]. destruct e; reflexivity.
Qed.

Lemma call_f_nil : forall h m d i, call_f h [] m d i = call h m d i.
Proof. intros h m d i. unfold call_f, call. rewrite serve_f_nil. reflexivity. Qed.

Lemma passing_pre : forall fs, forallb passing fs = true -> run_pre_filters fs = None.
Proof.
  intros fs Hall. unfold run_pre_filters. apply first_err_all_ok.
  induction fs as [|f t IH]; [reflexivity|].
  simpl in Hall. apply andb_true_iff in Hall. destruct Hall as [Hf Ht].
  unfold passing in Hf. apply andb_true_iff in Hf. destruct Hf as [Hpre _].
  simpl. rewrite Hpre. simpl. apply IH. exact Ht.
Qed.

Lemma forallb_rev : forall (A : Type) (p : A -> bool) (l : list A), forallb p (rev l) = forallb p l.
Proof.
  intros A p l. induction l as [|a t IH]; [reflexivity|].
  simpl. rewrite forallb_app. simpl. rewrite IH. rewrite andb_true_r. apply andb_comm.
Qed.

Lemma passing_post : forall fs, forallb passing fs = true -> run_post_filters fs = None.
Proof.
  intros fs Hall. unfold run_post_filters. apply first_err_all_ok.
  rewrite <- (forallb_rev _ passing) in Hall.
  induction (rev fs) as [|f t IH]; [reflexivity|].
  simpl in Hall. apply andb_true_iff in Hall. destruct Hall as [Hf Ht].
  unfold passing in Hf. apply andb_true_iff in Hf. destruct Hf as [_ Hpost].
  simpl. rewrite Hpost. simpl. apply IH. exact Ht.
Qed.

(* filters whose hooks do not fail leave the reply (and the resource's invocation) exactly as it is without filters *)
Theorem passing_filters_transparent : forall h fs m d i, forallb passing fs = true -> call_f h fs m d i = call h m d i.
Proof.
  intros h fs m d i Hall. unfold call_f, call. rewrite serve_is_tail.
  unfold serve_f, receive_f. rewrite (passing_pre fs Hall), (passing_post fs Hall).
  destruct (receive_handler m d i) as [[[[b e] s] idh] inv]. destruct e; reflexivity.
Qed.

(* a failure of the call (the resource's error response, any other error it returned, a recovered panic, a request that does
   not decode) is delivered exactly as without filters, WHATEVER the PostRequest hooks would return: they do not run *)
Theorem failure_not_masked_by_filters : forall h fs m d i b e s idh inv,
  run_pre_filters fs = None -> receive_handler m d i = (b, Some e, s, idh, inv) -> call_f h fs m d i = call h m d i.
Proof.
  intros h fs m d i b e s idh inv Hpre Hrec. unfold call_f, call. rewrite serve_is_tail.
  unfold serve_f, receive_f. rewrite Hpre, Hrec. reflexivity.
Qed.

(* ... in particular for every failing outcome of the implementation *)
Theorem resource_failure_not_masked : forall h fs m i,
  run_pre_filters fs = None ->
  (exists l, i_outcome i = OErrResp l) \/ (exists msg, i_outcome i = OPlain msg) \/ (exists msg, i_outcome i = OPanic msg) ->
  call_f h fs m RqOk i = call h m RqOk i.
Proof.
  intros h fs m i Hpre Hout.
  assert (Hsome : exists b e s idh inv, receive_handler m RqOk i = (b, Some e, s, idh, inv)).
  { unfold receive_handler. rewrite (decode_ok m).
    unfold reg_closure.
    destruct Hout as [[l Ho] | [[msg Ho] | [msg Ho]]]; rewrite Ho; unfold adapter_wrap; simpl.
    - destruct (reg_adapter (m_kind m)); simpl; repeat eexists.
    - destruct (reg_adapter (m_kind m)); simpl; repeat eexists.
    - repeat eexists. }
  destruct Hsome as (b & e & s & idh & inv & Hrec).
  exact (failure_not_masked_by_filters h fs m RqOk i b e s idh inv Hpre Hrec).
Qed.

(* a failing PreRequest hook answers the request: the implementation is not invoked *)
Theorem pre_failure_not_invoked : forall h fs m d i e, run_pre_filters fs = Some e -> snd (serve_f h fs m d i) = false.
Proof. intros h fs m d i e Hpre. unfold serve_f, receive_f. rewrite Hpre. reflexivity. Qed.
