(* C07, decode side, combined with C06: the whole-document decode theorems of MissingProofs (excl = ps_empty) generalised to an
   ARBITRARY exclusion spec.  "A decoder configured with an exclusion specification rejects a document that carries an excluded
   field and does not report an excluded required field as missing", and still "reports exactly the set of absent required
   fields" - those that are not excluded.

   Vocabulary (all independent of the tracker code; the tracker is tied to it by [enter_map_x] / [record_missing_x]):
     member_path wc ig sc        the path the matcher sees for the member at scope sc: the scope minus its [ig] leading segments,
                                 array indices replaced by the wildcard
     excluded_at wc excl ig sc   ig < |sc| and ps_matches wc excl (member_path wc ig sc)     (= spec_excludes for a well-formed
                                 directive list: [excluded_at_iff_spec])
     carries e exb t d sc p      (inductive, no fuel, no document order) decoding d at type t under scope sc reaches a non-null
                                 object member - ANY member of a record object, the member of a union, an entry of a map - whose
                                 scope p is excluded; positions are reached through known fields / union members / map entries /
                                 array items
     first_excluded .. sc        the same as a function: the FIRST such member in document order, depth first
     missing_paths e f t d sc    the scopes (seg lists) of the absent required fields; MissingProofs.missing_spec is its image
                                 under scope_string ([missing_spec_paths])
     reported .. f t d sc        map scope_string (filter (not excluded_at) (missing_paths ..))          ([reported_eq])
   The decoded value is MissingProofs.decode_spec, the same function as without exclusions (the default literals are read with
   NewJsonReader, i.e. without exclusions, by the generated code and by the model alike); the spec enters only through the raising flag.

   Method: one generic missing-set function [missingG] (output type and "what to emit at an absent required field" abstract) gives
   the strings, the paths and the filtered strings by instantiation; one step of the decoder is characterised for an arbitrary spec
   ([stepJ_exactX], over an abstract recursive call, so that it serves decJ and the ROR2 tree decoder decTj alike); induction on
   the fuel gives [decJ_exactX].  No model file is modified. *)
From Coq Require Import List Bool Arith ZArith NArith Lia Permutation.
From Coq.Strings Require Import Byte.
From GR Require Import Base.Bytes Base.Res Base.Dec Codec.Schema Codec.Doc Codec.Escape Codec.Utf8 Codec.Json Codec.Tracker Codec.Decode.
From GR Require Import Codec.AnyReader Gen.TablesCodec.
From GR Require Import Proofs.Ror2NoPanic Proofs.SortProofs Proofs.Ror2RoundTrip Proofs.PathSpecProofs Proofs.Ror2Refines
  Proofs.AnyProofs Proofs.MissingProofs.
Import ListNotations.

Section Excl.
  Variable wc : bytes.
  Variable excl : pathspec.
  Variable ignore : nat.
  Definition member_path (sc : list seg) : list bytes := map (seg_name wc) (skipn ignore sc).
  Definition excluded_at (sc : list seg) : bool := Nat.ltb ignore (length sc) && ps_matches wc excl (member_path sc).
End Excl.

Section MSG.
  Variable e : env.
  Variable B : Type.
  Variable here : list seg -> list B.
  Section Step.
    Variable MS : ty -> jdoc -> list seg -> list B.
    Fixpoint mg_arr (t' : ty) (sc : list seg) (i : nat) (items : list jdoc) : list B :=
      match items with [] => [] | x :: r => MS t' x (sc ++ [SIdx i]) ++ mg_arr t' sc (S i) r end.
    Definition mg_field (es : list (bytes * jdoc)) (sc : list seg) (fd : field) : list B :=
      match present es (f_name fd) with
      | Some x => MS (f_ty fd) x (sc ++ [SKey (f_name fd)])
      | None => if is_required (f_opt fd) then here (sc ++ [SKey (f_name fd)]) else []
      end.
    Definition mg_step (t : ty) (d : jdoc) (sc : list seg) : list B :=
      match t with
      | TArray t' => match d with JArr items => mg_arr t' sc 0 items | _ => [] end
      | TMap t' =>
          flat_map (fun kx => if is_null (snd kx) then [] else MS t' (snd kx) (sc ++ [SKey (fst kx)])) (entries_of d)
      | TRef n =>
          match lookup e n with
          | Some (DRecord _ _) => flat_map (mg_field (entries_of d) sc) (fields_of e n)
          | Some (DUnion _ ms) =>
              flat_map (fun kx => if is_null (snd kx) then []
                                  else match assoc_ty (fst kx) ms with
                                       | Some mt => MS mt (snd kx) (sc ++ [SKey (fst kx)])
                                       | None => []
                                       end) (entries_of d)
          | None => []
          end
      | _ => []
      end.
  End Step.
  Fixpoint missingG (fuel : nat) (t : ty) (d : jdoc) (sc : list seg) : list B :=
    match fuel with 0 => [] | S f => mg_step (missingG f) t d sc end.
End MSG.

Definition missing_paths (e : env) := missingG e (list seg) (fun p => [p]).
Definition missing_specX (e : env) (keep : list seg -> bool) :=
  missingG e bytes (fun p => if keep p then [scope_string p] else []).

Section FE.
  Variable e : env.
  Variable exb : list seg -> bool.
  Section Step.
    Variable FE : ty -> jdoc -> list seg -> option (list seg).
    Fixpoint fe_arr (t' : ty) (sc : list seg) (i : nat) (items : list jdoc) : option (list seg) :=
      match items with
      | [] => None
      | x :: r => match FE t' x (sc ++ [SIdx i]) with Some p => Some p | None => fe_arr t' sc (S i) r end
      end.
    Fixpoint fe_obj (child : bytes -> option ty) (sc : list seg) (es : list (bytes * jdoc)) : option (list seg) :=
      match es with
      | [] => None
      | kx :: r =>
          if is_null (snd kx) then fe_obj child sc r
          else if exb (sc ++ [SKey (fst kx)]) then Some (sc ++ [SKey (fst kx)])
          else match (match child (fst kx) with Some t' => FE t' (snd kx) (sc ++ [SKey (fst kx)]) | None => None end) with
               | Some p => Some p
               | None => fe_obj child sc r
               end
      end.
    Definition rec_child (n : nat) (k : bytes) : option ty :=
      match field_of e n k with Some fd => Some (f_ty fd) | None => None end.
    Definition fe_step (t : ty) (d : jdoc) (sc : list seg) : option (list seg) :=
      match t with
      | TArray t' => match d with JArr items => fe_arr t' sc 0 items | _ => None end
      | TMap t' => fe_obj (fun _ => Some t') sc (entries_of d)
      | TRef n =>
          match lookup e n with
          | Some (DRecord _ _) => fe_obj (rec_child n) sc (entries_of d)
          | Some (DUnion _ ms) => fe_obj (fun k => assoc_ty k ms) sc (entries_of d)
          | None => None
          end
      | _ => None
      end.
  End Step.
  Fixpoint first_excluded (fuel : nat) (t : ty) (d : jdoc) (sc : list seg) : option (list seg) :=
    match fuel with 0 => None | S f => fe_step (first_excluded f) t d sc end.
End FE.

(* ---------------------------------------------------------------------------------------------------------------------------
   1. the tracker, restated on the scope path
   --------------------------------------------------------------------------------------------------------------------------- *)
Section TrackerX.
  Variables (wc : bytes) (excl : pathspec) (ignore : nat).
  Notation exb := (excluded_at wc excl ignore).

  Lemma enter_map_x k tr :
    enter_map wc excl ignore k tr =
    if exb (t_scope tr ++ [SKey k]) then Err (EExcluded (scope_string (t_scope tr ++ [SKey k]))) else Ok (push (SKey k) tr).
  Proof.
    unfold enter_map, excluded_at, member_path, push. simpl t_scope.
    destruct (Nat.leb_spec (length (t_scope tr ++ [SKey k])) ignore) as [H|H];
      destruct (Nat.ltb_spec ignore (length (t_scope tr ++ [SKey k]))) as [H'|H']; try lia; simpl; [reflexivity|].
    destruct (ps_matches wc excl _); reflexivity.
  Qed.

  Lemma is_key_excluded_x k tr : is_key_excluded wc excl ignore k tr = exb (t_scope tr ++ [SKey k]).
  Proof. unfold is_key_excluded. rewrite enter_map_x. destruct (exb _); reflexivity. Qed.

  Definition hereK (p : list seg) : list bytes := if negb (exb p) then [scope_string p] else [].

  Lemma record_missing_x rem tr :
    t_scope tr <> [SKey []] ->
    t_missing (record_missing wc excl ignore rem tr) = t_missing tr ++ flat_map (fun f => hereK (t_scope tr ++ [SKey f])) rem /\
    t_scope (record_missing wc excl ignore rem tr) = t_scope tr.
  Proof.
    intros Hsc. unfold record_missing. simpl. split; [|reflexivity]. f_equal.
    induction rem as [|a rem IH]; simpl; [reflexivity|]. rewrite is_key_excluded_x. unfold hereK at 1.
    destruct (exb (t_scope tr ++ [SKey a])); simpl; [exact IH|]. rewrite IH. f_equal. apply missing_path. exact Hsc.
  Qed.

  Lemma excluded_at_empty_spec sc : excluded_at wc ps_empty ignore sc = false.
  Proof. unfold excluded_at. rewrite ps_matches_empty. apply andb_false_r. Qed.
End TrackerX.

(* ---------------------------------------------------------------------------------------------------------------------------
   2. the generic missing-set function: one definition, three readings (strings = MissingProofs.missing_spec, paths, filtered)
   --------------------------------------------------------------------------------------------------------------------------- *)
Lemma flat_map_flat_map {A B C} (g : A -> list B) (h : B -> list C) l :
  flat_map h (flat_map g l) = flat_map (fun x => flat_map h (g x)) l.
Proof. induction l as [|a l IH]; simpl; [reflexivity|]. rewrite flat_map_app, IH. reflexivity. Qed.

Lemma map_as_flat_map {A B} (f : A -> B) l : map f l = flat_map (fun x => [f x]) l.
Proof. induction l as [|a l IH]; simpl; [reflexivity|]. rewrite IH. reflexivity. Qed.

Lemma map_filter_as_flat_map {A B} (f : A -> B) (k : A -> bool) l :
  map f (filter k l) = flat_map (fun x => if k x then [f x] else []) l.
Proof. induction l as [|a l IH]; simpl; [reflexivity|]. destruct (k a); simpl; rewrite IH; reflexivity. Qed.

Section MSGFacts.
  Variable e : env.

  Lemma mg_arr_ext {B} (M1 M2 : ty -> jdoc -> list seg -> list B) t' sc :
    (forall t x sc, M1 t x sc = M2 t x sc) -> forall items i, mg_arr B M1 t' sc i items = mg_arr B M2 t' sc i items.
  Proof. intros H. induction items as [|x r IH]; intros i; simpl; [reflexivity|]. rewrite H, IH. reflexivity. Qed.

  Lemma mg_step_ext {B} (h1 h2 : list seg -> list B) (M1 M2 : ty -> jdoc -> list seg -> list B) t d sc :
    (forall p, h1 p = h2 p) -> (forall t x sc, M1 t x sc = M2 t x sc) ->
    mg_step e B h1 M1 t d sc = mg_step e B h2 M2 t d sc.
  Proof.
    intros Hh HM. destruct t as [p|syms|sz|n|t'|t']; simpl; try reflexivity.
    - destruct (lookup e n) as [[incs fs|nullable ms]|]; [| |reflexivity].
      + apply flat_map_ext. intros fd. unfold mg_field. destruct (present _ _); [apply HM|]. rewrite Hh. reflexivity.
      + apply flat_map_ext. intros kx. destruct (is_null _); [reflexivity|]. destruct (assoc_ty _ _); [apply HM|reflexivity].
    - destruct d; try reflexivity. apply mg_arr_ext. exact HM.
    - apply flat_map_ext. intros kx. destruct (is_null _); [reflexivity|]. apply HM.
  Qed.

  Lemma mg_arr_flat_map {B C} (h : B -> list C) (M : ty -> jdoc -> list seg -> list B) (M' : ty -> jdoc -> list seg -> list C) t' sc :
    (forall t x sc, flat_map h (M t x sc) = M' t x sc) ->
    forall items i, flat_map h (mg_arr B M t' sc i items) = mg_arr C M' t' sc i items.
  Proof. intros H. induction items as [|x r IH]; intros i; simpl; [reflexivity|]. rewrite flat_map_app, H, IH. reflexivity. Qed.

  Lemma mg_step_flat_map {B C} (h : B -> list C) (here : list seg -> list B)
        (M : ty -> jdoc -> list seg -> list B) (M' : ty -> jdoc -> list seg -> list C) t d sc :
    (forall t x sc, flat_map h (M t x sc) = M' t x sc) ->
    flat_map h (mg_step e B here M t d sc) = mg_step e C (fun p => flat_map h (here p)) M' t d sc.
  Proof.
    intros HM. destruct t as [p|syms|sz|n|t'|t']; simpl; try reflexivity.
    - destruct (lookup e n) as [[incs fs|nullable ms]|]; [| |reflexivity].
      + rewrite flat_map_flat_map. apply flat_map_ext. intros fd. unfold mg_field.
        destruct (present _ _); [apply HM|]. destruct (is_required _); reflexivity.
      + rewrite flat_map_flat_map. apply flat_map_ext. intros kx. destruct (is_null _); [reflexivity|].
        destruct (assoc_ty _ _); [apply HM|reflexivity].
    - destruct d; try reflexivity. apply mg_arr_flat_map. exact HM.
    - rewrite flat_map_flat_map. apply flat_map_ext. intros kx. destruct (is_null _); [reflexivity|]. apply HM.
  Qed.

  Lemma missingG_flat_map {B C} (h : B -> list C) (here : list seg -> list B) : forall fuel t d sc,
    flat_map h (missingG e B here fuel t d sc) = missingG e C (fun p => flat_map h (here p)) fuel t d sc.
  Proof.
    induction fuel as [|f IH]; intros t d sc; [reflexivity|]. cbn [missingG]. apply mg_step_flat_map. exact IH.
  Qed.

  Lemma missingG_ext {B} (h1 h2 : list seg -> list B) : (forall p, h1 p = h2 p) ->
    forall fuel t d sc, missingG e B h1 fuel t d sc = missingG e B h2 fuel t d sc.
  Proof.
    intros Hh. induction fuel as [|f IH]; intros t d sc; [reflexivity|]. cbn [missingG]. apply mg_step_ext; assumption.
  Qed.

  Lemma mg_arr_ms_arr (M : ty -> jdoc -> list seg -> list bytes) t' sc : forall items i,
    mg_arr bytes M t' sc i items = ms_arr M t' sc i items.
  Proof. induction items as [|x r IH]; intros i; simpl; [reflexivity|]. rewrite IH. reflexivity. Qed.

  Lemma mg_step_ms_step (M : ty -> jdoc -> list seg -> list bytes) t d sc :
    mg_step e bytes (fun p => [scope_string p]) M t d sc = ms_step e M t d sc.
  Proof.
    destruct t as [p|syms|sz|n|t'|t']; reflexivity.
  Qed.

  (* the strings of MissingProofs.missing_spec are the renderings of the paths *)
  Theorem missing_spec_as_G : forall fuel t d sc,
    missingG e bytes (fun p => [scope_string p]) fuel t d sc = missing_spec e fuel t d sc.
  Proof.
    induction fuel as [|f IH]; intros t d sc; [reflexivity|]. cbn [missingG missing_spec].
    rewrite <- mg_step_ms_step. apply mg_step_ext; [reflexivity|exact IH].
  Qed.

  Theorem missing_spec_paths fuel t d sc : missing_spec e fuel t d sc = map scope_string (missing_paths e fuel t d sc).
  Proof.
    rewrite map_as_flat_map. unfold missing_paths. rewrite missingG_flat_map. simpl. symmetry. apply missing_spec_as_G.
  Qed.

  Theorem missing_specX_paths keep fuel t d sc :
    missing_specX e keep fuel t d sc = map scope_string (filter keep (missing_paths e fuel t d sc)).
  Proof.
    rewrite map_filter_as_flat_map. unfold missing_paths. rewrite missingG_flat_map. unfold missing_specX.
    apply missingG_ext. intros p. simpl. rewrite app_nil_r. reflexivity.
  Qed.

  Theorem missing_specX_all fuel t d sc : missing_specX e (fun _ => true) fuel t d sc = missing_spec e fuel t d sc.
  Proof. unfold missing_specX. apply missing_spec_as_G. Qed.
End MSGFacts.

(* ---------------------------------------------------------------------------------------------------------------------------
   3. one step of the decoder under an arbitrary exclusion spec, exactly (generalises MissingProofs.stepJ_exact)
   --------------------------------------------------------------------------------------------------------------------------- *)
Definition xerr {A} (p : list seg) : res A := Err (EExcluded (scope_string p)).

Lemma joinBK_eq (hk : list seg -> list bytes) sc es : forall FL,
  flat_map (fun fd => match present es (f_name fd) with
                      | Some _ => []
                      | None => if is_required (f_opt fd) then hk (sc ++ [SKey (f_name fd)]) else []
                      end) FL
  = flat_map (fun f => hk (sc ++ [SKey f])) (filter (absent es) (map f_name (filter (fun fd => is_required (f_opt fd)) FL))).
Proof.
  induction FL as [|fd l IH]; simpl; [reflexivity|].
  destruct (is_required (f_opt fd)) eqn:Er; simpl.
  - unfold absent at 1. destruct (present es (f_name fd)); simpl; rewrite IH; reflexivity.
  - destruct (present es (f_name fd)); simpl; exact IH.
Qed.

Section StepExactX.
  Variable e : env.
  Variables (wc : bytes) (excl : pathspec) (ignore : nat).
  Variable parseF : nat -> bytes -> option N.
  Variable DJ : bool -> ty -> jdoc -> tracker -> res (value * tracker).
  Hypothesis Hwf : wf_schema e.

  Variable W : ty -> jdoc -> Prop.
  Variable VS : ty -> jdoc -> value.
  Variable MS : ty -> jdoc -> list seg -> list bytes.
  Variable FE : ty -> jdoc -> list seg -> option (list seg).

  Notation exb := (excluded_at wc excl ignore).
  Notation hereK := (hereK wc excl ignore).
  Notation goJrec := (goJrec e wc excl ignore DJ).
  Notation goJmap := (goJmap wc excl ignore DJ).
  Notation goJuni := (goJuni wc excl ignore DJ).
  Notation K := (S (length e)).

  (* what is known of the recursive call: on a well-shaped child, below the top level *)
  Definition child_okX : Prop :=
    forall t x tr, W t x -> t_scope tr <> [] -> t_scope tr <> [SKey []] ->
      match FE t x (t_scope tr) with
      | Some p => DJ false t x tr = xerr p
      | None => exists tr', DJ false t x tr = Ok (VS t x, tr') /\ t_scope tr' = t_scope tr /\
                  Permutation (t_missing tr') (t_missing tr ++ MS t x (t_scope tr))
      end.
  Hypothesis HDJ : child_okX.

  Lemma child_keyX t x tr k :
    W t x -> (t_scope tr = [] -> k <> []) ->
    match FE t x (t_scope tr ++ [SKey k]) with
    | Some p => DJ false t x (push (SKey k) tr) = xerr p
    | None => exists tr2, DJ false t x (push (SKey k) tr) = Ok (VS t x, tr2) /\ t_scope (pop tr2) = t_scope tr /\
                Permutation (t_missing (pop tr2)) (t_missing tr ++ MS t x (t_scope tr ++ [SKey k]))
    end.
  Proof.
    intros Hw Hk. pose proof (HDJ t x (push (SKey k) tr) Hw) as H. simpl t_scope in H. simpl t_missing in H.
    assert (H1 : t_scope tr ++ [SKey k] <> []) by (intros E; apply app_eq_nil in E as [_ E]; discriminate).
    assert (H2 : t_scope tr ++ [SKey k] <> [SKey []]).
    { destruct (t_scope tr) as [|s r] eqn:Es; simpl.
      - intros E. injection E as E. apply Hk; [reflexivity|exact E].
      - intros E. injection E as _ E. apply app_eq_nil in E as [_ E]. discriminate. }
    specialize (H H1 H2). destruct (FE t x (t_scope tr ++ [SKey k])) as [p|]; [exact H|].
    destruct H as [tr2 [A [B C]]]. exists tr2. split; [exact A|]. split; [apply (pop_push_scope (SKey k)); exact B|exact C].
  Qed.

  Lemma child_idxX t x tr i :
    W t x ->
    match FE t x (t_scope tr ++ [SIdx i]) with
    | Some p => DJ false t x (enter_array i tr) = xerr p
    | None => exists tr2, DJ false t x (enter_array i tr) = Ok (VS t x, tr2) /\ t_scope (pop tr2) = t_scope tr /\
                Permutation (t_missing (pop tr2)) (t_missing tr ++ MS t x (t_scope tr ++ [SIdx i]))
    end.
  Proof.
    intros Hw. unfold enter_array. pose proof (HDJ t x (push (SIdx i) tr) Hw) as H. simpl t_scope in H. simpl t_missing in H.
    assert (H1 : t_scope tr ++ [SIdx i] <> []) by (intros E; apply app_eq_nil in E as [_ E]; discriminate).
    assert (H2 : t_scope tr ++ [SIdx i] <> [SKey []]).
    { destruct (t_scope tr) as [|s r] eqn:Es; simpl.
      - discriminate.
      - intros E. injection E as _ E. apply app_eq_nil in E as [_ E]. discriminate. }
    specialize (H H1 H2). destruct (FE t x (t_scope tr ++ [SIdx i])) as [p|]; [exact H|].
    destruct H as [tr2 [A [B C]]]. exists tr2. split; [exact A|]. split; [apply (pop_push_scope (SIdx i)); exact B|exact C].
  Qed.

  (* ---- arrays ---- *)
  Lemma goJarr_exactX t' : forall items i acc tr, Forall (W t') items ->
    match fe_arr FE t' (t_scope tr) i items with
    | Some p => goJarr DJ t' items i acc tr = xerr p
    | None => exists tr', goJarr DJ t' items i acc tr = Ok (VArr (rev acc ++ map (VS t') items), tr') /\
                t_scope tr' = t_scope tr /\
                Permutation (t_missing tr') (t_missing tr ++ mg_arr bytes MS t' (t_scope tr) i items)
    end.
  Proof.
    induction items as [|x r IH]; intros i acc tr HW.
    - simpl. exists tr. rewrite !app_nil_r. auto.
    - inversion HW as [|? ? Hx Hr]; subst. rewrite goJarr_cons. cbn [fe_arr mg_arr].
      pose proof (child_idxX t' x tr i Hx) as Hc.
      destruct (FE t' x (t_scope tr ++ [SIdx i])) as [p|].
      + rewrite Hc. reflexivity.
      + destruct Hc as [tr2 [H1 [H2 H3]]]. rewrite H1. cbn [bind].
        specialize (IH (S i) (VS t' x :: acc) (pop tr2) Hr). rewrite H2 in IH.
        destruct (fe_arr FE t' (t_scope tr) (S i) r) as [p|]; [exact IH|].
        destruct IH as [tr' [G1 [G2 G3]]]. exists tr'.
        split; [rewrite G1; simpl; rewrite <- app_assoc; reflexivity|]. split; [exact G2|].
        rewrite G3, H3. rewrite <- app_assoc. reflexivity.
  Qed.

  Lemma fe_obj_cons child sc k x r :
    fe_obj exb FE child sc ((k, x) :: r) =
    if is_null x then fe_obj exb FE child sc r
    else if exb (sc ++ [SKey k]) then Some (sc ++ [SKey k])
    else match (match child k with Some t' => FE t' x (sc ++ [SKey k]) | None => None end) with
         | Some p => Some p
         | None => fe_obj exb FE child sc r
         end.
  Proof. reflexivity. Qed.

  (* ---- maps ---- *)
  Lemma goJmap_consX t' k x r acc tr :
    goJmap t' ((k, x) :: r) acc tr =
    if is_null x then goJmap t' r acc tr
    else do tr1 <- enter_map wc excl ignore k tr;
         do rr <- DJ false t' x tr1;
         let '(v, tr2) := rr in goJmap t' r (map_put k v acc) (pop tr2).
  Proof. destruct x; reflexivity. Qed.

  Lemma goJmap_exactX t' : forall es acc tr,
    NoDup (map fst es) -> (forall k, In k (map fst es) -> ~ In k (map fst acc)) ->
    Forall (fun kx => is_null (snd kx) = false -> W t' (snd kx)) es ->
    (t_scope tr = [] -> keys_nonempty es) ->
    match fe_obj exb FE (fun _ => Some t') (t_scope tr) es with
    | Some p => goJmap t' es acc tr = xerr p
    | None =>
        exists tr', goJmap t' es acc tr
                    = Ok (VMap (sort_entries (acc ++ map (fun kx => (fst kx, VS t' (snd kx))) (filter nonnull es))), tr') /\
                    t_scope tr' = t_scope tr /\
                    Permutation (t_missing tr')
                      (t_missing tr ++ flat_map (fun kx => if is_null (snd kx) then [] else MS t' (snd kx) (t_scope tr ++ [SKey (fst kx)])) es)
    end.
  Proof.
    induction es as [|[k x] r IH]; intros acc tr Hnd Hdis HW Hke.
    - simpl. exists tr. rewrite !app_nil_r. auto.
    - inversion Hnd as [|? ? Hk Hnd']; subst. inversion HW as [|? ? Hx Hr]; subst. rewrite goJmap_consX, fe_obj_cons.
      assert (Hke' : forall tr0, t_scope tr0 = t_scope tr -> t_scope tr0 = [] -> keys_nonempty r).
      { intros tr0 E E0. rewrite E in E0. specialize (Hke E0). inversion Hke; assumption. }
      cbn [flat_map filter]. unfold nonnull at 1. cbn [fst snd] in *.
      destruct (is_null x) eqn:En; cbn [negb app].
      + apply IH; [exact Hnd'| |exact Hr|apply Hke'; reflexivity].
        intros k' Hin. apply Hdis. right; exact Hin.
      + rewrite enter_map_x. destruct (exb (t_scope tr ++ [SKey k])) eqn:Ex; [reflexivity|]. cbn [bind].
        pose proof (child_keyX t' x tr k (Hx eq_refl)) as Hc.
        assert (Hk0 : t_scope tr = [] -> k <> []) by (intros E0; specialize (Hke E0); inversion Hke; assumption).
        specialize (Hc Hk0).
        destruct (FE t' x (t_scope tr ++ [SKey k])) as [p|]; [rewrite Hc; reflexivity|].
        destruct Hc as [tr2 [H1 [H2 H3]]]. rewrite H1. cbn [bind].
        assert (Hnew : ~ In k (map fst acc)) by (apply Hdis; left; reflexivity).
        rewrite (map_put_new k _ acc Hnew).
        specialize (IH (acc ++ [(k, VS t' x)]) (pop tr2) Hnd').
        assert (Hdis' : forall k0, In k0 (map fst r) -> ~ In k0 (map fst (acc ++ [(k, VS t' x)]))).
        { intros k' Hin. rewrite map_app. simpl. intros Hc. apply in_app_or in Hc as [Hc|[Hc|[]]].
          - apply (Hdis k'); [right; exact Hin|exact Hc].
          - subst k'. contradiction. }
        specialize (IH Hdis' Hr (Hke' _ H2)). rewrite H2 in IH.
        destruct (fe_obj exb FE (fun _ => Some t') (t_scope tr) r) as [p|]; [exact IH|].
        destruct IH as [tr' [G1 [G2 G3]]]. exists tr'.
        split; [rewrite G1; simpl; rewrite <- app_assoc; reflexivity|]. split; [exact G2|].
        rewrite G3, H3. rewrite <- app_assoc. reflexivity.
  Qed.

  (* ---- records ---- *)
  Lemma goJrec_consX n k x r rv rem tr :
    goJrec n ((k, x) :: r) rv rem tr =
    if is_null x then goJrec n r rv rem tr
    else do tr1 <- enter_map wc excl ignore k tr;
         do u <- umfJ e DJ K n k x rv tr1;
         let '(_, rv', tr2) := u in goJrec n r rv' (remove_bytes k rem) (pop tr2).
  Proof. destruct x; reflexivity. Qed.

  Section Rec.
    Variables (n : nat) (incs : list nat) (fs : list field).
    Hypothesis Hn : lookup e n = Some (DRecord incs fs).

    Lemma goJrec_exactX : forall es rv rem tr,
      NoDup (map fst es) -> shaped e K n rv ->
      (forall k x fd, In (k, x) es -> is_null x = false -> field_of e n k = Some fd -> W (f_ty fd) x) ->
      (t_scope tr = [] -> keys_nonempty es) ->
      match fe_obj exb FE (rec_child e n) (t_scope tr) es with
      | Some p => goJrec n es rv rem tr = xerr p
      | None =>
          exists tr', goJrec n es rv rem tr = Ok (rec_upd e K n (look_of e VS n es) rv, filter (absent es) rem, tr') /\
                      t_scope tr' = t_scope tr /\
                      Permutation (t_missing tr') (t_missing tr ++ flat_map (joinE MS (t_scope tr) (fields_of e n)) es)
      end.
    Proof.
      destruct (Hwf n incs fs Hn) as [Hc HndF].
      induction es as [|[k x] r IH]; intros rv rem tr Hnd Hs HW Hke.
      - cbn [fe_obj]. exists tr. cbn [flat_map]. rewrite app_nil_r. split; [|auto].
        rewrite (rec_upd_id e K n (look_of e VS n []) rv); [|intros; reflexivity|exact Hs].
        change (goJrec n [] rv rem tr) with (@Ok (value * list bytes * tracker) (rv, rem, tr)).
        do 3 f_equal. induction rem as [|a rem IHr]; simpl; [reflexivity|]. rewrite <- IHr. reflexivity.
      - inversion Hnd as [|? ? Hk Hnd']; subst. rewrite goJrec_consX, fe_obj_cons.
        assert (Hke' : forall tr0, t_scope tr0 = t_scope tr -> t_scope tr0 = [] -> keys_nonempty r).
        { intros tr0 E E0. rewrite E in E0. specialize (Hke E0). inversion Hke; assumption. }
        assert (HW' : forall k' x' fd, In (k', x') r -> is_null x' = false -> field_of e n k' = Some fd -> W (f_ty fd) x').
        { intros k' x' fd Hin. apply HW. right; exact Hin. }
        cbn [flat_map]. unfold joinE at 1. cbn [fst snd].
        destruct (is_null x) eqn:En.
        + specialize (IH rv rem tr Hnd' Hs HW' (Hke' tr eq_refl)).
          destruct (fe_obj exb FE (rec_child e n) (t_scope tr) r) as [p|]; [exact IH|].
          destruct IH as [tr' [G1 [G2 G3]]].
          exists tr'. split; [|split; [exact G2|exact G3]]. rewrite G1. do 2 f_equal. f_equal.
          * apply rec_upd_ext. intros key. unfold look_of. rewrite present_cons, En.
            destruct (bytes_eqb key k) eqn:E; [|reflexivity]. apply bytes_eqb_eq in E. subst key.
            rewrite (present_none k r Hk). reflexivity.
          * apply filter_ext. intros f. unfold absent. rewrite present_cons, En.
            destruct (bytes_eqb f k) eqn:E; [|reflexivity]. apply bytes_eqb_eq in E. subst f.
            rewrite (present_none k r Hk). reflexivity.
        + rewrite enter_map_x. destruct (exb (t_scope tr ++ [SKey k])) eqn:Ex; [reflexivity|]. cbn [bind].
          rewrite (umfJ_spec e DJ K n k x rv (push (SKey k) tr) Hc Hs HndF). unfold umf_res.
          fold (fields_of e n).
          change (rec_child e n k) with (match find (keyp k) (fields_of e n) with Some fd => Some (f_ty fd) | None => None end).
          assert (Hfilt : filter (absent r) (remove_bytes k rem) = filter (absent ((k, x) :: r)) rem).
          { rewrite remove_bytes_filter, filter_filter. apply filter_ext. intros f. unfold absent. rewrite present_cons, En.
            rewrite (MissingProofs.bytes_eqb_sym f k). destruct (bytes_eqb k f); reflexivity. }
          assert (Hk0 : t_scope tr = [] -> k <> []) by (intros E0; specialize (Hke E0); inversion Hke; assumption).
          destruct (find (keyp k) (fields_of e n)) as [fd|] eqn:Ef.
          * pose proof (child_keyX (f_ty fd) x tr k) as Hch.
            assert (Hwx : W (f_ty fd) x) by (apply (HW k x fd); [left; reflexivity|exact En|exact Ef]).
            specialize (Hch Hwx Hk0).
            destruct (FE (f_ty fd) x (t_scope tr ++ [SKey k])) as [p|]; [rewrite Hch; reflexivity|].
            destruct Hch as [tr2 [H1 [H2 H3]]]. rewrite H1. cbn [bind].
            specialize (IH (rec_upd e K n (single k (VS (f_ty fd) x)) rv) (remove_bytes k rem) (pop tr2) Hnd'
                           (shaped_rec_upd e K n _ rv Hs) HW' (Hke' _ H2)).
            rewrite H2 in IH.
            destruct (fe_obj exb FE (rec_child e n) (t_scope tr) r) as [p|]; [exact IH|].
            destruct IH as [tr' [G1 [G2 G3]]].
            exists tr'. split; [|split; [exact G2|]].
            -- rewrite G1, Hfilt, rec_upd_compose. do 2 f_equal. f_equal.
               apply rec_upd_ext. intros key. unfold orelse, look_of, single. rewrite present_cons, En.
               rewrite (MissingProofs.bytes_eqb_sym key k). destruct (bytes_eqb k key) eqn:E.
               ++ apply bytes_eqb_eq in E. subst key. rewrite (present_none k r Hk). rewrite field_of_eq, Ef. reflexivity.
               ++ destruct (present r key); [destruct (field_of e n key)|]; reflexivity.
            -- rewrite G3, H3. rewrite <- app_assoc. reflexivity.
          * cbn [bind].
            assert (Esc : t_scope (pop (push (SKey k) tr)) = t_scope tr) by (apply (pop_push_scope (SKey k)); reflexivity).
            specialize (IH rv (remove_bytes k rem) (pop (push (SKey k) tr)) Hnd' Hs HW' (Hke' _ Esc)).
            rewrite Esc in IH.
            destruct (fe_obj exb FE (rec_child e n) (t_scope tr) r) as [p|]; [exact IH|].
            destruct IH as [tr' [G1 [G2 G3]]].
            exists tr'. split; [|split; [exact G2|]].
            -- rewrite G1, Hfilt. do 2 f_equal. f_equal.
               apply rec_upd_ext. intros key. unfold look_of. rewrite present_cons, En.
               destruct (bytes_eqb key k) eqn:E; [|reflexivity]. apply bytes_eqb_eq in E. subst key.
               rewrite (present_none k r Hk). rewrite field_of_eq, Ef. reflexivity.
            -- rewrite G3. simpl. reflexivity.
    Qed.
  End Rec.

  (* ---- unions ---- *)
  Lemma goJuni_consX ms k x r uv b tr :
    goJuni ms ((k, x) :: r) uv b tr =
    if is_null x then goJuni ms r uv b tr
    else do tr1 <- enter_map wc excl ignore k tr;
         if b then Err EUnion
         else match index_of k (map fst ms) 0 with
              | Some j =>
                  match nth_error ms j with
                  | Some (_, mt) =>
                      do rr <- DJ false mt x tr1;
                      let '(v, tr2) := rr in goJuni ms r (set_nth j (Some v) uv) true (pop tr2)
                  | None => Err EType
                  end
              | None => Err EUnion
              end.
  Proof. destruct x; reflexivity. Qed.

  Lemma uni_all_nullX ms sc : forall es uv b tr, filter nonnull es = [] ->
    goJuni ms es uv b tr = Ok (uv, b, tr) /\ fold_left (uni_f VS ms) es uv = uv /\ flat_map (uni_g MS ms sc) es = [] /\
    fe_obj exb FE (fun k => assoc_ty k ms) sc es = None.
  Proof.
    induction es as [|[k x] r IH]; intros uv b tr Hf; [auto|].
    simpl in Hf. unfold nonnull at 1 in Hf. simpl in Hf. destruct (is_null x) eqn:En; simpl in Hf; [|discriminate].
    rewrite goJuni_consX, fe_obj_cons, En. simpl. unfold uni_f at 2, uni_g at 1. simpl. rewrite En. simpl. apply IH. exact Hf.
  Qed.

  Lemma goJuni_oneX ms : forall es uv tr kx mt,
    filter nonnull es = [kx] -> assoc_ty (fst kx) ms = Some mt -> W mt (snd kx) ->
    (t_scope tr = [] -> keys_nonempty es) ->
    match fe_obj exb FE (fun k => assoc_ty k ms) (t_scope tr) es with
    | Some p => goJuni ms es uv false tr = xerr p
    | None =>
        exists tr', goJuni ms es uv false tr = Ok (fold_left (uni_f VS ms) es uv, true, tr') /\ t_scope tr' = t_scope tr /\
                    Permutation (t_missing tr') (t_missing tr ++ flat_map (uni_g MS ms (t_scope tr)) es)
    end.
  Proof.
    induction es as [|[k x] r IH]; intros uv tr kx mt Hf Ha Hw Hke; [discriminate|].
    simpl in Hf. unfold nonnull at 1 in Hf. simpl in Hf. rewrite goJuni_consX, fe_obj_cons.
    cbn [fold_left flat_map]. unfold uni_f at 2, uni_g at 1. cbn [fst snd].
    destruct (is_null x) eqn:En; simpl in Hf.
    - apply (IH uv tr kx mt Hf Ha Hw). intros E0. specialize (Hke E0). inversion Hke; assumption.
    - injection Hf as <- Hf. simpl in Ha, Hw. rewrite enter_map_x.
      destruct (exb (t_scope tr ++ [SKey k])) eqn:Ex; [reflexivity|]. cbn [bind].
      destruct (assoc_index k mt ms 0 Ha) as [j [a [H1 H2]]]. simpl in H1. rewrite H1, H2, Ha.
      pose proof (child_keyX mt x tr k Hw) as Hc.
      assert (Hk0 : t_scope tr = [] -> k <> []) by (intros E0; specialize (Hke E0); inversion Hke; assumption).
      specialize (Hc Hk0).
      destruct (FE mt x (t_scope tr ++ [SKey k])) as [p|]; [rewrite Hc; reflexivity|].
      destruct Hc as [tr2 [G1 [G2 G3]]]. rewrite G1. cbn [bind].
      destruct (uni_all_nullX ms (t_scope tr) r (set_nth j (Some (VS mt x)) uv) true (pop tr2) Hf) as [U1 [U2 [U3 U4]]].
      rewrite U1, U2, U3, U4. exists (pop tr2). split; [reflexivity|]. split; [exact G2|]. rewrite app_nil_r. exact G3.
  Qed.

  (* ---- the step ---- *)
  Theorem stepJ_exactX : forall top t d tr,
    ws_step e parseF W t d ->
    t_scope tr <> [SKey []] -> (t_scope tr = [] -> keys_nonempty (entries_of d)) ->
    match fe_step e exb FE t d (t_scope tr) with
    | Some p => stepJ e wc excl ignore parseF DJ top t d tr = xerr p
    | None =>
        exists tr',
          stepJ e wc excl ignore parseF DJ top t d tr
          = Ok (val_step e parseF DJ VS (top && negb (is_nilb (t_missing tr ++ mg_step e bytes hereK MS t d (t_scope tr)))) t d, tr') /\
          t_scope tr' = t_scope tr /\
          Permutation (t_missing tr') (t_missing tr ++ mg_step e bytes hereK MS t d (t_scope tr))
    end.
  Proof.
    intros top t d tr Hws Hsc Hke. destruct t as [p|syms|sz|n|t'|t']; simpl in Hws.
    - destruct Hws as [v Hv]. exists tr. simpl. rewrite Hv, app_nil_r. auto.
    - destruct Hws as [s ->]. exists tr. simpl. rewrite app_nil_r. auto.
    - destruct Hws as [b [Hb Hl]]. exists tr. simpl. rewrite Hb, app_nil_r. cbn [bind].
      rewrite (proj2 (Nat.eqb_eq _ _) Hl). auto.
    - cbn [stepJ val_step mg_step fe_step].
      destruct (lookup e n) as [[incs fs|nullable ms]|] eqn:El; [| |contradiction].
      + (* record *)
        destruct Hws as [es [Hes [Hnd HF]]].
        assert (Ees : entries_of d = es) by (destruct d; simpl in Hes; try discriminate; injection Hes as <-; reflexivity).
        assert (Eb : match d with JNull => Ok [] | JObj es => Ok es | _ => Err EDeser end = Ok es)
          by (destruct d; simpl in Hes; try discriminate; injection Hes as <-; reflexivity).
        rewrite Eb, Ees. cbn [bind]. rewrite Ees in Hke.
        destruct (Hwf n incs fs El) as [Hc HndF].
        pose proof (goJrec_exactX n incs fs El es (zero_value e (S (S (length e))) (TRef n))
                      (required_fields e (S (length e)) n) tr Hnd (zero_value_shaped e _ n Hc)) as HG.
        assert (HWf : forall k x fd, In (k, x) es -> is_null x = false -> field_of e n k = Some fd -> W (f_ty fd) x).
        { intros k x fd Hin Hnn Hfd. rewrite Forall_forall in HF. rewrite field_of_eq in Hfd.
          apply find_some in Hfd as [Hin2 Ek]. unfold keyp in Ek. apply bytes_eqb_eq in Ek. subst k.
          specialize (HF fd Hin2). rewrite (in_present es (f_name fd) x Hnd Hin Hnn) in HF. exact HF. }
        specialize (HG HWf Hke).
        destruct (fe_obj exb FE (rec_child e n) (t_scope tr) es) as [p|]; [rewrite HG; reflexivity|].
        destruct HG as [tr1 [G1 [G2 G3]]].
        rewrite G1. cbn [bind].
        assert (Hsc1 : t_scope tr1 <> [SKey []]) by (rewrite G2; exact Hsc).
        destruct (record_missing_x wc excl ignore (filter (absent es) (required_fields e (S (length e)) n)) tr1 Hsc1)
          as [R1 R2].
        assert (HP : Permutation
                       (t_missing (record_missing wc excl ignore
                                     (filter (absent es) (required_fields e (S (length e)) n)) tr1))
                       (t_missing tr ++ flat_map (mg_field bytes hereK MS es (t_scope tr)) (fields_of e n))).
        { rewrite R1, G3, G2. rewrite <- app_assoc. apply Permutation_app_head.
          rewrite (flat_map_ext_in (mg_field bytes hereK MS es (t_scope tr))
                     (fun fd => joinA MS (t_scope tr) es fd ++
                                match present es (f_name fd) with
                                | Some _ => []
                                | None => if is_required (f_opt fd) then hereK (t_scope tr ++ [SKey (f_name fd)]) else []
                                end)).
          2:{ intros fd _. unfold mg_field, joinA. destruct (present es (f_name fd)); [rewrite app_nil_r|]; reflexivity. }
          rewrite Permutation_flat_map_app. rewrite (join_perm MS (t_scope tr) (fields_of e n) HndF es Hnd).
          apply Permutation_app_head. rewrite joinBK_eq, required_fields_all. reflexivity. }
        eexists. split; [|split; [rewrite R2; exact G2|exact HP]].
        f_equal. f_equal.
        change (match t_missing ?x with [] => true | _ => false end) with (is_nilb (t_missing x)).
        rewrite (is_nilb_perm _ _ HP). reflexivity.
      + (* union *)
        destruct Hws as [es [Hes [Hnd HU]]].
        assert (Ees : entries_of d = es) by (destruct d; simpl in Hes; try discriminate; injection Hes as <-; reflexivity).
        assert (Eb : match d with JNull => Ok [] | JObj es => Ok es | _ => Err EDeser end = Ok es)
          by (destruct d; simpl in Hes; try discriminate; injection Hes as <-; reflexivity).
        rewrite Eb, Ees. cbn [bind]. rewrite Ees in Hke. unfold ws_union in HU.
        fold (uni_g MS ms (t_scope tr)). unfold union_val. fold (uni_f VS ms).
        destruct (filter (fun kx => negb (is_null (snd kx))) es) as [|kx [|kx2 rest]] eqn:Ef; [| |contradiction].
        * subst nullable.
          destruct (uni_all_nullX ms (t_scope tr) es (map (fun _ => None) ms) false tr Ef) as [U1 [U2 [U3 U4]]].
          rewrite U1, U2, U3, U4. simpl. exists tr. rewrite app_nil_r. auto.
        * destruct HU as [mt [Ha Hw]].
          pose proof (goJuni_oneX ms es (map (fun _ => None) ms) tr kx mt Ef Ha Hw Hke) as HG.
          destruct (fe_obj exb FE (fun k => assoc_ty k ms) (t_scope tr) es) as [p|]; [rewrite HG; reflexivity|].
          destruct HG as [tr' [G1 [G2 G3]]].
          rewrite G1. cbn [bind]. rewrite andb_false_r. exists tr'. auto.
    - destruct d; try contradiction.
      + exists tr. simpl. rewrite app_nil_r. auto.
      + pose proof (goJarr_exactX t' items 0 [] tr Hws) as HG. cbn [fe_step stepJ mg_step val_step].
        destruct (fe_arr FE t' (t_scope tr) 0 items) as [p|]; [exact HG|].
        destruct HG as [tr' [G1 [G2 G3]]]. exists tr'. rewrite G1. auto.
    - destruct d; try contradiction.
      + exists tr. simpl. rewrite app_nil_r. auto.
      + destruct Hws as [Hnd HF].
        pose proof (goJmap_exactX t' entries [] tr Hnd ltac:(intros k _ []) HF Hke) as HG.
        cbn [fe_step stepJ mg_step val_step entries_of].
        destruct (fe_obj exb FE (fun _ => Some t') (t_scope tr) entries) as [p|]; [exact HG|].
        destruct HG as [tr' [G1 [G2 G3]]]. exists tr'. rewrite G1. auto.
  Qed.
End StepExactX.

(* the decoded value depends on the recursive call only through the decoding of the default literals *)
Section ValExt.
  Variable e : env.
  Variable parseF : nat -> bytes -> option N.

  Lemma fill_defaults_ext DJ1 DJ2 : forall fs0 fs fvs, (forall fd, In fd fs -> In fd fs0) ->
    (forall fd lit, In fd fs0 -> f_opt fd = Default lit -> lit_valueS DJ1 (f_ty fd) lit = lit_valueS DJ2 (f_ty fd) lit) ->
    fill_defaultsS DJ1 fs fvs = fill_defaultsS DJ2 fs fvs.
  Proof.
    intros fs0. induction fs as [|fd fs IH]; intros fvs Hsub H; [reflexivity|]. destruct fvs as [|ov fvs]; [reflexivity|].
    cbn [fill_defaultsS]. rewrite (IH fvs) by (intros; try apply Hsub; try right; auto). f_equal.
    destruct ov; [reflexivity|]. destruct (f_opt fd) eqn:Eo; try reflexivity. apply H; [apply Hsub; left; reflexivity|exact Eo].
  Qed.

  Lemma fold_left_ext_in {A B} (F G : A -> B -> A) : forall l a, (forall a b, In b l -> F a b = G a b) -> fold_left F l a = fold_left G l a.
  Proof.
    induction l as [|b l IH]; intros a H; [reflexivity|]. simpl. rewrite (H a b) by (left; reflexivity).
    apply IH. intros a' b' Hin. apply H. right; exact Hin.
  Qed.

  Lemma val_step_ext DJ1 DJ2 VS1 VS2 r t d :
    (forall t x, VS1 t x = VS2 t x) ->
    (forall n incs fs fd lit, lookup e n = Some (DRecord incs fs) -> In fd fs -> f_opt fd = Default lit ->
       lit_valueS DJ1 (f_ty fd) lit = lit_valueS DJ2 (f_ty fd) lit) ->
    val_step e parseF DJ1 VS1 r t d = val_step e parseF DJ2 VS2 r t d.
  Proof.
    intros HV HL. destruct t as [p|syms|sz|n|t'|t']; cbn [val_step]; try reflexivity.
    - destruct (lookup e n) as [[incs fs|nullable ms]|] eqn:El; [| |reflexivity].
      + rewrite (rec_upd_ext e (S (length e)) n (look_of e VS1 n (entries_of d)) (look_of e VS2 n (entries_of d))).
        2:{ intros key. unfold look_of. destruct (present _ _); [|reflexivity]. destruct (field_of e n key); [|reflexivity].
            rewrite HV. reflexivity. }
        destruct (r || negb (own_has_default fs)); [reflexivity|].
        destruct (rec_upd _ _ _ _ _); try reflexivity. f_equal.
        apply (fill_defaults_ext DJ1 DJ2 fs); [auto|]. intros fd lit Hin Ho. apply (HL n incs fs fd lit El Hin Ho).
      + f_equal. unfold union_val. apply fold_left_ext_in. intros uv kx _. destruct (is_null (snd kx)); [reflexivity|].
        destruct (index_of _ _ _); [|reflexivity]. destruct (assoc_ty _ _); [|reflexivity]. rewrite HV. reflexivity.
    - destruct d; try reflexivity. f_equal. apply map_ext. intros x. apply HV.
    - do 2 f_equal. apply map_ext. intros kx. rewrite HV. reflexivity.
  Qed.

End ValExt.

(* ---------------------------------------------------------------------------------------------------------------------------
   4. the decoder under an arbitrary exclusion spec, exactly (induction on the fuel)
   --------------------------------------------------------------------------------------------------------------------------- *)
Section ExactX.
  Variable e : env.
  Variables (wc : bytes) (excl : pathspec) (ignore : nat).
  Variable parseF : nat -> bytes -> option N.
  Hypothesis Hwf : wf_schema e.

  Notation exb := (excluded_at wc excl ignore).
  Notation decJx := (decJ e wc excl ignore parseF).
  Notation well_shaped := (well_shaped e parseF).

  Notation decode_spec := (decode_spec e wc ignore parseF).

  (* the decoded value is MissingProofs.decode_spec, the SAME function as without exclusions: the generated code reads the default
     literals with NewJsonReader (Decode.v: decJ calls itself with ps_empty and 0 there), so the spec cannot reach them *)
  Lemma val_excl_irrelevant f VS r t d :
    val_step e parseF (djmix e wc excl ignore parseF f) VS r t d = val_step e parseF (djmix e wc ps_empty ignore parseF f) VS r t d.
  Proof. apply val_step_ext; [reflexivity|]. intros; reflexivity. Qed.

  (* the reported set: the absent required fields whose path is not excluded *)
  Definition reported (fuel : nat) (t : ty) (d : jdoc) (sc : list seg) : list bytes :=
    missing_specX e (fun p => negb (exb p)) fuel t d sc.

  Definition raisesX (fuel : nat) (top : bool) (t : ty) (d : jdoc) (tr : tracker) : bool :=
    top && negb (is_nilb (t_missing tr ++ reported fuel t d (t_scope tr))).

  Theorem decJ_exactX : forall fuel top t d tr,
    well_shaped fuel t d ->
    t_scope tr <> [SKey []] -> (t_scope tr = [] -> keys_nonempty (entries_of d)) ->
    match first_excluded e exb fuel t d (t_scope tr) with
    | Some p => decJx fuel top t d tr = Err (EExcluded (scope_string p))
    | None =>
        exists tr',
          decJx fuel top t d tr = Ok (decode_spec fuel (raisesX fuel top t d tr) t d, tr') /\
          t_scope tr' = t_scope tr /\
          Permutation (t_missing tr') (t_missing tr ++ reported fuel t d (t_scope tr))
    end.
  Proof.
    induction fuel as [|f IH]; intros top t d tr Hws Hsc Hke; [contradiction|].
    rewrite decJ_unfold. unfold raisesX, reported, missing_specX. cbn [MissingProofs.decode_spec missingG first_excluded].
    pose proof (stepJ_exactX e wc excl ignore parseF (djmix e wc excl ignore parseF f) Hwf (well_shaped f) (decode_spec f false)
                  (missingG e bytes (fun p => if negb (exb p) then [scope_string p] else []) f) (first_excluded e exb f)) as H.
    assert (Hchild : child_okX (djmix e wc excl ignore parseF f) (well_shaped f) (decode_spec f false)
                       (missingG e bytes (fun p => if negb (exb p) then [scope_string p] else []) f) (first_excluded e exb f)).
    { intros t0 x tr0 Hw Hne Hne2. apply (IH false t0 x tr0 Hw Hne2). intros E; contradiction. }
    specialize (H Hchild top t d tr Hws Hsc Hke).
    destruct (fe_step e exb (first_excluded e exb f) t d (t_scope tr)) as [p|]; [exact H|].
    destruct H as [tr' [H1 [H2 H3]]]. exists tr'. rewrite H1, val_excl_irrelevant. auto.
  Qed.

  (* ---- the top level: NewJsonReaderWithExcludedFields + UnmarshalRestLi ---- *)
  Theorem missing_exactX : forall fuel t data jd,
    is_record e t = true -> top_ok data jd -> well_shaped fuel t jd ->
    decode_json e wc excl ignore parseF fuel t data =
    match first_excluded e exb fuel t jd [] with
    | Some p => DErr (EExcluded (scope_string p))
    | None =>
        match reported fuel t jd [] with
        | [] => DOk (decode_spec fuel false t jd)
        | ms => DMissing (sort_bytes ms) (decode_spec fuel true t jd)
        end
    end.
  Proof.
    intros fuel t data jd Hrec [Hne [Hnull [Hp Hke]]] Hws. unfold decode_json.
    destruct data as [|c data]; [contradiction|]. rewrite Hnull, Hp, Hrec.
    pose proof (decJ_exactX fuel true t jd tracker0 Hws) as H. simpl t_scope in H.
    specialize (H ltac:(discriminate) (fun _ => Hke)).
    destruct (first_excluded e exb fuel t jd []) as [p|]; [rewrite H; reflexivity|].
    destruct H as [tr' [H1 [H2 H3]]].
    rewrite H1. unfold raisesX. simpl t_missing in *. simpl t_scope in *. simpl app in *. unfold finish.
    destruct (reported fuel t jd []) as [|m ms] eqn:Em.
    - apply Permutation_sym, Permutation_nil in H3. rewrite H3. reflexivity.
    - destruct (t_missing tr') as [|m' ms'] eqn:Et; [apply Permutation_nil in H3; discriminate|].
      rewrite (sort_bytes_perm_invariant _ _ H3). reflexivity.
  Qed.

  (* anything but a record at the start of the input never raises (finding D33), but it does reject excluded members *)
  Theorem top_non_recordX : forall fuel t data jd,
    is_record e t = false -> top_ok data jd -> well_shaped fuel t jd ->
    decode_json e wc excl ignore parseF fuel t data =
    match first_excluded e exb fuel t jd [] with
    | Some p => DErr (EExcluded (scope_string p))
    | None => DOk (decode_spec fuel (negb (is_nilb (reported fuel t jd []))) t jd)
    end.
  Proof.
    intros fuel t data jd Hrec [Hne [Hnull [Hp Hke]]] Hws. unfold decode_json.
    destruct data as [|c data]; [contradiction|]. rewrite Hnull, Hp, Hrec.
    pose proof (decJ_exactX fuel true t jd tracker0 Hws) as H. simpl t_scope in H.
    specialize (H ltac:(discriminate) (fun _ => Hke)).
    destruct (first_excluded e exb fuel t jd []) as [p|]; [rewrite H; reflexivity|].
    destruct H as [tr' [H1 [H2 H3]]].
    rewrite H1. unfold raisesX, finish. simpl. destruct (t_missing tr'); reflexivity.
  Qed.
End ExactX.

(* ---------------------------------------------------------------------------------------------------------------------------
   5. the declarative reading of "the document carries an excluded member" (no fuel, no document order)
   --------------------------------------------------------------------------------------------------------------------------- *)
(* carries e exb t d sc p: decoding d at type t under scope sc reaches a NON-NULL object member - any member of a record object
   (field or not), the member of a union object, an entry of a map - whose scope path p is excluded.  Positions are reached
   through non-null values of KNOWN fields / union members, map entries and array items only (unknown fields are skipped, not
   entered).  Array items themselves are not members: enterArrayScope consults nothing. *)
Inductive carries (e : env) (exb : list seg -> bool) : ty -> jdoc -> list seg -> list seg -> Prop :=
| ce_rec_here n incs fs d k x sc :
    lookup e n = Some (DRecord incs fs) -> In (k, x) (entries_of d) -> is_null x = false ->
    exb (sc ++ [SKey k]) = true ->
    carries e exb (TRef n) d sc (sc ++ [SKey k])
| ce_rec_field n incs fs d k x fd sc p :
    lookup e n = Some (DRecord incs fs) -> In (k, x) (entries_of d) -> is_null x = false ->
    field_of e n k = Some fd -> carries e exb (f_ty fd) x (sc ++ [SKey k]) p ->
    carries e exb (TRef n) d sc p
| ce_uni_here n nullable ms d k x sc :
    lookup e n = Some (DUnion nullable ms) -> In (k, x) (entries_of d) -> is_null x = false ->
    exb (sc ++ [SKey k]) = true ->
    carries e exb (TRef n) d sc (sc ++ [SKey k])
| ce_uni_member n nullable ms d k x mt sc p :
    lookup e n = Some (DUnion nullable ms) -> In (k, x) (entries_of d) -> is_null x = false ->
    assoc_ty k ms = Some mt -> carries e exb mt x (sc ++ [SKey k]) p ->
    carries e exb (TRef n) d sc p
| ce_map_here t' d k x sc :
    In (k, x) (entries_of d) -> is_null x = false -> exb (sc ++ [SKey k]) = true ->
    carries e exb (TMap t') d sc (sc ++ [SKey k])
| ce_map_entry t' d k x sc p :
    In (k, x) (entries_of d) -> is_null x = false -> carries e exb t' x (sc ++ [SKey k]) p ->
    carries e exb (TMap t') d sc p
| ce_arr t' items i x sc p :
    nth_error items i = Some x -> carries e exb t' x (sc ++ [SIdx i]) p ->
    carries e exb (TArray t') (JArr items) sc p.

Section FEFacts.
  Variable e : env.
  Variable exb : list seg -> bool.
  Variable FE : ty -> jdoc -> list seg -> option (list seg).

  Lemma fe_obj_some child sc p : forall es, fe_obj exb FE child sc es = Some p ->
    exists k x, In (k, x) es /\ is_null x = false /\
      ((exb (sc ++ [SKey k]) = true /\ p = sc ++ [SKey k]) \/
       (exists t', child k = Some t' /\ FE t' x (sc ++ [SKey k]) = Some p)).
  Proof.
    induction es as [|[k x] r IH]; intros H; [discriminate|]. cbn [fe_obj fst snd] in H.
    destruct (is_null x) eqn:En.
    - destruct (IH H) as [k' [x' [Hin Hr]]]. exists k', x'. split; [right; exact Hin|exact Hr].
    - destruct (exb (sc ++ [SKey k])) eqn:Ex.
      + injection H as <-. exists k, x. split; [left; reflexivity|]. split; [exact En|]. left. auto.
      + destruct (child k) as [t'|] eqn:Ec.
        * destruct (FE t' x (sc ++ [SKey k])) as [q|] eqn:Ef.
          -- injection H as <-. exists k, x. split; [left; reflexivity|]. split; [exact En|]. right. exists t'. auto.
          -- destruct (IH H) as [k' [x' [Hin Hr]]]. exists k', x'. split; [right; exact Hin|exact Hr].
        * destruct (IH H) as [k' [x' [Hin Hr]]]. exists k', x'. split; [right; exact Hin|exact Hr].
  Qed.

  Lemma fe_obj_none child sc : forall es, fe_obj exb FE child sc es = None ->
    forall k x, In (k, x) es -> is_null x = false ->
      exb (sc ++ [SKey k]) = false /\ (forall t', child k = Some t' -> FE t' x (sc ++ [SKey k]) = None).
  Proof.
    induction es as [|[k0 x0] r IH]; intros H k x Hin Hn; [contradiction|]. cbn [fe_obj fst snd] in H.
    destruct (is_null x0) eqn:En0.
    - destruct Hin as [E|Hin]; [injection E as -> ->; congruence|]. apply (IH H k x Hin Hn).
    - destruct (exb (sc ++ [SKey k0])) eqn:Ex; [discriminate|].
      destruct (child k0) as [t0|] eqn:Ec.
      + destruct (FE t0 x0 (sc ++ [SKey k0])) as [q|] eqn:Ef; [discriminate|].
        destruct Hin as [E|Hin]; [|apply (IH H k x Hin Hn)]. injection E as -> ->.
        split; [exact Ex|]. intros t' Ht'. rewrite Ec in Ht'. injection Ht' as <-. exact Ef.
      + destruct Hin as [E|Hin]; [|apply (IH H k x Hin Hn)]. injection E as -> ->.
        split; [exact Ex|]. intros t' Ht'. rewrite Ec in Ht'. discriminate.
  Qed.

  Lemma fe_arr_some t' sc p : forall items i, fe_arr FE t' sc i items = Some p ->
    exists j x, nth_error items j = Some x /\ FE t' x (sc ++ [SIdx (i + j)]) = Some p.
  Proof.
    induction items as [|x r IH]; intros i H; [discriminate|]. cbn [fe_arr] in H.
    destruct (FE t' x (sc ++ [SIdx i])) as [q|] eqn:Ef.
    - injection H as <-. exists 0, x. rewrite Nat.add_0_r. auto.
    - destruct (IH (S i) H) as [j [y [H1 H2]]]. exists (S j), y. split; [exact H1|].
      replace (i + S j) with (S i + j) by lia. exact H2.
  Qed.

  Lemma fe_arr_none t' sc : forall items i, fe_arr FE t' sc i items = None ->
    forall j x, nth_error items j = Some x -> FE t' x (sc ++ [SIdx (i + j)]) = None.
  Proof.
    induction items as [|x0 r IH]; intros i H j x Hj; [destruct j; discriminate|]. cbn [fe_arr] in H.
    destruct (FE t' x0 (sc ++ [SIdx i])) as [q|] eqn:Ef; [discriminate|].
    destruct j as [|j]; simpl in Hj.
    - injection Hj as <-. rewrite Nat.add_0_r. exact Ef.
    - replace (i + S j) with (S i + j) by lia. apply (IH (S i) H j x Hj).
  Qed.

  Lemma fe_obj_all_clear child sc : (forall p, exb p = false) -> (forall t x sc, FE t x sc = None) ->
    forall es, fe_obj exb FE child sc es = None.
  Proof.
    intros Hx Hf. induction es as [|[k x] r IH]; [reflexivity|]. cbn [fe_obj fst snd].
    destruct (is_null x); [exact IH|]. rewrite Hx. destruct (child k); [rewrite Hf|]; exact IH.
  Qed.

  Lemma fe_arr_all_clear t' sc : (forall t x sc, FE t x sc = None) -> forall items i, fe_arr FE t' sc i items = None.
  Proof. intros Hf. induction items as [|x r IH]; intros i; [reflexivity|]. cbn [fe_arr]. rewrite Hf. apply IH. Qed.
End FEFacts.

Lemma first_excluded_all_clear e exb : (forall p, exb p = false) -> forall fuel t d sc, first_excluded e exb fuel t d sc = None.
Proof.
  intros Hx. induction fuel as [|f IH]; intros t d sc; [reflexivity|]. cbn [first_excluded].
  destruct t as [p|syms|sz|n|t'|t']; simpl; try reflexivity.
  - destruct (lookup e n) as [[incs fs|nullable ms]|]; [| |reflexivity]; apply fe_obj_all_clear; assumption.
  - destruct d; try reflexivity. apply fe_arr_all_clear. exact IH.
  - apply fe_obj_all_clear; assumption.
Qed.

Section Carries.
  Variable e : env.
  Variable exb : list seg -> bool.

  (* the first offending member in document order IS an excluded member the document carries *)
  Theorem first_excluded_sound : forall fuel t d sc p, first_excluded e exb fuel t d sc = Some p -> carries e exb t d sc p.
  Proof.
    induction fuel as [|f IH]; intros t d sc p H; [discriminate|]. cbn [first_excluded] in H.
    destruct t as [?|?|?|n|t'|t']; simpl in H; try discriminate.
    - destruct (lookup e n) as [[incs fs|nullable ms]|] eqn:El; [| |discriminate].
      + apply fe_obj_some in H as [k [x [Hin [Hn [[Hx ->]|[t' [Hc Hf]]]]]]].
        * apply (ce_rec_here e exb n incs fs d k x sc El Hin Hn Hx).
        * unfold rec_child in Hc. destruct (field_of e n k) as [fd|] eqn:Efd; [|discriminate]. injection Hc as <-.
          apply (ce_rec_field e exb n incs fs d k x fd sc p El Hin Hn Efd). apply IH. exact Hf.
      + apply fe_obj_some in H as [k [x [Hin [Hn [[Hx ->]|[t' [Hc Hf]]]]]]].
        * apply (ce_uni_here e exb n nullable ms d k x sc El Hin Hn Hx).
        * apply (ce_uni_member e exb n nullable ms d k x t' sc p El Hin Hn Hc). apply IH. exact Hf.
    - destruct d; try discriminate. apply fe_arr_some in H as [j [x [H1 H2]]]. simpl in H2.
      apply (ce_arr e exb t' items j x sc p H1). apply IH. exact H2.
    - apply fe_obj_some in H as [k [x [Hin [Hn [[Hx ->]|[t0 [Hc Hf]]]]]]].
      + apply (ce_map_here e exb t' d k x sc Hin Hn Hx).
      + injection Hc as <-. apply (ce_map_entry e exb t' d k x sc p Hin Hn). apply IH. exact Hf.
  Qed.

  (* on a well-shaped document every carried excluded member is found (within the fuel that bounds the shape); stated for an
     abstract shape predicate so that it serves JSON trees (well_shaped) and ROR2 trees (well_shaped_t) alike *)
  Section Complete.
    Variable parseF : nat -> bytes -> option N.
    Variable WS : nat -> ty -> jdoc -> Prop.
    Hypothesis WS0 : forall t d, ~ WS 0 t d.
    Hypothesis WSS : forall f t d, WS (S f) t d ->
      match t with TRef _ | TArray _ | TMap _ => ws_step e parseF (WS f) t d | _ => True end.

    Theorem first_excluded_complete_gen : forall t d sc p, carries e exb t d sc p ->
      forall fuel, WS fuel t d -> first_excluded e exb fuel t d sc <> None.
    Proof.
      intros t d sc p H. induction H as [n incs fs d k x sc El Hin Hn Hx
                                        | n incs fs d k x fd sc p El Hin Hn Efd H IH
                                        | n nullable ms d k x sc El Hin Hn Hx
                                        | n nullable ms d k x mt sc p El Hin Hn Ea H IH
                                        | t' d k x sc Hin Hn Hx
                                        | t' d k x sc p Hin Hn H IH
                                        | t' items i x sc p Hi H IH];
        intros [|f] Hws; try (exfalso; exact (WS0 _ _ Hws)); apply WSS in Hws;
        cbn [first_excluded]; simpl in Hws |- *; rewrite ?El in *; intros HN.
      - destruct (fe_obj_none exb _ _ _ _ HN k x Hin Hn) as [A _]. congruence.
      - destruct (fe_obj_none exb _ _ _ _ HN k x Hin Hn) as [_ B].
        destruct Hws as [es [Hes [Hnd HF]]]. rewrite (obj_entries_of d es Hes) in Hin.
        rewrite Forall_forall in HF. pose proof Efd as Efd'. rewrite field_of_eq in Efd'.
        apply find_some in Efd' as [Hin2 Ek]. unfold keyp in Ek. apply bytes_eqb_eq in Ek. subst k.
        specialize (HF fd Hin2). rewrite (in_present es (f_name fd) x Hnd Hin Hn) in HF.
        apply (IH f HF). apply B. unfold rec_child. rewrite Efd. reflexivity.
      - destruct (fe_obj_none exb _ _ _ _ HN k x Hin Hn) as [A _]. congruence.
      - destruct (fe_obj_none exb _ _ _ _ HN k x Hin Hn) as [_ B].
        destruct Hws as [es [Hes [Hnd HU]]]. rewrite (obj_entries_of d es Hes) in Hin.
        unfold ws_union in HU.
        assert (Hf : In (k, x) (filter (fun kx => negb (is_null (snd kx))) es))
          by (apply filter_In; split; [exact Hin|simpl; rewrite Hn; reflexivity]).
        destruct (filter (fun kx => negb (is_null (snd kx))) es) as [|kx [|kx' rest]]; [contradiction| |contradiction].
        destruct Hf as [->|[]]. destruct HU as [mt0 [Ha0 Hw0]]. simpl in Ha0, Hw0. rewrite Ea in Ha0. injection Ha0 as <-.
        apply (IH f Hw0). apply B. exact Ea.
      - destruct (fe_obj_none exb _ _ _ _ HN k x Hin Hn) as [A _]. congruence.
      - destruct (fe_obj_none exb _ _ _ _ HN k x Hin Hn) as [_ B].
        destruct d; simpl in Hin; try contradiction. destruct Hws as [Hnd HF]. rewrite Forall_forall in HF.
        apply (IH f (HF (k, x) Hin Hn)). apply B. reflexivity.
      - rewrite Forall_forall in Hws. pose proof (fe_arr_none _ _ _ _ _ HN i x Hi) as B. simpl in B.
        apply (IH f (Hws x (nth_error_In _ _ Hi))). exact B.
    Qed.
  End Complete.

  Theorem first_excluded_complete parseF : forall t d sc p, carries e exb t d sc p ->
    forall fuel, well_shaped e parseF fuel t d -> first_excluded e exb fuel t d sc <> None.
  Proof.
    apply (first_excluded_complete_gen parseF (well_shaped e parseF)).
    - intros t d H. exact H.
    - intros f t d H. destruct t; first [exact I|exact H].
  Qed.

  Theorem carries_iff_first parseF fuel t d sc : well_shaped e parseF fuel t d ->
    ((exists p, carries e exb t d sc p) <-> first_excluded e exb fuel t d sc <> None).
  Proof.
    intros Hws. split.
    - intros [p H]. apply (first_excluded_complete parseF t d sc p H fuel Hws).
    - intros H. destruct (first_excluded e exb fuel t d sc) as [p|] eqn:E; [|contradiction].
      exists p. apply first_excluded_sound with (fuel := fuel). exact E.
  Qed.

  (* every carried path is an excluded path strictly below the scope *)
  Theorem carries_excluded : forall t d sc p, carries e exb t d sc p -> exb p = true /\ exists rest k, p = (sc ++ rest) ++ [SKey k].
  Proof.
    intros t d sc p H. induction H; try (destruct IHcarries as [A [rest [k0 B]]]).
    - split; [assumption|]. exists [], k. rewrite app_nil_r. reflexivity.
    - split; [exact A|]. exists (SKey k :: rest), k0. rewrite B. rewrite <- !app_assoc. reflexivity.
    - split; [assumption|]. exists [], k. rewrite app_nil_r. reflexivity.
    - split; [exact A|]. exists (SKey k :: rest), k0. rewrite B. rewrite <- !app_assoc. reflexivity.
    - split; [assumption|]. exists [], k. rewrite app_nil_r. reflexivity.
    - split; [exact A|]. exists (SKey k :: rest), k0. rewrite B. rewrite <- !app_assoc. reflexivity.
    - split; [exact A|]. exists (SIdx i :: rest), k0. rewrite B. rewrite <- !app_assoc. reflexivity.
  Qed.
End Carries.

Lemma carries_mono e (x1 x2 : list seg -> bool) : (forall p, x1 p = true -> x2 p = true) ->
  forall t d sc p, carries e x1 t d sc p -> carries e x2 t d sc p.
Proof.
  intros Hm t d sc p H. induction H.
  - eapply ce_rec_here; eauto.
  - eapply ce_rec_field; eauto.
  - eapply ce_uni_here; eauto.
  - eapply ce_uni_member; eauto.
  - eapply ce_map_here; eauto.
  - eapply ce_map_entry; eauto.
  - eapply ce_arr; eauto.
Qed.

(* ---------------------------------------------------------------------------------------------------------------------------
   6. D1 (rejection, iff), D3 (corollaries) and the relation to the decoding without exclusions
   --------------------------------------------------------------------------------------------------------------------------- *)
Section D1.
  Variable e : env.
  Variables (wc : bytes) (excl : pathspec) (ignore : nat).
  Variable parseF : nat -> bytes -> option N.
  Hypothesis Hwf : wf_schema e.

  Notation exb := (excluded_at wc excl ignore).
  Notation decJx := (decJ e wc excl ignore parseF).
  Notation well_shaped := (well_shaped e parseF).

  (* on a well-shaped document the ONLY error is the excluded-field error, and it names the FIRST offending member in document
     order (depth first) *)
  Theorem decJ_error_is_first : forall fuel top t d tr x,
    well_shaped fuel t d -> t_scope tr <> [SKey []] -> (t_scope tr = [] -> keys_nonempty (entries_of d)) ->
    decJx fuel top t d tr = Err x ->
    exists p, first_excluded e exb fuel t d (t_scope tr) = Some p /\ x = EExcluded (scope_string p) /\
              carries e exb t d (t_scope tr) p.
  Proof.
    intros fuel top t d tr x Hws Hsc Hke Hd.
    pose proof (decJ_exactX e wc excl ignore parseF Hwf fuel top t d tr Hws Hsc Hke) as H.
    destruct (first_excluded e exb fuel t d (t_scope tr)) as [p|] eqn:E.
    - exists p. split; [reflexivity|]. split; [congruence|]. apply first_excluded_sound with (fuel := fuel). exact E.
    - destruct H as [tr' [H1 _]]. congruence.
  Qed.

  Theorem decJ_rejects_iff : forall fuel top t d tr,
    well_shaped fuel t d -> t_scope tr <> [SKey []] -> (t_scope tr = [] -> keys_nonempty (entries_of d)) ->
    ((exists s, decJx fuel top t d tr = Err (EExcluded s)) <-> exists p, carries e exb t d (t_scope tr) p).
  Proof.
    intros fuel top t d tr Hws Hsc Hke.
    pose proof (decJ_exactX e wc excl ignore parseF Hwf fuel top t d tr Hws Hsc Hke) as H.
    rewrite (carries_iff_first e exb parseF fuel t d (t_scope tr) Hws).
    destruct (first_excluded e exb fuel t d (t_scope tr)) as [p|].
    - split; [intros _; discriminate|intros _; eexists; exact H].
    - destruct H as [tr' [H1 _]]. split; [intros [s Hs]; congruence|intros Hc; contradiction Hc; reflexivity].
  Qed.

  Theorem decJ_accepts_iff : forall fuel top t d tr,
    well_shaped fuel t d -> t_scope tr <> [SKey []] -> (t_scope tr = [] -> keys_nonempty (entries_of d)) ->
    ((exists v tr', decJx fuel top t d tr = Ok (v, tr')) <-> ~ exists p, carries e exb t d (t_scope tr) p).
  Proof.
    intros fuel top t d tr Hws Hsc Hke.
    pose proof (decJ_exactX e wc excl ignore parseF Hwf fuel top t d tr Hws Hsc Hke) as H.
    rewrite (carries_iff_first e exb parseF fuel t d (t_scope tr) Hws).
    destruct (first_excluded e exb fuel t d (t_scope tr)) as [p|].
    - split; [intros [v [tr' Hd]]; congruence|intros Hc; contradiction Hc; discriminate].
    - destruct H as [tr' [H1 _]]. split; [intros _ Hc; apply Hc; reflexivity|intros _; eauto].
  Qed.

  (* the whole document, any type at the start of the input *)
  Theorem decode_json_first : forall fuel t data jd,
    top_ok data jd -> well_shaped fuel t jd ->
    match first_excluded e exb fuel t jd [] with
    | Some p => decode_json e wc excl ignore parseF fuel t data = DErr (EExcluded (scope_string p))
    | None => exists v, decode_json e wc excl ignore parseF fuel t data = DOk v \/
                        exists fs, decode_json e wc excl ignore parseF fuel t data = DMissing fs v
    end.
  Proof.
    intros fuel t data jd Htop Hws. destruct (is_record e t) eqn:Er.
    - rewrite (missing_exactX e wc excl ignore parseF Hwf fuel t data jd Er Htop Hws).
      destruct (first_excluded e exb fuel t jd []); [reflexivity|].
      destruct (reported e wc excl ignore fuel t jd []); eexists; [left; reflexivity|right; eexists; reflexivity].
    - rewrite (top_non_recordX e wc excl ignore parseF Hwf fuel t data jd Er Htop Hws).
      destruct (first_excluded e exb fuel t jd []); [reflexivity|]. eexists. left. reflexivity.
  Qed.

  Theorem decode_rejects_iff : forall fuel t data jd,
    top_ok data jd -> well_shaped fuel t jd ->
    ((exists s, decode_json e wc excl ignore parseF fuel t data = DErr (EExcluded s)) <-> exists p, carries e exb t jd [] p).
  Proof.
    intros fuel t data jd Htop Hws. pose proof (decode_json_first fuel t data jd Htop Hws) as H.
    rewrite (carries_iff_first e exb parseF fuel t jd [] Hws).
    destruct (first_excluded e exb fuel t jd []) as [p|].
    - split; [intros _; discriminate|intros _; eexists; exact H].
    - split; [|intros Hc; contradiction Hc; reflexivity].
      intros [s Hs]. destruct H as [v [H|[fs H]]]; congruence.
  Qed.

  (* ---- D3a: what is reported ---- *)
  Theorem reported_eq fuel t d sc :
    reported e wc excl ignore fuel t d sc = map scope_string (filter (fun p => negb (exb p)) (missing_paths e fuel t d sc)).
  Proof. apply missing_specX_paths. Qed.

  Theorem reported_iff fuel t d sc s :
    In s (reported e wc excl ignore fuel t d sc) <->
    exists p, In p (missing_paths e fuel t d sc) /\ exb p = false /\ s = scope_string p.
  Proof.
    rewrite reported_eq, in_map_iff. split.
    - intros [p [<- Hp]]. apply filter_In in Hp as [Hin Hk]. exists p. apply negb_true_iff in Hk. auto.
    - intros [p [Hin [Hx ->]]]. exists p. split; [reflexivity|]. apply filter_In. split; [exact Hin|]. rewrite Hx. reflexivity.
  Qed.

  (* an absent required field whose path is excluded is not among the paths the report is made of *)
  Theorem excluded_required_absent_not_reported fuel t d sc p :
    In p (missing_paths e fuel t d sc) -> exb p = true ->
    ~ In p (filter (fun p => negb (exb p)) (missing_paths e fuel t d sc)).
  Proof. intros _ Hx Hin. apply filter_In in Hin as [_ Hk]. rewrite Hx in Hk. discriminate. Qed.

  (* on the rendered strings: scopeString is not injective (a key may contain '.' or "[0]"), so the statement needs that no
     non-excluded missing path renders to the same string *)
  Theorem excluded_string_not_reported fuel t d sc p :
    exb p = true ->
    (forall q, In q (missing_paths e fuel t d sc) -> scope_string q = scope_string p -> exb q = true) ->
    ~ In (scope_string p) (reported e wc excl ignore fuel t d sc).
  Proof.
    intros Hx Hinj Hin. apply reported_iff in Hin as [q [Hq [Hxq E]]]. rewrite (Hinj q Hq (eq_sym E)) in Hxq. discriminate.
  Qed.

  Theorem all_excluded_nothing_reported fuel t d sc :
    (forall p, In p (missing_paths e fuel t d sc) -> exb p = true) -> reported e wc excl ignore fuel t d sc = [].
  Proof.
    intros H. rewrite reported_eq. induction (missing_paths e fuel t d sc) as [|p l IH]; [reflexivity|]. simpl.
    rewrite (H p) by (left; reflexivity). simpl. apply IH. intros q Hq. apply H. right; exact Hq.
  Qed.

  Corollary only_excluded_missing_decodes : forall fuel t data jd,
    is_record e t = true -> top_ok data jd -> well_shaped fuel t jd ->
    (forall p, ~ carries e exb t jd [] p) ->
    (forall p, In p (missing_paths e fuel t jd []) -> exb p = true) ->
    decode_json e wc excl ignore parseF fuel t data = DOk (decode_spec e wc ignore parseF fuel false t jd).
  Proof.
    intros fuel t data jd Hrec Htop Hws Hnc Hall. rewrite (missing_exactX e wc excl ignore parseF Hwf fuel t data jd Hrec Htop Hws).
    destruct (first_excluded e exb fuel t jd []) as [p|] eqn:E.
    - exfalso. apply (Hnc p). apply first_excluded_sound with (fuel := fuel). exact E.
    - rewrite (all_excluded_nothing_reported fuel t jd [] Hall). reflexivity.
  Qed.

  (* the report never contains more than without exclusions *)
  Theorem reported_incl_missing_spec fuel t d sc : incl (reported e wc excl ignore fuel t d sc) (missing_spec e fuel t d sc).
  Proof.
    intros s Hs. apply reported_iff in Hs as [p [Hin [_ ->]]]. rewrite missing_spec_paths. apply in_map. exact Hin.
  Qed.
End D1.

(* ---- D3b: the empty spec ---- *)
Section EmptySpec.
  Variable e : env.
  Variables (wc : bytes) (ignore : nat).
  Variable parseF : nat -> bytes -> option N.

  Lemma first_excluded_empty fuel t d sc : first_excluded e (excluded_at wc ps_empty ignore) fuel t d sc = None.
  Proof. apply first_excluded_all_clear. intros p. apply excluded_at_empty_spec. Qed.

  Lemma reported_empty fuel t d sc : reported e wc ps_empty ignore fuel t d sc = missing_spec e fuel t d sc.
  Proof.
    unfold reported. rewrite <- missing_specX_all. unfold missing_specX. apply missingG_ext.
    intros p. rewrite excluded_at_empty_spec. reflexivity.
  Qed.

  Hypothesis Hwf : wf_schema e.

  (* MissingProofs.decJ_exact is the instance excl = ps_empty of decJ_exactX *)
  Corollary decJ_exact_is_instance : forall fuel top t d tr,
    well_shaped e parseF fuel t d ->
    t_scope tr <> [SKey []] -> (t_scope tr = [] -> keys_nonempty (entries_of d)) ->
    exists tr',
      decJ e wc ps_empty ignore parseF fuel top t d tr
      = Ok (decode_spec e wc ignore parseF fuel (raises e fuel top t d tr) t d, tr') /\
      t_scope tr' = t_scope tr /\
      Permutation (t_missing tr') (t_missing tr ++ missing_spec e fuel t d (t_scope tr)).
  Proof.
    intros fuel top t d tr Hws Hsc Hke.
    pose proof (decJ_exactX e wc ps_empty ignore parseF Hwf fuel top t d tr Hws Hsc Hke) as H.
    rewrite first_excluded_empty in H. unfold raisesX in H. rewrite reported_empty in H. exact H.
  Qed.

  Corollary missing_exact_is_instance : forall fuel t data jd,
    is_record e t = true -> top_ok data jd -> well_shaped e parseF fuel t jd ->
    decode_json e wc ps_empty ignore parseF fuel t data =
    match missing_spec e fuel t jd [] with
    | [] => DOk (decode_spec e wc ignore parseF fuel false t jd)
    | ms => DMissing (sort_bytes ms) (decode_spec e wc ignore parseF fuel true t jd)
    end.
  Proof.
    intros fuel t data jd Hrec Htop Hws.
    rewrite (missing_exactX e wc ps_empty ignore parseF Hwf fuel t data jd Hrec Htop Hws).
    rewrite first_excluded_empty, reported_empty. reflexivity.
  Qed.
End EmptySpec.

(* ---- D3c: monotonicity in the spec ---- *)
Section Monotone.
  Variable e : env.
  Variables (wc : bytes) (x1 x2 : pathspec) (ignore : nat).
  Variable parseF : nat -> bytes -> option N.
  Hypothesis Hle : forall path, ps_matches wc x1 path = true -> ps_matches wc x2 path = true.

  Lemma excluded_at_mono p : excluded_at wc x1 ignore p = true -> excluded_at wc x2 ignore p = true.
  Proof.
    unfold excluded_at. intros H. apply andb_true_iff in H as [A B]. rewrite A, (Hle _ B). reflexivity.
  Qed.

  (* a larger spec rejects at least as much ... *)
  Theorem larger_spec_rejects_more t d sc p :
    carries e (excluded_at wc x1 ignore) t d sc p -> carries e (excluded_at wc x2 ignore) t d sc p.
  Proof. apply carries_mono. exact excluded_at_mono. Qed.

  Theorem larger_spec_accepts_less fuel t d sc : well_shaped e parseF fuel t d ->
    first_excluded e (excluded_at wc x2 ignore) fuel t d sc = None -> first_excluded e (excluded_at wc x1 ignore) fuel t d sc = None.
  Proof.
    intros Hws H2. destruct (first_excluded e (excluded_at wc x1 ignore) fuel t d sc) as [p|] eqn:E1; [|reflexivity].
    exfalso. apply first_excluded_sound in E1. apply larger_spec_rejects_more in E1.
    apply (first_excluded_complete e _ parseF t d sc p E1 fuel Hws). exact H2.
  Qed.

  (* ... and, when it accepts, reports a subset *)
  Theorem larger_spec_reports_less fuel t d sc :
    incl (reported e wc x2 ignore fuel t d sc) (reported e wc x1 ignore fuel t d sc).
  Proof.
    intros s Hs. apply reported_iff in Hs as [p [Hin [Hx ->]]]. apply reported_iff. exists p. split; [exact Hin|]. split; [|reflexivity].
    destruct (excluded_at wc x1 ignore p) eqn:E; [|reflexivity]. apply excluded_at_mono in E. congruence.
  Qed.

  Theorem larger_spec_reports_sublist fuel t d sc :
    filter (fun p => negb (excluded_at wc x2 ignore p)) (filter (fun p => negb (excluded_at wc x1 ignore p)) (missing_paths e fuel t d sc))
    = filter (fun p => negb (excluded_at wc x2 ignore p)) (missing_paths e fuel t d sc).
  Proof.
    rewrite filter_filter. apply filter_ext. intros p.
    destruct (excluded_at wc x1 ignore p) eqn:E; [|reflexivity]. apply excluded_at_mono in E. rewrite E. reflexivity.
  Qed.
End Monotone.

(* directive lists: well_formed on the larger list (PathSpecProofs.matches_monotone) *)
Corollary directive_subset_monotone wc ds1 ds2 :
  incl ds1 ds2 -> well_formed wc ds2 ->
  forall path, ps_matches wc (new_pathspec' ds1) path = true -> ps_matches wc (new_pathspec' ds2) path = true.
Proof. intros Hi Hw path. apply matches_monotone; assumption. Qed.

(* with a well-formed directive list the excluded positions are those of the declarative specification of C07 *)
Theorem excluded_at_iff_spec wc ds ignore sc : well_formed wc ds ->
  (excluded_at wc (new_pathspec' ds) ignore sc = true <->
   ignore < length sc /\ spec_excludes wc ds (member_path wc ignore sc)).
Proof.
  intros Hw. unfold excluded_at. rewrite andb_true_iff, Nat.ltb_lt, (matches_iff_spec wc ds _ Hw). reflexivity.
Qed.

(* ---- the decoded value: MissingProofs.decode_spec, the same function of the document as without exclusions; the spec enters
        only through the raising flag ---- *)
Section Value.
  Variable e : env.
  Variables (wc : bytes) (excl : pathspec) (ignore : nat).
  Variable parseF : nat -> bytes -> option N.
  Hypothesis Hwf : wf_schema e.
  Notation exb := (excluded_at wc excl ignore).

  (* D2 with the filter written out *)
  Theorem missing_exactX_spec : forall fuel t data jd,
    is_record e t = true -> top_ok data jd -> well_shaped e parseF fuel t jd ->
    (forall p, ~ carries e exb t jd [] p) ->
    decode_json e wc excl ignore parseF fuel t data =
    match map scope_string (filter (fun p => negb (exb p)) (missing_paths e fuel t jd [])) with
    | [] => DOk (decode_spec e wc ignore parseF fuel false t jd)
    | ms => DMissing (sort_bytes ms) (decode_spec e wc ignore parseF fuel true t jd)
    end.
  Proof.
    intros fuel t data jd Hrec Htop Hws Hnc.
    rewrite (missing_exactX e wc excl ignore parseF Hwf fuel t data jd Hrec Htop Hws).
    destruct (first_excluded e exb fuel t jd []) as [p|] eqn:E.
    - exfalso. apply (Hnc p). apply first_excluded_sound with (fuel := fuel). exact E.
    - rewrite reported_eq. reflexivity.
  Qed.

  Definition value_of (r : dres) : option value := match r with DOk v | DMissing _ v => Some v | _ => None end.

  (* exclusion does not change the decoded value - provided it does not change WHETHER the top-level record raises (a raising
     record does not fill its own defaults) *)
  Theorem value_independent_of_excl_partial : forall fuel t data jd,
    is_record e t = true -> top_ok data jd -> well_shaped e parseF fuel t jd ->
    (forall p, ~ carries e exb t jd [] p) ->
    (reported e wc excl ignore fuel t jd [] = [] <-> missing_spec e fuel t jd [] = []) ->
    value_of (decode_json e wc excl ignore parseF fuel t data) = value_of (decode_json e wc ps_empty ignore parseF fuel t data).
  Proof.
    intros fuel t data jd Hrec Htop Hws Hnc Hiff.
    rewrite (missing_exact e wc ignore parseF Hwf fuel t data jd Hrec Htop Hws).
    rewrite (missing_exactX e wc excl ignore parseF Hwf fuel t data jd Hrec Htop Hws).
    destruct (first_excluded e exb fuel t jd []) as [p|] eqn:E.
    - exfalso. apply (Hnc p). apply first_excluded_sound with (fuel := fuel). exact E.
    - destruct (reported e wc excl ignore fuel t jd []) as [|a l], (missing_spec e fuel t jd []) as [|b m]; try reflexivity.
      + destruct Hiff as [H _]. specialize (H eq_refl). discriminate.
      + destruct Hiff as [_ H]. specialize (H eq_refl). discriminate.
  Qed.

  (* nested positions never raise: below the top level the value under ANY spec is the value without exclusions *)
  Theorem nested_value_independent_of_excl : forall fuel t d tr v tr',
    well_shaped e parseF fuel t d -> t_scope tr <> [SKey []] -> (t_scope tr = [] -> keys_nonempty (entries_of d)) ->
    decJ e wc excl ignore parseF fuel false t d tr = Ok (v, tr') -> v = decode_spec e wc ignore parseF fuel false t d.
  Proof.
    intros fuel t d tr v tr' Hws Hsc Hke Hd.
    pose proof (decJ_exactX e wc excl ignore parseF Hwf fuel false t d tr Hws Hsc Hke) as H.
    destruct (first_excluded e exb fuel t d (t_scope tr)) as [p|]; [congruence|].
    destruct H as [tr2 [H1 _]]. rewrite H1 in Hd. injection Hd as <- _. reflexivity.
  Qed.
End Value.

(* ---------------------------------------------------------------------------------------------------------------------------
   7. same known content, same outcome - under any exclusion spec (order independence, unknown-field tolerance)
   --------------------------------------------------------------------------------------------------------------------------- *)
Section SimG.
  Variable e : env.
  Variable B : Type.
  Variable here : list seg -> list B.

  Section Step.
    Variable S : ty -> jdoc -> jdoc -> Prop.
    Variable parseF : nat -> bytes -> option N.
    Variable W : ty -> jdoc -> Prop.
    Variable M : ty -> jdoc -> list seg -> list B.
    Hypothesis HS : forall t x1 x2, W t x1 -> S t x1 x2 -> forall sc, Permutation (M t x1 sc) (M t x2 sc).

    Lemma HSeqG t x1 x2 : W t x1 -> x1 = x2 \/ S t x1 x2 -> forall sc, Permutation (M t x1 sc) (M t x2 sc).
    Proof. intros Hw [<-|Hs] sc; [reflexivity|]. apply HS; assumption. Qed.

    Lemma sim_mg_arr t' l1 l2 : Forall2 (fun a b => a = b \/ S t' a b) l1 l2 -> Forall (W t') l1 ->
      forall sc i, Permutation (mg_arr B M t' sc i l1) (mg_arr B M t' sc i l2).
    Proof.
      intros H. induction H as [|a b l1 l2 Hab _ IH]; intros HW sc i; [reflexivity|].
      inversion HW as [|? ? Ha Hl]; subst. simpl. apply Permutation_app; [apply HSeqG; assumption|apply IH; exact Hl].
    Qed.

    Theorem sim_mg_step t d1 d2 :
      ws_step e parseF W t d1 -> sim_step e S t d1 d2 ->
      forall sc, Permutation (mg_step e B here M t d1 sc) (mg_step e B here M t d2 sc).
    Proof.
      intros Hws Hs sc. destruct t as [p|syms|sz|n|t'|t']; simpl in Hs; try reflexivity.
      - cbn [ws_step mg_step] in *. destruct (lookup e n) as [[incs fs|nullable ms]|] eqn:El; [| |reflexivity].
        + destruct Hws as [es1 [He1 [Hnd1 HF1]]]. destruct Hs as [es2 [He2 [Hnd2 Hrel]]].
          rewrite (obj_entries_of d1 es1 He1) in *. rewrite (obj_entries_of d2 es2 He2). rewrite Forall_forall in HF1.
          apply flat_map_perm_in. intros fd Hin. specialize (Hrel fd Hin). specialize (HF1 fd Hin). unfold opt_rel in Hrel.
          unfold mg_field.
          destruct (present es1 (f_name fd)) as [x1|], (present es2 (f_name fd)) as [x2|]; try contradiction; [|reflexivity].
          apply HSeqG; assumption.
        + destruct Hws as [es1 [He1 [Hnd1 HU]]]. destruct Hs as [es2' [es2 [He2 [HF2 HP]]]].
          rewrite (obj_entries_of d1 es1 He1) in *. rewrite (obj_entries_of d2 es2 He2).
          assert (Hall : forall a, In a es1 -> is_null (snd a) = false ->
                           forall mt, assoc_ty (fst a) ms = Some mt -> W mt (snd a)).
          { intros a Hin Hn mt Ha. unfold ws_union in HU.
            assert (Hf : In a (filter (fun kx => negb (is_null (snd kx))) es1)) by (apply filter_In; split; [exact Hin|rewrite Hn; reflexivity]).
            destruct (filter (fun kx => negb (is_null (snd kx))) es1) as [|kx [|kx' rest]]; [contradiction| |contradiction].
            destruct Hf as [<-|[]]. destruct HU as [mt0 [Ha0 Hw0]]. rewrite Ha in Ha0. injection Ha0 as <-. exact Hw0. }
          rewrite <- (Permutation_flat_map _ HP).
          apply (flat_map_perm_F2 (fun a b => In a es1 /\
                   entry_rel (fun k x1 x2 => forall mt, assoc_ty k ms = Some mt -> S mt x1 x2) a b)).
          * apply (Forall2_impl_in _ _ _ _ HF2). intros a b Hin Hab. split; assumption.
          * intros a b [Hin [Hk [Hn Hr]]]. rewrite <- Hk, <- Hn. destruct (is_null (snd a)) eqn:En; [reflexivity|].
            destruct (assoc_ty (fst a) ms) as [mt|] eqn:Ea; [|reflexivity].
            apply HSeqG; [apply (Hall a Hin En mt Ea)|]. destruct (Hr eq_refl) as [E|HR]; [left; exact E|right; apply HR; first [exact Ea|reflexivity]].
      - assert (Hrefl : d1 = d2 -> Permutation (mg_step e B here M (TArray t') d1 sc) (mg_step e B here M (TArray t') d2 sc))
          by (intros <-; reflexivity).
        destruct d1; try (apply Hrefl; exact Hs). destruct d2; try (apply Hrefl; exact Hs).
        simpl in Hws. simpl. apply sim_mg_arr; assumption.
      - assert (Hrefl : d1 = d2 -> Permutation (mg_step e B here M (TMap t') d1 sc) (mg_step e B here M (TMap t') d2 sc))
          by (intros <-; reflexivity).
        destruct d1; try (apply Hrefl; exact Hs). destruct d2; try (apply Hrefl; exact Hs).
        simpl in Hws. destruct Hws as [Hnd1 HW1]. destruct Hs as [es2' [HF2 HP]]. simpl. rewrite Forall_forall in HW1.
        rewrite <- (Permutation_flat_map _ HP).
        apply (flat_map_perm_F2 (fun a b => In a entries /\ entry_rel (fun _ => S t') a b)).
        * apply (Forall2_impl_in _ _ _ _ HF2). intros a b Hin Hab. split; assumption.
        * intros a b [Hin [Hk [Hn Hr]]]. rewrite <- Hk, <- Hn. destruct (is_null (snd a)) eqn:En; [reflexivity|].
          apply HSeqG; [apply (HW1 a Hin En)|apply Hr; reflexivity].
    Qed.
  End Step.

  Theorem sim_missingG parseF : forall fuel t d1 d2, well_shaped e parseF fuel t d1 -> sim e fuel t d1 d2 ->
    forall sc, Permutation (missingG e B here fuel t d1 sc) (missingG e B here fuel t d2 sc).
  Proof.
    induction fuel as [|f IH]; intros t d1 d2 Hws Hs; [contradiction|].
    cbn [well_shaped missingG sim] in *.
    apply (sim_mg_step (sim e f) parseF (well_shaped e parseF f) (missingG e B here f)); [|exact Hws|exact Hs].
    intros t0 x1 x2 Hw Hsx. apply IH; assumption.
  Qed.
End SimG.

(* jperm, read entry-wise in both directions *)
Lemma Forall2_in_l {A B} (R : A -> B -> Prop) l1 l2 a : Forall2 R l1 l2 -> In a l1 -> exists b, In b l2 /\ R a b.
Proof.
  intros H. induction H as [|x y l1 l2 Hxy _ IH]; intros Hin; [contradiction|].
  destruct Hin as [<-|Hin]; [exists y; split; [left; reflexivity|exact Hxy]|].
  destruct (IH Hin) as [b [Hb Hr]]. exists b. split; [right; exact Hb|exact Hr].
Qed.

Lemma Forall2_in_r {A B} (R : A -> B -> Prop) l1 l2 b : Forall2 R l1 l2 -> In b l2 -> exists a, In a l1 /\ R a b.
Proof.
  intros H. induction H as [|x y l1 l2 Hxy _ IH]; intros Hin; [contradiction|].
  destruct Hin as [<-|Hin]; [exists x; split; [left; reflexivity|exact Hxy]|].
  destruct (IH Hin) as [a [Ha Hr]]. exists a. split; [right; exact Ha|exact Hr].
Qed.

Lemma Forall2_nth_l {A B} (R : A -> B -> Prop) l1 l2 : Forall2 R l1 l2 ->
  forall i a, nth_error l1 i = Some a -> exists b, nth_error l2 i = Some b /\ R a b.
Proof.
  intros H. induction H as [|x y l1 l2 Hxy _ IH]; intros [|i] a Hi; try discriminate.
  - injection Hi as <-. exists y. auto.
  - apply (IH i a Hi).
Qed.

Lemma Forall2_nth_r {A B} (R : A -> B -> Prop) l1 l2 : Forall2 R l1 l2 ->
  forall i b, nth_error l2 i = Some b -> exists a, nth_error l1 i = Some a /\ R a b.
Proof.
  intros H. induction H as [|x y l1 l2 Hxy _ IH]; intros [|i] b Hi; try discriminate.
  - injection Hi as <-. exists x. auto.
  - apply (IH i b Hi).
Qed.

Lemma jperm_entries_fwd d1 d2 : jperm d1 d2 ->
  forall k x1, In (k, x1) (entries_of d1) -> exists x2, In (k, x2) (entries_of d2) /\ jperm x1 x2.
Proof.
  intros Hj k x1 Hin. inversion Hj as [d|l1 l2 HF|es1 es2' es2 HF HP]; subst.
  - exists x1. split; [exact Hin|apply jp_refl].
  - contradiction.
  - simpl in *. destruct (Forall2_in_l _ _ _ _ HF Hin) as [[k2 x2] [Hin2 [Hk Hx]]]. simpl in Hk, Hx. subst k2.
    exists x2. split; [apply (Permutation_in _ HP); exact Hin2|exact Hx].
Qed.

Lemma jperm_entries_bwd d1 d2 : jperm d1 d2 ->
  forall k x2, In (k, x2) (entries_of d2) -> exists x1, In (k, x1) (entries_of d1) /\ jperm x1 x2.
Proof.
  intros Hj k x2 Hin. inversion Hj as [d|l1 l2 HF|es1 es2' es2 HF HP]; subst.
  - exists x2. split; [exact Hin|apply jp_refl].
  - contradiction.
  - simpl in *. apply (Permutation_in _ (Permutation_sym HP)) in Hin.
    destruct (Forall2_in_r _ _ _ _ HF Hin) as [[k1 x1] [Hin1 [Hk Hx]]]. simpl in Hk, Hx. subst k1.
    exists x1. split; [exact Hin1|exact Hx].
Qed.

Lemma jperm_items_fwd l1 d2 : jperm (JArr l1) d2 ->
  exists l2, d2 = JArr l2 /\ forall i x1, nth_error l1 i = Some x1 -> exists x2, nth_error l2 i = Some x2 /\ jperm x1 x2.
Proof.
  intros Hj. inversion Hj as [d|l1' l2 HF|]; subst.
  - exists l1. split; [reflexivity|]. intros i x1 Hi. exists x1. split; [exact Hi|apply jp_refl].
  - exists l2. split; [reflexivity|]. apply Forall2_nth_l. exact HF.
Qed.

Lemma jperm_items_bwd d1 l2 : jperm d1 (JArr l2) ->
  exists l1, d1 = JArr l1 /\ forall i x2, nth_error l2 i = Some x2 -> exists x1, nth_error l1 i = Some x1 /\ jperm x1 x2.
Proof.
  intros Hj. inversion Hj as [d|l1 l2' HF|]; subst.
  - exists l2. split; [reflexivity|]. intros i x2 Hi. exists x2. split; [exact Hi|apply jp_refl].
  - exists l1. split; [reflexivity|]. apply Forall2_nth_r. exact HF.
Qed.

Section CarriesPerm.
  Variable e : env.
  Variable exb : list seg -> bool.

  (* "carries" does not depend on the order of the members of any object *)
  Theorem carries_jperm_fwd : forall t d1 sc p, carries e exb t d1 sc p -> forall d2, jperm d1 d2 -> carries e exb t d2 sc p.
  Proof.
    intros t d1 sc p H. induction H as [n incs fs d k x sc El Hin Hn Hx
                                       | n incs fs d k x fd sc p El Hin Hn Efd H IH
                                       | n nullable ms d k x sc El Hin Hn Hx
                                       | n nullable ms d k x mt sc p El Hin Hn Ea H IH
                                       | t' d k x sc Hin Hn Hx
                                       | t' d k x sc p Hin Hn H IH
                                       | t' items i x sc p Hi H IH]; intros d2 Hj.
    - destruct (jperm_entries_fwd _ _ Hj k x Hin) as [x2 [Hin2 Hjx]]. rewrite (jperm_null _ _ Hjx) in Hn.
      apply (ce_rec_here e exb n incs fs d2 k x2 sc El Hin2 Hn Hx).
    - destruct (jperm_entries_fwd _ _ Hj k x Hin) as [x2 [Hin2 Hjx]]. rewrite (jperm_null _ _ Hjx) in Hn.
      apply (ce_rec_field e exb n incs fs d2 k x2 fd sc p El Hin2 Hn Efd). apply IH. exact Hjx.
    - destruct (jperm_entries_fwd _ _ Hj k x Hin) as [x2 [Hin2 Hjx]]. rewrite (jperm_null _ _ Hjx) in Hn.
      apply (ce_uni_here e exb n nullable ms d2 k x2 sc El Hin2 Hn Hx).
    - destruct (jperm_entries_fwd _ _ Hj k x Hin) as [x2 [Hin2 Hjx]]. rewrite (jperm_null _ _ Hjx) in Hn.
      apply (ce_uni_member e exb n nullable ms d2 k x2 mt sc p El Hin2 Hn Ea). apply IH. exact Hjx.
    - destruct (jperm_entries_fwd _ _ Hj k x Hin) as [x2 [Hin2 Hjx]]. rewrite (jperm_null _ _ Hjx) in Hn.
      apply (ce_map_here e exb t' d2 k x2 sc Hin2 Hn Hx).
    - destruct (jperm_entries_fwd _ _ Hj k x Hin) as [x2 [Hin2 Hjx]]. rewrite (jperm_null _ _ Hjx) in Hn.
      apply (ce_map_entry e exb t' d2 k x2 sc p Hin2 Hn). apply IH. exact Hjx.
    - destruct (jperm_items_fwd _ _ Hj) as [l2 [-> Hl]]. destruct (Hl i x Hi) as [x2 [Hi2 Hjx]].
      apply (ce_arr e exb t' l2 i x2 sc p Hi2). apply IH. exact Hjx.
  Qed.

  Theorem carries_jperm_bwd : forall t d2 sc p, carries e exb t d2 sc p -> forall d1, jperm d1 d2 -> carries e exb t d1 sc p.
  Proof.
    intros t d2 sc p H. induction H as [n incs fs d k x sc El Hin Hn Hx
                                       | n incs fs d k x fd sc p El Hin Hn Efd H IH
                                       | n nullable ms d k x sc El Hin Hn Hx
                                       | n nullable ms d k x mt sc p El Hin Hn Ea H IH
                                       | t' d k x sc Hin Hn Hx
                                       | t' d k x sc p Hin Hn H IH
                                       | t' items i x sc p Hi H IH]; intros d1 Hj.
    - destruct (jperm_entries_bwd _ _ Hj k x Hin) as [x1 [Hin1 Hjx]]. rewrite <- (jperm_null _ _ Hjx) in Hn.
      apply (ce_rec_here e exb n incs fs d1 k x1 sc El Hin1 Hn Hx).
    - destruct (jperm_entries_bwd _ _ Hj k x Hin) as [x1 [Hin1 Hjx]]. rewrite <- (jperm_null _ _ Hjx) in Hn.
      apply (ce_rec_field e exb n incs fs d1 k x1 fd sc p El Hin1 Hn Efd). apply IH. exact Hjx.
    - destruct (jperm_entries_bwd _ _ Hj k x Hin) as [x1 [Hin1 Hjx]]. rewrite <- (jperm_null _ _ Hjx) in Hn.
      apply (ce_uni_here e exb n nullable ms d1 k x1 sc El Hin1 Hn Hx).
    - destruct (jperm_entries_bwd _ _ Hj k x Hin) as [x1 [Hin1 Hjx]]. rewrite <- (jperm_null _ _ Hjx) in Hn.
      apply (ce_uni_member e exb n nullable ms d1 k x1 mt sc p El Hin1 Hn Ea). apply IH. exact Hjx.
    - destruct (jperm_entries_bwd _ _ Hj k x Hin) as [x1 [Hin1 Hjx]]. rewrite <- (jperm_null _ _ Hjx) in Hn.
      apply (ce_map_here e exb t' d1 k x1 sc Hin1 Hn Hx).
    - destruct (jperm_entries_bwd _ _ Hj k x Hin) as [x1 [Hin1 Hjx]]. rewrite <- (jperm_null _ _ Hjx) in Hn.
      apply (ce_map_entry e exb t' d1 k x1 sc p Hin1 Hn). apply IH. exact Hjx.
    - destruct (jperm_items_bwd _ _ Hj) as [l1 [-> Hl]]. destruct (Hl i x Hi) as [x1 [Hi1 Hjx]].
      apply (ce_arr e exb t' l1 i x1 sc p Hi1). apply IH. exact Hjx.
  Qed.

  Theorem carries_order_independent t d1 d2 sc p : jperm d1 d2 -> (carries e exb t d1 sc p <-> carries e exb t d2 sc p).
  Proof.
    intros Hj. split; intros H.
    - exact (carries_jperm_fwd t d1 sc p H d2 Hj).
    - exact (carries_jperm_bwd t d2 sc p H d1 Hj).
  Qed.
End CarriesPerm.

Section SameContentX.
  Variable e : env.
  Variables (wc : bytes) (excl : pathspec) (ignore : nat).
  Variable parseF : nat -> bytes -> option N.
  Notation exb := (excluded_at wc excl ignore).
  Notation decJx := (decJ e wc excl ignore parseF).
  Notation well_shaped := (well_shaped e parseF).
  Notation decode_spec := (decode_spec e wc ignore parseF).

  Theorem sim_reported fuel t d1 d2 : well_shaped fuel t d1 -> sim e fuel t d1 d2 ->
    forall sc, Permutation (reported e wc excl ignore fuel t d1 sc) (reported e wc excl ignore fuel t d2 sc).
  Proof. intros Hws Hs sc. unfold reported, missing_specX. apply (sim_missingG e bytes _ parseF); assumption. Qed.

  Theorem sim_missing_paths fuel t d1 d2 : well_shaped fuel t d1 -> sim e fuel t d1 d2 ->
    forall sc, Permutation (missing_paths e fuel t d1 sc) (missing_paths e fuel t d2 sc).
  Proof. intros Hws Hs sc. unfold missing_paths. apply (sim_missingG e (list seg) _ parseF); assumption. Qed.

  Hypothesis Hwf : wf_schema e.

  (* two documents with the same known content, neither carrying an excluded member: same value, same report *)
  Theorem same_content_same_resultX : forall fuel top t d1 d2 tr,
    well_shaped fuel t d1 -> sim e fuel t d1 d2 ->
    t_scope tr <> [SKey []] ->
    (t_scope tr = [] -> keys_nonempty (entries_of d1)) -> (t_scope tr = [] -> keys_nonempty (entries_of d2)) ->
    first_excluded e exb fuel t d1 (t_scope tr) = None -> first_excluded e exb fuel t d2 (t_scope tr) = None ->
    exists v tr1 tr2,
      decJx fuel top t d1 tr = Ok (v, tr1) /\ decJx fuel top t d2 tr = Ok (v, tr2) /\
      t_scope tr1 = t_scope tr2 /\ Permutation (t_missing tr1) (t_missing tr2) /\
      sort_bytes (t_missing tr1) = sort_bytes (t_missing tr2).
  Proof.
    intros fuel top t d1 d2 tr Hws Hs Hsc Hk1 Hk2 F1 F2. destruct (sim_ok e wc ignore parseF fuel t d1 d2 Hws Hs) as [Hws2 [Hv _]].
    pose proof (sim_reported fuel t d1 d2 Hws Hs) as Hm.
    pose proof (decJ_exactX e wc excl ignore parseF Hwf fuel top t d1 tr Hws Hsc Hk1) as A. rewrite F1 in A.
    pose proof (decJ_exactX e wc excl ignore parseF Hwf fuel top t d2 tr Hws2 Hsc Hk2) as B. rewrite F2 in B.
    destruct A as [tr1 [A1 [A2 A3]]]. destruct B as [tr2 [B1 [B2 B3]]].
    assert (HP : Permutation (t_missing tr1) (t_missing tr2)).
    { rewrite A3, B3. apply Permutation_app_head. apply Hm. }
    exists (decode_spec fuel (raisesX e wc excl ignore fuel top t d1 tr) t d1), tr1, tr2. split; [exact A1|]. split.
    - rewrite B1. do 2 f_equal. rewrite Hv. f_equal. unfold raisesX. f_equal. f_equal. apply is_nilb_perm.
      apply Permutation_app_head. apply Permutation_sym. apply Hm.
    - split; [congruence|]. split; [exact HP|apply sort_bytes_perm_invariant; exact HP].
  Qed.

  (* order independence: permuting the members of any object at any depth never changes WHETHER the document is rejected; when
     it is accepted the value and the report are the same; when it is rejected each order's first offender is carried by both *)
  Theorem order_independentX : forall fuel top t d1 d2 tr,
    well_shaped fuel t d1 -> jperm d1 d2 ->
    t_scope tr <> [SKey []] -> (t_scope tr = [] -> keys_nonempty (entries_of d1)) ->
    (exists p1 p2,
       decJx fuel top t d1 tr = Err (EExcluded (scope_string p1)) /\ decJx fuel top t d2 tr = Err (EExcluded (scope_string p2)) /\
       carries e exb t d1 (t_scope tr) p1 /\ carries e exb t d1 (t_scope tr) p2 /\
       carries e exb t d2 (t_scope tr) p1 /\ carries e exb t d2 (t_scope tr) p2)
    \/
    (exists v tr1 tr2,
       decJx fuel top t d1 tr = Ok (v, tr1) /\ decJx fuel top t d2 tr = Ok (v, tr2) /\
       t_scope tr1 = t_scope tr2 /\ Permutation (t_missing tr1) (t_missing tr2) /\
       sort_bytes (t_missing tr1) = sort_bytes (t_missing tr2)).
  Proof.
    intros fuel top t d1 d2 tr Hws Hj Hsc Hk1.
    pose proof (jperm_sim e parseF fuel t d1 d2 Hws Hj) as Hs.
    destruct (sim_ok e wc ignore parseF fuel t d1 d2 Hws Hs) as [Hws2 _].
    assert (Hk2 : t_scope tr = [] -> keys_nonempty (entries_of d2)) by (intros E; apply (jperm_keys_nonempty d1 d2 Hj); exact (Hk1 E)).
    pose proof (decJ_exactX e wc excl ignore parseF Hwf fuel top t d1 tr Hws Hsc Hk1) as A.
    pose proof (decJ_exactX e wc excl ignore parseF Hwf fuel top t d2 tr Hws2 Hsc Hk2) as B.
    destruct (first_excluded e exb fuel t d1 (t_scope tr)) as [p1|] eqn:F1.
    - pose proof (first_excluded_sound e exb fuel t d1 _ p1 F1) as C1.
      pose proof (carries_jperm_fwd e exb t d1 _ p1 C1 d2 Hj) as C12.
      destruct (first_excluded e exb fuel t d2 (t_scope tr)) as [p2|] eqn:F2.
      + pose proof (first_excluded_sound e exb fuel t d2 _ p2 F2) as C2.
        pose proof (carries_jperm_bwd e exb t d2 _ p2 C2 d1 Hj) as C21.
        left. exists p1, p2. repeat split; assumption.
      + exfalso. apply (first_excluded_complete e exb parseF t d2 _ p1 C12 fuel Hws2). exact F2.
    - destruct (first_excluded e exb fuel t d2 (t_scope tr)) as [p2|] eqn:F2.
      + exfalso. pose proof (first_excluded_sound e exb fuel t d2 _ p2 F2) as C2.
        pose proof (carries_jperm_bwd e exb t d2 _ p2 C2 d1 Hj) as C21.
        apply (first_excluded_complete e exb parseF t d1 _ p2 C21 fuel Hws). exact F1.
      + right. apply (same_content_same_resultX fuel top t d1 d2 tr Hws Hs Hsc Hk1 Hk2 F1 F2).
  Qed.

  (* unknown_fields_skipped: one more member of ANY shape under a key that is no field of the record and whose path is not
     excluded changes nothing - neither the rejection (same first offender) nor the value nor the report *)
  Lemma fe_obj_insert_unknown FE child sc k x : exb (sc ++ [SKey k]) = false -> child k = None ->
    forall l1 l2, fe_obj exb FE child sc (l1 ++ (k, x) :: l2) = fe_obj exb FE child sc (l1 ++ l2).
  Proof.
    intros Hx Hc. induction l1 as [|[k1 x1] l1 IH]; intros l2.
    - simpl. rewrite Hx, Hc. destruct (is_null x); reflexivity.
    - cbn [app fe_obj fst snd]. rewrite IH. reflexivity.
  Qed.

  Theorem unknown_fields_skippedX : forall n incs fs f top l1 l2 k x tr,
    lookup e n = Some (DRecord incs fs) -> field_of e n k = None -> ~ In k (map fst (l1 ++ l2)) ->
    well_shaped (S f) (TRef n) (JObj (l1 ++ l2)) ->
    t_scope tr <> [SKey []] -> (t_scope tr = [] -> keys_nonempty (l1 ++ l2) /\ k <> []) ->
    exb (t_scope tr ++ [SKey k]) = false ->
    match first_excluded e exb (S f) (TRef n) (JObj (l1 ++ l2)) (t_scope tr) with
    | Some p =>
        decJx (S f) top (TRef n) (JObj (l1 ++ l2)) tr = Err (EExcluded (scope_string p)) /\
        decJx (S f) top (TRef n) (JObj (l1 ++ (k, x) :: l2)) tr = Err (EExcluded (scope_string p))
    | None =>
        exists v tr1 tr2,
          decJx (S f) top (TRef n) (JObj (l1 ++ l2)) tr = Ok (v, tr1) /\
          decJx (S f) top (TRef n) (JObj (l1 ++ (k, x) :: l2)) tr = Ok (v, tr2) /\
          t_scope tr1 = t_scope tr2 /\ Permutation (t_missing tr1) (t_missing tr2) /\
          sort_bytes (t_missing tr1) = sort_bytes (t_missing tr2)
    end.
  Proof.
    intros n incs fs f top l1 l2 k x tr Hn Hk Hnew Hws Hsc Hke Hx.
    pose proof (unknown_field_sim e parseF n incs fs f l1 l2 k x Hn Hk Hnew Hws) as Hs.
    destruct (sim_ok e wc ignore parseF (S f) (TRef n) _ _ Hws Hs) as [Hws2 _].
    assert (Hk1 : t_scope tr = [] -> keys_nonempty (entries_of (JObj (l1 ++ l2)))) by (intros E; exact (proj1 (Hke E))).
    assert (Hk2 : t_scope tr = [] -> keys_nonempty (entries_of (JObj (l1 ++ (k, x) :: l2)))).
    { intros E. destruct (Hke E) as [H1 H2]. simpl. unfold keys_nonempty in *. apply Forall_app in H1 as [A B].
      apply Forall_app. split; [exact A|]. constructor; [exact H2|exact B]. }
    assert (EF : first_excluded e exb (S f) (TRef n) (JObj (l1 ++ (k, x) :: l2)) (t_scope tr)
                 = first_excluded e exb (S f) (TRef n) (JObj (l1 ++ l2)) (t_scope tr)).
    { cbn [first_excluded fe_step]. rewrite Hn. cbn [entries_of]. apply fe_obj_insert_unknown; [exact Hx|].
      unfold rec_child. rewrite Hk. reflexivity. }
    pose proof (decJ_exactX e wc excl ignore parseF Hwf (S f) top (TRef n) _ tr Hws Hsc Hk1) as A.
    pose proof (decJ_exactX e wc excl ignore parseF Hwf (S f) top (TRef n) _ tr Hws2 Hsc Hk2) as B.
    rewrite EF in B.
    destruct (first_excluded e exb (S f) (TRef n) (JObj (l1 ++ l2)) (t_scope tr)) as [p|] eqn:F1.
    - split; assumption.
    - apply (same_content_same_resultX (S f) top (TRef n) _ _ tr Hws Hs Hsc Hk1 Hk2 F1). rewrite EF. reflexivity.
  Qed.
End SameContentX.

(* ---------------------------------------------------------------------------------------------------------------------------
   8. D4: transfer to the cursor-level ROR2 reader (through Ror2Refines.decR_refines, which holds for any exclusion spec) and to
      the untyped reader (through AnyProofs.readers_agree, which holds for any exclusion spec)
   --------------------------------------------------------------------------------------------------------------------------- *)
Section Ror2TreeX.
  Variable e : env.
  Variables (wc : bytes) (excl : pathspec) (ignore : nat).
  Variable parseF : nat -> bytes -> option N.
  Variable unesc : bytes -> option bytes.
  Variable empty_marker : bytes.
  Hypothesis Hwf : wf_schema e.

  Notation exb := (excluded_at wc excl ignore).
  Notation decTjx := (decTj e wc excl ignore parseF unesc empty_marker).
  Notation mixx f := (mixDJ e wc excl ignore parseF (decTjx f false) f).
  Notation tprim' := (tprim parseF unesc empty_marker).
  Notation tstring' := (tstring unesc empty_marker).
  Notation well_shaped_t := (well_shaped_t e parseF unesc empty_marker).

  Notation decode_spec_t := (decode_spec_t e wc ignore parseF unesc empty_marker).
  Notation mix0 f := (mixDJ e wc ps_empty ignore parseF (decTj e wc ps_empty ignore parseF unesc empty_marker f false) f).

  Lemma val_excl_irrelevant_t f VS r t d :
    val_step e parseF (mixx f) VS r t d = val_step e parseF (mix0 f) VS r t d.
  Proof. apply val_step_ext; [reflexivity|]. intros; reflexivity. Qed.

  (* the analogue of decJ_exactX for the tree-level ROR2 decoder: SAME first_excluded, SAME reported *)
  Theorem decTj_exactX : forall fuel top t d tr,
    well_shaped_t fuel t d ->
    t_scope tr <> [SKey []] -> (t_scope tr = [] -> keys_nonempty (entries_of d)) ->
    match first_excluded e exb fuel t d (t_scope tr) with
    | Some p => decTjx fuel top t d tr = Err (EExcluded (scope_string p))
    | None =>
        exists tr',
          decTjx fuel top t d tr = Ok (decode_spec_t fuel (raisesX e wc excl ignore fuel top t d tr) t d, tr') /\
          t_scope tr' = t_scope tr /\
          Permutation (t_missing tr') (t_missing tr ++ reported e wc excl ignore fuel t d (t_scope tr))
    end.
  Proof.
    induction fuel as [|f IH]; intros top t d tr Hws Hsc Hke; [contradiction|].
    rewrite decTj_unfold. unfold raisesX, reported, missing_specX.
    assert (Hchild : child_okX (mixx f) (well_shaped_t f) (decode_spec_t f false)
                       (missingG e bytes (fun p => if negb (exb p) then [scope_string p] else []) f) (first_excluded e exb f)).
    { intros t0 x tr0 Hw Hne Hne2. apply (IH false t0 x tr0 Hw Hne2). intros E; contradiction. }
    assert (Hcomp : forall t, match t with TRef _ | TArray _ | TMap _ => True | _ => False end ->
              ws_step e parseF (well_shaped_t f) t d ->
              match fe_step e exb (first_excluded e exb f) t d (t_scope tr) with
              | Some p => stepJ e wc excl ignore parseF (mixx f) top t d tr = Err (EExcluded (scope_string p))
              | None =>
                  exists tr',
                    stepJ e wc excl ignore parseF (mixx f) top t d tr
                    = Ok (val_step e parseF (mix0 f) (decode_spec_t f false)
                            (top && negb (is_nilb (t_missing tr ++
                               mg_step e bytes (fun p => if negb (exb p) then [scope_string p] else [])
                                 (missingG e bytes (fun p => if negb (exb p) then [scope_string p] else []) f) t d (t_scope tr)))) t d, tr') /\
                    t_scope tr' = t_scope tr /\
                    Permutation (t_missing tr')
                      (t_missing tr ++ mg_step e bytes (fun p => if negb (exb p) then [scope_string p] else [])
                                         (missingG e bytes (fun p => if negb (exb p) then [scope_string p] else []) f) t d (t_scope tr))
              end).
    { intros t0 _ Hws0.
      pose proof (stepJ_exactX e wc excl ignore parseF (mixx f) Hwf _ _ _ _ Hchild top t0 d tr Hws0 Hsc Hke) as H.
      destruct (fe_step e exb (first_excluded e exb f) t0 d (t_scope tr)) as [p|]; [exact H|].
      destruct H as [tr' [H1 [H2 H3]]]. exists tr'. rewrite H1, val_excl_irrelevant_t. auto. }
    destruct t as [p|syms|sz|n|t'|t']; cbn [Ror2Refines.well_shaped_t] in Hws; cbn [stepT Ror2Refines.decode_spec_t missingG first_excluded].
    - destruct Hws as [v Hv]. exists tr. rewrite Hv. cbn [bind mg_step]. rewrite app_nil_r. auto.
    - destruct Hws as [s Hs]. exists tr. rewrite Hs. cbn [bind mg_step]. rewrite app_nil_r. auto.
    - destruct Hws as [b [Hb Hl]]. exists tr. rewrite Hb. cbn [bind mg_step]. rewrite (proj2 (Nat.eqb_eq _ _) Hl), app_nil_r. auto.
    - exact (Hcomp (TRef n) I Hws).
    - exact (Hcomp (TArray t') I Hws).
    - exact (Hcomp (TMap t') I Hws).
  Qed.

  Theorem first_excluded_complete_t : forall t d sc p, carries e exb t d sc p ->
    forall fuel, well_shaped_t fuel t d -> first_excluded e exb fuel t d sc <> None.
  Proof.
    apply (first_excluded_complete_gen e exb parseF well_shaped_t).
    - intros t d H. exact H.
    - intros f t d H. destruct t; first [exact I|exact H].
  Qed.

  Theorem carries_iff_first_t fuel t d sc : well_shaped_t fuel t d ->
    ((exists p, carries e exb t d sc p) <-> first_excluded e exb fuel t d sc <> None).
  Proof.
    intros Hws. split.
    - intros [p H]. apply (first_excluded_complete_t t d sc p H fuel Hws).
    - intros H. destruct (first_excluded e exb fuel t d sc) as [p|] eqn:E; [|contradiction].
      exists p. apply first_excluded_sound with (fuel := fuel). exact E.
  Qed.
End Ror2TreeX.

Section Ror2X.
  Variable e : env.
  Variables (wc : bytes) (excl : pathspec) (ignore : nat).
  Variable parseF : nat -> bytes -> option N.
  Variable fl : flavour.
  Hypothesis Hwf : wf_schema e.

  Notation exb := (excluded_at wc excl ignore).
  Notation UN := (unescape (plus_of fl)).
  Notation EM := v2_empty_string.
  Notation LP := v2_list_prefix.

  Notation ror2_value := (ror2_value e wc ignore parseF fl).

  (* the cursor-level reader at any position: c = "not at position 0", rest = what follows the rendering *)
  Theorem decR_exactX : forall qr fuel t d c tr rest,
    toks_ok d -> tok_ctx c rest -> rsize d <= fuel -> ror2_well_shaped e parseF fl fuel t d ->
    t_scope tr <> [SKey []] -> (t_scope tr = [] -> keys_nonempty (entries_of (j_of_r d))) ->
    match first_excluded e exb fuel t (j_of_r d) (t_scope tr) with
    | Some p => decR e wc excl ignore parseF UN EM LP qr fuel t (cur c (render_r fl d ++ rest) tr) = Err (EExcluded (scope_string p))
    | None =>
        exists tr',
          decR e wc excl ignore parseF UN EM LP qr fuel t (cur c (render_r fl d ++ rest) tr)
          = Ok (ror2_value fuel (raisesX e wc excl ignore fuel (negb c && negb qr) t (j_of_r d) tr) t d, cur true rest tr') /\
          t_scope tr' = t_scope tr /\
          Permutation (t_missing tr') (t_missing tr ++ reported e wc excl ignore fuel t (j_of_r d) (t_scope tr))
    end.
  Proof.
    intros qr fuel t d c tr rest Hok Hctx Hsz Hws Hsc Hke.
    rewrite (decR_refines e wc excl ignore parseF fl qr fuel t d c tr rest Hok Hctx Hsz). unfold decT.
    pose proof (decTj_exactX e wc excl ignore parseF UN EM Hwf fuel (negb c && negb qr) t (j_of_r d) tr Hws Hsc Hke) as H.
    destruct (first_excluded e exb fuel t (j_of_r d) (t_scope tr)) as [p|]; [rewrite H; reflexivity|].
    destruct H as [tr' [H1 [H2 H3]]]. exists tr'. rewrite H1. auto.
  Qed.

  (* D1 for the ROR2 reader *)
  Theorem decR_rejects_iff : forall qr fuel t d c tr rest,
    toks_ok d -> tok_ctx c rest -> rsize d <= fuel -> ror2_well_shaped e parseF fl fuel t d ->
    t_scope tr <> [SKey []] -> (t_scope tr = [] -> keys_nonempty (entries_of (j_of_r d))) ->
    ((exists s, decR e wc excl ignore parseF UN EM LP qr fuel t (cur c (render_r fl d ++ rest) tr) = Err (EExcluded s)) <->
     exists p, carries e exb t (j_of_r d) (t_scope tr) p).
  Proof.
    intros qr fuel t d c tr rest Hok Hctx Hsz Hws Hsc Hke.
    pose proof (decR_exactX qr fuel t d c tr rest Hok Hctx Hsz Hws Hsc Hke) as H.
    rewrite (carries_iff_first_t e wc excl ignore parseF UN EM fuel t (j_of_r d) (t_scope tr) Hws).
    destruct (first_excluded e exb fuel t (j_of_r d) (t_scope tr)) as [p|].
    - split; [intros _; discriminate|intros _; eexists; exact H].
    - destruct H as [tr' [H1 _]]. split; [intros [s Hs]; congruence|intros Hc; contradiction Hc; reflexivity].
  Qed.

  (* NewRor2Reader / a query parameter's reader + UnmarshalRestLi: any type, either reader *)
  Theorem ror2_decode_exactX : forall qr fuel qp t d,
    toks_ok d -> rsize d <= fuel -> ror2_well_shaped e parseF fl fuel t d -> scope_ok qp d ->
    decode_ror2 e wc excl ignore parseF UN EM LP qr fuel qp t (render_r fl d) =
    match first_excluded e exb fuel t (j_of_r d) (sc_of qp) with
    | Some p => DErr (EExcluded (scope_string p))
    | None =>
        let ms := reported e wc excl ignore fuel t (j_of_r d) (sc_of qp) in
        let v := ror2_value fuel (negb qr && negb (is_nilb ms)) t d in
        match ms with
        | [] => DOk v
        | _ => if top_raises e qp t then DMissing (sort_bytes ms) v else DOk v
        end
    end.
  Proof.
    intros qr fuel qp t d Hok Hsz Hws Hsc.
    rewrite (decode_ror2_refines e wc excl ignore parseF fl qr fuel qp t d Hok Hsz). unfold decT.
    fold (tr_of qp). fold (top_raises e qp t).
    pose proof (decTj_exactX e wc excl ignore parseF UN EM Hwf fuel (negb qr) t (j_of_r d) (tr_of qp) Hws
                  (scope_ok_1 qp d Hsc) (scope_ok_2 qp d Hsc)) as H.
    rewrite tr_of_sc in H.
    destruct (first_excluded e exb fuel t (j_of_r d) (sc_of qp)) as [p|]; [rewrite H; reflexivity|].
    destruct H as [tr' [H1 [H2 H3]]].
    rewrite H1. unfold raisesX. rewrite tr_of_sc in *.
    assert (Em : t_missing (tr_of qp) = []) by (destruct qp; reflexivity). rewrite Em in *. cbn [app] in *.
    unfold Ror2Refines.ror2_value. cbv zeta. unfold finish.
    destruct (reported e wc excl ignore fuel t (j_of_r d) (sc_of qp)) as [|m ms] eqn:Ems.
    - apply Permutation_sym, Permutation_nil in H3. rewrite H3. reflexivity.
    - destruct (t_missing tr') as [|m' ms'] eqn:Et; [apply Permutation_nil in H3; discriminate|].
      rewrite (sort_bytes_perm_invariant _ _ H3). reflexivity.
  Qed.

  (* a record at the start of the input *)
  Theorem ror2_missing_exactX : forall fuel t d,
    is_record e t = true -> toks_ok d -> rsize d <= fuel -> ror2_well_shaped e parseF fl fuel t d -> scope_ok None d ->
    decode_ror2 e wc excl ignore parseF UN EM LP false fuel None t (render_r fl d) =
    match first_excluded e exb fuel t (j_of_r d) [] with
    | Some p => DErr (EExcluded (scope_string p))
    | None =>
        match reported e wc excl ignore fuel t (j_of_r d) [] with
        | [] => DOk (ror2_value fuel false t d)
        | ms => DMissing (sort_bytes ms) (ror2_value fuel true t d)
        end
    end.
  Proof.
    intros fuel t d Hrec Hok Hsz Hws Hsc. rewrite (ror2_decode_exactX false fuel None t d Hok Hsz Hws Hsc).
    cbn [sc_of]. destruct (first_excluded e exb fuel t (j_of_r d) []); [reflexivity|]. cbv zeta. unfold top_raises. rewrite Hrec.
    destruct (reported e wc excl ignore fuel t (j_of_r d) []); reflexivity.
  Qed.

  Theorem ror2_rejects_iff : forall qr fuel qp t d,
    toks_ok d -> rsize d <= fuel -> ror2_well_shaped e parseF fl fuel t d -> scope_ok qp d ->
    ((exists s, decode_ror2 e wc excl ignore parseF UN EM LP qr fuel qp t (render_r fl d) = DErr (EExcluded s)) <->
     exists p, carries e exb t (j_of_r d) (sc_of qp) p).
  Proof.
    intros qr fuel qp t d Hok Hsz Hws Hsc. rewrite (ror2_decode_exactX qr fuel qp t d Hok Hsz Hws Hsc).
    rewrite (carries_iff_first_t e wc excl ignore parseF UN EM fuel t (j_of_r d) (sc_of qp) Hws).
    destruct (first_excluded e exb fuel t (j_of_r d) (sc_of qp)) as [p|].
    - split; [intros _; discriminate|intros _; eexists; reflexivity].
    - split; [|intros Hc; contradiction Hc; reflexivity]. cbv zeta.
      intros [s Hs]. destruct (reported e wc excl ignore fuel t (j_of_r d) (sc_of qp)); [discriminate|].
      destruct (top_raises e qp t); discriminate.
  Qed.
End Ror2X.

(* ---- the untyped reader (NewInterfaceReader over a decoded value) ---- *)
Section AnyX.
  Variable e : env.
  Variables (wc : bytes) (excl : pathspec) (ignore : nat).
  Variable parseF : nat -> bytes -> option N.
  Variable unspec : Z -> N -> Z.
  Hypothesis Hwf : wf_schema e.
  Hypothesis Hint : parseF_int_exact parseF.
  Hypothesis Hf32 : parseF_f32_via_f64 parseF.
  Notation exb := (excluded_at wc excl ignore).

  Theorem any_decA_exactX : forall fuel top t d tr,
    well_shaped e parseF fuel t d -> untyped_exact e fuel t d ->
    t_scope tr <> [SKey []] -> (t_scope tr = [] -> keys_nonempty (entries_of d)) ->
    match first_excluded e exb fuel t d (t_scope tr) with
    | Some p => AnyReader.decA e wc excl ignore parseF unspec fuel top t (AnyReader.of_jdoc parseF d) tr = Err (EExcluded (scope_string p))
    | None =>
        exists tr',
          AnyReader.decA e wc excl ignore parseF unspec fuel top t (AnyReader.of_jdoc parseF d) tr
          = Ok (decode_spec e wc ignore parseF fuel (raisesX e wc excl ignore fuel top t d tr) t d, tr') /\
          t_scope tr' = t_scope tr /\
          Permutation (t_missing tr') (t_missing tr ++ reported e wc excl ignore fuel t d (t_scope tr))
    end.
  Proof.
    intros fuel top t d tr Hws Hue Hsc Hke.
    rewrite (readers_agree e parseF Hint Hf32 wc excl ignore unspec fuel top t d tr Hue).
    exact (decJ_exactX e wc excl ignore parseF Hwf fuel top t d tr Hws Hsc Hke).
  Qed.

  Theorem any_missing_exactX : forall fuel t jd,
    is_record e t = true -> keys_nonempty (entries_of jd) -> well_shaped e parseF fuel t jd -> untyped_exact e fuel t jd ->
    AnyReader.decode_any e wc excl ignore parseF unspec fuel t (AnyReader.of_jdoc parseF jd) =
    match first_excluded e exb fuel t jd [] with
    | Some p => DErr (EExcluded (scope_string p))
    | None =>
        match reported e wc excl ignore fuel t jd [] with
        | [] => DOk (decode_spec e wc ignore parseF fuel false t jd)
        | ms => DMissing (sort_bytes ms) (decode_spec e wc ignore parseF fuel true t jd)
        end
    end.
  Proof.
    intros fuel t jd Hrec Hke Hws Hue. unfold AnyReader.decode_any. rewrite Hrec.
    pose proof (any_decA_exactX fuel true t jd tracker0 Hws Hue) as H. simpl t_scope in H.
    specialize (H ltac:(discriminate) (fun _ => Hke)).
    destruct (first_excluded e exb fuel t jd []) as [p|]; [rewrite H; reflexivity|].
    destruct H as [tr' [H1 [H2 H3]]].
    rewrite H1. unfold raisesX. simpl t_missing in *. simpl t_scope in *. simpl app in *. unfold finish.
    destruct (reported e wc excl ignore fuel t jd []) as [|m ms] eqn:Em.
    - apply Permutation_sym, Permutation_nil in H3. rewrite H3. reflexivity.
    - destruct (t_missing tr') as [|m' ms'] eqn:Et; [apply Permutation_nil in H3; discriminate|].
      rewrite (sort_bytes_perm_invariant _ _ H3). reflexivity.
  Qed.

  Theorem any_rejects_iff : forall fuel top t d tr,
    well_shaped e parseF fuel t d -> untyped_exact e fuel t d ->
    t_scope tr <> [SKey []] -> (t_scope tr = [] -> keys_nonempty (entries_of d)) ->
    ((exists s, AnyReader.decA e wc excl ignore parseF unspec fuel top t (AnyReader.of_jdoc parseF d) tr = Err (EExcluded s)) <->
     exists p, carries e exb t d (t_scope tr) p).
  Proof.
    intros fuel top t d tr Hws Hue Hsc Hke.
    rewrite (readers_agree e parseF Hint Hf32 wc excl ignore unspec fuel top t d tr Hue).
    exact (decJ_rejects_iff e wc excl ignore parseF Hwf fuel top t d tr Hws Hsc Hke).
  Qed.
End AnyX.

(* ---------------------------------------------------------------------------------------------------------------------------
   9. what is excluded below an excluded position; the statements that are false, with witnesses (replayed on the implementation)
   --------------------------------------------------------------------------------------------------------------------------- *)
Lemma skipn_app_le {A} n (l m : list A) : n <= length l -> skipn n (l ++ m) = skipn n l ++ m.
Proof.
  revert l. induction n as [|n IH]; intros l H; [reflexivity|]. destruct l as [|a l]; simpl in *; [lia|]. apply IH. lia.
Qed.

(* everything below an excluded position is excluded *)
Theorem excluded_subtree wc excl ignore sc more : excluded_at wc excl ignore sc = true -> excluded_at wc excl ignore (sc ++ more) = true.
Proof.
  unfold excluded_at, member_path. intros H. apply andb_true_iff in H as [A B]. apply Nat.ltb_lt in A.
  apply andb_true_iff. split; [apply Nat.ltb_lt; rewrite app_length; lia|].
  rewrite skipn_app_le by lia. rewrite map_app. apply matches_subtree. exact B.
Qed.

(* ---- (a) a directive that ends AT an array item ("a/*"): the item itself is never checked (enterArrayScope consults
        nothing), only the object members below it ---- *)
Definition array_item_rejected_full : Prop :=
  forall e wc excl ignore parseF, wf_schema e ->
  forall fuel top t' items tr i x,
    well_shaped e parseF fuel (TArray t') (JArr items) -> t_scope tr <> [SKey []] ->
    nth_error items i = Some x -> excluded_at wc excl ignore (t_scope tr ++ [SIdx i]) = true ->
    exists s, decJ e wc excl ignore parseF fuel top (TArray t') (JArr items) tr = Err (EExcluded s).

(* the side condition: the item is an object (record, union or map) with at least one non-null member *)
Definition has_member (e : env) (t' : ty) (x : jdoc) : Prop :=
  exists k y, In (k, y) (entries_of x) /\ is_null y = false /\
    match t' with TMap _ => True | TRef n => lookup e n <> None | _ => False end.

Theorem array_item_rejected_partial : forall e wc excl ignore parseF, wf_schema e ->
  forall fuel top t' items tr i x,
    well_shaped e parseF fuel (TArray t') (JArr items) -> t_scope tr <> [SKey []] ->
    nth_error items i = Some x -> excluded_at wc excl ignore (t_scope tr ++ [SIdx i]) = true ->
    has_member e t' x ->
    exists s, decJ e wc excl ignore parseF fuel top (TArray t') (JArr items) tr = Err (EExcluded s).
Proof.
  intros e wc excl ignore parseF Hwf fuel top t' items tr i x Hws Hsc Hi Hx [k [y [Hin [Hn Ht]]]].
  apply (decJ_rejects_iff e wc excl ignore parseF Hwf fuel top (TArray t') (JArr items) tr Hws Hsc); [intros _; constructor|].
  exists ((t_scope tr ++ [SIdx i]) ++ [SKey k]). apply (ce_arr _ _ t' items i x _ _ Hi).
  pose proof (excluded_subtree wc excl ignore _ [SKey k] Hx) as Hx'.
  destruct t' as [?|?|?|n|?|t'']; try contradiction.
  - destruct (lookup e n) as [[incs fs|nullable ms]|] eqn:El; [| |contradiction Ht; reflexivity].
    + apply (ce_rec_here _ _ n incs fs x k y _ El Hin Hn Hx').
    + apply (ce_uni_here _ _ n nullable ms x k y _ El Hin Hn Hx').
  - apply (ce_map_here _ _ t'' x k y _ Hin Hn Hx').
Qed.

From Coq.Strings Require Import String.
Local Open Scope string_scope.

Definition dx_ps (l : list string) : pathspec := new_pathspec (map c06_b l).
Definition dx_env_arr : env := [ DRecord [] [ c06_fld "a" (TArray (TPrim PInt)) Required ] ].

Lemma dx_env_arr_wf : wf_schema dx_env_arr.
Proof.
  intros n incs fs H. destruct n as [|n]; simpl in H; [|destruct n; discriminate]. split; [reflexivity|]. vm_compute. c06_nd.
Qed.

Lemma array_item_witness :
  excluded_at c06_star (dx_ps ["a/*"]) 0 [SKey (c06_b "a"); SIdx 0] = true /\
  decode_json dx_env_arr c06_star (dx_ps ["a/*"]) 0 c06_pf 8 (TRef 0) (c06_b "{""a"":[1,2]}") = DOk (VRec [] [Some (VArr [VInt 1; VInt 2])]) /\
  decJ dx_env_arr c06_star (dx_ps ["a/*"]) 0 c06_pf 8 false (TArray (TPrim PInt)) (JArr [JNum (c06_b "1")])
       {| t_scope := [SKey (c06_b "a")]; t_missing := [] |}
  = Ok (VArr [VInt 1], {| t_scope := [SKey (c06_b "a")]; t_missing := [] |}).
Proof. vm_compute. repeat split; reflexivity. Qed.

Theorem array_item_rejected_full_refuted : ~ array_item_rejected_full.
Proof.
  intros H.
  specialize (H dx_env_arr c06_star (dx_ps ["a/*"]) 0 c06_pf dx_env_arr_wf 8 false (TPrim PInt) [JNum (c06_b "1")]
                {| t_scope := [SKey (c06_b "a")]; t_missing := [] |} 0 (JNum (c06_b "1"))).
  destruct H as [s Hs].
  - simpl. constructor; [|constructor]. eexists. reflexivity.
  - discriminate.
  - reflexivity.
  - reflexivity.
  - rewrite (proj2 (proj2 array_item_witness)) in Hs. discriminate.
Qed.

(* ---- (b) "exclusion never changes the decoded value" ---- *)
Definition value_independent_of_excl_full : Prop :=
  forall e wc excl ignore parseF, wf_schema e ->
  forall fuel t data jd,
    is_record e t = true -> top_ok data jd -> well_shaped e parseF fuel t jd ->
    (forall p, ~ carries e (excluded_at wc excl ignore) t jd [] p) ->
    value_of (decode_json e wc excl ignore parseF fuel t data) = value_of (decode_json e wc ps_empty ignore parseF fuel t data).

(* genuine behaviour: when the only missing required field is excluded the record no longer raises, and a record that does not
   raise fills its own defaults - the value returned WITH the error (C06) lacks them *)
Lemma raising_flag_witness :
  decode_json c06_env c06_star (dx_ps ["a"]) 0 c06_pf 8 (TRef 0) (c06_b "{}") = DOk (VRec [] [Some (VInt 0); None; Some (VInt 7)]) /\
  decode_json c06_env c06_star ps_empty 0 c06_pf 8 (TRef 0) (c06_b "{}") = DMissing [c06_b "a"] (VRec [] [Some (VInt 0); None; None]).
Proof. vm_compute. split; reflexivity. Qed.

Theorem value_independent_of_excl_full_refuted : ~ value_independent_of_excl_full.
Proof.
  intros H.
  specialize (H c06_env c06_star (dx_ps ["a"]) 0 c06_pf c06_wf 8 (TRef 0) (c06_b "{}") (JObj [])).
  assert (Ht : top_ok (c06_b "{}") (JObj [])) by (split; [discriminate|]; split; [reflexivity|]; split; [reflexivity|constructor]).
  assert (Hw : well_shaped c06_env c06_pf 8 (TRef 0) (JObj [])) by c06_ws.
  specialize (H eq_refl Ht Hw).
  rewrite (proj1 raising_flag_witness), (proj2 raising_flag_witness) in H. simpl in H.
  assert (Hn : forall p, ~ carries c06_env (excluded_at c06_star (dx_ps ["a"]) 0) (TRef 0) (JObj []) [] p).
  { intros p Hc. inversion Hc; subst; simpl in *; contradiction. }
  specialize (H Hn). discriminate.
Qed.

(* (a record-typed default literal is NOT affected by the spec: the generated code reads it with NewJsonReader, and so does the
   model - T { r : R = {"x":1} }, R { x : int? }, spec {x}) *)
Definition dx_env_lit : env :=
  [ DRecord [] [ c06_fld "x" (TPrim PInt) Optional ];
    DRecord [] [ c06_fld "r" (TRef 0) (Default (c06_b "{""x"":1}")) ] ].

Lemma default_literal_unaffected_witness :
  decode_json dx_env_lit c06_star (dx_ps ["x"]) 0 c06_pf 8 (TRef 1) (c06_b "{}") = DOk (VRec [] [Some (VRec [] [Some (VInt 1)])]) /\
  decode_json dx_env_lit c06_star ps_empty 0 c06_pf 8 (TRef 1) (c06_b "{}") = DOk (VRec [] [Some (VRec [] [Some (VInt 1)])]) /\
  decode_json dx_env_lit c06_star (dx_ps ["r/x"]) 0 c06_pf 8 (TRef 1) (c06_b "{}") = DOk (VRec [] [Some (VRec [] [Some (VInt 1)])]) /\
  decode_json dx_env_lit c06_star (dx_ps ["r/x"]) 0 c06_pf 8 (TRef 1) (c06_b "{""r"":{""x"":2}}") = DErr (EExcluded (c06_b "r.x")).
Proof. vm_compute. repeat split; reflexivity. Qed.

(* ---- (c) order independence of the ERROR: which excluded member is named depends on the order of the members ---- *)
Definition order_independent_error_full : Prop :=
  forall e wc excl ignore parseF, wf_schema e ->
  forall fuel top t d1 d2 tr,
    well_shaped e parseF fuel t d1 -> jperm d1 d2 ->
    t_scope tr <> [SKey []] -> (t_scope tr = [] -> keys_nonempty (entries_of d1)) ->
    decJ e wc excl ignore parseF fuel top t d1 tr = decJ e wc excl ignore parseF fuel top t d2 tr.

Definition dx_d1 : jdoc := JObj [(c06_b "b", JStr (c06_b "s")); (c06_b "zz", JNum (c06_b "1")); (c06_b "a", JNum (c06_b "1"))].
Definition dx_d2 : jdoc := JObj [(c06_b "zz", JNum (c06_b "1")); (c06_b "b", JStr (c06_b "s")); (c06_b "a", JNum (c06_b "1"))].

Lemma order_error_witness :
  decJ c06_env c06_star (dx_ps ["b"; "zz"]) 0 c06_pf 8 true (TRef 0) dx_d1 tracker0 = Err (EExcluded (c06_b "b")) /\
  decJ c06_env c06_star (dx_ps ["b"; "zz"]) 0 c06_pf 8 true (TRef 0) dx_d2 tracker0 = Err (EExcluded (c06_b "zz")).
Proof. vm_compute. split; reflexivity. Qed.

Theorem order_independent_error_full_refuted : ~ order_independent_error_full.
Proof.
  intros H.
  specialize (H c06_env c06_star (dx_ps ["b"; "zz"]) 0 c06_pf c06_wf 8 true (TRef 0) dx_d1 dx_d2 tracker0).
  assert (Hw : well_shaped c06_env c06_pf 8 (TRef 0) dx_d1) by (unfold dx_d1; c06_ws).
  assert (Hj : jperm dx_d1 dx_d2).
  { unfold dx_d1, dx_d2. eapply jp_obj.
    - repeat (constructor; [split; [reflexivity|apply jp_refl]|]). constructor.
    - apply perm_swap. }
  specialize (H Hw Hj). rewrite (proj1 order_error_witness), (proj2 order_error_witness) in H.
  assert (E : Err (A := value * tracker) (EExcluded (c06_b "b")) = Err (EExcluded (c06_b "zz"))).
  { apply H; [discriminate|]. intros _. unfold dx_d1. simpl. repeat (constructor; [discriminate|]). constructor. }
  discriminate.
Qed.

(* ---- (d) unknown-field tolerance: an unknown member whose path is excluded IS rejected (genuine behaviour: enterMapScope runs
        before the generated code looks the key up) ---- *)
Definition unknown_fields_skippedX_full : Prop :=
  forall e wc excl ignore parseF, wf_schema e ->
  forall n incs fs f top l1 l2 k x tr,
    lookup e n = Some (DRecord incs fs) -> field_of e n k = None -> ~ In k (map fst (l1 ++ l2)) ->
    well_shaped e parseF (S f) (TRef n) (JObj (l1 ++ l2)) ->
    t_scope tr <> [SKey []] -> (t_scope tr = [] -> keys_nonempty (l1 ++ l2) /\ k <> []) ->
    class_of (decJ e wc excl ignore parseF (S f) top (TRef n) (JObj (l1 ++ l2)) tr)
    = class_of (decJ e wc excl ignore parseF (S f) top (TRef n) (JObj (l1 ++ (k, x) :: l2)) tr).

Lemma unknown_excluded_witness :
  decode_json c06_env c06_star (dx_ps ["zz"]) 0 c06_pf 8 (TRef 0) (c06_b "{""a"":1}") = DOk (VRec [] [Some (VInt 1); None; Some (VInt 7)]) /\
  decode_json c06_env c06_star (dx_ps ["zz"]) 0 c06_pf 8 (TRef 0) (c06_b "{""a"":1,""zz"":[1]}") = DErr (EExcluded (c06_b "zz")).
Proof. vm_compute. split; reflexivity. Qed.

Theorem unknown_fields_skippedX_full_refuted : ~ unknown_fields_skippedX_full.
Proof.
  intros H.
  specialize (H c06_env c06_star (dx_ps ["zz"]) 0 c06_pf c06_wf 0 _ _ 7 true [(c06_b "a", JNum (c06_b "1"))] []
                (c06_b "zz") (JArr [JNum (c06_b "1")]) tracker0 eq_refl eq_refl).
  assert (Hw : well_shaped c06_env c06_pf 8 (TRef 0) (JObj ([(c06_b "a", JNum (c06_b "1"))] ++ []))) by c06_ws.
  assert (Hnew : ~ In (c06_b "zz") (map fst ([(c06_b "a", JNum (c06_b "1"))] ++ []))) by (simpl; intuition discriminate).
  specialize (H Hnew Hw ltac:(discriminate)).
  assert (Hk : t_scope tracker0 = [] -> keys_nonempty ([(c06_b "a", JNum (c06_b "1"))] ++ []) /\ c06_b "zz" <> []).
  { intros _. split; [repeat constructor; discriminate|discriminate]. }
  specialize (H Hk). vm_compute in H. discriminate.
Qed.

(* ---- (e) "$set" / "$delete" as ordinary keys are transparent to the matcher (genuine behaviour, pathspec.go:52-59): the member
        m.$set.a is rejected by the directive m/a although no directive covers the literal path m/$set/a ---- *)
Lemma patch_op_key_witness :
  decode_json c06_env c06_star (dx_ps ["m/a"]) 0 c06_pf 8 (TRef 1)
    (c06_b "{""m"":{""$set"":{""a"":2}},""l"":[],""x"":{""a"":1},""a"":1}") = DErr (EExcluded (c06_b "m.$set.a")) /\
  (exists v, decode_json c06_env c06_star (dx_ps ["m/a"]) 0 c06_pf 8 (TRef 1)
               (c06_b "{""m"":{""q"":{""a"":2}},""l"":[],""x"":{""a"":1},""a"":1}") = DOk v) /\
  ~ covers c06_star [c06_b "m"; c06_b "a"] [c06_b "m"; c06_b "$set"; c06_b "a"].
Proof.
  split; [vm_compute; reflexivity|]. split; [eexists; vm_compute; reflexivity|].
  intros H. inversion H as [|s x d q Hs Hc]; subst. inversion Hc as [|s' x' d' q' Hs' Hc']; subst.
  destruct Hs' as [E|E]; vm_compute in E; discriminate.
Qed.

(* ---- (f) a longer directive list is not a larger spec (PathSpecProofs.extended_directive_refuted, here on a document): adding
        the directive a/b to a makes the member a acceptable again.  [larger_spec_*] need the semantic premise; for directive lists
        [directive_subset_monotone] needs well_formed on the larger one ---- *)
Definition directive_monotone_full : Prop :=
  forall e wc ignore ds1 ds2 t d sc p, incl ds1 ds2 ->
    carries e (excluded_at wc (new_pathspec' ds1) ignore) t d sc p -> exists q, carries e (excluded_at wc (new_pathspec' ds2) ignore) t d sc q.

Lemma directive_extension_witness :
  decode_json c06_env c06_star (dx_ps ["a"]) 0 c06_pf 8 (TRef 0) (c06_b "{""a"":1}") = DErr (EExcluded (c06_b "a")) /\
  decode_json c06_env c06_star (dx_ps ["a"; "a/b"]) 0 c06_pf 8 (TRef 0) (c06_b "{""a"":1}") = DOk (VRec [] [Some (VInt 1); None; Some (VInt 7)]).
Proof. vm_compute. split; reflexivity. Qed.

Theorem directive_monotone_full_refuted : ~ directive_monotone_full.
Proof.
  intros H.
  specialize (H c06_env c06_star 0 [[c06_b "a"]] [[c06_b "a"]; [c06_b "a"; c06_b "b"]] (TRef 0)
                (JObj [(c06_b "a", JNum (c06_b "1"))]) [] [SKey (c06_b "a")]).
  destruct H as [q Hq].
  - intros d [<-|[]]. left. reflexivity.
  - refine (ce_rec_here c06_env _ 0 _ _ _ (c06_b "a") (JNum (c06_b "1")) [] _ _ _ _);
      [reflexivity|left; reflexivity|reflexivity|reflexivity].
  - assert (Hw : well_shaped c06_env c06_pf 8 (TRef 0) (JObj [(c06_b "a", JNum (c06_b "1"))])) by c06_ws.
    apply (first_excluded_complete c06_env _ c06_pf _ _ _ _ Hq 8 Hw). vm_compute. reflexivity.
Qed.

(* ---- (g) leadingScopeToIgnore: the first [ignore] segments of the scope are not matched, and nothing is checked inside them ---- *)
Lemma ignore_prefix_witness :
  let doc := c06_b "{""x"":{""a"":1},""l"":[],""a"":1}" in
  decode_json c06_env c06_star (dx_ps ["x"]) 0 c06_pf 8 (TRef 1) doc = DErr (EExcluded (c06_b "x")) /\
  (exists v, decode_json c06_env c06_star (dx_ps ["x"]) 1 c06_pf 8 (TRef 1) doc = DOk v) /\
  decode_json c06_env c06_star (dx_ps ["a"]) 1 c06_pf 8 (TRef 1) doc = DErr (EExcluded (c06_b "x.a")).
Proof. cbv zeta. split; [vm_compute; reflexivity|]. split; [eexists; vm_compute; reflexivity|vm_compute; reflexivity]. Qed.

(* ---- non-vacuity: Outer (includes Inner) { x : Inner; l : array[Inner]; m : map[Inner]?; u : U? } with the spec
        { l/*/a (wildcard = any array item), x }.  x is required, absent and excluded; l[0].a and l[1].a are required, absent and
        excluded through the wildcard; a (inherited) and m.k.a - later in the document than l - are required, absent and NOT
        excluded: exactly those two are reported.  With one item carrying a, the document is rejected at l[1].a. ---- *)
Definition dx_text : string := "{""l"":[{""c"":3},{}],""b"":""s"",""m"":{""k"":{}}}".
Definition dx_doc : jdoc := Eval vm_compute in c06_json dx_text.
Definition dx_text_bad : string := "{""l"":[{""c"":3},{""a"":1}],""m"":{""k"":{}}}".
Definition dx_spec : pathspec := dx_ps ["l/*/a"; "x"].

Lemma dx_doc_ws : well_shaped c06_env c06_pf 8 (TRef 1) dx_doc.
Proof. unfold dx_doc. c06_ws. Qed.

Lemma dx_doc_top : top_ok (c06_b dx_text) dx_doc.
Proof.
  split; [discriminate|]. split; [reflexivity|]. split; [reflexivity|]. unfold dx_doc. simpl.
  repeat (constructor; [discriminate|]). constructor.
Qed.

Lemma dx_nonvacuous :
  wf_schema c06_env /\ is_record c06_env (TRef 1) = true /\ top_ok (c06_b dx_text) dx_doc /\
  well_shaped c06_env c06_pf 8 (TRef 1) dx_doc /\
  (forall p, ~ carries c06_env (excluded_at c06_star dx_spec 0) (TRef 1) dx_doc [] p) /\
  missing_paths c06_env 8 (TRef 1) dx_doc []
  = [ [SKey (c06_b "a")]; [SKey (c06_b "x")]; [SKey (c06_b "l"); SIdx 0; SKey (c06_b "a")];
      [SKey (c06_b "l"); SIdx 1; SKey (c06_b "a")]; [SKey (c06_b "m"); SKey (c06_b "k"); SKey (c06_b "a")] ] /\
  map (excluded_at c06_star dx_spec 0) (missing_paths c06_env 8 (TRef 1) dx_doc []) = [false; true; true; true; false] /\
  (exists v, decode_json c06_env c06_star dx_spec 0 c06_pf 8 (TRef 1) (c06_b dx_text) = DMissing (map c06_b ["a"; "m.k.a"]) v /\
             decode_json c06_env c06_star ps_empty 0 c06_pf 8 (TRef 1) (c06_b dx_text)
             = DMissing (map c06_b ["a"; "l[0].a"; "l[1].a"; "m.k.a"; "x"]) v) /\
  decode_json c06_env c06_star dx_spec 0 c06_pf 8 (TRef 1) (c06_b dx_text_bad) = DErr (EExcluded (c06_b "l[1].a")).
Proof.
  split; [exact c06_wf|]. split; [reflexivity|]. split; [exact dx_doc_top|]. split; [exact dx_doc_ws|].
  split.
  { intros p Hc. apply (first_excluded_complete c06_env _ c06_pf _ _ _ _ Hc 8 dx_doc_ws). vm_compute. reflexivity. }
  split; [vm_compute; reflexivity|]. split; [vm_compute; reflexivity|].
  split; [eexists; split; vm_compute; reflexivity|]. vm_compute; reflexivity.
Qed.

(* the same on ROR2 input: (l:List((c:3),()),b:s,m:(k:())) - through NewRor2Reader and through the reader of query parameter p
   (scope [p], one leading segment ignored, the aggregate raises) *)
Definition dx_leaf (s : string) : rdoc := RLeaf (c06_b s).
Definition dx_rdoc : rdoc :=
  RObj [ (c06_b "l", RArr [RObj [(c06_b "c", dx_leaf "3")]; RObj []]); (c06_b "b", dx_leaf "s");
         (c06_b "m", RObj [(c06_b "k", RObj [])]) ].
Definition dx_rdoc_bad : rdoc :=
  RObj [ (c06_b "l", RArr [RObj [(c06_b "c", dx_leaf "3")]; RObj [(c06_b "a", dx_leaf "1")]]); (c06_b "m", RObj [(c06_b "k", RObj [])]) ].
Definition dx_rtext : string := "(l:List((c:3),()),b:s,m:(k:()))".

Lemma dx_rdoc_toks : toks_ok dx_rdoc /\ toks_ok dx_rdoc_bad.
Proof. split; cbn; unfold tokfree4; repeat split; try discriminate; intros d [<-|[<-|[<-|[<-|[]]]]]; reflexivity. Qed.

Lemma dx_ror2_nonvacuous : forall fl,
  toks_ok dx_rdoc /\ rsize dx_rdoc <= 20 /\ ror2_well_shaped c06_env c06_pf fl 20 (TRef 1) dx_rdoc /\ scope_ok None dx_rdoc /\
  render_r fl dx_rdoc = c06_b dx_rtext /\
  first_excluded c06_env (excluded_at c06_star dx_spec 0) 20 (TRef 1) (j_of_r dx_rdoc) [] = None /\
  (exists v, decode_ror2 c06_env c06_star dx_spec 0 c06_pf (unescape (plus_of fl)) v2_empty_string v2_list_prefix false 20 None
               (TRef 1) (render_r fl dx_rdoc) = DMissing (map c06_b ["a"; "m.k.a"]) v) /\
  (exists v, decode_ror2 c06_env c06_star ps_empty 0 c06_pf (unescape (plus_of fl)) v2_empty_string v2_list_prefix false 20 None
               (TRef 1) (render_r fl dx_rdoc) = DMissing (map c06_b ["a"; "l[0].a"; "l[1].a"; "m.k.a"; "x"]) v) /\
  decode_ror2 c06_env c06_star dx_spec 0 c06_pf (unescape (plus_of fl)) v2_empty_string v2_list_prefix false 20 None
    (TRef 1) (render_r fl dx_rdoc_bad) = DErr (EExcluded (c06_b "l[1].a")) /\
  (exists v, decode_ror2 c06_env c06_star dx_spec 1 c06_pf (unescape (plus_of fl)) v2_empty_string v2_list_prefix true 20
               (Some (c06_b "p")) (TRef 1) (render_r fl dx_rdoc) = DMissing (map c06_b ["p.a"; "p.m.k.a"]) v) /\
  decode_ror2 c06_env c06_star dx_spec 1 c06_pf (unescape (plus_of fl)) v2_empty_string v2_list_prefix true 20
    (Some (c06_b "p")) (TRef 1) (render_r fl dx_rdoc_bad) = DErr (EExcluded (c06_b "p.l[1].a")).
Proof.
  intros fl. split; [exact (proj1 dx_rdoc_toks)|]. split; [vm_compute; lia|].
  split; [unfold ror2_well_shaped; apply ws_checkb_sound; destruct fl; vm_compute; reflexivity|].
  split; [cbn; repeat (constructor; [discriminate|]); constructor|].
  split; [destruct fl; vm_compute; reflexivity|]. split; [vm_compute; reflexivity|].
  split; [eexists; destruct fl; vm_compute; reflexivity|]. split; [eexists; destruct fl; vm_compute; reflexivity|].
  split; [destruct fl; vm_compute; reflexivity|]. split; [eexists; destruct fl; vm_compute; reflexivity|].
  destruct fl; vm_compute; reflexivity.
Qed.
