(* SortProofs: the canonical ordering of object entries (Codec/Doc.v [sort_entries], the model of writer.go's
   sort.Slice by key).  A strictly key-sorted list is determined by its SET of entries, and [sort_entries] of a list
   with unique keys is strictly key-sorted: hence the output does not depend on the order the entries were supplied in
   (Go map iteration order). *)
From Coq Require Import List Bool Arith Lia Permutation Sorting.Sorted.
From Coq.Strings Require Import Byte.
From GR Require Import Base.Bytes Codec.Doc.
Import ListNotations.

Section Sort.
  Context {A : Type}.
  Notation entry := (bytes * A)%type.

  (* strict (ascending, bytewise) and non-strict key order on entries *)
  Definition key_lt (a b : entry) : Prop := bytes_ltb (fst a) (fst b) = true.
  Definition key_le (a b : entry) : Prop := bytes_ltb (fst b) (fst a) = false.

  Definition strictly_sorted (l : list entry) : Prop := StronglySorted key_lt l.

  Lemma bytes_ltb_connex a b : a <> b -> bytes_ltb a b = false -> bytes_ltb b a = true.
  Proof.
    intros Hne H. destruct (bytes_ltb b a) eqn:E; [reflexivity|].
    exfalso. apply Hne. apply bytes_ltb_total; assumption.
  Qed.

  Lemma key_lt_trans a b c : key_lt a b -> key_lt b c -> key_lt a c.
  Proof. unfold key_lt. apply bytes_ltb_trans. Qed.

  Lemma key_lt_le a b : key_lt a b -> key_le a b.
  Proof. unfold key_lt, key_le. apply bytes_ltb_asym. Qed.

  Lemma key_le_trans a b c : key_le a b -> key_le b c -> key_le a c.
  Proof.
    unfold key_le. intros H1 H2.
    destruct (bytes_ltb (fst c) (fst a)) eqn:E; [|reflexivity]. exfalso.
    (* c < a, not (b < a), not (c < b) *)
    destruct (bytes_eq_dec (fst b) (fst a)) as [Eq|Ne].
    - rewrite Eq in H2. congruence.
    - assert (Hab : bytes_ltb (fst a) (fst b) = true) by (apply bytes_ltb_connex; [congruence | assumption]).
      pose proof (bytes_ltb_trans _ _ _ E Hab) as T. congruence.
  Qed.

  (* ---- insert_entry / sort_entries are permutations ---- *)
  Lemma insert_entry_perm k (v : A) l : Permutation (insert_entry k v l) ((k, v) :: l).
  Proof.
    induction l as [|[k' v'] r IH]; simpl; [apply Permutation_refl|].
    destruct (bytes_ltb k k'); [apply Permutation_refl|].
    eapply Permutation_trans; [apply perm_skip, IH | apply perm_swap].
  Qed.

  Lemma sort_entries_perm (l : list entry) : Permutation (sort_entries l) l.
  Proof.
    induction l as [|[k v] r IH]; simpl; [constructor|].
    eapply Permutation_trans; [apply insert_entry_perm | apply perm_skip, IH].
  Qed.

  Lemma sort_entries_keys_perm (l : list entry) : Permutation (map fst (sort_entries l)) (map fst l).
  Proof. apply Permutation_map, sort_entries_perm. Qed.

  Lemma sort_entries_length (l : list entry) : length (sort_entries l) = length l.
  Proof. apply Permutation_length, sort_entries_perm. Qed.

  Lemma insert_entry_In k (v : A) l x : In x (insert_entry k v l) <-> x = (k, v) \/ In x l.
  Proof.
    split; intros H.
    - apply (Permutation_in _ (insert_entry_perm k v l)) in H. destruct H; [left; congruence | right; assumption].
    - apply (Permutation_in _ (Permutation_sym (insert_entry_perm k v l))).
      destruct H; [left; congruence | right; assumption].
  Qed.

  (* ---- sortedness, in general (non-strict: equal keys stay in a valid order) ---- *)
  Lemma insert_entry_sorted_le k (v : A) l :
    StronglySorted key_le l -> StronglySorted key_le (insert_entry k v l).
  Proof.
    induction l as [|[k' v'] r IH]; intros HS; simpl.
    - constructor; constructor.
    - inversion HS as [|? ? HSr HF]; subst.
      destruct (bytes_ltb k k') eqn:E.
      + constructor; [exact HS|]. constructor.
        * unfold key_le; simpl. apply bytes_ltb_asym. exact E.
        * rewrite Forall_forall in *. intros x Hx. specialize (HF x Hx).
          apply (key_le_trans _ (k', v')); [|exact HF]. unfold key_le; simpl. apply bytes_ltb_asym. exact E.
      + constructor; [apply IH; exact HSr|].
        rewrite Forall_forall in *. intros x Hx. apply insert_entry_In in Hx as [->|Hx].
        * unfold key_le; simpl. exact E.
        * apply HF; exact Hx.
  Qed.

  Lemma sort_entries_sorted_le (l : list entry) : StronglySorted key_le (sort_entries l).
  Proof.
    induction l as [|[k v] r IH]; simpl; [constructor|]. apply insert_entry_sorted_le, IH.
  Qed.

  (* ---- with unique keys: strictly ascending ---- *)
  Lemma insert_entry_sorted k (v : A) l :
    ~ In k (map fst l) -> strictly_sorted l -> strictly_sorted (insert_entry k v l).
  Proof.
    unfold strictly_sorted.
    induction l as [|[k' v'] r IH]; intros Hk HS; simpl.
    - constructor; constructor.
    - inversion HS as [|? ? HSr HF]; subst.
      destruct (bytes_ltb k k') eqn:E.
      + constructor; [exact HS|]. constructor; [exact E|].
        rewrite Forall_forall in *. intros x Hx. specialize (HF x Hx).
        apply (key_lt_trans _ (k', v')); [exact E | exact HF].
      + constructor.
        * apply IH; [|exact HSr]. intros Hin. apply Hk. simpl. right; exact Hin.
        * rewrite Forall_forall in *. intros x Hx. apply insert_entry_In in Hx as [->|Hx].
          -- unfold key_lt; simpl. apply bytes_ltb_connex; [|exact E].
             intros ->. apply Hk. simpl. left; reflexivity.
          -- apply HF; exact Hx.
  Qed.

  Lemma sort_entries_sorted (l : list entry) : NoDup (map fst l) -> strictly_sorted (sort_entries l).
  Proof.
    induction l as [|[k v] r IH]; simpl; intros HN; [constructor|].
    inversion HN as [|? ? Hk HNr]; subst.
    apply insert_entry_sorted; [|apply IH; exact HNr].
    intros Hin. apply Hk. apply (Permutation_in _ (sort_entries_keys_perm r)). exact Hin.
  Qed.

  (* a strictly sorted list has unique keys *)
  Lemma strictly_sorted_nodup (l : list entry) : strictly_sorted l -> NoDup (map fst l).
  Proof.
    unfold strictly_sorted. induction l as [|a r IH]; intros HS; simpl; [constructor|].
    inversion HS as [|? ? HSr HF]; subst. constructor; [|apply IH; exact HSr].
    intros Hin. apply in_map_iff in Hin as [x [Hx Hin]].
    rewrite Forall_forall in HF. specialize (HF x Hin). unfold key_lt in HF. rewrite Hx in HF.
    rewrite bytes_ltb_irrefl in HF. discriminate.
  Qed.

  (* ---- the key lemma: a strictly key-sorted list is determined by its set of entries ---- *)
  Lemma sorted_perm_unique (l1 l2 : list entry) :
    Permutation l1 l2 -> strictly_sorted l1 -> strictly_sorted l2 -> l1 = l2.
  Proof.
    unfold strictly_sorted. revert l2.
    induction l1 as [|a r1 IH]; intros l2 HP H1 H2.
    - apply Permutation_nil in HP. subst; reflexivity.
    - destruct l2 as [|b r2]; [apply Permutation_sym, Permutation_nil in HP; discriminate|].
      inversion H1 as [|? ? HS1 HF1]; subst. inversion H2 as [|? ? HS2 HF2]; subst.
      assert (Hab : a = b).
      { assert (Ha : In a (b :: r2)) by (apply (Permutation_in _ HP); left; reflexivity).
        assert (Hb : In b (a :: r1)) by (apply (Permutation_in _ (Permutation_sym HP)); left; reflexivity).
        destruct Ha as [Ha|Ha]; [congruence|]. destruct Hb as [Hb|Hb]; [congruence|]. exfalso.
        rewrite Forall_forall in HF1, HF2. specialize (HF1 b Hb). specialize (HF2 a Ha).
        unfold key_lt in *. apply bytes_ltb_asym in HF1. congruence. }
      subst b. f_equal. apply IH; [eapply Permutation_cons_inv; exact HP | exact HS1 | exact HS2].
  Qed.

  (* ---- the output is a function of the set of entries: independent of the order they were supplied in ---- *)
  Theorem sort_entries_perm_invariant (l1 l2 : list entry) :
    Permutation l1 l2 -> NoDup (map fst l1) -> sort_entries l1 = sort_entries l2.
  Proof.
    intros HP HN. apply sorted_perm_unique.
    - eapply Permutation_trans; [apply sort_entries_perm|].
      eapply Permutation_trans; [exact HP | apply Permutation_sym, sort_entries_perm].
    - apply sort_entries_sorted; exact HN.
    - apply sort_entries_sorted. eapply Permutation_NoDup; [apply Permutation_map; exact HP | exact HN].
  Qed.

  (* sorting an already strictly sorted list changes nothing (idempotence: nested re-sorting of included records) *)
  Lemma sort_entries_id (l : list entry) : strictly_sorted l -> sort_entries l = l.
  Proof.
    intros HS. apply sorted_perm_unique; [apply sort_entries_perm | | exact HS].
    apply sort_entries_sorted, strictly_sorted_nodup, HS.
  Qed.
End Sort.
