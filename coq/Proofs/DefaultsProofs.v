(* C13 - schema defaults in the JSON tree decoder decJ (Codec/Decode.v): populateLocalDefaultValues after readRecord.

   Built on the exact characterisation of Proofs/MissingProofs.v ([decJ_exact]: the decoded value of a well-shaped document is
   [decode_spec], computed field by field in schema order).  Here the OWN slots of a decoded record are read off that value:
     - a field present (non-null) in the document holds the decoded document value - the document wins,
     - an absent field declared [Default lit] holds the decoding of the literal, unless the record is the one that raises the
       missing-required-fields error at the start of the input (candidate D35: then nothing is filled),
     - defaults declared in an INCLUDED record are not filled by the including record (finding D28). *)
From Coq.Strings Require Import Byte String.
From Coq Require Import List Bool Arith ZArith NArith Lia Permutation.   (* after String: [length] is List.length *)
From GR Require Import Base.Bytes Base.Res Base.Dec Codec.Schema Codec.Doc Codec.Escape Codec.Utf8 Codec.Json Codec.Tracker
  Codec.Decode.
From GR Require Import Proofs.Ror2NoPanic Proofs.MissingProofs.
Import ListNotations.

(* ---------------------------------------------------------------------------------------------------------------------------
   lists
   --------------------------------------------------------------------------------------------------------------------------- *)
Lemma nth_error_map2_map {A B C} (f : A -> B -> C) (g : A -> B) : forall l j,
  nth_error (map2 f l (map g l)) j = option_map (fun a => f a (g a)) (nth_error l j).
Proof. induction l as [|a l IH]; intros [|j]; simpl; try reflexivity. apply IH. Qed.

Lemma find_unique key : forall (l : list field) fd,
  NoDup (map f_name l) -> In fd l -> f_name fd = key -> find (keyp key) l = Some fd.
Proof.
  induction l as [|a l IH]; intros fd Hnd Hin E; [contradiction|]. simpl. unfold keyp at 1.
  inversion Hnd as [|? ? Hn Hnd']; subst. destruct Hin as [->|Hin].
  - rewrite bytes_eqb_refl. reflexivity.
  - destruct (bytes_eqb (f_name fd) (f_name a)) eqn:Eb.
    + apply bytes_eqb_eq in Eb. exfalso. apply Hn. rewrite <- Eb. apply in_map. exact Hin.
    + apply IH; [exact Hnd'|exact Hin|reflexivity].
Qed.

Definition fill_slot (DJ : bool -> ty -> jdoc -> tracker -> res (value * tracker)) (fd : field) (ov : option value)
  : option value :=
  match ov, f_opt fd with
  | None, Default lit => lit_valueS DJ (f_ty fd) lit
  | _, _ => ov
  end.

Lemma nth_error_fill DJ : forall fs vs j, length vs = length fs ->
  nth_error (fill_defaultsS DJ fs vs) j =
  match nth_error fs j, nth_error vs j with
  | Some fd, Some ov => Some (fill_slot DJ fd ov)
  | _, _ => None
  end.
Proof.
  induction fs as [|fd fs IH]; intros [|ov vs] j Hl; simpl in Hl; try discriminate.
  - destruct j; reflexivity.
  - destruct j as [|j]; simpl; [reflexivity|]. apply IH. lia.
Qed.

Lemma fill_length DJ : forall fs vs, length (fill_defaultsS DJ fs vs) = length vs.
Proof. induction fs as [|fd fs IH]; intros [|ov vs]; simpl; try reflexivity. rewrite IH. reflexivity. Qed.

(* ---------------------------------------------------------------------------------------------------------------------------
   the own slots of a decoded record
   --------------------------------------------------------------------------------------------------------------------------- *)
Section Defaults.
  Variable e : env.
  Variables (wildcard : bytes) (ignore : nat).
  Variable parseF : nat -> bytes -> option N.
  Hypothesis Hwf : wf_schema e.

  Notation decJ := (decJ e wildcard ps_empty ignore parseF).
  Notation decode_spec := (decode_spec e wildcard ignore parseF).

  Notation DJm f := (djmix e wildcard ps_empty ignore parseF f).

  (* lit_value of Codec/Decode.v: the literal is re-parsed and decoded as a document of its own, as NewJsonReader does: without
     exclusions and with scopeToIgnore 0 (djmix .. true = decJ e wildcard ps_empty 0 parseF f true, see [lit_value_unfold]) *)
  Definition lit_value (f : nat) (t : ty) (lit : bytes) : option value :=
    match parse_json lit with
    | Some jd => match DJm f true t jd tracker0 with Ok (v, _) => Some v | _ => None end
    | None => None
    end.

  Lemma lit_value_eq f t lit : lit_valueS (DJm f) t lit = lit_value f t lit.
  Proof. reflexivity. Qed.

  Lemma lit_value_unfold f t lit :
    lit_value f t lit =
    match parse_json lit with
    | Some jd => match Decode.decJ e wildcard ps_empty 0 parseF f true t jd tracker0 with Ok (v, _) => Some v | _ => None end
    | None => None
    end.
  Proof. reflexivity. Qed.

  (* what an own slot holds after a decode at fuel (S f); [filled] = populateLocalDefaultValues ran *)
  Definition own_slot_spec (f : nat) (filled : bool) (es : list (bytes * jdoc)) (fd : field) : option value :=
    match present es (f_name fd) with
    | Some x => Some (decode_spec f false (f_ty fd) x)                      (* the document wins *)
    | None =>
        match f_opt fd with
        | Required => Some (zero_value e (S (length e)) (f_ty fd))          (* reported as missing; the Go zero value *)
        | Optional => None
        | Default lit => if filled then lit_value f (f_ty fd) lit else None
        end
    end.

  Section OneRecord.
    Variables (n : nat) (incs : list nat) (fs : list field).
    Hypothesis Hn : lookup e n = Some (DRecord incs fs).

    Lemma own_in_fields fd : In fd fs -> In fd (fields_of e n).
    Proof. intros H. unfold fields_of. cbn [all_fields]. rewrite Hn. apply in_or_app. right. exact H. Qed.

    Lemma own_slots f (raising : bool) d :
      exists ivs fvs,
        decode_spec (S f) raising (TRef n) d = VRec ivs fvs /\ length fvs = length fs /\
        forall j fd, nth_error fs j = Some fd ->
          nth_error fvs j = Some (own_slot_spec f (negb raising) (entries_of d) fd).
    Proof.
      destruct (Hwf n incs fs Hn) as [_ HndF].
      cbn [MissingProofs.decode_spec val_step]. rewrite Hn. cbn [rec_upd zero_value]. rewrite Hn.
      set (look := look_of e (decode_spec f false) n (entries_of d)).
      set (zs := fun fd : field => if is_required (f_opt fd) then Some (zero_value e (S (length e)) (f_ty fd)) else None).
      set (ivs := map2 _ incs _).
      assert (Hslot : forall j fd, nth_error fs j = Some fd ->
                nth_error (map2 (slot_upd look) fs (map zs fs)) j =
                Some (match present (entries_of d) (f_name fd) with
                      | Some x => Some (decode_spec f false (f_ty fd) x)
                      | None => zs fd
                      end)).
      { intros j fd Hj. rewrite nth_error_map2_map, Hj. simpl. f_equal. unfold slot_upd, look, look_of.
        destruct (present (entries_of d) (f_name fd)) as [x|]; [|reflexivity].
        rewrite field_of_eq. rewrite (find_unique (f_name fd) (fields_of e n) fd HndF); [reflexivity| |reflexivity].
        apply own_in_fields. apply nth_error_In in Hj. exact Hj. }
      assert (Hlen : length (map2 (slot_upd look) fs (map zs fs)) = length fs).
      { rewrite map2_length; rewrite map_length; reflexivity. }
      destruct (raising || negb (own_has_default fs)) eqn:Eb.
      - exists ivs, (map2 (slot_upd look) fs (map zs fs)). split; [reflexivity|]. split; [exact Hlen|].
        intros j fd Hj. rewrite (Hslot j fd Hj). f_equal. unfold own_slot_spec.
        destruct (present (entries_of d) (f_name fd)); [reflexivity|]. unfold zs.
        destruct (f_opt fd) as [| |lit] eqn:Eo; simpl; try reflexivity.
        destruct raising; simpl; [reflexivity|]. simpl in Eb. apply negb_true_iff in Eb. exfalso.
        unfold own_has_default in Eb. apply nth_error_In in Hj.
        assert (Hex : existsb (fun fd => has_default (f_opt fd)) fs = true)
          by (apply existsb_exists; exists fd; split; [exact Hj|rewrite Eo; reflexivity]).
        congruence.
      - apply orb_false_iff in Eb as [-> _]. simpl negb.
        exists ivs, (fill_defaultsS (DJm f) fs (map2 (slot_upd look) fs (map zs fs))).
        split; [reflexivity|]. split; [rewrite fill_length; exact Hlen|].
        intros j fd Hj. rewrite (nth_error_fill (DJm f) fs _ j Hlen), Hj, (Hslot j fd Hj). f_equal.
        unfold fill_slot, own_slot_spec. destruct (present (entries_of d) (f_name fd)); [reflexivity|]. unfold zs.
        destruct (f_opt fd) as [| |lit]; simpl; reflexivity.
    Qed.

    (* decode_fills_own_defaults: the record decoded without raising *)
    Theorem decode_fills_own_defaults : forall f top d tr v tr',
      well_shaped e parseF (S f) (TRef n) d ->
      t_scope tr <> [SKey []] -> (t_scope tr = [] -> keys_nonempty (entries_of d)) ->
      decJ (S f) top (TRef n) d tr = Ok (v, tr') ->
      top = false \/ t_missing tr' = [] ->
      exists ivs fvs, v = VRec ivs fvs /\ length fvs = length fs /\
        forall j fd, nth_error fs j = Some fd ->
          nth_error fvs j = Some (own_slot_spec f true (entries_of d) fd).
    Proof.
      intros f top d tr v tr' Hws Hsc Hke Hd Hnr.
      destruct (decJ_exact e wildcard ignore parseF Hwf (S f) top (TRef n) d tr Hws Hsc Hke) as [tr2 [H1 [H2 H3]]].
      rewrite H1 in Hd. injection Hd as <- <-.
      assert (Er : raises e (S f) top (TRef n) d tr = false).
      { unfold raises. destruct Hnr as [->|Hm]; [reflexivity|]. rewrite Hm in H3.
        apply Permutation_nil in H3. rewrite H3. apply andb_false_r. }
      rewrite Er. exact (own_slots f false d).
    Qed.

    (* top_level_missing_skips_defaults (candidate D35): the record at the start of the input that raises keeps nil in every
       absent defaulted field *)
    Theorem top_level_missing_skips_defaults : forall f d tr v tr',
      well_shaped e parseF (S f) (TRef n) d ->
      t_scope tr <> [SKey []] -> (t_scope tr = [] -> keys_nonempty (entries_of d)) ->
      decJ (S f) true (TRef n) d tr = Ok (v, tr') ->
      t_missing tr' <> [] ->
      exists ivs fvs, v = VRec ivs fvs /\ length fvs = length fs /\
        forall j fd, nth_error fs j = Some fd ->
          nth_error fvs j = Some (own_slot_spec f false (entries_of d) fd).
    Proof.
      intros f d tr v tr' Hws Hsc Hke Hd Hm.
      destruct (decJ_exact e wildcard ignore parseF Hwf (S f) true (TRef n) d tr Hws Hsc Hke) as [tr2 [H1 [H2 H3]]].
      rewrite H1 in Hd.
      assert (Ev : decode_spec (S f) (raises e (S f) true (TRef n) d tr) (TRef n) d = v) by congruence.
      assert (Et : tr2 = tr') by congruence. subst tr2. clear Hd H1.
      assert (Er : raises e (S f) true (TRef n) d tr = true).
      { unfold raises. cbn [andb]. rewrite <- (is_nilb_perm _ _ H3). destruct (t_missing tr'); [contradiction|reflexivity]. }
      rewrite <- Ev, Er. exact (own_slots f true d).
    Qed.
  End OneRecord.

  (* "the document wins", spelled out: the value in the slot of a present field is what decJ returns on that sub-document *)
  Corollary present_value_is_decoded : forall f t x trx,
    well_shaped e parseF f t x -> t_scope trx <> [] -> t_scope trx <> [SKey []] ->
    exists trx', decJ f false t x trx = Ok (decode_spec f false t x, trx').
  Proof.
    intros f t x trx Hws H1 H2.
    destruct (decJ_exact e wildcard ignore parseF Hwf f false t x trx Hws H2) as [tr2 [G1 _]]; [intros E; contradiction|].
    exists tr2. exact G1.
  Qed.
End Defaults.

(* defaults are never reported as missing: [MissingProofs.optional_default_never_reported] - every reported path originates at a
   field whose optionality is [Required] *)
Definition defaults_not_missing := optional_default_never_reported.

(* ---------------------------------------------------------------------------------------------------------------------------
   the inherited defaults (finding D28) and the raising top-level record (candidate D35): witnesses
   --------------------------------------------------------------------------------------------------------------------------- *)
(* the slot of the (first) field named key in the flattened record value *)
Fixpoint first_some {A} (l : list (option A)) : option A :=
  match l with [] => None | Some a :: _ => Some a | None :: r => first_some r end.

Fixpoint get_slot (e : env) (k : nat) (n : nat) (key : bytes) (rv : value) : option (option value) :=
  match k with
  | 0 => None
  | S k' =>
      match lookup e n, rv with
      | Some (DRecord incs fs), VRec ivs fvs =>
          match first_some (map2 (fun i iv => get_slot e k' i key iv) incs ivs) with
          | Some s => Some s
          | None => match index_of key (map f_name fs) 0 with Some j => nth_error fvs j | None => None end
          end
      | _, _ => None
      end
  end.

(* the property as the schema language promises it: EVERY defaulted field of the flattened record - own or inherited through
   includes - that the document omits holds its literal after a decode that does not raise *)
Definition included_defaults_filled_full : Prop :=
  forall e wildcard ignore parseF, wf_schema e ->
  forall n incs fs f top d tr v tr' fd lit,
    lookup e n = Some (DRecord incs fs) ->
    well_shaped e parseF (S f) (TRef n) d ->
    t_scope tr <> [SKey []] -> (t_scope tr = [] -> keys_nonempty (entries_of d)) ->
    decJ e wildcard ps_empty ignore parseF (S f) top (TRef n) d tr = Ok (v, tr') ->
    top = false \/ t_missing tr' = [] ->
    In fd (fields_of e n) -> f_opt fd = Default lit -> present (entries_of d) (f_name fd) = None ->
    get_slot e (S (length e)) n (f_name fd) v = Some (lit_value e wildcard ignore parseF f (f_ty fd) lit).

(* what holds: the own fields *)
Theorem included_defaults_filled_partial :
  forall e wildcard ignore parseF, wf_schema e ->
  forall n incs fs f top d tr v tr' j fd lit,
    lookup e n = Some (DRecord incs fs) ->
    well_shaped e parseF (S f) (TRef n) d ->
    t_scope tr <> [SKey []] -> (t_scope tr = [] -> keys_nonempty (entries_of d)) ->
    decJ e wildcard ps_empty ignore parseF (S f) top (TRef n) d tr = Ok (v, tr') ->
    top = false \/ t_missing tr' = [] ->
    nth_error fs j = Some fd (* OWN field *) -> f_opt fd = Default lit -> present (entries_of d) (f_name fd) = None ->
    exists ivs fvs, v = VRec ivs fvs /\ nth_error fvs j = Some (lit_value e wildcard ignore parseF f (f_ty fd) lit).
Proof.
  intros e wildcard ignore parseF Hwf n incs fs f top d tr v tr' j fd lit Hn Hws Hsc Hke Hd Hnr Hj Ho Hp.
  destruct (decode_fills_own_defaults e wildcard ignore parseF Hwf n incs fs Hn f top d tr v tr' Hws Hsc Hke Hd Hnr)
    as [ivs [fvs [-> [_ H]]]].
  exists ivs, fvs. split; [reflexivity|]. rewrite (H j fd Hj). unfold own_slot_spec. rewrite Hp, Ho. reflexivity.
Qed.

Definition c13_b (s : string) : bytes := list_byte_of_string s.
Definition c13_fld (nm : string) (t : ty) (o : optionality) : field := {| f_name := c13_b nm; f_ty := t; f_opt := o |}.
(* 0: Base { id : int; c : int = 7 }     1: Outer includes Base { name : string?; k : int = 5 } *)
Definition c13_env : env :=
  [ DRecord [] [ c13_fld "id" (TPrim PInt) Required; c13_fld "c" (TPrim PInt) (Default (c13_b "7")) ];
    DRecord [0] [ c13_fld "name" (TPrim PString) Optional; c13_fld "k" (TPrim PInt) (Default (c13_b "5")) ] ].
Definition c13_pf : nat -> bytes -> option N := fun _ _ => None.
Definition c13_star : bytes := c13_b "*".

Ltac c13_nd := repeat (constructor; [simpl; intuition discriminate|]); try constructor.
Ltac c13_ws :=
  repeat first
    [ progress simpl
    | match goal with
      | |- exists _, _ => eexists
      | |- _ /\ _ => split
      | |- NoDup _ => simpl; c13_nd
      | |- Forall _ _ => constructor
      | |- _ = _ => reflexivity
      | |- True => exact I
      | |- _ -> _ => intro
      | |- ws_union _ _ _ _ => unfold ws_union; simpl
      | |- match present ?a ?b with _ => _ end =>
          let v := eval vm_compute in (present a b) in change (present a b) with v; cbv iota beta
      end ].

Lemma c13_wf : wf_schema c13_env.
Proof.
  intros n incs fs H. destruct n as [|[|n]]; simpl in H; try discriminate; [| |destruct n; discriminate];
    (split; [reflexivity|]); vm_compute; c13_nd.
Qed.

Definition c13_doc : jdoc := JObj [(c13_b "id", JNum (c13_b "1"))].     (* {"id":1} *)

Lemma c13_doc_ws : well_shaped c13_env c13_pf 4 (TRef 1) c13_doc.
Proof. unfold c13_doc. c13_ws. Qed.

(* {"id":1} decoded as Outer: the own default k is filled, the inherited default c is NOT (it is when decoded as Base) *)
Lemma included_defaults_witness :
  decJ c13_env c13_star ps_empty 0 c13_pf 4 true (TRef 1) c13_doc tracker0
  = Ok (VRec [VRec [] [Some (VInt 1); None]] [None; Some (VInt 5)], tracker0)
  /\ decJ c13_env c13_star ps_empty 0 c13_pf 4 true (TRef 0) c13_doc tracker0
     = Ok (VRec [] [Some (VInt 1); Some (VInt 7)], tracker0).
Proof. vm_compute. split; reflexivity. Qed.

Theorem included_defaults_not_filled_refuted : ~ included_defaults_filled_full.
Proof.
  intros H.
  specialize (H c13_env c13_star 0 c13_pf c13_wf 1 [0]
                [ c13_fld "name" (TPrim PString) Optional; c13_fld "k" (TPrim PInt) (Default (c13_b "5")) ]
                3 true c13_doc tracker0 _ _ (c13_fld "c" (TPrim PInt) (Default (c13_b "7"))) (c13_b "7")
                eq_refl c13_doc_ws ltac:(discriminate) ltac:(intros _; repeat constructor; discriminate)
                (proj1 included_defaults_witness) (or_intror eq_refl)).
  assert (Hin : In (c13_fld "c" (TPrim PInt) (Default (c13_b "7"))) (fields_of c13_env 1)) by (vm_compute; auto).
  specialize (H Hin eq_refl eq_refl). vm_compute in H. discriminate.
Qed.

(* candidate D35: {"c":null} style omission at the start of the input: id is missing, the record raises, and its own default c
   stays nil in the partially populated value handed to a lenient caller; nested (not at the start) it is filled *)
Lemma top_level_missing_skips_defaults_witness :
  decode_json c13_env c13_star ps_empty 0 c13_pf 4 (TRef 0) (c13_b "{}")
  = DMissing [c13_b "id"] (VRec [] [Some (VInt 0); None])
  /\ decode_json c13_env c13_star ps_empty 0 c13_pf 4 (TArray (TRef 0)) (c13_b "[{}]")
     = DOk (VArr [VRec [] [Some (VInt 0); Some (VInt 7)]]).
Proof. vm_compute. split; reflexivity. Qed.

Lemma c13_nonvacuous :
  wf_schema c13_env /\ well_shaped c13_env c13_pf 4 (TRef 1) c13_doc /\
  own_slot_spec c13_env c13_star 0 c13_pf 3 true (entries_of c13_doc) (c13_fld "k" (TPrim PInt) (Default (c13_b "5")))
  = Some (VInt 5) /\
  own_slot_spec c13_env c13_star 0 c13_pf 3 true [(c13_b "k", JNum (c13_b "9"))] (c13_fld "k" (TPrim PInt) (Default (c13_b "5")))
  = Some (VInt 9).
Proof. split; [exact c13_wf|]. split; [exact c13_doc_ws|]. vm_compute. split; reflexivity. Qed.
