(* ConformConverse (C03, converse direction): acceptance of conforming JSON trees by the tree decoder of the model, for ALL types
   - leaves, arrays, maps, RECORDS (unknown members of any shape, any member order, null for unset optional fields, nested and
   recursive records) and UNIONS - over schemas whose records have no included record and declare no default ("plain"
   environments; includes and defaults are what the decoder's fill step and the chained UnmarshalField add: they are covered by
   the differential check only, see Props/C03.v json_accepts_all_conforming_full). *)
From Coq Require Import List Bool Arith ZArith NArith Lia Permutation.
From Coq.Strings Require Import Byte.
From GR Require Import Base.Bytes Base.Res Base.Dec Codec.Schema Codec.Doc Codec.Escape Codec.Json Codec.Tracker Codec.Decode
  Proofs.SortProofs Proofs.CanonProofs Proofs.Ror2NoPanic Spec.RestliSpec Proofs.ConformProofs.
Import ListNotations.

(* ---- small list facts ---- *)
Lemma set_nth_same {A} (l : list A) j y : j < length l -> nth_error (set_nth j y l) j = Some y.
Proof. revert j; induction l as [|a r IH]; intros [|j] H; cbn in *; try lia; [reflexivity | apply IH; lia]. Qed.
Lemma set_nth_other {A} (l : list A) j i y : i <> j -> nth_error (set_nth j y l) i = nth_error l i.
Proof. revert j i; induction l as [|a r IH]; intros [|j] [|i] H; cbn; try reflexivity; try lia. apply IH. lia. Qed.
Lemma set_nth_len {A} (l : list A) j y : length (set_nth j y l) = length l.
Proof. revert j; induction l as [|a r IH]; intros [|j]; cbn; try reflexivity. rewrite IH. reflexivity. Qed.

Lemma index_of_sound k l : forall i j, index_of k l i = Some j -> exists d, j = i + d /\ nth_error l d = Some k.
Proof.
  induction l as [|x r IH]; intros i j H; [discriminate|]. cbn [index_of] in H. destruct (bytes_eqb k x) eqn:E.
  - inversion H; subst. apply bytes_eqb_eq in E. subst. exists 0. split; [lia | reflexivity].
  - destruct (IH (S i) j H) as [d [Hd Hn]]. exists (S d). split; [lia | exact Hn].
Qed.

Lemma nth_error_ext {A} (l1 l2 : list A) : length l1 = length l2 -> (forall j, j < length l1 -> nth_error l1 j = nth_error l2 j) -> l1 = l2.
Proof.
  revert l2; induction l1 as [|a r IH]; intros [|b r2] HL H; try discriminate; [reflexivity|].
  pose proof (H 0 ltac:(cbn; lia)) as H0. cbn in H0. inversion H0; subst. f_equal. apply IH; [cbn in HL; lia|].
  intros j Hj. apply (H (S j)). cbn. lia.
Qed.

Lemma jdoc_null_dec (x : jdoc) : {x = JNull} + {x <> JNull}.
Proof. destruct x; try (right; discriminate). left; reflexivity. Qed.

Lemma jmatch {A} (x : jdoc) (a b : A) : x <> JNull -> match x with JNull => a | _ => b end = b.
Proof. destruct x; intros H; try reflexivity. contradiction H; reflexivity. Qed.

Lemma tracker_eta_nil tr : {| t_scope := t_scope tr; t_missing := t_missing tr ++ [] |} = tr.
Proof. destruct tr. cbn. rewrite app_nil_r. reflexivity. Qed.

(* ---------------------------------------------------------------------------------------------------------------------- *)
(* the record loop, over an abstract recursive call                                                                        *)
(* ---------------------------------------------------------------------------------------------------------------------- *)
Section RecordLoop.
  Variable e : env.
  Variables (wc : bytes) (ig : nat).
  Variable DJ : bool -> ty -> jdoc -> tracker -> res (value * tracker).
  Variable cn : value -> value.
  Variable n : nat.
  Variable fs : list field.
  Hypothesis Hl : lookup e n = Some (DRecord [] fs).
  Variable target : list (option value).
  Notation names := (map f_name fs).

  Definition step_val (acc : list (option value)) (kx : bytes * jdoc) : list (option value) :=
    match snd kx with
    | JNull => acc
    | _ => match index_of (fst kx) names 0 with
           | Some j => match nth_error target j with Some (Some v) => set_nth j (Some (cn v)) acc | _ => acc end
           | None => acc
           end
    end.
  Definition step_rem (r : list bytes) (kx : bytes * jdoc) : list bytes :=
    match snd kx with JNull => r | _ => remove_bytes (fst kx) r end.

  Lemma umfJ_plain k key x ivs fvs tr :
    umfJ e DJ (S k) n key x (VRec ivs fvs) tr =
    match index_of key names 0 with
    | Some j => match nth_error fs j with
                | Some fd => do r <- DJ false (f_ty fd) x tr; let '(v, tr') := r in Ok (true, VRec ivs (set_nth j (Some v) fvs), tr')
                | None => Err EType
                end
    | None => Ok (false, VRec ivs fvs, tr)
    end.
  Proof. cbn [umfJ]. rewrite Hl. cbn [bind]. reflexivity. Qed.

  (* every non-null member named like a field carries a value that the recursive call decodes to the field's value *)
  Definition members_ok (l : list (bytes * jdoc)) : Prop :=
    forall k x, In (k, x) l -> x <> JNull -> forall j, index_of k names 0 = Some j ->
      exists fd v, nth_error fs j = Some fd /\ nth_error target j = Some (Some v) /\
                   forall tr, DJ false (f_ty fd) x tr = Ok (cn v, tr).

  Lemma goJrec_sim : forall l acc rem tr, members_ok l ->
    goJrec e wc ps_empty ig DJ n l (VRec [] acc) rem tr = Ok (VRec [] (fold_left step_val l acc), fold_left step_rem l rem, tr).
  Proof.
    induction l as [|[k x] r IH]; intros acc rem tr Hok; [reflexivity|].
    assert (Hok' : members_ok r) by (intros k0 x0 H0; apply Hok; right; exact H0).
    cbn [goJrec fold_left]. destruct (jdoc_null_dec x) as [->|Hx].
    - unfold step_val, step_rem. cbn [snd]. apply IH. exact Hok'.
    - rewrite jmatch by exact Hx. rewrite enter_map_empty. cbn [bind]. rewrite umfJ_plain.
      unfold step_val, step_rem. cbn [fst snd]. rewrite !jmatch by exact Hx.
      destruct (index_of k names 0) as [j|] eqn:Ei.
      + destruct (Hok k x (or_introl eq_refl) Hx j Ei) as [fd [v [Hfd [Hv HD]]]].
        rewrite Hfd, HD, Hv. cbn [bind]. rewrite pop_push. apply IH. exact Hok'.
      + cbn [bind]. rewrite pop_push. apply IH. exact Hok'.
  Qed.

  (* ---- what the folds compute ---- *)
  Lemma step_val_len acc kx : length (step_val acc kx) = length acc.
  Proof.
    unfold step_val. destruct (jdoc_null_dec (snd kx)) as [E|Hx]; [rewrite E; reflexivity|]. rewrite jmatch by exact Hx.
    destruct (index_of (fst kx) names 0) as [j|]; [|reflexivity].
    destruct (nth_error target j) as [[v|]|]; try reflexivity. apply set_nth_len.
  Qed.

  Lemma fold_val_len l : forall acc, length (fold_left step_val l acc) = length acc.
  Proof. induction l as [|kx r IH]; intros acc; [reflexivity|]. cbn [fold_left]. rewrite IH. apply step_val_len. Qed.

  (* a position no member writes keeps its value *)
  Lemma fold_val_untouched j l : forall acc,
    (forall k x, In (k, x) l -> x <> JNull -> index_of k names 0 <> Some j) ->
    nth_error (fold_left step_val l acc) j = nth_error acc j.
  Proof.
    induction l as [|[k x] r IH]; intros acc H; [reflexivity|]. cbn [fold_left].
    rewrite IH by (intros k0 x0 H0; apply H; right; exact H0).
    unfold step_val. cbn [fst snd]. destruct (jdoc_null_dec x) as [->|Hx]; [reflexivity|]. rewrite jmatch by exact Hx.
    destruct (index_of k names 0) as [j'|] eqn:Ei; [|reflexivity].
    destruct (nth_error target j') as [[v|]|]; try reflexivity.
    apply set_nth_other. intros E. subst j'. apply (H k x (or_introl eq_refl) Hx). exact Ei.
  Qed.

  (* a position holding the final value keeps it: every writer of position j writes the same value *)
  Lemma fold_val_stable j v l : forall acc,
    nth_error target j = Some (Some v) -> nth_error acc j = Some (Some (cn v)) ->
    nth_error (fold_left step_val l acc) j = Some (Some (cn v)).
  Proof.
    induction l as [|[k x] r IH]; intros acc Ht Ha; [exact Ha|]. cbn [fold_left]. apply IH; [exact Ht|].
    unfold step_val. cbn [fst snd]. destruct (jdoc_null_dec x) as [->|Hx]; [exact Ha|]. rewrite jmatch by exact Hx.
    destruct (index_of k names 0) as [j'|] eqn:Ei; [|exact Ha].
    destruct (Nat.eq_dec j' j) as [->|Hne].
    - rewrite Ht. rewrite set_nth_same; [reflexivity|]. apply nth_error_Some. rewrite Ha. discriminate.
    - destruct (nth_error target j') as [[v'|]|]; try exact Ha. rewrite set_nth_other by (intros E; apply Hne; symmetry; exact E). exact Ha.
  Qed.

  Lemma fold_val_written j v l : forall acc k x,
    In (k, x) l -> x <> JNull -> index_of k names 0 = Some j -> nth_error target j = Some (Some v) -> j < length acc ->
    nth_error (fold_left step_val l acc) j = Some (Some (cn v)).
  Proof.
    induction l as [|[k' x'] r IH]; intros acc k x Hin Hx Hi Ht Hj; [contradiction|]. cbn [fold_left].
    destruct Hin as [E|Hin].
    - inversion E; subst k' x'. apply fold_val_stable; [exact Ht|].
      unfold step_val. cbn [fst snd]. rewrite jmatch by exact Hx. rewrite Hi, Ht. apply set_nth_same. exact Hj.
    - apply (IH _ k x Hin Hx Hi Ht). rewrite step_val_len. exact Hj.
  Qed.

  Lemma fold_rem_in r0 l : forall rem, In r0 (fold_left step_rem l rem) -> In r0 rem /\ forall x, In (r0, x) l -> x = JNull.
  Proof.
    induction l as [|[k x] r IH]; intros rem H; [split; [exact H | intros x []]|]. cbn [fold_left] in H.
    destruct (IH _ H) as [H1 H2]. unfold step_rem in H1. cbn [fst snd] in H1.
    assert (Hrm : forall k0 l0, In r0 (remove_bytes k0 l0) -> In r0 l0 /\ r0 <> k0).
    { intros k0 l0. induction l0 as [|y l0 IHl]; cbn [remove_bytes]; [intros []|].
      destruct (bytes_eqb k0 y) eqn:E.
      - intros Hi. destruct (IHl Hi) as [A B]. split; [right; exact A | exact B].
      - intros [<-|Hi]; [split; [left; reflexivity|]; intros E'; subst; rewrite bytes_eqb_refl in E; discriminate|].
        destruct (IHl Hi) as [A B]. split; [right; exact A | exact B]. }
    destruct (jdoc_null_dec x) as [->|Hx].
    - split; [exact H1|]. intros x0 [E|H0]; [inversion E; reflexivity | apply H2; exact H0].
    - rewrite jmatch in H1 by exact Hx. destruct (Hrm _ _ H1) as [A B]. split; [exact A|].
      intros x0 [E|H0]; [inversion E; subst; contradiction B; reflexivity | apply H2; exact H0].
  Qed.
End RecordLoop.

(* ---------------------------------------------------------------------------------------------------------------------- *)
(* one step of the decoder on a conforming array / map / record / union, given that the members decode                      *)
(* ---------------------------------------------------------------------------------------------------------------------- *)
Section Steps.
  Variable e : env.
  Variable parseF : nat -> bytes -> option N.
  Variables (wc : bytes) (ig : nat).
  Variable cn : value -> value.
  Notation dec := (decJ e wc ps_empty ig parseF).
  Notation decm f := (djmix e wc ps_empty ig parseF f).   (* the recursive calls of one step (Ror2NoPanic.decJ_unfold) *)

  Definition good (f : nat) (t : ty) (x : jdoc) (v : value) : Prop := forall top tr, dec f top t x tr = Ok (cn v, tr).

  Lemma array_step f t' xs vs top tr :
    Forall2 (good f t') xs vs -> dec (S f) top (TArray t') (JArr xs) tr = Ok (VArr (map cn vs), tr).
  Proof.
    intros H. rewrite decJ_unfold. unfold stepJ.
    assert (G : forall i acc tr0, goJarr (decm f) t' xs i acc tr0 = Ok (VArr (rev acc ++ map cn vs), tr0)).
    { induction H as [|x v xs vs Hx _ IH]; intros i acc tr0.
      - cbn [goJarr map]. rewrite app_nil_r. reflexivity.
      - cbn [goJarr]. rewrite djmix_false, (Hx false (enter_array i tr0)). cbn [bind]. unfold enter_array. rewrite pop_push.
        rewrite (IH (S i) (cn v :: acc) tr0). cbn [rev map]. rewrite <- app_assoc. reflexivity. }
    rewrite G. reflexivity.
  Qed.

  Lemma map_step f t' ms es top tr :
    NoDup (map fst ms) -> NoDup (map fst es) -> incl (map fst ms) (map fst es) ->
    (forall k v, In (k, v) es -> exists x, In (k, x) ms /\ x <> JNull /\ good f t' x v) ->
    dec (S f) top (TMap t') (JObj ms) tr = Ok (VMap (sort_entries (map (fun kv => (fst kv, cn (snd kv))) es)), tr).
  Proof.
    intros HNm HNe HI HE'. rewrite decJ_unfold. unfold stepJ.
    set (R := fun (kx : bytes * jdoc) (kv : bytes * value) => fst kx = fst kv /\ snd kx <> JNull /\ good f t' (snd kx) (snd kv) /\ In kv es).
    assert (HM : forall l, incl l ms -> exists vs', Forall2 R l vs').
    { induction l as [|[k x] r IHl]; intros Hl; [exists []; constructor|].
      destruct (IHl (fun y Hy => Hl y (or_intror Hy))) as [vs' Hvs'].
      assert (Hk : In k (map fst es)) by (apply HI; apply in_map_iff; exists (k, x); split; [reflexivity | apply Hl; left; reflexivity]).
      apply in_map_iff in Hk as [[k' v] [Ek Hkv]]. cbn in Ek. subst k'.
      destruct (HE' k v Hkv) as [x' [Hx' [Hnn Hg]]].
      assert (x' = x) by (eapply nodup_keys_functional; [exact HNm | exact Hx' | apply Hl; left; reflexivity]). subst x'.
      exists ((k, v) :: vs'). constructor; [|exact Hvs']. unfold R. cbn. auto. }
    destruct (HM ms (incl_refl ms)) as [vs' Hvs'].
    assert (G : forall l vs0, Forall2 R l vs0 -> forall acc tr0, NoDup (map fst acc ++ map fst l) ->
              goJmap wc ps_empty ig (decm f) t' l acc tr0
              = Ok (VMap (sort_entries (acc ++ map (fun kv => (fst kv, cn (snd kv))) vs0)), tr0)).
    { induction 1 as [|[k x] [k' v] l' vs0' [Ek [Hnn [Hx Hin]]] _ IHG]; intros acc tr0 HN.
      - cbn [goJmap map]. rewrite app_nil_r. reflexivity.
      - cbn [fst snd] in *. subst k'. cbn [goJmap]. rewrite jmatch by exact Hnn.
        rewrite enter_map_empty. cbn [bind]. rewrite djmix_false, (Hx false _). cbn [bind]. rewrite pop_push. rewrite map_put_fresh.
        + rewrite IHG.
          * cbn [map fst snd]. rewrite <- app_assoc. reflexivity.
          * rewrite map_app. cbn [map fst]. rewrite <- app_assoc. exact HN.
        + intros Hin'. cbn [map] in HN. apply NoDup_remove_2 in HN. apply HN. apply in_or_app. left; exact Hin'. }
    rewrite (G ms vs' Hvs' [] tr HNm). cbn [app].
    cut (sort_entries (map (fun kv => (fst kv, cn (snd kv))) vs') = sort_entries (map (fun kv => (fst kv, cn (snd kv))) es));
      [intros Hs; rewrite Hs; reflexivity|].
    assert (Hkeys : map fst vs' = map fst ms).
    { clear - Hvs'. induction Hvs' as [|kx kv l r [E _] _ IHr]; [reflexivity|]. cbn [map]. rewrite IHr, E. reflexivity. }
    assert (Hsub : forall kv, In kv vs' -> In kv es).
    { clear - Hvs'. intros kv Hin. induction Hvs' as [|kx kv' l r [_ [_ [_ Hes]]] _ IHr]; [contradiction|].
      destruct Hin as [<-|Hin]; [exact Hes | apply IHr; exact Hin]. }
    assert (Hperm : Permutation vs' es).
    { apply NoDup_Permutation.
      - apply nodup_keys_nodup. rewrite Hkeys. exact HNm.
      - apply nodup_keys_nodup. exact HNe.
      - intros [k v]. split; [apply Hsub|].
        intros Hin. destruct (HE' k v Hin) as [x [Hx _]].
        assert (Hk : In k (map fst vs')) by (rewrite Hkeys; apply in_map_iff; exists (k, x); split; [reflexivity | exact Hx]).
        apply in_map_iff in Hk as [[k' v'] [Ek Hv']]. cbn in Ek. subst k'.
        rewrite (nodup_keys_functional es k v v' HNe Hin (Hsub _ Hv')). exact Hv'. }
    apply sort_entries_perm_invariant.
    - apply Permutation_map. exact Hperm.
    - rewrite map_map. cbn [fst]. change (map (fun x : bytes * value => fst x) vs') with (map fst vs'). rewrite Hkeys. exact HNm.
  Qed.

  (* the members of the object decode to the fields of the record value *)
  Definition fields_ok (f : nat) (ms : list (bytes * jdoc)) (fs : list field) (target : list (option value)) : Prop :=
    length target = length fs /\
    forall j fd, nth_error fs j = Some fd ->
      match nth_error target j with
      | Some (Some v) => exists x, In (f_name fd, x) ms /\ x <> JNull /\ good f (f_ty fd) x v
      | Some None => is_required (f_opt fd) = false /\ forall x, In (f_name fd, x) ms -> x = JNull
      | None => False
      end.

  Lemma record_step f n fs ms target top tr :
    lookup e n = Some (DRecord [] fs) -> own_has_default fs = false ->
    NoDup (map f_name fs) -> NoDup (map fst ms) -> fields_ok f ms fs target ->
    dec (S f) top (TRef n) (JObj ms) tr = Ok (VRec [] (map (option_map cn) target), tr).
  Proof.
    intros Hl Hnd HNf HNm [Hlen Hok].
    assert (Hnames : forall j fd, nth_error fs j = Some fd -> index_of (f_name fd) (map f_name fs) 0 = Some j).
    { intros j fd Hj. apply (index_of_nth (map f_name fs) j (f_name fd) 0 HNf). apply map_nth_error. exact Hj. }
    assert (Hidx : forall k j, index_of k (map f_name fs) 0 = Some j -> exists fd, nth_error fs j = Some fd /\ f_name fd = k).
    { intros k j Hi. destruct (index_of_sound _ _ _ _ Hi) as [d [Hd Hn]]. cbn in Hd. subst d.
      destruct (nth_error fs j) as [fd|] eqn:Ej.
      - rewrite (map_nth_error f_name _ _ Ej) in Hn. inversion Hn. eauto.
      - exfalso. apply nth_error_None in Ej. assert (j < length (map f_name fs)) by (apply nth_error_Some; congruence).
        rewrite map_length in H. lia. }
    assert (Hmem : members_ok (decm f) cn fs target ms).
    { intros k x Hin Hx j Hi. destruct (Hidx k j Hi) as [fd [Hfd Hk]]. subst k.
      specialize (Hok j fd Hfd). destruct (nth_error target j) as [[v|]|] eqn:Et; [| |contradiction].
      - destruct Hok as [x' [Hx' [_ Hg]]].
        assert (x' = x) by (eapply nodup_keys_functional; [exact HNm | exact Hx' | exact Hin]). subst x'.
        exists fd, v. repeat split; try assumption. intros tr0. apply Hg.
      - destruct Hok as [_ Hnull]. contradiction Hx. apply Hnull. exact Hin. }
    rewrite decJ_unfold. unfold stepJ. rewrite Hl. cbn [bind].
    assert (Ez : zero_value e (S (S (length e))) (TRef n)
                 = VRec [] (map (fun fd => if is_required (f_opt fd) then Some (zero_value e (S (length e)) (f_ty fd)) else None) fs)).
    { cbn [zero_value]. rewrite Hl. reflexivity. }
    assert (Er : required_fields e (S (length e)) n = map f_name (filter (fun fd => is_required (f_opt fd)) fs)).
    { cbn [required_fields]. rewrite Hl. reflexivity. }
    rewrite Ez, Er.
    rewrite (goJrec_sim e wc ig (decm f) cn n fs Hl target ms _ _ tr Hmem). cbn [bind].
    set (init := map (fun fd => if is_required (f_opt fd) then Some (zero_value e (S (length e)) (f_ty fd)) else None) fs).
    (* no required field is left *)
    assert (Erem : fold_left step_rem ms (map f_name (filter (fun fd => is_required (f_opt fd)) fs)) = []).
    { destruct (fold_left step_rem ms _) as [|r0 rest] eqn:Ef; [reflexivity|]. exfalso.
      assert (Hin : In r0 (fold_left step_rem ms (map f_name (filter (fun fd => is_required (f_opt fd)) fs)))) by (rewrite Ef; left; reflexivity).
      apply fold_rem_in in Hin as [Hreq Hnull].
      apply in_map_iff in Hreq as [fd [Hk Hfd]]. apply filter_In in Hfd as [Hfd Hrq]. subst r0.
      apply In_nth_error in Hfd as [j Hj]. specialize (Hok j fd Hj).
      destruct (nth_error target j) as [[v|]|]; [| |contradiction].
      - destruct Hok as [x [Hx [Hnn _]]]. apply Hnn. apply Hnull. exact Hx.
      - destruct Hok as [Hnr _]. congruence. }
    rewrite Erem.
    (* the decoded slots *)
    assert (Eval : fold_left (step_val cn fs target) ms init = map (option_map cn) target).
    { apply nth_error_ext.
      - rewrite fold_val_len, map_length. unfold init. rewrite map_length. symmetry. exact Hlen.
      - intros j Hj. rewrite fold_val_len in Hj. unfold init in Hj. rewrite map_length in Hj.
        destruct (nth_error fs j) as [fd|] eqn:Efd; [|apply nth_error_None in Efd; lia].
        pose proof (Hok j fd Efd) as Hj'. destruct (nth_error target j) as [[v|]|] eqn:Et; [| |contradiction].
        + destruct Hj' as [x [Hx [Hnn _]]].
          rewrite (fold_val_written cn fs target j v ms init (f_name fd) x Hx Hnn (Hnames j fd Efd) Et)
            by (unfold init; rewrite map_length; exact Hj).
          rewrite (map_nth_error _ _ _ Et). reflexivity.
        + destruct Hj' as [Hnr Hnull].
          rewrite fold_val_untouched.
          * unfold init. rewrite (map_nth_error _ _ _ Efd), Hnr. rewrite (map_nth_error _ _ _ Et). reflexivity.
          * intros k x Hin Hx Hi. destruct (Hidx k j Hi) as [fd' [Hfd' Hk]]. rewrite Efd in Hfd'. inversion Hfd'; subst fd'.
            subst k. apply Hx. apply Hnull. exact Hin. }
    rewrite Eval. unfold record_missing. cbn [filter map]. rewrite tracker_eta_nil.
    rewrite Hnd. cbn [negb]. rewrite orb_true_r. reflexivity.
  Qed.

  Lemma union_step f n nullable members alias y j mt v top tr :
    lookup e n = Some (DUnion nullable members) -> NoDup (map fst members) -> y <> JNull ->
    nth_error members j = Some (alias, mt) -> good f mt y v ->
    dec (S f) top (TRef n) (JObj [(alias, y)]) tr = Ok (VUnion (set_nth j (Some (cn v)) (map (fun _ => None) members)), tr).
  Proof.
    intros Hl HN Hy Hj Hg. rewrite decJ_unfold. unfold stepJ. rewrite Hl. cbn [bind goJuni].
    rewrite jmatch by exact Hy. rewrite enter_map_empty. cbn [bind].
    rewrite (index_of_nth (map fst members) j alias 0 HN) by (rewrite (map_nth_error fst _ _ Hj); reflexivity).
    cbn [Nat.add]. rewrite Hj. rewrite djmix_false, (Hg false _). cbn [bind]. rewrite pop_push. cbn [negb]. rewrite andb_false_r. reflexivity.
  Qed.
End Steps.

(* ---------------------------------------------------------------------------------------------------------------------- *)
(* the theorem, by mutual induction on the derivation of [json_denotes]                                                    *)
(* ---------------------------------------------------------------------------------------------------------------------- *)
(* records include no other record, declare no default, and have distinct field names *)
Definition plain_env (e : env) : Prop :=
  forall n incs fs, lookup e n = Some (DRecord incs fs) -> incs = [] /\ own_has_default fs = false /\ NoDup (map f_name fs).

Lemma none_members_not_set {A} (l : list A) : ~ Exists (fun o : option value => o <> None) (map (fun _ => None) l).
Proof. induction l as [|a r IH]; intros H; inversion H; subst; [congruence | apply IH; assumption]. Qed.

Lemma map_option_set_nth {A} (g : value -> value) (l : list A) : forall j v,
  map (option_map g) (set_nth j (Some v) (map (fun _ => None) l)) = set_nth j (Some (g v)) (map (fun _ => None) l).
Proof.
  induction l as [|a r IH]; intros j v; [destruct j; reflexivity|]. destruct j as [|j]; cbn [map set_nth option_map].
  - f_equal. clear. induction r as [|b r IH]; [reflexivity|]. cbn [map option_map]. rewrite IH. reflexivity.
  - rewrite IH. reflexivity.
Qed.

Section Plain.
  Variable e : env.
  Variable float_text : bool -> bytes -> N -> Prop.
  Variable parseF : nat -> bytes -> option N.
  Variables (wc : bytes) (ig : nat).
  Variables nan32 nan64 : N.
  Hypothesis Hp64 : forall t b, float_text false t b -> parseF 0 t = Some b.
  Hypothesis Hp32 : forall t b, float_text true t b -> parseF 2 t = Some b.
  Hypothesis Hnan64 : parseF 0 txt_NaN = Some nan64.
  Hypothesis Hinf64 : parseF 0 txt_Infinity = Some 9218868437227405312%N.
  Hypothesis Hninf64 : parseF 0 txt_NegInfinity = Some 18442240474082181120%N.
  Hypothesis Hnan32 : parseF 2 txt_NaN = Some nan32.
  Hypothesis Hinf32 : parseF 2 txt_Infinity = Some 2139095040%N.
  Hypothesis Hninf32 : parseF 2 txt_NegInfinity = Some 4286578688%N.
  Hypothesis Hplain : plain_env e.

  Notation cn := (canonical nan32 nan64).
  Notation dec := (decJ e wc ps_empty ig parseF).
  Notation decm f := (djmix e wc ps_empty ig parseF f).   (* the recursive calls of one step (Ror2NoPanic.decJ_unfold) *)
  Notation good := (good e parseF wc ig cn).
  Notation jleaf := (json_leaf float_text).

  Let P (t : ty) (x : jdoc) (v : value) : Prop :=
    valid_value e t v -> nonnull v -> x <> JNull /\ exists F, forall f, F <= f -> good f t x v.
  Let P0 (t : ty) (xs : list jdoc) (vs : list value) : Prop :=
    Forall (valid_value e t) vs -> Forall nonnull vs -> exists F, forall f, F <= f -> Forall2 (good f t) xs vs.
  Let P1 (t : ty) (ms : list (bytes * jdoc)) (es : list (bytes * value)) : Prop :=
    Forall (fun kv => valid_value e t (snd kv)) es -> Forall (fun kv => nonnull (snd kv)) es ->
    exists F, forall f, F <= f -> forall k v, In (k, v) es -> exists x, In (k, x) ms /\ x <> JNull /\ good f t x v.
  Let P2 (n : nat) (ms : list (bytes * jdoc)) (v : value) : Prop :=
    valid_value e (TRef n) v -> nonnull v -> NoDup (map fst ms) ->
    exists F, forall f, F <= f -> forall top tr, dec (S f) top (TRef n) (JObj ms) tr = Ok (cn v, tr).
  Let P3 (ms : list (bytes * jdoc)) (incs : list nat) (ivs : list value) : Prop := True.
  Let P4 (ms : list (bytes * jdoc)) (fs : list field) (fvs : list (option value)) : Prop :=
    Forall2 (fun fd ov => (forall v, ov = Some v -> valid_value e (f_ty fd) v) /\ (ov = None -> is_required (f_opt fd) = false)) fs fvs ->
    Forall (oall nonnull) fvs ->
    exists F, forall f, F <= f -> fields_ok e parseF wc ig cn f ms fs fvs.
  Let P5 (members : list (bytes * ty)) (alias : bytes) (y : jdoc) (vs : list (option value)) : Prop :=
    Forall2 (fun m ov => forall v, ov = Some v -> valid_value e (snd m) v) members vs -> Forall (oall nonnull) vs ->
    y <> JNull /\ exists j mt v, nth_error members j = Some (alias, mt) /\
                                 vs = set_nth j (Some v) (map (fun _ => None) members) /\
                                 exists F, forall f, F <= f -> good f mt y v.

  Lemma conforming_accepted_all :
    (forall t x v, json_denotes e float_text t x v -> P t x v) /\
    (forall t xs vs, items_denote e jdoc json_obj json_list json_null jleaf t xs vs -> P0 t xs vs) /\
    (forall t ms es, entries_denote e jdoc json_obj json_list json_null jleaf t ms es -> P1 t ms es) /\
    (forall n ms v, record_denotes e jdoc json_obj json_list json_null jleaf n ms v -> P2 n ms v) /\
    (forall ms incs ivs, includes_denote e jdoc json_obj json_list json_null jleaf ms incs ivs -> P3 ms incs ivs) /\
    (forall ms fs fvs, fields_denote e jdoc json_obj json_list json_null jleaf ms fs fvs -> P4 ms fs fvs) /\
    (forall members alias y vs, member_denotes e jdoc json_obj json_list json_null jleaf members alias y vs -> P5 members alias y vs).
  Proof.
    unfold json_denotes.
    apply (denotes_mutind e jdoc json_obj json_list json_null jleaf P P0 P1 P2 P3 P4 P5); unfold P, P0, P1, P2, P3, P4, P5; clear P P0 P1 P2 P3 P4 P5.
    - (* leaf *)
      intros t x v Hlt Hl Hv Hn. split; [intros E; subst; inversion Hl|].
      exists 1. intros f Hf top tr. destruct f as [|f]; [lia|].
      eapply leaf_accepted; eassumption.
    - (* array *)
      intros t x xs vs Hx _ IH Hv Hn. destruct x; try discriminate Hx. cbn [json_list] in Hx. inversion Hx; subst; clear Hx.
      split; [discriminate|].
      inversion Hv; subst. inversion Hn as [? Hlv| | |? Hnl|]; subst; [discriminate Hlv|].
      match goal with F : Forall (valid_value e t) vs |- _ => destruct (IH F Hnl) as [F0 HF0] end.
      exists (S F0). intros f Hf top tr. destruct f as [|f]; [lia|].
      rewrite canonical_arr. apply array_step. apply HF0. lia.
    - (* map *)
      intros t x ms es Hx HNm _ IH HI Hv Hn. destruct x; try discriminate Hx. cbn [json_obj] in Hx. inversion Hx; subst; clear Hx.
      split; [discriminate|].
      inversion Hv; subst. inversion Hn as [? Hlv| | | |? Hne]; subst; [discriminate Hlv|].
      match goal with F : Forall (fun kv => valid_value e t (snd kv)) es |- _ => destruct (IH F Hne) as [F0 HF0] end.
      exists (S F0). intros f Hf top tr. destruct f as [|f]; [lia|].
      rewrite canonical_map. unfold canon_ent. apply map_step; try assumption. apply HF0. lia.
    - (* record *)
      intros n x ms v Hx HNm _ IH Hv Hn. destruct x; try discriminate Hx. cbn [json_obj] in Hx. inversion Hx; subst; clear Hx.
      split; [discriminate|].
      destruct (IH Hv Hn HNm) as [F0 HF0]. exists (S F0). intros f Hf top tr. destruct f as [|f]; [lia|]. apply HF0. lia.
    - (* union *)
      intros n nullable members x alias y vs Hl Hx _ IH Hv Hn.
      destruct x; try discriminate Hx. cbn [json_obj] in Hx. inversion Hx; subst; clear Hx.
      split; [discriminate|].
      inversion Hv; subst.
      match goal with L : lookup e n = Some (DUnion _ _) |- _ => rewrite Hl in L; inversion L; subst; clear L end.
      inversion Hn as [? Hlv| |? Hnm Hex| |]; subst; [discriminate Hlv|].
      match goal with F : Forall2 _ _ vs |- _ => destruct (IH F Hnm) as [Hy [j [mt [v [Hj [Evs [F0 HF0]]]]]]] end.
      exists (S F0). intros f Hf top tr. destruct f as [|f]; [lia|].
      rewrite canonical_union, Evs, map_option_set_nth.
      eapply union_step; try eassumption. apply HF0. lia.
    - (* the null member: excluded by nonnull *)
      intros n members x _ _ _ Hn. exfalso.
      inversion Hn as [? Hlv| |? Hnm Hex| |]; subst; [discriminate Hlv|]. exact (none_members_not_set _ Hex).
    - (* items: nil *) intros t _ _. exists 0. intros; constructor.
    - (* items: cons *)
      intros t x v xs vs _ IHx _ IHr Hv Hn. inversion Hv; subst. inversion Hn; subst.
      destruct (IHx ltac:(assumption) ltac:(assumption)) as [_ [F1 HF1]].
      destruct (IHr ltac:(assumption) ltac:(assumption)) as [F2 HF2].
      exists (Nat.max F1 F2). intros f Hf. constructor; [apply HF1; lia | apply HF2; lia].
    - (* entries: nil *) intros t ms _ _. exists 0. intros f _ k v [].
    - (* entries: cons *)
      intros t ms k v x es Hin _ IHx _ IHr Hv Hn. inversion Hv; subst. inversion Hn; subst. cbn [snd] in *.
      destruct (IHx ltac:(assumption) ltac:(assumption)) as [Hnn [F1 HF1]].
      destruct (IHr ltac:(assumption) ltac:(assumption)) as [F2 HF2].
      exists (Nat.max F1 F2). intros f Hf k0 v0 [E|H0].
      + inversion E; subst. exists x. split; [exact Hin|]. split; [exact Hnn | apply HF1; lia].
      + apply (HF2 f ltac:(lia) k0 v0 H0).
    - (* record *)
      intros n incs fs ms ivs fvs Hl Hinc _ _ IHf Hv Hn HNm.
      destruct (Hplain n incs fs Hl) as [-> [Hnd HNf]]. inversion Hinc; subst.
      inversion Hv; subst.
      match goal with L : lookup e n = Some (DRecord _ _) |- _ => rewrite Hl in L; inversion L; subst; clear L end.
      inversion Hn as [? Hlv|? ? Hni Hnf| | |]; subst; [discriminate Hlv|].
      match goal with F : Forall2 _ _ fvs |- _ => destruct (IHf F Hnf) as [F0 HF0] end.
      exists F0. intros f Hf top tr. rewrite canonical_rec. cbn [map].
      eapply record_step; try eassumption. apply HF0. exact Hf.
    - (* includes *) intros; exact I.
    - intros; exact I.
    - (* fields: nil *)
      intros ms _ _. exists 0. intros f _. split; [reflexivity|]. intros j fd H. destruct j; discriminate H.
    - (* fields: set *)
      intros ms fd fs v vs x Hin _ IHx _ IHr Hv Hn. inversion Hv as [|? ? ? ? [Hv1 _] Hvr]; subst. inversion Hn as [|? ? Hn1 Hnr]; subst.
      inversion Hn1; subst.
      destruct (IHx (Hv1 v eq_refl) ltac:(assumption)) as [Hnn [F1 HF1]].
      destruct (IHr Hvr Hnr) as [F2 HF2].
      exists (Nat.max F1 F2). intros f Hf. destruct (HF2 f ltac:(lia)) as [Hlen Hok]. split; [cbn [length]; rewrite Hlen; reflexivity|].
      intros j fd' Hj. destruct j as [|j]; cbn [nth_error] in *.
      + inversion Hj; subst fd'. exists x. split; [exact Hin|]. split; [exact Hnn | apply HF1; lia].
      + apply Hok. exact Hj.
    - (* fields: unset *)
      intros ms fd fs vs Hreq Hnull _ IHr Hv Hn. inversion Hv as [|? ? ? ? _ Hvr]; subst. inversion Hn as [|? ? _ Hnr]; subst.
      destruct (IHr Hvr Hnr) as [F2 HF2].
      exists F2. intros f Hf. destruct (HF2 f Hf) as [Hlen Hok]. split; [cbn [length]; rewrite Hlen; reflexivity|].
      intros j fd' Hj. destruct j as [|j]; cbn [nth_error] in *.
      + inversion Hj; subst fd'. split; [exact Hreq|]. intros x Hx. apply (Hnull x Hx).
      + apply Hok. exact Hj.
    - (* member: here *)
      intros alias t rest x v _ IHx Hv Hn. inversion Hv as [|? ? ? ? Hv1 _]; subst. inversion Hn as [|? ? Hn1 _]; subst.
      inversion Hn1; subst.
      destruct (IHx (Hv1 v eq_refl) ltac:(assumption)) as [Hnn [F1 HF1]].
      split; [exact Hnn|]. exists 0, t, v. split; [reflexivity|]. split; [reflexivity|]. exists F1. exact HF1.
    - (* member: later *)
      intros a t rest alias x vs _ IHr Hv Hn. inversion Hv as [|? ? ? ? _ Hvr]; subst. inversion Hn as [|? ? _ Hnr]; subst.
      destruct (IHr Hvr Hnr) as [Hnn [j [mt [v [Hj [Evs HF]]]]]].
      split; [exact Hnn|]. exists (S j), mt, v. split; [exact Hj|]. split; [cbn [map set_nth]; rewrite <- Evs; reflexivity | exact HF].
  Qed.

  (* every conforming JSON tree that denotes a valid value is accepted, for every type: the decoder returns the value in its
     canonical form and leaves the tracker untouched (no missing field is recorded), for every sufficiently large fuel *)
  Theorem json_accepts_plain : forall t jd v,
    json_denotes e float_text t jd v -> valid_value e t v -> nonnull v ->
    exists F, forall fuel, F <= fuel -> forall top tr, dec fuel top t jd tr = Ok (cn v, tr).
  Proof.
    intros t jd v Hd Hv Hn. destruct conforming_accepted_all as [H _]. destruct (H t jd v Hd Hv Hn) as [_ HF]. exact HF.
  Qed.
End Plain.

(* ---- non-vacuity: the example environment of ConformProofs is plain; a conforming tree with the members in another order,
   an unknown member and an explicit null for the unset optional field is accepted and yields the value ---- *)
Lemma ex_env_plain : plain_env ex_env.
Proof.
  intros n incs fs H. destruct n as [|[|n]]; simpl in H; try discriminate. inversion H; subst.
  split; [reflexivity|]. split; [reflexivity|]. repeat constructor; simpl; intuition discriminate.
Qed.

Example ex_permuted_unknown_accepted :
  decJ ex_env [x2a] ps_empty 0 (fun _ _ => None) 5 true (TRef 0)
    (JObj [([x7a; x7a], JArr [JObj []; JNum [x31]]); ([x6d], JObj [([x28], JStr [x20; x27])]); ([x73], JNull); ([x61], JNum [x37])])
    tracker0
  = Ok (ex_value, tracker0).
Proof. vm_compute. reflexivity. Qed.

(* ---------------------------------------------------------------------------------------------------------------------- *)
(* ROR2 acceptance for leaf types (a top-level primitive, enum or fixed: the whole input is the token): any byte may come     *)
(* percent-encoded, in upper or lower case hex, and the cursor-level reader still decodes the value                          *)
(* ---------------------------------------------------------------------------------------------------------------------- *)
Lemma hex_value_unhex : forall c, hex_value c = Escape.unhex c.
Proof.
  assert (H : forallb (fun c => match hex_value c, Escape.unhex c with
                                | Some a, Some b => N.eqb a b | None, None => true | _, _ => false end) all_bytes = true)
    by (vm_compute; reflexivity).
  intros c. pose proof (forall_bytes _ H c) as Hc. cbv beta in Hc.
  destruct (hex_value c), (Escape.unhex c); try discriminate; [apply N.eqb_eq in Hc; subst|]; reflexivity.
Qed.

Definition raw_decodes_ok (fl : flavour) : bool :=
  forallb (fun c => negb (may_be_raw (ctx_of fl) c) ||
                    (negb (Byte.eqb c x25) && negb (plus_of fl && Byte.eqb c x2b) && negb (is_illegal c) && negb (Byte.eqb c x27)))
          all_bytes.
Lemma raw_decodes : forall fl, raw_decodes_ok fl = true.
Proof. intros fl; destruct fl; vm_compute; reflexivity. Qed.

Lemma raw_facts fl c : may_be_raw (ctx_of fl) c = true ->
  Byte.eqb c x25 = false /\ (plus_of fl && Byte.eqb c x2b) = false /\ is_illegal c = false /\ Byte.eqb c x27 = false.
Proof.
  intros H. pose proof (forall_bytes _ (raw_decodes fl) c) as Hc. cbv beta in Hc. rewrite H in Hc. cbn [negb orb] in Hc.
  apply andb_true_iff in Hc as [Hc H4]. apply andb_true_iff in Hc as [Hc H3]. apply andb_true_iff in Hc as [H1 H2].
  rewrite negb_true_iff in *. auto.
Qed.

Lemma pct_unescape fl w s : pct_text (ctx_of fl) w s -> Escape.unescape (plus_of fl) w = Some s.
Proof.
  induction 1 as [|c w s Hc _ IH|h l a b w s Ha Hb _ IH|w s Hq _ IH]; [reflexivity| | |].
  - destruct (raw_facts fl c Hc) as [H1 [H2 _]]. cbn [Escape.unescape]. rewrite H1, IH, H2. reflexivity.
  - cbn [Escape.unescape]. rewrite byte_eqb_refl. rewrite <- !hex_value_unhex, Ha, Hb, IH. reflexivity.
  - (* '+' in a query string: url.QueryUnescape reads it as a space *)
    destruct fl; try discriminate Hq. cbn [Escape.unescape plus_of] in *. rewrite IH. reflexivity.
Qed.

Lemma hex_not_illegal c a : hex_value c = Some a -> is_illegal c = false.
Proof.
  assert (H : forallb (fun c => match hex_value c with Some _ => negb (is_illegal c) | None => true end) all_bytes = true)
    by (vm_compute; reflexivity).
  intros Hc. pose proof (forall_bytes _ H c) as Hx. cbv beta in Hx. rewrite Hc in Hx. apply negb_true_iff in Hx. exact Hx.
Qed.

Lemma pct_no_illegal fl w s : pct_text (ctx_of fl) w s -> existsb is_illegal w = false.
Proof.
  induction 1 as [|c w s Hc _ IH|h l a b w s Ha Hb _ IH|w s Hq _ IH]; [reflexivity| | |]; cbn [existsb].
  - destruct (raw_facts fl c Hc) as [_ [_ [H3 _]]]. rewrite H3, IH. reflexivity.
  - rewrite (hex_not_illegal h a Ha), (hex_not_illegal l b Hb), IH. reflexivity.
  - rewrite IH. reflexivity.
Qed.

Lemma pct_not_marker fl w s : s <> [] -> pct_text (ctx_of fl) w s -> w <> [] /\ bytes_eqb w txt_empty_string = false.
Proof.
  intros Hs H. inversion H as [|c w' s' Hc _|h l a b w' s' Ha Hb _|w' s' Hq _]; subst; [contradiction Hs; reflexivity| | |].
  - split; [discriminate|]. destruct (raw_facts fl c Hc) as [_ [_ [_ H4]]]. cbn [bytes_eqb txt_empty_string]. rewrite H4. reflexivity.
  - split; [discriminate|]. reflexivity.
  - split; [discriminate|]. reflexivity.
Qed.

Section Ror2Leaves.
  Variable e : env.
  Variable float_text : bool -> bytes -> N -> Prop.
  Variable parseF : nat -> bytes -> option N.
  Variables (wc : bytes) (ig : nat) (qr : bool).
  Variables nan32 nan64 : N.
  Hypothesis Hp64 : forall t b, float_text false t b -> parseF 0 t = Some b.
  Hypothesis Hp32 : forall t b, float_text true t b -> parseF 1 t = Some b.
  Hypothesis Hnan64 : parseF 0 txt_NaN = Some nan64.
  Hypothesis Hinf64 : parseF 0 txt_Infinity = Some 9218868437227405312%N.
  Hypothesis Hninf64 : parseF 0 txt_NegInfinity = Some 18442240474082181120%N.
  Hypothesis Hnan32 : parseF 1 txt_NaN = Some nan32.
  Hypothesis Hinf32 : parseF 1 txt_Infinity = Some 2139095040%N.
  Hypothesis Hninf32 : parseF 1 txt_NegInfinity = Some 4286578688%N.
  Variable fl : flavour.

  Notation cn := (canonical nan32 nan64).
  Notation unesc := (Escape.unescape (plus_of fl)).
  Notation decr := (decR e wc ps_empty ig parseF unesc txt_empty_string txt_list_open qr).
  Notation rd_token := (read_token).

  Definition done (tr : tracker) : rst := {| r_rest := []; r_consumed := true; r_tr := tr |}.

  Lemma token_read w s tr : w <> [] -> pct_text (ctx_of fl) w s -> read_token (rinit w tr) = Ok (w, done tr).
  Proof.
    intros Hw H. unfold read_token, rinit. cbn [r_consumed r_rest r_tr bind]. rewrite (pct_no_illegal fl w s H).
    destruct w; [contradiction Hw; reflexivity|]. reflexivity.
  Qed.

  Lemma decoded_read w s tr : w <> [] -> pct_text (ctx_of fl) w s -> read_decoded unesc (rinit w tr) = Ok (s, done tr).
  Proof.
    intros Hw H. unfold read_decoded. rewrite (token_read w s tr Hw H). cbn [bind].
    rewrite (pct_unescape fl w s H). reflexivity.
  Qed.

  Lemma str_text_nonempty cx w s : str_text cx w s -> w <> [].
  Proof. intros H. inversion H as [|w' s' Hs Hp]; subst; [discriminate|]. inversion Hp; subst; try discriminate. contradiction Hs; reflexivity. Qed.

  Lemma string_read w s tr : str_text (ctx_of fl) w s -> read_string unesc txt_empty_string (rinit w tr) = Ok (s, done tr).
  Proof.
    intros H. inversion H as [|w' s' Hs Hp]; subst.
    - reflexivity.
    - destruct (pct_not_marker fl w s Hs Hp) as [Hw Hm]. unfold read_string. rewrite (token_read w s tr Hw Hp). cbn [bind].
      destruct w; [contradiction Hw; reflexivity|]. rewrite Hm. rewrite (pct_unescape fl _ s Hp). reflexivity.
  Qed.

  Lemma reserved_nonempty k s : reserved_float_text k = Some s -> s <> [].
  Proof. destruct k; intros H; inversion H; discriminate. Qed.

  Lemma reserved_parse64' b s : (b < 18446744073709551616)%N ->
    reserved_float_text (float_kind false b) = Some s -> parseF 0 s = Some (canon_float nan32 nan64 false b).
  Proof.
    intros Hb H. unfold canon_float. destruct (float_kind false b) eqn:Ek; inversion H; subst.
    - exact Hnan64.
    - rewrite (kind_posinf false b Ek). exact Hinf64.
    - rewrite (kind_neginf false b Hb Ek). exact Hninf64.
  Qed.
  Lemma reserved_parse32' b s : (b < 4294967296)%N ->
    reserved_float_text (float_kind true b) = Some s -> parseF 1 s = Some (canon_float nan32 nan64 true b).
  Proof.
    intros Hb H. unfold canon_float. destruct (float_kind true b) eqn:Ek; inversion H; subst.
    - exact Hnan32.
    - rewrite (kind_posinf true b Ek). exact Hinf32.
    - rewrite (kind_neginf true b Hb Ek). exact Hninf32.
  Qed.

  Theorem ror2_accepts_leaves : forall t bs v,
    is_leaf_ty t = true -> ror2_denotes e float_text (ctx_of fl) t bs v -> valid_value e t v ->
    forall fuel tr, decr (S fuel) t (rinit bs tr) = Ok (cn v, done tr).
  Proof.
    intros t bs v Hlt [tree [Htext Hd]] Hv fuel tr. unfold rtree_denotes in Hd.
    inversion Hd; subst; try discriminate Hlt.
    match goal with L : ror2_leaf _ _ _ _ _ |- _ => rename L into Hl end.
    rewrite decR_unfold. unfold stepR.
    inversion Hl; subst; inversion Htext; subst;
      match goal with S0 : str_text _ _ _ |- _ => pose proof (str_text_nonempty _ _ _ S0) as Hw end;
      inversion Hv; subst; cbn [rprim canonical].
    - match goal with P : pct_text _ _ _ |- _ => rewrite (decoded_read _ _ tr Hw P) end. cbn [bind].
      match goal with H : in_i32 _ = true |- _ => rewrite parse_print_i32 by (apply in_i32_range; exact H) end. reflexivity.
    - match goal with P : pct_text _ _ _ |- _ => rewrite (decoded_read _ _ tr Hw P) end. cbn [bind].
      match goal with H : in_i64 _ = true |- _ => rewrite parse_print_i64 by (apply in_i64_range; exact H) end. reflexivity.
    - match goal with P : pct_text _ _ _ |- _ => rewrite (decoded_read _ _ tr Hw P) end. cbn [bind].
      match goal with H : float_text true _ _ |- _ => rewrite (Hp32 _ _ H) end.
      match goal with H : float_kind true _ = KFinite |- _ => unfold canon_float; rewrite H end. reflexivity.
    - match goal with P : pct_text _ _ _ |- _ => rewrite (decoded_read _ _ tr Hw P) end. cbn [bind].
      match goal with H : reserved_float_text _ = Some _, B : (_ < _)%N |- _ => rewrite (reserved_parse32' _ _ B H) end. reflexivity.
    - match goal with P : pct_text _ _ _ |- _ => rewrite (decoded_read _ _ tr Hw P) end. cbn [bind].
      match goal with H : float_text false _ _ |- _ => rewrite (Hp64 _ _ H) end.
      match goal with H : float_kind false _ = KFinite |- _ => unfold canon_float; rewrite H end. reflexivity.
    - match goal with P : pct_text _ _ _ |- _ => rewrite (decoded_read _ _ tr Hw P) end. cbn [bind].
      match goal with H : reserved_float_text _ = Some _, B : (_ < _)%N |- _ => rewrite (reserved_parse64' _ _ B H) end. reflexivity.
    - match goal with P : pct_text _ _ _ |- _ => rewrite (decoded_read _ _ tr Hw P) end. cbn [bind].
      destruct b; reflexivity.
    - match goal with P : str_text _ _ ?s0 |- context [VStr ?s0] => rewrite (string_read _ _ tr P) end. reflexivity.
    - match goal with P : str_text _ _ ?s0 |- context [VBytes ?s0] => rewrite (string_read _ _ tr P) end. reflexivity.
    - match goal with P : str_text _ _ ?s0, Q : nth_error _ _ = Some ?s0 |- _ => rewrite (string_read _ _ tr P) end. cbn [bind].
      unfold enum_value.
      match goal with H : nth_error ?syms ?i = Some ?s, N : NoDup ?syms |- _ => rewrite (index_of_nth syms i s 0 N H) end. reflexivity.
    - match goal with P : str_text _ _ ?s0 |- context [VFixed ?s0] => rewrite (string_read _ _ tr P) end. cbn [bind].
      rewrite Nat.eqb_refl. reflexivity.
  Qed.
End Ror2Leaves.

(* ---- '+' in a query string is a space (and only there) ---- *)
Example plus_is_space_in_query : forall e float_text,
  ror2_denotes e float_text InQuery (TPrim PString) [x61; x2b; x62] (VStr [x61; x20; x62]).
Proof.
  intros e ft.
  assert (Hp : pct_text InQuery [x61; x2b; x62] [x61; x20; x62]).
  { apply pt_raw; [reflexivity|]. apply pt_plus; [reflexivity|]. apply pt_raw; [reflexivity | constructor]. }
  exists (RText [x61; x2b; x62]). split.
  - apply (rt_token InQuery _ [x61; x20; x62]). apply st_some; [discriminate | exact Hp].
  - apply dn_leaf; [reflexivity|]. apply rl_string. apply st_some; [discriminate | exact Hp].
Qed.

Example plus_is_plus_in_path : pct_text InPath [x61; x2b; x62] [x61; x2b; x62] /\ ~ pct_text InPath [x61; x2b; x62] [x61; x20; x62].
Proof.
  split.
  - repeat (apply pt_raw; [reflexivity|]). constructor.
  - intros H. inversion H as [| | |]; subst. match goal with P : pct_text InPath [x2b; x62] _ |- _ => inversion P; subst; discriminate end.
Qed.

(* the model's query reader on "a+b" (QueryUnescape) yields "a b" *)
Example plus_decoded_by_query_reader :
  decR [] [x2a] ps_empty 0 (fun _ _ => None) (Escape.unescape true) txt_empty_string txt_list_open true 1 (TPrim PString)
       (rinit [x61; x2b; x62] tracker0) = Ok (VStr [x61; x20; x62], done tracker0).
Proof. reflexivity. Qed.
