(* The shape of lazymap.go that D2/LazyMap.v transcribes (see harness/cmd/extract/t_lazymap.go for the codes):
   per function, the yield points and the atomic calls / returns in source order.  Re-checked against the table the
   translator regenerates from /repo on every run: moving, dropping or adding a call or a yield point breaks this lemma. *)
From Coq Require Import List.
From GR Require Import Gen.TablesLazyMap.
Import ListNotations.

Definition modelled_shape : list (list nat) :=
  [ (* LoadOrStore: new, Add, [1] map.LoadOrStore, [2] Wait, return v.v, return s, [3] f(), [4] map.Store, [5] Done, return *)
    [108; 106; 1; 101; 2; 104; 120; 120; 3; 107; 4; 103; 5; 105; 120];
    (* Load: [6] map.Load, return nil, [7] Wait, return v.v, return s *)
    [6; 102; 120; 7; 104; 120; 120];
    (* Store: m.LoadOrStore(closure: [8] stored = true; return value), [9] map.Store *)
    [111; 8; 120; 9; 103] ].

Lemma source_shape_is_modelled : v2_lazymap_shape = modelled_shape /\ root_lazymap_shape = modelled_shape.
Proof. split; reflexivity. Qed.
