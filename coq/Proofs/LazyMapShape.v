(* The shape of lazymap.go that D2/LazyMap.v transcribes (see harness/cmd/extract/t_lazymap.go for the codes):
   per function, in source order, the yield points, the atomic calls / returns, the accesses to the placeholder's result
   field v (109), type assertions (122), defer / go (130 / 131), and the form of every `if` condition and boolean flag
   assignment (140-146, followed by 1000 + the index of the variable).  Re-checked against the table the translator
   regenerates from /repo on every run: moving, dropping, adding, deferring a call or a yield point, reading the result
   field at another place, or changing what a branch tests breaks these lemmas. *)
From Coq Require Import List Arith.
From GR Require Import Gen.TablesLazyMap.
Import ListNotations.

Definition modelled_shape : list (list nat) :=
  [ (* LoadOrStore: new, Add, [1] if (_, loaded := map.LoadOrStore; loaded) { if (v, ok := <type assertion on s>; ok) { [2] Wait,
       return v.v } return s }, [3] value.v = f(), [4] map.Store(key, value.v), [5] Done, return value.v *)
    [108; 106; 1; 140; 1000; 101; 140; 1001; 122; 2; 104; 120; 109; 120; 3; 109; 107; 4; 103; 109; 5; 105; 120; 109];
    (* Load: [6] map.Load, if !ok { return nil,false }, if (v, ok' := <type assertion on s>; ok') { [7] Wait, return v.v }, return s *)
    [6; 102; 141; 1000; 120; 140; 1001; 122; 7; 104; 120; 109; 120];
    (* Store: stored := false, m.LoadOrStore(closure: [8] stored = true; return value), if !stored { [9] map.Store } *)
    [146; 1000; 111; 8; 145; 1000; 120; 141; 1000; 9; 103] ].

Lemma source_shape_is_modelled : v2_lazymap_shape = modelled_shape /\ root_lazymap_shape = modelled_shape.
Proof. split; reflexivity. Qed.

(* ---- the two facts about data and control flow that the model's steps rely on, stated on their own *)

(* what follows the first occurrence of yield point p *)
Fixpoint after_point (p : nat) (l : list nat) : list nat :=
  match l with [] => [] | x :: r => if Nat.eqb x p then r else after_point p r end.

(* A waiter (LazyMap.v: PWait q, enabled only when cdone (cells s q), returns cell_ret (cells s q), i.e. the field as
   it is AFTER Done): directly after its yield point comes the Wait call itself - not a deferred (130) or spawned
   (131) one - and only then the return statement whose operand reads the result field. *)
Definition waits_then_reads (p : nat) (fn : list nat) : Prop := firstn 3 (after_point p fn) = [104; 120; 109].

Definition shapes : list (list (list nat)) := [v2_lazymap_shape; root_lazymap_shape].

Lemma waiters_read_result_after_wait : forall sh, In sh shapes ->
  waits_then_reads 2 (nth 0 sh []) /\ waits_then_reads 7 (nth 1 sh []).
Proof. intros sh [<-|[<-|[]]]; split; reflexivity. Qed.

(* Store (LazyMap.v: a Store whose closure ran - PCall .. PDone - returns at Done WITHOUT the overwrite; a Store that
   found a value or waited for a placeholder goes to PRaw = point 9 ALWAYS, whatever the values are): the flag is
   declared false, the closure passed to m.LoadOrStore sets that same flag at yield point 8, and the overwrite at
   yield point 9 is guarded by the negation of that same flag and by nothing else. *)
Definition store_shape : list nat := [146; 1000; 111; 8; 145; 1000; 120; 141; 1000; 9; 103].

Lemma store_overwrites_iff_its_closure_did_not_run : forall sh, In sh shapes -> nth 2 sh [] = store_shape.
Proof. intros sh [<-|[<-|[]]]; reflexivity. Qed.
