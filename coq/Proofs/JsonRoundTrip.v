(* C01, JSON part: the codec round trip through the JSON writer and the JSON reader.
   J1  tree level : decJ inverts enc on the JSON tree [to_jdoc d] a document denotes, for all schemas and values; the decoded
                    value is Ror2RoundTrip.expect - the SAME value the ROR2 reader returns.
   J2  byte level : parse_json (render_json fmtF false 0 d) = Some (to_jdoc fmtF d)   (compact writer)
   J3             : the same for the pretty writer
   J4  top level  : decode_json ... (render_json fmtF pretty 0 d) = DOk (expect ...)
   Floats are external (strconv): the facts used are Section hypotheses, bundled as [json_float_oracle_ok] at the end
   (satisfiable: [json_float_oracle_consistent]).  J2-J4 need valid UTF-8 strings / keys / schema names ([doc_utf8], discharged
   from [env_utf8] [ty_utf8] [val_utf8] by [enc_doc_utf8]); without it the statement is false of the code: the writer replaces
   ill-formed bytes by U+FFFD ([json_roundtrip_full], [json_roundtrip_refuted], [json_roundtrip_full_false]). *)
From Coq Require Import List Bool Arith ZArith NArith Lia Permutation.
From Coq Require DecimalFacts DecimalPos DecimalZ.
From Coq.Strings Require Import Byte.
From GR Require Import Base.Bytes Base.Res Base.Dec Codec.Schema Codec.Doc Codec.Escape Codec.Utf8 Codec.Json Codec.Tracker
  Codec.Render Codec.Encode Codec.Decode.
From GR Require Import Gen.TablesCodec Proofs.Ror2NoPanic Proofs.ConformProofs Proofs.Ror2RoundTrip.
Import ListNotations.

(* ======================================================================================================
   UTF-8 facts
   ====================================================================================================== *)
(* decoding the first rune only looks at the rune's own bytes *)
Ltac disc := let H := fresh in intros H; discriminate H.

Lemma utf8_decode_app s rest cp w : utf8_decode s = Some (cp, w) -> utf8_decode (s ++ rest) = Some (cp, w).
Proof.
  destruct s as [|b0 r]; [disc|]. change ((b0 :: r) ++ rest) with (b0 :: (r ++ rest)). unfold utf8_decode.
  destruct (bn b0 <? 128)%N; [auto|].
  destruct (in_rng 194 223 b0).
  { destruct r as [|b1 r]; [disc|]. cbn [app]. auto. }
  destruct (in_rng 224 239 b0).
  { destruct r as [|b1 [|b2 r]]; try disc. cbn [app]. auto. }
  destruct (in_rng 240 244 b0).
  { destruct r as [|b1 [|b2 [|b3 r]]]; try disc. cbn [app]. auto. }
  disc.
Qed.

(* the width is the number of bytes looked at, between 1 and 4, and never more than what is there *)
Lemma utf8_decode_width s cp w : utf8_decode s = Some (cp, w) -> 1 <= w <= 4 /\ w <= length s.
Proof.
  destruct s as [|b0 r]; [disc|]. unfold utf8_decode.
  destruct (bn b0 <? 128)%N; [intros H; injection H as _ <-; simpl; lia|].
  destruct (in_rng 194 223 b0).
  { destruct r as [|b1 r]; [disc|]. destruct (is_cont b1); [|disc]. intros H; injection H as _ <-. simpl; lia. }
  destruct (in_rng 224 239 b0).
  { destruct r as [|b1 [|b2 r]]; try disc. match goal with |- (if ?c then _ else _) = _ -> _ => destruct c end; [|disc].
    intros H; injection H as _ <-. simpl; lia. }
  destruct (in_rng 240 244 b0).
  { destruct r as [|b1 [|b2 [|b3 r]]]; try disc. match goal with |- (if ?c then _ else _) = _ -> _ => destruct c end; [|disc].
    intros H; injection H as _ <-. simpl; lia. }
  disc.
Qed.

(* ---- WriteBytes / its inverse: one code point below 256 per byte ---- *)
Definition latin1_byte_ok (c : byte) : bool :=
  match utf8_decode (utf8_encode (bn c)) with
  | Some (cp, w) => N.eqb cp (bn c) && Nat.eqb w (length (utf8_encode (bn c)))
  | None => false
  end.
Lemma latin1_sweep : forallb latin1_byte_ok all_bytes = true.
Proof. vm_compute. reflexivity. Qed.

Lemma latin1_byte c rest :
  utf8_decode (utf8_encode (bn c) ++ rest) = Some (bn c, length (utf8_encode (bn c))).
Proof.
  pose proof (forall_bytes _ latin1_sweep c) as H. unfold latin1_byte_ok in H.
  destruct (utf8_decode (utf8_encode (bn c))) as [[cp w]|] eqn:E; [|discriminate].
  apply andb_true_iff in H as [H1 H2]. apply N.eqb_eq in H1. apply Nat.eqb_eq in H2. subst.
  apply utf8_decode_app. exact E.
Qed.

Lemma skipn_app_len {A} (a b : list A) : skipn (length a) (a ++ b) = b.
Proof. induction a; simpl; auto. Qed.
Lemma firstn_app_len {A} (a b : list A) : firstn (length a) (a ++ b) = a.
Proof. induction a; simpl; [reflexivity | f_equal; auto]. Qed.

Lemma latin1_decode_ok s : forall fuel, length s < fuel -> latin1_decode fuel (latin1_utf8 s) = Some s.
Proof.
  induction s as [|c s IH]; intros fuel Hf; (destruct fuel as [|f]; [simpl in Hf; lia|]); [reflexivity|].
  cbn [latin1_utf8 flat_map]. fold (latin1_utf8 s). cbn [latin1_decode].
  pose proof (latin1_byte c (latin1_utf8 s)) as D.
  destruct (utf8_encode (bn c) ++ latin1_utf8 s) as [|x y] eqn:E; [discriminate D|].
  rewrite D. pose proof (bn_bounded c) as B.
  replace (bn c <=? 255)%N with true by (symmetry; apply N.leb_le; lia).
  rewrite <- E, skipn_app_len, IH by (simpl in Hf; lia). cbn [option_map]. rewrite nb_bn. reflexivity.
Qed.

Theorem latin1_roundtrip s : latin1_decode (S (length (latin1_utf8 s))) (latin1_utf8 s) = Some s.
Proof.
  apply latin1_decode_ok.
  assert (H : length s <= length (latin1_utf8 s)); [|lia].
  induction s as [|c s IH]; [simpl; lia|]. cbn [latin1_utf8 flat_map]. fold (latin1_utf8 s). rewrite app_length.
  pose proof (latin1_byte c []) as D. apply utf8_decode_width in D. simpl. lia.
Qed.

(* ======================================================================================================
   J1: the tree level
   ====================================================================================================== *)
Definition is_jnull (d : jdoc) : bool := match d with JNull => true | _ => false end.

Section J1.
  Variable fmtF : bool -> N -> bytes.
  Variable parseF : nat -> bytes -> option N.
  Variable e : env.
  Variable wc : bytes.
  Variable ignore : nat.

  (* strconv facts (trusted): ParseFloat(s, 64) inverts FormatFloat(v, 'g', -1, 64) on every non-NaN double, and
     float32(ParseFloat(s, 64)) inverts FormatFloat(float64(v), 'g', -1, 64) on every non-NaN float32; both read the three
     reserved names *)
  Hypothesis parseF_64 : forall b, (b < 2 ^ 64)%N -> classify_float false b <> FNaN -> parseF 0 (float_text fmtF false b) = Some b.
  Hypothesis parseF_32 : forall b, (b < 2 ^ 32)%N -> classify_float true b <> FNaN -> parseF 2 (float_text fmtF true b) = Some b.

  Local Notation DecJ := (decJ e wc ps_empty ignore parseF).
  Local Notation DecM f := (djmix e wc ps_empty ignore parseF f).   (* the recursive calls of one step (Ror2NoPanic.decJ_unfold) *)
  Local Notation Enc := (enc e wc ps_empty).
  Local Notation J := (to_jdoc fmtF).
  Local Notation typed := (typed e).
  Local Notation expect := (expect parseF e wc ignore).
  Local Notation expect_body := (expect_body parseF e wc ignore).
  Local Notation merge := (merge parseF e wc ignore).
  Local Notation UmfJ f := (umfJ e (DecM f)).

  Lemma J_leaf l : J (DLeaf l) = jleaf fmtF l.
  Proof. reflexivity. Qed.
  Lemma J_arr ds : J (DArr ds) = JArr (map J ds).
  Proof. reflexivity. Qed.
  Definition jent (kd : bytes * doc) : bytes * jdoc := (fst kd, J (snd kd)).
  Lemma J_obj ents : J (DObj ents) = JObj (map jent ents).
  Proof. unfold to_jdoc. rewrite view_obj. reflexivity. Qed.
  Lemma J_nonnull d : is_jnull (J d) = false.
  Proof.
    destruct d as [l|ds|ents]; [|reflexivity|rewrite J_obj; reflexivity].
    rewrite J_leaf. destruct l as [z|is32 b|b|s|s]; cbn [jleaf]; try reflexivity. destruct (classify_float is32 b); reflexivity.
  Qed.

  (* ---- primitives ---- *)
  Theorem jprim_ok p v : typed (TPrim p) v -> jprim parseF p (jleaf fmtF (prim_leaf v)) = Ok v.
  Proof.
    intros Ht. inversion Ht; subst; cbn [prim_leaf jleaf jprim].
    - unfold in_i32 in H0. apply andb_true_iff in H0 as [A B]. apply Z.leb_le in A, B. rewrite parse_print_i32 by lia. reflexivity.
    - unfold in_i64 in H0. apply andb_true_iff in H0 as [A B]. apply Z.leb_le in A, B. rewrite parse_print_i64 by lia. reflexivity.
    - pose proof (parseF_32 b H0 H1) as P. unfold float_text in P.
      destruct (classify_float true b); cbn [jprim]; rewrite P; reflexivity.
    - pose proof (parseF_64 b H0 H1) as P. unfold float_text in P.
      destruct (classify_float false b); cbn [jprim]; rewrite P; reflexivity.
    - reflexivity.
    - reflexivity.
    - rewrite latin1_roundtrip. reflexivity.
  Qed.

  (* ---- the loops of decJ (Ror2NoPanic.stepJ) on non-null entries ---- *)
  Section Loops.
    Variable DJ : bool -> ty -> jdoc -> tracker -> res (value * tracker).

    Lemma goJarr_cons t' x r i acc tr :
      goJarr DJ t' (x :: r) i acc tr =
      do rr <- DJ false t' x (enter_array i tr); let '(v, tr') := rr in goJarr DJ t' r (S i) (v :: acc) (pop tr').
    Proof. reflexivity. Qed.

    Lemma goJmap_cons t' k x r acc tr : is_jnull x = false ->
      goJmap wc ps_empty ignore DJ t' ((k, x) :: r) acc tr =
      do rr <- DJ false t' x (push (SKey k) tr);
      let '(v, tr2) := rr in goJmap wc ps_empty ignore DJ t' r (map_put k v acc) (pop tr2).
    Proof. intros H. destruct x; try discriminate; cbn [goJmap]; rewrite enter_map_ok; reflexivity. Qed.

    Lemma goJrec_cons n k x r rv rem tr : is_jnull x = false ->
      goJrec e wc ps_empty ignore DJ n ((k, x) :: r) rv rem tr =
      do u <- umfJ e DJ (S (length e)) n k x rv (push (SKey k) tr);
      let '(_, rv', tr2) := u in goJrec e wc ps_empty ignore DJ n r rv' (remove_bytes k rem) (pop tr2).
    Proof. intros H. destruct x; try discriminate; cbn [goJrec]; rewrite enter_map_ok; reflexivity. Qed.

    Lemma goJuni_cons ms k x r uv tr j alias mt : is_jnull x = false ->
      index_of k (map fst ms) 0 = Some j -> nth_error ms j = Some (alias, mt) ->
      goJuni wc ps_empty ignore DJ ms ((k, x) :: r) uv false tr =
      do rr <- DJ false mt x (push (SKey k) tr);
      let '(v, tr2) := rr in goJuni wc ps_empty ignore DJ ms r (set_nth j (Some v) uv) true (pop tr2).
    Proof. intros H Hi Hn. destruct x; try discriminate; cbn [goJuni]; rewrite enter_map_ok; cbn [bind]; rewrite Hi, Hn; reflexivity. Qed.

    (* an element decoder that inverts the tree of d and leaves the tracker alone *)
    Definition elemJ (dec : jdoc -> tracker -> res (value * tracker)) (x : value) (d : doc) : Prop :=
      forall tr, dec (J d) tr = Ok (x, tr).

    Lemma goJarr_ok t' : forall xs ds, Forall2 (elemJ (DJ false t')) xs ds ->
      forall i acc tr, goJarr DJ t' (map J ds) i acc tr = Ok (VArr (rev acc ++ xs), tr).
    Proof.
      induction 1 as [|x d xs ds Hx HF IH]; intros i acc tr.
      - cbn [map goJarr]. rewrite app_nil_r. reflexivity.
      - cbn [map]. rewrite goJarr_cons, Hx. cbn [bind]. unfold enter_array. rewrite pop_push, IH.
        cbn [rev]. rewrite <- app_assoc. reflexivity.
    Qed.

    Lemma goJmap_ok t' : forall xs ents, Forall2 (entry_rel (elemJ (DJ false t'))) xs ents ->
      forall acc tr, NoDup (map fst acc ++ map fst xs) ->
      goJmap wc ps_empty ignore DJ t' (map jent ents) acc tr = Ok (VMap (sort_entries (acc ++ xs)), tr).
    Proof.
      induction 1 as [|[kx x] [kd d] xs ents [Hk Hx] HF IH]; intros acc tr Hnd.
      - cbn [map goJmap]. rewrite app_nil_r. reflexivity.
      - cbn [fst snd] in Hk, Hx. subst kd. cbn [map]. change (jent (kx, d)) with (kx, J d).
        assert (Hfresh : ~ In kx (map fst acc)).
        { cbn [map fst] in Hnd. apply NoDup_remove_2 in Hnd. intros Hin. apply Hnd. apply in_or_app. left. exact Hin. }
        assert (Hnd' : NoDup (map fst (acc ++ [(kx, x)]) ++ map fst xs)).
        { rewrite map_app. cbn [map fst]. rewrite <- app_assoc. exact Hnd. }
        rewrite goJmap_cons by apply J_nonnull. rewrite Hx. cbn [bind]. rewrite pop_push, (map_put_fresh _ _ _ Hfresh).
        rewrite (IH _ _ Hnd'), <- app_assoc. reflexivity.
    Qed.
  End Loops.

  (* ---- UnmarshalField on the partially decoded record (Ror2RoundTrip.merge) ---- *)
  Definition try_incsJ (rec : nat -> value -> res (bool * value * tracker)) :=
    fix try_incs (is : list nat) (vs : list value) (pos : nat) : res (option (nat * value * tracker)) :=
      match is, vs with
      | i :: is', iv :: vs' =>
          do r <- rec i iv;
          let '(found, iv', tr') := r in
          if found then Ok (Some (pos, iv', tr')) else try_incs is' vs' (S pos)
      | _, _ => Ok None
      end.

  Lemma umfJ_S DJ k' n key jd rv tr :
    umfJ e DJ (S k') n key jd rv tr =
    match lookup e n, rv with
    | Some (DRecord incs fs), VRec ivs fvs =>
        do hit <- try_incsJ (fun i iv => umfJ e DJ k' i key jd iv tr) incs ivs 0;
        match hit with
        | Some (pos, iv', tr') => Ok (true, VRec (set_nth pos iv' ivs) fvs, tr')
        | None =>
            match index_of key (map f_name fs) 0 with
            | Some j =>
                match nth_error fs j with
                | Some fd => do r <- DJ false (f_ty fd) jd tr; let '(v, tr') := r in Ok (true, VRec ivs (set_nth j (Some v) fvs), tr')
                | None => Err EType
                end
            | None => Ok (false, rv, tr)
            end
        end
    | _, _ => Err EType
    end.
  Proof. reflexivity. Qed.

  Section UmfJ.
    Variable DJ : bool -> ty -> jdoc -> tracker -> res (value * tracker).
    Variable f : nat.
    Variable done : list bytes.
    Variable key : bytes.
    Variable jd : jdoc.
    Variable tr : tracker.

    Lemma umfJ_notfound : forall k n zv tv,
      rec_closed e k n -> zok e k n zv -> typed (TRef n) tv -> ~ In key (names e k n) ->
      umfJ e DJ k n key jd (merge f done k n zv tv) tr = Ok (false, merge f done k n zv tv, tr).
    Proof.
      induction k as [|k IH]; intros n zv tv Hc Hz Ht Hn; [destruct Hc|].
      cbn [rec_closed zok names] in Hc, Hz, Hn.
      destruct (lookup e n) as [[incs fs|? ?]|] eqn:Hl; try contradiction.
      destruct (typed_rec_inv _ _ _ _ _ Ht Hl) as (ti & tf & -> & Hti & Htf).
      destruct zv as [| | | | | | | | |zi zf| | |]; try (exact (False_ind _ Hz)). destruct Hz as [Hzf Hzi].
      rewrite umfJ_S. cbn [Ror2RoundTrip.merge]. rewrite Hl.
      assert (Hinc : forall pos, try_incsJ (fun i iv => umfJ e DJ k i key jd iv tr) incs (map3 (merge f done k) incs zi ti) pos = Ok None).
      { assert (Hn' : ~ In key (flat_map (names e k) incs)) by (intro; apply Hn, in_or_app; auto).
        clear Hn Hl Hzf Htf Ht. revert zi ti Hzi Hti.
        induction incs as [|i incs IHi]; intros zi ti Hzi Hti pos; [reflexivity|].
        inversion Hzi; subst. inversion Hti; subst. inversion Hc; subst.
        cbn [map3 try_incsJ]. cbn [flat_map] in Hn'.
        rewrite IH; [|assumption|assumption|assumption|intro; apply Hn', in_or_app; auto]. cbn [bind].
        apply IHi; [assumption|intro; apply Hn', in_or_app; auto|assumption|assumption]. }
      rewrite Hinc. cbn [bind]. rewrite index_of_none; [reflexivity|]. intro. apply Hn, in_or_app. auto.
    Qed.

    Variable ty0 : ty.
    Variable x0 : value.
    Variable tr' : tracker.
    Hypothesis dec_ok : DJ false ty0 jd tr = Ok (expect x0 f ty0, tr').

    Lemma umfJ_found : forall k n zv tv,
      rec_closed e k n -> zok e k n zv -> typed (TRef n) tv -> NoDup (names e k n) ->
      In (key, (ty0, x0)) (slots e k n tv) ->
      umfJ e DJ k n key jd (merge f done k n zv tv) tr = Ok (true, merge f (key :: done) k n zv tv, tr').
    Proof.
      induction k as [|k IH]; intros n zv tv Hc Hz Ht Hnd Hin; [destruct Hc|].
      cbn [rec_closed zok names slots] in Hc, Hz, Hnd, Hin.
      destruct (lookup e n) as [[incs fs|? ?]|] eqn:Hl; try contradiction.
      destruct (typed_rec_inv _ _ _ _ _ Ht Hl) as (ti & tf & -> & Hti & Htf).
      destruct zv as [| | | | | | | | |zi zf| | |]; try (exact (False_ind _ Hz)). destruct Hz as [Hzf Hzi].
      rewrite umfJ_S. cbn [Ror2RoundTrip.merge]. rewrite Hl.
      pose proof (NoDup_app_l _ _ Hnd) as HndI. pose proof (NoDup_app_r _ _ Hnd) as HndO.
      apply in_app_or in Hin as [Hin|Hin].
      - (* the field belongs to an included record *)
        assert (Hinc : forall pos, exists j iv',
                  try_incsJ (fun i iv => umfJ e DJ k i key jd iv tr) incs (map3 (merge f done k) incs zi ti) pos = Ok (Some (pos + j, iv', tr'))
                  /\ set_nth j iv' (map3 (merge f done k) incs zi ti) = map3 (merge f (key :: done) k) incs zi ti).
        { clear Hnd HndO Hl Hzf Htf Ht. revert zi ti Hzi Hti Hin.
          induction incs as [|i incs IHi]; intros zi ti Hzi Hti Hin pos; [destruct Hin|].
          inversion Hzi as [|? z0 ? zi' Hz0 Hzi']; subst. inversion Hti as [|? t0 ? ti' Ht0 Hti']; subst.
          inversion Hc as [|? ? Hc0 Hc']; subst.
          cbn [flat_map] in HndI. cbn [inc_slots] in Hin. cbn [map3 try_incsJ].
          apply in_app_or in Hin as [Hin|Hin].
          + exists 0. eexists. rewrite (IH i z0 t0 Hc0 Hz0 Ht0 (NoDup_app_l _ _ HndI) Hin).
            cbn [bind]. split; [rewrite Nat.add_0_r; reflexivity|]. cbn [set_nth]. f_equal.
            apply map3_ext_in. intros i' Hi' b c. symmetry. apply merge_skip. intros Hk.
            apply (NoDup_app_disj _ _ key HndI); [eapply slots_names, Hin | apply in_flat_map; exists i'; auto].
          + assert (Hk : In key (flat_map (names e k) incs)).
            { destruct (inc_slots_in _ _ _ _ Hin) as (i' & v' & Hi' & Hs). apply in_flat_map. exists i'. split; [exact Hi'|].
              eapply slots_names, Hs. }
            assert (Hnk : ~ In key (names e k i)) by (intro; eapply (NoDup_app_disj _ _ key HndI); eassumption).
            rewrite (umfJ_notfound k i z0 t0 Hc0 Hz0 Ht0 Hnk). cbn [bind].
            destruct (IHi Hc' (NoDup_app_r _ _ HndI) zi' ti' Hzi' Hti' Hin (S pos)) as (j & iv' & Htry & Hset).
            exists (S j), iv'. split; [rewrite Htry; replace (S pos + j) with (pos + S j) by lia; reflexivity|]. cbn [set_nth]. rewrite Hset.
            f_equal. symmetry. apply merge_skip, Hnk. }
        destruct (Hinc 0) as (j & iv' & Htry & Hset). rewrite Htry. cbn [bind Nat.add]. rewrite Hset.
        replace (map3 (merge_fld parseF e wc ignore f (key :: done)) fs zf tf) with (map3 (merge_fld parseF e wc ignore f done) fs zf tf); [reflexivity|].
        apply map3_ext_in. intros fd Hfd b c. unfold merge_fld. rewrite done_in_cons.
        destruct (bytes_eqb (f_name fd) key) eqn:E; [|reflexivity]. apply bytes_eqb_eq in E. exfalso.
        apply (NoDup_app_disj _ _ key Hnd); [|rewrite <- E; apply in_map, Hfd].
        destruct (inc_slots_in _ _ _ _ Hin) as (i' & v' & Hi' & Hs). apply in_flat_map. exists i'. split; [exact Hi'|].
        eapply slots_names, Hs.
      - (* an own field *)
        assert (Hnk : ~ In key (flat_map (names e k) incs)).
        { intro Hk. apply (NoDup_app_disj _ _ key Hnd Hk). eapply own_slots_names, Hin. }
        assert (Hinc : forall pos, try_incsJ (fun i iv => umfJ e DJ k i key jd iv tr) incs (map3 (merge f done k) incs zi ti) pos = Ok None).
        { clear Hnd HndI HndO Hl Hzf Htf Hin Ht. revert zi ti Hzi Hti.
          induction incs as [|i incs IHi]; intros zi ti Hzi Hti pos; [reflexivity|].
          inversion Hzi; subst. inversion Hti; subst. inversion Hc; subst.
          cbn [map3 try_incsJ]. cbn [flat_map] in Hnk.
          rewrite umfJ_notfound; [|assumption|assumption|assumption|intro; apply Hnk, in_or_app; auto]. cbn [bind].
          apply IHi; [assumption|intro; apply Hnk, in_or_app; auto|assumption|assumption]. }
        rewrite Hinc. cbn [bind].
        assert (Hlen : length zf = length fs) by (symmetry; eapply Forall2_len, Hzf).
        destruct (own_found parseF e wc ignore f done key ty0 x0 fs zf tf 0 Hin HndO Hlen) as (j & fd & Hi & Hn & Hty & Hset).
        cbn [Nat.add] in Hi. rewrite Hi, Hn, Hty, dec_ok. cbn [bind]. rewrite Hset.
        replace (map3 (merge f (key :: done) k) incs zi ti) with (map3 (merge f done k) incs zi ti); [reflexivity|].
        apply map3_ext_in. intros i' Hi' b c. symmetry. apply merge_skip. intro Hk. apply Hnk, in_flat_map. exists i'. auto.
    Qed.
  End UmfJ.

  (* ---- the record loop ---- *)
  Section RecLoopJ.
    Variable DJ : bool -> ty -> jdoc -> tracker -> res (value * tracker).
    Variables (f K n : nat) (zv tv : value).
    Hypothesis HK : K = S (length e).
    Hypothesis Hc : rec_closed e K n.
    Hypothesis Hz : zok e K n zv.
    Hypothesis Ht : typed (TRef n) tv.
    Hypothesis Hnd : NoDup (names e K n).

    Definition slotJ (tx : ty * value) (d : doc) : Prop := elemJ (DJ false (fst tx)) (expect (snd tx) f (fst tx)) d.

    Lemma goJrec_ok : forall sl ents, Forall2 (entry_rel slotJ) sl ents ->
      (forall key ty x, In (key, (ty, x)) sl -> In (key, (ty, x)) (slots e K n tv)) ->
      forall done rv0 rem tr, rv0 = merge f done K n zv tv ->
      goJrec e wc ps_empty ignore DJ n (map jent ents) rv0 rem tr
      = Ok (merge f (rev (map fst sl) ++ done) K n zv tv, fold_left (fun r key => remove_bytes key r) (map fst sl) rem, tr).
    Proof.
      induction 1 as [|[key [ty x]] [kd d] sl ents [Hk Hx] HF IH]; intros Hsub done rv0 rem tr ->.
      - reflexivity.
      - cbn [fst snd] in Hk, Hx. subst kd. unfold slotJ in Hx. cbn [fst snd] in Hx.
        assert (Hin : In (key, (ty, x)) (slots e K n tv)) by (apply Hsub; left; reflexivity).
        assert (Hsub' : forall key ty x, In (key, (ty, x)) sl -> In (key, (ty, x)) (slots e K n tv)).
        { intros. apply Hsub. right. assumption. }
        cbn [map]. change (jent (key, d)) with (key, J d). rewrite goJrec_cons by apply J_nonnull. rewrite <- HK.
        rewrite (umfJ_found DJ f done key (J d) _ ty x _ (Hx _) K n zv tv Hc Hz Ht Hnd Hin).
        cbn [bind]. rewrite pop_push.
        rewrite (IH Hsub' (key :: done) _ (remove_bytes key rem) tr eq_refl).
        cbn [map fst rev fold_left]. rewrite <- app_assoc. reflexivity.
    Qed.
  End RecLoopJ.

  (* ---- the theorem, by induction on the encoder's fuel ---- *)
  Definition MtJ (top : bool) (tr : tracker) : Prop := top = false \/ t_missing tr = [].

  Definition RTJ (fe : nat) : Prop :=
    forall scope t v d, wf_ty t -> typed t v -> Enc fe scope t v = Ok d ->
    forall fd top tr, vsize v <= fd -> MtJ top tr ->
    DecJ fd top t (J d) tr = Ok (expect v fd t, tr).
  Definition RTJs (fe : nat) : Prop := forall fe', fe' <= fe -> RTJ fe'.

  Lemma RTJ_elem fe t' f v d : RTJ fe -> wf_ty t' -> typed t' v -> enc_any e wc fe t' v d -> vsize v <= f ->
    elemJ (DecJ f false t') (expect v f t') d.
  Proof. intros H Hp Ht [sc He] Hs tr. apply (H sc t' v d Hp Ht He f false tr Hs). left. reflexivity. Qed.

  Lemma fillS_eq f fs vs : fill_defaultsS (DecM f) fs vs = fill_ parseF e wc ignore f fs vs.
  Proof. revert vs. induction fs as [|fd fs IH]; intros [|ov vs]; cbn [fill_defaultsS fill_]; try reflexivity; rewrite IH; reflexivity. Qed.

  Hypothesis Hwf : wf_env e.

  Lemma caseJ_prim fe scope p v d : typed (TPrim p) v -> Enc (S fe) scope (TPrim p) v = Ok d ->
    forall fd top tr, vsize v <= fd -> DecJ fd top (TPrim p) (J d) tr = Ok (expect v fd (TPrim p), tr).
  Proof.
    intros Ht He fd top tr Hs. pose proof (vsize_pos v). destruct fd as [|f]; [lia|].
    assert (Hd : d = DLeaf (prim_leaf v)) by (inversion Ht; subst; cbn in He; injection He as <-; reflexivity).
    subst d. rewrite decJ_unfold. cbn [stepJ]. rewrite J_leaf, (jprim_ok p v Ht). inversion Ht; reflexivity.
  Qed.

  Lemma caseJ_enum fe scope syms v d : wf_ty (TEnum syms) -> typed (TEnum syms) v -> Enc (S fe) scope (TEnum syms) v = Ok d ->
    forall fd top tr, vsize v <= fd -> DecJ fd top (TEnum syms) (J d) tr = Ok (expect v fd (TEnum syms), tr).
  Proof.
    intros Hp Ht He fd top tr Hs. pose proof (vsize_pos v). destruct fd as [|f]; [lia|].
    inversion Ht; subst. cbn in He. destruct k as [|i]; [discriminate|].
    destruct (nth_error syms i) as [s|] eqn:En; [|discriminate]. injection He as <-.
    rewrite decJ_unfold. cbn [stepJ]. rewrite J_leaf. cbn [jleaf jstring bind].
    unfold enum_value. rewrite (index_of_nth syms Hp i s 0 En). reflexivity.
  Qed.

  Lemma caseJ_fixed fe scope n v d : typed (TFixed n) v -> Enc (S fe) scope (TFixed n) v = Ok d ->
    forall fd top tr, vsize v <= fd -> DecJ fd top (TFixed n) (J d) tr = Ok (expect v fd (TFixed n), tr).
  Proof.
    intros Ht He fd top tr Hs. pose proof (vsize_pos v). destruct fd as [|f]; [lia|].
    inversion Ht; subst. cbn in He. injection He as <-.
    rewrite decJ_unfold. cbn [stepJ]. rewrite J_leaf. cbn [jleaf jprim]. rewrite latin1_roundtrip. cbn [bind].
    rewrite Nat.eqb_refl. reflexivity.
  Qed.

  Lemma caseJ_arr fe scope t' v d : RTJ fe -> wf_ty (TArray t') -> typed (TArray t') v -> Enc (S fe) scope (TArray t') v = Ok d ->
    forall fd top tr, vsize v <= fd -> DecJ fd top (TArray t') (J d) tr = Ok (expect v fd (TArray t'), tr).
  Proof.
    intros HRT Hp Ht He fd top tr Hs. inversion Ht as [| | | | | | | | |? l Hall| | |]; subst.
    destruct fd as [|f]; [simpl in Hs; lia|]. cbn [vsize] in Hs.
    rewrite enc_arr in He. destruct (mapM _ l) as [ds| |] eqn:Em; try discriminate. cbn [bind] in He. injection He as <-.
    apply mapM_Forall2 in Em.
    rewrite decJ_unfold. cbn [stepJ]. rewrite J_arr, expect_arr.
    rewrite (goJarr_ok (DecM f) t' (map (fun x => expect x f t') l) ds); [reflexivity|].
    apply Forall2_map_l. eapply Forall2_impl_in; [|exact Em]. intros a b Hin Hab. cbv beta in Hab.
    apply (RTJ_elem fe); [exact HRT | exact Hp | rewrite Forall_forall in Hall; apply Hall, Hin | eexists; exact Hab |].
    pose proof (list_sum_in (fun x => S (vsize x)) l a Hin). cbv beta in *. lia.
  Qed.

  Lemma caseJ_map fe scope t' v d : RTJ fe -> wf_ty (TMap t') -> typed (TMap t') v -> Enc (S fe) scope (TMap t') v = Ok d ->
    forall fd top tr, vsize v <= fd -> DecJ fd top (TMap t') (J d) tr = Ok (expect v fd (TMap t'), tr).
  Proof.
    intros HRT Hp Ht He fd top tr Hs. inversion Ht as [| | | | | | | | | |? es Hnd Hall| |]; subst.
    destruct fd as [|f]; [simpl in Hs; lia|]. cbn [vsize] in Hs.
    rewrite enc_map in He. destruct (enc_map_go e wc fe scope t' es) as [ents| |] eqn:Eg; try discriminate.
    cbn [bind] in He. injection He as <-.
    apply enc_map_go_rel in Eg. apply sort_entries_rel in Eg.
    set (gsz := fun kv : bytes * value => let '(_, x) := kv in S (vsize x)) in *.
    rewrite decJ_unfold. cbn [stepJ]. rewrite J_obj, expect_map.
    set (X := fun x => expect x f t').
    rewrite (goJmap_ok (DecM f) t' (map (map_val X) (sort_entries es)) (sort_entries ents)).
    - cbn [app]. rewrite sort_entries_map, sort_entries_idem; [reflexivity|]. rewrite map_val_keys. exact Hnd.
    - apply Forall2_map_l. eapply Forall2_impl_in; [|exact Eg]. intros [k x] [k' d'] Hin [Hk Hab]. cbn [fst snd] in *.
      split; [exact Hk|]. cbn [map_val snd].
      assert (Hin' : In (k, x) es) by (eapply Permutation_in; [apply sort_entries_perm | exact Hin]).
      apply (RTJ_elem fe); [exact HRT | exact Hp | rewrite Forall_forall in Hall; apply (Hall _ Hin') | exact Hab |].
      pose proof (list_sum_in gsz es (k, x) Hin'). cbn in H. lia.
    - cbn [map app]. rewrite map_val_keys. apply sort_entries_keys_nodup, Hnd.
  Qed.

  Lemma caseJ_union fe scope n vs d : RTJ fe -> typed (TRef n) (VUnion vs) ->
    Enc (S fe) scope (TRef n) (VUnion vs) = Ok d ->
    forall fd top tr, vsize (VUnion vs) <= fd -> DecJ fd top (TRef n) (J d) tr = Ok (expect (VUnion vs) fd (TRef n), tr).
  Proof.
    intros HRT Ht He fd top tr Hs. inversion Ht as [| | | | | | | | | | | |? nullable ms ? Hl HF]; subst.
    destruct fd as [|f]; [simpl in Hs; lia|]. cbn [vsize] in Hs.
    destruct (proj2 Hwf _ _ _ Hl) as [Hnd HPm].
    rewrite enc_union, Hl in He. destruct (enc_union_go e wc fe scope ms vs false) as [[ents b]| |] eqn:Eg; try discriminate.
    cbn [bind fst snd] in He. destruct (negb nullable && negb b) eqn:En; [discriminate|]. injection He as <-.
    rewrite decJ_unfold. cbn [stepJ]. rewrite Hl, J_obj, (expect_union parseF e wc ignore vs f n nullable ms Hl). cbn [bind].
    destruct (enc_union_go_unset _ _ _ _ _ _ _ Eg) as [[E1 ->]|(j & alias & mt & x & d & Hn & -> & Hed & E1)];
      injection E1 as -> ->.
    - cbn [sort_entries map goJuni bind]. rewrite En, expect_union_nones. reflexivity.
    - cbn [sort_entries insert_entry map]. change (jent (alias, d)) with (alias, J d).
      assert (Hj : j < length (nones ms)).
      { unfold nones. rewrite map_length. apply nth_error_Some. rewrite Hn. discriminate. }
      assert (Hvx : nth_error (set_nth j (Some x) (nones ms)) j = Some (Some x)) by (apply nth_error_set_nth, Hj).
      pose proof (Forall2_nth _ _ _ _ _ _ HF Hn Hvx x eq_refl) as Htx. cbn [snd] in Htx.
      assert (Hpm : wf_ty mt). { rewrite Forall_forall in HPm. apply (HPm (alias, mt)). eapply nth_error_In, Hn. }
      assert (Hsz : vsize x <= f).
      { pose proof (list_sum_in (osize vsize) _ _ (nth_error_In _ _ Hvx)) as A. cbn [osize] in A. lia. }
      assert (Hi : index_of alias (map fst ms) 0 = Some j).
      { rewrite (index_of_nth _ Hnd j alias 0); [reflexivity|]. rewrite (map_nth_error fst j ms Hn). reflexivity. }
      rewrite (goJuni_cons (DecM f) ms alias (J d) [] _ tr j alias mt (J_nonnull d) Hi Hn).
      rewrite djmix_false, (HRT _ mt x d Hpm Htx Hed f false _ Hsz (or_introl eq_refl)).
      cbn [bind goJuni]. rewrite pop_push. rewrite andb_false_r.
      rewrite (expect_union_set parseF e wc ignore f ms j (alias, mt) x Hn). reflexivity.
  Qed.

  Lemma caseJ_rec fe scope n vi vf d : RTJs fe -> typed (TRef n) (VRec vi vf) ->
    Enc (S fe) scope (TRef n) (VRec vi vf) = Ok d ->
    forall fd top tr, vsize (VRec vi vf) <= fd -> MtJ top tr ->
    DecJ fd top (TRef n) (J d) tr = Ok (expect (VRec vi vf) fd (TRef n), tr).
  Proof.
    intros HRT Ht He fd top tr Hs Hm.
    inversion Ht as [| | | | | | | | | | |? incs fs ? ? Hl Hti Htf|]; subst.
    destruct fd as [|f]; [simpl in Hs; lia|].
    destruct (proj1 Hwf _ _ _ Hl) as (Hc & Hnd & HPr). remember (S (length e)) as K eqn:EK.
    destruct (enc_slots e wc K fe n _ scope d Hc Ht He) as (ents & L & -> & Hp & HF).
    destruct (Forall2_perm _ _ _ (Permutation_sym Hp) _ HF) as (sl & Hps & HFs).
    assert (Hsub : forall key ty x, In (key, (ty, x)) sl -> In (key, (ty, x)) (slots e K n (VRec vi vf))).
    { intros. eapply Permutation_in; [apply Permutation_sym, Hps | assumption]. }
    assert (Hok : Forall2 (entry_rel (slotJ (DecM f) f)) sl ents).
    { eapply Forall2_impl_in; [|exact HFs]. intros [key [ty x]] [kd dd] Hin [Hk (fe' & sc & Hle & Hee)]. cbn [fst snd] in *.
      split; [exact Hk|]. unfold slotJ; cbn [fst snd]. apply Hsub in Hin.
      destruct (slots_typed _ _ _ _ K n _ Ht Hin) as [Htx (m & mi & mf & fd0 & Hlm & Hfd & Hty)].
      assert (Hpt : wf_ty ty).
      { subst ty. destruct (proj1 Hwf _ _ _ Hlm) as (_ & _ & A). rewrite Forall_forall in A. apply A, Hfd. }
      pose proof (slots_vsize _ _ _ _ K n _ Hin) as Hsz.
      apply (RTJ_elem fe'); [apply HRT, Hle | exact Hpt | exact Htx | exists sc; exact Hee | lia]. }
    assert (Hz : zok e K n (zero_value e (S K) (TRef n))) by (apply zero_value_zok; [lia | exact Hc]).
    rewrite decJ_unfold. cbn [stepJ]. rewrite Hl, J_obj. cbn [bind]. rewrite <- EK.
    rewrite (goJrec_ok (DecM f) f K n _ (VRec vi vf) EK Hc Hz Ht Hnd sl ents Hok Hsub [] _ _ tr
               (eq_sym (merge_nil parseF e wc ignore f K n _ _ Hc Hz Ht))).
    cbn [bind].
    rewrite remove_all.
    2:{ intros y Hy. destruct (req_slots e y K n _ Ht Hy) as (ty & x & Hin).
        apply (Permutation_in _ Hps) in Hin. apply (in_map fst) in Hin. exact Hin. }
    rewrite record_missing_nil. cbv zeta.
    rewrite (merge_all parseF e wc ignore f _ K n _ _ Hc Hz Ht).
    2:{ intros key ty x Hin. apply done_in_true. rewrite app_nil_r. apply -> in_rev.
        apply (Permutation_in _ Hps) in Hin. apply (in_map fst) in Hin. exact Hin. }
    rewrite (expect_body_rec parseF e wc ignore f n incs fs vi vf Hl), (expect_rec parseF e wc ignore f n incs fs vi vf Hl).
    assert (Hr : top && negb (match t_missing tr with [] => true | _ :: _ => false end) = false).
    { destruct Hm as [-> | Hmiss]; [reflexivity | rewrite Hmiss; apply andb_false_r]. }
    rewrite Hr. cbn [orb]. rewrite fillS_eq. destruct (own_has_default fs); reflexivity.
  Qed.

  Theorem rtJ : forall fe, RTJs fe.
  Proof.
    induction fe as [|fe IH]; intros fe' Hle.
    - replace fe' with 0 by lia. intros scope t v d Hp Ht He. cbn in He. discriminate.
    - destruct (Nat.eq_dec fe' (S fe)) as [->|Hne]; [|apply IH; lia].
      intros scope t v d Hp Ht He fd top tr Hs Hm.
      destruct t as [p|syms|n|n|t'|t'].
      + eapply caseJ_prim; eassumption.
      + eapply caseJ_enum; eassumption.
      + eapply caseJ_fixed; eassumption.
      + inversion Ht; subst.
        * eapply caseJ_rec; eassumption.
        * eapply caseJ_union; try eassumption. apply IH. lia.
      + eapply caseJ_arr; try eassumption. apply IH. lia.
      + eapply caseJ_map; try eassumption. apply IH. lia.
  Qed.

  (* J1, general form: any position (top or not), any tracker whose missing list is empty at the top *)
  Theorem json_tree_roundtrip fe scope t v d fd top tr :
    wf_ty t -> typed t v -> Enc fe scope t v = Ok d -> vsize v <= fd -> (top = false \/ t_missing tr = []) ->
    DecJ fd top t (J d) tr = Ok (expect v fd t, tr).
  Proof. intros Hwt Ht He Hs Hm. exact (rtJ fe fe (le_n _) scope t v d Hwt Ht He fd top tr Hs Hm). Qed.
End J1.

(* ======================================================================================================
   J2 / J3: the byte level.  Lexical lemmas first.
   ====================================================================================================== *)
(* ---- whitespace ---- *)
Lemma skip_ws_app w s : forallb is_ws w = true -> skip_ws (w ++ s) = skip_ws s.
Proof.
  induction w as [|c w IH]; intros H; [reflexivity|]. cbn [forallb] in H. apply andb_true_iff in H as [Hc Hw].
  cbn [app skip_ws]. rewrite Hc. apply IH, Hw.
Qed.
Lemma skip_ws_id c r : is_ws c = false -> skip_ws (c :: r) = c :: r.
Proof. intros H. cbn [skip_ws]. rewrite H. reflexivity. Qed.
Lemma spaces_ws n : forallb is_ws (spaces n) = true.
Proof. induction n as [|n IH]; [reflexivity|]. cbn [spaces forallb]. rewrite IH. reflexivity. Qed.
Lemma ws_app a b : forallb is_ws a = true -> forallb is_ws b = true -> forallb is_ws (a ++ b) = true.
Proof. intros Ha Hb. rewrite forallb_app, Ha, Hb. reflexivity. Qed.

(* ---- the string parser, one step at a time ---- *)
Lemma psb_S f c r : parse_string_body (S f) (c :: r) =
  if Byte.eqb c x22 then Some ([], r)
  else if Byte.eqb c x5c then parse_string_body (S f) (x5c :: r)
  else if (bn c <? 32)%N then None
  else match parse_string_body f r with Some (t, u) => Some (c :: t, u) | None => None end.
Proof.
  cbn [parse_string_body]. destruct (Byte.eqb c x22); [reflexivity|].
  destruct (Byte.eqb c x5c) eqn:E; [|reflexivity]. apply byte_eqb_eq in E. subst c. reflexivity.
Qed.

Definition esc_char (e : byte) : option byte :=
  let n := bn e in
  if (n =? 34)%N then Some x22 else if (n =? 92)%N then Some x5c else if (n =? 47)%N then Some x2f
  else if (n =? 98)%N then Some x08 else if (n =? 102)%N then Some x0c else if (n =? 110)%N then Some x0a
  else if (n =? 114)%N then Some x0d else if (n =? 116)%N then Some x09 else None.

Lemma psb_simple f e b T : esc_char e = Some b ->
  parse_string_body (S f) (x5c :: e :: T) = match parse_string_body f T with Some (t, u) => Some (b :: t, u) | None => None end.
Proof.
  unfold esc_char. cbv zeta. intros H.
  change (parse_string_body (S f) (x5c :: e :: T)) with
    (let simple (b : byte) := match parse_string_body f T with Some (t, u) => Some (b :: t, u) | None => None end in
     let n := bn e in
     if (n =? 34)%N then simple x22 else if (n =? 92)%N then simple x5c else if (n =? 47)%N then simple x2f
     else if (n =? 98)%N then simple x08 else if (n =? 102)%N then simple x0c else if (n =? 110)%N then simple x0a
     else if (n =? 114)%N then simple x0d else if (n =? 116)%N then simple x09
     else if (n =? 117)%N then
       match hex4 T with
       | None => None
       | Some (u1, r2) =>
           let pair :=
             if ((55296 <=? u1) && (u1 <=? 56319))%N then
               match r2 with
               | b1 :: b2 :: r3 =>
                   if Byte.eqb b1 x5c && Byte.eqb b2 x75 then
                     match hex4 r3 with
                     | Some (u2, r4) =>
                         if ((56320 <=? u2) && (u2 <=? 57343))%N
                         then Some ((65536 + (u1 - 55296) * 1024 + (u2 - 56320))%N, r4) else None
                     | None => None
                     end
                   else None
               | _ => None
               end
             else None in
           let '(cp, rest) := match pair with Some (cp, r4) => (cp, r4) | None => (u1, r2) end in
           match parse_string_body f rest with
           | Some (t, u) => Some (utf8_encode cp ++ t, u)
           | None => None
           end
       end
     else None).
  cbv zeta.
  repeat (match goal with |- context [if ?c then _ else _] => destruct c; [injection H as <-; reflexivity|] end).
  discriminate H.
Qed.

Lemma psb_u f T u a b c d : hex4 (a :: b :: c :: d :: T) = Some (u, T) -> (u < 55296)%N ->
  parse_string_body (S f) (x5c :: x75 :: a :: b :: c :: d :: T) =
  match parse_string_body f T with Some (t, v) => Some (utf8_encode u ++ t, v) | None => None end.
Proof.
  intros H Hu.
  change (parse_string_body (S f) (x5c :: x75 :: a :: b :: c :: d :: T)) with
    (match hex4 (a :: b :: c :: d :: T) with
     | None => None
     | Some (u1, r2) =>
         let pair :=
           if ((55296 <=? u1) && (u1 <=? 56319))%N then
             match r2 with
             | b1 :: b2 :: r3 =>
                 if Byte.eqb b1 x5c && Byte.eqb b2 x75 then
                   match hex4 r3 with
                   | Some (u2, r4) =>
                       if ((56320 <=? u2) && (u2 <=? 57343))%N
                       then Some ((65536 + (u1 - 55296) * 1024 + (u2 - 56320))%N, r4) else None
                   | None => None
                   end
                 else None
             | _ => None
             end
           else None in
         let '(cp, rest) := match pair with Some (cp, r4) => (cp, r4) | None => (u1, r2) end in
         match parse_string_body f rest with
         | Some (t, u) => Some (utf8_encode cp ++ t, u)
         | None => None
         end
     end).
  rewrite H. cbv zeta. replace (55296 <=? u)%N with false by (symmetry; apply N.leb_gt; exact Hu). reflexivity.
Qed.

Lemma hex4_tail a b c d T : hex4 (a :: b :: c :: d :: T) =
  match hex4 [a; b; c; d] with Some (u, _) => Some (u, T) | None => None end.
Proof. unfold hex4. destruct (unhex a), (unhex b), (unhex c), (unhex d); reflexivity. Qed.

(* ---- the escaper's table against the parser, byte by byte (ASCII) ---- *)
Definition ascii_ok (c : byte) : bool :=
  implb (bn c <? 128)%N
    (let e := json_escape_ascii c in
     (bytes_eqb e [c] && negb (Byte.eqb c x22) && negb (Byte.eqb c x5c) && negb (bn c <? 32)%N)
     || match e with
        | [a; b] => Byte.eqb a x5c && match esc_char b with Some c' => Byte.eqb c' c | None => false end
        | _ => false
        end
     || match e with
        | [a; b; p; q; h; l] =>
            Byte.eqb a x5c && Byte.eqb b x75 &&
            match hex4 [p; q; h; l] with Some (u, _) => N.eqb u (bn c) | None => false end &&
            bytes_eqb (utf8_encode (bn c)) [c]
        | _ => false
        end).
Lemma ascii_sweep : forallb ascii_ok all_bytes = true.
Proof. vm_compute. reflexivity. Qed.

Lemma ascii_step c : (bn c < 128)%N -> forall f T,
  parse_string_body (S f) (json_escape_ascii c ++ T) =
  match parse_string_body f T with Some (t, u) => Some (c :: t, u) | None => None end.
Proof.
  intros Hc f T. pose proof (forall_bytes _ ascii_sweep c) as H. unfold ascii_ok in H.
  replace (bn c <? 128)%N with true in H by (symmetry; apply N.ltb_lt; exact Hc). cbn [implb] in H. cbv zeta in H.
  apply orb_true_iff in H as [H|H]; [apply orb_true_iff in H as [H|H]|].
  - apply andb_true_iff in H as [H H4]. apply andb_true_iff in H as [H H3]. apply andb_true_iff in H as [H1 H2].
    apply bytes_eqb_eq in H1. rewrite H1. cbn [app]. rewrite psb_S.
    apply negb_true_iff in H2, H3, H4. rewrite H2, H3, H4. reflexivity.
  - destruct (json_escape_ascii c) as [|a [|b [|]]]; try discriminate H.
    apply andb_true_iff in H as [H1 H2]. apply byte_eqb_eq in H1. subst a.
    destruct (esc_char b) as [c'|] eqn:E; [|discriminate H2]. apply byte_eqb_eq in H2. subst c'.
    cbn [app]. apply psb_simple. exact E.
  - destruct (json_escape_ascii c) as [|a [|b [|p [|q [|h [|l [|]]]]]]]; try discriminate H.
    apply andb_true_iff in H as [H H4]. apply andb_true_iff in H as [H H3]. apply andb_true_iff in H as [H1 H2].
    apply byte_eqb_eq in H1, H2. subst a b. apply bytes_eqb_eq in H4.
    destruct (hex4 [p; q; h; l]) as [[u r0]|] eqn:E; [|discriminate H3]. apply N.eqb_eq in H3. subst u.
    cbn [app]. rewrite (psb_u f T (bn c) p q h l); [rewrite H4; reflexivity| |lia].
    rewrite hex4_tail, E. reflexivity.
Qed.

Definition esc_nonempty_ok (c : byte) : bool := match json_escape_ascii c with [] => false | _ => true end.
Lemma esc_nonempty_sweep : forallb esc_nonempty_ok all_bytes = true.
Proof. vm_compute. reflexivity. Qed.
Lemma esc_len c : 1 <= length (json_escape_ascii c).
Proof.
  pose proof (forall_bytes _ esc_nonempty_sweep c) as H. unfold esc_nonempty_ok in H.
  destruct (json_escape_ascii c); [discriminate|simpl; lia].
Qed.

(* ---- bytes >= 0x80 are copied by the parser ---- *)
Definition hi_ok (c : byte) : bool :=
  implb (128 <=? bn c)%N (negb (Byte.eqb c x22) && negb (Byte.eqb c x5c) && negb (bn c <? 32)%N).
Lemma hi_sweep : forallb hi_ok all_bytes = true.
Proof. vm_compute. reflexivity. Qed.

Lemma psb_raw f c r : (128 <= bn c)%N ->
  parse_string_body (S f) (c :: r) = match parse_string_body f r with Some (t, u) => Some (c :: t, u) | None => None end.
Proof.
  intros Hc. pose proof (forall_bytes _ hi_sweep c) as H. unfold hi_ok in H.
  replace (128 <=? bn c)%N with true in H by (symmetry; apply N.leb_le; exact Hc). cbn [implb] in H.
  apply andb_true_iff in H as [H H3]. apply andb_true_iff in H as [H1 H2]. apply negb_true_iff in H1, H2, H3.
  rewrite psb_S, H1, H2, H3. reflexivity.
Qed.

Lemma psb_raws p : Forall (fun b => (128 <= bn b)%N) p -> forall f T,
  parse_string_body (length p + f) (p ++ T) =
  match parse_string_body f T with Some (t, u) => Some (p ++ t, u) | None => None end.
Proof.
  induction 1 as [|b p Hb Hp IH]; intros f T; [cbn [length app Nat.add]; destruct (parse_string_body f T) as [[t u]|]; reflexivity|].
  cbn [length app Nat.add]. rewrite (psb_raw _ _ _ Hb), IH. destruct (parse_string_body f T) as [[t u]|]; reflexivity.
Qed.

(* ---- a well-formed multi-byte rune consists of bytes >= 0x80 ---- *)
Lemma in_rng_ge lo hi b : (128 <= lo)%N -> in_rng lo hi b = true -> (128 <= bn b)%N.
Proof. unfold in_rng. intros Hl H. apply andb_true_iff in H as [H _]. apply N.leb_le in H. lia. Qed.
Lemma is_cont_ge b : is_cont b = true -> (128 <= bn b)%N.
Proof. unfold is_cont. intros H. apply andb_true_iff in H as [H _]. apply N.leb_le in H. lia. Qed.

Lemma utf8_decode_hi b0 r cp w : utf8_decode (b0 :: r) = Some (cp, w) -> (bn b0 <? 128)%N = false ->
  Forall (fun b => (128 <= bn b)%N) (firstn w (b0 :: r)).
Proof.
  intros H H0. apply N.ltb_ge in H0 as Hge. unfold utf8_decode in H. rewrite H0 in H.
  destruct (in_rng 194 223 b0).
  { destruct r as [|b1 r]; [discriminate|]. destruct (is_cont b1) eqn:E1; [|discriminate]. injection H as _ <-.
    cbn [firstn]. repeat constructor; [exact Hge | apply is_cont_ge, E1]. }
  destruct (in_rng 224 239 b0).
  { destruct r as [|b1 [|b2 r]]; try discriminate.
    match type of H with (if ?c then _ else _) = _ => destruct c eqn:E end; [|discriminate]. injection H as _ <-.
    apply andb_true_iff in E as [E1 E2]. cbn [firstn]. repeat constructor; [exact Hge| |apply is_cont_ge, E2].
    destruct (bn b0 =? 224)%N; [eapply in_rng_ge; [|exact E1]; lia|].
    destruct (bn b0 =? 237)%N; [eapply in_rng_ge; [|exact E1]; lia|]. apply is_cont_ge, E1. }
  destruct (in_rng 240 244 b0).
  { destruct r as [|b1 [|b2 [|b3 r]]]; try discriminate.
    match type of H with (if ?c then _ else _) = _ => destruct c eqn:E end; [|discriminate]. injection H as _ <-.
    apply andb_true_iff in E as [E E3]. apply andb_true_iff in E as [E1 E2].
    cbn [firstn]. repeat constructor; [exact Hge| |apply is_cont_ge, E2|apply is_cont_ge, E3].
    destruct (bn b0 =? 240)%N; [eapply in_rng_ge; [|exact E1]; lia|].
    destruct (bn b0 =? 244)%N; [eapply in_rng_ge; [|exact E1]; lia|]. apply is_cont_ge, E1. }
  discriminate.
Qed.

(* ---- U+2028 / U+2029: the only multi-byte runes the writer escapes; the parser re-encodes them ---- *)
Lemma in_rng_bounds lo hi b : in_rng lo hi b = true -> (lo <= bn b <= hi)%N.
Proof. unfold in_rng. intros H. apply andb_true_iff in H as [A B]. apply N.leb_le in A, B. lia. Qed.
Lemma is_cont_bounds b : is_cont b = true -> (128 <= bn b <= 191)%N.
Proof. unfold is_cont. intros H. apply andb_true_iff in H as [A B]. apply N.leb_le in A, B. lia. Qed.

Lemma utf8_decode_ls s cp w : utf8_decode s = Some (cp, w) -> cp = 8232%N \/ cp = 8233%N -> firstn w s = utf8_encode cp.
Proof.
  destruct s as [|b0 r]; [discriminate|]. unfold utf8_decode.
  destruct (bn b0 <? 128)%N eqn:E0.
  { intros H Hc. injection H as <- _. apply N.ltb_lt in E0. lia. }
  destruct (in_rng 194 223 b0) eqn:R2.
  { destruct r as [|b1 r]; [discriminate|]. destruct (is_cont b1) eqn:E1; [|discriminate]. intros H Hc. injection H as <- _.
    apply in_rng_bounds in R2. apply is_cont_bounds in E1. lia. }
  destruct (in_rng 224 239 b0) eqn:R3.
  { destruct r as [|b1 [|b2 r]]; try discriminate.
    match goal with |- (if ?c then _ else _) = _ -> _ => destruct c eqn:E end; [|discriminate]. intros H Hc. injection H as <- <-.
    apply andb_true_iff in E as [E1 E2]. apply in_rng_bounds in R3. apply is_cont_bounds in E2.
    assert (B1 : (128 <= bn b1 <= 191)%N).
    { destruct (bn b0 =? 224)%N; [apply in_rng_bounds in E1; lia|].
      destruct (bn b0 =? 237)%N; [apply in_rng_bounds in E1; lia|]. apply is_cont_bounds, E1. }
    assert (A0 : bn b0 = 226%N) by lia. assert (A1 : bn b1 = 128%N) by lia.
    assert (X0 : b0 = xe2) by (apply bn_inj; rewrite A0; reflexivity).
    assert (X1 : b1 = x80) by (apply bn_inj; rewrite A1; reflexivity).
    destruct Hc as [Hc|Hc].
    - assert (A2 : bn b2 = 168%N) by lia. assert (X2 : b2 = xa8) by (apply bn_inj; rewrite A2; reflexivity).
      rewrite Hc. subst b0 b1 b2. reflexivity.
    - assert (A2 : bn b2 = 169%N) by lia. assert (X2 : b2 = xa9) by (apply bn_inj; rewrite A2; reflexivity).
      rewrite Hc. subst b0 b1 b2. reflexivity. }
  destruct (in_rng 240 244 b0) eqn:R4.
  { destruct r as [|b1 [|b2 [|b3 r]]]; try discriminate.
    match goal with |- (if ?c then _ else _) = _ -> _ => destruct c eqn:E end; [|discriminate]. intros H Hc. injection H as <- _.
    apply andb_true_iff in E as [E E3]. apply andb_true_iff in E as [E1 E2].
    apply in_rng_bounds in R4. apply is_cont_bounds in E2, E3. exfalso.
    destruct (bn b0 =? 240)%N eqn:Q.
    - apply N.eqb_eq in Q. apply in_rng_bounds in E1. lia.
    - apply N.eqb_neq in Q. lia. }
  discriminate.
Qed.

Lemma hex4_202 h T : hex4 (x32 :: x30 :: x32 :: h :: T) =
  match unhex h with Some w => Some ((2 * 4096 + 0 * 256 + 2 * 16 + w)%N, T) | None => None end.
Proof. reflexivity. Qed.

(* ---- the string body: the parser inverts the escaper on valid UTF-8 ---- *)
Lemma str_body_ok : forall fv s, valid_utf8_fuel fv s = true -> forall fw fp rest, length s < fw -> length s < fp ->
  parse_string_body fp (json_str_body fw s ++ x22 :: rest) = Some (s, rest) /\ length s <= length (json_str_body fw s).
Proof.
  induction fv as [|fv IH]; intros s Hv; [discriminate|]. cbn [valid_utf8_fuel] in Hv.
  destruct s as [|c r]; intros fw fp rest Hfw Hfp; (destruct fw as [|fw]; [simpl in Hfw; lia|]); (destruct fp as [|fp]; [simpl in Hfp; lia|]).
  - cbn [json_str_body app]. split; [reflexivity | simpl; lia].
  - destruct (utf8_decode (c :: r)) as [[cp w]|] eqn:Ed; [|discriminate]. cbn [json_str_body]. cbn [length] in Hfw, Hfp.
    destruct (bn c <? 128)%N eqn:Ec.
    + assert (Hw : w = 1) by (unfold utf8_decode in Ed; rewrite Ec in Ed; injection Ed as _ <-; reflexivity).
      subst w. cbn [skipn] in Hv. destruct (IH r Hv fw fp rest ltac:(lia) ltac:(lia)) as [A B].
      rewrite <- app_assoc, ascii_step by (apply N.ltb_lt; exact Ec). rewrite A. split; [reflexivity|].
      rewrite app_length. pose proof (esc_len c). simpl. lia.
    + rewrite Ed. pose proof (utf8_decode_width _ _ _ Ed) as [Hw1 Hw2]. cbn [length] in Hw2.
      assert (Hsk : length (skipn w (c :: r)) = S (length r) - w) by (rewrite skipn_length; reflexivity).
      destruct ((cp =? 8232) || (cp =? 8233))%N eqn:E28.
      * assert (Hcp : cp = 8232%N \/ cp = 8233%N).
        { apply orb_true_iff in E28 as [E|E]; apply N.eqb_eq in E; auto. }
        destruct (IH _ Hv fw fp rest ltac:(lia) ltac:(lia)) as [A B].
        pose proof (utf8_decode_ls _ _ _ Ed Hcp) as Hls.
        split.
        -- cbn [app].
           assert (Hh : hex4 (x32 :: x30 :: x32 :: hex_digit jhex (cp mod 16) :: json_str_body fw (skipn w (c :: r)) ++ x22 :: rest)
                        = Some (cp, json_str_body fw (skipn w (c :: r)) ++ x22 :: rest)).
           { rewrite hex4_202. destruct Hcp as [-> | ->]; reflexivity. }
           rewrite (psb_u fp _ cp _ _ _ _ Hh) by (destruct Hcp as [-> | ->]; reflexivity).
           rewrite A, <- Hls, firstn_skipn. reflexivity.
        -- rewrite app_length. cbn [length]. lia.
      * destruct (IH _ Hv fw (S fp - w) rest ltac:(lia) ltac:(lia)) as [A B].
        pose proof (utf8_decode_hi _ _ _ _ Ed Ec) as Hhi.
        assert (Hlen : length (firstn w (c :: r)) = w) by (apply firstn_length_le; simpl; lia).
        split.
        -- rewrite <- app_assoc. replace (S fp) with (length (firstn w (c :: r)) + (S fp - w)) by lia.
           rewrite (psb_raws _ Hhi), A, firstn_skipn. reflexivity.
        -- rewrite app_length, Hlen. cbn [length]. lia.
Qed.

Theorem json_string_parses s rest : valid_utf8 s = true ->
  parse_string_body (S (length (json_str_body (S (length s)) s ++ x22 :: rest))) (json_str_body (S (length s)) s ++ x22 :: rest)
  = Some (s, rest).
Proof.
  intros Hv. unfold valid_utf8 in Hv.
  destruct (str_body_ok _ _ Hv (S (length s)) (S (length s)) rest ltac:(lia) ltac:(lia)) as [_ B].
  apply (str_body_ok _ _ Hv); [lia|]. rewrite app_length. lia.
Qed.

(* the UTF-8 the writer produces for bytes / fixed values is valid *)
Lemma latin1_len s : length s <= length (latin1_utf8 s).
Proof.
  induction s as [|c s IH]; [simpl; lia|]. cbn [latin1_utf8 flat_map]. fold (latin1_utf8 s). rewrite app_length.
  pose proof (latin1_byte c []) as D. apply utf8_decode_width in D. simpl. lia.
Qed.
Lemma latin1_valid_fuel s : forall f, length s < f -> valid_utf8_fuel f (latin1_utf8 s) = true.
Proof.
  induction s as [|c s IH]; intros f Hf; (destruct f as [|f]; [simpl in Hf; lia|]); [reflexivity|].
  cbn [latin1_utf8 flat_map]. fold (latin1_utf8 s). cbn [valid_utf8_fuel].
  pose proof (latin1_byte c (latin1_utf8 s)) as D.
  destruct (utf8_encode (bn c) ++ latin1_utf8 s) as [|x y] eqn:E; [discriminate D|].
  rewrite D, <- E, skipn_app_len. apply IH. simpl in Hf. lia.
Qed.
Lemma latin1_valid s : valid_utf8 (latin1_utf8 s) = true.
Proof. unfold valid_utf8. apply latin1_valid_fuel. pose proof (latin1_len s). lia. Qed.

(* ---- numbers: the text of an integer is a JSON number that the strict parser reads back entirely ---- *)
Lemma take_digits_app ds rest : forallb is_digit ds = true ->
  match rest with c :: _ => is_digit c = false | [] => True end -> take_digits (ds ++ rest) = (ds, rest).
Proof.
  induction ds as [|d ds IH]; intros Hd Hr.
  - cbn [app]. destruct rest as [|c r]; [reflexivity|]. cbn [take_digits]. rewrite Hr. reflexivity.
  - cbn [forallb] in Hd. apply andb_true_iff in Hd as [H1 H2]. cbn [app take_digits]. rewrite H1, (IH H2 Hr). reflexivity.
Qed.

Lemma uint_bytes_digit u : forallb is_digit (uint_bytes u) = true.
Proof. induction u; cbn [uint_bytes forallb]; try reflexivity; rewrite IHu; reflexivity. Qed.

Definition lead_ok (u : Decimal.uint) : Prop := match u with Decimal.D0 r => r = Decimal.Nil | _ => True end.

Lemma lead_ok_bytes u : lead_ok u ->
  match uint_bytes u with d0 :: _ :: _ => Byte.eqb d0 x30 = false | _ => True end.
Proof.
  destruct u as [|r|r|r|r|r|r|r|r|r|r]; cbn [uint_bytes lead_ok]; intros H; try exact I;
    try (destruct (uint_bytes r); [exact I | reflexivity]).
  subst r. exact I.
Qed.

Lemma nzhead_fix_lead u : Decimal.nzhead u = u -> lead_ok u.
Proof.
  destruct u as [|r|r|r|r|r|r|r|r|r|r]; cbn [lead_ok]; try (intros; exact I).
  cbn [Decimal.nzhead]. intros H. pose proof (DecimalFacts.nb_digits_nzhead r) as L. rewrite H in L. cbn [Decimal.nb_digits] in L. lia.
Qed.

Lemma unorm_fix_lead u : Decimal.unorm u = u -> lead_ok u.
Proof.
  destruct u as [|r|r|r|r|r|r|r|r|r|r]; cbn [lead_ok]; try (intros; exact I).
  rewrite DecimalFacts.unorm_D0. intros H. destruct r as [|r|r|r|r|r|r|r|r|r|r]; [reflexivity| | | | | | | | | |];
    match type of H with Decimal.unorm ?x = _ =>
      assert (N0 : x <> Decimal.Nil) by discriminate; pose proof (DecimalFacts.nb_digits_unorm x N0) as L; rewrite H in L;
      cbn [Decimal.nb_digits] in L; lia end.
Qed.

Lemma to_int_norm z : Decimal.norm (Z.to_int z) = Z.to_int z.
Proof. rewrite <- (DecimalZ.to_of (Z.to_int z)), DecimalZ.of_to. reflexivity. Qed.

Lemma digit_not_minus d : is_digit d = true -> Byte.eqb d x2d = false.
Proof. intros H. destruct (Byte.eqb d x2d) eqn:E; [|reflexivity]. apply byte_eqb_eq in E. subst d. discriminate H. Qed.

Lemma parse_number_digits (neg : bool) ds rest : forallb is_digit ds = true -> ds <> [] ->
  match ds with d0 :: _ :: _ => Byte.eqb d0 x30 = false | _ => True end -> ends_number rest ->
  parse_number ((if neg then [x2d] else []) ++ ds ++ rest) = Some ((if neg then [x2d] else []) ++ ds, rest).
Proof.
  intros Hd Hn Hl He. destruct ds as [|d0 dr]; [congruence|].
  assert (Hd0 : is_digit d0 = true) by (cbn [forallb] in Hd; apply andb_true_iff in Hd as [A _]; exact A).
  assert (Hr : match rest with c :: _ => is_digit c = false | [] => True end).
  { destruct rest as [|c r]; [exact I|]. destruct He as [A _]. exact A. }
  assert (Hsign : parse_number ((if neg then [x2d] else []) ++ (d0 :: dr) ++ rest) =
                  let '(ip, s2) := take_digits ((d0 :: dr) ++ rest) in
                  match ip with
                  | [] => None
                  | d0 :: dr =>
                      if Byte.eqb d0 x30 && negb (match dr with [] => true | _ => false end) then None
                      else
                        let frac := match s2 with
                                    | c :: r => if Byte.eqb c x2e then
                                                  let '(fp, s3) := take_digits r in
                                                  match fp with [] => None | _ => Some (c :: fp, s3) end
                                                else Some ([], s2)
                                    | [] => Some ([], [])
                                    end in
                        match frac with
                        | None => None
                        | Some (fp, s3) =>
                            let ex := match s3 with
                                      | c :: r =>
                                          if Byte.eqb c x65 || Byte.eqb c x45 then
                                            let '(sg, r') := match r with
                                                             | c2 :: r2 => if Byte.eqb c2 x2b || Byte.eqb c2 x2d then ([c2], r2) else ([], r)
                                                             | [] => ([], [])
                                                             end in
                                            let '(ep, s4) := take_digits r' in
                                            match ep with [] => None | _ => Some (c :: sg ++ ep, s4) end
                                          else Some ([], s3)
                                      | [] => Some ([], [])
                                      end in
                            match ex with
                            | None => None
                            | Some (ep, s4) => Some ((if neg then [x2d] else []) ++ ip ++ fp ++ ep, s4)
                            end
                        end
                  end).
  { destruct neg; cbn [app]; unfold parse_number.
    - reflexivity.
    - rewrite (digit_not_minus _ Hd0). reflexivity. }
  rewrite Hsign, (take_digits_app _ _ Hd Hr). cbv zeta.
  assert (Hz : Byte.eqb d0 x30 && negb (match dr with [] => true | _ => false end) = false).
  { destruct dr; [apply andb_false_r | rewrite Hl; reflexivity]. }
  rewrite Hz. destruct rest as [|c r].
  - rewrite !app_nil_r. reflexivity.
  - destruct He as (_ & B & C & D). rewrite B, C, D. cbn [orb]. rewrite !app_nil_r. reflexivity.
Qed.

Theorem print_dec_number z : json_number_ok (print_dec z).
Proof.
  intros rest He. unfold print_dec. pose proof (to_int_norm z) as Hn.
  destruct (Z.to_int z) as [u|u] eqn:E.
  - cbn [Decimal.norm] in Hn. injection Hn as Hn.
    assert (Hnn : uint_bytes u <> []).
    { intros A. apply uint_bytes_nil in A. subst u. destruct z; cbn in E; try discriminate;
        injection E as E; eapply to_uint_nonnil; exact E. }
    exact (parse_number_digits false _ rest (uint_bytes_digit u) Hnn (lead_ok_bytes _ (unorm_fix_lead _ Hn)) He).
  - cbn [Decimal.norm] in Hn.
    assert (Hz : Decimal.nzhead u = u) by (destruct (Decimal.nzhead u); try discriminate; injection Hn as Hn; exact Hn).
    assert (Hnn : uint_bytes u <> []).
    { intros A. apply uint_bytes_nil in A. subst u. discriminate Hn. }
    exact (parse_number_digits true _ rest (uint_bytes_digit u) Hnn (lead_ok_bytes _ (nzhead_fix_lead _ Hz)) He).
Qed.

(* the first byte of a number is '-' or a digit *)
Lemma parse_number_head c r x : parse_number (c :: r) = Some x -> Byte.eqb c x2d = true \/ is_digit c = true.
Proof.
  intros H. destruct (Byte.eqb c x2d) eqn:E; [left; reflexivity|]. right.
  unfold parse_number in H. rewrite E in H. cbn [take_digits] in H. destruct (is_digit c); [reflexivity|]. discriminate H.
Qed.

Lemma json_number_ok_nonempty t : json_number_ok t -> t <> [].
Proof. intros H E. subst t. specialize (H [] I). discriminate H. Qed.

(* ======================================================================================================
   J2 / J3: parse_value against render_json (compact and pretty)
   ====================================================================================================== *)
(* ---- parse_value, one level, with its two loops as top-level definitions ---- *)
Definition pv_members (pv : bytes -> option (jdoc * bytes)) :=
  fix members (k : nat) (s : bytes) (acc : list (bytes * jdoc)) : option (jdoc * bytes) :=
    match k with
    | 0 => None
    | S k' =>
        match skip_ws s with
        | q :: s1 =>
            if Byte.eqb q x22 then
              match parse_string_body (S (length s1)) s1 with
              | Some (key, s2) =>
                  match skip_ws s2 with
                  | col :: s3 =>
                      if Byte.eqb col x3a then
                        match pv s3 with
                        | Some (v, s4) =>
                            match skip_ws s4 with
                            | d :: s5 =>
                                if Byte.eqb d x2c then members k' s5 (acc ++ [(key, v)])
                                else if Byte.eqb d x7d then Some (JObj (acc ++ [(key, v)]), s5)
                                else None
                            | [] => None
                            end
                        | None => None
                        end
                      else None
                  | [] => None
                  end
              | None => None
              end
            else None
        | [] => None
        end
    end.

Definition pv_items (pv : bytes -> option (jdoc * bytes)) :=
  fix items (k : nat) (s : bytes) (acc : list jdoc) : option (jdoc * bytes) :=
    match k with
    | 0 => None
    | S k' =>
        match pv s with
        | Some (v, s1) =>
            match skip_ws s1 with
            | d :: s2 =>
                if Byte.eqb d x2c then items k' s2 (acc ++ [v])
                else if Byte.eqb d x5d then Some (JArr (acc ++ [v]), s2)
                else None
            | [] => None
            end
        | None => None
        end
    end.

Definition pv_body (f : nat) (s : bytes) : option (jdoc * bytes) :=
  match s with
  | [] => None
  | c :: r =>
      if Byte.eqb c x22 then
        match parse_string_body (S (length r)) r with Some (t, u) => Some (JStr t, u) | None => None end
      else if Byte.eqb c x7b then
        let r := skip_ws r in
        match r with
        | c2 :: r2 => if Byte.eqb c2 x7d then Some (JObj [], r2) else pv_members (parse_value f) f r []
        | [] => None
        end
      else if Byte.eqb c x5b then
        let r := skip_ws r in
        match r with
        | c2 :: r2 => if Byte.eqb c2 x5d then Some (JArr [], r2) else pv_items (parse_value f) f r []
        | [] => None
        end
      else match strip_prefix lit_true s with
           | Some u => Some (JBool true, u)
           | None =>
               match strip_prefix lit_false s with
               | Some u => Some (JBool false, u)
               | None =>
                   match strip_prefix lit_null s with
                   | Some u => Some (JNull, u)
                   | None => match parse_number s with Some (t, u) => Some (JNum t, u) | None => None end
                   end
               end
           end
  end.

Lemma parse_value_S f s : parse_value (S f) s = pv_body f (skip_ws s).
Proof. reflexivity. Qed.

Lemma parse_value_ws fuel w s : forallb is_ws w = true -> parse_value fuel (w ++ s) = parse_value fuel s.
Proof. intros H. destruct fuel as [|f]; [reflexivity|]. rewrite !parse_value_S, skip_ws_app by exact H. reflexivity. Qed.

(* ---- heads: what a rendering begins with ---- *)
Definition num_head_ok (c : byte) : bool :=
  implb (Byte.eqb c x2d || is_digit c)
    (negb (is_ws c) && negb (Byte.eqb c x22) && negb (Byte.eqb c x7b) && negb (Byte.eqb c x5b)
     && negb (Byte.eqb x74 c) && negb (Byte.eqb x66 c) && negb (Byte.eqb x6e c) && negb (Byte.eqb c x5d) && negb (Byte.eqb c x7d)
     && negb (Byte.eqb c x6e)).
Lemma num_head_sweep : forallb num_head_ok all_bytes = true.
Proof. vm_compute. reflexivity. Qed.

Definition ws_ends_ok (c : byte) : bool :=
  implb (is_ws c) (negb (is_digit c) && negb (Byte.eqb c x2e) && negb (Byte.eqb c x65) && negb (Byte.eqb c x45)).
Lemma ws_ends_sweep : forallb ws_ends_ok all_bytes = true.
Proof. vm_compute. reflexivity. Qed.

Lemma ends_number_ws w c r : forallb is_ws w = true -> ends_number (c :: r) -> ends_number (w ++ c :: r).
Proof.
  destruct w as [|a w]; intros Hw He; [exact He|]. cbn [forallb] in Hw. apply andb_true_iff in Hw as [Ha _].
  pose proof (forall_bytes _ ws_ends_sweep a) as H. unfold ws_ends_ok in H. rewrite Ha in H. cbn [implb] in H.
  apply andb_true_iff in H as [H H4]. apply andb_true_iff in H as [H H3]. apply andb_true_iff in H as [H1 H2].
  apply negb_true_iff in H1, H2, H3, H4. cbn [app ends_number]. auto.
Qed.

(* a number text t followed by something that cannot continue it *)
Lemma pv_number f t rest : parse_number (t ++ rest) = Some (t, rest) -> t <> [] ->
  skip_ws (t ++ rest) = t ++ rest /\ pv_body f (t ++ rest) = Some (JNum t, rest).
Proof.
  intros Hp Hn. destruct t as [|c t]; [congruence|]. cbn [app] in *.
  pose proof (parse_number_head _ _ _ Hp) as Hh.
  pose proof (forall_bytes _ num_head_sweep c) as H. unfold num_head_ok in H.
  replace (Byte.eqb c x2d || is_digit c) with true in H by (symmetry; apply orb_true_iff; exact Hh). cbn [implb] in H.
  repeat (apply andb_true_iff in H as [H ?]). repeat match goal with X : negb _ = true |- _ => apply negb_true_iff in X end.
  split; [apply skip_ws_id; assumption|].
  unfold pv_body. repeat match goal with X : Byte.eqb c _ = false |- _ => rewrite X end.
  unfold lit_true, lit_false, lit_null. cbn [strip_prefix].
  repeat match goal with X : Byte.eqb _ c = false |- _ => rewrite X end.
  rewrite Hp. reflexivity.
Qed.

Lemma pv_string f s rest : valid_utf8 s = true ->
  skip_ws (json_string s ++ rest) = json_string s ++ rest /\ pv_body f (json_string s ++ rest) = Some (JStr s, rest).
Proof.
  intros Hv. unfold json_string. cbn [app]. split; [reflexivity|]. unfold pv_body.
  change (Byte.eqb x22 x22) with true. cbv iota. rewrite <- app_assoc. cbn [app].
  rewrite (json_string_parses s rest Hv). reflexivity.
Qed.

(* ---- the size of a document: enough fuel for parse_value ---- *)
Fixpoint dsize (d : doc) : nat :=
  match d with
  | DLeaf _ => 1
  | DArr items => S ((fix go (l : list doc) : nat := match l with [] => 0 | x :: r => dsize x + go r end) items)
  | DObj ents => S ((fix go (l : list (bytes * doc)) : nat := match l with [] => 0 | (_, x) :: r => dsize x + go r end) ents)
  end.
Lemma dsize_arr items : dsize (DArr items) = S (list_sum (map dsize items)).
Proof. cbn [dsize]. f_equal. induction items as [|x r IH]; [reflexivity|]. cbn [map list_sum]. rewrite IH. reflexivity. Qed.
Lemma dsize_obj ents : dsize (DObj ents) = S (list_sum (map (fun kd => dsize (snd kd)) ents)).
Proof. cbn [dsize]. f_equal. induction ents as [|[k x] r IH]; [reflexivity|]. cbn [map list_sum snd]. rewrite IH. reflexivity. Qed.
Lemma dsize_pos d : 1 <= dsize d.
Proof. destruct d; cbn [dsize]; lia. Qed.

Lemma Forall2_map_r_id {A B} (P : A -> B -> Prop) (g : A -> B) l : (forall a, In a l -> P a (g a)) -> Forall2 P l (map g l).
Proof. induction l as [|a l IH]; intros H; cbn [map]; constructor; [apply H; left; reflexivity | apply IH; intros; apply H; right; assumption]. Qed.

Section Bytes.
  Variable fmtF : bool -> N -> bytes.
  (* strconv fact (trusted): the text of a finite float is a JSON number *)
  Hypothesis fmtF_number : forall is32 b, classify_float is32 b = FFinite -> json_number_ok (fmtF is32 b).

  Local Notation J := (to_jdoc fmtF).
  Local Notation R := (render_json fmtF).

  (* ---- rendering equations, uniform in the writer ---- *)
  Definition sep_open (pretty : bool) (depth : nat) : bytes := if pretty then nl ++ spaces (S depth) else [].
  Definition sep_close (pretty : bool) (depth : nat) : bytes := if pretty then nl ++ spaces depth else [].
  Definition obj_open (pretty : bool) : bytes := if pretty then nl else [].
  Definition key_pre (pretty : bool) (depth : nat) : bytes := if pretty then spaces (S depth) else [].
  Definition val_pre (pretty : bool) : bytes := if pretty then [x20] else [].
  Definition member (pretty : bool) (depth : nat) (kd : bytes * doc) : bytes :=
    key_pre pretty depth ++ json_string (fst kd) ++ [x3a] ++ val_pre pretty ++ R pretty (S depth) (snd kd).

  Lemma sep_open_ws p d : forallb is_ws (sep_open p d) = true.
  Proof. destruct p; [apply ws_app; [reflexivity | apply spaces_ws] | reflexivity]. Qed.
  Lemma sep_close_ws p d : forallb is_ws (sep_close p d) = true.
  Proof. destruct p; [apply ws_app; [reflexivity | apply spaces_ws] | reflexivity]. Qed.
  Lemma obj_open_ws p : forallb is_ws (obj_open p) = true.
  Proof. destruct p; reflexivity. Qed.
  Lemma key_pre_ws p d : forallb is_ws (key_pre p d) = true.
  Proof. destruct p; [apply spaces_ws | reflexivity]. Qed.
  Lemma val_pre_ws p : forallb is_ws (val_pre p) = true.
  Proof. destruct p; reflexivity. Qed.

  Lemma render_arr pretty depth x items :
    R pretty depth (DArr (x :: items)) =
    [x5b] ++ sep_open pretty depth ++ join_bytes (x2c :: sep_open pretty depth) (map (R pretty (S depth)) (x :: items))
      ++ sep_close pretty depth ++ [x5d].
  Proof.
    assert (H : forall l, (fix go (l : list doc) : list bytes :=
                             match l with [] => [] | x :: r => R pretty (S depth) x :: go r end) l = map (R pretty (S depth)) l).
    { induction l as [|y r IH]; [reflexivity|]. cbn [map]. rewrite <- IH. reflexivity. }
    cbn [render_json]. rewrite H. destruct pretty; unfold sep_open, sep_close; cbn [app]; rewrite <- ?app_assoc; reflexivity.
  Qed.

  Lemma render_obj pretty depth kd ents :
    R pretty depth (DObj (kd :: ents)) =
    [x7b] ++ obj_open pretty ++ join_bytes (x2c :: obj_open pretty) (map (member pretty depth) (kd :: ents))
      ++ sep_close pretty depth ++ [x7d].
  Proof.
    assert (Hm : forall k y, ((if pretty then spaces (S depth) ++ json_string k ++ [x3a; x20] else json_string k ++ [x3a])
                                ++ R pretty (S depth) y) = member pretty depth (k, y)).
    { intros k y. unfold member, key_pre, val_pre. cbn [fst snd]. destruct pretty; cbn [app]; rewrite <- ?app_assoc; reflexivity. }
    assert (H : forall l, (fix go (l : list (bytes * doc)) : list bytes :=
                             match l with
                             | [] => []
                             | (k, x) :: r =>
                                 ((if pretty then spaces (S depth) ++ json_string k ++ [x3a; x20] else json_string k ++ [x3a])
                                    ++ R pretty (S depth) x) :: go r
                             end) l = map (member pretty depth) l).
    { induction l as [|[k y] r IH]; [reflexivity|]. cbn [map]. rewrite <- IH, <- Hm. reflexivity. }
    destruct kd as [k0 x0]. cbn [render_json]. rewrite H, Hm. cbn [map].
    destruct pretty; unfold obj_open, sep_close; cbn [app]; rewrite <- ?app_assoc; reflexivity.
  Qed.

  Lemma join_cons2 (a b : bytes) l sep : join_bytes sep (a :: b :: l) = a ++ sep ++ join_bytes sep (b :: l).
  Proof. reflexivity. Qed.

  (* ---- the two loops ---- *)
  (* an element parser that reads the rendering r of d, after any whitespace, up to a terminated rest *)
  Definition elemP (pv : bytes -> option (jdoc * bytes)) (d : doc) (r : bytes) : Prop :=
    forall w rest, forallb is_ws w = true -> ends_number rest -> pv (w ++ r ++ rest) = Some (J d, rest).

  Lemma ends_comma r : ends_number (x2c :: r). Proof. cbn. auto. Qed.
  Lemma ends_rbracket r : ends_number (x5d :: r). Proof. cbn. auto. Qed.
  Lemma ends_rbrace r : ends_number (x7d :: r). Proof. cbn. auto. Qed.

  Lemma pv_items_ok pv wS wT : forallb is_ws wS = true -> forallb is_ws wT = true ->
    forall ds rs, Forall2 (elemP pv) ds rs -> ds <> [] ->
    forall k acc w rest, length ds <= k -> forallb is_ws w = true ->
    pv_items pv k (w ++ join_bytes (x2c :: wS) rs ++ wT ++ x5d :: rest) acc = Some (JArr (acc ++ map J ds), rest).
  Proof.
    intros HS HT. induction 1 as [|d r ds rs Hd HF IH]; [congruence|]. intros _ k acc w rest Hk Hw.
    destruct k as [|k]; [simpl in Hk; lia|]. cbn [pv_items].
    destruct rs as [|r2 rs].
    - inversion HF; subst. cbn [join_bytes].
      rewrite (Hd w _ Hw (ends_number_ws _ _ _ HT (ends_rbracket rest))).
      rewrite (skip_ws_app _ _ HT), skip_ws_id by reflexivity.
      change (Byte.eqb x5d x2c) with false. change (Byte.eqb x5d x5d) with true. cbv iota. reflexivity.
    - rewrite join_cons2, <- !app_assoc. cbn [app].
      rewrite (Hd w _ Hw (ends_comma _)). rewrite skip_ws_id by reflexivity.
      change (Byte.eqb x2c x2c) with true. cbv iota.
      destruct ds as [|d2 ds]; [inversion HF|].
      rewrite (IH ltac:(discriminate) k (acc ++ [J d]) wS rest ltac:(simpl in *; lia) HS).
      cbn [map]. rewrite <- app_assoc. reflexivity.
  Qed.

  (* one member: whitespace, key, whitespace-free colon, whitespace, value *)
  Definition memberP (pv : bytes -> option (jdoc * bytes)) (wV : bytes) (kd : bytes * doc) (m : bytes) : Prop :=
    exists wK r, m = wK ++ json_string (fst kd) ++ [x3a] ++ wV ++ r /\ forallb is_ws wK = true /\
                 valid_utf8 (fst kd) = true /\ elemP pv (snd kd) r.

  Lemma pv_members_ok pv wS wT wV : forallb is_ws wS = true -> forallb is_ws wT = true -> forallb is_ws wV = true ->
    forall ents ms, Forall2 (memberP pv wV) ents ms -> ents <> [] ->
    forall k acc w rest, length ents <= k -> forallb is_ws w = true ->
    pv_members pv k (w ++ join_bytes (x2c :: wS) ms ++ wT ++ x7d :: rest) acc
    = Some (JObj (acc ++ map (fun kd => (fst kd, J (snd kd))) ents), rest).
  Proof.
    intros HS HT HV. induction 1 as [|[key d] m ents ms Hm HF IH]; [congruence|]. intros _ k acc w rest Hk Hw.
    destruct k as [|k]; [simpl in Hk; lia|]. cbn [pv_members].
    destruct Hm as (wK & r & -> & HK & Hu & Hd). cbn [fst snd] in *.
    assert (Hkey : forall tail,
      skip_ws (w ++ wK ++ json_string key ++ [x3a] ++ wV ++ r ++ tail) = x22 :: json_str_body (S (length key)) key ++ x22 :: x3a :: wV ++ r ++ tail).
    { intros tail. rewrite (skip_ws_app _ _ Hw), (skip_ws_app _ _ HK). unfold json_string. cbn [app].
      rewrite skip_ws_id by reflexivity. rewrite <- !app_assoc. reflexivity. }
    destruct ms as [|m2 ms].
    - inversion HF; subst. cbn [join_bytes]. rewrite <- !app_assoc. rewrite Hkey.
      change (Byte.eqb x22 x22) with true. cbv iota.
      rewrite (json_string_parses key _ Hu). rewrite skip_ws_id by reflexivity.
      change (Byte.eqb x3a x3a) with true. cbv iota.
      rewrite (Hd wV _ HV (ends_number_ws _ _ _ HT (ends_rbrace rest))).
      rewrite (skip_ws_app _ _ HT), skip_ws_id by reflexivity.
      change (Byte.eqb x7d x2c) with false. change (Byte.eqb x7d x7d) with true. cbv iota. reflexivity.
    - rewrite join_cons2, <- !app_assoc. rewrite Hkey.
      change (Byte.eqb x22 x22) with true. cbv iota.
      rewrite (json_string_parses key _ Hu). rewrite skip_ws_id by reflexivity.
      change (Byte.eqb x3a x3a) with true. cbv iota. cbn [app].
      rewrite (Hd wV _ HV (ends_comma _)). rewrite skip_ws_id by reflexivity.
      change (Byte.eqb x2c x2c) with true. cbv iota.
      destruct ents as [|e2 ents]; [inversion HF|].
      rewrite (IH ltac:(discriminate) k (acc ++ [(key, J d)]) wS rest ltac:(simpl in *; lia) HS).
      cbn [map fst snd]. rewrite <- app_assoc. reflexivity.
  Qed.

  (* ---- heads ---- *)
  Lemma skip_ws_idem s : skip_ws (skip_ws s) = skip_ws s.
  Proof. induction s as [|c r IH]; [reflexivity|]. cbn [skip_ws]. destruct (is_ws c) eqn:E; [exact IH|]. cbn [skip_ws]. rewrite E. reflexivity. Qed.
  Lemma pv_members_skip pv k s acc : pv_members pv k (skip_ws s) acc = pv_members pv k s acc.
  Proof. destruct k; [reflexivity|]. cbn [pv_members]. rewrite skip_ws_idem. reflexivity. Qed.

  Lemma pv_body_arr f r c r0 : skip_ws r = c :: r0 -> Byte.eqb c x5d = false ->
    pv_body f (x5b :: r) = pv_items (parse_value f) f (c :: r0) [].
  Proof.
    intros H Hc. unfold pv_body. change (Byte.eqb x5b x22) with false. change (Byte.eqb x5b x7b) with false.
    change (Byte.eqb x5b x5b) with true. cbv iota zeta. rewrite H, Hc. reflexivity.
  Qed.
  Lemma pv_body_obj f r c r0 : skip_ws r = c :: r0 -> Byte.eqb c x7d = false ->
    pv_body f (x7b :: r) = pv_members (parse_value f) f r [].
  Proof.
    intros H Hc. unfold pv_body. change (Byte.eqb x7b x22) with false. change (Byte.eqb x7b x7b) with true.
    cbv iota zeta. rewrite H, Hc, <- H. apply pv_members_skip.
  Qed.

  Definition head_ok (t : bytes) : Prop :=
    exists c r, t = c :: r /\ is_ws c = false /\ Byte.eqb c x5d = false /\ Byte.eqb c x7d = false /\ Byte.eqb c x6e = false.

  Lemma number_head_ok t : json_number_ok t -> head_ok t.
  Proof.
    intros H. pose proof (json_number_ok_nonempty _ H) as Hn. destruct t as [|c r]; [congruence|].
    specialize (H [] I). rewrite app_nil_r in H. pose proof (parse_number_head _ _ _ H) as Hh.
    pose proof (forall_bytes _ num_head_sweep c) as S. unfold num_head_ok in S.
    replace (Byte.eqb c x2d || is_digit c) with true in S by (symmetry; apply orb_true_iff; exact Hh). cbn [implb] in S.
    repeat (apply andb_true_iff in S as [S ?]). repeat match goal with X : negb _ = true |- _ => apply negb_true_iff in X end.
    exists c, r. auto.
  Qed.

  Lemma render_head pretty depth d : head_ok (R pretty depth d).
  Proof.
    destruct d as [l|ds|ents].
    - cbn [render_json]. destruct l as [z|is32 b|b|s|s]; cbn [json_leaf].
      + apply number_head_ok, print_dec_number.
      + destruct (classify_float is32 b) eqn:E; try (eexists _, _; split; [reflexivity|]; repeat split; reflexivity).
        apply number_head_ok, fmtF_number, E.
      + destruct b; eexists _, _; (split; [reflexivity|]); repeat split; reflexivity.
      + eexists _, _; (split; [reflexivity|]); repeat split; reflexivity.
      + eexists _, _; (split; [reflexivity|]); repeat split; reflexivity.
    - destruct ds as [|x ds]; [|rewrite render_arr]; eexists _, _; (split; [reflexivity|]); repeat split; reflexivity.
    - destruct ents as [|x ents]; [|rewrite render_obj]; eexists _, _; (split; [reflexivity|]); repeat split; reflexivity.
  Qed.

  Lemma join_head sep (a : bytes) l tail : exists m, join_bytes sep (a :: l) ++ tail = a ++ m.
  Proof. destruct l as [|b l]; [exists tail; reflexivity|]. exists (sep ++ join_bytes sep (b :: l) ++ tail). rewrite join_cons2, <- !app_assoc. reflexivity. Qed.

  (* ---- sizes ---- *)
  Lemma len_sum_dsize l : length l <= list_sum (map dsize l).
  Proof. induction l as [|d l IH]; [simpl; lia|]. cbn [map length]. rewrite list_sum_cons. pose proof (dsize_pos d). lia. Qed.
  Lemma sum_le_join {A} (sz : A -> nat) (g : A -> bytes) sep l :
    Forall (fun a => sz a <= length (g a)) l -> list_sum (map sz l) <= length (join_bytes sep (map g l)).
  Proof.
    induction 1 as [|a l Ha HF IH]; [simpl; lia|]. destruct l as [|b l].
    - cbn [map join_bytes]. rewrite list_sum_cons. cbn [list_sum fold_right]. lia.
    - cbn [map] in *. rewrite join_cons2, !app_length. rewrite !list_sum_cons in *. lia.
  Qed.

  Lemma leaf_len l : 1 <= length (json_leaf fmtF l).
  Proof.
    destruct l as [z|is32 b|b|s|s]; cbn [json_leaf].
    - pose proof (print_dec_nonempty z). destruct (print_dec z); [congruence | simpl; lia].
    - destruct (classify_float is32 b) eqn:E; try (simpl; lia).
      pose proof (json_number_ok_nonempty _ (fmtF_number _ _ E)). destruct (fmtF is32 b); [congruence | simpl; lia].
    - destruct b; simpl; lia.
    - simpl; lia.
    - simpl; lia.
  Qed.

  Lemma render_len : forall d pretty depth, dsize d <= length (R pretty depth d).
  Proof.
    apply (doc_ind' (fun d => forall pretty depth, dsize d <= length (R pretty depth d))).
    - intros l pretty depth. cbn [dsize render_json]. apply leaf_len.
    - intros ds HF pretty depth. rewrite dsize_arr. destruct ds as [|x ds]; [simpl; lia|].
      rewrite render_arr, !app_length. cbn [length].
      pose proof (sum_le_join dsize (R pretty (S depth)) (x2c :: sep_open pretty depth) (x :: ds)) as L.
      assert (HF' : Forall (fun a => dsize a <= length (R pretty (S depth) a)) (x :: ds)).
      { eapply Forall_impl; [|exact HF]. intros a Ha. apply Ha. }
      specialize (L HF'). lia.
    - intros ents HF pretty depth. rewrite dsize_obj. destruct ents as [|x ents]; [simpl; lia|].
      rewrite render_obj, !app_length. cbn [length].
      pose proof (sum_le_join (fun kd => dsize (snd kd)) (member pretty depth) (x2c :: obj_open pretty) (x :: ents)) as L.
      assert (HF' : Forall (fun kd => dsize (snd kd) <= length (member pretty depth kd)) (x :: ents)).
      { eapply Forall_impl; [|exact HF]. intros kd Ha. unfold member. rewrite !app_length. specialize (Ha pretty (S depth)). lia. }
      specialize (L HF'). lia.
  Qed.

  (* ---- the main induction ---- *)
  Definition PV (d : doc) : Prop :=
    forall pretty depth fuel w rest, forallb is_ws w = true -> dsize d <= fuel -> ends_number rest ->
    parse_value fuel (w ++ R pretty depth d ++ rest) = Some (J d, rest).

  Lemma pv_of_body f w t rest x : forallb is_ws w = true ->
    skip_ws (t ++ rest) = t ++ rest /\ pv_body f (t ++ rest) = Some (x, rest) ->
    parse_value (S f) (w ++ t ++ rest) = Some (x, rest).
  Proof. intros Hw [A B]. rewrite (parse_value_ws _ _ _ Hw), parse_value_S, A. exact B. Qed.

  Lemma valid_names : valid_utf8 s_nan = true /\ valid_utf8 s_inf = true /\ valid_utf8 s_ninf = true.
  Proof. repeat split; vm_compute; reflexivity. Qed.

  Lemma pv_leaf l : doc_utf8 (DLeaf l) -> PV (DLeaf l).
  Proof.
    intros Hu pretty depth fuel w rest Hw Hf He. destruct fuel as [|f]; [cbn [dsize] in Hf; lia|].
    inversion Hu as [? Hl| |]; subst. cbn [render_json]. change (J (DLeaf l)) with (jleaf fmtF l).
    apply pv_of_body; [exact Hw|]. destruct l as [z|is32 b|b|s|s]; cbn [json_leaf jleaf].
    - apply pv_number; [apply print_dec_number, He | apply print_dec_nonempty].
    - destruct valid_names as (V1 & V2 & V3).
      destruct (classify_float is32 b) eqn:E; try (apply pv_string; assumption).
      apply pv_number; [apply (fmtF_number _ _ E), He | apply json_number_ok_nonempty, fmtF_number, E].
    - destruct b; split; reflexivity.
    - apply pv_string, Hl.
    - apply pv_string, latin1_valid.
  Qed.

  Lemma ws_nil : forallb is_ws [] = true. Proof. reflexivity. Qed.

  Theorem pv_all : forall d, doc_utf8 d -> PV d.
  Proof.
    apply (doc_ind' (fun d => doc_utf8 d -> PV d)).
    - exact pv_leaf.
    - intros ds IH Hu pretty depth fuel w rest Hw Hf He.
      inversion Hu as [|? Hus|]; subst. rewrite dsize_arr in Hf. destruct fuel as [|f]; [lia|].
      change (J (DArr ds)) with (JArr (map J ds)).
      destruct ds as [|x ds].
      + apply pv_of_body; [exact Hw|]. split; reflexivity.
      + rewrite (parse_value_ws _ _ _ Hw), parse_value_S, render_arr. cbn [app]. rewrite skip_ws_id by reflexivity.
        rewrite <- !app_assoc.
        destruct (join_head (x2c :: sep_open pretty depth) (R pretty (S depth) x) (map (R pretty (S depth)) ds)
                    (sep_close pretty depth ++ [x5d] ++ rest)) as [m Hm].
        destruct (render_head pretty (S depth) x) as (c & r0 & Ec & Hc1 & Hc2 & _ & _).
        assert (Hsk : skip_ws (sep_open pretty depth ++ join_bytes (x2c :: sep_open pretty depth) (map (R pretty (S depth)) (x :: ds))
                                ++ sep_close pretty depth ++ [x5d] ++ rest) = c :: r0 ++ m).
        { rewrite (skip_ws_app _ _ (sep_open_ws _ _)). cbn [map]. rewrite Hm, Ec. cbn [app]. apply skip_ws_id, Hc1. }
        rewrite (pv_body_arr f _ c (r0 ++ m) Hsk Hc2).
        replace (c :: r0 ++ m) with ([] ++ join_bytes (x2c :: sep_open pretty depth) (map (R pretty (S depth)) (x :: ds))
                                ++ sep_close pretty depth ++ x5d :: rest)
          by (change ([x5d] ++ rest) with (x5d :: rest) in Hm; cbn [map app]; rewrite Hm, Ec; reflexivity).
        rewrite (pv_items_ok (parse_value f) _ _ (sep_open_ws pretty depth) (sep_close_ws pretty depth) (x :: ds)
                   (map (R pretty (S depth)) (x :: ds))); [reflexivity| |discriminate| |reflexivity].
        * apply Forall2_map_r_id. rewrite Forall_forall in IH, Hus. intros d Hd w' rest' Hw' He'.
          apply (IH d Hd (Hus d Hd)); [exact Hw'| |exact He'].
          pose proof (list_sum_in dsize (x :: ds) d Hd). lia.
        * pose proof (len_sum_dsize (x :: ds)). lia.
    - intros ents IH Hu pretty depth fuel w rest Hw Hf He.
      inversion Hu as [| |? Hus]; subst. rewrite dsize_obj in Hf. destruct fuel as [|f]; [lia|].
      rewrite J_obj.
      destruct ents as [|[k x] ents].
      + apply pv_of_body; [exact Hw|]. split; reflexivity.
      + rewrite (parse_value_ws _ _ _ Hw), parse_value_S, render_obj. cbn [app]. rewrite skip_ws_id by reflexivity.
        rewrite <- !app_assoc.
        assert (Hsk : exists r0, skip_ws (obj_open pretty ++ join_bytes (x2c :: obj_open pretty) (map (member pretty depth) ((k, x) :: ents))
                                ++ sep_close pretty depth ++ [x7d] ++ rest) = x22 :: r0).
        { destruct (join_head (x2c :: obj_open pretty) (member pretty depth (k, x)) (map (member pretty depth) ents)
                      (sep_close pretty depth ++ [x7d] ++ rest)) as [m Hm].
          rewrite (skip_ws_app _ _ (obj_open_ws _)). cbn [map]. rewrite Hm. unfold member at 1. rewrite <- !app_assoc.
          rewrite (skip_ws_app _ _ (key_pre_ws _ _)). unfold json_string. cbn [fst app]. eexists. apply skip_ws_id. reflexivity. }
        destruct Hsk as [r0 Hsk]. rewrite (pv_body_obj f _ x22 r0 Hsk eq_refl).
        change (obj_open pretty ++ join_bytes (x2c :: obj_open pretty) (map (member pretty depth) ((k, x) :: ents))
                  ++ sep_close pretty depth ++ [x7d] ++ rest)
          with (obj_open pretty ++ join_bytes (x2c :: obj_open pretty) (map (member pretty depth) ((k, x) :: ents))
                  ++ sep_close pretty depth ++ x7d :: rest).
        rewrite (pv_members_ok (parse_value f) _ _ _ (obj_open_ws pretty) (sep_close_ws pretty depth) (val_pre_ws pretty)
                   ((k, x) :: ents) (map (member pretty depth) ((k, x) :: ents))); [reflexivity| |discriminate| |apply obj_open_ws].
        * apply Forall2_map_r_id. rewrite Forall_forall in IH, Hus. intros kd Hd.
          exists (key_pre pretty depth), (R pretty (S depth) (snd kd)). split; [reflexivity|].
          split; [apply key_pre_ws|]. destruct (Hus kd Hd) as [Hk Hx]. split; [exact Hk|].
          intros w' rest' Hw' He'. apply (IH kd Hd Hx); [exact Hw'| |exact He'].
          pose proof (list_sum_in (fun kd => dsize (snd kd)) ((k, x) :: ents) kd Hd). cbv beta in *. lia.
        * assert (L : length ((k, x) :: ents) <= list_sum (map (fun kd => dsize (snd kd)) ((k, x) :: ents))).
          { generalize ((k, x) :: ents). intros l. induction l as [|a l IHl]; [simpl; lia|].
            cbn [map length]. rewrite list_sum_cons. pose proof (dsize_pos (snd a)). lia. }
          lia.
  Qed.

  (* J2 (pretty = false) and J3 (pretty = true) *)
  Theorem parse_render_json pretty d : doc_utf8 d -> parse_json (R pretty 0 d) = Some (J d).
  Proof.
    intros Hu. unfold parse_json.
    pose proof (pv_all d Hu pretty 0 (S (length (R pretty 0 d))) [] [] eq_refl) as H.
    cbn [app] in H. rewrite app_nil_r in H. rewrite H; [reflexivity| |exact I].
    pose proof (render_len d pretty 0). lia.
  Qed.

  Lemma render_not_null pretty depth d : bytes_eqb (R pretty depth d) lit_null = false.
  Proof. destruct (render_head pretty depth d) as (c & r & -> & _ & _ & _ & H). unfold lit_null. cbn [bytes_eqb]. rewrite H. reflexivity. Qed.
  Lemma render_nonempty pretty depth d : R pretty depth d <> [].
  Proof. destruct (render_head pretty depth d) as (c & r & -> & _). discriminate. Qed.
End Bytes.

(* ======================================================================================================
   J4: the top level - NewJsonReader + UnmarshalRestLi on the writer's output
   ====================================================================================================== *)
Definition json_float_oracle_ok (fmtF : bool -> N -> bytes) (parseF : nat -> bytes -> option N) : Prop :=
  (forall is32 b, classify_float is32 b = FFinite -> json_number_ok (fmtF is32 b)) /\
  (forall b, (b < 2 ^ 64)%N -> classify_float false b <> FNaN -> parseF 0 (float_text fmtF false b) = Some b) /\
  (forall b, (b < 2 ^ 32)%N -> classify_float true b <> FNaN -> parseF 2 (float_text fmtF true b) = Some b).

Theorem decode_json_roundtrip fmtF parseF e wc ignore fe scope t v d fd pretty :
  json_float_oracle_ok fmtF parseF ->
  wf_env e -> wf_ty t -> typed e t v -> enc e wc ps_empty fe scope t v = Ok d -> vsize v <= fd -> doc_utf8 d ->
  decode_json e wc ps_empty ignore parseF fd t (render_json fmtF pretty 0 d) = DOk (expect parseF e wc ignore v fd t).
Proof.
  intros (On & O64 & O32) Hw Hwt Ht He Hs Hu. unfold decode_json.
  pose proof (render_nonempty fmtF On pretty 0 d) as Hne.
  destruct (render_json fmtF pretty 0 d) as [|c r] eqn:E; [congruence|]. rewrite <- E.
  rewrite (render_not_null fmtF On), (parse_render_json fmtF On pretty d Hu).
  rewrite (json_tree_roundtrip fmtF parseF e wc ignore O64 O32 Hw fe scope t v d fd true tracker0 Hwt Ht He Hs (or_intror eq_refl)).
  reflexivity.
Qed.

Theorem decode_json_roundtrip_nodefaults fmtF parseF e wc ignore fe scope t v d fd pretty :
  json_float_oracle_ok fmtF parseF ->
  wf_env e -> no_defaults e -> wf_ty t -> typed e t v -> enc e wc ps_empty fe scope t v = Ok d -> vsize v <= fd -> doc_utf8 d ->
  decode_json e wc ps_empty ignore parseF fd t (render_json fmtF pretty 0 d) = DOk (canon v).
Proof.
  intros Ho Hw Hn Hwt Ht He Hs Hu. rewrite <- (expect_is_canon parseF e wc ignore t v fd Hw Hn Ht).
  eapply decode_json_roundtrip; eassumption.
Qed.

(* ======================================================================================================
   The premise on float text as a boolean: the strict parser reads the whole text as one number
   ====================================================================================================== *)
Definition json_number_text (t : bytes) : bool :=
  match parse_number t with
  | Some (t', r) => bytes_eqb t' t && match r with [] => true | _ => false end
  | None => false
  end.

Definition frac_of (s2 : bytes) : option (bytes * bytes) :=
  match s2 with
  | c :: r => if Byte.eqb c x2e then
                let '(fp, s3) := take_digits r in
                match fp with [] => None | _ => Some (c :: fp, s3) end
              else Some ([], s2)
  | [] => Some ([], [])
  end.
Definition ex_of (s3 : bytes) : option (bytes * bytes) :=
  match s3 with
  | c :: r =>
      if Byte.eqb c x65 || Byte.eqb c x45 then
        let '(sg, r') := match r with
                         | c2 :: r2 => if Byte.eqb c2 x2b || Byte.eqb c2 x2d then ([c2], r2) else ([], r)
                         | [] => ([], [])
                         end in
        let '(ep, s4) := take_digits r' in
        match ep with [] => None | _ => Some (c :: sg ++ ep, s4) end
      else Some ([], s3)
  | [] => Some ([], [])
  end.
Definition pn_tail (sign s1 : bytes) : option (bytes * bytes) :=
  let '(ip, s2) := take_digits s1 in
  match ip with
  | [] => None
  | d0 :: dr =>
      if Byte.eqb d0 x30 && negb (match dr with [] => true | _ => false end) then None
      else match frac_of s2 with
           | None => None
           | Some (fp, s3) =>
               match ex_of s3 with
               | None => None
               | Some (ep, s4) => Some (sign ++ ip ++ fp ++ ep, s4)
               end
           end
  end.
Lemma parse_number_eq s : parse_number s =
  match s with
  | c :: r => if Byte.eqb c x2d then pn_tail [c] r else pn_tail [] s
  | [] => pn_tail [] []
  end.
Proof. unfold parse_number. destruct s as [|c r]; [reflexivity|]. destruct (Byte.eqb c x2d); reflexivity. Qed.

Definition nondigit_head (rest : bytes) : Prop := match rest with c :: _ => is_digit c = false | [] => True end.
Lemma ends_nondigit rest : ends_number rest -> nondigit_head rest.
Proof. destruct rest; [exact (fun H => H)|]. intros [A _]. exact A. Qed.

Lemma take_digits_app' s ip s2 rest : take_digits s = (ip, s2) -> nondigit_head rest -> take_digits (s ++ rest) = (ip, s2 ++ rest).
Proof.
  revert ip s2. induction s as [|c r IH]; intros ip s2 H Hr.
  - cbn in H. injection H as <- <-. cbn [app]. destruct rest as [|c r]; [reflexivity|]. cbn [take_digits]. cbn in Hr. rewrite Hr. reflexivity.
  - cbn [take_digits] in H. cbn [app take_digits]. destruct (is_digit c).
    + destruct (take_digits r) as [d t] eqn:E. injection H as <- <-. rewrite (IH _ _ eq_refl Hr). reflexivity.
    + injection H as <- <-. reflexivity.
Qed.

Lemma ex_of_app s3 ep s4 rest : ex_of s3 = Some (ep, s4) -> ends_number rest -> ex_of (s3 ++ rest) = Some (ep, s4 ++ rest).
Proof.
  intros H He. destruct s3 as [|c r].
  - cbn in H. injection H as <- <-. cbn [app]. destruct rest as [|c r]; [reflexivity|]. destruct He as (_ & _ & A & B).
    cbn [ex_of]. rewrite A, B. reflexivity.
  - cbn [ex_of] in H. cbn [app ex_of]. destruct (Byte.eqb c x65 || Byte.eqb c x45).
    + destruct r as [|c2 r2].
      * cbn in H. discriminate H.
      * cbn [app]. destruct (Byte.eqb c2 x2b || Byte.eqb c2 x2d).
        -- destruct (take_digits r2) as [e4 t4] eqn:E. rewrite (take_digits_app' _ _ _ rest E (ends_nondigit _ He)).
           destruct e4; [discriminate H|]. injection H as <- <-. reflexivity.
        -- destruct (take_digits (c2 :: r2)) as [e4 t4] eqn:E.
           change (c2 :: r2 ++ rest) with ((c2 :: r2) ++ rest). rewrite (take_digits_app' _ _ _ rest E (ends_nondigit _ He)).
           destruct e4; [discriminate H|]. injection H as <- <-. reflexivity.
    + injection H as <- <-. reflexivity.
Qed.

Lemma frac_of_app s2 fp s3 rest : frac_of s2 = Some (fp, s3) -> ends_number rest -> frac_of (s2 ++ rest) = Some (fp, s3 ++ rest).
Proof.
  intros H He. destruct s2 as [|c r].
  - cbn in H. injection H as <- <-. cbn [app]. destruct rest as [|c r]; [reflexivity|]. destruct He as (_ & A & _).
    cbn [frac_of]. rewrite A. reflexivity.
  - cbn [frac_of] in H. cbn [app frac_of]. destruct (Byte.eqb c x2e).
    + destruct (take_digits r) as [f4 t4] eqn:E. rewrite (take_digits_app' _ _ _ rest E (ends_nondigit _ He)).
      destruct f4; [discriminate H|]. injection H as <- <-. reflexivity.
    + injection H as <- <-. reflexivity.
Qed.

Lemma pn_tail_app sign s1 a s4 rest : pn_tail sign s1 = Some (a, s4) -> ends_number rest ->
  pn_tail sign (s1 ++ rest) = Some (a, s4 ++ rest).
Proof.
  unfold pn_tail. intros H He. destruct (take_digits s1) as [ip s2] eqn:E.
  rewrite (take_digits_app' _ _ _ rest E (ends_nondigit _ He)).
  destruct ip as [|d0 dr]; [discriminate H|].
  destruct (Byte.eqb d0 x30 && negb (match dr with [] => true | _ => false end)); [discriminate H|].
  destruct (frac_of s2) as [[fp s3]|] eqn:Ef; [|discriminate H]. rewrite (frac_of_app _ _ _ rest Ef He).
  destruct (ex_of s3) as [[ep s5]|] eqn:Ee; [|discriminate H]. rewrite (ex_of_app _ _ _ rest Ee He).
  injection H as <- <-. reflexivity.
Qed.

Theorem parse_number_app s a s4 rest : parse_number s = Some (a, s4) -> ends_number rest ->
  parse_number (s ++ rest) = Some (a, s4 ++ rest).
Proof.
  rewrite !parse_number_eq. intros H He. destruct s as [|c r].
  - cbn in H. discriminate H.
  - cbn [app]. destruct (Byte.eqb c x2d).
    + apply pn_tail_app; assumption.
    + change (c :: r ++ rest) with ((c :: r) ++ rest). apply pn_tail_app; assumption.
Qed.

Theorem json_number_text_ok t : json_number_text t = true -> json_number_ok t.
Proof.
  unfold json_number_text. intros H rest He. destruct (parse_number t) as [[t' r]|] eqn:E; [|discriminate H].
  apply andb_true_iff in H as [H1 H2]. apply bytes_eqb_eq in H1. subst t'. destruct r; [|discriminate H2].
  exact (parse_number_app _ _ _ _ E He).
Qed.

(* ======================================================================================================
   Valid UTF-8 in the schema and the value gives a valid document
   ====================================================================================================== *)
Fixpoint ty_utf8 (t : ty) : Prop :=
  match t with
  | TEnum syms => Forall (fun s => valid_utf8 s = true) syms
  | TArray t' | TMap t' => ty_utf8 t'
  | _ => True
  end.
(* field names, union member aliases and enum symbols of the schema are valid UTF-8 *)
Definition env_utf8 (e : env) : Prop :=
  (forall n incs fs, lookup e n = Some (DRecord incs fs) -> Forall (fun fd => valid_utf8 (f_name fd) = true /\ ty_utf8 (f_ty fd)) fs) /\
  (forall n nullable ms, lookup e n = Some (DUnion nullable ms) -> Forall (fun m => valid_utf8 (fst m) = true /\ ty_utf8 (snd m)) ms).
(* strings and map keys of the value are valid UTF-8 *)
Inductive val_utf8 : value -> Prop :=
| vu_leaf v : match v with
              | VStr s => valid_utf8 s = true
              | VArr _ | VMap _ | VRec _ _ | VUnion _ => False
              | _ => True
              end -> val_utf8 v
| vu_arr l : Forall val_utf8 l -> val_utf8 (VArr l)
| vu_map es : Forall (fun kv => valid_utf8 (fst kv) = true /\ val_utf8 (snd kv)) es -> val_utf8 (VMap es)
| vu_rec ivs fvs : Forall val_utf8 ivs -> Forall (fun ov => forall x, ov = Some x -> val_utf8 x) fvs -> val_utf8 (VRec ivs fvs)
| vu_union ms : Forall (fun ov => forall x, ov = Some x -> val_utf8 x) ms -> val_utf8 (VUnion ms).

Definition ents_utf8 (ents : list (bytes * doc)) : Prop := Forall (fun kd => valid_utf8 (fst kd) = true /\ doc_utf8 (snd kd)) ents.

Lemma ents_utf8_sort ents : ents_utf8 ents -> ents_utf8 (sort_entries ents).
Proof.
  unfold ents_utf8. intros H. rewrite Forall_forall in *. intros kd Hin. apply H.
  eapply Permutation_in; [apply sort_entries_perm | exact Hin].
Qed.

Section EncUtf8.
  Variable e : env.
  Variable wc : bytes.
  Hypothesis He : env_utf8 e.
  Local Notation Enc := (enc e wc ps_empty).

  Definition EU (fe : nat) : Prop :=
    forall scope t v d, ty_utf8 t -> val_utf8 v -> Enc fe scope t v = Ok d -> doc_utf8 d.

  Lemma du_str s : valid_utf8 s = true -> doc_utf8 (DLeaf (LStr s)).
  Proof. intros H. constructor. exact H. Qed.

  Lemma enc_utf8_all : forall fe, EU fe.
  Proof.
    induction fe as [|fe IH]; intros scope t v d Ht Hv H; [discriminate H|].
    assert (Hkey : forall key t' v' ents, valid_utf8 key = true -> ty_utf8 t' -> val_utf8 v' ->
              enc_key_ e wc fe scope key t' v' = Ok ents -> ents_utf8 ents).
    { intros key t' v' ents Hk Ht' Hv' Hk'. rewrite enc_key_eq in Hk'.
      destruct (Enc fe (scope ++ [key]) t' v') as [d'| |] eqn:Ed; try discriminate Hk'. injection Hk' as <-.
      constructor; [|constructor]. split; [exact Hk | eapply IH; eassumption]. }
    destruct t as [p|syms|n|n|t'|t'].
    - (* primitives *) destruct p, v; try (cbn in H; discriminate H); cbn in H; injection H as <-; try (constructor; exact I).
      apply du_str. inversion Hv; assumption.
    - (* enum *) destruct v as [z|z|b|b|b|s|s|k|s|ivs fvs|mvs|l|es]; try (cbn in H; discriminate H).
      cbn in H. destruct k as [|i]; [discriminate H|]. destruct (nth_error syms i) as [s|] eqn:En; [|discriminate H].
      injection H as <-. apply du_str. cbn in Ht. rewrite Forall_forall in Ht. apply Ht. eapply nth_error_In, En.
    - (* fixed *) destruct v as [z|z|b|b|b|s|s|k|s|ivs fvs|mvs|l|es]; try (cbn in H; discriminate H). cbn in H. injection H as <-. constructor. exact I.
    - destruct v as [z|z|b|b|b|s|s|k|s|ivs fvs|mvs|l|es]; try (cbn in H; discriminate H); [|].
      { (* record *)
      rewrite enc_rec in H. destruct (lookup e n) as [[incs fs|? ?]|] eqn:Hl; try discriminate H.
      destruct (enc_incs_ e wc fe scope incs ivs) as [a| |] eqn:Ea; try discriminate H. cbn [bind] in H.
      destruct (enc_fields_ e wc fe scope fs fvs) as [own| |] eqn:Eo; try discriminate H. cbn [bind] in H. injection H as <-.
      inversion Hv as [? Hf| | |? ? Hiv Hfv|]; subst; [contradiction|]. clear Hv.
      constructor. apply ents_utf8_sort. apply Forall_app. split.
      + clear Eo Hl. revert ivs a Hiv Ea. induction incs as [|i incs IHi]; intros vi a Hiv Ea; destruct vi as [|iv vi]; cbn [enc_incs_] in Ea; try discriminate Ea.
        * injection Ea as <-. constructor.
        * fold (enc_incs_ e wc fe scope) in Ea. inversion Hiv; subst.
          destruct (Enc fe scope (TRef i) iv) as [di| |] eqn:Ei; try discriminate Ea. cbn [bind] in Ea.
          destruct di as [|?|ents]; try discriminate Ea. cbn [bind] in Ea.
          destruct (enc_incs_ e wc fe scope incs vi) as [b| |] eqn:Eb; try discriminate Ea. cbn [bind] in Ea. injection Ea as <-.
          apply Forall_app. split; [|eapply IHi; eassumption].
          assert (Hd : doc_utf8 (DObj ents)) by (eapply (IH scope (TRef i)); [exact I | eassumption | exact Ei]).
          inversion Hd; assumption.
      + pose proof (proj1 He _ _ _ Hl) as Hfs. clear Ea Hl. revert fvs own Hfv Eo.
        induction fs as [|fd fs IHf]; intros vf own Hfv Eo; destruct vf as [|ov vf]; cbn [enc_fields_] in Eo; try discriminate Eo.
        * injection Eo as <-. constructor.
        * fold (enc_fields_ e wc fe scope) in Eo. inversion Hfv; subst. inversion Hfs as [|? ? [Hn Hty] Hfs']; subst.
          destruct ov as [x|].
          -- destruct (enc_key_ e wc fe scope (f_name fd) (f_ty fd) x) as [here| |] eqn:Ek; try discriminate Eo. cbn [bind] in Eo.
             destruct (enc_fields_ e wc fe scope fs vf) as [r| |] eqn:Er; try discriminate Eo. cbn [bind] in Eo. injection Eo as <-.
             apply Forall_app. split; [eapply Hkey; [exact Hn | exact Hty | | exact Ek]; auto | eapply IHf; eassumption].
          -- destruct (is_required (f_opt fd)); [discriminate Eo|]. cbn [bind] in Eo.
             destruct (enc_fields_ e wc fe scope fs vf) as [r| |] eqn:Er; try discriminate Eo. cbn [bind] in Eo. injection Eo as <-.
             eapply IHf; eassumption. }
      { (* union *)
      rewrite enc_union in H. destruct (lookup e n) as [[? ?|nullable ms]|] eqn:Hl; try discriminate H.
      destruct (enc_union_go e wc fe scope ms mvs false) as [[ents b]| |] eqn:Eg; try discriminate H. cbn [bind fst snd] in H.
      destruct (negb nullable && negb b); [discriminate H|]. injection H as <-.
      inversion Hv as [? Hf| | | |? Hms]; subst; [contradiction|]. clear Hv.
      pose proof (proj2 He _ _ _ Hl) as Hm.
      constructor. apply ents_utf8_sort.
      assert (G : forall isSet r, enc_union_go e wc fe scope ms mvs isSet = Ok r -> ents_utf8 (fst r)); [|exact (G _ _ Eg)].
      clear Eg Hl. revert mvs Hms. induction ms as [|[alias mt] ms IHm]; intros vs Hms isSet r Eg; destruct vs as [|ov vs]; cbn [enc_union_go] in Eg; try discriminate Eg.
      + injection Eg as <-. constructor.
      + fold (enc_union_go e wc fe scope) in Eg. inversion Hms; subst. inversion Hm as [|? ? [Hn Hty] Hm']; subst. cbn [fst snd] in *.
        destruct ov as [x|]; [|eapply IHm; eassumption].
        destruct isSet; [discriminate Eg|].
        destruct (enc_key_ e wc fe scope alias mt x) as [a| |] eqn:Ek; try discriminate Eg. cbn [bind] in Eg.
        destruct (enc_union_go e wc fe scope ms vs true) as [br| |] eqn:Eb; try discriminate Eg. cbn [bind] in Eg. injection Eg as <-.
        cbn [fst]. apply Forall_app. split; [eapply Hkey; [exact Hn | exact Hty | | exact Ek]; auto | eapply IHm; eassumption]. }
    - (* array *) destruct v as [z|z|b|b|b|s|s|k|s|ivs fvs|mvs|l|es]; try (cbn in H; discriminate H).
      rewrite enc_arr in H. destruct (mapM _ l) as [ds| |] eqn:Em; try discriminate H. cbn [bind] in H. injection H as <-.
      apply mapM_Forall2 in Em. inversion Hv as [? Hf|? Hl| | |]; subst; [contradiction|].
      constructor. clear Hv. induction Em as [|x d0 l ds Hx HF IHl]; constructor.
      + inversion Hl; subst. eapply (IH _ t'); [exact Ht | eassumption | exact Hx].
      + inversion Hl; subst. auto.
    - (* map *) destruct v as [z|z|b|b|b|s|s|k|s|ivs fvs|mvs|l|es]; try (cbn in H; discriminate H).
      rewrite enc_map in H. destruct (enc_map_go e wc fe scope t' es) as [ents| |] eqn:Eg; try discriminate H.
      cbn [bind] in H. injection H as <-. inversion Hv as [? Hf| |? Hes| |]; subst; [contradiction|].
      constructor. apply ents_utf8_sort. clear Hv. revert ents Eg.
      induction es as [|[k x] es IHe]; intros ents Eg; cbn [enc_map_go] in Eg.
      + injection Eg as <-. constructor.
      + fold (enc_map_go e wc fe scope t') in Eg. inversion Hes as [|? ? [Hk Hx] Hes']; subst. cbn [fst snd] in *.
        destruct (enc_key_ e wc fe scope k t' x) as [a| |] eqn:Ek; try discriminate Eg. cbn [bind] in Eg.
        destruct (enc_map_go e wc fe scope t' es) as [b| |] eqn:Eb; try discriminate Eg. cbn [bind] in Eg. injection Eg as <-.
        apply Forall_app. split; [exact (Hkey k t' x a Hk Ht Hx Ek) | apply IHe; [exact Hes' | reflexivity]].
  Qed.
End EncUtf8.

Theorem enc_doc_utf8 e wc fe scope t v d :
  env_utf8 e -> ty_utf8 t -> val_utf8 v -> enc e wc ps_empty fe scope t v = Ok d -> doc_utf8 d.
Proof. intros He Ht Hv H. exact (enc_utf8_all e wc He fe scope t v d Ht Hv H). Qed.

(* ======================================================================================================
   Final forms
   ====================================================================================================== *)
(* J4 over schemas and values: the premise on the document is discharged by the premise on the schema and the value *)
Theorem json_roundtrip fmtF parseF e wc ignore fe scope t v d fd pretty :
  json_float_oracle_ok fmtF parseF ->
  wf_env e -> wf_ty t -> typed e t v -> env_utf8 e -> ty_utf8 t -> val_utf8 v ->
  enc e wc ps_empty fe scope t v = Ok d -> vsize v <= fd ->
  decode_json e wc ps_empty ignore parseF fd t (render_json fmtF pretty 0 d) = DOk (expect parseF e wc ignore v fd t).
Proof.
  intros Ho Hw Hwt Ht Hue Hut Huv He Hs. eapply decode_json_roundtrip; try eassumption.
  eapply enc_doc_utf8; eassumption.
Qed.

Theorem json_roundtrip_nodefaults fmtF parseF e wc ignore fe scope t v d fd pretty :
  json_float_oracle_ok fmtF parseF ->
  wf_env e -> no_defaults e -> wf_ty t -> typed e t v -> env_utf8 e -> ty_utf8 t -> val_utf8 v ->
  enc e wc ps_empty fe scope t v = Ok d -> vsize v <= fd ->
  decode_json e wc ps_empty ignore parseF fd t (render_json fmtF pretty 0 d) = DOk (canon v).
Proof.
  intros Ho Hw Hn Hwt Ht Hue Hut Huv He Hs. rewrite <- (expect_is_canon parseF e wc ignore t v fd Hw Hn Ht).
  eapply json_roundtrip; eassumption.
Qed.

(* J1 at the top of a document *)
Theorem json_tree_roundtrip_top fmtF parseF e wc ignore fe scope t v d fd :
  json_float_oracle_ok fmtF parseF ->
  wf_env e -> wf_ty t -> typed e t v -> enc e wc ps_empty fe scope t v = Ok d -> vsize v <= fd ->
  exists tr, decJ e wc ps_empty ignore parseF fd true t (to_jdoc fmtF d) tracker0 = Ok (expect parseF e wc ignore v fd t, tr)
             /\ t_missing tr = [].
Proof.
  intros (_ & O64 & O32) Hw Hwt Ht He Hs. exists tracker0. split; [|reflexivity].
  exact (json_tree_roundtrip fmtF parseF e wc ignore O64 O32 Hw fe scope t v d fd true tracker0 Hwt Ht He Hs (or_intror eq_refl)).
Qed.

(* ---- the premises on the float oracle are jointly satisfiable (a toy strconv: the bit pattern in decimal) ---- *)
Definition class_g (M E b : N) : fclass :=
  if ((b / M) mod E =? E - 1)%N
  then (if (b mod M =? 0)%N then (if (b / (M * E) =? 0)%N then FPosInf else FNegInf) else FNaN)
  else FFinite.
Lemma class_g_32 b : classify_float true b = class_g 8388608 256 b.
Proof. reflexivity. Qed.
Lemma class_g_64 b : classify_float false b = class_g 4503599627370496 2048 b.
Proof. reflexivity. Qed.

Lemma class_g_inf M E b : (0 < M)%N -> (1 < E)%N -> (b < 2 * (M * E))%N ->
  (class_g M E b = FPosInf -> b = (M * (E - 1))%N) /\ (class_g M E b = FNegInf -> b = (M * E + M * (E - 1))%N).
Proof.
  intros HM HE Hb. unfold class_g.
  destruct (N.eqb_spec ((b / M) mod E) (E - 1)) as [Ex|Ex]; [|split; discriminate].
  destruct (N.eqb_spec (b mod M) 0) as [Em|Em]; [|split; discriminate].
  pose proof (N.div_mod b M ltac:(lia)) as D1. rewrite Em, N.add_0_r in D1.
  pose proof (N.div_mod (b / M) E ltac:(lia)) as D2. rewrite Ex in D2.
  assert (Hs : (b / M / E = b / (M * E))%N) by (apply N.div_div; lia).
  assert (Hlt : (b / (M * E) < 2)%N) by (apply N.div_lt_upper_bound; lia).
  set (s := (b / (M * E))%N) in *. set (q := (b / M)%N) in *. rewrite Hs in D2.
  destruct (N.eqb_spec s 0) as [E0|E0]; split; try discriminate; intros _.
  - rewrite E0, N.mul_0_r, N.add_0_l in D2. rewrite D1, D2. reflexivity.
  - assert (s = 1%N) by lia. rewrite H, N.mul_1_r in D2. rewrite D1, D2. lia.
Qed.

Definition toy_fmt (is32 : bool) (b : N) : bytes := print_dec (Z.of_N b).
Definition toy_parse (m : nat) (s : bytes) : option N :=
  match parse_dec s with
  | Some z => Some (Z.to_N z)
  | None =>
      if bytes_eqb s s_inf then Some (if Nat.eqb m 0 then 9218868437227405312 else 2139095040)%N
      else if bytes_eqb s s_ninf then Some (if Nat.eqb m 0 then 18442240474082181120 else 4286578688)%N
      else None
  end.

Theorem json_float_oracle_consistent : json_float_oracle_ok toy_fmt toy_parse.
Proof.
  split; [|split].
  - intros is32 b _. apply print_dec_number.
  - intros b Hb Hn. unfold float_text. rewrite class_g_64 in *.
    destruct (class_g_inf 4503599627370496 2048 b ltac:(lia) ltac:(lia) ltac:(change (2 ^ 64)%N with 18446744073709551616%N in Hb; lia)) as [A B].
    destruct (class_g 4503599627370496 2048 b); [congruence| | |].
    + rewrite (A eq_refl). reflexivity.
    + rewrite (B eq_refl). reflexivity.
    + unfold toy_parse, toy_fmt. rewrite parse_print_dec, N2Z.id. reflexivity.
  - intros b Hb Hn. unfold float_text. rewrite class_g_32 in *.
    destruct (class_g_inf 8388608 256 b ltac:(lia) ltac:(lia) ltac:(change (2 ^ 32)%N with 4294967296%N in Hb; lia)) as [A B].
    destruct (class_g 8388608 256 b); [congruence| | |].
    + rewrite (A eq_refl). reflexivity.
    + rewrite (B eq_refl). reflexivity.
    + unfold toy_parse, toy_fmt. rewrite parse_print_dec, N2Z.id. reflexivity.
Qed.

(* ---- the statement without the UTF-8 premises is false: the writer replaces ill-formed bytes by U+FFFD ---- *)
Definition json_roundtrip_full : Prop :=
  forall fmtF parseF e wc ignore fe scope t v d fd pretty,
  json_float_oracle_ok fmtF parseF ->
  wf_env e -> wf_ty t -> typed e t v -> enc e wc ps_empty fe scope t v = Ok d -> vsize v <= fd ->
  decode_json e wc ps_empty ignore parseF fd t (render_json fmtF pretty 0 d) = DOk (expect parseF e wc ignore v fd t).

Definition bad_str : value := VStr [xff].
Lemma bad_str_decodes fmtF parseF pretty :
  decode_json [] [] ps_empty 0 parseF 1 (TPrim PString) (render_json fmtF pretty 0 (DLeaf (LStr [xff]))) = DOk (VStr [xef; xbf; xbd]).
Proof. destruct pretty; vm_compute; reflexivity. Qed.

Lemma wf_env_nil : wf_env [].
Proof. split; intros n ? ? H; destruct n; discriminate H. Qed.

Theorem json_roundtrip_refuted :
  exists e wc ignore fe scope t v d fd,
    wf_env e /\ wf_ty t /\ typed e t v /\ enc e wc ps_empty fe scope t v = Ok d /\ vsize v <= fd /\
    forall fmtF parseF pretty,
      decode_json e wc ps_empty ignore parseF fd t (render_json fmtF pretty 0 d) <> DOk (expect parseF e wc ignore v fd t).
Proof.
  exists [], [], 0, 1, [], (TPrim PString), bad_str, (DLeaf (LStr [xff])), 1.
  split; [exact wf_env_nil|]. split; [exact I|]. split; [constructor|]. split; [reflexivity|]. split; [simpl; lia|].
  intros fmtF parseF pretty. rewrite bad_str_decodes. cbn. discriminate.
Qed.

Theorem json_roundtrip_full_false : ~ json_roundtrip_full.
Proof.
  intros F. destruct json_roundtrip_refuted as (e & wc & ig & fe & sc & t & v & d & fd & Hw & Hwt & Ht & He & Hs & Hbad).
  apply (Hbad toy_fmt toy_parse false). unfold json_roundtrip_full in F.
  eapply F; try eassumption. exact json_float_oracle_consistent.
Qed.

(* the same holds for a map key: ill-formed keys do not survive either *)
Example bad_key_decodes :
  decode_json [] [] ps_empty 0 toy_parse 3 (TMap (TPrim PInt))
    (render_json toy_fmt false 0 (DObj [([xc3], DLeaf (LInt 1))])) = DOk (VMap [([xef; xbf; xbd], VInt 1)]).
Proof. vm_compute. reflexivity. Qed.

(* ---- non-vacuity: the example schema of Ror2RoundTrip (include, optional map, default, array of unions) ---- *)
Lemma ex_env_utf8 : env_utf8 ex_env.
Proof.
  split.
  - intros n incs fs H. destruct n as [|[|[|n]]]; cbn in H; try discriminate; try (destruct n; discriminate); injection H as <- <-;
      repeat constructor.
  - intros n nullable ms H. destruct n as [|[|[|n]]]; cbn in H; try discriminate; try (destruct n; discriminate).
    injection H as <- <-. repeat constructor.
Qed.
Lemma ex_v_utf8 : val_utf8 ex_v.
Proof.
  unfold ex_v.
  repeat first [ apply vu_rec | apply vu_arr | apply vu_map | apply vu_union
               | apply Forall_cons | apply Forall_nil | split
               | (let x := fresh in let E := fresh in intros x E; first [discriminate E | injection E as <-])
               | (apply vu_leaf; exact I) | (apply vu_leaf; reflexivity) | reflexivity ].
Qed.

Example json_nonvacuous :
  exists d, enc ex_env [] ps_empty 10 [] (TRef 2) ex_v = Ok d /\ doc_utf8 d /\
    decode_json ex_env [] ps_empty 0 toy_parse 30 (TRef 2) (render_json toy_fmt false 0 d)
      = DOk (expect toy_parse ex_env [] 0 ex_v 30 (TRef 2)) /\
    decode_json ex_env [] ps_empty 0 toy_parse 30 (TRef 2) (render_json toy_fmt true 0 d)
      = DOk (expect toy_parse ex_env [] 0 ex_v 30 (TRef 2)).
Proof.
  eexists. split; [vm_compute; reflexivity|]. split.
  - eapply (enc_doc_utf8 ex_env [] 10 [] (TRef 2) ex_v); [exact ex_env_utf8 | exact I | exact ex_v_utf8 | vm_compute; reflexivity].
  - split; vm_compute; reflexivity.
Qed.

(* ---- both wire formats decode to the same value ---- *)
Theorem toy_oracle_ror2 : float_oracle_ok toy_fmt toy_parse.
Proof.
  destruct json_float_oracle_consistent as (_ & A & B). split; [|split].
  - intros is32 b. apply print_dec_nonempty.
  - exact A.
  - intros b Hb Hn. specialize (B b Hb Hn). unfold float_text in *. destruct (classify_float true b); exact B.
Qed.

Theorem json_ror2_same_value fmtF parseF e wc ignore fl qr fe scope t v d fd qp pretty :
  float_oracle_ok fmtF parseF -> json_float_oracle_ok fmtF parseF ->
  wf_env e -> wf_ty t -> typed e t v -> env_utf8 e -> ty_utf8 t -> val_utf8 v ->
  enc e wc ps_empty fe scope t v = Ok d -> vsize v <= fd ->
  decode_json e wc ps_empty ignore parseF fd t (render_json fmtF pretty 0 d) =
  decode_ror2 e wc ps_empty ignore parseF (unescape (plus_of fl)) v2_empty_string v2_list_prefix qr fd qp t
    (render_ror2 fmtF v2_hex_chars v2_unescaped_path_chars v2_unescaped_query_chars v2_header_escaped_chars
       v2_empty_string v2_list_prefix fl d).
Proof.
  intros Hr Hj Hw Hwt Ht Hue Hut Huv He Hs.
  rewrite (json_roundtrip fmtF parseF e wc ignore fe scope t v d fd pretty Hj Hw Hwt Ht Hue Hut Huv He Hs).
  symmetry. eapply L4_toplevel; eassumption.
Qed.
