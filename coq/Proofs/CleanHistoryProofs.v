(* Proofs for Props/C20_history.v: histories of generator runs (Gen2/CleanHistory.v) on one output directory. *)
From Coq Require Import List Bool Arith Lia Setoid.
From Coq.Strings Require Import Byte.
From GR Require Import Base.Bytes Gen2.Clean Gen2.CleanHistory Proofs.CleanProofs.
Import ListNotations.

(* ---------- file_in over list surgery ---------- *)

Lemma file_in_app a b p c : file_in (a ++ b) p c <-> file_in a p c \/ file_in b p c.
Proof.
  split.
  - intros H. inversion H as [cs nm c0 Hin | cs nm sub p' c0 Hin Hsub]; subst;
      apply in_app_or in Hin as [Hin | Hin].
    + left. apply fi_here. exact Hin.
    + right. apply fi_here. exact Hin.
    + left. eapply fi_sub; eassumption.
    + right. eapply fi_sub; eassumption.
  - intros [H | H].
    + eapply file_in_mono; [|exact H]. apply incl_appl, incl_refl.
    + eapply file_in_mono; [|exact H]. apply incl_appr, incl_refl.
Qed.

Lemma file_in_cons x l p c : file_in (x :: l) p c <-> file_in [x] p c \/ file_in l p c.
Proof. exact (file_in_app [x] l p c). Qed.

Lemma file_in_mid l1 x l2 p c : file_in (l1 ++ x :: l2) p c <-> file_in [x] p c \/ file_in (l1 ++ l2) p c.
Proof.
  split.
  - intros H. apply file_in_app in H as [H | H].
    + right. apply file_in_app. left. exact H.
    + apply file_in_cons in H as [H | H]; [left; exact H | right; apply file_in_app; right; exact H].
  - intros [H | H].
    + apply file_in_app. right. apply file_in_cons. left. exact H.
    + apply file_in_app in H as [H | H]; apply file_in_app; [left; exact H | right; apply file_in_cons; right; exact H].
Qed.

Lemma file_in_single_file nm c p c0 : file_in [File nm c] p c0 <-> p = [nm] /\ c0 = c.
Proof.
  split.
  - intros H. inversion H as [cs nm0 c1 Hin | cs nm0 sub p' c1 Hin Hsub]; subst;
      (destruct Hin as [Heq | []]); inversion Heq; subst; auto.
  - intros [-> ->]. apply fi_here. left. reflexivity.
Qed.

Lemma file_in_single_dir nm sub p c : file_in [Dir nm sub] p c <-> exists p', p = nm :: p' /\ file_in sub p' c.
Proof.
  split.
  - intros H. inversion H as [cs nm0 c1 Hin | cs nm0 sub0 p' c1 Hin Hsub]; subst;
      (destruct Hin as [Heq | []]); inversion Heq; subst. exists p'. auto.
  - intros (p' & -> & H). eapply fi_sub; [left; reflexivity | exact H].
Qed.

Lemma In_insert_node n l x : In x (insert_node n l) <-> x = n \/ In x l.
Proof.
  induction l as [|y r IH]; simpl.
  - intuition congruence.
  - destruct (bytes_ltb (node_name n) (node_name y)); simpl; [|rewrite IH]; intuition congruence.
Qed.

Lemma file_in_insert n l p c : file_in (insert_node n l) p c <-> file_in [n] p c \/ file_in l p c.
Proof.
  rewrite <- file_in_cons. split; apply file_in_mono; intros x Hx.
  - apply In_insert_node in Hx. simpl. intuition congruence.
  - apply In_insert_node. simpl in Hx. intuition congruence.
Qed.

(* ---------- replace_entry / put_file ---------- *)

Lemma replace_entry_spec nm c l :
  replace_entry nm c l = (l, false) \/
  exists l1 x l2, l = l1 ++ x :: l2 /\ replace_entry nm c l = (l1 ++ File nm c :: l2, true) /\
                  (x = Dir nm [] \/ exists c0, x = File nm c0).
Proof.
  induction l as [|x r IH]; [left; reflexivity|].
  simpl. destruct (bytes_eqb (node_name x) nm) eqn:E.
  - apply bytes_eqb_eq in E. destruct x as [fn fc | dn [|s0 ss]]; simpl in E.
    + subst fn. right. exists [], (File nm fc), r. split; [reflexivity|]. split; [reflexivity|]. right. eauto.
    + subst dn. right. exists [], (Dir nm []), r. split; [reflexivity|]. split; [reflexivity|]. left. reflexivity.
    + left. reflexivity.
  - destruct IH as [E2 | (l1 & y & l2 & El & E2 & Hy)].
    + rewrite E2. left. reflexivity.
    + right. exists (x :: l1), y, l2. split; [rewrite El; reflexivity|]. split; [rewrite E2; reflexivity | exact Hy].
Qed.

Lemma put_file_facts nm c cs :
  (forall p c0, p <> [nm] -> file_in cs p c0 -> file_in (fst (put_file nm c cs)) p c0) /\
  (forall p c0, file_in (fst (put_file nm c cs)) p c0 -> (p = [nm] /\ c0 = c) \/ file_in cs p c0) /\
  (snd (put_file nm c cs) = true -> file_in (fst (put_file nm c cs)) [nm] c).
Proof.
  unfold put_file. destruct (has_entry nm cs).
  - destruct (replace_entry_spec nm c cs) as [E | (l1 & x & l2 & El & E & Hx)]; rewrite E; simpl fst; simpl snd.
    + split; [auto | split; [auto | discriminate]].
    + subst cs. split; [|split].
      * intros p c0 Hne H. apply file_in_mid in H. apply file_in_mid. destruct H as [H | H]; [|right; exact H].
        exfalso. destruct Hx as [-> | (c1 & ->)].
        -- apply file_in_single_dir in H as (p' & _ & H). exact (file_in_nil _ _ H).
        -- apply file_in_single_file in H as [-> _]. apply Hne; reflexivity.
      * intros p c0 H. apply file_in_mid in H. destruct H as [H | H].
        -- left. apply file_in_single_file in H. exact H.
        -- right. apply file_in_mid. right. exact H.
      * intros _. apply file_in_mid. left. apply file_in_single_file. auto.
  - simpl fst; simpl snd. split; [|split].
    + intros p c0 _ H. apply file_in_insert. right; exact H.
    + intros p c0 H. apply file_in_insert in H. destruct H as [H | H].
      * left. apply file_in_single_file in H. exact H.
      * right. exact H.
    + intros _. apply file_in_insert. left. apply file_in_single_file; auto.
Qed.

(* ---------- write_file ---------- *)

(* the inner loop of write_file as a top-level function *)
Fixpoint scan (d : bytes) (f : list node -> list node * bool) (l : list node) : list node * bool :=
  match l with
  | [] => ([], false)
  | x :: r =>
      if bytes_eqb (node_name x) d then
        match x with
        | File _ _ => (l, false)
        | Dir dn sub => let '(sub', ok) := f sub in (Dir dn sub' :: r, ok)
        end
      else let '(r', ok) := scan d f r in (x :: r', ok)
  end.

Lemma write_file_cons2 d rest c cs : rest <> [] ->
  write_file (d :: rest) c cs =
    if has_entry d cs then scan d (write_file rest c) cs
    else let '(sub', ok) := write_file rest c [] in (insert_node (Dir d sub') cs, ok).
Proof.
  intros Hne. simpl. destruct rest as [|e rest']; [congruence|].
  generalize (write_file (e :: rest') c). intros f.
  destruct (has_entry d cs); [|reflexivity].
  induction cs as [|x r IH]; [reflexivity|].
  simpl. destruct (bytes_eqb (node_name x) d); [reflexivity|].
  exact (f_equal (fun z : list node * bool => let '(r', ok) := z in (x :: r', ok)) IH).
Qed.

Lemma scan_spec d f l :
  scan d f l = (l, false) \/
  exists l1 sub l2, l = l1 ++ Dir d sub :: l2 /\ scan d f l = (l1 ++ Dir d (fst (f sub)) :: l2, snd (f sub)).
Proof.
  induction l as [|x r IH]; [left; reflexivity|].
  simpl. destruct (bytes_eqb (node_name x) d) eqn:E.
  - apply bytes_eqb_eq in E. destruct x as [fn fc | dn sub]; simpl in E.
    + left. reflexivity.
    + subst dn. right. exists [], sub, r. split; [reflexivity|]. destruct (f sub) as [sub' ok]. reflexivity.
  - destruct IH as [E2 | (l1 & sub & l2 & El & E2)].
    + rewrite E2. left. reflexivity.
    + right. exists (x :: l1), sub, l2. split; [rewrite El; reflexivity|]. rewrite E2. reflexivity.
Qed.

Lemma write_file_facts q : forall c' cs,
  (forall p c, p <> q -> file_in cs p c -> file_in (fst (write_file q c' cs)) p c) /\
  (forall p c, file_in (fst (write_file q c' cs)) p c -> (p = q /\ c = c') \/ file_in cs p c) /\
  (snd (write_file q c' cs) = true -> file_in (fst (write_file q c' cs)) q c').
Proof.
  induction q as [|d rest IH]; intros c' cs.
  - simpl. split; [auto | split; [auto | discriminate]].
  - destruct rest as [|e rest'].
    + change (write_file [d] c' cs) with (put_file d c' cs). apply put_file_facts.
    + assert (Hne : e :: rest' <> []) by discriminate.
      revert IH Hne. generalize (e :: rest'). intros rest IH Hne.
      rewrite (write_file_cons2 d rest c' cs Hne).
      destruct (has_entry d cs).
      * destruct (scan_spec d (write_file rest c') cs) as [E | (l1 & sub & l2 & El & E)]; rewrite E; simpl fst; simpl snd.
        -- split; [auto | split; [auto | discriminate]].
        -- subst cs. destruct (IH c' sub) as (A & B & C). split; [|split].
           ++ intros p c Hpq H. apply file_in_mid in H. apply file_in_mid. destruct H as [H | H]; [|right; exact H].
              left. apply file_in_single_dir in H as (p' & -> & H). apply file_in_single_dir.
              exists p'. split; [reflexivity|]. apply A; [congruence | exact H].
           ++ intros p c H. apply file_in_mid in H. destruct H as [H | H].
              ** apply file_in_single_dir in H as (p' & -> & H). destruct (B _ _ H) as [(-> & ->) | H2].
                 --- left. auto.
                 --- right. apply file_in_mid. left. apply file_in_single_dir. eauto.
              ** right. apply file_in_mid. right. exact H.
           ++ intros Hs. apply file_in_mid. left. apply file_in_single_dir. exists rest. split; [reflexivity | auto].
      * destruct (IH c' []) as (A & B & C).
        destruct (write_file rest c' []) as [sub' ok]. simpl fst in *; simpl snd in *. split; [|split].
        -- intros p c _ H. apply file_in_insert. right. exact H.
        -- intros p c H. apply file_in_insert in H. destruct H as [H | H]; [|right; exact H].
           apply file_in_single_dir in H as (p' & -> & H). destruct (B _ _ H) as [(-> & ->) | H2].
           ++ left. auto.
           ++ destruct (file_in_nil _ _ H2).
        -- intros Hs. apply file_in_insert. left. apply file_in_single_dir. exists rest. split; [reflexivity | auto].
Qed.

Lemma write_touches_only_its_path : forall q c' cs p c,
  p <> q ->
  (file_in cs p c -> file_in (fst (write_file q c' cs)) p c) /\
  (file_in (fst (write_file q c' cs)) p c -> file_in cs p c).
Proof.
  intros q c' cs p c Hpq. destruct (write_file_facts q c' cs) as (A & B & _). split.
  - apply A. exact Hpq.
  - intros H. destruct (B _ _ H) as [(E & _) | H2]; [contradiction | exact H2].
Qed.

(* ---------- write_all ---------- *)

Lemma write_all_keeps ws : forall cs p c,
  (forall q c', In (q, c') ws -> p <> q) -> file_in cs p c -> file_in (fst (write_all ws cs)) p c.
Proof.
  induction ws as [|[q c'] r IH]; intros cs p c Hd H; [exact H|].
  simpl. destruct (write_file_facts q c' cs) as (A & _).
  assert (H1 : file_in (fst (write_file q c' cs)) p c).
  { apply A; [|exact H]. apply (Hd q c'). left. reflexivity. }
  destruct (write_file q c' cs) as [cs' ok]. simpl fst in H1. destruct ok.
  - apply IH; [|exact H1]. intros q0 c0 Hin. apply (Hd q0 c0). right. exact Hin.
  - exact H1.
Qed.

Lemma write_all_sound ws : forall cs p c,
  file_in (fst (write_all ws cs)) p c -> In (p, c) ws \/ file_in cs p c.
Proof.
  induction ws as [|[q c'] r IH]; intros cs p c H; [right; exact H|].
  simpl in H. destruct (write_file_facts q c' cs) as (_ & B & _).
  destruct (write_file q c' cs) as [cs' ok]. simpl fst in B.
  assert (H1 : file_in cs' p c -> In (p, c) ((q, c') :: r) \/ file_in cs p c).
  { intros H1. destruct (B _ _ H1) as [(-> & ->) | H2]; [left; left; reflexivity | right; exact H2]. }
  destruct ok.
  - destruct (IH _ _ _ H) as [Hin | H2]; [left; right; exact Hin | apply H1; exact H2].
  - apply H1. exact H.
Qed.

Lemma write_all_complete ws : forall cs p c,
  NoDup (map fst ws) -> snd (write_all ws cs) = true -> In (p, c) ws -> file_in (fst (write_all ws cs)) p c.
Proof.
  induction ws as [|[q c'] r IH]; intros cs p c Hnd Hs Hin; [destruct Hin|].
  simpl in Hnd. inversion Hnd as [|q0 l0 Hnotin Hnd']; subst.
  simpl in Hs |- *. destruct (write_file_facts q c' cs) as (_ & _ & C).
  destruct (write_file q c' cs) as [cs' ok]. simpl fst in C; simpl snd in C.
  destruct ok; [|simpl in Hs; discriminate].
  destruct Hin as [Heq | Hin].
  - inversion Heq; subst. apply write_all_keeps; [|apply C; reflexivity].
    intros q0 c0 Hin0 ->. apply Hnotin. apply (in_map fst) in Hin0. exact Hin0.
  - apply IH; assumption.
Qed.

(* ---------- one run, histories ---------- *)

Section Rounds.
  Variable suffix manifest : bytes.
  Notation owned := (owned suffix manifest).
  Notation owned_writes := (owned_writes suffix manifest).
  Notation gen_round := (gen_round suffix manifest).
  Notation run_history := (run_history suffix manifest).
  Notation after := (after suffix manifest).
  Notation succeeded := (succeeded suffix manifest).

  Lemma gen_round_eq dot ws cs :
    gen_round dot ws cs =
      if succeeded (Some (dot, cs)) then write_all ws (after (Some (dot, cs))) else (after (Some (dot, cs)), false).
  Proof.
    unfold CleanHistory.gen_round, CleanProofs.after, CleanProofs.succeeded.
    destruct (clean_target suffix manifest (Some (dot, cs))) as [o ok]. reflexivity.
  Qed.

  Lemma owned_writes_in ws q c' : owned_writes ws = true -> In (q, c') ws -> owned (basename q) = true.
  Proof.
    unfold CleanHistory.owned_writes. intros H Hin. rewrite forallb_forall in H. exact (H _ Hin).
  Qed.

  Lemma round_keeps_foreign dot ws cs p c :
    owned_writes ws = true -> file_in cs p c -> owned (basename p) = false ->
    file_in (fst (gen_round dot ws cs)) p c.
  Proof.
    intros Hw Hin Ho. rewrite gen_round_eq.
    pose proof (foreign_files_preserved suffix manifest dot cs p c Hin Ho) as H1.
    destruct (succeeded (Some (dot, cs))); [|exact H1].
    apply write_all_keeps; [|exact H1].
    intros q c' Hq ->. rewrite (owned_writes_in _ _ _ Hw Hq) in Ho. discriminate.
  Qed.

  Lemma history_keeps_foreign h : forall cs p c,
    Forall (fun r => owned_writes (snd r) = true) h ->
    file_in cs p c -> owned (basename p) = false ->
    file_in (run_history h cs) p c.
  Proof.
    induction h as [|[dot ws] r IH]; intros cs p c HF Hin Ho; [exact Hin|].
    inversion HF as [|x l Hw HF']; subst. simpl in Hw. simpl.
    apply IH; [exact HF' | | exact Ho]. apply round_keeps_foreign; assumption.
  Qed.

  Lemma round_owned dot ws cs :
    owned_writes ws = true -> NoDup (map fst ws) ->
    snd (gen_round dot ws cs) = true ->
    forall p c, owned (basename p) = true ->
      (file_in (fst (gen_round dot ws cs)) p c <-> In (p, c) ws).
  Proof.
    intros Hw Hnd Hs p c Ho. rewrite gen_round_eq in Hs |- *.
    destruct (succeeded (Some (dot, cs))) eqn:ES; [|simpl in Hs; discriminate].
    split.
    - intros H. apply write_all_sound in H as [H | H]; [exact H|].
      destruct (success_leaves_no_owned suffix manifest dot cs ES) as (D & _).
      rewrite (D _ _ H) in Ho. discriminate.
    - intros H. apply write_all_complete; assumption.
  Qed.
End Rounds.

Lemma history_keeps_foreign_files : forall suffix manifest h cs p c,
  Forall (fun r => owned_writes suffix manifest (snd r) = true) h ->
  file_in cs p c -> owned suffix manifest (basename p) = false ->
  file_in (run_history suffix manifest h cs) p c.
Proof. intros suffix manifest h cs p c. apply history_keeps_foreign. Qed.

Lemma round_owned_files_are_the_written_ones : forall suffix manifest dot ws cs,
  owned_writes suffix manifest ws = true -> NoDup (map fst ws) ->
  snd (gen_round suffix manifest dot ws cs) = true ->
  forall p c, owned suffix manifest (basename p) = true ->
    (file_in (fst (gen_round suffix manifest dot ws cs)) p c <-> In (p, c) ws).
Proof. exact round_owned. Qed.

Lemma regeneration_after_any_history : forall suffix manifest h dot ws cs,
  Forall (fun r => owned_writes suffix manifest (snd r) = true) h ->
  owned_writes suffix manifest ws = true -> NoDup (map fst ws) ->
  let st := run_history suffix manifest h cs in
  snd (gen_round suffix manifest dot ws st) = true ->
  (forall p c, file_in cs p c -> owned suffix manifest (basename p) = false ->
               file_in (fst (gen_round suffix manifest dot ws st)) p c) /\
  (forall p c, owned suffix manifest (basename p) = true ->
               (file_in (fst (gen_round suffix manifest dot ws st)) p c <-> In (p, c) ws)).
Proof.
  intros suffix manifest h dot ws cs HF Hw Hnd st Hs. split.
  - intros p c Hin Ho. apply round_keeps_foreign; [exact Hw | | exact Ho].
    apply history_keeps_foreign_files; assumption.
  - apply round_owned; assumption.
Qed.

Lemma regeneration_reproduces : forall suffix manifest h1 h2 dot1 dot2 ws cs1 cs2,
  Forall (fun r => owned_writes suffix manifest (snd r) = true) h1 ->
  Forall (fun r => owned_writes suffix manifest (snd r) = true) h2 ->
  owned_writes suffix manifest ws = true -> NoDup (map fst ws) ->
  snd (gen_round suffix manifest dot1 ws (run_history suffix manifest h1 cs1)) = true ->
  snd (gen_round suffix manifest dot2 ws (run_history suffix manifest h2 cs2)) = true ->
  forall p c, owned suffix manifest (basename p) = true ->
    (file_in (fst (gen_round suffix manifest dot1 ws (run_history suffix manifest h1 cs1))) p c <->
     file_in (fst (gen_round suffix manifest dot2 ws (run_history suffix manifest h2 cs2))) p c).
Proof.
  intros suffix manifest h1 h2 dot1 dot2 ws cs1 cs2 _ _ Hw Hnd Hs1 Hs2 p c Ho.
  pose proof (round_owned suffix manifest dot1 ws _ Hw Hnd Hs1 p c Ho) as E1.
  pose proof (round_owned suffix manifest dot2 ws _ Hw Hnd Hs2 p c Ho) as E2.
  split; intros H.
  - apply E2. apply E1. exact H.
  - apply E1. apply E2. exact H.
Qed.
