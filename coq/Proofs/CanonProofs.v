(* CanonProofs: the v2 encoder is canonical.  The document produced by [enc] (Codec/Encode.v) does not depend on the order
   in which the entries of any map (at any depth) were supplied, and every object of the output has strictly ascending keys. *)
From Coq Require Import List Bool Arith ZArith NArith Lia Permutation Sorting.Sorted.
From Coq.Strings Require Import Byte.
From GR Require Import Base.Bytes Base.Res Codec.Schema Codec.Doc Codec.Escape Codec.Render Codec.Encode Proofs.SortProofs.
Import ListNotations.

(* ------------------------------------------------------------------------------------------------------------------ *)
(* 1. The body of [enc], one level unfolded, with the recursive call abstracted as [rec].                              *)
(* ------------------------------------------------------------------------------------------------------------------ *)
Section Body.
  Variable e : env.
  Variable wildcard : bytes.
  Variable excl : pathspec.
  Variable rec : list bytes -> ty -> value -> res doc.

  Definition enc_key (scope : list bytes) (key : bytes) (t' : ty) (v' : value) : res (list (bytes * doc)) :=
    let scope' := scope ++ [key] in
    if excluded wildcard excl scope' then do _ <- enc_noop t' v'; Ok []
    else do d <- rec scope' t' v'; Ok [(key, d)].

  Definition fields_entries (scope : list bytes) : list field -> list (option value) -> res (list (bytes * doc)) :=
    fix fields_entries (fs : list field) (vs : list (option value)) : res (list (bytes * doc)) :=
    match fs, vs with
    | [], [] => Ok []
    | fd :: fs', ov :: vs' =>
        do here <- match ov with
                   | Some v' => enc_key scope (f_name fd) (f_ty fd) v'
                   | None => if is_required (f_opt fd) then Err EType else Ok []
                   end;
        do rest <- fields_entries fs' vs';
        Ok (here ++ rest)
    | _, _ => Err EType
    end.

  Definition map_entries (scope : list bytes) (t' : ty) : list (bytes * value) -> res (list (bytes * doc)) :=
    fix go (l : list (bytes * value)) : res (list (bytes * doc)) :=
    match l with
    | [] => Ok []
    | (k, v') :: r => do a <- enc_key scope k t' v'; do b <- go r; Ok (a ++ b)
    end.

  Definition inc_entries (scope : list bytes) : list nat -> list value -> res (list (bytes * doc)) :=
    fix go (is : list nat) (vs : list value) : res (list (bytes * doc)) :=
    match is, vs with
    | [], [] => Ok []
    | i :: is', iv :: vs' =>
        do d <- rec scope (TRef i) iv;
        do a <- match d with DObj ents => Ok ents | _ => Err EType end;
        do b <- go is' vs';
        Ok (a ++ b)
    | _, _ => Err EType
    end.

  Definition union_entries (scope : list bytes)
    : list (bytes * ty) -> list (option value) -> bool -> res (list (bytes * doc) * bool) :=
    fix go (mts : list (bytes * ty)) (vs : list (option value)) (isSet : bool) : res (list (bytes * doc) * bool) :=
    match mts, vs with
    | [], [] => Ok ([], isSet)
    | (alias, mt) :: mts', ov :: vs' =>
        match ov with
        | None => go mts' vs' isSet
        | Some v' =>
            if isSet then Err EUnion
            else do a <- enc_key scope alias mt v';
                 do br <- go mts' vs' true;
                 Ok (a ++ fst br, snd br)
        end
    | _, _ => Err EType
    end.

  Definition enc_body (scope : list bytes) (t : ty) (v : value) : res doc :=
    match t, v with
    | TPrim PInt, VInt z => Ok (DLeaf (LInt z))
    | TPrim PLong, VLong z => Ok (DLeaf (LInt z))
    | TPrim PFloat, VFloat b => Ok (DLeaf (LFloat true b))
    | TPrim PDouble, VDouble b => Ok (DLeaf (LFloat false b))
    | TPrim PBool, VBool b => Ok (DLeaf (LBool b))
    | TPrim PString, VStr s => Ok (DLeaf (LStr s))
    | TPrim PBytes, VBytes s => Ok (DLeaf (LBytes s))
    | TEnum syms, VEnum k =>
        match k with
        | 0 => Err EEnumConst
        | S i => match nth_error syms i with Some s => Ok (DLeaf (LStr s)) | None => Err EEnumConst end
        end
    | TFixed n, VFixed s => Ok (DLeaf (LBytes s))
    | TArray t', VArr l => do ds <- mapM (rec (scope ++ [wildcard]) t') l; Ok (DArr ds)
    | TMap t', VMap es => do ents <- map_entries scope t' es; Ok (DObj (sort_entries ents))
    | TRef n, VRec ivs fvs =>
        match lookup e n with
        | Some (DRecord incs fs) =>
            do inc_ents <- inc_entries scope incs ivs;
            do own <- fields_entries scope fs fvs;
            Ok (DObj (sort_entries (inc_ents ++ own)))
        | _ => Err EType
        end
    | TRef n, VUnion ms =>
        match lookup e n with
        | Some (DUnion nullable members) =>
            do ents <- union_entries scope members ms false;
            if negb nullable && negb (snd ents) then Err EUnion
            else Ok (DObj (sort_entries (fst ents)))
        | _ => Err EType
        end
    | _, _ => Err EType
    end.
End Body.

Lemma enc_0 e w x scope t v : enc e w x 0 scope t v = Err EFuel.
Proof. reflexivity. Qed.

Lemma enc_S e w x f scope t v : enc e w x (S f) scope t v = enc_body e w x (enc e w x f) scope t v.
Proof. reflexivity. Qed.

(* equations of the helpers (all by computation) *)
Section BodyEqns.
  Variables (w : bytes) (x : pathspec) (rec : list bytes -> ty -> value -> res doc) (scope : list bytes).

  Lemma map_entries_cons t' k v' r :
    map_entries w x rec scope t' ((k, v') :: r) =
    (do a <- enc_key w x rec scope k t' v'; do b <- map_entries w x rec scope t' r; Ok (a ++ b)).
  Proof. reflexivity. Qed.

  Lemma fields_entries_cons fd fs ov vs :
    fields_entries w x rec scope (fd :: fs) (ov :: vs) =
    (do here <- match ov with
                | Some v' => enc_key w x rec scope (f_name fd) (f_ty fd) v'
                | None => if is_required (f_opt fd) then Err EType else Ok []
                end;
     do rest <- fields_entries w x rec scope fs vs; Ok (here ++ rest)).
  Proof. reflexivity. Qed.

  Lemma inc_entries_cons i is iv vs :
    inc_entries rec scope (i :: is) (iv :: vs) =
    (do d <- rec scope (TRef i) iv;
     do a <- match d with DObj ents => Ok ents | _ => Err EType end;
     do b <- inc_entries rec scope is vs; Ok (a ++ b)).
  Proof. reflexivity. Qed.

  Lemma union_entries_cons alias mt mts ov vs isSet :
    union_entries w x rec scope ((alias, mt) :: mts) (ov :: vs) isSet =
    match ov with
    | None => union_entries w x rec scope mts vs isSet
    | Some v' =>
        if isSet then Err EUnion
        else do a <- enc_key w x rec scope alias mt v';
             do br <- union_entries w x rec scope mts vs true;
             Ok (a ++ fst br, snd br)
    end.
  Proof. reflexivity. Qed.
End BodyEqns.

(* ------------------------------------------------------------------------------------------------------------------ *)
(* 2. Outcomes up to the identity of the failure.                                                                      *)
(*    The model returns the FIRST error in list order, so when several entries of a map fail, two orders of the same    *)
(*    map may report different [Err] values (see [encode_perm_invariant_exact_refuted] in Props/C09.v).  Everything     *)
(*    else is preserved exactly.  [rrel R r1 r2] (working notion) = both Ok with R-related results, or both not Ok;     *)
(*    [res_equiv r1 r2] (final notion) = both Ok with the same result, or both [Err]; no panic on either side.         *)
(* ------------------------------------------------------------------------------------------------------------------ *)
Definition rrel {A} (R : A -> A -> Prop) (r1 r2 : res A) : Prop :=
  match r1, r2 with
  | Ok a, Ok b => R a b
  | Ok _, _ | _, Ok _ => False
  | _, _ => True
  end.

Definition res_equiv {A} (r1 r2 : res A) : Prop :=
  match r1, r2 with
  | Ok a, Ok b => a = b
  | Err _, Err _ => True
  | _, _ => False
  end.

Lemma rrel_refl {A} (R : A -> A -> Prop) r : (forall a, R a a) -> rrel R r r.
Proof. intros H; destruct r; simpl; auto. Qed.

Lemma rrel_eq_refl {A} (r : res A) : rrel eq r r.
Proof. apply rrel_refl; reflexivity. Qed.

Lemma rrel_trans {A} (R : A -> A -> Prop) r1 r2 r3 :
  (forall a b c, R a b -> R b c -> R a c) -> rrel R r1 r2 -> rrel R r2 r3 -> rrel R r1 r3.
Proof. intros HT; destruct r1, r2, r3; simpl; try tauto. apply HT. Qed.

Lemma rrel_bind {A B} (R : A -> A -> Prop) (S : B -> B -> Prop) r1 r2 (f g : A -> res B) :
  rrel R r1 r2 -> (forall a b, R a b -> rrel S (f a) (g b)) -> rrel S (bind r1 f) (bind r2 g).
Proof. destruct r1, r2; simpl; try tauto. intros H HF; apply HF; exact H. Qed.

Lemma res_equiv_of_rrel {A} (r1 r2 : res A) :
  rrel eq r1 r2 -> is_panic r1 = false -> is_panic r2 = false -> res_equiv r1 r2.
Proof. destruct r1, r2; simpl; try tauto; discriminate. Qed.

Lemma res_equiv_spec {A} (r1 r2 : res A) :
  res_equiv r1 r2 <->
  (is_ok r1 = is_ok r2 /\ is_panic r1 = false /\ is_panic r2 = false /\
   forall d1 d2, r1 = Ok d1 -> r2 = Ok d2 -> d1 = d2).
Proof.
  unfold res_equiv. destruct r1, r2; simpl; split; try tauto; try (intros [? [? [? ?]]]; discriminate).
  - intros ->. repeat split; congruence.
  - intros [_ [_ [_ H]]]. apply H; reflexivity.
  - intros _. repeat split; congruence.
Qed.

Lemma np_bind {A B} (r : res A) (f : A -> res B) :
  is_panic r = false -> (forall a, is_panic (f a) = false) -> is_panic (bind r f) = false.
Proof. destruct r; simpl; auto. Qed.

(* ------------------------------------------------------------------------------------------------------------------ *)
(* 3. Values up to the order of map entries; Go maps hold a key once.                                                  *)
(* ------------------------------------------------------------------------------------------------------------------ *)
Inductive oprel {A} (R : A -> A -> Prop) : option A -> option A -> Prop :=
| oprel_none : oprel R None None
| oprel_some a b : R a b -> oprel R (Some a) (Some b).

Inductive entry_rel {A} (R : A -> A -> Prop) : bytes * A -> bytes * A -> Prop :=
| entry_rel_intro k a b : R a b -> entry_rel R (k, a) (k, b).

(* the least congruence on values that allows permuting the entries of any VMap, at any depth *)
Inductive vperm : value -> value -> Prop :=
| vp_int z : vperm (VInt z) (VInt z)
| vp_long z : vperm (VLong z) (VLong z)
| vp_float b : vperm (VFloat b) (VFloat b)
| vp_double b : vperm (VDouble b) (VDouble b)
| vp_bool b : vperm (VBool b) (VBool b)
| vp_str s : vperm (VStr s) (VStr s)
| vp_bytes s : vperm (VBytes s) (VBytes s)
| vp_enum k : vperm (VEnum k) (VEnum k)
| vp_fixed s : vperm (VFixed s) (VFixed s)
| vp_rec i1 i2 f1 f2 : Forall2 vperm i1 i2 -> Forall2 (oprel vperm) f1 f2 -> vperm (VRec i1 f1) (VRec i2 f2)
| vp_union m1 m2 : Forall2 (oprel vperm) m1 m2 -> vperm (VUnion m1) (VUnion m2)
| vp_arr l1 l2 : Forall2 vperm l1 l2 -> vperm (VArr l1) (VArr l2)
| vp_map es1 es' es2 : Permutation es1 es' -> Forall2 (entry_rel vperm) es' es2 -> vperm (VMap es1) (VMap es2).

Inductive oall {A} (P : A -> Prop) : option A -> Prop :=
| oall_none : oall P None
| oall_some a : P a -> oall P (Some a).

(* every VMap, at any depth, has pairwise distinct keys *)
Inductive keys_nodup : value -> Prop :=
| kn_int z : keys_nodup (VInt z)
| kn_long z : keys_nodup (VLong z)
| kn_float b : keys_nodup (VFloat b)
| kn_double b : keys_nodup (VDouble b)
| kn_bool b : keys_nodup (VBool b)
| kn_str s : keys_nodup (VStr s)
| kn_bytes s : keys_nodup (VBytes s)
| kn_enum k : keys_nodup (VEnum k)
| kn_fixed s : keys_nodup (VFixed s)
| kn_rec i f : Forall keys_nodup i -> Forall (oall keys_nodup) f -> keys_nodup (VRec i f)
| kn_union m : Forall (oall keys_nodup) m -> keys_nodup (VUnion m)
| kn_arr l : Forall keys_nodup l -> keys_nodup (VArr l)
| kn_map es : NoDup (map fst es) -> Forall (fun kv => keys_nodup (snd kv)) es -> keys_nodup (VMap es).

Lemma enc_noop_vperm t v1 v2 : vperm v1 v2 -> enc_noop t v1 = enc_noop t v2.
Proof. intros H; inversion H; subst; destruct t; reflexivity. Qed.

(* shape of what one key contributes: nothing (excluded) or exactly one entry under that key *)
Lemma enc_key_shape w x rec scope k t v a :
  enc_key w x rec scope k t v = Ok a ->
  a = [] \/ exists d, a = [(k, d)] /\ rec (scope ++ [k]) t v = Ok d.
Proof.
  unfold enc_key. destruct (excluded w x (scope ++ [k])).
  - destruct (enc_noop t v); simpl; intros H; inversion H. left; reflexivity.
  - destruct (rec (scope ++ [k]) t v) as [d| |]; simpl; intros H; inversion H. right. exists d. split; reflexivity.
Qed.

Lemma map_entries_shape w x rec scope t es ents :
  map_entries w x rec scope t es = Ok ents ->
  (NoDup (map fst es) -> NoDup (map fst ents)) /\
  incl (map fst ents) (map fst es) /\
  Forall (fun kd => exists v, In (fst kd, v) es /\ rec (scope ++ [fst kd]) t v = Ok (snd kd)) ents.
Proof.
  revert ents. induction es as [|[k v] r IH]; intros ents H.
  - simpl in H. inversion H; subst. simpl. repeat split; [auto | apply incl_refl | constructor].
  - rewrite map_entries_cons in H.
    destruct (enc_key w x rec scope k t v) as [a| |] eqn:Ea; simpl in H; try discriminate.
    destruct (map_entries w x rec scope t r) as [b| |] eqn:Eb; simpl in H; try discriminate.
    inversion H; subst ents; clear H.
    destruct (IH b eq_refl) as [IH1 [IH2 IH3]].
    assert (IH3' : Forall (fun kd => exists v0, In (fst kd, v0) ((k, v) :: r) /\ rec (scope ++ [fst kd]) t v0 = Ok (snd kd)) b).
    { rewrite Forall_forall in *. intros kd Hkd. destruct (IH3 kd Hkd) as [v0 [Hin Hr]]. exists v0. split; [right; exact Hin | exact Hr]. }
    apply enc_key_shape in Ea as [->|[d [-> Hd]]]; simpl.
    + repeat split.
      * intros HN. inversion HN; subst. auto.
      * apply incl_tl; exact IH2.
      * exact IH3'.
    + repeat split.
      * intros HN. inversion HN as [|? ? Hk HNr]; subst. constructor; [|auto].
        intros Hin. apply Hk. apply IH2. exact Hin.
      * intros y [<-|Hy]; [left; reflexivity | right; apply IH2; exact Hy].
      * constructor; [|exact IH3']. simpl. exists v. split; [left; reflexivity | exact Hd].
Qed.

(* ------------------------------------------------------------------------------------------------------------------ *)
(* 4. Invariance of the encoder under [vperm].                                                                         *)
(* ------------------------------------------------------------------------------------------------------------------ *)
Section Invariance.
  Variables (e : env) (w : bytes) (x : pathspec) (rec : list bytes -> ty -> value -> res doc).
  Hypothesis Hrec : forall scope t v1 v2, vperm v1 v2 -> keys_nodup v1 -> rrel eq (rec scope t v1) (rec scope t v2).

  Lemma enc_key_inv scope k t v1 v2 :
    vperm v1 v2 -> keys_nodup v1 -> rrel eq (enc_key w x rec scope k t v1) (enc_key w x rec scope k t v2).
  Proof.
    intros Hv Hk. unfold enc_key. destruct (excluded w x (scope ++ [k])).
    - rewrite (enc_noop_vperm t v1 v2 Hv). apply rrel_eq_refl.
    - eapply rrel_bind; [apply Hrec; assumption|]. intros a b ->. simpl. reflexivity.
  Qed.

  (* the same entries in another order: the collected entries are a permutation (or both runs fail) *)
  Lemma map_entries_perm scope t es1 es2 :
    Permutation es1 es2 ->
    rrel (@Permutation _) (map_entries w x rec scope t es1) (map_entries w x rec scope t es2).
  Proof.
    induction 1 as [|[k v] l l' HP IH|[k1 v1] [k2 v2] l|l l' l'' HP1 IH1 HP2 IH2].
    - simpl. constructor.
    - rewrite !map_entries_cons.
      eapply rrel_bind; [apply (rrel_refl eq); reflexivity|]. intros a b ->.
      eapply rrel_bind; [exact IH|]. intros c d Hcd. simpl. apply Permutation_app_head. exact Hcd.
    - rewrite !map_entries_cons.
      destruct (enc_key w x rec scope k1 t v1) as [a| |]; destruct (enc_key w x rec scope k2 t v2) as [b| |];
        destruct (map_entries w x rec scope t l) as [c| |]; simpl; trivial.
      rewrite !app_assoc. apply Permutation_app_tail. apply Permutation_app_comm.
    - eapply rrel_trans; [intros ? ? ?; apply Permutation_trans | exact IH1 | exact IH2].
  Qed.

  Lemma map_entries_pointwise scope t es1 es2 :
    Forall2 (entry_rel vperm) es1 es2 -> Forall (fun kv => keys_nodup (snd kv)) es1 ->
    rrel eq (map_entries w x rec scope t es1) (map_entries w x rec scope t es2).
  Proof.
    induction 1 as [|a b l1 l2 Hab HF IH]; intros HK.
    - apply rrel_eq_refl.
    - inversion HK as [|? ? Ha Hl]; subst. destruct Hab as [k v1 v2 Hv]. rewrite !map_entries_cons.
      eapply rrel_bind; [apply enc_key_inv; [exact Hv | exact Ha]|]. intros p q ->.
      eapply rrel_bind; [apply IH; exact Hl|]. intros c d ->. simpl. reflexivity.
  Qed.

  Lemma mapM_inv scope t l1 l2 :
    Forall2 vperm l1 l2 -> Forall keys_nodup l1 -> rrel eq (mapM (rec scope t) l1) (mapM (rec scope t) l2).
  Proof.
    induction 1 as [|a b l1 l2 Hab HF IH]; intros HK.
    - apply rrel_eq_refl.
    - inversion HK as [|? ? Ha Hl]; subst. simpl.
      eapply rrel_bind; [apply Hrec; [exact Hab | exact Ha]|]. intros p q ->.
      eapply rrel_bind; [apply IH; exact Hl|]. intros c d ->. simpl. reflexivity.
  Qed.

  Lemma inc_entries_inv scope incs l1 l2 :
    Forall2 vperm l1 l2 -> Forall keys_nodup l1 ->
    rrel eq (inc_entries rec scope incs l1) (inc_entries rec scope incs l2).
  Proof.
    intros HF. revert incs. induction HF as [|a b l1 l2 Hab HF IH]; intros incs HK.
    - apply rrel_eq_refl.
    - inversion HK as [|? ? Ha Hl]; subst. destruct incs as [|i incs]; [simpl; exact I|].
      rewrite !inc_entries_cons.
      eapply rrel_bind; [apply Hrec; [exact Hab | exact Ha]|]. intros p q ->.
      eapply rrel_bind; [apply (rrel_refl eq); reflexivity|]. intros p' q' ->.
      eapply rrel_bind; [apply IH; exact Hl|]. intros c d ->. simpl. reflexivity.
  Qed.

  Lemma fields_entries_inv scope fs l1 l2 :
    Forall2 (oprel vperm) l1 l2 -> Forall (oall keys_nodup) l1 ->
    rrel eq (fields_entries w x rec scope fs l1) (fields_entries w x rec scope fs l2).
  Proof.
    intros HF. revert fs. induction HF as [|a b l1 l2 Hab HF IH]; intros fs HK.
    - apply rrel_eq_refl.
    - inversion HK as [|? ? Ha Hl]; subst. destruct fs as [|fd fs]; [simpl; exact I|].
      rewrite !fields_entries_cons.
      eapply rrel_bind.
      + destruct Hab as [|v1 v2 Hv]; [apply rrel_eq_refl|]. inversion Ha; subst. apply enc_key_inv; assumption.
      + intros p q ->. eapply rrel_bind; [apply IH; exact Hl|]. intros c d ->. simpl. reflexivity.
  Qed.

  Lemma union_entries_inv scope mts l1 l2 isSet :
    Forall2 (oprel vperm) l1 l2 -> Forall (oall keys_nodup) l1 ->
    rrel eq (union_entries w x rec scope mts l1 isSet) (union_entries w x rec scope mts l2 isSet).
  Proof.
    intros HF. revert mts isSet. induction HF as [|a b l1 l2 Hab HF IH]; intros mts isSet HK.
    - apply rrel_eq_refl.
    - inversion HK as [|? ? Ha Hl]; subst. destruct mts as [|[alias mt] mts]; [simpl; exact I|].
      rewrite !union_entries_cons.
      destruct Hab as [|v1 v2 Hv]; [apply IH; exact Hl|]. inversion Ha; subst.
      destruct isSet; [simpl; exact I|].
      eapply rrel_bind; [apply enc_key_inv; assumption|]. intros p q ->.
      eapply rrel_bind; [apply IH; exact Hl|]. intros c d ->. simpl. reflexivity.
  Qed.

  Lemma enc_body_inv scope t v1 v2 :
    vperm v1 v2 -> keys_nodup v1 -> rrel eq (enc_body e w x rec scope t v1) (enc_body e w x rec scope t v2).
  Proof.
    intros Hv Hk. inversion Hv; subst; try apply rrel_eq_refl; inversion Hk; subst.
    - (* VRec *)
      destruct t as [p|syms|sz|n|t'|t']; try destruct p; simpl; try exact I.
      destruct (lookup e n) as [[incs fs|nullable members]|]; simpl; try exact I.
      eapply rrel_bind; [apply inc_entries_inv; assumption|]. intros a b ->.
      eapply rrel_bind; [apply fields_entries_inv; assumption|]. intros c d ->. simpl. reflexivity.
    - (* VUnion *)
      destruct t as [p|syms|sz|n|t'|t']; try destruct p; simpl; try exact I.
      destruct (lookup e n) as [[incs fs|nullable members]|]; simpl; try exact I.
      eapply rrel_bind; [apply union_entries_inv; assumption|]. intros a b ->.
      apply (rrel_refl eq). reflexivity.
    - (* VArr *)
      destruct t as [p|syms|sz|n|t'|t']; try destruct p; simpl; try exact I.
      eapply rrel_bind; [apply mapM_inv; assumption|]. intros a b ->. simpl. reflexivity.
    - (* VMap *)
      destruct t as [p|syms|sz|n|t'|t']; try destruct p; simpl; try exact I.
      rename H into HP, H0 into HF, H2 into HN, H3 into HK.
      assert (HK' : Forall (fun kv => keys_nodup (snd kv)) es').
      { rewrite Forall_forall in *. intros y Hy. apply HK. apply (Permutation_in _ (Permutation_sym HP)). exact Hy. }
      pose proof (map_entries_perm scope t' _ _ HP) as H1.
      pose proof (map_entries_pointwise scope t' _ _ HF HK') as H2.
      destruct (map_entries w x rec scope t' es1) as [a| |] eqn:E1;
        destruct (map_entries w x rec scope t' es') as [b| |] eqn:E';
        destruct (map_entries w x rec scope t' es2) as [c| |] eqn:E2; simpl in *; try tauto; try discriminate.
      subst c. f_equal. apply sort_entries_perm_invariant; [exact H1|].
      apply (map_entries_shape _ _ _ _ _ _ _ E1). exact HN.
  Qed.
End Invariance.

Lemma encode_perm_invariant_rrel : forall e wildcard excl fuel scope t v1 v2,
  vperm v1 v2 -> keys_nodup v1 ->
  rrel eq (enc e wildcard excl fuel scope t v1) (enc e wildcard excl fuel scope t v2).
Proof.
  intros e w x fuel. induction fuel as [|f IH]; intros scope t v1 v2 Hv Hk.
  - simpl. exact I.
  - rewrite !enc_S. apply enc_body_inv; assumption.
Qed.

(* ------------------------------------------------------------------------------------------------------------------ *)
(* 5. The encoder never panics (for every value, schema and exclusion set).                                            *)
(* ------------------------------------------------------------------------------------------------------------------ *)
Section NoPanic.
  Variables (e : env) (w : bytes) (x : pathspec) (rec : list bytes -> ty -> value -> res doc).
  Hypothesis Hrec : forall scope t v, is_panic (rec scope t v) = false.

  Lemma enc_noop_np t v : is_panic (enc_noop t v) = false.
  Proof.
    destruct t; try reflexivity. destruct v; try reflexivity. simpl.
    destruct k; [reflexivity|]. destruct (nth_error symbols k); reflexivity.
  Qed.

  Lemma enc_key_np scope k t v : is_panic (enc_key w x rec scope k t v) = false.
  Proof.
    unfold enc_key. destruct (excluded w x (scope ++ [k])).
    - apply np_bind; [apply enc_noop_np | reflexivity].
    - apply np_bind; [apply Hrec | reflexivity].
  Qed.

  Lemma map_entries_np scope t es : is_panic (map_entries w x rec scope t es) = false.
  Proof.
    induction es as [|[k v] r IH]; [reflexivity|]. rewrite map_entries_cons.
    apply np_bind; [apply enc_key_np|]. intros a. apply np_bind; [exact IH | reflexivity].
  Qed.

  Lemma mapM_np scope t l : is_panic (mapM (rec scope t) l) = false.
  Proof.
    induction l as [|v r IH]; [reflexivity|]. simpl.
    apply np_bind; [apply Hrec|]. intros a. apply np_bind; [exact IH | reflexivity].
  Qed.

  Lemma inc_entries_np scope incs ivs : is_panic (inc_entries rec scope incs ivs) = false.
  Proof.
    revert ivs. induction incs as [|i incs IH]; intros [|iv ivs]; try reflexivity.
    rewrite inc_entries_cons. apply np_bind; [apply Hrec|]. intros d.
    apply np_bind; [destruct d; reflexivity|]. intros a. apply np_bind; [apply IH | reflexivity].
  Qed.

  Lemma fields_entries_np scope fs fvs : is_panic (fields_entries w x rec scope fs fvs) = false.
  Proof.
    revert fvs. induction fs as [|fd fs IH]; intros [|ov fvs]; try reflexivity.
    rewrite fields_entries_cons. apply np_bind.
    - destruct ov; [apply enc_key_np|]. destruct (is_required (f_opt fd)); reflexivity.
    - intros a. apply np_bind; [apply IH | reflexivity].
  Qed.

  Lemma union_entries_np scope mts vs isSet : is_panic (union_entries w x rec scope mts vs isSet) = false.
  Proof.
    revert vs isSet. induction mts as [|[alias mt] mts IH]; intros [|ov vs] isSet; try reflexivity.
    rewrite union_entries_cons. destruct ov; [|apply IH]. destruct isSet; [reflexivity|].
    apply np_bind; [apply enc_key_np|]. intros a. apply np_bind; [apply IH | reflexivity].
  Qed.

  Lemma enc_body_np scope t v : is_panic (enc_body e w x rec scope t v) = false.
  Proof.
    destruct t as [p|symbols|sz|n|t'|t']; try destruct p; destruct v; try reflexivity; simpl.
    - destruct k; [reflexivity|]. destruct (nth_error symbols k); reflexivity.
    - destruct (lookup e n) as [[incs0 fs0|nullable mems]|]; try reflexivity.
      apply np_bind; [apply inc_entries_np|]. intros a. apply np_bind; [apply fields_entries_np | reflexivity].
    - destruct (lookup e n) as [[incs0 fs0|nullable mems]|]; try reflexivity.
      apply np_bind; [apply union_entries_np|]. intros a.
      destruct (negb nullable && negb (snd a)); reflexivity.
    - apply np_bind; [apply mapM_np | reflexivity].
    - apply np_bind; [apply map_entries_np | reflexivity].
  Qed.
End NoPanic.

Theorem enc_no_panic : forall e wildcard excl fuel scope t v, is_panic (enc e wildcard excl fuel scope t v) = false.
Proof.
  intros e w x fuel. induction fuel as [|f IH]; intros scope t v; [reflexivity|].
  rewrite enc_S. apply enc_body_np. exact IH.
Qed.

(* THE THEOREM.  Strongest true form: the two outcomes agree up to WHICH error is reported (the model reports the first
   failing entry in list order, and the order is exactly what differs): both are Ok with the same document, or both are
   errors; neither panics. *)
Theorem encode_perm_invariant : forall e wildcard excl fuel scope t v1 v2,
  vperm v1 v2 -> keys_nodup v1 ->
  res_equiv (enc e wildcard excl fuel scope t v1) (enc e wildcard excl fuel scope t v2).
Proof.
  intros. apply res_equiv_of_rrel; [apply encode_perm_invariant_rrel; assumption | apply enc_no_panic | apply enc_no_panic].
Qed.

(* the exact-equality form, whenever one of the two runs succeeds *)
Corollary encode_perm_invariant_ok : forall e wildcard excl fuel scope t v1 v2 d,
  vperm v1 v2 -> keys_nodup v1 ->
  (enc e wildcard excl fuel scope t v1 = Ok d <-> enc e wildcard excl fuel scope t v2 = Ok d).
Proof.
  intros e w x fuel scope t v1 v2 d Hv Hk.
  pose proof (encode_perm_invariant e w x fuel scope t v1 v2 Hv Hk) as H.
  destruct (enc e w x fuel scope t v1), (enc e w x fuel scope t v2); simpl in H; try tauto; subst;
    split; intros E; try discriminate; exact E.
Qed.

(* byte level: whatever renderer is applied to the document (in particular the five wire formats: compact and pretty
   JSON, and ROR2 in its header, path and query flavours, for every escaping table and float formatter) *)
Definition render_res (rnd : doc -> bytes) (r : res doc) : res bytes := do d <- r; Ok (rnd d).

Corollary encode_bytes_perm_invariant : forall (rnd : doc -> bytes) e wildcard excl fuel scope t v1 v2,
  vperm v1 v2 -> keys_nodup v1 ->
  res_equiv (render_res rnd (enc e wildcard excl fuel scope t v1)) (render_res rnd (enc e wildcard excl fuel scope t v2)).
Proof.
  intros rnd e w x fuel scope t v1 v2 Hv Hk.
  pose proof (encode_perm_invariant e w x fuel scope t v1 v2 Hv Hk) as H. unfold render_res.
  destruct (enc e w x fuel scope t v1), (enc e w x fuel scope t v2); simpl in *; try tauto. subst; reflexivity.
Qed.

Corollary encode_json_perm_invariant : forall fmtF pretty depth e wildcard excl fuel scope t v1 v2,
  vperm v1 v2 -> keys_nodup v1 ->
  res_equiv (render_res (render_json fmtF pretty depth) (enc e wildcard excl fuel scope t v1))
            (render_res (render_json fmtF pretty depth) (enc e wildcard excl fuel scope t v2)).
Proof. intros. apply encode_bytes_perm_invariant; assumption. Qed.

Corollary encode_ror2_perm_invariant :
  forall fmtF hex path_chars query_chars header_chars empty_marker list_prefix fl e wildcard excl fuel scope t v1 v2,
  vperm v1 v2 -> keys_nodup v1 ->
  res_equiv (render_res (render_ror2 fmtF hex path_chars query_chars header_chars empty_marker list_prefix fl)
                        (enc e wildcard excl fuel scope t v1))
            (render_res (render_ror2 fmtF hex path_chars query_chars header_chars empty_marker list_prefix fl)
                        (enc e wildcard excl fuel scope t v2)).
Proof. intros. apply encode_bytes_perm_invariant; assumption. Qed.

(* ------------------------------------------------------------------------------------------------------------------ *)
(* 6. Every object of the output has strictly ascending keys.                                                          *)
(* ------------------------------------------------------------------------------------------------------------------ *)
Inductive doc_sorted : doc -> Prop :=
| ds_leaf l : doc_sorted (DLeaf l)
| ds_arr items : Forall doc_sorted items -> doc_sorted (DArr items)
| ds_obj ents : strictly_sorted ents -> Forall (fun kd => doc_sorted (snd kd)) ents -> doc_sorted (DObj ents).

(* Well-formed schemas: what the Go compiler enforces on the generated structs.  [names n] over-approximates the JSON
   field names of record n including those of its (transitively) included records; they are pairwise distinct, and only
   records are included. *)
Definition names_ok (e : env) (names : nat -> list bytes) : Prop :=
  forall n incs fs, lookup e n = Some (DRecord incs fs) ->
    NoDup (flat_map names incs ++ map f_name fs) /\
    incl (flat_map names incs ++ map f_name fs) (names n) /\
    Forall (fun i => exists incs' fs', lookup e i = Some (DRecord incs' fs')) incs.

Definition wf_env (e : env) : Prop := exists names, names_ok e names.

(* an executable sufficient check: the flattened field names, computed with fuel [length e] (enough for every acyclic
   include graph) *)
Fixpoint rec_names (e : env) (fuel : nat) (n : nat) : list bytes :=
  match fuel with
  | 0 => []
  | S f => match lookup e n with
           | Some (DRecord incs fs) => flat_map (rec_names e f) incs ++ map f_name fs
           | _ => []
           end
  end.
Definition mem_bytes (k : bytes) (l : list bytes) : bool := existsb (bytes_eqb k) l.
Fixpoint nodupb (l : list bytes) : bool :=
  match l with [] => true | k :: r => negb (mem_bytes k r) && nodupb r end.
Definition is_record (e : env) (i : nat) : bool :=
  match lookup e i with Some (DRecord _ _) => true | _ => false end.
Definition wf_envb (e : env) : bool :=
  let names := rec_names e (length e) in
  forallb (fun n => match lookup e n with
                    | Some (DRecord incs fs) =>
                        let l := flat_map names incs ++ map f_name fs in
                        nodupb l && forallb (fun k => mem_bytes k (names n)) l && forallb (is_record e) incs
                    | _ => true
                    end) (seq 0 (length e)).

Lemma mem_bytes_In k l : mem_bytes k l = true <-> In k l.
Proof.
  unfold mem_bytes. rewrite existsb_exists. split.
  - intros [y [Hy E]]. apply bytes_eqb_eq in E. subst; exact Hy.
  - intros H. exists k. split; [exact H | apply bytes_eqb_refl].
Qed.

Lemma nodupb_NoDup l : nodupb l = true -> NoDup l.
Proof.
  induction l as [|k r IH]; simpl; intros H; [constructor|].
  apply andb_true_iff in H as [H1 H2]. constructor; [|apply IH; exact H2].
  intros Hin. apply mem_bytes_In in Hin. rewrite Hin in H1. discriminate.
Qed.

Lemma wf_envb_sound e : wf_envb e = true -> wf_env e.
Proof.
  intros H. exists (rec_names e (length e)). intros n incs fs Hl.
  unfold wf_envb in H. rewrite forallb_forall in H.
  assert (Hn : n < length e) by (apply nth_error_Some; unfold lookup in Hl; congruence).
  specialize (H n). rewrite Hl in H. specialize (H ltac:(apply in_seq; lia)).
  apply andb_true_iff in H as [H H3]. apply andb_true_iff in H as [H1 H2].
  split; [apply nodupb_NoDup; exact H1|]. split.
  - rewrite forallb_forall in H2. intros k Hk. apply mem_bytes_In. apply H2. exact Hk.
  - rewrite forallb_forall in H3. apply Forall_forall. intros i Hi. specialize (H3 i Hi).
    unfold is_record in H3. destruct (lookup e i) as [[incs' fs'|? ?]|]; try discriminate. eauto.
Qed.

Lemma NoDup_app_disjoint {A} (X Y : list A) x : NoDup (X ++ Y) -> In x X -> In x Y -> False.
Proof.
  induction X as [|a X IH]; simpl; intros HN HX HY; [contradiction|].
  inversion HN as [|? ? Ha HN']; subst. destruct HX as [->|HX].
  - apply Ha. apply in_or_app. right; exact HY.
  - apply IH; assumption.
Qed.

Lemma NoDup_app_r {A} (X Y : list A) : NoDup (X ++ Y) -> NoDup Y.
Proof. induction X as [|a X IH]; simpl; intros H; [exact H|]. inversion H; subst. auto. Qed.

Lemma NoDup_app_l {A} (X Y : list A) : NoDup (X ++ Y) -> NoDup X.
Proof.
  induction X as [|a X IH]; simpl; intros H; [constructor|]. inversion H as [|? ? Ha HN]; subst.
  constructor; [|auto]. intros Hin. apply Ha. apply in_or_app. left; exact Hin.
Qed.

Lemma NoDup_app_incl {A} (X Y a b : list A) :
  NoDup (X ++ Y) -> incl a X -> incl b Y -> NoDup a -> NoDup b -> NoDup (a ++ b).
Proof.
  intros HN Ha Hb HNa HNb. induction a as [|y a IH]; simpl; [exact HNb|].
  inversion HNa as [|? ? Hy HNa']; subst. constructor.
  - intros Hin. apply in_app_or in Hin as [Hin|Hin]; [contradiction|].
    apply (NoDup_app_disjoint X Y y HN); [apply Ha; left; reflexivity | apply Hb; exact Hin].
  - apply IH; [|exact HNa']. intros z Hz. apply Ha. right; exact Hz.
Qed.

Lemma sorted_obj_doc (l : list (bytes * doc)) :
  NoDup (map fst l) -> Forall (fun kd => doc_sorted (snd kd)) l -> doc_sorted (DObj (sort_entries l)).
Proof.
  intros HN HF. constructor; [apply sort_entries_sorted; exact HN|].
  rewrite Forall_forall in *. intros kd Hkd. apply HF. apply (Permutation_in _ (sort_entries_perm l)). exact Hkd.
Qed.

Section Ascending.
  Variables (e : env) (w : bytes) (x : pathspec) (names : nat -> list bytes).
  Hypothesis Hwf : names_ok e names.

  (* what is known of the result of encoding at type t: sorted everywhere, and for a record its keys are among [names] *)
  Definition good (t : ty) (d : doc) : Prop :=
    doc_sorted d /\
    forall n incs fs ents, t = TRef n -> lookup e n = Some (DRecord incs fs) -> d = DObj ents ->
                           incl (map fst ents) (names n).

  Variable rec : list bytes -> ty -> value -> res doc.
  Hypothesis Hrec : forall scope t v d, keys_nodup v -> rec scope t v = Ok d -> good t d.

  Lemma enc_key_ok scope k t v a :
    keys_nodup v -> enc_key w x rec scope k t v = Ok a -> a = [] \/ exists d, a = [(k, d)] /\ doc_sorted d.
  Proof.
    intros Hk H. apply enc_key_shape in H as [->|[d [-> Hd]]]; [left; reflexivity|].
    right. exists d. split; [reflexivity|]. apply (Hrec _ _ _ _ Hk Hd).
  Qed.

  Lemma map_entries_ok scope t es ents :
    Forall (fun kv => keys_nodup (snd kv)) es -> map_entries w x rec scope t es = Ok ents ->
    Forall (fun kd => doc_sorted (snd kd)) ents.
  Proof.
    intros HK H. apply map_entries_shape in H as [_ [_ H]].
    rewrite Forall_forall in *. intros kd Hkd. destruct (H kd Hkd) as [v [Hin Hr]].
    apply (Hrec _ _ _ _ (HK _ Hin) Hr).
  Qed.

  Lemma mapM_ok scope t l ds :
    Forall keys_nodup l -> mapM (rec scope t) l = Ok ds -> Forall doc_sorted ds.
  Proof.
    revert ds. induction l as [|v r IH]; intros ds HK H; simpl in H.
    - inversion H; constructor.
    - inversion HK as [|? ? Hv Hr]; subst.
      destruct (rec scope t v) as [d| |] eqn:Ed; simpl in H; try discriminate.
      destruct (mapM (rec scope t) r) as [ds'| |] eqn:Er; simpl in H; try discriminate.
      inversion H; subst. constructor; [apply (Hrec _ _ _ _ Hv Ed) | apply IH; [exact Hr | reflexivity]].
  Qed.

  Lemma fields_entries_ok scope fs fvs own :
    Forall (oall keys_nodup) fvs -> fields_entries w x rec scope fs fvs = Ok own ->
    (NoDup (map f_name fs) -> NoDup (map fst own)) /\
    incl (map fst own) (map f_name fs) /\
    Forall (fun kd => doc_sorted (snd kd)) own.
  Proof.
    revert fvs own. induction fs as [|fd fs IH]; intros [|ov fvs] own HK H; try discriminate.
    - inversion H; subst. simpl. repeat split; [auto | apply incl_refl | constructor].
    - inversion HK as [|? ? Hov Hfvs]; subst. rewrite fields_entries_cons in H.
      match type of H with bind ?r _ = _ => destruct r as [here| |] eqn:Eh end; simpl in H; try discriminate.
      destruct (fields_entries w x rec scope fs fvs) as [rest| |] eqn:Er; simpl in H; try discriminate.
      inversion H; subst own; clear H.
      destruct (IH fvs rest Hfvs Er) as [IH1 [IH2 IH3]].
      assert (Hh : here = [] \/ exists d, here = [(f_name fd, d)] /\ doc_sorted d).
      { destruct ov as [v|].
        - inversion Hov; subst. eapply enc_key_ok; eassumption.
        - destruct (is_required (f_opt fd)); inversion Eh. left; reflexivity. }
      destruct Hh as [->|[d [-> Hd]]]; simpl.
      + repeat split.
        * intros HN. inversion HN; subst. auto.
        * apply incl_tl; exact IH2.
        * exact IH3.
      + repeat split.
        * intros HN. inversion HN as [|? ? Hk HNr]; subst. constructor; [|auto].
          intros Hin. apply Hk. apply IH2. exact Hin.
        * intros y [<-|Hy]; [left; reflexivity | right; apply IH2; exact Hy].
        * constructor; [exact Hd | exact IH3].
  Qed.

  Lemma inc_entries_ok scope incs ivs ents :
    Forall keys_nodup ivs ->
    Forall (fun i => exists incs' fs', lookup e i = Some (DRecord incs' fs')) incs ->
    inc_entries rec scope incs ivs = Ok ents ->
    (NoDup (flat_map names incs) -> NoDup (map fst ents)) /\
    incl (map fst ents) (flat_map names incs) /\
    Forall (fun kd => doc_sorted (snd kd)) ents.
  Proof.
    revert ivs ents. induction incs as [|i incs IH]; intros [|iv ivs] ents HK HR H; try discriminate.
    - inversion H; subst. simpl. repeat split; [auto | apply incl_refl | constructor].
    - inversion HK as [|? ? Hiv Hivs]; subst. inversion HR as [|? ? [incs' [fs' Hi]] HRs]; subst.
      rewrite inc_entries_cons in H.
      destruct (rec scope (TRef i) iv) as [d| |] eqn:Ed; simpl in H; try discriminate.
      destruct d as [?|?|a]; simpl in H; try discriminate.
      destruct (inc_entries rec scope incs ivs) as [b| |] eqn:Eb; simpl in H; try discriminate.
      inversion H; subst ents; clear H.
      destruct (IH ivs b Hivs HRs Eb) as [IH1 [IH2 IH3]].
      destruct (Hrec _ _ _ _ Hiv Ed) as [Hs Hn].
      specialize (Hn i incs' fs' a eq_refl Hi eq_refl).
      inversion Hs as [| |? Hsa Hfa]; subst.
      rewrite map_app. simpl. repeat split.
      + intros HN. apply (NoDup_app_incl (names i) (flat_map names incs)); try assumption.
        * apply strictly_sorted_nodup. exact Hsa.
        * apply IH1. apply NoDup_app_r in HN. exact HN.
      + apply incl_app; [apply incl_appl; exact Hn | apply incl_appr; exact IH2].
      + apply Forall_app. split; assumption.
  Qed.

  Lemma union_entries_ok scope mts vs isSet r :
    Forall (oall keys_nodup) vs -> union_entries w x rec scope mts vs isSet = Ok r ->
    (isSet = true -> fst r = []) /\
    (fst r = [] \/ exists k d, fst r = [(k, d)] /\ doc_sorted d).
  Proof.
    revert vs isSet r. induction mts as [|[alias mt] mts IH]; intros [|ov vs] isSet r HK H; try discriminate.
    - inversion H; subst. simpl. split; [auto | left; reflexivity].
    - inversion HK as [|? ? Hov Hvs]; subst. rewrite union_entries_cons in H.
      destruct ov as [v|]; [|apply (IH vs isSet r Hvs H)].
      destruct isSet; [discriminate|]. inversion Hov; subst.
      destruct (enc_key w x rec scope alias mt v) as [a| |] eqn:Ea; simpl in H; try discriminate.
      destruct (union_entries w x rec scope mts vs true) as [br| |] eqn:Eb; simpl in H; try discriminate.
      inversion H; subst r; clear H. simpl.
      destruct (IH vs true br Hvs Eb) as [IH1 _]. rewrite (IH1 eq_refl), app_nil_r.
      split; [discriminate|].
      eapply enc_key_ok in Ea as [->|[d [-> Hd]]]; [left; reflexivity | right; eauto | assumption].
  Qed.

  Lemma enc_body_ok scope t v d :
    keys_nodup v -> enc_body e w x rec scope t v = Ok d -> good t d.
  Proof.
    intros Hk H.
    assert (Hleaf : forall l, good t (DLeaf l)) by (intros l; split; [constructor | intros; discriminate]).
    destruct t as [p|syms|sz|n|t'|t']; try destruct p; destruct v; simpl in H; try discriminate;
      try (inversion H; subst; apply Hleaf).
    - (* enum *)
      destruct k; [discriminate|]. destruct (nth_error syms k); inversion H; subst. apply Hleaf.
    - (* record *)
      destruct (lookup e n) as [[incs0 fs0|nullable mems]|] eqn:El; try discriminate.
      destruct (Hwf n incs0 fs0 El) as [HN [HI HR]].
      inversion Hk as [| | | | | | | | |? ? Hki Hkf| | |]; subst.
      destruct (inc_entries rec scope incs0 incs) as [a| |] eqn:Ea; simpl in H; try discriminate.
      destruct (fields_entries w x rec scope fs0 fields) as [b| |] eqn:Eb; simpl in H; try discriminate.
      inversion H; subst d; clear H.
      destruct (inc_entries_ok _ _ _ _ Hki HR Ea) as [A1 [A2 A3]].
      destruct (fields_entries_ok _ _ _ _ Hkf Eb) as [B1 [B2 B3]].
      assert (HNab : NoDup (map fst (a ++ b))).
      { rewrite map_app. apply (NoDup_app_incl (flat_map names incs0) (map f_name fs0)); try assumption.
        - apply A1. apply NoDup_app_l in HN. exact HN.
        - apply B1. apply NoDup_app_r in HN. exact HN. }
      split.
      + apply sorted_obj_doc; [exact HNab | apply Forall_app; split; assumption].
      + intros n' incs' fs' ents Et El' Ed. inversion Et; subst n'. inversion Ed; subst ents.
        intros k Hin. apply HI.
        apply (Permutation_in _ (sort_entries_keys_perm (a ++ b))) in Hin. rewrite map_app in Hin.
        apply in_app_or in Hin as [Hin|Hin]; apply in_or_app; [left; apply A2 | right; apply B2]; exact Hin.
    - (* union *)
      destruct (lookup e n) as [[incs0 fs0|nullable mems]|] eqn:El; try discriminate.
      inversion Hk as [| | | | | | | | | |? Hkm| |]; subst.
      destruct (union_entries w x rec scope mems members false) as [r| |] eqn:Er; simpl in H; try discriminate.
      destruct (negb nullable && negb (snd r)); inversion H; subst d; clear H.
      split.
      + destruct (union_entries_ok _ _ _ _ _ Hkm Er) as [_ [->|[k [d [-> Hd]]]]]; simpl.
        * constructor; constructor.
        * constructor; [repeat constructor | constructor; [exact Hd | constructor]].
      + intros n' incs' fs' ents Et El'. inversion Et; subst n'. congruence.
    - (* array *)
      inversion Hk as [| | | | | | | | | | |? Hkl|]; subst.
      destruct (mapM (rec (scope ++ [w]) t') l) as [ds| |] eqn:Em; simpl in H; try discriminate.
      inversion H; subst d. split; [|intros; discriminate]. constructor. eapply mapM_ok; eassumption.
    - (* map *)
      inversion Hk as [| | | | | | | | | | | |? HN HK]; subst.
      destruct (map_entries w x rec scope t' es) as [ents| |] eqn:Em; simpl in H; try discriminate.
      inversion H; subst d. split; [|intros; discriminate].
      apply sorted_obj_doc; [|eapply map_entries_ok; eassumption].
      apply (map_entries_shape _ _ _ _ _ _ _ Em). exact HN.
  Qed.
End Ascending.

Lemma keys_ascending_names : forall e names, names_ok e names ->
  forall wildcard excl fuel scope t v d,
  keys_nodup v -> enc e wildcard excl fuel scope t v = Ok d -> good e names t d.
Proof.
  intros e names Hwf w x fuel. induction fuel as [|f IH]; intros scope t v d Hk H; [discriminate|].
  rewrite enc_S in H. eapply enc_body_ok; eassumption.
Qed.

Theorem keys_ascending : forall e wildcard excl fuel scope t v d,
  wf_env e -> keys_nodup v -> enc e wildcard excl fuel scope t v = Ok d -> doc_sorted d.
Proof.
  intros e w x fuel scope t v d [names Hwf] Hk H.
  apply (keys_ascending_names e names Hwf w x fuel scope t v d Hk H).
Qed.

(* ------------------------------------------------------------------------------------------------------------------ *)
(* 7. [vperm] contains the identity and every reordering of a map's entries (so the theorems are not vacuous).         *)
(* ------------------------------------------------------------------------------------------------------------------ *)
Lemma vperm_refl : forall v, vperm v v.
Proof.
  fix IH 1. intros [z|z|b|b|b|s|s|k|s|incs fields|members|l|es]; try constructor.
  - induction incs as [|a r IHr]; constructor; [apply IH | exact IHr].
  - induction fields as [|[a|] r IHr]; constructor; try exact IHr; constructor. apply IH.
  - induction members as [|[a|] r IHr]; constructor; try exact IHr; constructor. apply IH.
  - induction l as [|a r IHr]; constructor; [apply IH | exact IHr].
  - apply (vp_map es es es); [apply Permutation_refl|].
    induction es as [|[k a] r IHr]; constructor; [constructor; apply IH | exact IHr].
Qed.

Lemma vperm_map_perm es1 es2 : Permutation es1 es2 -> vperm (VMap es1) (VMap es2).
Proof.
  intros HP. apply (vp_map es1 es2 es2); [exact HP|]. clear HP.
  induction es2 as [|[k a] r IHr]; [constructor|].
  constructor; [constructor; apply vperm_refl | exact IHr].
Qed.

(* ------------------------------------------------------------------------------------------------------------------ *)
(* 8. With no premise at all (any schema, any value): every object of the output has ascending keys, non-strictly.     *)
(* ------------------------------------------------------------------------------------------------------------------ *)
Inductive doc_sorted_le : doc -> Prop :=
| dsl_leaf l : doc_sorted_le (DLeaf l)
| dsl_arr items : Forall doc_sorted_le items -> doc_sorted_le (DArr items)
| dsl_obj ents : StronglySorted key_le ents -> Forall (fun kd => doc_sorted_le (snd kd)) ents -> doc_sorted_le (DObj ents).

Lemma sorted_obj_doc_le (l : list (bytes * doc)) :
  Forall (fun kd => doc_sorted_le (snd kd)) l -> doc_sorted_le (DObj (sort_entries l)).
Proof.
  intros HF. constructor; [apply sort_entries_sorted_le|].
  rewrite Forall_forall in *. intros kd Hkd. apply HF. apply (Permutation_in _ (sort_entries_perm l)). exact Hkd.
Qed.

Section AscendingLe.
  Variables (e : env) (w : bytes) (x : pathspec) (rec : list bytes -> ty -> value -> res doc).
  Hypothesis Hrec : forall scope t v d, rec scope t v = Ok d -> doc_sorted_le d.
  Notation all_le := (Forall (fun kd : bytes * doc => doc_sorted_le (snd kd))).

  Lemma enc_key_le scope k t v a : enc_key w x rec scope k t v = Ok a -> all_le a.
  Proof.
    intros H. apply enc_key_shape in H as [->|[d [-> Hd]]]; [constructor|].
    constructor; [apply (Hrec _ _ _ _ Hd) | constructor].
  Qed.

  Lemma map_entries_le scope t es ents : map_entries w x rec scope t es = Ok ents -> all_le ents.
  Proof.
    intros H. apply map_entries_shape in H as [_ [_ H]].
    rewrite Forall_forall in *. intros kd Hkd. destruct (H kd Hkd) as [v [_ Hr]]. apply (Hrec _ _ _ _ Hr).
  Qed.

  Lemma mapM_le scope t l ds : mapM (rec scope t) l = Ok ds -> Forall doc_sorted_le ds.
  Proof.
    revert ds. induction l as [|v r IH]; intros ds H; simpl in H.
    - inversion H; constructor.
    - destruct (rec scope t v) as [d| |] eqn:Ed; simpl in H; try discriminate.
      destruct (mapM (rec scope t) r) as [ds'| |] eqn:Er; simpl in H; try discriminate.
      inversion H; subst. constructor; [apply (Hrec _ _ _ _ Ed) | apply IH; reflexivity].
  Qed.

  Lemma fields_entries_le scope fs fvs own : fields_entries w x rec scope fs fvs = Ok own -> all_le own.
  Proof.
    revert fvs own. induction fs as [|fd fs IH]; intros [|ov fvs] own H; try discriminate.
    - inversion H; constructor.
    - rewrite fields_entries_cons in H.
      match type of H with bind ?r _ = _ => destruct r as [here| |] eqn:Eh end; simpl in H; try discriminate.
      destruct (fields_entries w x rec scope fs fvs) as [rest| |] eqn:Er; simpl in H; try discriminate.
      inversion H; subst own; clear H. apply Forall_app. split; [|apply (IH _ _ Er)].
      destruct ov as [v|]; [eapply enc_key_le; exact Eh|].
      destruct (is_required (f_opt fd)); inversion Eh. constructor.
  Qed.

  Lemma inc_entries_le scope incs ivs ents : inc_entries rec scope incs ivs = Ok ents -> all_le ents.
  Proof.
    revert ivs ents. induction incs as [|i incs IH]; intros [|iv ivs] ents H; try discriminate.
    - inversion H; constructor.
    - rewrite inc_entries_cons in H.
      destruct (rec scope (TRef i) iv) as [d| |] eqn:Ed; simpl in H; try discriminate.
      destruct d as [?|?|a]; simpl in H; try discriminate.
      destruct (inc_entries rec scope incs ivs) as [b| |] eqn:Eb; simpl in H; try discriminate.
      inversion H; subst ents; clear H. apply Forall_app. split; [|apply (IH _ _ Eb)].
      pose proof (Hrec _ _ _ _ Ed) as Hd. inversion Hd; subst. assumption.
  Qed.

  Lemma union_entries_le scope mts vs isSet r : union_entries w x rec scope mts vs isSet = Ok r -> all_le (fst r).
  Proof.
    revert vs isSet r. induction mts as [|[alias mt] mts IH]; intros [|ov vs] isSet r H; try discriminate.
    - inversion H; constructor.
    - rewrite union_entries_cons in H. destruct ov as [v|]; [|apply (IH _ _ _ H)].
      destruct isSet; [discriminate|].
      destruct (enc_key w x rec scope alias mt v) as [a| |] eqn:Ea; simpl in H; try discriminate.
      destruct (union_entries w x rec scope mts vs true) as [br| |] eqn:Eb; simpl in H; try discriminate.
      inversion H; subst r; clear H. simpl. apply Forall_app. split; [eapply enc_key_le; exact Ea | apply (IH _ _ _ Eb)].
  Qed.

  Lemma enc_body_le scope t v d : enc_body e w x rec scope t v = Ok d -> doc_sorted_le d.
  Proof.
    intros H.
    destruct t as [p|syms|sz|n|t'|t']; try destruct p; destruct v; simpl in H; try discriminate;
      try (inversion H; subst; constructor).
    - destruct k; [discriminate|]. destruct (nth_error syms k); inversion H; subst. constructor.
    - destruct (lookup e n) as [[incs0 fs0|nullable mems]|]; try discriminate.
      destruct (inc_entries rec scope incs0 incs) as [a| |] eqn:Ea; simpl in H; try discriminate.
      destruct (fields_entries w x rec scope fs0 fields) as [b| |] eqn:Eb; simpl in H; try discriminate.
      inversion H; subst d. apply sorted_obj_doc_le. apply Forall_app.
      split; [eapply inc_entries_le; exact Ea | eapply fields_entries_le; exact Eb].
    - destruct (lookup e n) as [[incs0 fs0|nullable mems]|]; try discriminate.
      destruct (union_entries w x rec scope mems members false) as [r| |] eqn:Er; simpl in H; try discriminate.
      destruct (negb nullable && negb (snd r)); inversion H; subst d.
      apply sorted_obj_doc_le. eapply union_entries_le; exact Er.
    - destruct (mapM (rec (scope ++ [w]) t') l) as [ds| |] eqn:Em; simpl in H; try discriminate.
      inversion H; subst d. constructor. eapply mapM_le; exact Em.
    - destruct (map_entries w x rec scope t' es) as [ents| |] eqn:Em; simpl in H; try discriminate.
      inversion H; subst d. apply sorted_obj_doc_le. eapply map_entries_le; exact Em.
  Qed.
End AscendingLe.

Theorem keys_ascending_le : forall e wildcard excl fuel scope t v d,
  enc e wildcard excl fuel scope t v = Ok d -> doc_sorted_le d.
Proof.
  intros e w x fuel. induction fuel as [|f IH]; intros scope t v d H; [discriminate|].
  rewrite enc_S in H. eapply enc_body_le; eassumption.
Qed.
