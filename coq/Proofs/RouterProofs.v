(* RouterProofs: proofs of the statements of Props/C05.v about the model Http/Router.v and the declarative side
   Http/RouterSpec.v.  Facts about the regenerated inference statement (Gen/TablesRouter.v: v2_infer / root_infer) are
   proved only by finite enumeration ([all7] + vm_compute), never by reading its text. *)
From Coq Require Import List Bool Arith NArith Lia.
From Coq.Strings Require Import Byte.
From GR Require Import Base.Bytes Gen.TablesRouter Http.Router Http.RouterSpec.
Import ListNotations.

(* ------------------------------------------------------------------------------------------------ finite domains *)

Lemma method_eqb_eq a b : method_eqb a b = true <-> a = b.
Proof.
  split.
  - destruct a, b; intro H; try reflexivity; vm_compute in H; discriminate H.
  - intros ->. destruct b; vm_compute; reflexivity.
Qed.

Lemma method_eqb_refl a : method_eqb a a = true.
Proof. apply method_eqb_eq; reflexivity. Qed.

Lemma method_eqb_neq a b : method_eqb a b = false <-> a <> b.
Proof.
  split.
  - intros H E. subst. rewrite method_eqb_refl in H. discriminate.
  - intros H. destruct (method_eqb a b) eqn:E; [|reflexivity]. apply method_eqb_eq in E. contradiction.
Qed.

Lemma verb_eqb_eq a b : verb_eqb a b = true <-> a = b.
Proof.
  split.
  - destruct a, b; intro H; try reflexivity; vm_compute in H; discriminate H.
  - intros ->. destruct b; reflexivity.
Qed.

Lemma in_all_methods m : In m all_methods.
Proof.
  assert (H : existsb (method_eqb m) all_methods = true) by (destruct m; vm_compute; reflexivity).
  apply existsb_exists in H as [x [Hin Hx]]. apply method_eqb_eq in Hx. subst. exact Hin.
Qed.

Lemma in_all_verbs v : In v all_verbs.
Proof. destruct v; simpl; tauto. Qed.

Lemma in_bools b : In b bools.
Proof. destruct b; simpl; tauto. Qed.

Definition all7 (P : bool -> verb -> method -> bool -> bool -> bool -> bool -> bool) : bool :=
  forallb (fun coll => forallb (fun v => forallb (fun hm => forallb (fun e => forallb (fun i => forallb (fun q =>
    forallb (fun a => P coll v hm e i q a) bools) bools) bools) bools) all_methods) all_verbs) bools.

Lemma all7_spec P : all7 P = true -> forall coll v hm e i q a, P coll v hm e i q a = true.
Proof.
  unfold all7. intros H coll v hm e i q a.
  rewrite forallb_forall in H. specialize (H coll (in_bools coll)).
  rewrite forallb_forall in H. specialize (H v (in_all_verbs v)).
  rewrite forallb_forall in H. specialize (H hm (in_all_methods hm)).
  rewrite forallb_forall in H. specialize (H e (in_bools e)).
  rewrite forallb_forall in H. specialize (H i (in_bools i)).
  rewrite forallb_forall in H. specialize (H q (in_bools q)).
  rewrite forallb_forall in H. exact (H a (in_bools a)).
Qed.

Definition opt_method_eqb (a b : option method) : bool :=
  match a, b with
  | Some m1, Some m2 => method_eqb m1 m2
  | None, None => true
  | _, _ => false
  end.

Lemma opt_method_eqb_eq a b : opt_method_eqb a b = true -> a = b.
Proof.
  destruct a as [m1|], b as [m2|]; simpl; intro H; try discriminate; try reflexivity.
  apply method_eqb_eq in H. subst. reflexivity.
Qed.

Lemma specifiedb_spec coll hm v : specified coll hm v -> specifiedb coll hm v = true.
Proof.
  unfold specified, specifiedb. destruct coll.
  - intros [H | H].
    + subst. rewrite method_eqb_refl. reflexivity.
    + rewrite H. apply orb_true_iff. right. apply verb_eqb_eq. reflexivity.
  - intros H. destruct (verb_eqb v VOther) eqn:E.
    + apply verb_eqb_eq in E. rewrite (H E). rewrite method_eqb_refl. reflexivity.
    + reflexivity.
Qed.

Lemma inference_table : forall coll v hm e i q a, specified coll hm v ->
  infer_routed coll v hm e i q a = spec_method coll hm v e q i a.
Proof.
  intros coll v hm e i q a Hs.
  assert (T : all7 (fun coll v hm e i q a =>
            implb (specifiedb coll hm v)
                  (opt_method_eqb (infer_routed coll v hm e i q a) (spec_method coll hm v e q i a))) = true)
    by (vm_compute; reflexivity).
  pose proof (all7_spec _ T coll v hm e i q a) as H. cbv beta in H.
  rewrite (specifiedb_spec _ _ _ Hs) in H. simpl in H.
  apply opt_method_eqb_eq. exact H.
Qed.

Lemma header_wins : forall v hm e i q a, hm <> Method_Unknown ->
  infer_routed true v hm e i q a = if entity_matches hm e then Some hm else None.
Proof.
  intros v hm e i q a Hn.
  assert (T : all7 (fun _ v hm e i q a =>
            method_eqb hm Method_Unknown ||
            opt_method_eqb (infer_routed true v hm e i q a) (if entity_matches hm e then Some hm else None)) = true)
    by (vm_compute; reflexivity).
  pose proof (all7_spec _ T true v hm e i q a) as H. cbv beta in H.
  apply method_eqb_neq in Hn. rewrite Hn in H. simpl in H.
  apply opt_method_eqb_eq. exact H.
Qed.

Definition infer_res_eqb (a b : infer_res) : bool :=
  match a, b with
  | Cont m1, Cont m2 => method_eqb m1 m2
  | Ret s1, Ret s2 => N.eqb s1 s2
  | _, _ => false
  end.

Lemma infer_res_eqb_eq a b : infer_res_eqb a b = true -> a = b.
Proof.
  destruct a as [m1|s1], b as [m2|s2]; simpl; intro H; try discriminate.
  - apply method_eqb_eq in H. subst. reflexivity.
  - apply N.eqb_eq in H. subst. reflexivity.
Qed.

Lemma root_module_same : root_method_table_same = true /\
  forall coll v hm e i q a, root_infer coll v hm e i q a = v2_infer coll v hm e i q a.
Proof.
  split; [vm_compute; reflexivity|].
  intros coll v hm e i q a.
  assert (T : all7 (fun coll v hm e i q a =>
            infer_res_eqb (root_infer coll v hm e i q a) (v2_infer coll v hm e i q a)) = true)
    by (vm_compute; reflexivity).
  apply infer_res_eqb_eq. exact (all7_spec _ T coll v hm e i q a).
Qed.

(* every early return of the inference statement is a 400 *)
Lemma infer_ret_400 coll v hm e i q a s : infer coll v hm e i q a = Ret s -> s = 400%N.
Proof.
  intros H.
  assert (T : all7 (fun coll v hm e i q a =>
            match infer coll v hm e i q a with Ret s => N.eqb s 400 | Cont _ => true end) = true)
    by (vm_compute; reflexivity).
  pose proof (all7_spec _ T coll v hm e i q a) as H'. cbv beta in H'. rewrite H in H'.
  apply N.eqb_eq. exact H'.
Qed.

(* ------------------------------------------------------------------------------------------------ lookups *)

Lemma mem_bytes_In s l : mem_bytes s l = true <-> In s l.
Proof.
  unfold mem_bytes. rewrite existsb_exists. split.
  - intros [x [Hin Hx]]. apply bytes_eqb_eq in Hx. subst. exact Hin.
  - intros H. exists s. split; [exact H | apply bytes_eqb_refl].
Qed.

Lemma mem_method_In m l : mem_method m l = true <-> In m l.
Proof.
  unfold mem_method. rewrite existsb_exists. split.
  - intros [x [Hin Hx]]. apply method_eqb_eq in Hx. subst. exact Hin.
  - intros H. exists m. split; [exact H | apply method_eqb_refl].
Qed.

Lemma find_sub_some s l n : find_sub s l = Some n -> In n l /\ n_name n = s.
Proof.
  induction l as [|x r IH]; simpl; [discriminate|].
  destruct (bytes_eqb (n_name x) s) eqn:E.
  - intros H. injection H as <-. apply bytes_eqb_eq in E. split; [left; reflexivity | exact E].
  - intros H. destruct (IH H) as [H1 H2]. split; [right; exact H1 | exact H2].
Qed.

Lemma find_sub_none s l : find_sub s l = None <-> forall n, In n l -> n_name n <> s.
Proof.
  induction l as [|x r IH]; simpl.
  - split; [intros _ n [] | reflexivity].
  - destruct (bytes_eqb (n_name x) s) eqn:E.
    + split; [discriminate|]. intros H. apply bytes_eqb_eq in E. exfalso. apply (H x); [left; reflexivity | exact E].
    + apply bytes_eqb_neq in E. rewrite IH. split.
      * intros H n [<- | Hin]; [exact E | apply H; exact Hin].
      * intros H n Hin. apply H. right. exact Hin.
Qed.

Lemma find_sub_in s l n : NoDup (map n_name l) -> In n l -> n_name n = s -> find_sub s l = Some n.
Proof.
  induction l as [|x r IH]; simpl; intros Hnd Hin Hn; [contradiction|].
  inversion Hnd as [|? ? Hnotin Hnd']; subst.
  destruct Hin as [-> | Hin].
  - rewrite bytes_eqb_refl. reflexivity.
  - destruct (bytes_eqb (n_name x) (n_name n)) eqn:E.
    + apply bytes_eqb_eq in E. exfalso. apply Hnotin. rewrite E. apply in_map. exact Hin.
    + apply IH; [exact Hnd' | exact Hin | reflexivity].
Qed.

(* ------------------------------------------------------------------------------------------------ well-formedness *)

Lemma wf_all_Forall (l : list node) :
  (fix all (l : list node) : Prop := match l with [] => True | x :: r => wf_node x /\ all r end) l <-> Forall wf_node l.
Proof.
  induction l as [|x r IH].
  - split; [intros _; constructor | intros _; exact I].
  - split.
    + intros [H1 H2]. constructor; [exact H1 | apply IH; exact H2].
    + intros H. inversion H as [|? ? H1 H2]; subst. split; [exact H1 | apply IH; exact H2].
Qed.

Lemma wf_node_unfold n :
  wf_node n <-> ~ In Method_Unknown (n_methods n) /\ NoDup (map n_name (n_subs n)) /\ Forall wf_node (n_subs n).
Proof.
  destruct n as [a c ms fs acs ss]. simpl n_methods. simpl n_subs.
  change (wf_node (Node a c ms fs acs ss)) with
    (~ In Method_Unknown ms /\ NoDup (map n_name ss) /\
     (fix all (l : list node) : Prop := match l with [] => True | x :: r => wf_node x /\ all r end) ss).
  rewrite wf_all_Forall. reflexivity.
Qed.

Lemma wf_node_subs n : wf_node n -> wf_nodes (n_subs n).
Proof. intros H. apply wf_node_unfold in H as [_ [H1 H2]]. split; assumption. Qed.

Lemma wf_nodes_in l n : wf_nodes l -> In n l -> wf_node n.
Proof. intros [_ H] Hin. rewrite Forall_forall in H. apply H. exact Hin. Qed.

(* ------------------------------------------------------------------------------------------------ receive *)

Lemma receive_one f p ps ks s req :
  receive (S f) p ps ks [s] req = finish p (ps ++ [(n_name p, n_coll p)]) ks false req.
Proof. reflexivity. Qed.

Lemma receive_coll f p ps ks s k r2 req : n_coll p = true ->
  receive (S f) p ps ks (s :: k :: r2) req =
  if valid_ror2 k then
    match r2 with
    | [] => finish p (ps ++ [(n_name p, true)]) (ks ++ [k]) true req
    | s' :: _ => match find_sub s' (n_subs p) with
                 | Some sub => receive f sub (ps ++ [(n_name p, true)]) (ks ++ [k]) r2 req
                 | None => Reject 404 true
                 end
    end
  else Reject 400 true.
Proof. intros H. simpl. rewrite H. reflexivity. Qed.

Lemma receive_simple f p ps ks s k r2 req : n_coll p = false ->
  receive (S f) p ps ks (s :: k :: r2) req =
  match find_sub k (n_subs p) with
  | Some sub => receive f sub (ps ++ [(n_name p, false)]) ks (k :: r2) req
  | None => Reject 404 true
  end.
Proof. intros H. simpl. rewrite H. reflexivity. Qed.

Lemma app_single_assoc {A} (l : list A) x r : (l ++ [x]) ++ r = l ++ x :: r.
Proof. rewrite <- app_assoc. reflexivity. Qed.

(* a walk is what receive follows *)
Lemma walk_receive req sibs segs ps ks q e :
  walk sibs segs ps ks q e -> wf_nodes sibs ->
  forall fuel ps0 ks0, length segs <= fuel ->
  exists p s rest, segs = s :: rest /\ find_sub s sibs = Some p /\
    receive fuel p ps0 ks0 segs req = finish q (ps0 ++ ps) (ks0 ++ ks) e req.
Proof.
  intros W. induction W as [sibs n s Hin Hn | sibs n s k Hin Hn Hc Hv
                           | sibs n s s' rest ps ks t e Hin Hn Hc W IH
                           | sibs n s k s' rest ps ks t e Hin Hn Hc Hv W IH];
    intros Hwf fuel ps0 ks0 Hlen.
  - exists n, s, []. split; [reflexivity|]. split; [apply find_sub_in; [apply Hwf | exact Hin | exact Hn]|].
    destruct fuel as [|f]; [simpl in Hlen; lia|].
    rewrite receive_one, app_nil_r, Hn. reflexivity.
  - exists n, s, [k]. split; [reflexivity|]. split; [apply find_sub_in; [apply Hwf | exact Hin | exact Hn]|].
    destruct fuel as [|f]; [simpl in Hlen; lia|].
    rewrite (receive_coll _ _ _ _ _ _ _ _ Hc), Hv, Hn. reflexivity.
  - exists n, s, (s' :: rest). split; [reflexivity|]. split; [apply find_sub_in; [apply Hwf | exact Hin | exact Hn]|].
    destruct fuel as [|f]; [simpl in Hlen; lia|].
    assert (Hwn : wf_nodes (n_subs n)) by (apply wf_node_subs; eapply wf_nodes_in; eassumption).
    destruct (IH Hwn f (ps0 ++ [(n_name n, false)]) ks0 ltac:(simpl in *; lia)) as [p' [s2 [r2 [E [Hf Hr]]]]].
    injection E as <- <-.
    rewrite (receive_simple _ _ _ _ _ _ _ _ Hc), Hf, Hr, Hn, app_single_assoc. reflexivity.
  - exists n, s, (k :: s' :: rest). split; [reflexivity|]. split; [apply find_sub_in; [apply Hwf | exact Hin | exact Hn]|].
    destruct fuel as [|f]; [simpl in Hlen; lia|].
    assert (Hwn : wf_nodes (n_subs n)) by (apply wf_node_subs; eapply wf_nodes_in; eassumption).
    destruct (IH Hwn f (ps0 ++ [(n_name n, true)]) (ks0 ++ [k]) ltac:(simpl in *; lia)) as [p' [s2 [r2 [E [Hf Hr]]]]].
    injection E as <- <-.
    rewrite (receive_coll _ _ _ _ _ _ _ _ Hc), Hv, Hf, Hr, Hn, !app_single_assoc. reflexivity.
Qed.

Lemma walk_unknown_receive req sibs segs :
  walk_unknown sibs segs -> wf_nodes sibs ->
  forall fuel ps0 ks0, length segs <= fuel ->
  exists s rest, segs = s :: rest /\
    (find_sub s sibs = None \/
     exists p, find_sub s sibs = Some p /\ receive fuel p ps0 ks0 segs req = Reject 404 true).
Proof.
  intros W. induction W as [sibs s rest Hno
                           | sibs n s s' rest Hin Hn Hc W IH
                           | sibs n s k s' rest Hin Hn Hc Hv W IH];
    intros Hwf fuel ps0 ks0 Hlen.
  - exists s, rest. split; [reflexivity|]. left. apply find_sub_none. exact Hno.
  - exists s, (s' :: rest). split; [reflexivity|]. right. exists n.
    split; [apply find_sub_in; [apply Hwf | exact Hin | exact Hn]|].
    destruct fuel as [|f]; [simpl in Hlen; lia|].
    assert (Hwn : wf_nodes (n_subs n)) by (apply wf_node_subs; eapply wf_nodes_in; eassumption).
    destruct (IH Hwn f (ps0 ++ [(n_name n, false)]) ks0 ltac:(simpl in *; lia)) as [s2 [r2 [E H]]].
    injection E as <- <-.
    rewrite (receive_simple _ _ _ _ _ _ _ _ Hc).
    destruct H as [H | [p' [Hf Hr]]]; [rewrite H; reflexivity | rewrite Hf; exact Hr].
  - exists s, (k :: s' :: rest). split; [reflexivity|]. right. exists n.
    split; [apply find_sub_in; [apply Hwf | exact Hin | exact Hn]|].
    destruct fuel as [|f]; [simpl in Hlen; lia|].
    assert (Hwn : wf_nodes (n_subs n)) by (apply wf_node_subs; eapply wf_nodes_in; eassumption).
    destruct (IH Hwn f (ps0 ++ [(n_name n, true)]) (ks0 ++ [k]) ltac:(simpl in *; lia)) as [s2 [r2 [E H]]].
    injection E as <- <-.
    rewrite (receive_coll _ _ _ _ _ _ _ _ Hc), Hv.
    destruct H as [H | [p' [Hf Hr]]]; [rewrite H; reflexivity | rewrite Hf; exact Hr].
Qed.

(* ... and receive follows nothing else *)
Lemma receive_cases req : forall fuel sibs p ps0 ks0 s rest,
  length (s :: rest) <= fuel -> wf_nodes sibs -> find_sub s sibs = Some p ->
  (exists ps ks q e, walk sibs (s :: rest) ps ks q e /\
     receive fuel p ps0 ks0 (s :: rest) req = finish q (ps0 ++ ps) (ks0 ++ ks) e req) \/
  (walk_unknown sibs (s :: rest) /\ receive fuel p ps0 ks0 (s :: rest) req = Reject 404 true) \/
  receive fuel p ps0 ks0 (s :: rest) req = Reject 400 true.
Proof.
  induction fuel as [|f IH]; intros sibs p ps0 ks0 s rest Hlen Hwf Hfind; [simpl in Hlen; lia|].
  destruct (find_sub_some _ _ _ Hfind) as [Hin Hn].
  assert (Hwn : wf_nodes (n_subs p)) by (apply wf_node_subs; eapply wf_nodes_in; eassumption).
  destruct rest as [|k r2].
  - left. exists [(s, n_coll p)], [], p, false. split; [apply W_end; assumption|].
    rewrite receive_one, app_nil_r, Hn. reflexivity.
  - destruct (n_coll p) eqn:Hc.
    + rewrite (receive_coll _ _ _ _ _ _ _ _ Hc).
      destruct (valid_ror2 k) eqn:Hv; [|right; right; reflexivity].
      destruct r2 as [|s' r3].
      * left. exists [(s, true)], [k], p, true. split; [apply W_key; assumption|]. rewrite Hn. reflexivity.
      * destruct (find_sub s' (n_subs p)) as [sub|] eqn:Hf.
        -- destruct (IH (n_subs p) sub (ps0 ++ [(n_name p, true)]) (ks0 ++ [k]) s' r3 ltac:(simpl in *; lia) Hwn Hf)
             as [[ps [ks [q [e [W R]]]]] | [[W R] | R]].
           ++ left. exists ((s, true) :: ps), (k :: ks), q, e. split.
              ** eapply W_sub_coll; eassumption.
              ** rewrite R, Hn, !app_single_assoc. reflexivity.
           ++ right. left. split; [eapply U_coll; eassumption | exact R].
           ++ right. right. exact R.
        -- right. left. split; [|reflexivity].
           eapply U_coll; try eassumption. apply U_here. apply find_sub_none. exact Hf.
    + rewrite (receive_simple _ _ _ _ _ _ _ _ Hc).
      destruct (find_sub k (n_subs p)) as [sub|] eqn:Hf.
      * destruct (IH (n_subs p) sub (ps0 ++ [(n_name p, false)]) ks0 k r2 ltac:(simpl in *; lia) Hwn Hf)
          as [[ps [ks [q [e [W R]]]]] | [[W R] | R]].
        -- left. exists ((s, false) :: ps), ks, q, e. split.
           ++ eapply W_sub_simple; eassumption.
           ++ rewrite R, Hn, !app_single_assoc. reflexivity.
        -- right. left. split; [eapply U_simple; eassumption | exact R].
        -- right. right. exact R.
      * right. left. split; [|reflexivity].
        eapply U_simple; try eassumption. apply U_here. apply find_sub_none. exact Hf.
Qed.

(* ------------------------------------------------------------------------------------------------ finish *)

Lemma registered_iff p m name params :
  registered p m name params <->
  (if method_eqb m Method_finder then
     name = Some (param_or_empty param_finder params) /\ In (param_or_empty param_finder params) (n_finders p)
   else if method_eqb m Method_action then
     name = Some (param_or_empty param_action params) /\ In (param_or_empty param_action params) (n_actions p)
   else name = None /\ In m (n_methods p)).
Proof. destruct m; reflexivity. Qed.

Lemma finish_reject q ps ks e req st rl : finish q ps ks e req = Reject st rl -> st = 400%N /\ rl = true.
Proof.
  unfold finish. destruct (parse_query (r_query req)) as [params|].
  - cbv zeta.
    destruct (infer (n_coll q) (r_verb req) (header_method (r_header req)) e (has_param entity_ids_field params)
                (negb (bytes_eqb (param_or_empty param_finder params) []))
                (negb (bytes_eqb (param_or_empty param_action params) []))) as [m|s] eqn:Hi.
    + destruct (method_eqb m Method_finder).
      { destruct (mem_bytes _ (n_finders q)); intro H; [discriminate H | injection H as <- <-; split; reflexivity]. }
      destruct (method_eqb m Method_action).
      { destruct (mem_bytes _ (n_actions q)); intro H; [discriminate H | injection H as <- <-; split; reflexivity]. }
      destruct (mem_method m (n_methods q)); intro H; [discriminate H | injection H as <- <-; split; reflexivity].
    + intro H. injection H as <- <-. split; [|reflexivity]. eapply infer_ret_400. exact Hi.
  - intro H. injection H as <- <-. split; reflexivity.
Qed.

Lemma finish_dispatch q ps ks e req t :
  wf_node q -> specified (n_coll q) (header_method (r_header req)) (r_verb req) ->
  (finish q ps ks e req = Dispatch t <->
   exists params m name,
     parse_query (r_query req) = Some params /\
     spec_method (n_coll q) (header_method (r_header req)) (r_verb req) e
                 (negb (bytes_eqb (param_or_empty param_finder params) []))
                 (has_param entity_ids_field params)
                 (negb (bytes_eqb (param_or_empty param_action params) [])) = Some m /\
     registered q m name params /\
     t = (ps, m, ks, name)).
Proof.
  intros Hwf Hsp.
  apply wf_node_unfold in Hwf as [Hnu _].
  unfold finish. destruct (parse_query (r_query req)) as [params|] eqn:Hp.
  2:{ split; [discriminate|]. intros [params [m [name [H _]]]]. discriminate H. }
  cbv zeta.
  pose proof (inference_table (n_coll q) (r_verb req) (header_method (r_header req)) e (has_param entity_ids_field params)
                (negb (bytes_eqb (param_or_empty param_finder params) []))
                (negb (bytes_eqb (param_or_empty param_action params) [])) Hsp) as T.
  unfold infer_routed in T.
  destruct (infer (n_coll q) (r_verb req) (header_method (r_header req)) e (has_param entity_ids_field params)
              (negb (bytes_eqb (param_or_empty param_finder params) []))
              (negb (bytes_eqb (param_or_empty param_action params) []))) as [m|s] eqn:Hi.
  2:{ split; [discriminate|]. intros [params' [m [name [H1 [H2 _]]]]]. injection H1 as <-. rewrite <- T in H2. discriminate H2. }
  destruct (method_eqb m Method_Unknown) eqn:Hu.
  - apply method_eqb_eq in Hu. subst m.
    replace (method_eqb Method_Unknown Method_finder) with false by (vm_compute; reflexivity).
    replace (method_eqb Method_Unknown Method_action) with false by (vm_compute; reflexivity).
    destruct (mem_method Method_Unknown (n_methods q)) eqn:Hm.
    { apply mem_method_In in Hm. contradiction. }
    split; [discriminate|]. intros [params' [m [name [H1 [H2 _]]]]]. injection H1 as <-. rewrite <- T in H2. discriminate H2.
  - split.
    + intros H. exists params, m.
      destruct (method_eqb m Method_finder) eqn:Ef.
      { destruct (mem_bytes (param_or_empty param_finder params) (n_finders q)) eqn:Hm; [|discriminate H].
        injection H as <-. eexists. split; [reflexivity|]. split; [symmetry; exact T|]. split; [|reflexivity].
        apply registered_iff. rewrite Ef. split; [reflexivity | apply mem_bytes_In; exact Hm]. }
      destruct (method_eqb m Method_action) eqn:Ea.
      { destruct (mem_bytes (param_or_empty param_action params) (n_actions q)) eqn:Hm; [|discriminate H].
        injection H as <-. eexists. split; [reflexivity|]. split; [symmetry; exact T|]. split; [|reflexivity].
        apply registered_iff. rewrite Ef, Ea. split; [reflexivity | apply mem_bytes_In; exact Hm]. }
      destruct (mem_method m (n_methods q)) eqn:Hm; [|discriminate H].
      injection H as <-. eexists. split; [reflexivity|]. split; [symmetry; exact T|]. split; [|reflexivity].
      apply registered_iff. rewrite Ef, Ea. split; [reflexivity | apply mem_method_In; exact Hm].
    + intros [params' [m' [name [H1 [H2 [H3 ->]]]]]]. injection H1 as <-.
      rewrite <- T in H2. injection H2 as <-.
      apply registered_iff in H3.
      destruct (method_eqb m Method_finder) eqn:Ef.
      { destruct H3 as [-> H3]. apply mem_bytes_In in H3. rewrite H3. reflexivity. }
      destruct (method_eqb m Method_action) eqn:Ea.
      { destruct H3 as [-> H3]. apply mem_bytes_In in H3. rewrite H3. reflexivity. }
      destruct H3 as [-> H3]. apply mem_method_In in H3. rewrite H3. reflexivity.
Qed.

Lemma walk_wf sibs segs ps ks q e : walk sibs segs ps ks q e -> wf_nodes sibs -> wf_node q.
Proof.
  intros W. induction W as [sibs n s Hin Hn | sibs n s k Hin Hn Hc Hv
                           | sibs n s s' rest ps ks t e Hin Hn Hc W IH
                           | sibs n s k s' rest ps ks t e Hin Hn Hc Hv W IH]; intros Hwf.
  - eapply wf_nodes_in; eassumption.
  - eapply wf_nodes_in; eassumption.
  - apply IH. apply wf_node_subs. eapply wf_nodes_in; eassumption.
  - apply IH. apply wf_node_subs. eapply wf_nodes_in; eassumption.
Qed.

(* ------------------------------------------------------------------------------------------------ paths *)

Lemma skipn_length_app {A} (p r : list A) : skipn (length p) (p ++ r) = r.
Proof. induction p as [|x p IH]; simpl; [reflexivity | exact IH]. Qed.

Lemma split_on_no_sep c s : Forall (fun g => mem_byte c g = false) (split_on c s).
Proof.
  induction s as [|x r IH]; simpl.
  - constructor; [reflexivity | constructor].
  - destruct (Byte.eqb x c) eqn:E.
    + constructor; [reflexivity | exact IH].
    + destruct (split_on c r) as [|h t].
      * constructor; [simpl; rewrite E; reflexivity | constructor].
      * inversion IH as [|? ? Hh Ht]; subst. constructor; [simpl; rewrite E; exact Hh | exact Ht].
Qed.

Lemma path_of_iff s req segs :
  path_of s req segs <->
  has_prefix (s_prefix s) (r_path req) = true /\ segs = split_on x2f (skipn (length (s_prefix s)) (r_path req)).
Proof.
  unfold path_of. split.
  - intros [Hp [Hne Hall]]. split.
    + apply has_prefix_spec. eexists. exact Hp.
    + rewrite Hp, skipn_length_app. symmetry. apply split_join_no_sep; assumption.
  - intros [Hp Hs]. apply has_prefix_spec in Hp as [r Hr]. rewrite Hr, skipn_length_app in Hs. subst segs.
    split; [|split].
    + rewrite join_split. exact Hr.
    + apply split_on_nonempty.
    + apply split_on_no_sep.
Qed.

(* ------------------------------------------------------------------------------------------------ C05: routing *)

Lemma route_iff_spec : forall s req t, wf_server s -> specified_for s req ->
  (route_root s req = Dispatch t <-> routed_spec s req t).
Proof.
  intros s req t Hwf Hsp. unfold wf_server in Hwf. split.
  - intros H. unfold route_root in H. cbv zeta in H.
    destruct (has_prefix (s_prefix s) (r_path req)) eqn:Hp; [|discriminate H].
    remember (split_on x2f (skipn (length (s_prefix s)) (r_path req))) as segs eqn:Hsegs.
    destruct segs as [|s0 rest]; [discriminate H|].
    destruct (find_sub s0 (s_roots s)) as [n|] eqn:Hf; [|discriminate H].
    assert (Hpath : path_of s req (s0 :: rest)) by (apply path_of_iff; split; assumption).
    destruct (receive_cases req (length (s0 :: rest)) (s_roots s) n [] [] s0 rest (le_n _) Hwf Hf)
      as [[ps [ks [q [e [W R]]]]] | [[W R] | R]]; rewrite R in H; try discriminate H.
    simpl app in H.
    apply finish_dispatch in H; [| eapply walk_wf; eassumption | eapply Hsp; eassumption].
    destruct H as [params [m [name [H1 [H2 [H3 H4]]]]]].
    exists (s0 :: rest), ps, ks, q, e, params, m, name.
    split; [exact Hpath|]. split; [exact W|]. split; [exact H1|]. split; [exact H2|]. split; [exact H3 | exact H4].
  - intros [segs [ps [ks [p [e [params [m [name [Hpath [W [Hq [Hm [Hr Ht]]]]]]]]]]]]].
    pose proof (Hsp _ _ _ _ _ Hpath W) as Hspec.
    apply path_of_iff in Hpath as [Hp Hsegs].
    unfold route_root. cbv zeta. rewrite Hp, <- Hsegs.
    destruct (walk_receive req _ _ _ _ _ _ W Hwf (length segs) [] [] (le_n _)) as [p0 [s0 [rest [E [Hf R]]]]].
    rewrite E in *. rewrite Hf, R. simpl app.
    apply finish_dispatch; [eapply walk_wf; eassumption | exact Hspec |].
    exists params, m, name. split; [exact Hq|]. split; [exact Hm|]. split; [exact Hr | exact Ht].
Qed.

Lemma route_unique : forall s req t1 t2, wf_server s -> specified_for s req ->
  routed_spec s req t1 -> routed_spec s req t2 -> t1 = t2.
Proof.
  intros s req t1 t2 Hwf Hsp H1 H2.
  apply (route_iff_spec s req t1 Hwf Hsp) in H1. apply (route_iff_spec s req t2 Hwf Hsp) in H2.
  rewrite H1 in H2. injection H2 as ->. reflexivity.
Qed.

Lemma unknown_is_404 s req : wf_server s -> unknown_resource s req -> exists rl, route_root s req = Reject 404 rl.
Proof.
  intros Hwf [Hp | [segs [Hpath W]]]; unfold route_root; cbv zeta.
  - rewrite Hp. exists false. reflexivity.
  - apply path_of_iff in Hpath as [Hp Hsegs]. rewrite Hp, <- Hsegs.
    destruct (walk_unknown_receive req _ _ W Hwf (length segs) [] [] (le_n _)) as [s0 [rest [E H]]].
    rewrite E in *. destruct H as [H | [p [Hf R]]].
    + rewrite H. exists false. reflexivity.
    + rewrite Hf, R. exists true. reflexivity.
Qed.

Lemma reject_cases s req st rl : wf_server s -> route_root s req = Reject st rl ->
  (st = 404%N /\ unknown_resource s req) \/ st = 400%N.
Proof.
  intros Hwf H. unfold route_root in H. cbv zeta in H.
  destruct (has_prefix (s_prefix s) (r_path req)) eqn:Hp.
  2:{ injection H as <- _. left. split; [reflexivity | left; exact Hp]. }
  remember (split_on x2f (skipn (length (s_prefix s)) (r_path req))) as segs eqn:Hsegs.
  destruct segs as [|s0 rest].
  { exfalso. symmetry in Hsegs. revert Hsegs. apply split_on_nonempty. }
  assert (Hpath : path_of s req (s0 :: rest)) by (apply path_of_iff; split; assumption).
  destruct (find_sub s0 (s_roots s)) as [n|] eqn:Hf.
  - destruct (receive_cases req (length (s0 :: rest)) (s_roots s) n [] [] s0 rest (le_n _) Hwf Hf)
      as [[ps [ks [q [e [W R]]]]] | [[W R] | R]]; rewrite R in H.
    + apply finish_reject in H as [-> _]. right. reflexivity.
    + injection H as <- _. left. split; [reflexivity|]. right. exists (s0 :: rest). split; assumption.
    + injection H as <- _. right. reflexivity.
  - injection H as <- _. left. split; [reflexivity|]. right. exists (s0 :: rest). split; [exact Hpath|].
    apply U_here. apply find_sub_none. exact Hf.
Qed.

Lemma unrouted_is_4xx : forall s req st rl, wf_server s ->
  route_root s req = Reject st rl ->
  (st = 404%N \/ st = 400%N) /\ (st = 404%N <-> unknown_resource s req) /\
  (forall fs sf, o_events (serve Bare s fs sf req) = [] /\ o_stub (serve Bare s fs sf req) = None /\
                 o_status (serve Bare s fs sf req) = st).
Proof.
  intros s req st rl Hwf H.
  pose proof (reject_cases s req st rl Hwf H) as C.
  split; [|split].
  - destruct C as [[C _] | C]; [left | right]; exact C.
  - split.
    + intros E. destruct C as [[_ U] | C]; [exact U|]. rewrite E in C. discriminate C.
    + intros U. destruct (unknown_is_404 s req Hwf U) as [rl' R]. rewrite R in H. injection H as <- _. reflexivity.
  - intros fs sf. unfold serve, route_mount. rewrite H. simpl. repeat split; reflexivity.
Qed.

(* ------------------------------------------------------------------------------------------------ what routing reads of a request *)

Lemma finish_ext q ps ks e req1 req2 :
  r_verb req1 = r_verb req2 -> r_query req1 = r_query req2 ->
  header_method (r_header req1) = header_method (r_header req2) ->
  finish q ps ks e req1 = finish q ps ks e req2.
Proof. intros Hv Hq Hh. unfold finish. rewrite <- Hv, <- Hq, <- Hh. reflexivity. Qed.

Lemma receive_nil f p ps ks req :
  receive (S f) p ps ks [] req = finish p (ps ++ [(n_name p, n_coll p)]) ks false req.
Proof. reflexivity. Qed.

Lemma receive_ext req1 req2 :
  r_verb req1 = r_verb req2 -> r_query req1 = r_query req2 ->
  header_method (r_header req1) = header_method (r_header req2) ->
  forall fuel p ps ks rem, receive fuel p ps ks rem req1 = receive fuel p ps ks rem req2.
Proof.
  intros Hv Hq Hh. induction fuel as [|f IH]; intros p ps ks rem; [reflexivity|].
  destruct rem as [|s r1]; [rewrite !receive_nil; apply finish_ext; assumption|].
  destruct r1 as [|k r2]; [rewrite !receive_one; apply finish_ext; assumption|].
  destruct (n_coll p) eqn:Hc.
  - rewrite !(receive_coll _ _ _ _ _ _ _ _ Hc).
    destruct (valid_ror2 k); [|reflexivity].
    destruct r2 as [|s' r3]; [apply finish_ext; assumption|].
    destruct (find_sub s' (n_subs p)); [apply IH | reflexivity].
  - rewrite !(receive_simple _ _ _ _ _ _ _ _ Hc).
    destruct (find_sub k (n_subs p)); [apply IH | reflexivity].
Qed.

Lemma route_root_ext s req1 req2 :
  r_path req1 = r_path req2 -> r_verb req1 = r_verb req2 -> r_query req1 = r_query req2 ->
  header_method (r_header req1) = header_method (r_header req2) ->
  route_root s req1 = route_root s req2.
Proof.
  intros Hp Hv Hq Hh. unfold route_root. cbv zeta. rewrite <- Hp.
  destruct (has_prefix (s_prefix s) (r_path req1)); [|reflexivity].
  destruct (split_on x2f (skipn (length (s_prefix s)) (r_path req1))) as [|s0 rest]; [reflexivity|].
  destruct (find_sub s0 (s_roots s)); [|reflexivity].
  apply receive_ext; assumption.
Qed.

Lemma assoc_method_none h l : (forall k m, In (k, m) l -> k <> h) -> assoc_method h l = Method_Unknown.
Proof.
  induction l as [|[k m] r IH]; intros H; simpl; [reflexivity|].
  destruct (bytes_eqb k h) eqn:E.
  - apply bytes_eqb_eq in E. exfalso. apply (H k m); [left; reflexivity | exact E].
  - apply IH. intros k' m' Hin. apply (H k' m'). right. exact Hin.
Qed.

Lemma mapping_entries k m : In (k, m) method_name_mapping -> k = method_name m /\ m <> Method_Unknown.
Proof.
  intros Hin.
  assert (T : forallb (fun km => bytes_eqb (fst km) (method_name (snd km)) && negb (method_eqb (snd km) Method_Unknown))
                method_name_mapping = true) by (vm_compute; reflexivity).
  rewrite forallb_forall in T. specialize (T _ Hin). simpl in T.
  apply andb_true_iff in T as [T1 T2]. apply bytes_eqb_eq in T1. apply negb_true_iff in T2.
  apply method_eqb_neq in T2. split; assumption.
Qed.

Lemma header_method_unknown h : (forall m, m <> Method_Unknown -> method_name m <> h) -> header_method h = Method_Unknown.
Proof.
  intros H. unfold header_method. apply assoc_method_none.
  intros k m Hin. destruct (mapping_entries k m Hin) as [-> Hm]. apply H. exact Hm.
Qed.

Lemma header_method_empty : header_method [] = Method_Unknown.
Proof. vm_compute. reflexivity. Qed.

Lemma unknown_header_is_absent : forall s req h,
  (forall m, m <> Method_Unknown -> method_name m <> h) ->
  route_root s (set_header req h) = route_root s (set_header req []).
Proof.
  intros s req h H. apply route_root_ext; try reflexivity.
  simpl. rewrite (header_method_unknown h H), header_method_empty. reflexivity.
Qed.

(* ------------------------------------------------------------------------------------------------ mounting *)

Lemma route_root_as p roots req rest : r_path req = p ++ rest ->
  route_root {| s_prefix := p; s_roots := roots |} req =
  match split_on x2f rest with
  | [] => Reject 404 false
  | s0 :: _ =>
      match find_sub s0 roots with
      | None => Reject 404 false
      | Some sub => receive (length (split_on x2f rest)) sub [] [] (split_on x2f rest) req
      end
  end.
Proof.
  intros H. unfold route_root. cbv zeta. simpl s_prefix. simpl s_roots.
  rewrite H, skipn_length_app.
  rewrite (proj2 (has_prefix_spec p (p ++ rest))) by (exists rest; reflexivity).
  reflexivity.
Qed.

Lemma prefix_independent : forall p roots req rest,
  route_root {| s_prefix := p; s_roots := roots |} (set_path req (p ++ rest)) =
  route_root {| s_prefix := [x2f]; s_roots := roots |} (set_path req (x2f :: rest)).
Proof.
  intros p roots req rest.
  rewrite (route_root_as p roots _ rest) by reflexivity.
  rewrite (route_root_as [x2f] roots _ rest) by reflexivity.
  destruct (split_on x2f rest) as [|s0 r]; [reflexivity|].
  destruct (find_sub s0 roots); [|reflexivity].
  apply receive_ext; reflexivity.
Qed.

Lemma mount_independent : forall s req, mux_clean (r_path req) = true ->
  route_mount Mux s req = route_mount Bare s req.
Proof.
  intros s req Hc. unfold route_mount. rewrite Hc.
  destruct (existsb (pat_match (r_path req)) (mux_patterns s)) eqn:E; [reflexivity|].
  symmetry. unfold route_root. cbv zeta.
  destruct (has_prefix (s_prefix s) (r_path req)) eqn:Hp; [|reflexivity].
  remember (split_on x2f (skipn (length (s_prefix s)) (r_path req))) as segs eqn:Hsegs.
  destruct segs as [|s0 rest]; [reflexivity|].
  destruct (find_sub s0 (s_roots s)) as [n|] eqn:Hf; [|reflexivity].
  exfalso.
  assert (T : existsb (pat_match (r_path req)) (mux_patterns s) = true); [|rewrite T in E; discriminate E].
  apply has_prefix_spec in Hp as [r Hr]. rewrite Hr, skipn_length_app in Hsegs.
  destruct (find_sub_some _ _ _ Hf) as [Hin Hn].
  pose proof (join_split x2f r) as J. rewrite <- Hsegs in J.
  apply existsb_exists.
  destruct rest as [|x rest'].
  - exists (false, s_prefix s ++ n_name n). split.
    + unfold mux_patterns. apply in_flat_map. exists n. split; [exact Hin | left; reflexivity].
    + unfold pat_match. simpl fst. simpl snd. apply bytes_eqb_eq. simpl in J. rewrite Hr, Hn, J. reflexivity.
  - exists (true, s_prefix s ++ n_name n ++ [x2f]). split.
    + unfold mux_patterns. apply in_flat_map. exists n. split; [exact Hin | right; left; reflexivity].
    + unfold pat_match. simpl fst. simpl snd. apply has_prefix_spec.
      change (join_with [x2f] (s0 :: x :: rest')) with (s0 ++ [x2f] ++ join_with [x2f] (x :: rest')) in J.
      exists (join_with [x2f] (x :: rest')). rewrite Hr, Hn, <- J, <- !app_assoc. reflexivity.
Qed.

(* ------------------------------------------------------------------------------------------------ Handler() *)

Section NodeInd.
  Variable P : node -> Prop.
  Hypothesis HN : forall a c ms fs acs ss, Forall P ss -> P (Node a c ms fs acs ss).
  Fixpoint node_ind' (n : node) : P n :=
    match n with
    | Node a c ms fs acs ss =>
        HN a c ms fs acs ss ((fix go (l : list node) : Forall P l :=
                                match l with [] => Forall_nil _ | x :: r => Forall_cons _ (node_ind' x) (go r) end) ss)
    end.
End NodeInd.

Lemma clone_node_id n : clone_node n = n.
Proof.
  induction n as [a c ms fs acs ss IH] using node_ind'.
  simpl. rewrite !map_id. f_equal.
  induction IH as [|x r Hx _ IHr]; simpl; [reflexivity|]. rewrite Hx, IHr. reflexivity.
Qed.

Lemma handler_of_id s : handler_of s = s.
Proof.
  destruct s as [p roots]. unfold handler_of. simpl. f_equal.
  induction roots as [|x r IH]; simpl; [reflexivity|]. rewrite clone_node_id, IH. reflexivity.
Qed.

Lemma run_ops_handlers ops : forall w w', run_ops ops w = Some w' -> exists extra, w_handlers w' = w_handlers w ++ extra.
Proof.
  induction ops as [|o r IH]; intros w w' H; simpl in H.
  - injection H as <-. exists []. rewrite app_nil_r. reflexivity.
  - destruct (step w o) as [w1|] eqn:Hs; [|discriminate H].
    destruct (IH _ _ H) as [extra He].
    destruct o as [segs what|]; simpl in Hs.
    + destruct (reg_in (s_roots (w_server w)) segs what); [|discriminate Hs].
      injection Hs as <-. simpl in He. exists extra. exact He.
    + injection Hs as <-. simpl in He. exists ([handler_of (w_server w)] ++ extra).
      rewrite He, <- app_assoc. reflexivity.
Qed.

Lemma handler_is_snapshot : forall ops1 ops2 w0 w1 w2,
  run_ops ops1 w0 = Some w1 -> run_ops (OpHandler :: ops2) w1 = Some w2 ->
  nth_error (w_handlers w2) (length (w_handlers w1)) = Some (w_server w1).
Proof.
  intros ops1 ops2 w0 w1 w2 _ H. simpl in H.
  destruct (run_ops_handlers _ _ _ H) as [extra He]. simpl in He.
  rewrite He, <- app_assoc, nth_error_app2, Nat.sub_diag by apply le_n.
  simpl. rewrite handler_of_id. reflexivity.
Qed.

(* ------------------------------------------------------------------------------------------------ registration *)

Lemma put_sub_name_in n' l x : In x (map n_name (put_sub n' l)) -> x = n_name n' \/ In x (map n_name l).
Proof.
  induction l as [|n r IH]; simpl.
  - intros [H | []]. left. symmetry. exact H.
  - destruct (bytes_eqb (n_name n) (n_name n')) eqn:E; simpl.
    + intros [H | H]; [left; symmetry; exact H | right; right; exact H].
    + intros [H | H]; [right; left; exact H|]. destruct (IH H) as [H' | H']; [left; exact H' | right; right; exact H'].
Qed.

Lemma put_sub_nodup n' l : NoDup (map n_name l) -> NoDup (map n_name (put_sub n' l)).
Proof.
  induction l as [|n r IH]; simpl; intros H.
  - constructor; [intros [] | constructor].
  - inversion H as [|? ? Hni Hnd]; subst.
    destruct (bytes_eqb (n_name n) (n_name n')) eqn:E; simpl.
    + apply bytes_eqb_eq in E. rewrite <- E. constructor; assumption.
    + apply bytes_eqb_neq in E. constructor; [|apply IH; exact Hnd].
      intros Hin. apply put_sub_name_in in Hin as [Hin | Hin]; [exact (E Hin) | exact (Hni Hin)].
Qed.

Lemma put_sub_forall (P : node -> Prop) n' l : P n' -> Forall P l -> Forall P (put_sub n' l).
Proof.
  intros Hn'. induction l as [|n r IH]; simpl; intros H.
  - constructor; [exact Hn' | constructor].
  - inversion H as [|? ? Hn Hr]; subst.
    destruct (bytes_eqb (n_name n) (n_name n')); constructor; try assumption. apply IH. exact Hr.
Qed.

Lemma wf_nodes_put_sub n' l : wf_node n' -> wf_nodes l -> wf_nodes (put_sub n' l).
Proof. intros Hn' [H1 H2]. split; [apply put_sub_nodup; exact H1 | apply put_sub_forall; assumption]. Qed.

Lemma add_what_wf n w n' : wf_node n -> w <> RMethod Method_Unknown -> add_what n w = Some n' -> wf_node n'.
Proof.
  intros Hwf Hw H. apply wf_node_unfold in Hwf. apply wf_node_unfold.
  destruct n as [a c ms fs acs ss]. simpl in Hwf. destruct Hwf as [H1 [H2 H3]].
  destruct w as [m | f | f]; simpl in H.
  - destruct (mem_method m ms); [discriminate H|]. injection H as <-. simpl.
    split; [|split; assumption]. intros Hin. apply in_app_or in Hin as [Hin | [Hin | []]]; [exact (H1 Hin)|].
    apply Hw. rewrite Hin. reflexivity.
  - destruct (mem_bytes f fs); [discriminate H|]. injection H as <-. simpl. split; [|split]; assumption.
  - destruct (mem_bytes f acs); [discriminate H|]. injection H as <-. simpl. split; [|split]; assumption.
Qed.

Lemma with_subs_wf n ss : wf_node n -> wf_nodes ss -> wf_node (with_subs n ss).
Proof.
  intros Hwf [H1 H2]. apply wf_node_unfold in Hwf as [Hm _]. apply wf_node_unfold.
  destruct n as [a c ms fs acs ss0]. simpl in *. split; [|split]; assumption.
Qed.

Lemma reg_in_cons subs nm c rest w :
  reg_in subs ((nm, c) :: rest) w =
  let cur := match find_sub nm subs with Some n => n | None => Node nm c [] [] [] [] end in
  if Bool.eqb (n_coll cur) c then
    match rest with
    | [] => match add_what cur w with Some n' => Some (put_sub n' subs) | None => None end
    | _ :: _ => match reg_in (n_subs cur) rest w with
                | Some ss => Some (put_sub (with_subs cur ss) subs)
                | None => None
                end
    end
  else None.
Proof. reflexivity. Qed.

Lemma reg_in_wf w : w <> RMethod Method_Unknown ->
  forall segs subs rs, wf_nodes subs -> reg_in subs segs w = Some rs -> wf_nodes rs.
Proof.
  intros Hw. induction segs as [|[nm c] rest IH]; intros subs rs Hwf H.
  - simpl in H. injection H as <-. exact Hwf.
  - rewrite reg_in_cons in H. cbv zeta in H.
    assert (Hcur : wf_node (match find_sub nm subs with Some n => n | None => Node nm c [] [] [] [] end)).
    { destruct (find_sub nm subs) as [n|] eqn:Hf.
      - apply find_sub_some in Hf as [Hin _]. eapply wf_nodes_in; eassumption.
      - apply wf_node_unfold. simpl. split; [tauto | split; constructor]. }
    set (cur := match find_sub nm subs with Some n => n | None => Node nm c [] [] [] [] end) in *.
    destruct (Bool.eqb (n_coll cur) c); [|discriminate H].
    destruct rest as [|sg rest'].
    + destruct (add_what cur w) as [n'|] eqn:Ha; [|discriminate H]. injection H as <-.
      apply wf_nodes_put_sub; [eapply add_what_wf; eassumption | exact Hwf].
    + destruct (reg_in (n_subs cur) (sg :: rest') w) as [ss|] eqn:Hr; [|discriminate H]. injection H as <-.
      apply wf_nodes_put_sub; [|exact Hwf].
      apply with_subs_wf; [exact Hcur|]. eapply IH; [|exact Hr]. apply wf_node_subs. exact Hcur.
Qed.

Lemma run_ops_wf ops : forall w w',
  (forall segs, ~ In (OpRegister segs (RMethod Method_Unknown)) ops) ->
  wf_server (w_server w) -> Forall wf_server (w_handlers w) ->
  run_ops ops w = Some w' -> wf_server (w_server w') /\ Forall wf_server (w_handlers w').
Proof.
  induction ops as [|o r IH]; intros w w' Hno Hs Hh H; simpl in H.
  - injection H as <-. split; assumption.
  - destruct (step w o) as [w1|] eqn:Hst; [|discriminate H].
    assert (Hno' : forall segs, ~ In (OpRegister segs (RMethod Method_Unknown)) r)
      by (intros segs Hin; apply (Hno segs); right; exact Hin).
    destruct o as [segs what|]; simpl in Hst.
    + destruct (reg_in (s_roots (w_server w)) segs what) as [rs|] eqn:Hr; [|discriminate Hst].
      injection Hst as <-. eapply IH; [exact Hno'| | |exact H]; simpl; [|exact Hh].
      unfold wf_server. simpl. eapply reg_in_wf; [|exact Hs|exact Hr].
      intros ->. apply (Hno segs). left. reflexivity.
    + injection Hst as <-. eapply IH; [exact Hno'| | |exact H]; simpl; [exact Hs|].
      apply Forall_app. split; [exact Hh|]. constructor; [|constructor]. rewrite handler_of_id. exact Hs.
Qed.

Lemma registration_wf : forall ops prefix w,
  (forall segs, ~ In (OpRegister segs (RMethod Method_Unknown)) ops) ->
  run_ops ops (new_world prefix) = Some w -> wf_server (w_server w) /\ Forall wf_server (w_handlers w).
Proof.
  intros ops prefix w Hno H. eapply run_ops_wf; [exact Hno| | |exact H].
  - unfold wf_server, new_world. simpl. split; constructor.
  - simpl. constructor.
Qed.

(* ------------------------------------------------------------------------------------------------ filters *)

(* the PreRequest events of filters i, i+1, ... when [seen] is visible to the first of them *)
Definition pre_from (fs : list fkind) (i : nat) (seen : list nat) : list event :=
  map (fun j => EvPre (i + j) (seen ++ ctx_ids_from (firstn j fs) i)) (seq 0 (length fs)).

Definition step_seen (f : fkind) (i : nat) (seen : list nat) : list nat :=
  match f with FCtx => seen ++ [i] | _ => seen end.

Lemma pre_from_0 fs : pre_from fs 0 [] = pre_events fs.
Proof. reflexivity. Qed.

Lemma pre_from_cons f r i seen : pre_from (f :: r) i seen = EvPre i seen :: pre_from r (S i) (step_seen f i seen).
Proof.
  unfold pre_from. simpl length. rewrite <- cons_seq, <- seq_shift. simpl map.
  rewrite Nat.add_0_r, app_nil_r. f_equal.
  rewrite map_map. apply map_ext. intros j.
  rewrite Nat.add_succ_r. simpl plus. f_equal.
  destruct f; simpl; rewrite <- ?app_assoc; reflexivity.
Qed.

Lemma ctx_ids_from_cons f r i seen : seen ++ ctx_ids_from (f :: r) i = step_seen f i seen ++ ctx_ids_from r (S i).
Proof. destruct f; simpl; rewrite <- ?app_assoc; reflexivity. Qed.

Lemma run_pre_pass : forall fs i seen, Forall passing fs ->
  run_pre fs i seen = (pre_from fs i seen, Some (seen ++ ctx_ids_from fs i)).
Proof.
  induction fs as [|f r IH]; intros i seen Hp.
  - simpl. rewrite app_nil_r. reflexivity.
  - inversion Hp as [|? ? Hf Hr]; subst.
    rewrite pre_from_cons, ctx_ids_from_cons.
    destruct Hf as [-> | ->]; simpl run_pre; rewrite (IH _ _ Hr); reflexivity.
Qed.

Lemma run_pre_gen : forall fs i seen, exists k, k <= length fs /\
  fst (run_pre fs i seen) = firstn k (pre_from fs i seen) /\
  (forall seen', snd (run_pre fs i seen) = Some seen' -> k = length fs).
Proof.
  induction fs as [|f r IH]; intros i seen.
  - exists 0. simpl. split; [lia|]. split; [reflexivity|]. intros; reflexivity.
  - rewrite pre_from_cons.
    destruct (IH (S i) (step_seen f i seen)) as [k [Hk [Hf Hs]]].
    destruct f; simpl run_pre; simpl step_seen in *.
    + destruct (run_pre r (S i) seen) as [ev res]. simpl in *. exists (S k). split; [lia|]. split.
      * simpl. rewrite Hf. reflexivity.
      * intros seen' E. rewrite (Hs _ E). reflexivity.
    + destruct (run_pre r (S i) (seen ++ [i])) as [ev res]. simpl in *. exists (S k). split; [lia|]. split.
      * simpl. rewrite Hf. reflexivity.
      * intros seen' E. rewrite (Hs _ E). reflexivity.
    + exists 1. simpl. split; [lia|]. split; [reflexivity|]. intros seen' E. discriminate E.
    + destruct (run_pre r (S i) seen) as [ev res]. simpl in *. exists (S k). split; [lia|]. split.
      * simpl. rewrite Hf. reflexivity.
      * intros seen' E. rewrite (Hs _ E). reflexivity.
Qed.

Definition all_pre (l : list event) : Prop := Forall (fun e => is_pre e = true) l.
Definition all_post (l : list event) : Prop := Forall (fun e => is_post e = true) l.

Lemma run_pre_all_pre : forall fs i seen, all_pre (fst (run_pre fs i seen)).
Proof.
  induction fs as [|f r IH]; intros i seen; [constructor|].
  destruct f; simpl run_pre.
  - pose proof (IH (S i) seen) as H. destruct (run_pre r (S i) seen) as [ev res]. constructor; [reflexivity | exact H].
  - pose proof (IH (S i) (seen ++ [i])) as H. destruct (run_pre r (S i) (seen ++ [i])) as [ev res].
    constructor; [reflexivity | exact H].
  - constructor; [reflexivity | constructor].
  - pose proof (IH (S i) seen) as H. destruct (run_pre r (S i) seen) as [ev res]. constructor; [reflexivity | exact H].
Qed.

Lemma run_post_all_post : forall l seen, all_post (fst (run_post l seen)).
Proof.
  induction l as [|[i f] r IH]; intros seen; [constructor|].
  pose proof (IH seen) as H.
  destruct f; simpl run_post; try (destruct (run_post r seen) as [ev ok]); simpl;
    (constructor; [reflexivity | first [exact H | constructor]]).
Qed.

Lemma run_post_pass : forall l seen, Forall (fun p => passing (snd p)) l ->
  run_post l seen = (map (fun p => EvPost (fst p) seen) l, true).
Proof.
  induction l as [|[i f] r IH]; intros seen Hp; [reflexivity|].
  inversion Hp as [|? ? Hf Hr]; subst. simpl in Hf.
  destruct Hf as [-> | ->]; simpl; rewrite (IH _ Hr); reflexivity.
Qed.

Lemma map_fst_indexed {B} (g : nat -> B) : forall (fs : list fkind) i,
  map (fun p => g (fst p)) (combine (seq i (length fs)) fs) = map g (seq i (length fs)).
Proof.
  induction fs as [|f r IH]; intros i; simpl; [reflexivity|]. rewrite IH. reflexivity.
Qed.

Lemma filter_all {A} (f : A -> bool) l : Forall (fun e => f e = true) l -> filter f l = l.
Proof. induction 1 as [|x r Hx _ IH]; simpl; [reflexivity|]. rewrite Hx, IH. reflexivity. Qed.

Lemma filter_none {A} (f : A -> bool) l : Forall (fun e => f e = false) l -> filter f l = [].
Proof. induction 1 as [|x r Hx _ IH]; simpl; [reflexivity|]. rewrite Hx. exact IH. Qed.

Lemma all_pre_kinds l : all_pre l ->
  Forall (fun e => is_stub e = false) l /\ Forall (fun e => is_post e = false) l.
Proof.
  induction 1 as [|x r Hx _ [IH1 IH2]]; [split; constructor|].
  destruct x; try discriminate Hx. split; constructor; try reflexivity; assumption.
Qed.

Lemma all_post_kinds l : all_post l ->
  Forall (fun e => is_pre e = false) l /\ Forall (fun e => is_stub e = false) l.
Proof.
  induction 1 as [|x r Hx _ [IH1 IH2]]; [split; constructor|].
  destruct x; try discriminate Hx. split; constructor; try reflexivity; assumption.
Qed.

Lemma shape_pre_only pre : all_pre pre ->
  filter is_pre pre = pre /\ filter is_stub pre = [] /\ filter is_post pre = [].
Proof.
  intros H. destruct (all_pre_kinds _ H) as [H1 H2].
  split; [apply filter_all; exact H | split; apply filter_none; assumption].
Qed.

Lemma shape_full pre seen post : all_pre pre -> all_post post ->
  filter is_pre (pre ++ [EvStub seen] ++ post) = pre /\
  filter is_stub (pre ++ [EvStub seen] ++ post) = [EvStub seen] /\
  filter is_post (pre ++ [EvStub seen] ++ post) = post.
Proof.
  intros H G. destruct (all_pre_kinds _ H) as [H1 H2]. destruct (all_post_kinds _ G) as [G1 G2].
  rewrite !filter_app. simpl.
  rewrite (filter_all _ _ H), (filter_none _ _ H1), (filter_none _ _ H2),
          (filter_all _ _ G), (filter_none _ _ G1), (filter_none _ _ G2), app_nil_r.
  repeat split; reflexivity.
Qed.

Lemma filters_order : forall fs body t, Forall passing fs -> body_ok (t_method t) body = true ->
  exec fs false body t =
  {| o_status := 0%N; o_restli := false;
     o_events := pre_events fs ++ [EvStub (ctx_ids fs)] ++ rev (post_events fs);
     o_stub := Some t; o_seen := Some t |}.
Proof.
  intros fs body t Hp Hb. unfold exec.
  rewrite (run_pre_pass fs 0 [] Hp), Hb. cbv beta iota. simpl negb. cbv beta iota.
  rewrite run_post_pass.
  2:{ apply Forall_forall. intros [i f] Hin. apply in_rev in Hin. unfold indexed in Hin.
      apply in_combine_r in Hin. rewrite Forall_forall in Hp. simpl. apply Hp. exact Hin. }
  cbv beta iota. rewrite pre_from_0, map_rev. unfold indexed.
  rewrite (map_fst_indexed (fun i => EvPost i ([] ++ ctx_ids_from fs 0)) fs 0).
  reflexivity.
Qed.

Lemma filters_prefix : forall fs sf body t,
  let ev := o_events (exec fs sf body t) in
  exists k, firstn k (pre_events fs) = filter is_pre ev /\
            ev = filter is_pre ev ++ filter is_stub ev ++ filter is_post ev /\
            (filter is_stub ev <> [] -> k = length fs /\ o_stub (exec fs sf body t) = Some t) /\
            (filter is_post ev <> [] -> filter is_stub ev <> [] /\ sf = false).
Proof.
  intros fs sf body t. cbv zeta.
  destruct (run_pre_gen fs 0 []) as [k [Hk [Hf Hs]]].
  pose proof (run_pre_all_pre fs 0 []) as Hpre.
  rewrite pre_from_0 in Hf.
  unfold exec. destruct (run_pre fs 0 []) as [pre res]. simpl fst in *. simpl snd in *.
  exists k.
  destruct res as [seen|].
  - specialize (Hs seen eq_refl).
    destruct (negb (body_ok (t_method t) body)).
    { cbn [o_events o_stub]. destruct (shape_pre_only pre Hpre) as [E1 [E2 E3]]. rewrite E1, E2, E3.
      split; [symmetry; exact Hf|]. split; [rewrite !app_nil_r; reflexivity|].
      split; intros C; exfalso; apply C; reflexivity. }
    destruct sf.
    { cbn [o_events o_stub].
      destruct (shape_full pre seen [] Hpre (Forall_nil _)) as [E1 [E2 E3]].
      change (pre ++ [EvStub seen] ++ []) with (pre ++ [EvStub seen]) in E1, E2, E3.
      rewrite E1, E2, E3.
      split; [symmetry; exact Hf|]. split; [reflexivity|].
      split; [intros _; split; [exact Hs | reflexivity] | intros C; exfalso; apply C; reflexivity]. }
    pose proof (run_post_all_post (rev (indexed fs)) seen) as Hpost.
    destruct (run_post (rev (indexed fs)) seen) as [post ok]. simpl fst in Hpost.
    cbn [o_events o_stub].
    destruct (shape_full pre seen post Hpre Hpost) as [E1 [E2 E3]]. rewrite E1, E2, E3.
    split; [symmetry; exact Hf|]. split; [reflexivity|].
    split; [intros _; split; [exact Hs | reflexivity] | intros _; split; [discriminate | reflexivity]].
  - cbn [o_events o_stub]. destruct (shape_pre_only pre Hpre) as [E1 [E2 E3]]. rewrite E1, E2, E3.
    split; [symmetry; exact Hf|]. split; [rewrite !app_nil_r; reflexivity|].
    split; intros C; exfalso; apply C; reflexivity.
Qed.

(* ------------------------------------------------------------------------------------------------ the mux premise is needed *)

(* the entity key "." of the collection /a, through a ServeMux: 301, while the bare handler routes it to get *)
Definition dot_key_server : server := {| s_prefix := [x2f]; s_roots := [Node [x61] true [Method_get] [] [] []] |}.
Definition dot_key_request : request :=
  {| r_verb := VGet; r_header := []; r_path := [x2f; x61; x2f; x2e]; r_query := []; r_body := false |}.

Lemma mount_independent_refuted :
  route_mount Bare dot_key_server dot_key_request = Dispatch ([([x61], true)], Method_get, [[x2e]], None) /\
  route_mount Mux dot_key_server dot_key_request = Reject 301 false.
Proof. split; vm_compute; reflexivity. Qed.
