From Coq Require Import List Bool Arith Lia.
From Coq.Strings Require Import Byte.
From GR Require Import Base.Bytes Gen2.Clean.
Import ListNotations.

(* nested induction principle *)
Section NodeInd.
  Variable P : node -> Prop.
  Hypothesis HF : forall nm c, P (File nm c).
  Hypothesis HD : forall nm cs, Forall P cs -> P (Dir nm cs).
  Fixpoint node_ind' (n : node) : P n :=
    match n with
    | File nm c => HF nm c
    | Dir nm cs => HD nm cs ((fix go (l : list node) : Forall P l :=
                                match l with [] => Forall_nil _ | c :: r => Forall_cons _ (node_ind' c) (go r) end) cs)
    end.
End NodeInd.

(* paths *)
Inductive file_in : list node -> list bytes -> bytes -> Prop :=
| fi_here cs nm c : In (File nm c) cs -> file_in cs [nm] c
| fi_sub cs nm sub p c : In (Dir nm sub) cs -> file_in sub p c -> file_in cs (nm :: p) c.

Inductive dir_in : list node -> list bytes -> Prop :=
| di_here cs nm sub : In (Dir nm sub) cs -> dir_in cs [nm]
| di_sub cs nm sub p : In (Dir nm sub) cs -> dir_in sub p -> dir_in cs (nm :: p).

Definition basename (p : list bytes) : bytes := last p [].

Lemma basename_cons x y p : basename (x :: y :: p) = basename (y :: p).
Proof. reflexivity. Qed.

Lemma file_in_nonempty cs p c : file_in cs p c -> p <> [].
Proof. intros H; inversion H; discriminate. Qed.

Lemma file_in_mono cs cs' p c : incl cs cs' -> file_in cs p c -> file_in cs' p c.
Proof.
  intros I H. inversion H; subst.
  - apply fi_here. apply I. assumption.
  - eapply fi_sub; [apply I; eassumption | assumption].
Qed.

Lemma dir_in_mono cs cs' p : incl cs cs' -> dir_in cs p -> dir_in cs' p.
Proof.
  intros I H. inversion H; subst.
  - eapply di_here. apply I. eassumption.
  - eapply di_sub; [apply I; eassumption | assumption].
Qed.

Lemma file_in_nil p c : ~ file_in [] p c.
Proof. intros H; inversion H; subst; simpl in *; contradiction. Qed.
Lemma dir_in_nil p : ~ dir_in [] p.
Proof. intros H; inversion H; subst; simpl in *; contradiction. Qed.

Lemma file_below_dir l p q c : p <> [] -> q <> [] -> file_in l (p ++ q) c -> dir_in l p.
Proof.
  revert l; induction p as [|x p IH]; intros l Hp Hq H; [congruence|].
  simpl in H. inversion H as [cs nm c0 Hin Heq | cs nm sub p' c0 Hin Hsub]; subst.
  - destruct p; [destruct q; [congruence | discriminate] | discriminate].
  - destruct p as [|y p].
    + eapply di_here. eassumption.
    + eapply di_sub; [eassumption|]. apply IH; [discriminate | assumption | assumption].
Qed.

Section Proofs.
  Variable suffix manifest : bytes.
  Notation clean_node := (clean_node suffix manifest).
  Notation clean_children := (clean_children suffix manifest).
  Notation clean_target := (clean_target suffix manifest).
  Notation owned := (owned suffix manifest).
  Notation manifest_blocked := (manifest_blocked manifest).

  Lemma clean_node_dir nm cs :
    clean_node (Dir nm cs) =
      if manifest_blocked cs then (Some (Dir nm cs), false)
      else let '(cs', ok) := clean_children cs in
           if ok then match cs' with [] => (None, true) | _ :: _ => (Some (Dir nm cs'), true) end
           else (Some (Dir nm cs'), false).
  Proof. reflexivity. Qed.

  Lemma clean_children_cons c r :
    clean_children (c :: r) =
      match c with
      | File fn _ =>
          if is_manifest manifest fn then clean_children r
          else if is_generated suffix fn then clean_children r
          else let '(r', ok) := clean_children r in (c :: r', ok)
      | Dir dn dcs =>
          match dcs with
          | [] => clean_children r
          | _ :: _ =>
              let '(oc, okc) := clean_node c in
              if okc then let '(r', ok) := clean_children r in (ocons oc r', ok)
              else (ocons oc (drop_manifest manifest r), false)
          end
      end.
  Proof. reflexivity. Qed.

  Opaque Clean.clean_node.

  (* what a successful or failed clean of one directory node looks like *)
  Definition node_post (n : node) : Prop :=
    match n with
    | File _ _ => True
    | Dir nm cs =>
        forall o ok, clean_node n = (o, ok) ->
          (* the result is the same directory with some children list cs' (or nothing) *)
          exists cs', (o = Some (Dir nm cs') \/ (o = None /\ cs' = [] /\ ok = true)) /\
            (* 1. foreign files survive, in place, also on error *)
            (forall p c, file_in cs p c -> owned (basename p) = false -> file_in cs' p c) /\
            (* 2. nothing is created *)
            (forall p c, file_in cs' p c -> file_in cs p c) /\
            (forall p, dir_in cs' p -> dir_in cs p) /\
            (* 3. on success nothing owned and no empty directory is left *)
            (ok = true -> forall p c, file_in cs' p c -> owned (basename p) = false) /\
            (ok = true -> forall p, dir_in cs' p -> exists q c, file_in cs' (p ++ q) c) /\
            (ok = true -> o = Some (Dir nm cs') -> cs' <> [])
    end.

  Definition children_post (cs : list node) : Prop :=
    forall cs' ok, clean_children cs = (cs', ok) ->
      (forall p c, file_in cs p c -> owned (basename p) = false -> file_in cs' p c) /\
      (forall p c, file_in cs' p c -> file_in cs p c) /\
      (forall p, dir_in cs' p -> dir_in cs p) /\
      (ok = true -> forall p c, file_in cs' p c -> owned (basename p) = false) /\
      (ok = true -> forall p, dir_in cs' p -> exists q c, file_in cs' (p ++ q) c).

  Lemma file_in_cons_inv c r p x :
    file_in (c :: r) p x ->
    (exists nm, c = File nm x /\ p = [nm]) \/
    (exists nm sub p', c = Dir nm sub /\ p = nm :: p' /\ file_in sub p' x) \/
    file_in r p x.
  Proof.
    intros H. inversion H as [cs nm c0 Hin | cs nm sub p' c0 Hin Hsub]; subst.
    - destruct Hin as [-> | Hin]; [left; eauto | right; right; apply fi_here; assumption].
    - destruct Hin as [-> | Hin]; [right; left; eauto 6 | right; right; eapply fi_sub; eassumption].
  Qed.

  Lemma dir_in_cons_inv c r p :
    dir_in (c :: r) p ->
    (exists nm sub, c = Dir nm sub /\ p = [nm]) \/
    (exists nm sub p', c = Dir nm sub /\ p = nm :: p' /\ dir_in sub p') \/
    dir_in r p.
  Proof.
    intros H. inversion H as [cs nm sub Hin | cs nm sub p' Hin Hsub]; subst.
    - destruct Hin as [-> | Hin]; [left; eauto | right; right; eapply di_here; eassumption].
    - destruct Hin as [-> | Hin]; [right; left; eauto 6 | right; right; eapply di_sub; eassumption].
  Qed.

  Lemma file_in_tail c r p x : file_in r p x -> file_in (c :: r) p x.
  Proof. apply file_in_mono. apply incl_tl, incl_refl. Qed.
  Lemma dir_in_tail c r p : dir_in r p -> dir_in (c :: r) p.
  Proof. apply dir_in_mono. apply incl_tl, incl_refl. Qed.

  Lemma owned_file_single nm : owned (basename [nm]) = owned nm.
  Proof. reflexivity. Qed.

  Lemma basename_sub nm p x sub : file_in sub p x -> basename (nm :: p) = basename p.
  Proof. intros H. apply file_in_nonempty in H. destruct p; [congruence | reflexivity]. Qed.

  Lemma drop_manifest_keeps r p c :
    file_in r p c -> owned (basename p) = false -> file_in (drop_manifest manifest r) p c.
  Proof.
    induction r as [|x r IH]; intros Hin Ho; [exact Hin|].
    apply file_in_cons_inv in Hin as [(nm & Heq & ->) | [(nm & sub & p' & Heq & -> & Hs) | Hin]]; subst; simpl.
    - rewrite owned_file_single in Ho. unfold Clean.owned in Ho. apply orb_false_iff in Ho as [_ Ho]. rewrite Ho.
      apply fi_here. left. reflexivity.
    - destruct sub as [|s0 sub]; [inversion Hs; subst; simpl in *; contradiction|].
      eapply fi_sub; [left; reflexivity | exact Hs].
    - specialize (IH Hin Ho). destruct x as [fn fc | dn [|d0 ds]]; simpl.
      + destruct (is_manifest manifest fn); [exact IH | apply file_in_tail; exact IH].
      + destruct (is_manifest manifest dn); [exact IH | apply file_in_tail; exact IH].
      + apply file_in_tail; exact IH.
  Qed.

  Lemma drop_manifest_incl r : incl (drop_manifest manifest r) r.
  Proof.
    induction r as [|x r IH]; [apply incl_refl|].
    destruct x as [fn fc | dn [|d0 ds]]; simpl.
    - destruct (is_manifest manifest fn); [apply incl_tl; exact IH | apply incl_cons; [left; reflexivity | apply incl_tl; exact IH]].
    - destruct (is_manifest manifest dn); [apply incl_tl; exact IH | apply incl_cons; [left; reflexivity | apply incl_tl; exact IH]].
    - apply incl_cons; [left; reflexivity | apply incl_tl; exact IH].
  Qed.

  Lemma children_post_of_nodes cs : Forall node_post cs -> children_post cs.
  Proof.
    induction cs as [|c r IH]; intros HF cs' ok Hc.
    - simpl in Hc. injection Hc as <- <-. repeat split; auto.
      + intros _ p c H. destruct (file_in_nil _ _ H).
      + intros _ p H. destruct (dir_in_nil _ H).
    - inversion HF as [|? ? Hc0 Hr]; subst. specialize (IH Hr).
      rewrite clean_children_cons in Hc.
      destruct c as [fn fc | dn dcs].
      + (* a file *)
        destruct (is_manifest manifest fn) eqn:EM; [|destruct (is_generated suffix fn) eqn:EG].
        * destruct (IH _ _ Hc) as (A & B & C & D & E). repeat split; auto.
          -- intros p c Hin Ho. apply file_in_cons_inv in Hin as [(nm & Heq & ->) | [(nm & sub & p' & Heq & _) | Hin]]; try discriminate; auto.
             injection Heq as -> ->. rewrite owned_file_single in Ho. unfold Clean.owned in Ho. rewrite EM, orb_true_r in Ho. discriminate.
          -- intros p c Hin. apply file_in_tail. auto.
          -- intros p Hin. apply dir_in_tail. auto.
        * destruct (IH _ _ Hc) as (A & B & C & D & E). repeat split; auto.
          -- intros p c Hin Ho. apply file_in_cons_inv in Hin as [(nm & Heq & ->) | [(nm & sub & p' & Heq & _) | Hin]]; try discriminate; auto.
             injection Heq as -> ->. rewrite owned_file_single in Ho. unfold Clean.owned in Ho. rewrite EG in Ho. discriminate.
          -- intros p c Hin. apply file_in_tail. auto.
          -- intros p Hin. apply dir_in_tail. auto.
        * destruct (clean_children r) as [r' okr] eqn:ER. injection Hc as <- <-.
          destruct (IH _ _ ER) as (A & B & C & D & E). repeat split.
          -- intros p c Hin Ho. apply file_in_cons_inv in Hin as [(nm & Heq & ->) | [(nm & sub & p' & Heq & _) | Hin]]; try discriminate.
             ++ injection Heq as -> ->. apply fi_here. left. reflexivity.
             ++ apply file_in_tail. auto.
          -- intros p c Hin. apply file_in_cons_inv in Hin as [(nm & Heq & ->) | [(nm & sub & p' & Heq & _) | Hin]]; try discriminate.
             ++ injection Heq as -> ->. apply fi_here. left. reflexivity.
             ++ apply file_in_tail. auto.
          -- intros p Hin. apply dir_in_cons_inv in Hin as [(nm & sub & Heq & _) | [(nm & sub & p' & Heq & _) | Hin]]; try discriminate.
             apply dir_in_tail. auto.
          -- intros Hok p c Hin. apply file_in_cons_inv in Hin as [(nm & Heq & ->) | [(nm & sub & p' & Heq & _) | Hin]]; try discriminate.
             ++ injection Heq as -> ->. rewrite owned_file_single. unfold Clean.owned. rewrite EM, EG. reflexivity.
             ++ eauto.
          -- intros Hok p Hin. apply dir_in_cons_inv in Hin as [(nm & sub & Heq & _) | [(nm & sub & p' & Heq & _) | Hin]]; try discriminate.
             destruct (E Hok _ Hin) as (q & c & Hq). exists q, c. apply file_in_tail. exact Hq.
      + (* a directory *)
        destruct dcs as [|d0 dcs'].
        * (* empty: removed *)
          destruct (IH _ _ Hc) as (A & B & C & D & E). repeat split; auto.
          -- intros p c Hin Ho. apply file_in_cons_inv in Hin as [(nm & Heq & ->) | [(nm & sub & p' & Heq & -> & Hs) | Hin]]; try discriminate; auto.
             injection Heq as <- <-. inversion Hs; subst; simpl in *; contradiction.
          -- intros p c Hin. apply file_in_tail. auto.
          -- intros p Hin. apply dir_in_tail. auto.
        * set (dd := d0 :: dcs') in *.
          destruct (clean_node (Dir dn dd)) as [oc okc] eqn:EC.
          simpl in Hc0. destruct (Hc0 _ _ EC) as (dcs2 & Hshape & A0 & B0 & C0 & D0 & E0 & F0).
          destruct okc.
          -- destruct (clean_children r) as [r' okr] eqn:ER. injection Hc as <- <-.
             destruct (IH _ _ ER) as (A & B & C & D & E).
             assert (Hsub_in : forall p c, file_in dcs2 p c -> file_in (ocons oc r') (dn :: p) c).
             { intros p c Hin. destruct Hshape as [-> | (-> & -> & _)].
               - eapply fi_sub; [left; reflexivity | exact Hin].
               - inversion Hin; subst; simpl in *; contradiction. }
             assert (Htail : forall p c, file_in r' p c -> file_in (ocons oc r') p c).
             { intros p c Hin. destruct oc; simpl; [apply file_in_tail|]; exact Hin. }
             repeat split.
             ++ intros p c Hin Ho. apply file_in_cons_inv in Hin as [(nm & Heq & ->) | [(nm & sub & p' & Heq & -> & Hs) | Hin]]; try discriminate.
                ** injection Heq as <- <-. apply Hsub_in. apply A0; [exact Hs|]. rewrite <- (basename_sub dn _ _ _ Hs). exact Ho.
                ** apply Htail. auto.
             ++ intros p c Hin. destruct oc as [n|]; simpl in Hin.
                ** destruct Hshape as [Hs | (Hs & _)]; [|discriminate]. injection Hs as ->.
                   apply file_in_cons_inv in Hin as [(nm & Heq & ->) | [(nm & sub & p' & Heq & -> & Hs) | Hin]]; try discriminate.
                   --- injection Heq as <- <-. eapply fi_sub; [left; reflexivity | auto].
                   --- apply file_in_tail. auto.
                ** apply file_in_tail. auto.
             ++ intros p Hin. destruct oc as [n|]; simpl in Hin.
                ** destruct Hshape as [Hs | (Hs & _)]; [|discriminate]. injection Hs as ->.
                   apply dir_in_cons_inv in Hin as [(nm & sub & Heq & ->) | [(nm & sub & p' & Heq & -> & Hs) | Hin]].
                   --- injection Heq as <- <-. eapply di_here. left. reflexivity.
                   --- injection Heq as <- <-. eapply di_sub; [left; reflexivity | auto].
                   --- apply dir_in_tail. auto.
                ** apply dir_in_tail. auto.
             ++ intros Hok p c Hin. destruct oc as [n|]; simpl in Hin.
                ** destruct Hshape as [Hs | (Hs & _)]; [|discriminate]. injection Hs as ->.
                   apply file_in_cons_inv in Hin as [(nm & Heq & ->) | [(nm & sub & p' & Heq & -> & Hs) | Hin]]; try discriminate.
                   --- injection Heq as <- <-. rewrite (basename_sub dn _ _ _ Hs). eapply D0; eauto.
                   --- eauto.
                ** eauto.
             ++ intros Hok p Hin. destruct oc as [n|]; simpl in Hin |- *.
                ** destruct Hshape as [Hs | (Hs & _)]; [|discriminate]. injection Hs as ->.
                   apply dir_in_cons_inv in Hin as [(nm & sub & Heq & ->) | [(nm & sub & p' & Heq & -> & Hs) | Hin]].
                   --- injection Heq as <- <-.
                       assert (Hne : dcs2 <> []) by (apply F0; reflexivity).
                       (* a non-empty cleaned directory contains a file: its first child is a file or a dir containing one *)
                       destruct dcs2 as [|e es]; [congruence|].
                       destruct e as [fn fc | en esub].
                       +++ exists [fn], fc. simpl. eapply fi_sub; [left; reflexivity | apply fi_here; left; reflexivity].
                       +++ destruct (E0 eq_refl [en]) as (q & c & Hq); [eapply di_here; left; reflexivity|].
                           exists ([en] ++ q), c. simpl. eapply fi_sub; [left; reflexivity | exact Hq].
                   --- injection Heq as <- <-. destruct (E0 eq_refl _ Hs) as (q & c & Hq).
                       exists q, c. simpl. eapply fi_sub; [left; reflexivity | exact Hq].
                   --- destruct (E Hok _ Hin) as (q & c & Hq). exists q, c. apply file_in_tail. exact Hq.
                ** destruct (E Hok _ Hin) as (q & c & Hq). exists q, c. exact Hq.
          -- (* the child's clean failed: abort, rest untouched *)
             injection Hc as <- <-.
             destruct Hshape as [-> | (_ & _ & Hx)]; [|discriminate]. simpl.
             repeat split; try discriminate.
             ++ intros p c Hin Ho. apply file_in_cons_inv in Hin as [(nm & Heq & ->) | [(nm & sub & p' & Heq & -> & Hs) | Hin]]; try discriminate.
                ** injection Heq as <- <-. eapply fi_sub; [left; reflexivity|]. apply A0; [exact Hs|]. rewrite <- (basename_sub dn _ _ _ Hs). exact Ho.
                ** apply file_in_tail. apply drop_manifest_keeps; assumption.
             ++ intros p c Hin. apply file_in_cons_inv in Hin as [(nm & Heq & ->) | [(nm & sub & p' & Heq & -> & Hs) | Hin]]; try discriminate.
                ** injection Heq as <- <-. eapply fi_sub; [left; reflexivity | auto].
                ** apply file_in_tail. eapply file_in_mono; [apply drop_manifest_incl | exact Hin].
             ++ intros p Hin. apply dir_in_cons_inv in Hin as [(nm & sub & Heq & ->) | [(nm & sub & p' & Heq & -> & Hs) | Hin]].
                ** injection Heq as <- <-. eapply di_here. left. reflexivity.
                ** injection Heq as <- <-. eapply di_sub; [left; reflexivity | auto].
                ** apply dir_in_tail. eapply dir_in_mono; [apply drop_manifest_incl | exact Hin].
  Qed.

  Lemma node_post_all n : node_post n.
  Proof.
    induction n as [nm c | nm cs IH] using node_ind'; [exact I|].
    simpl. intros o ok Hc. rewrite clean_node_dir in Hc.
    destruct (manifest_blocked cs) eqn:EB.
    - injection Hc as <- <-. exists cs. repeat split; auto; discriminate.
    - pose proof (children_post_of_nodes cs IH) as HP.
      destruct (clean_children cs) as [cs' okc] eqn:EC.
      destruct (HP _ _ EC) as (A & B & C & D & E).
      destruct okc.
      + destruct cs' as [|e es].
        * injection Hc as <- <-. exists []. repeat split; auto. intros _ Hx; discriminate.
        * injection Hc as <- <-. exists (e :: es). repeat split; auto. intros _ _; discriminate.
      + injection Hc as <- <-. exists cs'. repeat split; auto; discriminate.
  Qed.

  Lemma children_post_all cs : children_post cs.
  Proof. apply children_post_of_nodes. apply Forall_forall. intros n _. apply node_post_all. Qed.

  (* ---------- statements about the exported entry point ---------- *)

  Definition after (target : option (bool * list node)) : list node :=
    match fst (clean_target target) with Some cs => cs | None => [] end.
  Definition succeeded (target : option (bool * list node)) : bool := snd (clean_target target).

  Lemma clean_target_cases dot cs :
    (manifest_blocked cs = true /\ clean_target (Some (dot, cs)) = (Some cs, false)) \/
    (manifest_blocked cs = false /\ exists cs' ok, clean_children cs = (cs', ok) /\
       after (Some (dot, cs)) = cs' /\ succeeded (Some (dot, cs)) = ok).
  Proof.
    unfold after, succeeded, Clean.clean_target.
    destruct (manifest_blocked cs); [left; auto | right; split; [reflexivity|]].
    destruct (clean_children cs) as [cs' ok]. exists cs', ok. split; [reflexivity|].
    destruct ok; [|split; reflexivity]. destruct cs'; [destruct dot|]; split; reflexivity.
  Qed.

  Theorem foreign_files_preserved dot cs p c :
    file_in cs p c -> owned (basename p) = false -> file_in (after (Some (dot, cs))) p c.
  Proof.
    intros Hin Ho. destruct (clean_target_cases dot cs) as [(_ & E) | (_ & cs' & ok & EC & -> & _)].
    - unfold after. rewrite E. exact Hin.
    - destruct (children_post_all cs _ _ EC) as (A & _). auto.
  Qed.

  Theorem nothing_created dot cs :
    (forall p c, file_in (after (Some (dot, cs))) p c -> file_in cs p c) /\
    (forall p, dir_in (after (Some (dot, cs))) p -> dir_in cs p).
  Proof.
    destruct (clean_target_cases dot cs) as [(_ & E) | (_ & cs' & ok & EC & -> & _)].
    - unfold after. rewrite E. auto.
    - destruct (children_post_all cs _ _ EC) as (_ & B & C & _). auto.
  Qed.

  (* whatever disappears is an owned file, or a directory below which no foreign file existed *)
  Theorem only_owned_or_empty_removed dot cs :
    (forall p c, file_in cs p c -> ~ file_in (after (Some (dot, cs))) p c -> owned (basename p) = true) /\
    (forall p, dir_in cs p -> ~ dir_in (after (Some (dot, cs))) p ->
       forall q c, q <> [] -> file_in cs (p ++ q) c -> owned (basename (p ++ q)) = true).
  Proof.
    split.
    - intros p c Hin Hn. destruct (owned (basename p)) eqn:E; [reflexivity|].
      exfalso. apply Hn. apply foreign_files_preserved; assumption.
    - intros p Hd Hn q c Hq Hin. destruct (owned (basename (p ++ q))) eqn:E; [reflexivity|].
      exfalso. apply Hn. pose proof (foreign_files_preserved dot cs _ _ Hin E) as H.
      assert (Hp : p <> []) by (intro; subst; inversion Hd).
      exact (file_below_dir _ p q c Hp Hq H).
  Qed.

  (* after a successful clean nothing the generator owns is left, and no directory is empty *)
  Theorem success_leaves_no_owned dot cs :
    succeeded (Some (dot, cs)) = true ->
    (forall p c, file_in (after (Some (dot, cs))) p c -> owned (basename p) = false) /\
    (forall p, dir_in (after (Some (dot, cs))) p -> exists q c, file_in (after (Some (dot, cs))) (p ++ q) c).
  Proof.
    intros Hs. destruct (clean_target_cases dot cs) as [(_ & E) | (_ & cs' & ok & EC & Ea & Eo)].
    - unfold succeeded in Hs. rewrite E in Hs. discriminate.
    - rewrite Ea. rewrite Eo in Hs. subst ok.
      destruct (children_post_all cs _ _ EC) as (_ & _ & _ & D & E). split; [apply D | apply E]; reflexivity.
  Qed.

  (* ---------- idempotence ---------- *)
  Definition is_manifest_dir (n : node) : bool :=
    match n with Dir nm _ => is_manifest manifest nm | File _ _ => false end.

  Fixpoint cleanb (n : node) : bool :=
    match n with
    | File nm _ => negb (owned nm)
    | Dir nm cs => match cs with [] => false | _ :: _ => true end &&
                   forallb (fun c => cleanb c && negb (is_manifest_dir c)) cs
    end.
  Definition all_clean (cs : list node) : bool := forallb (fun c => cleanb c && negb (is_manifest_dir c)) cs.

  Lemma blocked_false_of_clean cs : all_clean cs = true -> manifest_blocked cs = false.
  Proof.
    induction cs as [|c r IH]; [reflexivity|]. simpl. intros H.
    apply andb_true_iff in H as [H1 H2]. apply andb_true_iff in H1 as [_ H1].
    destruct c as [|nm [|d ds]]; auto. simpl in H1. apply negb_true_iff in H1. rewrite H1. simpl. auto.
  Qed.

  Lemma clean_fixed_node n : cleanb n = true ->
     match n with File _ _ => True | Dir _ _ => clean_node n = (Some n, true) end.
  Proof.
    induction n as [nm c | nm cs IH] using node_ind'; [auto|].
    intros H. simpl in H. apply andb_true_iff in H as [Hne Hall].
    rewrite clean_node_dir. fold (all_clean cs) in Hall. rewrite (blocked_false_of_clean _ Hall).
    assert (HC : clean_children cs = (cs, true)).
    { clear Hne. induction cs as [|c r IHr]; [reflexivity|].
      inversion IH as [|? ? Hc Hr]; subst. simpl in Hall.
      apply andb_true_iff in Hall as [Hc1 Hr1]. apply andb_true_iff in Hc1 as [Hcc Hcm].
      rewrite clean_children_cons. destruct c as [fn fc | dn dcs].
      - simpl in Hcc. apply negb_true_iff in Hcc. unfold Clean.owned in Hcc. apply orb_false_iff in Hcc as [-> ->].
        rewrite (IHr Hr Hr1). reflexivity.
      - destruct dcs as [|d ds]; [simpl in Hcc; discriminate|].
        rewrite (Hc Hcc). rewrite (IHr Hr Hr1). reflexivity. }
    rewrite HC. destruct cs; [discriminate | reflexivity].
  Qed.

  Lemma clean_fixed_children cs : all_clean cs = true -> clean_children cs = (cs, true).
  Proof.
    induction cs as [|c r IHr]; [reflexivity|]. intros Hall. simpl in Hall.
    apply andb_true_iff in Hall as [Hc1 Hr1]. apply andb_true_iff in Hc1 as [Hcc Hcm].
    rewrite clean_children_cons. destruct c as [fn fc | dn dcs].
    - simpl in Hcc. apply negb_true_iff in Hcc. unfold Clean.owned in Hcc. apply orb_false_iff in Hcc as [-> ->].
      rewrite (IHr Hr1). reflexivity.
    - destruct dcs as [|d ds]; [simpl in Hcc; discriminate|].
      rewrite (clean_fixed_node _ Hcc). rewrite (IHr Hr1). reflexivity.
  Qed.

  Lemma result_clean_node n : match n with
     | File _ _ => True
     | Dir nm cs => forall o, clean_node n = (o, true) -> match o with None => True | Some n' => cleanb n' = true /\ exists cs', n' = Dir nm cs' end
     end.
  Proof.
    induction n as [nm c | nm cs IH] using node_ind'; [auto|].
    intros o Hc. rewrite clean_node_dir in Hc.
    destruct (manifest_blocked cs) eqn:EB; [discriminate|].
    assert (HC : forall cs', clean_children cs = (cs', true) -> manifest_blocked cs = false -> all_clean cs' = true).
    { clear Hc EB. induction cs as [|c r IHr]; intros cs' Hcc HB.
      - simpl in Hcc. injection Hcc as <-. reflexivity.
      - inversion IH as [|? ? Hc Hr]; subst. rewrite clean_children_cons in Hcc.
        destruct c as [fn fc | dn dcs].
        + simpl in HB. destruct (is_manifest manifest fn) eqn:EM; [auto|].
          destruct (is_generated suffix fn) eqn:EG; [auto|].
          destruct (clean_children r) as [r' okr] eqn:ER. injection Hcc as <- ->.
          simpl. unfold Clean.owned. rewrite EM, EG. simpl. auto.
        + destruct dcs as [|d ds]; [simpl in HB; auto|].
          simpl in HB. apply orb_false_iff in HB as [HB1 HB2].
          destruct (clean_node (Dir dn (d :: ds))) as [oc okc] eqn:EC.
          destruct okc; [|discriminate].
          destruct (clean_children r) as [r' okr] eqn:ER. injection Hcc as <- ->.
          specialize (Hc _ eq_refl). destruct oc as [n'|]; simpl.
          * destruct Hc as (Hcl & cs'' & ->). rewrite Hcl. simpl. rewrite HB1. simpl. auto.
          * auto. }
    destruct (clean_children cs) as [cs' okc] eqn:EC. destruct okc.
    - specialize (HC _ eq_refl EB). destruct cs' as [|e es].
      + injection Hc as <-. exact I.
      + injection Hc as <-. split; [|eauto]. simpl. exact HC.
    - discriminate.
  Qed.

  Lemma result_clean_children cs cs' :
    clean_children cs = (cs', true) -> manifest_blocked cs = false -> all_clean cs' = true.
  Proof.
    revert cs'. induction cs as [|c r IHr]; intros cs' Hcc HB.
    - simpl in Hcc. injection Hcc as <-. reflexivity.
    - rewrite clean_children_cons in Hcc.
      destruct c as [fn fc | dn dcs].
      + simpl in HB. destruct (is_manifest manifest fn) eqn:EM; [auto|].
        destruct (is_generated suffix fn) eqn:EG; [auto|].
        destruct (clean_children r) as [r' okr] eqn:ER. injection Hcc as <- ->.
        simpl. unfold Clean.owned. rewrite EM, EG. simpl. auto.
      + destruct dcs as [|d ds]; [simpl in HB; auto|].
        simpl in HB. apply orb_false_iff in HB as [HB1 HB2].
        destruct (clean_node (Dir dn (d :: ds))) as [oc okc] eqn:EC.
        destruct okc; [|discriminate].
        destruct (clean_children r) as [r' okr] eqn:ER. injection Hcc as <- ->.
        pose proof (result_clean_node (Dir dn (d :: ds)) _ EC) as Hc. destruct oc as [n'|]; simpl.
        * destruct Hc as (Hcl & cs'' & ->). rewrite Hcl. simpl. rewrite HB1. simpl. auto.
        * auto.
  Qed.

  (* clean (clean t) = clean t, for the exported entry point: the second run succeeds and changes nothing *)
  Theorem clean_idempotent dot cs :
    succeeded (Some (dot, cs)) = true ->
    let t1 := match fst (clean_target (Some (dot, cs))) with Some cs1 => Some (dot, cs1) | None => None end in
    clean_target t1 = (fst (clean_target (Some (dot, cs))), true).
  Proof.
    unfold succeeded. intros Hs.
    assert (HR : exists r, clean_target (Some (dot, cs)) = (r, true) /\
                   match r with
                   | None => True
                   | Some cs1 => (cs1 = [] /\ dot = true) \/ (cs1 <> [] /\ all_clean cs1 = true)
                   end).
    { unfold Clean.clean_target in *.
      destruct (manifest_blocked cs) eqn:EB; [discriminate|].
      destruct (clean_children cs) as [cs' ok] eqn:EC. destruct ok; [|discriminate].
      pose proof (result_clean_children _ _ EC EB) as Hcl.
      destruct cs' as [|e es]; [destruct dot|]; eexists; (split; [reflexivity|]); simpl; auto.
      right. split; [discriminate | exact Hcl]. }
    destruct HR as (r & -> & Hr). simpl fst. cbv zeta.
    destruct r as [cs1|]; [|reflexivity].
    destruct Hr as [(-> & ->) | (Hne & Hcl)]; [reflexivity|].
    unfold Clean.clean_target.
    rewrite (blocked_false_of_clean _ Hcl). rewrite (clean_fixed_children _ Hcl).
    destruct cs1; [congruence | reflexivity].
  Qed.

  Theorem missing_target_ok : clean_target None = (None, true).
  Proof. reflexivity. Qed.

  Theorem current_directory_kept cs : exists cs', fst (clean_target (Some (true, cs))) = Some cs'.
  Proof.
    unfold Clean.clean_target. destruct (manifest_blocked cs); [simpl; eauto|].
    destruct (clean_children cs) as [cs' ok]. destruct ok; [destruct cs'|]; simpl; eauto.
  Qed.
End Proofs.
