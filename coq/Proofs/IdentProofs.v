(* Proofs about Gen2/Ident.v: ExportedIdentifier of a legal name is a valid, exported Go identifier, never a keyword. *)
From Coq Require Import List Bool Arith NArith Lia.
From Coq.Strings Require Import Byte.
From GR Require Import Base.Bytes Gen.TablesGen Gen2.Ident.
Import ListNotations.

(* ---- per-byte facts: sweeps over the 256 bytes *)
Lemma name_char_cases_b :
  forallb (fun c => implb (name_char c)
                      (is_ascii c && (is_letter c || is_digit c || Byte.eqb c c_underscore || Byte.eqb c c_dollar))) all_bytes = true.
Proof. vm_compute. reflexivity. Qed.
Lemma upper_b :
  forallb (fun c => implb (is_letter c) (is_upper (to_upper c) && ident_char c && ident_char (to_upper c))) all_bytes = true.
Proof. vm_compute. reflexivity. Qed.
Lemma digit_b : forallb (fun c => implb (is_digit c) (ident_char c)) all_bytes = true.
Proof. vm_compute. reflexivity. Qed.
Lemma upper_not_lower_b : forallb (fun c => implb (is_upper c) (negb (is_lower c))) all_bytes = true.
Proof. vm_compute. reflexivity. Qed.

Lemma implb_elim (a b : bool) : implb a b = true -> a = true -> b = true.
Proof. destruct a, b; simpl; congruence. Qed.

Lemma name_char_cases c : name_char c = true ->
  is_ascii c = true /\ (is_letter c = true \/ is_digit c = true \/ Byte.eqb c c_underscore = true \/ Byte.eqb c c_dollar = true).
Proof.
  intros H. pose proof (implb_elim _ _ (forall_bytes _ name_char_cases_b c) H) as K.
  apply andb_true_iff in K as [K1 K2]. split; [exact K1|].
  apply orb_true_iff in K2 as [K2|K2]; [|tauto].
  apply orb_true_iff in K2 as [K2|K2]; [|tauto].
  apply orb_true_iff in K2 as [K2|K2]; tauto.
Qed.
Lemma letter_facts c : is_letter c = true -> is_upper (to_upper c) = true /\ ident_char c = true /\ ident_char (to_upper c) = true.
Proof.
  intros H. pose proof (implb_elim _ _ (forall_bytes _ upper_b c) H) as K.
  apply andb_true_iff in K as [K K3]. apply andb_true_iff in K as [K1 K2]. auto.
Qed.
Lemma digit_ident c : is_digit c = true -> ident_char c = true.
Proof. intros H. exact (implb_elim _ _ (forall_bytes _ digit_b c) H). Qed.
Lemma underscore_ident c : Byte.eqb c c_underscore = true -> ident_char c = true.
Proof. intros H. unfold ident_char. rewrite H. apply orb_true_r. Qed.

(* ---- table obligations: the strings ExportedIdentifier inserts are identifier text starting with an upper-case letter *)
Lemma tables_ok :
  go_identifier exp_digit_prefix = true /\ is_exported exp_digit_prefix = true /\
  go_identifier exp_underscore_prefix = true /\ is_exported exp_underscore_prefix = true /\
  go_identifier exp_dollar = true /\ is_exported exp_dollar = true /\ forallb ident_char exp_dollar = true /\
  ident_char c_underscore = true.
Proof. vm_compute. repeat split; reflexivity. Qed.

Local Opaque exp_dollar exp_digit_prefix exp_underscore_prefix c_underscore.

Lemma go_identifier_app p s :
  go_identifier p = true -> forallb ident_char s = true -> go_identifier (p ++ s) = true.
Proof.
  destruct p as [|c p]; simpl; [discriminate|]. intros H Hs.
  apply andb_true_iff in H as [H1 H2]. rewrite H1. simpl. rewrite forallb_app, H2, Hs. reflexivity.
Qed.
Lemma is_exported_app p s : is_exported p = true -> is_exported (p ++ s) = true.
Proof. destruct p; simpl; [discriminate|auto]. Qed.
Lemma go_identifier_chars p : go_identifier p = true -> forallb ident_char p = true.
Proof.
  destruct p as [|c p]; simpl; [discriminate|]. intros H. apply andb_true_iff in H as [H1 H2].
  rewrite H2, andb_true_r. unfold ident_char. apply orb_true_iff in H1 as [H1|H1]; rewrite H1; simpl; auto using orb_true_r.
Qed.

(* ---- the characters after the first *)
Lemma exp_go_rest s : forallb name_char s = true ->
  exists r, exp_go false s = Ok r /\ forallb ident_char r = true.
Proof.
  induction s as [|c s IH]; simpl; intros H.
  - exists []. auto.
  - apply andb_true_iff in H as [Hc Hs]. destruct (IH Hs) as (r & Er & Hr).
    destruct (name_char_cases c Hc) as [Ha Hcase]. rewrite Ha. simpl.
    destruct (is_letter c) eqn:L.
    { rewrite Er. simpl. eexists; split; [reflexivity|]. simpl. rewrite Hr. destruct (letter_facts c L) as (_ & K & _). rewrite K. reflexivity. }
    destruct (is_digit c) eqn:D.
    { rewrite Er. simpl. eexists; split; [reflexivity|]. simpl. rewrite Hr, (digit_ident c D). reflexivity. }
    destruct (Byte.eqb c c_underscore) eqn:U.
    { rewrite Er. simpl. eexists; split; [reflexivity|]. simpl. rewrite Hr, (underscore_ident c U). reflexivity. }
    destruct (Byte.eqb c c_dollar) eqn:Dl.
    { rewrite Er. simpl. eexists; split; [reflexivity|].
      destruct tables_ok as (_ & _ & _ & _ & _ & _ & T & T2).
      cbn [forallb]. rewrite T2, forallb_app, T, Hr. reflexivity. }
    destruct Hcase as [X|[X|[X|X]]]; congruence.
Qed.

Lemma keywords_lower : forallb (fun k => match k with c :: _ => is_lower c | [] => true end) go_keywords = true.
Proof. vm_compute. reflexivity. Qed.

Lemma exported_not_keyword r : is_exported r = true -> is_keyword r = false.
Proof.
  intros H. unfold is_keyword. pose proof keywords_lower as K. induction go_keywords as [|k ks IH]; simpl; [reflexivity|].
  simpl in K. apply andb_true_iff in K as [K1 K2]. rewrite (IH K2), orb_false_r.
  destruct (bytes_eqb r k) eqn:E; [|reflexivity]. apply bytes_eqb_eq in E. subst k.
  destruct r as [|c r]; simpl in H; [discriminate|].
  pose proof (implb_elim _ _ (forall_bytes _ upper_not_lower_b c) H) as N. rewrite K1 in N. discriminate.
Qed.

Theorem exported_identifier_valid : forall s, legal_pegasus_name s = true ->
  exists r, exported_identifier s = Ok r /\ go_identifier r = true /\ is_exported r = true /\ is_keyword r = false.
Proof.
  intros s H. destruct s as [|c s]; [discriminate|]. simpl in H. apply andb_true_iff in H as [Hc Hs].
  destruct (exp_go_rest s Hs) as (r & Er & Hr).
  destruct (name_char_cases c Hc) as [Ha Hcase].
  destruct tables_ok as (T1 & T2 & T3 & T4 & T5 & T6 & T7 & T8).
  assert (G : exists out, exported_identifier (c :: s) = Ok out /\ go_identifier out = true /\ is_exported out = true).
  { unfold exported_identifier. simpl. rewrite Ha. simpl.
    destruct (is_letter c) eqn:L.
    { rewrite Er. simpl. eexists; split; [reflexivity|]. destruct (letter_facts c L) as (K1 & K2 & K3). simpl.
      rewrite K1, Hr. unfold is_letter. rewrite K1. auto. }
    destruct (is_digit c) eqn:D.
    { rewrite Er. simpl. eexists; split; [reflexivity|]. split.
      - apply go_identifier_app; [exact T1|]. simpl. rewrite (digit_ident c D), Hr. reflexivity.
      - apply is_exported_app; exact T2. }
    destruct (Byte.eqb c c_underscore) eqn:U.
    { rewrite Er. simpl. eexists; split; [reflexivity|]. split.
      - apply go_identifier_app; [exact T3|]. simpl. rewrite (underscore_ident c U), Hr. reflexivity.
      - apply is_exported_app; exact T4. }
    destruct (Byte.eqb c c_dollar) eqn:Dl.
    { rewrite Er. simpl. eexists; split; [reflexivity|]. split.
      - apply go_identifier_app; [exact T5| exact Hr].
      - apply is_exported_app; exact T6. }
    destruct Hcase as [X|[X|[X|X]]]; congruence. }
  destruct G as (out & E & G1 & G2). exists out. repeat split; auto. apply exported_not_keyword; exact G2.
Qed.

(* nothing outside [A-Za-z0-9_$] is accepted: an ASCII name with another character panics (never a silent guess) *)
Lemma illegal_char_panics_b :
  forallb (fun c => implb (is_ascii c && negb (name_char c))
                      (negb (is_letter c) && negb (is_digit c) && negb (Byte.eqb c c_underscore) && negb (Byte.eqb c c_dollar))) all_bytes = true.
Proof. vm_compute. reflexivity. Qed.
