(* C06, ROR2 part: the cursor-level ROR2 reader (decR, ror2_reader.go byte by byte) REFINES the tree-level decoder, so that the
   tree-level theorems about required-field accounting (MissingProofs) hold of ROR2 input as well.
     R1  ROR2 trees [rdoc], their rendering [render_r] (any member order, unknown members of any shape, absent members),
         [wf_rdoc]
     R2  the tree-level decoder [decT]: on arrays / maps / records / unions it IS the step function of the JSON tree decoder
         ([stepJ], i.e. the generated UnmarshalRestLi code); on leaves it has the ROR2 token semantics
     R3  refinement: decR on the rendering of a tree = decT on the tree, EXACTLY (value, tracker, cursor and error)
     R4  transfer: the missing-required-field accounting of MissingProofs for ROR2 input, order independence, unknown members,
         the query-parameter reader
   The model files are not modified. *)
From Coq Require Import List Bool Arith ZArith NArith Lia Permutation.
From Coq.Strings Require Import Byte.
From GR Require Import Base.Bytes Base.Res Base.Dec Codec.Schema Codec.Doc Codec.Escape Codec.Utf8 Codec.Json Codec.Tracker
  Codec.Render Codec.Encode Codec.Decode Proofs.EscapeProofs Gen.TablesCodec Proofs.Ror2NoPanic Proofs.Ror2RoundTrip
  Proofs.MissingProofs Proofs.DefaultsProofs.
Import ListNotations.

Local Notation rstr fl := (ror2_string v2_hex_chars v2_unescaped_path_chars v2_unescaped_query_chars v2_header_escaped_chars
                             v2_empty_string fl).

(* ===========================================================================================================================
   R1. ROR2 trees
   =========================================================================================================================== *)
Inductive rdoc :=
| RLeaf (raw : bytes)                       (* the token text as it stands in the input (already escaped) *)
| RArr (items : list rdoc)                  (* List(...) *)
| RObj (entries : list (bytes * rdoc)).     (* (k:v,...) ; the keys are the DECODED keys *)

Lemma rdoc_ind' (P : rdoc -> Prop) :
  (forall raw, P (RLeaf raw)) ->
  (forall items, Forall P items -> P (RArr items)) ->
  (forall ents, Forall (fun kx => P (snd kx)) ents -> P (RObj ents)) ->
  forall d, P d.
Proof.
  intros HL HA HO. fix IH 1. intros [raw|items|ents].
  - apply HL.
  - apply HA. induction items as [|x r IHr]; constructor; [apply IH|exact IHr].
  - apply HO. induction ents as [|[k x] r IHr]; constructor; [apply IH|exact IHr].
Qed.

(* items followed by the closing parenthesis and the rest of the input: a1,a2,...,an)rest *)
Fixpoint seq_r (l : list bytes) (rest : bytes) : bytes :=
  match l with
  | [] => x29 :: rest
  | a :: r => a ++ match r with [] => x29 :: rest | _ => x2c :: seq_r r rest end
  end.

Definition seq_tail (r : list bytes) (rest : bytes) : bytes :=
  match r with [] => x29 :: rest | _ => x2c :: seq_r r rest end.
Lemma seq_r_cons a r rest : seq_r (a :: r) rest = a ++ seq_tail r rest.
Proof. reflexivity. Qed.

Lemma join_seq l rest : (join_bytes [x2c] l ++ [x29]) ++ rest = seq_r l rest.
Proof.
  induction l as [|a r IH]; [reflexivity|]. destruct r as [|b r'].
  - simpl. rewrite <- app_assoc. reflexivity.
  - change (join_bytes [x2c] (a :: b :: r')) with (a ++ [x2c] ++ join_bytes [x2c] (b :: r')).
    change (seq_r (a :: b :: r') rest) with (a ++ x2c :: seq_r (b :: r') rest).
    rewrite <- IH. rewrite <- !app_assoc. reflexivity.
Qed.

Section RenderR.
  Variable fl : flavour.

  Fixpoint render_r (d : rdoc) : bytes :=
    match d with
    | RLeaf raw => raw
    | RArr items => v2_list_prefix ++ join_bytes [x2c] (map render_r items) ++ [x29]
    | RObj ents =>
        [x28] ++ join_bytes [x2c] (map (fun kx => let '(k, x) := kx in rstr fl k ++ [x3a] ++ render_r x) ents) ++ [x29]
    end.

  Definition entry_r (kx : bytes * rdoc) : bytes := rstr fl (fst kx) ++ x3a :: render_r (snd kx).

  Lemma render_arr_seq items rest : render_r (RArr items) ++ rest = v2_list_prefix ++ seq_r (map render_r items) rest.
  Proof. cbn [render_r]. rewrite <- app_assoc. f_equal. apply join_seq. Qed.

  Lemma render_obj_seq ents rest : render_r (RObj ents) ++ rest = x28 :: seq_r (map entry_r ents) rest.
  Proof.
    cbn [render_r]. cbn [app]. f_equal. rewrite <- join_seq. f_equal. f_equal. f_equal.
    apply map_ext. intros [k x]. reflexivity.
  Qed.
End RenderR.

(* leaf tokens: free of the four structural delimiters ( ) , :  and not empty.  Keys are arbitrary byte strings. *)
Fixpoint toks_ok (d : rdoc) : Prop :=
  match d with
  | RLeaf raw => tokfree4 raw /\ raw <> []
  | RArr items => (fix all (l : list rdoc) : Prop := match l with [] => True | x :: r => toks_ok x /\ all r end) items
  | RObj ents =>
      (fix all (l : list (bytes * rdoc)) : Prop := match l with [] => True | (_, x) :: r => toks_ok x /\ all r end) ents
  end.

Fixpoint nodup_keys (d : rdoc) : Prop :=
  match d with
  | RLeaf _ => True
  | RArr items => (fix all (l : list rdoc) : Prop := match l with [] => True | x :: r => nodup_keys x /\ all r end) items
  | RObj ents =>
      NoDup (map fst ents) /\
      (fix all (l : list (bytes * rdoc)) : Prop := match l with [] => True | (_, x) :: r => nodup_keys x /\ all r end) ents
  end.

Definition wf_rdoc (d : rdoc) : Prop := toks_ok d /\ nodup_keys d.

Lemma toks_ok_arr items : toks_ok (RArr items) <-> Forall toks_ok items.
Proof.
  cbn [toks_ok]. induction items as [|x r IH]; [split; [constructor|exact (fun _ => I)]|].
  split; [intros [A B]; constructor; [exact A|apply IH; exact B]|intros H; inversion H; subst; split; [assumption|apply IH; assumption]].
Qed.
Lemma toks_ok_obj ents : toks_ok (RObj ents) <-> Forall (fun kx => toks_ok (snd kx)) ents.
Proof.
  cbn [toks_ok]. induction ents as [|[k x] r IH]; [split; [constructor|exact (fun _ => I)]|].
  split; [intros [A B]; constructor; [exact A|apply IH; exact B]|intros H; inversion H; subst; split; [assumption|apply IH; assumption]].
Qed.
Lemma nodup_keys_arr items : nodup_keys (RArr items) <-> Forall nodup_keys items.
Proof.
  cbn [nodup_keys]. induction items as [|x r IH]; [split; [constructor|exact (fun _ => I)]|].
  split; [intros [A B]; constructor; [exact A|apply IH; exact B]|intros H; inversion H; subst; split; [assumption|apply IH; assumption]].
Qed.
Lemma nodup_keys_obj ents : nodup_keys (RObj ents) <-> NoDup (map fst ents) /\ Forall (fun kx => nodup_keys (snd kx)) ents.
Proof.
  cbn [nodup_keys]. apply and_iff_compat_l. induction ents as [|[k x] r IH]; [split; [constructor|exact (fun _ => I)]|].
  split; [intros [A B]; constructor; [exact A|apply IH; exact B]|intros H; inversion H; subst; split; [assumption|apply IH; assumption]].
Qed.

(* the loops of the cursor-level reader are bounded by the recursion budget: enough when the budget exceeds the size *)
Fixpoint rsize (d : rdoc) : nat :=
  match d with
  | RLeaf _ => 1
  | RArr items => S (list_sum (map rsize items))
  | RObj ents => S (S (list_sum (map (fun kx => let '(_, x) := kx in rsize x) ents)))
  end.

Lemma rsize_pos d : 1 <= rsize d.
Proof. destruct d; simpl; lia. Qed.

(* the tree as a JSON-shaped tree whose string leaves carry the ROR2 token text *)
Fixpoint j_of_r (d : rdoc) : jdoc :=
  match d with
  | RLeaf raw => JStr raw
  | RArr items => JArr (map j_of_r items)
  | RObj ents => JObj (map (fun kx => let '(k, x) := kx in (k, j_of_r x)) ents)
  end.

Definition jentry (kx : bytes * rdoc) : bytes * jdoc := (fst kx, j_of_r (snd kx)).
Lemma j_of_r_obj ents : j_of_r (RObj ents) = JObj (map jentry ents).
Proof. cbn [j_of_r]. f_equal. apply map_ext. intros [k x]. reflexivity. Qed.

Lemma j_of_r_not_null d : is_null (j_of_r d) = false.
Proof. destruct d; reflexivity. Qed.

(* ===========================================================================================================================
   R2. the tree-level decoder
   =========================================================================================================================== *)
Section DecT.
  Variable e : env.
  Variable wildcard : bytes.
  Variable excl : pathspec.
  Variable ignore : nat.
  Variable parseF : nat -> bytes -> option N.
  Variable unesc : bytes -> option bytes.
  Variable empty_marker : bytes.

  (* ror2_reader.go ReadString on a token: the empty token is an error, '' is the empty string, otherwise unescape *)
  Definition tstring (d : jdoc) : res bytes :=
    match d with
    | JStr tok =>
        match tok with
        | [] => Err EDeser
        | _ => if bytes_eqb tok empty_marker then Ok []
               else match unesc tok with Some s => Ok s | None => Err EDeser end
        end
    | _ => Err EDeser
    end.
  (* readers of the other primitives: unescape, then strconv *)
  Definition tdecoded (d : jdoc) : res bytes :=
    match d with
    | JStr tok => match unesc tok with Some s => Ok s | None => Err EDeser end
    | _ => Err EDeser
    end.
  Definition tprim (p : prim) (d : jdoc) : res value :=
    match p with
    | PString => do x <- tstring d; Ok (VStr x)
    | PBytes => do x <- tstring d; Ok (VBytes x)
    | PInt => do x <- tdecoded d; match parse_i32 x with Some z => Ok (VInt z) | None => Err EDeser end
    | PLong => do x <- tdecoded d; match parse_i64 x with Some z => Ok (VLong z) | None => Err EDeser end
    | PFloat => do x <- tdecoded d; match parseF 1 x with Some b => Ok (VFloat b) | None => Err EDeser end
    | PDouble => do x <- tdecoded d; match parseF 0 x with Some b => Ok (VDouble b) | None => Err EDeser end
    | PBool => do x <- tdecoded d; match parse_bool x with Some b => Ok (VBool b) | None => Err EDeser end
    end.

  (* the recursive call handed to the generated code: default literals are JSON (populateLocalDefaultValues re-parses the schema's
     literal with NewJsonReader - no exclusions, scopeToIgnore 0: [djmix .. true] = decJ e wildcard ps_empty 0 parseF f true; the
     only use of [top' = true]), everything else is the tree decoder itself *)
  Definition mixDJ (DT : ty -> jdoc -> tracker -> res (value * tracker)) (f : nat)
      (top' : bool) (t' : ty) (d' : jdoc) (tr' : tracker) : res (value * tracker) :=
    if top' then djmix e wildcard excl ignore parseF f true t' d' tr' else DT t' d' tr'.

  Definition stepT (DJ : bool -> ty -> jdoc -> tracker -> res (value * tracker))
      (top : bool) (t : ty) (d : jdoc) (tr : tracker) : res (value * tracker) :=
    match t with
    | TPrim p => do v <- tprim p d; Ok (v, tr)
    | TEnum syms => do s <- tstring d; Ok (enum_value syms s, tr)
    | TFixed n => do s <- tstring d; if Nat.eqb (length s) n then Ok (VFixed s, tr) else Err EFixedSize
    | _ => stepJ e wildcard excl ignore parseF DJ top t d tr          (* the generated code, unchanged *)
    end.

  Fixpoint decTj (fuel : nat) (top : bool) (t : ty) (d : jdoc) (tr : tracker) {struct fuel} : res (value * tracker) :=
    match fuel with
    | 0 => Err EFuel
    | S f => stepT (mixDJ (fun t' d' tr' => decTj f false t' d' tr') f) top t d tr
    end.

  Definition decT (fuel : nat) (top : bool) (t : ty) (d : rdoc) (tr : tracker) : res (value * tracker) :=
    decTj fuel top t (j_of_r d) tr.

  Lemma decTj_unfold f top t d tr :
    decTj (S f) top t d tr = stepT (mixDJ (decTj f false) f) top t d tr.
  Proof. reflexivity. Qed.
End DecT.

(* ===========================================================================================================================
   tokens, delimiters, Skip
   =========================================================================================================================== *)
Definition lift {A} (rest : bytes) (r : res (A * tracker)) : res (A * rst) :=
  match r with Ok (v, tr') => Ok (v, cur true rest tr') | Err x => Err x | Panic => Panic end.

Lemma ds_close' r : delim_started (x29 :: r).
Proof. exists x29, r. split; reflexivity. Qed.
Lemma ds_comma' r : delim_started (x2c :: r).
Proof. exists x2c, r. split; reflexivity. Qed.

Lemma seq_tail_ds (r : list bytes) rest : delim_started (seq_tail r rest).
Proof. destruct r; [apply ds_close'|apply ds_comma']. Qed.

Lemma tokfree4_hd tok : tokfree4 tok -> tok <> [] ->
  exists c r, tok = c :: r /\ Byte.eqb c x29 = false /\ Byte.eqb c x28 = false /\ Byte.eqb c x2c = false.
Proof.
  intros Hf Hn. destruct tok as [|c r]; [congruence|]. exists c, r. split; [reflexivity|].
  apply tokfree4_cons in Hf as [_ Hc]. repeat split; apply Hc; simpl; tauto.
Qed.

(* a composite value where a primitive is expected: the token contains '(' *)
Definition nd (b : byte) : Prop := is_delim b = false.

Lemma scan_token_paren pre m : Forall nd pre ->
  scan_token (pre ++ x28 :: m) = None \/ exists t u, scan_token (pre ++ x28 :: m) = Some (pre ++ x28 :: t, u).
Proof.
  intros Hpre. induction Hpre as [|b pre Hb _ IH].
  - cbn [app scan_token]. change (is_delim x28) with false. cbv iota.
    destruct (scan_token m) as [[t u]|]; [right; exists t, u; reflexivity|left; reflexivity].
  - cbn [app scan_token]. unfold nd in Hb. rewrite Hb.
    destruct IH as [->|(t & u & ->)]; [left; reflexivity|right; exists t, u; reflexivity].
Qed.

Lemma illegal_paren pre m : existsb is_illegal (pre ++ x28 :: m) = true.
Proof. rewrite existsb_app. cbn [existsb]. change (is_illegal x28) with true. rewrite orb_true_r. reflexivity. Qed.

Lemma read_token_paren c pre m tr : Forall nd pre -> read_token (cur c (pre ++ x28 :: m) tr) = Err EDeser.
Proof.
  intros Hpre. unfold read_token, cur; cbn [r_consumed r_rest r_tr]. destruct c.
  - destruct (scan_token_paren pre m Hpre) as [->|(t & u & ->)]; [reflexivity|]. cbn [bind]. rewrite illegal_paren. reflexivity.
  - cbn [bind]. rewrite illegal_paren. reflexivity.
Qed.

Definition is_leaf (d : rdoc) : bool := match d with RLeaf _ => true | _ => false end.

Lemma nd_List : Forall nd [x4c; x69; x73; x74].
Proof. repeat constructor. Qed.

Lemma render_composite fl d rest : is_leaf d = false ->
  exists pre m, render_r fl d ++ rest = pre ++ x28 :: m /\ Forall nd pre.
Proof.
  destruct d as [raw|items|ents]; intros H; [discriminate| |].
  - rewrite render_arr_seq. exists [x4c; x69; x73; x74], (seq_r (map (render_r fl) items) rest). split; [reflexivity|apply nd_List].
  - rewrite render_obj_seq. exists [], (seq_r (map (entry_r fl) ents) rest). split; [reflexivity|constructor].
Qed.

(* ---- at_map / at_array on the three kinds of node ---- *)
Lemma at_map_leaf c raw rest tr : tokfree4 raw -> raw <> [] -> at_map (cur c (raw ++ rest) tr) = false.
Proof.
  intros Hf Hn. destruct (tokfree4_hd raw Hf Hn) as (b & r & -> & _ & H & _). unfold at_map, cur; cbn [r_rest app]. exact H.
Qed.
Lemma at_map_arr c m tr : at_map (cur c (v2_list_prefix ++ m) tr) = false.
Proof. reflexivity. Qed.
Lemma at_map_obj c m tr : at_map (cur c (x28 :: m) tr) = true.
Proof. reflexivity. Qed.

Lemma at_array_obj c m tr : at_array v2_list_prefix (cur c (x28 :: m) tr) = false.
Proof. unfold at_array, cur; cbn [r_rest]. apply andb_false_iff. right. reflexivity. Qed.

Lemma scan_token_prefix m :
  scan_token (v2_list_prefix ++ m) = match scan_token m with Some (t, u) => Some (v2_list_prefix ++ t, u) | None => None end.
Proof.
  unfold v2_list_prefix. cbn [app scan_token].
  change (is_delim x4c) with false. change (is_delim x69) with false. change (is_delim x73) with false.
  change (is_delim x74) with false. change (is_delim x28) with false. cbv iota.
  destruct (scan_token m) as [[t u]|]; reflexivity.
Qed.

Lemma at_array_leaf c raw rest tr : tokfree4 raw -> rest = [] \/ delim_started rest ->
  at_array v2_list_prefix (cur c (raw ++ rest) tr) = false.
Proof.
  intros Hf Hr. destruct (at_array v2_list_prefix (cur c (raw ++ rest) tr)) eqn:E; [exfalso|reflexivity].
  unfold at_array, cur in E; cbn [r_rest] in E. apply andb_true_iff in E as [_ E]. apply has_prefix_spec in E as [m Em].
  assert (Hbad : forall t, raw = v2_list_prefix ++ t -> False).
  { intros t ->. specialize (Hf x28). cbn in Hf. discriminate Hf. tauto. }
  destruct Hr as [->|Hr].
  - rewrite app_nil_r in Em. exact (Hbad m Em).
  - pose proof (scan_token_ok raw rest Hf Hr) as Hs. rewrite Em, scan_token_prefix in Hs.
    destruct (scan_token m) as [[t u]|]; [|discriminate]. injection Hs as Hs _. exact (Hbad t (eq_sym Hs)).
Qed.

Lemma at_array_arr c (l : list bytes) rest tr : at_array v2_list_prefix (cur c (v2_list_prefix ++ seq_r l rest) tr) = true.
Proof.
  unfold at_array, cur; cbn [r_rest]. apply andb_true_iff. split.
  - apply Nat.ltb_lt. rewrite app_length. assert (1 <= length (seq_r l rest)); [|simpl; lia].
    destruct l as [|a r]; cbn [seq_r]; [simpl; lia|]. rewrite app_length. destruct r; simpl; lia.
  - apply has_prefix_spec. eexists; reflexivity.
Qed.

Lemma advance_prefix' c m tr : advance (length v2_list_prefix) (cur c (v2_list_prefix ++ m) tr) = cur true m tr.
Proof. destruct c; reflexivity. Qed.
Lemma advance_open' c m tr : advance 1 (cur c (x28 :: m) tr) = cur true m tr.
Proof. destruct c; reflexivity. Qed.
Lemma advance_one b m tr : advance 1 (cur true (b :: m) tr) = cur true m tr.
Proof. reflexivity. Qed.

(* ---- Skip(): parenthesis counting lands exactly after a rendered subtree ---- *)
Lemma skip_tok inside p tok m : tokfree4 tok -> skip_scan inside p (tok ++ m) = skip_scan inside p m.
Proof.
  induction tok as [|c tok IH]; intros Hf; [reflexivity|].
  apply tokfree4_cons in Hf as [Hf Hc]. cbn [app skip_scan].
  rewrite (Hc x28), (Hc x2c), (Hc x29) by (simpl; tauto). apply IH, Hf.
Qed.

Definition skips (a : bytes) : Prop := forall p m, skip_scan true (S p) (a ++ m) = skip_scan true (S p) m.

Lemma skip_seq (l : list bytes) : Forall skips l -> forall p m, skip_scan true (S p) (seq_r l m) = skip_scan true p m.
Proof.
  induction 1 as [|a r Ha Hr IH]; intros p m.
  - reflexivity.
  - cbn [seq_r]. rewrite (Ha p). destruct r as [|b r']; [reflexivity|].
    change (skip_scan true (S p) (x2c :: seq_r (b :: r') m)) with (skip_scan true (S p) (seq_r (b :: r') m)). apply IH.
Qed.

Lemma skips_render fl : forall d, toks_ok d -> skips (render_r fl d).
Proof.
  induction d as [raw|items IH|ents IH] using rdoc_ind'; intros Hok p m.
  - destruct Hok as [Hf _]. apply skip_tok. exact Hf.
  - rewrite render_arr_seq. apply toks_ok_arr in Hok.
    change (skip_scan true (S p) (v2_list_prefix ++ seq_r (map (render_r fl) items) m))
      with (skip_scan true (S (S p)) (seq_r (map (render_r fl) items) m)).
    apply skip_seq. rewrite Forall_forall in *. intros a Ha. apply in_map_iff in Ha as [x [<- Hx]]. apply IH; [exact Hx|apply Hok; exact Hx].
  - rewrite render_obj_seq. apply toks_ok_obj in Hok.
    change (skip_scan true (S p) (x28 :: seq_r (map (entry_r fl) ents) m))
      with (skip_scan true (S (S p)) (seq_r (map (entry_r fl) ents) m)).
    apply skip_seq. rewrite Forall_forall in *. intros a Ha. apply in_map_iff in Ha as [kx [<- Hx]].
    intros p' m'. unfold entry_r. rewrite <- app_assoc. rewrite skip_tok by apply rstr_free4.
    cbn [app]. change (skip_scan true (S p') (x3a :: render_r fl (snd kx) ++ m')) with (skip_scan true (S p') (render_r fl (snd kx) ++ m')).
    apply IH; [exact Hx|apply Hok; exact Hx].
Qed.

Lemma skip_stop inside rest : delim_started rest -> skip_scan inside 0 rest = Some rest.
Proof.
  intros (c & r & -> & Hc). unfold is_delim in Hc. cbn [skip_scan].
  destruct (Byte.eqb c x28) eqn:E8.
  - apply Byte.byte_dec_bl in E8. subst c. discriminate Hc.
  - destruct (Byte.eqb c x2c); [destruct inside; reflexivity|]. simpl in Hc. rewrite Hc. destruct inside; reflexivity.
Qed.

Lemma rskip_render fl d rest tr : toks_ok d -> delim_started rest ->
  rskip v2_list_prefix (cur true (render_r fl d ++ rest) tr) = Ok (cur true rest tr).
Proof.
  intros Hok Hr. unfold rskip. cbn [cur r_consumed negb r_rest r_tr].
  assert (E : skip_scan (at_array v2_list_prefix (cur true (render_r fl d ++ rest) tr) || at_map (cur true (render_r fl d ++ rest) tr)) 0
                (render_r fl d ++ rest) = Some rest); [|rewrite E; reflexivity].
  destruct d as [raw|items|ents].
  - destruct Hok as [Hf _]. cbn [render_r]. rewrite skip_tok by exact Hf. apply skip_stop. exact Hr.
  - rewrite render_arr_seq, at_array_arr. cbn [orb].
    change (skip_scan true 0 (v2_list_prefix ++ seq_r (map (render_r fl) items) rest))
      with (skip_scan true 1 (seq_r (map (render_r fl) items) rest)).
    rewrite skip_seq; [apply skip_stop; exact Hr|]. apply toks_ok_arr in Hok. rewrite Forall_forall in *.
    intros a Ha. apply in_map_iff in Ha as [x [<- Hx]]. apply skips_render. apply Hok. exact Hx.
  - pose proof (skips_render fl (RObj ents) Hok) as Hs. rewrite render_obj_seq in *. rewrite at_map_obj, orb_true_r.
    change (skip_scan true 0 (x28 :: seq_r (map (entry_r fl) ents) rest))
      with (skip_scan true 1 (seq_r (map (entry_r fl) ents) rest)).
    rewrite skip_seq; [apply skip_stop; exact Hr|]. apply toks_ok_obj in Hok. rewrite Forall_forall in *.
    intros a Ha. apply in_map_iff in Ha as [kx [<- Hx]].
    intros p' m'. unfold entry_r. rewrite <- app_assoc. rewrite skip_tok by apply rstr_free4.
    cbn [app]. change (skip_scan true (S p') (x3a :: render_r fl (snd kx) ++ m')) with (skip_scan true (S p') (render_r fl (snd kx) ++ m')).
    apply skips_render. apply Hok. exact Hx.
Qed.

(* ---- ValidateRor2Input accepts every rendering ---- *)
Lemma validate_tok' k tok m : tokfree4 tok -> validate_ror2 k (tok ++ m) = validate_ror2 k m.
Proof.
  induction tok as [|c tok IH]; intros Hf; [reflexivity|].
  apply tokfree4_cons in Hf as [Hf Hc]. cbn [app validate_ror2]. rewrite (Hc x28), (Hc x29) by (simpl; tauto). apply IH, Hf.
Qed.

Definition vals (a : bytes) : Prop := forall k m, validate_ror2 k (a ++ m) = validate_ror2 k m.

Lemma validate_seq (l : list bytes) : Forall vals l -> forall k m, validate_ror2 (S k) (seq_r l m) = validate_ror2 k m.
Proof.
  induction 1 as [|a r Ha Hr IH]; intros k m.
  - reflexivity.
  - cbn [seq_r]. rewrite (Ha (S k)). destruct r as [|b r']; [reflexivity|].
    change (validate_ror2 (S k) (x2c :: seq_r (b :: r') m)) with (validate_ror2 (S k) (seq_r (b :: r') m)). apply IH.
Qed.

Lemma vals_render fl : forall d, toks_ok d -> vals (render_r fl d).
Proof.
  induction d as [raw|items IH|ents IH] using rdoc_ind'; intros Hok k m.
  - destruct Hok as [Hf _]. apply validate_tok'. exact Hf.
  - rewrite render_arr_seq. apply toks_ok_arr in Hok.
    change (validate_ror2 k (v2_list_prefix ++ seq_r (map (render_r fl) items) m))
      with (validate_ror2 (S k) (seq_r (map (render_r fl) items) m)).
    apply validate_seq. rewrite Forall_forall in *. intros a Ha. apply in_map_iff in Ha as [x [<- Hx]]. apply IH; [exact Hx|apply Hok; exact Hx].
  - rewrite render_obj_seq. apply toks_ok_obj in Hok.
    change (validate_ror2 k (x28 :: seq_r (map (entry_r fl) ents) m))
      with (validate_ror2 (S k) (seq_r (map (entry_r fl) ents) m)).
    apply validate_seq. rewrite Forall_forall in *. intros a Ha. apply in_map_iff in Ha as [kx [<- Hx]].
    intros k' m'. unfold entry_r. rewrite <- app_assoc. rewrite validate_tok' by apply rstr_free4.
    cbn [app]. change (validate_ror2 k' (x3a :: render_r fl (snd kx) ++ m')) with (validate_ror2 k' (render_r fl (snd kx) ++ m')).
    apply IH; [exact Hx|apply Hok; exact Hx].
Qed.

Lemma validate_render_r fl d : toks_ok d -> validate_ror2 0 (render_r fl d) = true.
Proof. intros H. rewrite <- (app_nil_r (render_r fl d)). rewrite (vals_render fl d H). reflexivity. Qed.

(* ===========================================================================================================================
   R3. refinement
   =========================================================================================================================== *)
Section Leaves.
  Variable parseF : nat -> bytes -> option N.
  Variable fl : flavour.
  Notation UN := (unescape (plus_of fl)).

  Lemma read_string_leaf c raw rest tr : tokfree4 raw -> raw <> [] -> tok_ctx c rest ->
    read_string UN v2_empty_string (cur c (raw ++ rest) tr)
    = lift rest (do x <- tstring UN v2_empty_string (JStr raw); Ok (x, tr)).
  Proof.
    intros Hf Hn Hc. unfold read_string. rewrite (read_token_ok c raw rest tr Hf Hn Hc). cbn [bind]. unfold tstring.
    destruct raw as [|b raw']; [congruence|]. destruct (bytes_eqb (b :: raw') v2_empty_string); [reflexivity|].
    destruct (UN (b :: raw')); reflexivity.
  Qed.

  Lemma read_decoded_leaf c raw rest tr : tokfree4 raw -> raw <> [] -> tok_ctx c rest ->
    read_decoded UN (cur c (raw ++ rest) tr) = lift rest (do x <- tdecoded UN (JStr raw); Ok (x, tr)).
  Proof.
    intros Hf Hn Hc. unfold read_decoded. rewrite (read_token_ok c raw rest tr Hf Hn Hc). cbn [bind]. unfold tdecoded.
    destruct (UN raw); reflexivity.
  Qed.

  Lemma rprim_leaf p c raw rest tr : tokfree4 raw -> raw <> [] -> tok_ctx c rest ->
    rprim parseF UN v2_empty_string p (cur c (raw ++ rest) tr)
    = lift rest (do v <- tprim parseF UN v2_empty_string p (JStr raw); Ok (v, tr)).
  Proof.
    intros Hf Hn Hc. unfold rprim, tprim.
    destruct p; rewrite ?(read_string_leaf c raw rest tr Hf Hn Hc), ?(read_decoded_leaf c raw rest tr Hf Hn Hc).
    - destruct (tdecoded UN (JStr raw)) as [x|x|]; cbn [bind lift]; try reflexivity. destruct (parse_i32 x); reflexivity.
    - destruct (tdecoded UN (JStr raw)) as [x|x|]; cbn [bind lift]; try reflexivity. destruct (parse_i64 x); reflexivity.
    - destruct (tdecoded UN (JStr raw)) as [x|x|]; cbn [bind lift]; try reflexivity. destruct (parseF 1 x); reflexivity.
    - destruct (tdecoded UN (JStr raw)) as [x|x|]; cbn [bind lift]; try reflexivity. destruct (parseF 0 x); reflexivity.
    - destruct (tdecoded UN (JStr raw)) as [x|x|]; cbn [bind lift]; try reflexivity. destruct (parse_bool x); reflexivity.
    - destruct (tstring UN v2_empty_string (JStr raw)) as [x|x|]; reflexivity.
    - destruct (tstring UN v2_empty_string (JStr raw)) as [x|x|]; reflexivity.
  Qed.

  Lemma read_string_paren c pre m tr : Forall nd pre -> read_string UN v2_empty_string (cur c (pre ++ x28 :: m) tr) = Err EDeser.
  Proof. intros H. unfold read_string. rewrite (read_token_paren c pre m tr H). reflexivity. Qed.
  Lemma read_decoded_paren c pre m tr : Forall nd pre -> read_decoded UN (cur c (pre ++ x28 :: m) tr) = Err EDeser.
  Proof. intros H. unfold read_decoded. rewrite (read_token_paren c pre m tr H). reflexivity. Qed.
  Lemma rprim_paren p c pre m tr : Forall nd pre -> rprim parseF UN v2_empty_string p (cur c (pre ++ x28 :: m) tr) = Err EDeser.
  Proof. intros H. destruct p; unfold rprim; rewrite ?(read_string_paren c pre m tr H), ?(read_decoded_paren c pre m tr H); reflexivity. Qed.

  Lemma tstring_composite d : is_leaf d = false -> tstring UN v2_empty_string (j_of_r d) = Err EDeser.
  Proof. destruct d; [discriminate|reflexivity|reflexivity]. Qed.
  Lemma tprim_composite p d : is_leaf d = false -> tprim parseF UN v2_empty_string p (j_of_r d) = Err EDeser.
  Proof. destruct d; [discriminate| |]; destruct p; reflexivity. Qed.
End Leaves.

Section StepRef.
  Variable e : env.
  Variables (wildcard : bytes) (excl : pathspec) (ignore : nat).
  Variable parseF : nat -> bytes -> option N.
  Variable fl : flavour.
  Variable qr : bool.
  Notation UN := (unescape (plus_of fl)).
  Notation EM := v2_empty_string.
  Notation LP := v2_list_prefix.

  (* DJr: the JSON decoder stepR uses for default literals; DJt: what the tree-level step is given; D: the cursor-level call *)
  Variables DJr DJt : bool -> ty -> jdoc -> tracker -> res (value * tracker).
  Variable D : ty -> rst -> res (value * rst).
  Hypothesis Hlit : forall t jd tr, DJt true t jd tr = DJr true t jd tr.
  Variable P : rdoc -> Prop.
  Hypothesis HD : forall x, P x -> forall t tr rest, delim_started rest ->
    D t (cur true (render_r fl x ++ rest) tr) = lift rest (DJt false t (j_of_r x) tr).

  Notation R := (render_r fl).

  Lemma with_tr_cur' c r tr tr' : with_tr (cur c r tr) tr' = cur c r tr'.
  Proof. reflexivity. Qed.

  Lemma read_after_comma' r tr : read_after (cur true (x2c :: r) tr) = Ok (Continue (cur true r tr)).
  Proof. reflexivity. Qed.
  Lemma read_after_close' r tr : read_after (cur true (x29 :: r) tr) = Ok (Done (cur true r tr)).
  Proof. reflexivity. Qed.

  (* ---- arrays ---- *)
  Lemma goRarr_ref t' rest : forall items k i acc tr, items <> [] -> Forall P items -> length items <= k ->
    goRarr D t' k i acc (cur true (seq_r (map R items) rest) tr) = lift rest (goJarr DJt t' (map j_of_r items) i acc tr).
  Proof.
    induction items as [|x r IH]; intros k i acc tr Hne HP Hk; [congruence|].
    inversion HP as [|? ? Hx Hr]; subst. destruct k as [|k]; [simpl in Hk; lia|].
    cbn [goRarr map goJarr]. rewrite seq_r_cons. rewrite with_tr_cur'. cbn [r_tr cur].
    rewrite (HD x Hx t' (enter_array i tr) _ (seq_tail_ds (map R r) rest)).
    destruct (DJt false t' (j_of_r x) (enter_array i tr)) as [[v tr']|err|]; cbn [lift bind]; [|reflexivity|reflexivity].
    rewrite with_tr_cur'. cbn [r_tr cur]. destruct r as [|y r'].
    - cbn [map seq_tail]. rewrite read_after_close'. cbn [bind]. reflexivity.
    - cbn [map seq_tail]. rewrite read_after_comma'. cbn [bind].
      apply (IH k (S i) (v :: acc) (pop tr')); [discriminate|exact Hr|simpl in *; lia].
  Qed.

  (* ---- one map / record / union entry: the key ---- *)
  Lemma entry_head kx (r : list bytes) rest :
    exists b m, entry_r fl kx ++ seq_tail r rest = b :: m /\ Byte.eqb b x29 = false.
  Proof.
    unfold entry_r. destruct (tokfree4_hd (rstr fl (fst kx)) (rstr_free4 fl (fst kx)) (rstr_nonempty fl (fst kx)))
      as (b & m & E & H & _). rewrite E. eexists b, _. split; [reflexivity|exact H].
  Qed.

  Lemma goJmap_cons' t' k x r acc tr :
    goJmap wildcard excl ignore DJt t' ((k, j_of_r x) :: r) acc tr =
    do tr1 <- enter_map wildcard excl ignore k tr;
    do rr <- DJt false t' (j_of_r x) tr1;
    let '(v, tr2) := rr in goJmap wildcard excl ignore DJt t' r (map_put k v acc) (pop tr2).
  Proof. destruct x; reflexivity. Qed.

  Lemma goRmap_ref t' rest : forall ents k acc tr, Forall (fun kx => P (snd kx)) ents -> 1 <= k -> length ents <= k ->
    goRmap wildcard excl ignore UN EM D t' k acc (cur true (seq_r (map (entry_r fl) ents) rest) tr)
    = lift rest (goJmap wildcard excl ignore DJt t' (map jentry ents) acc tr).
  Proof.
    induction ents as [|[key x] r IH]; intros k acc tr HP Hk1 Hk; (destruct k as [|k]; [lia|]).
    - reflexivity.
    - inversion HP as [|? ? Hx Hr]; subst. cbn [snd] in Hx.
      cbn [goRmap map]. rewrite seq_r_cons. unfold jentry at 1. cbn [fst snd]. rewrite goJmap_cons'.
      destruct (entry_head (key, x) (map (entry_r fl) r) rest) as (b & m & Eb & Hb). rewrite Eb.
      cbn [check_not_at_end idx cur r_rest bind]. rewrite Hb. rewrite <- Eb. unfold entry_r at 1. cbn [fst snd].
      rewrite <- app_assoc. cbn [app].
      change {| r_rest := rstr fl key ++ x3a :: ?m; r_consumed := true; r_tr := tr |} with (cur true (rstr fl key ++ x3a :: m) tr).
      rewrite read_field_name_ok. cbn [bind]. cbn [r_tr cur].
      destruct (enter_map wildcard excl ignore key tr) as [tr1|err|]; cbn [bind]; [|reflexivity|reflexivity].
      rewrite with_tr_cur'.
      rewrite (HD x Hx t' tr1 _ (seq_tail_ds (map (entry_r fl) r) rest)).
      destruct (DJt false t' (j_of_r x) tr1) as [[v tr2]|err|]; cbn [lift bind]; [|reflexivity|reflexivity].
      rewrite with_tr_cur'. cbn [r_tr cur]. destruct r as [|y r'].
      + cbn [map seq_tail]. rewrite read_after_close'. cbn [bind]. reflexivity.
      + cbn [map seq_tail]. rewrite read_after_comma'. cbn [bind]. apply (IH k (map_put key v acc) (pop tr2) Hr); simpl in *; lia.
  Qed.

  (* ---- UnmarshalField: the search through the embedded includes, on the cursor and on the tree ---- *)
  Definition try_incsR (rec : nat -> value -> res (bool * value * rst)) :=
    fix try_incs (is : list nat) (vs : list value) (pos : nat) : res (option (nat * value * rst)) :=
      match is, vs with
      | i :: is', iv :: vs' =>
          do r <- rec i iv;
          let '(found, iv', s') := r in
          if found then Ok (Some (pos, iv', s')) else try_incs is' vs' (S pos)
      | _, _ => Ok None
      end.

  Lemma umfR_S k' n key rv s :
    umfR e D (S k') n key rv s =
    match lookup e n, rv with
    | Some (DRecord incs fs), VRec ivs fvs =>
        do hit <- try_incsR (fun i iv => umfR e D k' i key iv s) incs ivs 0;
        match hit with
        | Some (pos, iv', s') => Ok (true, VRec (set_nth pos iv' ivs) fvs, s')
        | None =>
            match index_of key (map f_name fs) 0 with
            | Some j =>
                match nth_error fs j with
                | Some fd => do r <- D (f_ty fd) s; let '(v, s') := r in Ok (true, VRec ivs (set_nth j (Some v) fvs), s')
                | None => Err EType
                end
            | None => Ok (false, rv, s)
            end
        end
    | _, _ => Err EType
    end.
  Proof. reflexivity. Qed.

  (* found: the cursor is after the value; not found: the cursor has not moved (the caller Skip()s) *)
  Definition umf_lift (x : rdoc) (rest : bytes) (r : res (bool * value * tracker)) : res (bool * value * rst) :=
    match r with
    | Ok (found, rv', tr') => Ok (found, rv', cur true (if found then rest else R x ++ rest) tr')
    | Err x => Err x
    | Panic => Panic
    end.
  Definition hit_lift (rest : bytes) (r : res (option (nat * value * tracker))) : res (option (nat * value * rst)) :=
    match r with
    | Ok (Some (p, iv', tr')) => Ok (Some (p, iv', cur true rest tr'))
    | Ok None => Ok None
    | Err x => Err x
    | Panic => Panic
    end.

  Lemma try_incs_ref x rest recR recJ : (forall i iv, recR i iv = umf_lift x rest (recJ i iv)) ->
    forall is vs pos, try_incsR recR is vs pos = hit_lift rest (try_incsK recJ is vs pos).
  Proof.
    intros H. induction is as [|i is IH]; intros vs pos; [reflexivity|]. destruct vs as [|iv vs]; [reflexivity|].
    cbn [try_incsR try_incsK]. rewrite (H i iv).
    destruct (recJ i iv) as [[[found iv'] tr']|err|]; cbn [umf_lift bind hit_lift]; [|reflexivity|reflexivity].
    destruct found; [reflexivity|apply IH].
  Qed.

  Lemma umf_ref x rest key : P x -> delim_started rest -> forall k n rv tr1,
    umfR e D k n key rv (cur true (R x ++ rest) tr1) = umf_lift x rest (umfJ e DJt k n key (j_of_r x) rv tr1).
  Proof.
    intros Hx Hr. induction k as [|k IH]; intros n rv tr1; [reflexivity|].
    rewrite umfR_S, umfJ_S. destruct (lookup e n) as [[incs fs|nullable ms]|]; try reflexivity.
    destruct rv as [| | | | | | | | |ivs fvs| | |]; try reflexivity.
    rewrite (try_incs_ref x rest _ (fun i iv => umfJ e DJt k i key (j_of_r x) iv tr1)) by (intros i iv; apply IH).
    destruct (try_incsK (fun i iv => umfJ e DJt k i key (j_of_r x) iv tr1) incs ivs 0) as [[[[p iv'] tr']|]|err|];
      cbn [hit_lift bind umf_lift]; try reflexivity.
    destruct (index_of key (map f_name fs) 0) as [j|]; [|reflexivity].
    destruct (nth_error fs j) as [fd|]; [|reflexivity].
    rewrite (HD x Hx (f_ty fd) tr1 rest Hr).
    destruct (DJt false (f_ty fd) (j_of_r x) tr1) as [[v tr']|err|]; reflexivity.
  Qed.

  (* ---- records ---- *)
  Lemma goJrec_cons' n k x r rv rem tr :
    goJrec e wildcard excl ignore DJt n ((k, j_of_r x) :: r) rv rem tr =
    do tr1 <- enter_map wildcard excl ignore k tr;
    do u <- umfJ e DJt (S (length e)) n k (j_of_r x) rv tr1;
    let '(_, rv', tr2) := u in goJrec e wildcard excl ignore DJt n r rv' (remove_bytes k rem) (pop tr2).
  Proof. destruct x; reflexivity. Qed.

  Lemma goRrec_ref n rest : forall ents k rv rem tr,
    Forall (fun kx => P (snd kx) /\ toks_ok (snd kx)) ents -> 1 <= k -> length ents <= k ->
    goRrec e wildcard excl ignore UN EM LP D n k rv rem (cur true (seq_r (map (entry_r fl) ents) rest) tr)
    = lift rest (goJrec e wildcard excl ignore DJt n (map jentry ents) rv rem tr).
  Proof.
    induction ents as [|[key x] r IH]; intros k rv rem tr HP Hk1 Hk; (destruct k as [|k]; [lia|]).
    - reflexivity.
    - inversion HP as [|? ? [Hx Hok] Hr]; subst. cbn [snd] in Hx, Hok.
      cbn [goRrec map]. rewrite seq_r_cons. unfold jentry at 1. cbn [fst snd]. rewrite goJrec_cons'.
      destruct (entry_head (key, x) (map (entry_r fl) r) rest) as (b & m & Eb & Hb). rewrite Eb.
      cbn [check_not_at_end idx cur r_rest bind]. rewrite Hb. rewrite <- Eb. unfold entry_r at 1. cbn [fst snd].
      rewrite <- app_assoc. cbn [app].
      change {| r_rest := rstr fl key ++ x3a :: ?m; r_consumed := true; r_tr := tr |} with (cur true (rstr fl key ++ x3a :: m) tr).
      rewrite read_field_name_ok. cbn [bind]. cbn [r_tr cur].
      destruct (enter_map wildcard excl ignore key tr) as [tr1|err|]; cbn [bind]; [|reflexivity|reflexivity].
      rewrite with_tr_cur'.
      rewrite (umf_ref x _ key Hx (seq_tail_ds (map (entry_r fl) r) rest)).
      destruct (umfJ e DJt (S (length e)) n key (j_of_r x) rv tr1) as [[[found rv'] tr2]|err|]; cbn [umf_lift bind];
        [|reflexivity|reflexivity].
      assert (E : (if found then Ok (cur true (seq_tail (map (entry_r fl) r) rest) tr2)
                   else rskip LP (cur true (R x ++ seq_tail (map (entry_r fl) r) rest) tr2))
                  = Ok (cur true (seq_tail (map (entry_r fl) r) rest) tr2)).
      { destruct found; [reflexivity|]. apply rskip_render; [exact Hok|apply seq_tail_ds]. }
      destruct found; cbn [bind] in *; rewrite ?E; cbn [bind]; rewrite with_tr_cur'; cbn [r_tr cur];
        (destruct r as [|y r'];
         [cbn [map seq_tail]; rewrite read_after_close'; cbn [bind]; reflexivity
         |cbn [map seq_tail]; rewrite read_after_comma'; cbn [bind];
          apply (IH k rv' (remove_bytes key rem) (pop tr2) Hr); simpl in *; lia]).
  Qed.

  (* ---- unions ---- *)
  Lemma goJuni_cons' ms k x r uv b tr :
    goJuni wildcard excl ignore DJt ms ((k, j_of_r x) :: r) uv b tr =
    do tr1 <- enter_map wildcard excl ignore k tr;
    if b then Err EUnion
    else match index_of k (map fst ms) 0 with
         | Some j =>
             match nth_error ms j with
             | Some (_, mt) =>
                 do rr <- DJt false mt (j_of_r x) tr1;
                 let '(v, tr2) := rr in goJuni wildcard excl ignore DJt ms r (set_nth j (Some v) uv) true (pop tr2)
             | None => Err EType
             end
         | None => Err EUnion
         end.
  Proof. destruct x; reflexivity. Qed.

  Lemma goRuni_ref ms rest : forall ents k uv b tr, Forall (fun kx => P (snd kx)) ents -> 1 <= k -> length ents <= k ->
    goRuni wildcard excl ignore UN EM D ms k uv b (cur true (seq_r (map (entry_r fl) ents) rest) tr)
    = lift rest (goJuni wildcard excl ignore DJt ms (map jentry ents) uv b tr).
  Proof.
    induction ents as [|[key x] r IH]; intros k uv wasSet tr HP Hk1 Hk; (destruct k as [|k]; [lia|]).
    - reflexivity.
    - inversion HP as [|? ? Hx Hr]; subst. cbn [snd] in Hx.
      cbn [goRuni map]. rewrite seq_r_cons. unfold jentry at 1. cbn [fst snd]. rewrite goJuni_cons'.
      destruct (entry_head (key, x) (map (entry_r fl) r) rest) as (b & m & Eb & Hb). rewrite Eb.
      cbn [check_not_at_end idx cur r_rest bind]. rewrite Hb. rewrite <- Eb. unfold entry_r at 1. cbn [fst snd].
      rewrite <- app_assoc. cbn [app].
      change {| r_rest := rstr fl key ++ x3a :: ?m; r_consumed := true; r_tr := tr |} with (cur true (rstr fl key ++ x3a :: m) tr).
      rewrite read_field_name_ok. cbn [bind]. cbn [r_tr cur].
      destruct (enter_map wildcard excl ignore key tr) as [tr1|err|]; cbn [bind]; [|reflexivity|reflexivity].
      destruct wasSet; [reflexivity|].
      destruct (index_of key (map fst ms) 0) as [j|]; [|reflexivity].
      destruct (nth_error ms j) as [[alias mt]|]; [|reflexivity].
      rewrite with_tr_cur'.
      rewrite (HD x Hx mt tr1 _ (seq_tail_ds (map (entry_r fl) r) rest)).
      destruct (DJt false mt (j_of_r x) tr1) as [[v tr2]|err|]; cbn [lift bind]; [|reflexivity|reflexivity].
      rewrite with_tr_cur'. cbn [r_tr cur]. destruct r as [|y r'].
      + cbn [map seq_tail]. rewrite read_after_close'. cbn [bind]. reflexivity.
      + cbn [map seq_tail]. rewrite read_after_comma'. cbn [bind].
        apply (IH k (set_nth j (Some v) uv) true (pop tr2) Hr); simpl in *; lia.
  Qed.

  (* ---- the step ---- *)
  Lemma lit_value_lit t' lit : lit_valueS DJt t' lit = lit_valueS DJr t' lit.
  Proof. unfold lit_valueS. destruct (parse_json lit); [rewrite Hlit|]; reflexivity. Qed.
  Lemma fill_defaults_lit : forall fs fvs, fill_defaultsS DJt fs fvs = fill_defaultsS DJr fs fvs.
  Proof.
    induction fs as [|fd fs IH]; intros fvs; [reflexivity|]. destruct fvs as [|ov fvs]; [reflexivity|].
    cbn [fill_defaultsS]. rewrite IH. destruct ov; [reflexivity|]. destruct (f_opt fd); try reflexivity.
    rewrite lit_value_lit. reflexivity.
  Qed.

  Definition children (d : rdoc) : Prop :=
    match d with
    | RLeaf _ => True
    | RArr items => Forall P items
    | RObj ents => Forall (fun kx => P (snd kx)) ents
    end.
  Definition width (d : rdoc) : nat :=
    match d with RLeaf _ => 0 | RArr items => length items | RObj ents => Nat.max 1 (length ents) end.

  Lemma render_head_r d rest : toks_ok d -> exists b m, R d ++ rest = b :: m /\ Byte.eqb b x29 = false.
  Proof.
    intros Hok. destruct d as [raw|items|ents].
    - destruct Hok as [Hf Hn]. destruct (tokfree4_hd raw Hf Hn) as (b & m & E & H & _). cbn [render_r]. rewrite E.
      eexists b, _. split; [reflexivity|exact H].
    - rewrite render_arr_seq. eexists _, _. split; reflexivity.
    - rewrite render_obj_seq. eexists _, _. split; reflexivity.
  Qed.

  Lemma tok_ctx_rest c rest : tok_ctx c rest -> rest = [] \/ delim_started rest.
  Proof. destruct c; cbn [tok_ctx]; auto. Qed.

  Notation stepR' := (stepR e wildcard excl ignore parseF DJr UN EM LP qr D).
  Notation stepT' := (stepT e wildcard excl ignore parseF UN EM DJt).

  Lemma stepR_ref_leaf f t raw c tr rest : tokfree4 raw -> raw <> [] -> tok_ctx c rest ->
    stepR' f t (cur c (raw ++ rest) tr) = lift rest (stepT' (negb c && negb qr) t (JStr raw) tr).
  Proof.
    intros Hf Hn Hc. destruct t as [p|syms|sz|n|t'|t']; cbn [stepR stepT].
    - apply rprim_leaf; assumption.
    - rewrite (read_string_leaf fl c raw rest tr Hf Hn Hc).
      destruct (tstring UN EM (JStr raw)) as [x|x|]; reflexivity.
    - rewrite (read_string_leaf fl c raw rest tr Hf Hn Hc).
      destruct (tstring UN EM (JStr raw)) as [x|x|]; cbn [bind lift]; try reflexivity.
      destruct (Nat.eqb (length x) sz); reflexivity.
    - cbn [stepJ]. destruct (lookup e n) as [[incs fs|nullable ms]|]; [| |reflexivity].
      + cbv zeta. rewrite (at_map_leaf c raw rest tr Hf Hn). reflexivity.
      + rewrite (at_map_leaf c raw rest tr Hf Hn). reflexivity.
    - rewrite (at_array_leaf c raw rest tr Hf (tok_ctx_rest c rest Hc)). reflexivity.
    - rewrite (at_map_leaf c raw rest tr Hf Hn). reflexivity.
  Qed.

  Lemma stepR_ref_arr f t items c tr rest : Forall P items -> Forall toks_ok items -> length items <= f ->
    stepR' f t (cur c (LP ++ seq_r (map R items) rest) tr) = lift rest (stepT' (negb c && negb qr) t (JArr (map j_of_r items)) tr).
  Proof.
    intros HP Hok Hf.
    assert (Epre : forall m, LP ++ m = [x4c; x69; x73; x74] ++ x28 :: m) by reflexivity.
    destruct t as [p|syms|sz|n|t'|t']; cbn [stepR stepT].
    - rewrite Epre, (rprim_paren parseF fl p c _ _ tr nd_List). destruct p; reflexivity.
    - rewrite Epre, (read_string_paren fl c _ _ tr nd_List). reflexivity.
    - rewrite Epre, (read_string_paren fl c _ _ tr nd_List). reflexivity.
    - cbn [stepJ]. destruct (lookup e n) as [[incs fs|nullable ms]|]; reflexivity.
    - rewrite at_array_arr. cbn [negb]. cbv zeta. rewrite advance_prefix'. cbn [stepJ].
      destruct items as [|x r].
      + reflexivity.
      + inversion Hok as [|? ? Hx _]; subst.
        cbn [map]. rewrite seq_r_cons.
        destruct (render_head_r x (seq_tail (map R r) rest) Hx) as (b & m & Eb & Hb). rewrite Eb.
        cbn [idx cur r_rest bind]. rewrite Hb. rewrite <- Eb. rewrite <- seq_r_cons.
        apply (goRarr_ref t' rest (x :: r) f 0 [] tr); [discriminate|exact HP|exact Hf].
    - reflexivity.
  Qed.

  Lemma stepR_ref_obj f t ents c tr rest :
    Forall (fun kx => P (snd kx)) ents -> Forall (fun kx => toks_ok (snd kx)) ents -> 1 <= f -> length ents <= f ->
    stepR' f t (cur c (x28 :: seq_r (map (entry_r fl) ents) rest) tr)
    = lift rest (stepT' (negb c && negb qr) t (JObj (map jentry ents)) tr).
  Proof.
    intros HP Hok Hf1 Hf.
    assert (Epre : forall m : bytes, x28 :: m = [] ++ x28 :: m) by reflexivity.
    destruct t as [p|syms|sz|n|t'|t']; cbn [stepR stepT].
    - rewrite Epre, (rprim_paren parseF fl p c _ _ tr (Forall_nil _)). destruct p; reflexivity.
    - rewrite Epre, (read_string_paren fl c _ _ tr (Forall_nil _)). reflexivity.
    - rewrite Epre, (read_string_paren fl c _ _ tr (Forall_nil _)). reflexivity.
    - cbn [stepJ]. destruct (lookup e n) as [[incs fs|nullable ms]|]; [| |reflexivity].
      + cbv zeta. rewrite at_map_obj. cbn [negb]. rewrite advance_open'. cbn [bind].
        rewrite (goRrec_ref n rest ents f); [| |exact Hf1|exact Hf].
        2:{ rewrite Forall_forall in *. intros kx Hin. split; [apply HP|apply Hok]; exact Hin. }
        destruct (goJrec e wildcard excl ignore DJt n (map jentry ents) _ _ tr) as [[[rv rem] tr1]|err|]; cbn [lift bind];
          [|reflexivity|reflexivity].
        cbn [r_tr cur r_consumed]. destruct rv; try reflexivity. rewrite fill_defaults_lit. reflexivity.
      + rewrite at_map_obj. cbn [negb]. rewrite advance_open'. cbn [bind].
        rewrite (goRuni_ref ms rest ents f _ _ tr HP Hf1 Hf).
        destruct (goJuni wildcard excl ignore DJt ms (map jentry ents) _ _ tr) as [[[uv wasSet] tr1]|err|]; cbn [lift bind];
          [|reflexivity|reflexivity].
        destruct (negb nullable && negb wasSet); reflexivity.
    - rewrite at_array_obj. reflexivity.
    - rewrite at_map_obj. cbn [negb]. rewrite advance_open'. cbn [stepJ].
      apply (goRmap_ref t' rest ents f [] tr HP Hf1 Hf).
  Qed.

  Theorem stepR_ref f t d c tr rest : toks_ok d -> tok_ctx c rest -> children d -> width d <= f ->
    stepR' f t (cur c (R d ++ rest) tr) = lift rest (stepT' (negb c && negb qr) t (j_of_r d) tr).
  Proof.
    intros Hok Hc Hch Hw. destruct d as [raw|items|ents].
    - destruct Hok as [Hf Hn]. apply stepR_ref_leaf; assumption.
    - rewrite render_arr_seq. cbn [j_of_r]. apply stepR_ref_arr; [exact Hch|apply toks_ok_arr; exact Hok|exact Hw].
    - rewrite render_obj_seq, j_of_r_obj. cbn [width] in Hw.
      apply stepR_ref_obj; [exact Hch|apply toks_ok_obj; exact Hok|lia|lia].
  Qed.
End StepRef.

(* ---- the refinement theorem (induction on the recursion budget) ---- *)
Lemma list_sum_in' {A} (g : A -> nat) l x : In x l -> g x <= list_sum (map g l).
Proof. induction l as [|a l IH]; simpl; intros H; [contradiction|]. destruct H as [->|H]; [lia|]. specialize (IH H). lia. Qed.
Lemma list_sum_len' {A} (g : A -> nat) l : (forall x, 1 <= g x) -> length l <= list_sum (map g l).
Proof. intros H. induction l as [|a l IH]; simpl; [lia|]. specialize (H a). lia. Qed.

Section Refines.
  Variable e : env.
  Variables (wildcard : bytes) (excl : pathspec) (ignore : nat).
  Variable parseF : nat -> bytes -> option N.
  Variable fl : flavour.
  Variable qr : bool.

  Notation UN := (unescape (plus_of fl)).
  Notation decR' := (decR e wildcard excl ignore parseF UN v2_empty_string v2_list_prefix qr).
  Notation decT' := (decT e wildcard excl ignore parseF UN v2_empty_string).
  Notation decTj' := (decTj e wildcard excl ignore parseF UN v2_empty_string).

  (* R3.  [c] = "the cursor is not at position 0"; at position 0 the value is the whole input ([tok_ctx false rest] is
     [rest = []]) and a record is "at the start of the input" unless the reader is a query parameter's *)
  Theorem decR_refines : forall fuel t d c tr rest,
    toks_ok d -> tok_ctx c rest -> rsize d <= fuel ->
    decR' fuel t (cur c (render_r fl d ++ rest) tr) = lift rest (decT' fuel (negb c && negb qr) t d tr).
  Proof.
    induction fuel as [|f IH]; intros t d c tr rest Hok Hc Hsz; [pose proof (rsize_pos d); lia|].
    rewrite decR_unfold. unfold decT. rewrite decTj_unfold.
    apply (stepR_ref e wildcard excl ignore parseF fl qr
             (djmix e wildcard excl ignore parseF f) (mixDJ e wildcard excl ignore parseF (decTj' f false) f)
             (decR' f) (fun t0 jd tr0 => eq_refl) (fun x => toks_ok x /\ rsize x <= f)).
    - intros x [Hx Hs] t0 tr0 rest0 Hr0. exact (IH t0 x true tr0 rest0 Hx Hr0 Hs).
    - exact Hok.
    - exact Hc.
    - destruct d as [raw|items|ents]; cbn [children].
      + exact I.
      + apply toks_ok_arr in Hok. rewrite Forall_forall in *. intros x Hx. split; [apply Hok; exact Hx|].
        cbn [rsize] in Hsz. pose proof (list_sum_in' rsize items x Hx). lia.
      + apply toks_ok_obj in Hok. rewrite Forall_forall in *. intros kx Hx. split; [apply Hok; exact Hx|].
        cbn [rsize] in Hsz. pose proof (list_sum_in' (fun kx : bytes * rdoc => let '(_, x) := kx in rsize x) ents kx Hx) as H.
        destruct kx as [k x]. cbn [snd]. lia.
    - destruct d as [raw|items|ents]; cbn [width rsize] in *.
      + lia.
      + pose proof (list_sum_len' rsize items rsize_pos). lia.
      + pose proof (list_sum_len' (fun kx : bytes * rdoc => let '(_, x) := kx in rsize x) ents) as H.
        assert (length ents <= list_sum (map (fun kx : bytes * rdoc => let '(_, x) := kx in rsize x) ents))
          by (apply H; intros [k x]; apply rsize_pos). lia.
  Qed.

  (* the two readings of R3 that the task statement asks for *)
  Corollary decR_refines_ok : forall fuel t d c tr rest v s,
    toks_ok d -> tok_ctx c rest -> rsize d <= fuel ->
    (decR' fuel t (cur c (render_r fl d ++ rest) tr) = Ok (v, s) <->
     exists tr', decT' fuel (negb c && negb qr) t d tr = Ok (v, tr') /\ s = cur true rest tr').
  Proof.
    intros fuel t d c tr rest v s Hok Hc Hsz. rewrite (decR_refines fuel t d c tr rest Hok Hc Hsz).
    destruct (decT' fuel (negb c && negb qr) t d tr) as [[v' tr']|err|]; cbn [lift].
    - split; [intros H; injection H as <- <-; exists tr'; auto|intros [tr2 [H ->]]; injection H as <- <-; reflexivity].
    - split; [discriminate|intros [tr2 [H _]]; discriminate].
    - split; [discriminate|intros [tr2 [H _]]; discriminate].
  Qed.

  Corollary decR_refines_err : forall fuel t d c tr rest x,
    toks_ok d -> tok_ctx c rest -> rsize d <= fuel ->
    (decR' fuel t (cur c (render_r fl d ++ rest) tr) = Err x <-> decT' fuel (negb c && negb qr) t d tr = Err x).
  Proof.
    intros fuel t d c tr rest x Hok Hc Hsz. rewrite (decR_refines fuel t d c tr rest Hok Hc Hsz).
    destruct (decT' fuel (negb c && negb qr) t d tr) as [[v' tr']|err|]; cbn [lift]; split; intros H; try discriminate; injection H as ->; reflexivity.
  Qed.

  Corollary decR_refines_class : forall fuel t d c tr rest,
    toks_ok d -> tok_ctx c rest -> rsize d <= fuel ->
    class_of (decR' fuel t (cur c (render_r fl d ++ rest) tr)) = class_of (decT' fuel (negb c && negb qr) t d tr).
  Proof.
    intros fuel t d c tr rest Hok Hc Hsz. rewrite (decR_refines fuel t d c tr rest Hok Hc Hsz).
    destruct (decT' fuel (negb c && negb qr) t d tr) as [[v' tr']|err|]; reflexivity.
  Qed.

  (* at position 0 *)
  Corollary decR_refines_start : forall fuel t d tr,
    toks_ok d -> rsize d <= fuel ->
    decR' fuel t (rinit (render_r fl d) tr) = lift [] (decT' fuel (negb qr) t d tr).
  Proof.
    intros fuel t d tr Hok Hsz. pose proof (decR_refines fuel t d false tr [] Hok eq_refl Hsz) as H.
    rewrite app_nil_r in H. exact H.
  Qed.
End Refines.

(* NewRor2Reader(data) + UnmarshalRestLi, and a query parameter's reader, on the rendering of a tree: [finish] of the tree-level
   decoder (validation never rejects a rendering) *)
Theorem decode_ror2_refines : forall e wildcard excl ignore parseF fl qr fuel qp t d,
  toks_ok d -> rsize d <= fuel ->
  decode_ror2 e wildcard excl ignore parseF (unescape (plus_of fl)) v2_empty_string v2_list_prefix qr fuel qp t (render_r fl d)
  = finish (match qp with None => is_record e t | Some _ => true end)
      (decT e wildcard excl ignore parseF (unescape (plus_of fl)) v2_empty_string fuel (negb qr) t d
         (match qp with Some p => {| t_scope := [SKey p]; t_missing := [] |} | None => tracker0 end)).
Proof.
  intros e wildcard excl ignore parseF fl qr fuel qp t d Hok Hsz. unfold decode_ror2.
  rewrite (validate_render_r fl d Hok). cbn [negb].
  rewrite (decR_refines_start e wildcard excl ignore parseF fl qr fuel t d _ Hok Hsz).
  destruct (decT e wildcard excl ignore parseF (unescape (plus_of fl)) v2_empty_string fuel (negb qr) t d _) as [[v tr']|err|];
    reflexivity.
Qed.

(* ===========================================================================================================================
   R4. transfer of the tree-level theorems (MissingProofs) to ROR2 input
   =========================================================================================================================== *)
Section ExactT.
  Variable e : env.
  Variables (wildcard : bytes) (ignore : nat).
  Variable parseF : nat -> bytes -> option N.
  Variable unesc : bytes -> option bytes.
  Variable empty_marker : bytes.
  Hypothesis Hwf : wf_schema e.

  Notation decTj' := (decTj e wildcard ps_empty ignore parseF unesc empty_marker).
  Notation mix f := (mixDJ e wildcard ps_empty ignore parseF (decTj' f false) f).
  Notation tprim' := (tprim parseF unesc empty_marker).
  Notation tstring' := (tstring unesc empty_marker).

  (* the shape of a tree w.r.t. a type: MissingProofs.ws_step on arrays / maps / records / unions (no duplicate keys; the value of
     every KNOWN member is well shaped; members that are not fields are unconstrained; exactly one member in a union), the ROR2
     token reader on leaves *)
  Fixpoint well_shaped_t (fuel : nat) (t : ty) (d : jdoc) : Prop :=
    match fuel with
    | 0 => False
    | S f =>
        match t with
        | TPrim p => exists v, tprim' p d = Ok v
        | TEnum _ => exists s, tstring' d = Ok s
        | TFixed n => exists b, tstring' d = Ok b /\ length b = n
        | _ => ws_step e parseF (well_shaped_t f) t d
        end
    end.

  (* the decoded value, field by field in schema order (MissingProofs.val_step), ROR2 token values at the leaves *)
  Fixpoint decode_spec_t (fuel : nat) (raising : bool) (t : ty) (d : jdoc) : value :=
    match fuel with
    | 0 => dummy_value
    | S f =>
        match t with
        | TPrim p => match tprim' p d with Ok v => v | _ => dummy_value end
        | TEnum syms => match tstring' d with Ok s => enum_value syms s | _ => dummy_value end
        | TFixed _ => match tstring' d with Ok b => VFixed b | _ => dummy_value end
        | _ => val_step e parseF (mix f) (decode_spec_t f false) raising t d
        end
    end.

  Definition raises_t (fuel : nat) (top : bool) (t : ty) (d : jdoc) (tr : tracker) : bool :=
    top && negb (is_nilb (t_missing tr ++ missing_spec e fuel t d (t_scope tr))).

  (* the analogue of MissingProofs.decJ_exact: the missing set is MissingProofs.missing_spec, the SAME specification as for JSON *)
  Theorem decTj_exact : forall fuel top t d tr,
    well_shaped_t fuel t d ->
    t_scope tr <> [SKey []] -> (t_scope tr = [] -> keys_nonempty (entries_of d)) ->
    exists tr',
      decTj' fuel top t d tr = Ok (decode_spec_t fuel (raises_t fuel top t d tr) t d, tr') /\
      t_scope tr' = t_scope tr /\
      Permutation (t_missing tr') (t_missing tr ++ missing_spec e fuel t d (t_scope tr)).
  Proof.
    induction fuel as [|f IH]; intros top t d tr Hws Hsc Hke; [contradiction|].
    rewrite decTj_unfold. unfold raises_t.
    assert (Hchild : child_ok (mix f) (well_shaped_t f) (decode_spec_t f false) (missing_spec e f)).
    { intros t0 x tr0 Hw Hne Hne2. destruct (IH false t0 x tr0 Hw Hne2) as [tr' H]; [intros E; contradiction|].
      exists tr'. exact H. }
    destruct t as [p|syms|sz|n|t'|t']; cbn [well_shaped_t] in Hws; cbn [stepT decode_spec_t missing_spec].
    - destruct Hws as [v Hv]. exists tr. rewrite Hv. cbn [bind ms_step]. rewrite app_nil_r. auto.
    - destruct Hws as [s Hs]. exists tr. rewrite Hs. cbn [bind ms_step]. rewrite app_nil_r. auto.
    - destruct Hws as [b [Hb Hl]]. exists tr. rewrite Hb. cbn [bind ms_step]. rewrite (proj2 (Nat.eqb_eq _ _) Hl), app_nil_r. auto.
    - apply (stepJ_exact e wildcard ignore parseF (mix f) Hwf _ _ _ Hchild top (TRef n) d tr Hws Hsc Hke).
    - apply (stepJ_exact e wildcard ignore parseF (mix f) Hwf _ _ _ Hchild top (TArray t') d tr Hws Hsc Hke).
    - apply (stepJ_exact e wildcard ignore parseF (mix f) Hwf _ _ _ Hchild top (TMap t') d tr Hws Hsc Hke).
  Qed.

  (* ---- same known content, same result ---- *)
  Theorem sim_ok_t : forall fuel t d1 d2, well_shaped_t fuel t d1 -> sim e fuel t d1 d2 ->
    well_shaped_t fuel t d2 /\
    (forall r, decode_spec_t fuel r t d1 = decode_spec_t fuel r t d2) /\
    (forall sc, Permutation (missing_spec e fuel t d1 sc) (missing_spec e fuel t d2 sc)).
  Proof.
    induction fuel as [|f IH]; intros t d1 d2 Hws Hs; [contradiction|].
    assert (HS : forall t0 x1 x2, well_shaped_t f t0 x1 -> sim e f t0 x1 x2 ->
              well_shaped_t f t0 x2 /\ decode_spec_t f false t0 x1 = decode_spec_t f false t0 x2 /\
              forall sc, Permutation (missing_spec e f t0 x1 sc) (missing_spec e f t0 x2 sc)).
    { intros t0 x1 x2 Hw Hsx. destruct (IH t0 x1 x2 Hw Hsx) as [A [B C]]. auto. }
    destruct t as [p|syms|sz|n|t'|t']; cbn [sim sim_step] in Hs; cbn [well_shaped_t decode_spec_t missing_spec] in *.
    - subst d2. auto.
    - subst d2. auto.
    - subst d2. auto.
    - apply (sim_step_ok e (sim e f) parseF (mix f) _ _ _ HS (TRef n) d1 d2 Hws Hs).
    - apply (sim_step_ok e (sim e f) parseF (mix f) _ _ _ HS (TArray t') d1 d2 Hws Hs).
    - apply (sim_step_ok e (sim e f) parseF (mix f) _ _ _ HS (TMap t') d1 d2 Hws Hs).
  Qed.

  Theorem same_content_same_result_t : forall fuel top t d1 d2 tr,
    well_shaped_t fuel t d1 -> sim e fuel t d1 d2 ->
    t_scope tr <> [SKey []] ->
    (t_scope tr = [] -> keys_nonempty (entries_of d1)) -> (t_scope tr = [] -> keys_nonempty (entries_of d2)) ->
    exists v tr1 tr2,
      decTj' fuel top t d1 tr = Ok (v, tr1) /\ decTj' fuel top t d2 tr = Ok (v, tr2) /\
      t_scope tr1 = t_scope tr2 /\ Permutation (t_missing tr1) (t_missing tr2).
  Proof.
    intros fuel top t d1 d2 tr Hws Hs Hsc Hk1 Hk2. destruct (sim_ok_t fuel t d1 d2 Hws Hs) as [Hws2 [Hv Hm]].
    destruct (decTj_exact fuel top t d1 tr Hws Hsc Hk1) as [tr1 [A1 [A2 A3]]].
    destruct (decTj_exact fuel top t d2 tr Hws2 Hsc Hk2) as [tr2 [B1 [B2 B3]]].
    exists (decode_spec_t fuel (raises_t fuel top t d1 tr) t d1), tr1, tr2. split; [exact A1|]. split.
    - rewrite B1. do 2 f_equal. rewrite Hv. f_equal. unfold raises_t. f_equal. f_equal. apply is_nilb_perm.
      apply Permutation_app_head. apply Permutation_sym. apply Hm.
    - split; [congruence|]. rewrite A3, B3. apply Permutation_app_head. apply Hm.
  Qed.

  (* ---- bridges: permuted members (any depth), one more unknown member ---- *)
  Lemma sim_refl_t : forall fuel t d, well_shaped_t fuel t d -> sim e fuel t d d.
  Proof.
    intros [|f] t d Hws; [contradiction|]. cbn [well_shaped_t sim] in *.
    destruct t as [p|syms|sz|n|t'|t']; simpl; try reflexivity.
    - simpl in Hws. destruct (lookup e n) as [[incs fs|nullable ms]|]; [| |reflexivity].
      + destruct Hws as [es [He [Hnd _]]]. exists es. split; [exact He|]. split; [exact Hnd|].
        intros fd _. rewrite (obj_entries_of d es He). unfold opt_rel. destruct (present es (f_name fd)); auto.
      + destruct Hws as [es [He _]]. exists es, es. split; [exact He|]. rewrite (obj_entries_of d es He). split; [|reflexivity].
        clear. induction es as [|a es IH]; constructor; [|exact IH]. split; [reflexivity|]. split; [reflexivity|]. auto.
    - destruct d; try reflexivity. apply Forall2_refl_or.
    - destruct d; try reflexivity. exists entries. split; [|reflexivity].
      clear. induction entries as [|a es IH]; constructor; [|exact IH]. split; [reflexivity|]. split; [reflexivity|]. auto.
  Qed.

  Lemma tprim_obj p es : tprim' p (JObj es) = Err EDeser.
  Proof. destruct p; reflexivity. Qed.
  Lemma tprim_arr p l : tprim' p (JArr l) = Err EDeser.
  Proof. destruct p; reflexivity. Qed.

  Theorem jperm_sim_t : forall fuel t d1 d2, well_shaped_t fuel t d1 -> jperm d1 d2 -> sim e fuel t d1 d2.
  Proof.
    induction fuel as [|f IH]; intros t d1 d2 Hws Hj; [contradiction|].
    inversion Hj as [d|l1 l2 HF|es1 es2' es2 HF HP]; subst.
    - apply sim_refl_t. exact Hws.
    - (* arrays *)
      cbn [well_shaped_t sim] in *. destruct t as [p|syms|sz|n|t'|t']; simpl in Hws |- *.
      + destruct Hws as [v Hv]. rewrite tprim_arr in Hv. discriminate.
      + destruct Hws as [s Hs]. discriminate.
      + destruct Hws as [b [Hb _]]. discriminate.
      + destruct (lookup e n) as [[incs fs|nullable ms]|]; [| |contradiction].
        * destruct Hws as [es [He _]]. discriminate.
        * destruct Hws as [es [He _]]. discriminate.
      + rewrite Forall_forall in Hws. apply (MissingProofs.Forall2_impl_in _ _ _ _ HF). intros a b Hin Hab. right.
        apply IH; [apply Hws; exact Hin|exact Hab].
      + contradiction.
    - (* objects *)
      cbn [well_shaped_t sim] in *. destruct t as [p|syms|sz|n|t'|t']; simpl in Hws |- *.
      + destruct Hws as [v Hv]. rewrite tprim_obj in Hv. discriminate.
      + destruct Hws as [s Hs]. discriminate.
      + destruct Hws as [b [Hb _]]. discriminate.
      + destruct (lookup e n) as [[incs fs|nullable ms]|] eqn:El; [| |contradiction].
        * (* record *)
          destruct Hws as [es [He [Hnd HW]]]. simpl in He. injection He as <-. rewrite Forall_forall in HW.
          assert (Hnd' : NoDup (map fst es2')) by (rewrite <- (jperm_pairs_keys _ _ HF); exact Hnd).
          exists es2. split; [reflexivity|]. split; [apply (Permutation_NoDup (Permutation_map fst HP)); exact Hnd'|].
          intros fd Hin. rewrite <- (present_perm es2' es2 (f_name fd) Hnd' HP).
          pose proof (present_F2 es1 es2' (f_name fd) HF) as Hp. specialize (HW fd Hin). unfold opt_rel.
          destruct (present es1 (f_name fd)) as [x1|], (present es2' (f_name fd)) as [x2|]; try contradiction; [|exact I].
          right. apply IH; assumption.
        * (* union *)
          destruct Hws as [es [He [Hnd HU]]]. simpl in He. injection He as <-.
          exists es2', es2. split; [reflexivity|]. split; [|exact HP].
          assert (Hall : forall a, In a es1 -> is_null (snd a) = false ->
                           forall mt, assoc_ty (fst a) ms = Some mt -> well_shaped_t f mt (snd a)).
          { intros a Hin Hn mt Ha. unfold ws_union in HU.
            assert (Hf : In a (filter (fun kx => negb (is_null (snd kx))) es1)) by (apply filter_In; split; [exact Hin|rewrite Hn; reflexivity]).
            destruct (filter (fun kx => negb (is_null (snd kx))) es1) as [|kx [|kx' rest]]; [contradiction| |contradiction].
            destruct Hf as [<-|[]]. destruct HU as [mt0 [Ha0 Hw0]]. rewrite Ha in Ha0. injection Ha0 as <-. exact Hw0. }
          apply (MissingProofs.Forall2_impl_in _ _ _ _ HF). intros a b Hin [Hk Hab]. split; [exact Hk|].
          split; [apply jperm_null; exact Hab|].
          intros Hn. right. intros mt Ha. apply IH; [apply (Hall a Hin Hn mt Ha)|exact Hab].
      + contradiction.
      + destruct Hws as [Hnd HW]. exists es2'. split; [|exact HP]. rewrite Forall_forall in HW.
        apply (MissingProofs.Forall2_impl_in _ _ _ _ HF). intros a b Hin [Hk Hab]. split; [exact Hk|].
        split; [apply jperm_null; exact Hab|].
        intros Hn. right. apply IH; [apply (HW a Hin Hn)|exact Hab].
  Qed.

  Lemma unknown_field_sim_t n incs fs f l1 l2 k x :
    lookup e n = Some (DRecord incs fs) -> field_of e n k = None -> ~ In k (map fst (l1 ++ l2)) ->
    well_shaped_t (S f) (TRef n) (JObj (l1 ++ l2)) ->
    sim e (S f) (TRef n) (JObj (l1 ++ l2)) (JObj (l1 ++ (k, x) :: l2)).
  Proof.
    intros Hn Hk Hnew Hws. cbn [well_shaped_t sim] in *. simpl in Hws |- *. rewrite Hn in *.
    destruct Hws as [es [He [Hnd HW]]]. simpl in He. injection He as <-.
    exists (l1 ++ (k, x) :: l2). split; [reflexivity|]. split.
    - apply (Permutation_NoDup (l := k :: map fst (l1 ++ l2))); [|constructor; assumption].
      rewrite !map_app. simpl. apply Permutation_middle.
    - intros fd Hin. rewrite present_insert.
      + unfold opt_rel. destruct (present (l1 ++ l2) (f_name fd)); auto.
      + intros E. rewrite field_of_eq in Hk. pose proof (proj1 (find_none_iff _ _) Hk fd Hin) as Hf. unfold keyp in Hf.
        rewrite <- E, bytes_eqb_refl in Hf. discriminate.
  Qed.
  (* ---- a decision procedure for [well_shaped_t] (sound; used for the concrete witnesses) ---- *)
  Fixpoint nodupb (l : list bytes) : bool :=
    match l with [] => true | a :: r => negb (existsb (bytes_eqb a) r) && nodupb r end.
  Lemma nodupb_sound l : nodupb l = true -> NoDup l.
  Proof.
    induction l as [|a r IH]; intros H; [constructor|]. cbn [nodupb] in H. apply andb_true_iff in H as [H1 H2].
    constructor; [|apply IH; exact H2]. intros Hin. apply negb_true_iff in H1.
    assert (E : existsb (bytes_eqb a) r = true) by (apply existsb_exists; exists a; split; [exact Hin|apply bytes_eqb_refl]).
    congruence.
  Qed.

  Fixpoint ws_checkb (fuel : nat) (t : ty) (d : jdoc) : bool :=
    match fuel with
    | 0 => false
    | S f =>
        match t with
        | TPrim p => is_ok (tprim' p d)
        | TEnum _ => is_ok (tstring' d)
        | TFixed n => match tstring' d with Ok b => Nat.eqb (length b) n | _ => false end
        | TArray t' => match d with JNull => true | JArr items => forallb (ws_checkb f t') items | _ => false end
        | TMap t' =>
            match d with
            | JNull => true
            | JObj es => nodupb (map fst es) && forallb (fun kx => is_null (snd kx) || ws_checkb f t' (snd kx)) es
            | _ => false
            end
        | TRef n =>
            match lookup e n with
            | Some (DRecord _ _) =>
                match obj_entries d with
                | Some es =>
                    nodupb (map fst es) &&
                    forallb (fun fd => match present es (f_name fd) with Some x => ws_checkb f (f_ty fd) x | None => true end)
                            (fields_of e n)
                | None => false
                end
            | Some (DUnion nullable ms) =>
                match obj_entries d with
                | Some es =>
                    nodupb (map fst es) &&
                    match filter (fun kx => negb (is_null (snd kx))) es with
                    | [] => nullable
                    | [kx] => match assoc_ty (fst kx) ms with Some mt => ws_checkb f mt (snd kx) | None => false end
                    | _ => false
                    end
                | None => false
                end
            | None => false
            end
        end
    end.

  Theorem ws_checkb_sound : forall fuel t d, ws_checkb fuel t d = true -> well_shaped_t fuel t d.
  Proof.
    induction fuel as [|f IH]; intros t d H; [discriminate|].
    destruct t as [p|syms|sz|n|t'|t']; cbn [ws_checkb well_shaped_t ws_step] in *.
    - destruct (tprim' p d) as [v|x|]; try discriminate. exists v. reflexivity.
    - destruct (tstring' d) as [v|x|]; try discriminate. exists v. reflexivity.
    - destruct (tstring' d) as [v|x|]; try discriminate. exists v. split; [reflexivity|apply Nat.eqb_eq; exact H].
    - destruct (lookup e n) as [[incs fs|nullable ms]|]; try discriminate.
      + destruct (obj_entries d) as [es|]; try discriminate. apply andb_true_iff in H as [H1 H2].
        exists es. split; [reflexivity|]. split; [apply nodupb_sound; exact H1|].
        apply Forall_forall. intros fd Hin. rewrite forallb_forall in H2. specialize (H2 fd Hin).
        destruct (present es (f_name fd)); [apply IH; exact H2|exact I].
      + destruct (obj_entries d) as [es|]; try discriminate. apply andb_true_iff in H as [H1 H2].
        exists es. split; [reflexivity|]. split; [apply nodupb_sound; exact H1|]. unfold ws_union.
        destruct (filter (fun kx => negb (is_null (snd kx))) es) as [|kx [|kx2 r]]; try discriminate; [exact H2|].
        destruct (assoc_ty (fst kx) ms) as [mt|]; try discriminate. exists mt. split; [reflexivity|apply IH; exact H2].
    - destruct d; try discriminate; [exact I|]. apply Forall_forall. intros x Hin. apply IH.
      rewrite forallb_forall in H. apply H. exact Hin.
    - destruct d; try discriminate; [exact I|]. apply andb_true_iff in H as [H1 H2]. split; [apply nodupb_sound; exact H1|].
      apply Forall_forall. intros kx Hin Hn. rewrite forallb_forall in H2. specialize (H2 kx Hin). rewrite Hn in H2.
      apply IH. exact H2.
  Qed.
End ExactT.

(* ---- permuting the members of any object at any depth ---- *)
Inductive rperm : rdoc -> rdoc -> Prop :=
| rp_refl d : rperm d d
| rp_arr l1 l2 : Forall2 rperm l1 l2 -> rperm (RArr l1) (RArr l2)
| rp_obj es1 es2' es2 :
    Forall2 (fun a b => fst a = fst b /\ rperm (snd a) (snd b)) es1 es2' -> Permutation es2' es2 ->
    rperm (RObj es1) (RObj es2).

Lemma rperm_jperm : forall d1 d2, rperm d1 d2 -> jperm (j_of_r d1) (j_of_r d2).
Proof.
  induction d1 as [raw|items IH|ents IH] using rdoc_ind'; intros d2 H; inversion H as [d|l1 l2 HF|es1 es2' es2 HF HP]; subst;
    try apply jp_refl.
  - cbn [j_of_r]. apply jp_arr. clear H. induction HF as [|a b l1 l2 Hab _ IHF]; [constructor|].
    inversion IH as [|? ? Ha Hl]; subst. constructor; [apply Ha; exact Hab|]. apply IHF; exact Hl.
  - rewrite !j_of_r_obj. apply (jp_obj _ (map jentry es2')); [|apply Permutation_map; exact HP].
    clear HP H. induction HF as [|a b l1 l2 [Hk Hab] _ IHF]; [constructor|].
    inversion IH as [|? ? Ha Hl]; subst. constructor; [|apply IHF; exact Hl].
    unfold jentry. cbn [fst snd]. split; [exact Hk|apply Ha; exact Hab].
Qed.

Lemma rperm_toks : forall d1 d2, rperm d1 d2 -> toks_ok d1 -> toks_ok d2.
Proof.
  induction d1 as [raw|items IH|ents IH] using rdoc_ind'; intros d2 H Hok; inversion H as [d|l1 l2 HF|es1 es2' es2 HF HP]; subst;
    try exact Hok.
  - apply toks_ok_arr in Hok. apply toks_ok_arr. clear H. induction HF as [|a b l1 l2 Hab _ IHF]; [constructor|].
    inversion IH as [|? ? Ha Hl]; subst. inversion Hok; subst. constructor; [apply (Ha b Hab); assumption|apply IHF; assumption].
  - apply toks_ok_obj in Hok. apply toks_ok_obj. apply (Permutation_Forall HP). clear HP H.
    induction HF as [|a b l1 l2 [Hk Hab] _ IHF]; [constructor|].
    inversion IH as [|? ? Ha Hl]; subst. inversion Hok; subst. constructor; [apply (Ha (snd b) Hab); assumption|apply IHF; assumption].
Qed.

Lemma list_sum_perm l l' : Permutation l l' -> list_sum l = list_sum l'.
Proof. induction 1; simpl; lia. Qed.

Lemma rperm_rsize : forall d1 d2, rperm d1 d2 -> rsize d2 = rsize d1.
Proof.
  induction d1 as [raw|items IH|ents IH] using rdoc_ind'; intros d2 H; inversion H as [d|l1 l2 HF|es1 es2' es2 HF HP]; subst;
    try reflexivity.
  - cbn [rsize]. f_equal. clear H. induction HF as [|a b l1 l2 Hab _ IHF]; [reflexivity|].
    inversion IH as [|? ? Ha Hl]; subst. simpl. rewrite (Ha b Hab), (IHF Hl). reflexivity.
  - cbn [rsize]. do 2 f_equal. rewrite <- (list_sum_perm _ _ (Permutation_map _ HP)). clear HP H.
    induction HF as [|a b l1 l2 [Hk Hab] _ IHF]; [reflexivity|].
    inversion IH as [|? ? Ha Hl]; subst. simpl. rewrite (IHF Hl). destruct a as [ka xa], b as [kb xb]. cbn [snd] in *.
    rewrite (Ha xb Hab). reflexivity.
Qed.

Lemma finish_perm b v tr1 tr2 : Permutation (t_missing tr1) (t_missing tr2) -> finish b (Ok (v, tr1)) = finish b (Ok (v, tr2)).
Proof.
  intros HP. unfold finish. destruct (t_missing tr1) as [|m1 l1] eqn:E1.
  - apply Permutation_nil in HP. rewrite HP. reflexivity.
  - destruct (t_missing tr2) as [|m2 l2] eqn:E2; [apply Permutation_sym, Permutation_nil in HP; discriminate|].
    rewrite (sort_bytes_perm_invariant _ _ HP). reflexivity.
Qed.

Section Transfer.
  Variable e : env.
  Variables (wildcard : bytes) (ignore : nat).
  Variable parseF : nat -> bytes -> option N.
  Variable fl : flavour.
  Hypothesis Hwf : wf_schema e.

  Notation UN := (unescape (plus_of fl)).
  Notation EM := v2_empty_string.
  Notation decode_ror2' qr := (decode_ror2 e wildcard ps_empty ignore parseF UN EM v2_list_prefix qr).

  (* the vocabulary of the statements, on ROR2 trees *)
  Definition ror2_well_shaped (fuel : nat) (t : ty) (d : rdoc) : Prop := well_shaped_t e parseF UN EM fuel t (j_of_r d).
  Definition ror2_missing (fuel : nat) (t : ty) (d : rdoc) (sc : list seg) : list bytes := missing_spec e fuel t (j_of_r d) sc.
  Definition ror2_value (fuel : nat) (raising : bool) (t : ty) (d : rdoc) : value :=
    decode_spec_t e wildcard ignore parseF UN EM fuel raising t (j_of_r d).

  (* where the reader starts: NewRor2Reader (no scope) or the reader of query parameter p (scope [p]) *)
  Definition tr_of (qp : option bytes) : tracker :=
    match qp with Some p => {| t_scope := [SKey p]; t_missing := [] |} | None => tracker0 end.
  Definition sc_of (qp : option bytes) : list seg := match qp with Some p => [SKey p] | None => [] end.
  (* the lone empty key (MissingProofs.paths_exact_full_refuted): excluded at the outermost level *)
  Definition scope_ok (qp : option bytes) (d : rdoc) : Prop :=
    match qp with Some p => p <> [] | None => keys_nonempty (entries_of (j_of_r d)) end.
  Definition top_raises (qp : option bytes) (t : ty) : bool := match qp with None => is_record e t | Some _ => true end.

  Lemma tr_of_sc qp : t_scope (tr_of qp) = sc_of qp.
  Proof. destruct qp; reflexivity. Qed.
  Lemma scope_ok_1 qp d : scope_ok qp d -> t_scope (tr_of qp) <> [SKey []].
  Proof. destruct qp as [p|]; simpl; intros H E; [injection E as E; contradiction|discriminate]. Qed.
  Lemma scope_ok_2 qp d : scope_ok qp d -> t_scope (tr_of qp) = [] -> keys_nonempty (entries_of (j_of_r d)).
  Proof. destruct qp as [p|]; simpl; intros H E; [discriminate|exact H]. Qed.

  (* the general form: any type, any of the two readers *)
  Theorem ror2_decode_exact : forall qr fuel qp t d,
    toks_ok d -> rsize d <= fuel -> ror2_well_shaped fuel t d -> scope_ok qp d ->
    decode_ror2' qr fuel qp t (render_r fl d) =
    let ms := ror2_missing fuel t d (sc_of qp) in
    let v := ror2_value fuel (negb qr && negb (is_nilb ms)) t d in
    match ms with
    | [] => DOk v
    | _ => if top_raises qp t then DMissing (sort_bytes ms) v else DOk v
    end.
  Proof.
    intros qr fuel qp t d Hok Hsz Hws Hsc.
    rewrite (decode_ror2_refines e wildcard ps_empty ignore parseF fl qr fuel qp t d Hok Hsz). unfold decT.
    fold (tr_of qp). fold (top_raises qp t).
    destruct (decTj_exact e wildcard ignore parseF UN EM Hwf fuel (negb qr) t (j_of_r d) (tr_of qp) Hws
                (scope_ok_1 qp d Hsc) (scope_ok_2 qp d Hsc)) as [tr' [H1 [H2 H3]]].
    rewrite H1. unfold raises_t. rewrite tr_of_sc in *.
    assert (Em : t_missing (tr_of qp) = []) by (destruct qp; reflexivity). rewrite Em in *. cbn [app] in *.
    unfold ror2_missing, ror2_value. cbv zeta. unfold finish.
    destruct (missing_spec e fuel t (j_of_r d) (sc_of qp)) as [|m ms] eqn:Ems.
    - apply Permutation_sym, Permutation_nil in H3. rewrite H3. reflexivity.
    - destruct (t_missing tr') as [|m' ms'] eqn:Et; [apply Permutation_nil in H3; discriminate|].
      rewrite (sort_bytes_perm_invariant _ _ H3). reflexivity.
  Qed.

  (* C06 for the ROR2 reader: a record at the start of the input raises exactly the specified paths (MissingProofs.missing_spec,
     the same specification as for JSON), sorted, with the partially populated value *)
  Theorem ror2_missing_exact : forall fuel t d,
    is_record e t = true -> toks_ok d -> rsize d <= fuel -> ror2_well_shaped fuel t d -> scope_ok None d ->
    decode_ror2' false fuel None t (render_r fl d) =
    match ror2_missing fuel t d [] with
    | [] => DOk (ror2_value fuel false t d)
    | ms => DMissing (sort_bytes ms) (ror2_value fuel true t d)
    end.
  Proof.
    intros fuel t d Hrec Hok Hsz Hws Hsc. rewrite (ror2_decode_exact false fuel None t d Hok Hsz Hws Hsc).
    cbv zeta. cbn [sc_of top_raises negb andb]. rewrite Hrec. destruct (ror2_missing fuel t d []); reflexivity.
  Qed.

  Corollary ror2_missing_iff : forall fuel t d fs v,
    is_record e t = true -> toks_ok d -> rsize d <= fuel -> ror2_well_shaped fuel t d -> scope_ok None d ->
    (decode_ror2' false fuel None t (render_r fl d) = DMissing fs v <->
     fs = sort_bytes (ror2_missing fuel t d []) /\ fs <> [] /\ v = ror2_value fuel true t d).
  Proof.
    intros fuel t d fs v Hrec Hok Hsz Hws Hsc. rewrite (ror2_missing_exact fuel t d Hrec Hok Hsz Hws Hsc).
    destruct (ror2_missing fuel t d []) as [|m ms] eqn:Em.
    - split; [discriminate|]. intros [-> [H _]]. contradiction H. reflexivity.
    - split.
      + intros H. injection H as <- <-. split; [reflexivity|]. split; [|reflexivity].
        change (sort_bytes (m :: ms) <> []).
        intros E. pose proof (Permutation_length (sort_bytes_perm (m :: ms))) as HL. rewrite E in HL. discriminate.
      + intros [-> [_ ->]]. reflexivity.
  Qed.

  Corollary ror2_missing_none_iff : forall fuel t d,
    is_record e t = true -> toks_ok d -> rsize d <= fuel -> ror2_well_shaped fuel t d -> scope_ok None d ->
    (ror2_missing fuel t d [] = [] <-> decode_ror2' false fuel None t (render_r fl d) = DOk (ror2_value fuel false t d)).
  Proof.
    intros fuel t d Hrec Hok Hsz Hws Hsc. rewrite (ror2_missing_exact fuel t d Hrec Hok Hsz Hws Hsc).
    destruct (ror2_missing fuel t d []); split; try reflexivity; discriminate.
  Qed.

  (* anything else at the start of the input never raises (finding D33 holds of the ROR2 reader too) *)
  Corollary ror2_top_non_record_never_raises : forall fuel t d,
    is_record e t = false -> toks_ok d -> rsize d <= fuel -> ror2_well_shaped fuel t d -> scope_ok None d ->
    decode_ror2' false fuel None t (render_r fl d) = DOk (ror2_value fuel (negb (is_nilb (ror2_missing fuel t d []))) t d).
  Proof.
    intros fuel t d Hrec Hok Hsz Hws Hsc. rewrite (ror2_decode_exact false fuel None t d Hok Hsz Hws Hsc).
    cbv zeta. cbn [sc_of top_raises negb andb]. rewrite Hrec. destruct (ror2_missing fuel t d []); reflexivity.
  Qed.

  (* the reader of query parameter p (ror2QueryReader: atInputStart is always false): the scope starts at [p], the record does
     not raise itself and fills its defaults; the aggregate (QueryParamsReader.ReadRecord) raises the recorded paths *)
  Theorem ror2_query_param_exact : forall fuel p t d,
    p <> [] -> toks_ok d -> rsize d <= fuel -> ror2_well_shaped fuel t d ->
    decode_ror2' true fuel (Some p) t (render_r fl d) =
    match ror2_missing fuel t d [SKey p] with
    | [] => DOk (ror2_value fuel false t d)
    | ms => DMissing (sort_bytes ms) (ror2_value fuel false t d)
    end.
  Proof.
    intros fuel p t d Hp Hok Hsz Hws. rewrite (ror2_decode_exact true fuel (Some p) t d Hok Hsz Hws Hp).
    cbv zeta. cbn [sc_of top_raises negb andb]. destruct (ror2_missing fuel t d [SKey p]); reflexivity.
  Qed.

  (* ---- same known content, same outcome ---- *)
  Theorem ror2_same_content : forall qr fuel qp t d1 d2,
    toks_ok d1 -> toks_ok d2 -> rsize d1 <= fuel -> rsize d2 <= fuel ->
    ror2_well_shaped fuel t d1 -> sim e fuel t (j_of_r d1) (j_of_r d2) -> scope_ok qp d1 -> scope_ok qp d2 ->
    decode_ror2' qr fuel qp t (render_r fl d1) = decode_ror2' qr fuel qp t (render_r fl d2).
  Proof.
    intros qr fuel qp t d1 d2 Hok1 Hok2 Hs1 Hs2 Hws Hsim Hsc1 Hsc2.
    rewrite (decode_ror2_refines e wildcard ps_empty ignore parseF fl qr fuel qp t d1 Hok1 Hs1).
    rewrite (decode_ror2_refines e wildcard ps_empty ignore parseF fl qr fuel qp t d2 Hok2 Hs2).
    unfold decT. fold (tr_of qp).
    destruct (same_content_same_result_t e wildcard ignore parseF UN EM Hwf fuel (negb qr) t (j_of_r d1) (j_of_r d2) (tr_of qp)
                Hws Hsim (scope_ok_1 qp d1 Hsc1) (scope_ok_2 qp d1 Hsc1) (scope_ok_2 qp d2 Hsc2))
      as (v & tr1 & tr2 & A & B & _ & HP).
    rewrite A, B. apply finish_perm. exact HP.
  Qed.

  Lemma scope_ok_perm qp d1 d2 : rperm d1 d2 -> scope_ok qp d1 -> scope_ok qp d2.
  Proof.
    intros Hp. destruct qp as [p|]; [exact (fun H => H)|]. cbn [scope_ok].
    apply jperm_keys_nonempty. apply rperm_jperm. exact Hp.
  Qed.

  (* the members of every object, at any depth, may come in any order *)
  Theorem ror2_order_independent : forall qr fuel qp t d1 d2,
    toks_ok d1 -> rsize d1 <= fuel -> ror2_well_shaped fuel t d1 -> scope_ok qp d1 -> rperm d1 d2 ->
    decode_ror2' qr fuel qp t (render_r fl d1) = decode_ror2' qr fuel qp t (render_r fl d2).
  Proof.
    intros qr fuel qp t d1 d2 Hok Hsz Hws Hsc Hp.
    apply ror2_same_content; try assumption.
    - apply (rperm_toks d1 d2 Hp Hok).
    - rewrite (rperm_rsize d1 d2 Hp). exact Hsz.
    - apply (jperm_sim_t e parseF UN EM); [exact Hws|apply rperm_jperm; exact Hp].
    - apply (scope_ok_perm qp d1 d2 Hp Hsc).
  Qed.

  (* one more member, of ANY shape, under a key that is not a field of the record (own or inherited): Skip() *)
  Theorem ror2_unknown_fields_skipped : forall qr f qp n incs fs l1 l2 k x,
    lookup e n = Some (DRecord incs fs) -> field_of e n k = None -> ~ In k (map fst (l1 ++ l2)) ->
    toks_ok (RObj (l1 ++ l2)) -> toks_ok x -> rsize (RObj (l1 ++ (k, x) :: l2)) <= S f ->
    ror2_well_shaped (S f) (TRef n) (RObj (l1 ++ l2)) ->
    scope_ok qp (RObj (l1 ++ l2)) -> (qp = None -> k <> []) ->
    decode_ror2' qr (S f) qp (TRef n) (render_r fl (RObj (l1 ++ l2)))
    = decode_ror2' qr (S f) qp (TRef n) (render_r fl (RObj (l1 ++ (k, x) :: l2))).
  Proof.
    intros qr f qp n incs fs l1 l2 k x Hn Hk Hnew Hok Hx Hsz Hws Hsc Hkne.
    assert (Hsz1 : rsize (RObj (l1 ++ l2)) <= S f).
    { assert (H : forall g : bytes * rdoc -> nat, list_sum (map g (l1 ++ l2)) <= list_sum (map g (l1 ++ (k, x) :: l2)))
        by (intros g; rewrite !map_app, !list_sum_app; simpl; lia).
      cbn [rsize] in Hsz |- *. match goal with |- S (S (list_sum (map ?g _))) <= _ => pose proof (H g) end. lia. }
    assert (Hok2 : toks_ok (RObj (l1 ++ (k, x) :: l2))).
    { apply toks_ok_obj. apply toks_ok_obj in Hok. apply Forall_app in Hok as [A B]. apply Forall_app. split; [exact A|].
      constructor; [exact Hx|exact B]. }
    apply ror2_same_content; try assumption.
    - unfold ror2_well_shaped in Hws. rewrite !j_of_r_obj in *. rewrite map_app in Hws. rewrite !map_app. cbn [map].
      change (jentry (k, x)) with (k, j_of_r x).
      apply (unknown_field_sim_t e parseF UN EM n incs fs f _ _ k (j_of_r x) Hn Hk); [|exact Hws].
      rewrite <- map_app, map_map. cbn [jentry fst]. exact Hnew.
    - destruct qp as [p|]; [exact Hsc|]. cbn [scope_ok] in *. rewrite j_of_r_obj in *. cbn [entries_of] in *.
      unfold keys_nonempty in *. rewrite map_app in *. cbn [map]. apply Forall_app in Hsc as [A B]. apply Forall_app. split; [exact A|].
      constructor; [exact (Hkne eq_refl)|exact B].
  Qed.
End Transfer.

(* ---- the trees cover the writer's output: the rendering (Codec/Render.v render_ror2, ror2_writer.go) of any document tree is
   the rendering of an rdoc with well-formed tokens; so everything above applies to what the encoder emits (C01) ---- *)
Section WriterOutput.
  Variable fmtF : bool -> N -> bytes.
  Variable fl : flavour.
  Hypothesis fmtF_nonempty : forall is32 b, fmtF is32 b <> [].

  Local Notation Rw := (render_ror2 fmtF v2_hex_chars v2_unescaped_path_chars v2_unescaped_query_chars v2_header_escaped_chars
                          v2_empty_string v2_list_prefix fl).
  Local Notation Rleafw := (ror2_leaf fmtF v2_hex_chars v2_unescaped_path_chars v2_unescaped_query_chars v2_header_escaped_chars
                              v2_empty_string fl).

  Fixpoint r_of_doc (d : doc) : rdoc :=
    match d with
    | DLeaf l => RLeaf (Rleafw l)
    | DArr items => RArr (map r_of_doc items)
    | DObj ents => RObj (map (fun kx => let '(k, x) := kx in (k, r_of_doc x)) ents)
    end.

  Theorem render_r_of_doc : forall d, render_r fl (r_of_doc d) = Rw d /\ toks_ok (r_of_doc d).
  Proof.
    induction d as [l|ds IH|ents IH] using doc_ind'.
    - split; [reflexivity|]. exact (leaf_tok fmtF fl fmtF_nonempty l).
    - split.
      + rewrite render_arr. cbn [r_of_doc render_r]. do 3 f_equal. rewrite map_map. apply map_ext_in. intros x Hx.
        rewrite Forall_forall in IH. apply (IH x Hx).
      + cbn [r_of_doc]. apply toks_ok_arr. apply Forall_forall. intros x Hx. apply in_map_iff in Hx as [y [<- Hy]].
        rewrite Forall_forall in IH. apply (IH y Hy).
    - split.
      + rewrite render_obj. cbn [r_of_doc render_r]. do 3 f_equal. rewrite map_map. apply map_ext_in. intros [k x] Hx.
        rewrite Forall_forall in IH. cbn [entR]. do 2 f_equal. apply (IH (k, x) Hx).
      + cbn [r_of_doc]. apply toks_ok_obj. apply Forall_forall. intros kx Hx. apply in_map_iff in Hx as [[k y] [<- Hy]].
        rewrite Forall_forall in IH. apply (IH (k, y) Hy).
  Qed.
End WriterOutput.

(* ---- C13 for ROR2 input: the own slots of a decoded record (the analogue of DefaultsProofs.own_slots).  An absent field declared
   [Default lit] holds the JSON decoding of the literal (DefaultsProofs.lit_value: the SAME function as for JSON input), unless
   the record is the one that raises at the start of the input; a present field holds the decoded ROR2 value ---- *)
Section DefaultsT.
  Variable e : env.
  Variables (wildcard : bytes) (ignore : nat).
  Variable parseF : nat -> bytes -> option N.
  Variable unesc : bytes -> option bytes.
  Variable empty_marker : bytes.
  Hypothesis Hwf : wf_schema e.

  Notation dspec := (decode_spec_t e wildcard ignore parseF unesc empty_marker).
  Notation decTj' := (decTj e wildcard ps_empty ignore parseF unesc empty_marker).
  Notation mix f := (mixDJ e wildcard ps_empty ignore parseF (decTj' f false) f).

  Definition own_slot_spec_t (f : nat) (filled : bool) (es : list (bytes * jdoc)) (fd : field) : option value :=
    match present es (f_name fd) with
    | Some x => Some (dspec f false (f_ty fd) x)
    | None =>
        match f_opt fd with
        | Required => Some (zero_value e (S (length e)) (f_ty fd))
        | Optional => None
        | Default lit => if filled then DefaultsProofs.lit_value e wildcard ignore parseF f (f_ty fd) lit else None
        end
    end.

  Lemma own_slots_t n incs fs f (raising : bool) d : lookup e n = Some (DRecord incs fs) ->
    exists ivs fvs,
      dspec (S f) raising (TRef n) d = VRec ivs fvs /\ length fvs = length fs /\
      forall j fd, nth_error fs j = Some fd ->
        nth_error fvs j = Some (own_slot_spec_t f (negb raising) (entries_of d) fd).
  Proof.
    intros Hn. destruct (Hwf n incs fs Hn) as [_ HndF].
    cbn [decode_spec_t val_step]. rewrite Hn. cbn [rec_upd zero_value]. rewrite Hn.
    set (look := look_of e (dspec f false) n (entries_of d)).
    set (zs := fun fd : field => if is_required (f_opt fd) then Some (zero_value e (S (length e)) (f_ty fd)) else None).
    set (ivs := map2 _ incs _).
    assert (Hslot : forall j fd, nth_error fs j = Some fd ->
              nth_error (map2 (slot_upd look) fs (map zs fs)) j =
              Some (match present (entries_of d) (f_name fd) with
                    | Some x => Some (dspec f false (f_ty fd) x)
                    | None => zs fd
                    end)).
    { intros j fd Hj. rewrite nth_error_map2_map, Hj. simpl. f_equal. unfold slot_upd, look, look_of.
      destruct (present (entries_of d) (f_name fd)) as [x|]; [|reflexivity].
      rewrite field_of_eq. rewrite (find_unique (f_name fd) (fields_of e n) fd HndF); [reflexivity| |reflexivity].
      unfold fields_of. cbn [all_fields]. rewrite Hn. apply in_or_app. right. apply nth_error_In in Hj. exact Hj. }
    assert (Hlen : length (map2 (slot_upd look) fs (map zs fs)) = length fs).
    { rewrite map2_length; rewrite map_length; reflexivity. }
    destruct (raising || negb (own_has_default fs)) eqn:Eb.
    - exists ivs, (map2 (slot_upd look) fs (map zs fs)). split; [reflexivity|]. split; [exact Hlen|].
      intros j fd Hj. rewrite (Hslot j fd Hj). f_equal. unfold own_slot_spec_t.
      destruct (present (entries_of d) (f_name fd)); [reflexivity|]. unfold zs.
      destruct (f_opt fd) as [| |lit] eqn:Eo; simpl; try reflexivity.
      destruct raising; simpl; [reflexivity|]. simpl in Eb. apply negb_true_iff in Eb. exfalso.
      unfold own_has_default in Eb. apply nth_error_In in Hj.
      assert (Hex : existsb (fun fd => has_default (f_opt fd)) fs = true)
        by (apply existsb_exists; exists fd; split; [exact Hj|rewrite Eo; reflexivity]).
      congruence.
    - apply orb_false_iff in Eb as [-> _]. simpl negb.
      exists ivs, (fill_defaultsS (mix f) fs (map2 (slot_upd look) fs (map zs fs))).
      split; [reflexivity|]. split; [rewrite DefaultsProofs.fill_length; exact Hlen|].
      intros j fd Hj. rewrite (nth_error_fill (mix f) fs _ j Hlen), Hj, (Hslot j fd Hj). f_equal.
      unfold fill_slot, own_slot_spec_t. destruct (present (entries_of d) (f_name fd)); [reflexivity|]. unfold zs.
      destruct (f_opt fd) as [| |lit]; simpl; reflexivity.
  Qed.
End DefaultsT.

(* on ROR2 input, through either reader: the value returned by decode_ror2 (ror2_decode_exact) is [ror2_value fuel raising t d]
   with raising = "NewRor2Reader, and some path is missing"; its own slots *)
Theorem ror2_own_slots : forall e wildcard ignore parseF fl, wf_schema e ->
  forall n incs fs f raising d, lookup e n = Some (DRecord incs fs) ->
  exists ivs fvs,
    ror2_value e wildcard ignore parseF fl (S f) raising (TRef n) d = VRec ivs fvs /\ length fvs = length fs /\
    forall j fd, nth_error fs j = Some fd ->
      nth_error fvs j = Some (own_slot_spec_t e wildcard ignore parseF (unescape (plus_of fl)) v2_empty_string f (negb raising)
                                (entries_of (j_of_r d)) fd).
Proof.
  intros e wildcard ignore parseF fl Hwf n incs fs f raising d Hn. unfold ror2_value.
  apply (own_slots_t e wildcard ignore parseF (unescape (plus_of fl)) v2_empty_string Hwf n incs fs f raising (j_of_r d) Hn).
Qed.

Lemma wf_rdoc_toks d : wf_rdoc d -> toks_ok d.
Proof. intros [H _]. exact H. Qed.

(* ===========================================================================================================================
   witnesses: non-vacuity, and the two places where the unrestricted statements fail for ROR2 exactly as they do for JSON
   (schema and oracles of MissingProofs: c06_env, c06_pf)
   =========================================================================================================================== *)
From Coq.Strings Require Import String.
Local Open Scope string_scope.

Definition r06_leaf (s : string) : rdoc := RLeaf (c06_b s).
(* unknown member "zz" of array shape with a nested map, array of records, string, map with an empty record, union; the inherited
   required field "a", "x", the nested "a"s are absent; optional and defaulted fields absent *)
Definition r06_doc : rdoc :=
  RObj [ (c06_b "zz", RArr [r06_leaf "1"; RObj [(c06_b "q", r06_leaf "x")]; RArr []]);
         (c06_b "l", RArr [RObj [(c06_b "a", r06_leaf "1")]; RObj [(c06_b "c", r06_leaf "3")]]);
         (c06_b "b", r06_leaf "s%20t");
         (c06_b "m", RObj [(c06_b "k", RObj [])]);
         (c06_b "u", RObj [(c06_b "t.Inner", RObj [(c06_b "b", r06_leaf "''")])]) ].
Definition r06_text : string := "(zz:List(1,(q:x),List()),l:List((a:1),(c:3)),b:s%20t,m:(k:()),u:(t.Inner:(b:'')))".
(* the same content: members permuted at two depths, the unknown member dropped *)
Definition r06_doc_perm : rdoc :=
  RObj [ (c06_b "u", RObj [(c06_b "t.Inner", RObj [(c06_b "b", r06_leaf "''")])]);
         (c06_b "m", RObj [(c06_b "k", RObj [])]);
         (c06_b "b", r06_leaf "s%20t");
         (c06_b "l", RArr [RObj [(c06_b "a", r06_leaf "1")]; RObj [(c06_b "c", r06_leaf "3")]]) ].

Lemma r06_render : forall fl, render_r fl r06_doc = c06_b r06_text.
Proof. intros []; vm_compute; reflexivity. Qed.

Lemma r06_wf_doc : wf_rdoc r06_doc.
Proof.
  split.
  - cbn. unfold tokfree4. repeat split; try discriminate; intros d [<-|[<-|[<-|[<-|[]]]]]; reflexivity.
  - cbn. repeat split; c06_nd.
Qed.

Lemma r06_ws_doc : forall fl, ror2_well_shaped c06_env c06_pf fl 8 (TRef 1) r06_doc.
Proof. intros fl. unfold ror2_well_shaped. apply ws_checkb_sound. destruct fl; vm_compute; reflexivity. Qed.

Lemma r06_scope : scope_ok None r06_doc.
Proof. cbn. repeat (constructor; [discriminate|]). constructor. Qed.

Definition r06_missing : list bytes := List.map c06_b ["a"; "l[0].c"; "l[1].a"; "m.k.a"; "u.t.Inner.a"; "x"]%list.

Lemma ror2_missing_example : forall fl,
  decode_ror2 c06_env c06_star ps_empty 0 c06_pf (unescape (plus_of fl)) v2_empty_string v2_list_prefix false 8 None (TRef 1)
    (c06_b r06_text)
  = DMissing (List.map c06_b ["a"; "l[1].a"; "m.k.a"; "u.t.Inner.a"; "x"]%list)
      (VRec [VRec [] [Some (VInt 0); Some (VStr (c06_b "s t")); None]]
         [Some (VRec [] [Some (VInt 0); None; None]);
          Some (VArr [VRec [] [Some (VInt 1); None; Some (VInt 7)]; VRec [] [Some (VInt 0); None; Some (VInt 3)]]);
          Some (VMap [(c06_b "k", VRec [] [Some (VInt 0); None; Some (VInt 7)])]);
          Some (VUnion [Some (VRec [] [Some (VInt 0); Some (VStr []); Some (VInt 7)]); None])])
  /\ sort_bytes (ror2_missing c06_env 8 (TRef 1) r06_doc []) = List.map c06_b ["a"; "l[1].a"; "m.k.a"; "u.t.Inner.a"; "x"]%list.
Proof. intros []; vm_compute; split; reflexivity. Qed.

(* the hypotheses of the theorems are satisfiable together (a tree with an unknown member of nested shape, five missing paths at
   four kinds of position); permuting members at two depths and dropping the unknown member changes nothing; the query-parameter
   reader records the same paths below the parameter name and fills the defaults *)
Lemma ror2_nonvacuous : forall fl,
  wf_schema c06_env /\ is_record c06_env (TRef 1) = true /\ wf_rdoc r06_doc /\ rsize r06_doc <= 40 /\
  ror2_well_shaped c06_env c06_pf fl 8 (TRef 1) r06_doc /\ scope_ok None r06_doc /\
  render_r fl r06_doc = c06_b r06_text /\
  sort_bytes (ror2_missing c06_env 8 (TRef 1) r06_doc []) = List.map c06_b ["a"; "l[1].a"; "m.k.a"; "u.t.Inner.a"; "x"]%list /\
  (exists v, decode_ror2 c06_env c06_star ps_empty 0 c06_pf (unescape (plus_of fl)) v2_empty_string v2_list_prefix false 40 None
               (TRef 1) (render_r fl r06_doc)
             = DMissing (List.map c06_b ["a"; "l[1].a"; "m.k.a"; "u.t.Inner.a"; "x"]%list) v) /\
  decode_ror2 c06_env c06_star ps_empty 0 c06_pf (unescape (plus_of fl)) v2_empty_string v2_list_prefix false 40 None
    (TRef 1) (render_r fl r06_doc_perm)
  = decode_ror2 c06_env c06_star ps_empty 0 c06_pf (unescape (plus_of fl)) v2_empty_string v2_list_prefix false 40 None
      (TRef 1) (render_r fl r06_doc) /\
  (exists v, decode_ror2 c06_env c06_star ps_empty 0 c06_pf (unescape (plus_of fl)) v2_empty_string v2_list_prefix true 40
               (Some (c06_b "p")) (TRef 1) (render_r fl r06_doc)
             = DMissing (List.map c06_b ["p.a"; "p.l[1].a"; "p.m.k.a"; "p.u.t.Inner.a"; "p.x"]%list) v).
Proof.
  intros fl. split; [exact c06_wf|]. split; [reflexivity|]. split; [exact r06_wf_doc|]. split; [vm_compute; lia|].
  split; [apply r06_ws_doc|]. split; [exact r06_scope|]. split; [apply r06_render|].
  split; [vm_compute; reflexivity|]. split; [|split].
  - eexists. destruct fl; vm_compute; reflexivity.
  - destruct fl; vm_compute; reflexivity.
  - eexists. destruct fl; vm_compute; reflexivity.
Qed.

(* ---- the unrestricted statements, false for ROR2 exactly as for JSON ---- *)
(* [ror2_missing_exact] without "t is a record" (finding D33) *)
Definition ror2_missing_exact_full : Prop :=
  forall e wildcard ignore parseF fl, wf_schema e ->
  forall fuel t d, toks_ok d -> rsize d <= fuel -> ror2_well_shaped e parseF fl fuel t d -> scope_ok None d ->
    decode_ror2 e wildcard ps_empty ignore parseF (unescape (plus_of fl)) v2_empty_string v2_list_prefix false fuel None t
      (render_r fl d) =
    match ror2_missing e fuel t d [] with
    | [] => DOk (ror2_value e wildcard ignore parseF fl fuel false t d)
    | ms => DMissing (sort_bytes ms) (ror2_value e wildcard ignore parseF fl fuel true t d)
    end.

Definition r06_arr : rdoc := RArr [RObj []; RObj [(c06_b "a", r06_leaf "1")]].     (* List((),(a:1)) *)

Lemma ror2_top_level_non_record_witness :
  render_r FPath r06_arr = c06_b "List((),(a:1))" /\
  decode_ror2 c06_env c06_star ps_empty 0 c06_pf (unescape false) v2_empty_string v2_list_prefix false 8 None (TArray (TRef 0))
    (c06_b "List((),(a:1))")
  = DOk (VArr [VRec [] [Some (VInt 0); None; Some (VInt 7)]; VRec [] [Some (VInt 1); None; Some (VInt 7)]])
  /\ ror2_missing c06_env 8 (TArray (TRef 0)) r06_arr [] = [c06_b "[0].a"].
Proof. vm_compute. repeat split; reflexivity. Qed.

Theorem ror2_missing_exact_full_refuted : ~ ror2_missing_exact_full.
Proof.
  intros H. specialize (H c06_env c06_star 0 c06_pf FPath c06_wf 8 (TArray (TRef 0)) r06_arr).
  assert (Hok : toks_ok r06_arr).
  { cbn. unfold tokfree4. repeat split; try discriminate. intros d [<-|[<-|[<-|[<-|[]]]]]; reflexivity. }
  assert (Hw : ror2_well_shaped c06_env c06_pf FPath 8 (TArray (TRef 0)) r06_arr) by (unfold ror2_well_shaped; apply ws_checkb_sound; vm_compute; reflexivity).
  specialize (H Hok ltac:(vm_compute; lia) Hw ltac:(constructor)). vm_compute in H. discriminate.
Qed.

(* [ror2_decode_exact] without [scope_ok]: below the lone empty key '' at the start of the input the dot is dropped *)
Definition ror2_paths_exact_full : Prop :=
  forall e wildcard ignore parseF fl, wf_schema e ->
  forall fuel t d v s, toks_ok d -> rsize d <= fuel -> ror2_well_shaped e parseF fl fuel t d ->
    decR e wildcard ps_empty ignore parseF (unescape (plus_of fl)) v2_empty_string v2_list_prefix false fuel t
      (rinit (render_r fl d) tracker0) = Ok (v, s) ->
    Permutation (t_missing (r_tr s)) (ror2_missing e fuel t d []).

Definition r06_empty_key : rdoc := RObj [([], RObj [])].     (* ('':()) *)

Lemma ror2_empty_key_witness :
  render_r FPath r06_empty_key = c06_b "('':())" /\
  decR c06_env c06_star ps_empty 0 c06_pf (unescape false) v2_empty_string v2_list_prefix false 8 (TMap (TRef 0))
    (rinit (c06_b "('':())") tracker0)
  = Ok (VMap [([], VRec [] [Some (VInt 0); None; Some (VInt 7)])], cur true [] {| t_scope := []; t_missing := [c06_b "a"] |})
  /\ ror2_missing c06_env 8 (TMap (TRef 0)) r06_empty_key [] = [c06_b ".a"].
Proof. vm_compute. repeat split; reflexivity. Qed.

Theorem ror2_paths_exact_full_refuted : ~ ror2_paths_exact_full.
Proof.
  intros H.
  assert (Hw : ror2_well_shaped c06_env c06_pf FPath 8 (TMap (TRef 0)) r06_empty_key) by (unfold ror2_well_shaped; apply ws_checkb_sound; vm_compute; reflexivity).
  specialize (H c06_env c06_star 0 c06_pf FPath c06_wf 8 (TMap (TRef 0)) r06_empty_key _ _ ltac:(exact (conj I I))
                ltac:(vm_compute; lia) Hw (proj1 (proj2 ror2_empty_key_witness))).
  vm_compute in H. apply Permutation_length_1_inv in H. discriminate.
Qed.

(* after an array item / map entry of a rendered sequence: ',' continues with the remaining members, ')' ends *)
Lemma read_after_seq (r : list bytes) rest tr :
  read_after (cur true (seq_tail r rest) tr)
  = Ok (match r with [] => Done (cur true rest tr) | _ => Continue (cur true (seq_r r rest) tr) end).
Proof. destruct r; reflexivity. Qed.

(* R3 on concrete inputs, both sides computed independently: a union with two members (both readers stop with the union error at
   the second member), a string where a record is expected, a composite where an int is expected, and a value followed by more
   input (the cursor lands exactly after the rendering) *)
Lemma ror2_refines_example :
  let dR := decR c06_env c06_star ps_empty 0 c06_pf (unescape false) v2_empty_string v2_list_prefix false 8 in
  let dT := decT c06_env c06_star ps_empty 0 c06_pf (unescape false) v2_empty_string 8 in
  let two := RObj [(c06_b "int", r06_leaf "1"); (c06_b "t.Inner", RObj [])] in
  let more := c06_b ",x:1)" in
  dR (TRef 2) (rinit (render_r FPath two) tracker0) = Err EUnion /\ dT true (TRef 2) two tracker0 = Err EUnion /\
  dR (TRef 0) (rinit (render_r FPath (r06_leaf "abc")) tracker0) = Err EDeser /\ dT true (TRef 0) (r06_leaf "abc") tracker0 = Err EDeser /\
  dR (TPrim PInt) (cur true (render_r FPath r06_arr ++ more)%list tracker0) = Err EDeser /\
  dT false (TPrim PInt) r06_arr tracker0 = Err EDeser /\
  dR (TArray (TRef 0)) (cur true (render_r FPath r06_arr ++ more)%list tracker0)
  = Ok (VArr [VRec [] [Some (VInt 0); None; Some (VInt 7)]; VRec [] [Some (VInt 1); None; Some (VInt 7)]],
        cur true more {| t_scope := []; t_missing := [c06_b "[0].a"] |}) /\
  dT false (TArray (TRef 0)) r06_arr tracker0
  = Ok (VArr [VRec [] [Some (VInt 0); None; Some (VInt 7)]; VRec [] [Some (VInt 1); None; Some (VInt 7)]],
        {| t_scope := []; t_missing := [c06_b "[0].a"] |}).
Proof. vm_compute. repeat split; reflexivity. Qed.
