(* C07, part 1 and 2: PathSpec (restlicodec/pathspec.go) against an independent declarative specification, and the
   reader-side use of it (missing_fields.go).  The model (Codec/Doc.v, Codec/Tracker.v) is not touched.

   Reading guide
   -------------
   effective path      the path "as the matcher sees it": wherever a segment is expected, ONE leading patch operator
                       ($set / $delete) is dropped and the segment after it is taken literally (even if it is itself
                       "$set"); a dangling operator at the very end is dropped.
   covers d q          directive d (wildcard = any one segment) equals, segment by segment, a PREFIX of q.
   dmatch d path       covers d (effective path).
   spec_excludes       some directive of the set dmatch-es the path.
   shadowed ds d       d is a strict (literal) prefix of another directive of ds: NewPathSpec turns d's leaf into an
                       inner node, so d stops excluding anything (D21).
   matches_iff_maximal EXACT characterisation, no premise: the code excludes exactly what the non-empty, non-shadowed
                       directives exclude.
   well_formed         every directive is covered by a non-empty non-shadowed one; proved to be EQUIVALENT to
                       "ps_matches agrees with spec_excludes on every path" (so it is the weakest premise). *)
From Coq Require Import List Bool Arith Lia.
From Coq.Strings Require Import Byte.
From GR Require Import Base.Bytes Base.Res Codec.Doc Codec.Tracker.
Import ListNotations.

(* NewPathSpec on directives already split into segments *)
Definition new_pathspec' (ds : list (list bytes)) : pathspec :=
  fold_left (fun p d => ps_insert d p) ds ps_empty.

Definition segments (d : bytes) : list bytes := split_on x2f (trim_slash d).

Lemma new_pathspec_segments ds : new_pathspec ds = new_pathspec' (map segments ds).
Proof.
  unfold new_pathspec, new_pathspec'. generalize ps_empty.
  induction ds as [|d ds IH]; intros p; simpl; [reflexivity|]. apply IH.
Qed.

(* ------------------------------------------------------------------------------------------------------------- *)
(* The specification                                                                                               *)
(* ------------------------------------------------------------------------------------------------------------- *)

(* the path as seen by the matcher *)
Fixpoint effective (path : list bytes) : list bytes :=
  match path with
  | [] => []
  | a :: rest =>
      if is_patch_op a then
        match rest with
        | [] => []
        | b :: rest' => b :: effective rest'
        end
      else a :: effective rest
  end.

(* the naive reading of "patch operators are not counted" *)
Definition strip_ops (path : list bytes) : list bytes := filter (fun s => negb (is_patch_op s)) path.

(* no patch operator is directly followed by another one *)
Fixpoint no_double_op (path : list bytes) : bool :=
  match path with
  | [] => true
  | a :: rest =>
      match rest with
      | [] => true
      | b :: _ => negb (is_patch_op a && is_patch_op b) && no_double_op rest
      end
  end.

Definition prefix (x d : list bytes) : Prop := exists t, d = x ++ t.
Definition strict_prefix (x d : list bytes) : Prop := exists t, t <> [] /\ d = x ++ t.

Section Spec.
  Variable wc : bytes.

  Definition seg_ok (s x : bytes) : Prop := s = wc \/ s = x.

  Inductive covers : list bytes -> list bytes -> Prop :=
  | cov_nil : forall q, covers [] q
  | cov_cons : forall s d x q, seg_ok s x -> covers d q -> covers (s :: d) (x :: q).

  Definition dmatch (d path : list bytes) : Prop := covers d (effective path).

  Definition spec_excludes (ds : list (list bytes)) (path : list bytes) : Prop :=
    exists d, In d ds /\ dmatch d path.

  Definition shadowed (ds : list (list bytes)) (d : list bytes) : Prop :=
    exists d', In d' ds /\ strict_prefix d d'.

  Definition maximal_excludes (ds : list (list bytes)) (path : list bytes) : Prop :=
    exists d, In d ds /\ d <> [] /\ ~ shadowed ds d /\ dmatch d path.

  Definition well_formed (ds : list (list bytes)) : Prop :=
    forall d, In d ds -> exists d', In d' ds /\ d' <> [] /\ ~ shadowed ds d' /\ covers d' d.

  Definition prefix_free (ds : list (list bytes)) : Prop :=
    forall d d', In d ds -> In d' ds -> ~ strict_prefix d d'.
  Definition no_empty (ds : list (list bytes)) : Prop := forall d, In d ds -> d <> [].
  Definition no_wildcard (ds : list (list bytes)) : Prop := forall d s, In d ds -> In s d -> s <> wc.
End Spec.

(* ------------------------------------------------------------------------------------------------------------- *)
(* effective / covers                                                                                              *)
(* ------------------------------------------------------------------------------------------------------------- *)

Lemma no_double_op_cons2 a b r :
  no_double_op (a :: b :: r) = negb (is_patch_op a && is_patch_op b) && no_double_op (b :: r).
Proof. reflexivity. Qed.

Lemma no_double_op_tail a rest : no_double_op (a :: rest) = true -> no_double_op rest = true.
Proof.
  destruct rest as [|b r]; [reflexivity|]. rewrite no_double_op_cons2. intros H.
  apply andb_true_iff in H as [_ H]. exact H.
Qed.

Lemma effective_eq_strip path : no_double_op path = true -> effective path = strip_ops path.
Proof.
  remember (length path) as n eqn:Hn. revert path Hn.
  induction n as [n IH] using lt_wf_ind. intros path Hn H.
  destruct path as [|a rest]; [reflexivity|].
  unfold strip_ops. simpl effective. simpl filter.
  destruct (is_patch_op a) eqn:Ea; simpl negb; cbv iota.
  - destruct rest as [|b rest']; [reflexivity|].
    pose proof (no_double_op_tail _ _ H) as Hr.
    rewrite no_double_op_cons2, Ea in H.
    destruct (is_patch_op b) eqn:Eb; [discriminate|].
    simpl filter. rewrite Eb. simpl negb. cbv iota. f_equal.
    apply (IH (length rest')); [simpl in Hn; lia|reflexivity|exact (no_double_op_tail _ _ Hr)].
  - f_equal. apply (IH (length rest)); [simpl in Hn; lia|reflexivity|exact (no_double_op_tail _ _ H)].
Qed.

Lemma effective_app path more : exists t, effective (path ++ more) = effective path ++ t.
Proof.
  remember (length path) as n eqn:Hn. revert path Hn.
  induction n as [n IH] using lt_wf_ind. intros path Hn.
  destruct path as [|a rest].
  - exists (effective more). reflexivity.
  - simpl app. simpl effective. destruct (is_patch_op a) eqn:Ea.
    + destruct rest as [|b rest'].
      * simpl app. exists (match more with [] => [] | b :: r => b :: effective r end). reflexivity.
      * simpl app. destruct (IH (length rest')) with (path := rest') as [t Ht]; [simpl in Hn; lia|reflexivity|].
        exists t. rewrite Ht. reflexivity.
    + destruct (IH (length rest)) with (path := rest) as [t Ht]; [simpl in Hn; lia|reflexivity|].
      exists t. rewrite Ht. reflexivity.
Qed.

(* a path on which the matcher sees exactly d *)
Fixpoint canon (d : list bytes) : list bytes :=
  match d with
  | [] => []
  | s :: r => if is_patch_op s then op_set :: s :: canon r else s :: canon r
  end.

Lemma effective_canon d : effective (canon d) = d.
Proof.
  induction d as [|s r IH]; [reflexivity|]. simpl canon.
  destruct (is_patch_op s) eqn:E.
  - change (effective (op_set :: s :: canon r)) with (s :: effective (canon r)). rewrite IH. reflexivity.
  - simpl effective. rewrite E, IH. reflexivity.
Qed.

Section CoversFacts.
  Variable wc : bytes.
  Notation covers := (covers wc).
  Notation seg_ok := (seg_ok wc).

  Lemma covers_refl d : covers d d.
  Proof. induction d; constructor; [right; reflexivity|assumption]. Qed.

  Lemma covers_app d q more : covers d q -> covers d (q ++ more).
  Proof. induction 1; simpl; constructor; assumption. Qed.

  Lemma covers_trans a b c : covers a b -> covers b c -> covers a c.
  Proof.
    intros H. revert c. induction H as [|s d x q Hs H IH]; intros c Hc; [constructor|].
    inversion Hc as [|s' d' x' q' Hs' Hc']; subst. constructor; [|apply IH; assumption].
    destruct Hs as [->| ->]; [left; reflexivity|]. exact Hs'.
  Qed.

  Lemma covers_nil_r d : covers d [] -> d = [].
  Proof. inversion 1; reflexivity. Qed.

  (* corner (c): a wildcard met in the PATH (array scope) is matched by a wildcard directive segment only *)
  Lemma seg_ok_wild_path s : seg_ok s wc <-> s = wc.
  Proof. split; [intros [H|H]; exact H | intros H; left; exact H]. Qed.

  (* without wildcards, covering is being a literal prefix *)
  Lemma covers_literal d' d : (forall s, In s d' -> s <> wc) -> covers d' d -> prefix d' d.
  Proof.
    intros Hw H. induction H as [|s d0 x q Hs H IH].
    - exists q. reflexivity.
    - destruct IH as [t Ht]; [intros s' Hin; apply Hw; right; exact Hin|].
      destruct Hs as [Hs|Hs]; [exfalso; apply (Hw s); [left; reflexivity|exact Hs]|].
      subst. exists t. reflexivity.
  Qed.
End CoversFacts.

(* The same relation as a direct inductive definition on the raw path: the directive is consumed segment by segment;
   where a segment is expected, a patch operator FOLLOWED BY SOMETHING is skipped and the segment after it is compared
   literally. *)
Section Inductive_dmatch.
  Variable wc : bytes.
  Inductive dmatchI : list bytes -> list bytes -> Prop :=
  | dmi_nil : forall path, dmatchI [] path
  | dmi_seg : forall s d x path,
      is_patch_op x = false -> seg_ok wc s x -> dmatchI d path -> dmatchI (s :: d) (x :: path)
  | dmi_skip : forall s d o x path,
      is_patch_op o = true -> seg_ok wc s x -> dmatchI d path -> dmatchI (s :: d) (o :: x :: path).

  Lemma dmatch_iff_inductive d path : dmatch wc d path <-> dmatchI d path.
  Proof.
    unfold dmatch. split.
    - remember (length path) as n eqn:Hn. revert path Hn d.
      induction n as [n IH] using lt_wf_ind. intros path Hn d H.
      destruct d as [|s d']; [constructor|].
      destruct path as [|a rest]; [inversion H|].
      simpl effective in H. destruct (is_patch_op a) eqn:Ea.
      + destruct rest as [|b rest']; [inversion H|].
        inversion H as [|s0 d0 x0 q0 Hs Hc]; subst.
        apply dmi_skip; [exact Ea|exact Hs|]. apply (IH (length rest')); [simpl in *; lia|reflexivity|exact Hc].
      + inversion H as [|s0 d0 x0 q0 Hs Hc]; subst.
        apply dmi_seg; [exact Ea|exact Hs|]. apply (IH (length rest)); [simpl in *; lia|reflexivity|exact Hc].
    - induction 1 as [path|s d x path Hx Hs H IH|s d o x path Ho Hs H IH].
      + constructor.
      + simpl effective. rewrite Hx. constructor; assumption.
      + change (effective (o :: x :: path)) with (if is_patch_op o then x :: effective path else o :: effective (x :: path)).
        rewrite Ho. constructor; assumption.
  Qed.
End Inductive_dmatch.

(* ------------------------------------------------------------------------------------------------------------- *)
(* The trie NewPathSpec builds                                                                                     *)
(* ------------------------------------------------------------------------------------------------------------- *)

(* d leads from the root of p to a node / to a node without children *)
Fixpoint tnode (p : pathspec) (d : list bytes) : Prop :=
  match d with
  | [] => True
  | s :: r => match ps_find s (ps_children p) with Some sub => tnode sub r | None => False end
  end.
Fixpoint tleaf (p : pathspec) (d : list bytes) : Prop :=
  match d with
  | [] => ps_children p = []
  | s :: r => match ps_find s (ps_children p) with Some sub => tleaf sub r | None => False end
  end.

Lemma bytes_eqb_sym a b : bytes_eqb a b = bytes_eqb b a.
Proof.
  destruct (bytes_eqb a b) eqn:E; symmetry.
  - apply bytes_eqb_eq in E. subst. apply bytes_eqb_refl.
  - apply bytes_eqb_neq in E. apply bytes_eqb_neq. intros H; apply E; symmetry; exact H.
Qed.

Lemma ps_find_map_same s F cs sub :
  ps_find s cs = Some sub ->
  ps_find s (map (fun kv : bytes * pathspec => if bytes_eqb (fst kv) s then (fst kv, F (snd kv)) else kv) cs) = Some (F sub).
Proof.
  induction cs as [|[k v] cs IH]; simpl; [discriminate|].
  rewrite (bytes_eqb_sym k s). destruct (bytes_eqb s k) eqn:E; simpl.
  - rewrite E. intros H; injection H as ->. reflexivity.
  - rewrite E. exact IH.
Qed.

Lemma ps_find_map_other k s F cs :
  k <> s ->
  ps_find k (map (fun kv : bytes * pathspec => if bytes_eqb (fst kv) s then (fst kv, F (snd kv)) else kv) cs) = ps_find k cs.
Proof.
  intros Hne. induction cs as [|[k' v] cs IH]; simpl; [reflexivity|].
  destruct (bytes_eqb k' s) eqn:E; simpl.
  - apply bytes_eqb_eq in E. subst k'.
    assert (N : bytes_eqb k s = false) by (apply bytes_eqb_neq; exact Hne). rewrite N. exact IH.
  - destruct (bytes_eqb k k'); [reflexivity|exact IH].
Qed.

Lemma ps_find_app k cs l :
  ps_find k (cs ++ l) = match ps_find k cs with Some v => Some v | None => ps_find k l end.
Proof.
  induction cs as [|[k' v] cs IH]; simpl; [reflexivity|]. destruct (bytes_eqb k k'); [reflexivity|exact IH].
Qed.

Lemma prefix_nil_l d : prefix [] d.
Proof. exists d. reflexivity. Qed.
Lemma prefix_nil_r x : prefix x [] <-> x = [].
Proof.
  split; [|intros ->; apply prefix_nil_l]. intros [t H]. destruct x; [reflexivity|discriminate].
Qed.
Lemma prefix_cons a x b d : prefix (a :: x) (b :: d) <-> a = b /\ prefix x d.
Proof.
  split.
  - intros [t H]. simpl in H. injection H as -> ->. split; [reflexivity|exists t; reflexivity].
  - intros [-> [t ->]]. exists t. reflexivity.
Qed.

Lemma tnode_empty x : tnode ps_empty x <-> x = [].
Proof. destruct x; simpl; split; intros H; try reflexivity; try contradiction; try exact I; discriminate. Qed.

Lemma tnode_insert d : forall p x, tnode (ps_insert d p) x <-> tnode p x \/ prefix x d.
Proof.
  induction d as [|s r IH]; intros p x.
  - simpl ps_insert. rewrite prefix_nil_r. split; [intros H; left; exact H|].
    intros [H|H]; [exact H|subst; exact I].
  - destruct x as [|k x'].
    + simpl. split; [intros _; left; exact I|intros _; exact I].
    + rewrite prefix_cons. simpl ps_insert.
      destruct (ps_find s (ps_children p)) as [sub|] eqn:Fs.
      * simpl tnode. destruct (bytes_eqb k s) eqn:Eks.
        -- apply bytes_eqb_eq in Eks. subst k.
           rewrite (ps_find_map_same s (ps_insert r) _ sub Fs), Fs. rewrite IH.
           split; [intros [H|H]; [left; exact H|right; split; [reflexivity|exact H]] | intros [H|[_ H]]; [left; exact H|right; exact H]].
        -- apply bytes_eqb_neq in Eks. rewrite (ps_find_map_other k s (ps_insert r) _ Eks).
           split; [intros H; left; exact H|]. intros [H|[H _]]; [exact H|contradiction].
      * simpl tnode. rewrite ps_find_app. destruct (bytes_eqb k s) eqn:Eks.
        -- apply bytes_eqb_eq in Eks. subst k. rewrite Fs. simpl ps_find. rewrite bytes_eqb_refl.
           rewrite IH, tnode_empty.
           split; [intros [H|H]; [subst; right; split; [reflexivity|apply prefix_nil_l]|right; split; [reflexivity|exact H]]|].
           intros [H|[_ H]]; [contradiction|right; exact H].
        -- simpl ps_find. rewrite Eks. apply bytes_eqb_neq in Eks.
           destruct (ps_find k (ps_children p)) as [sub|]; (split; [intros H; left; exact H|]);
             (intros [H|[H _]]; [exact H|contradiction]).
Qed.

Lemma tnode_fold ds : forall p x,
  tnode (fold_left (fun p d => ps_insert d p) ds p) x <-> tnode p x \/ exists d, In d ds /\ prefix x d.
Proof.
  induction ds as [|d ds IH]; intros p x; simpl fold_left.
  - split; [intros H; left; exact H|]. intros [H|[d [[] _]]]. exact H.
  - rewrite IH, tnode_insert. split.
    + intros [[H|H]|[d' [Hin H]]]; [left; exact H|right; exists d; split; [left; reflexivity|exact H]|].
      right; exists d'; split; [right; exact Hin|exact H].
    + intros [H|[d' [[->|Hin] H]]]; [left; left; exact H|left; right; exact H|].
      right; exists d'; split; assumption.
Qed.

Lemma tnode_new ds x : tnode (new_pathspec' ds) x <-> x = [] \/ exists d, In d ds /\ prefix x d.
Proof. unfold new_pathspec'. rewrite tnode_fold, tnode_empty. reflexivity. Qed.

Lemma tleaf_iff d : forall p, tleaf p d <-> tnode p d /\ forall s, ~ tnode p (d ++ [s]).
Proof.
  induction d as [|s r IH]; intros p.
  - simpl. split.
    + intros H. split; [exact I|]. intros s. rewrite H. simpl. intros F; exact F.
    + intros [_ H]. destruct (ps_children p) as [|[k v] cs]; [reflexivity|].
      exfalso. apply (H k). simpl. rewrite bytes_eqb_refl. exact I.
  - simpl. destruct (ps_find s (ps_children p)) as [sub|].
    + apply IH.
    + split; [contradiction|intros [F _]; exact F].
Qed.

(* the leaves of the trie are exactly the non-empty non-shadowed directives *)
Lemma tleaf_new ds d : d <> [] -> (tleaf (new_pathspec' ds) d <-> In d ds /\ ~ shadowed ds d).
Proof.
  intros Hne. rewrite tleaf_iff. split.
  - intros [Hn Hs]. apply tnode_new in Hn. destruct Hn as [Hn|[d' [Hin [t Ht]]]]; [contradiction|].
    assert (Hsh : ~ shadowed ds d).
    { intros [d2 [Hin2 [t2 [Hne2 H2]]]]. destruct t2 as [|s t2]; [contradiction|].
      apply (Hs s). apply tnode_new. right. exists d2. split; [exact Hin2|].
      exists t2. rewrite <- app_assoc. exact H2. }
    split; [|exact Hsh]. destruct t as [|s t].
    + rewrite app_nil_r in Ht. subst. exact Hin.
    + exfalso. apply Hsh. exists d'. split; [exact Hin|]. exists (s :: t). split; [discriminate|exact Ht].
  - intros [Hin Hsh]. split.
    + apply tnode_new. right. exists d. split; [exact Hin|]. exists []. rewrite app_nil_r. reflexivity.
    + intros s Hn. apply tnode_new in Hn. destruct Hn as [Hn|[d' [Hin' [t Ht]]]].
      * destruct d; discriminate.
      * apply Hsh. exists d'. split; [exact Hin'|]. exists (s :: t). split; [discriminate|].
        rewrite <- app_assoc in Ht. exact Ht.
Qed.

(* ------------------------------------------------------------------------------------------------------------- *)
(* genericMatches against the leaves of an arbitrary trie                                                          *)
(* ------------------------------------------------------------------------------------------------------------- *)

Definition m_one (wc : bytes) (cs : list (bytes * pathspec)) (rest : list bytes) (s : bytes) : bool :=
  match ps_find s cs with
  | None => false
  | Some spec =>
      match ps_children spec with
      | [] => true
      | _ => match rest with [] => false | _ => ps_matches wc spec rest end
      end
  end.

Lemma ps_matches_eq wc p path :
  ps_matches wc p path =
  match ps_children p with
  | [] => false
  | _ =>
      match path with
      | [] => false
      | a :: rest =>
          if is_patch_op a then
            match rest with
            | [] => false
            | b :: rest' => m_one wc (ps_children p) rest' wc || m_one wc (ps_children p) rest' b
            end
          else m_one wc (ps_children p) rest wc || m_one wc (ps_children p) rest a
      end
  end.
Proof. destruct p as [[|c cs]]; destruct path as [|a [|b rest]]; reflexivity. Qed.

Lemma ps_matches_leaf wc p path : ps_children p = [] -> ps_matches wc p path = false.
Proof. intros H. rewrite ps_matches_eq, H. reflexivity. Qed.

Lemma ps_matches_nil wc p : ps_matches wc p [] = false.
Proof. rewrite ps_matches_eq. destruct (ps_children p); reflexivity. Qed.

Section Leaves.
  Variable wc : bytes.
  Notation covers := (covers wc).
  Notation seg_ok := (seg_ok wc).

  (* some leaf path of p covers q *)
  Definition L (p : pathspec) (q : list bytes) : Prop := exists d, d <> [] /\ tleaf p d /\ covers d q.

  Lemma L_nil p : ~ L p [].
  Proof. intros [d [Hne [_ Hc]]]. apply covers_nil_r in Hc. contradiction. Qed.

  Lemma L_leaf p q : ps_children p = [] -> ~ L p q.
  Proof.
    intros H [d [Hne [Hl _]]]. destruct d as [|s r]; [contradiction|]. simpl in Hl. rewrite H in Hl. exact Hl.
  Qed.

  Lemma L_cons p x q :
    L p (x :: q) <->
    exists s sub, seg_ok s x /\ ps_find s (ps_children p) = Some sub /\ (ps_children sub = [] \/ L sub q).
  Proof.
    split.
    - intros [d [Hne [Hl Hc]]]. destruct d as [|s r]; [contradiction|].
      inversion Hc as [|s' d' x' q' Hs Hc']; subst.
      simpl in Hl. destruct (ps_find s (ps_children p)) as [sub|] eqn:Fs; [|contradiction].
      exists s, sub. split; [exact Hs|]. split; [exact Fs|].
      destruct r as [|s2 r2]; [left; exact Hl|]. right. exists (s2 :: r2). split; [discriminate|]. split; assumption.
    - intros [s [sub [Hs [Fs [Hl|[d [Hne [Hl Hc]]]]]]]].
      + exists [s]. split; [discriminate|]. split; [simpl; rewrite Fs; exact Hl|]. constructor; [exact Hs|constructor].
      + exists (s :: d). split; [discriminate|]. split; [simpl; rewrite Fs; exact Hl|]. constructor; assumption.
  Qed.

  Lemma m_level cs rest x :
    (forall sub, ps_matches wc sub rest = true <-> L sub (effective rest)) ->
    (m_one wc cs rest wc || m_one wc cs rest x = true <->
     exists s sub, seg_ok s x /\ ps_find s cs = Some sub /\ (ps_children sub = [] \/ L sub (effective rest))).
  Proof.
    intros IH.
    assert (One : forall s, m_one wc cs rest s = true <->
                  exists sub, ps_find s cs = Some sub /\ (ps_children sub = [] \/ L sub (effective rest))).
    { intros s. unfold m_one. destruct (ps_find s cs) as [sub|].
      - destruct (ps_children sub) as [|c0 cs0] eqn:Ec.
        + split; [intros _; exists sub; split; [reflexivity|left; exact Ec]|reflexivity].
        + split.
          * intros H. exists sub. split; [reflexivity|]. right. apply IH.
            destruct rest; [discriminate|exact H].
          * intros [sub' [E [H|H]]]; injection E as <-; [rewrite Ec in H; discriminate|].
            destruct rest as [|b r]; [exfalso; exact (L_nil _ H)|]. apply IH. exact H.
      - split; [discriminate|]. intros [sub [E _]]. discriminate. }
    rewrite orb_true_iff, !One. split.
    - intros [[sub H]|[sub H]]; [exists wc, sub; split; [left; reflexivity|exact H]|].
      exists x, sub. split; [right; reflexivity|exact H].
    - intros [s [sub [[->| ->] H]]]; [left|right]; exists sub; exact H.
  Qed.

  Theorem matches_iff_leaf : forall path p, ps_matches wc p path = true <-> L p (effective path).
  Proof.
    intros path. remember (length path) as n eqn:Hn. revert path Hn.
    induction n as [n IH] using lt_wf_ind. intros path Hn p.
    rewrite ps_matches_eq. destruct (ps_children p) as [|c0 cs0] eqn:Ec.
    - split; [discriminate|]. intros H. exfalso. exact (L_leaf p _ Ec H).
    - rewrite <- Ec. destruct path as [|a rest].
      + simpl. split; [discriminate|]. intros H. exfalso. exact (L_nil _ H).
      + simpl effective. destruct (is_patch_op a).
        * destruct rest as [|b rest'].
          -- split; [discriminate|]. intros H. exfalso. exact (L_nil _ H).
          -- rewrite L_cons. apply m_level. intros sub.
             apply (IH (length rest')); [simpl in Hn; lia|reflexivity].
        * rewrite L_cons. apply m_level. intros sub.
          apply (IH (length rest)); [simpl in Hn; lia|reflexivity].
  Qed.
End Leaves.

(* ------------------------------------------------------------------------------------------------------------- *)
(* Main theorems of part 1                                                                                         *)
(* ------------------------------------------------------------------------------------------------------------- *)

Section Main.
  Variable wc : bytes.

  (* exact, premise-free: the code excludes what the non-empty, non-shadowed directives exclude *)
  Theorem matches_iff_maximal ds path :
    ps_matches wc (new_pathspec' ds) path = true <-> maximal_excludes wc ds path.
  Proof.
    rewrite matches_iff_leaf. unfold L, maximal_excludes, dmatch. split.
    - intros [d [Hne [Hl Hc]]]. apply tleaf_new in Hl; [|exact Hne]. destruct Hl as [Hin Hsh].
      exists d. repeat split; assumption.
    - intros [d [Hin [Hne [Hsh Hc]]]]. exists d. split; [exact Hne|]. split; [|exact Hc].
      apply tleaf_new; [exact Hne|]. split; assumption.
  Qed.

  Theorem matches_iff_spec ds path :
    well_formed wc ds -> (ps_matches wc (new_pathspec' ds) path = true <-> spec_excludes wc ds path).
  Proof.
    intros Hwf. rewrite matches_iff_maximal. split.
    - intros [d [Hin [_ [_ Hm]]]]. exists d. split; assumption.
    - intros [d [Hin Hm]]. destruct (Hwf d Hin) as [d' [Hin' [Hne [Hsh Hc]]]].
      exists d'. repeat split; try assumption. unfold dmatch in *. eapply covers_trans; eassumption.
  Qed.

  (* well_formed is the WEAKEST premise: it is equivalent to agreement on every path *)
  Theorem well_formed_weakest ds :
    well_formed wc ds <-> (forall path, ps_matches wc (new_pathspec' ds) path = true <-> spec_excludes wc ds path).
  Proof.
    split; [intros H path; apply matches_iff_spec; exact H|].
    intros H d Hin.
    assert (Hs : spec_excludes wc ds (canon d)).
    { exists d. split; [exact Hin|]. unfold dmatch. rewrite effective_canon. apply covers_refl. }
    apply H in Hs. apply matches_iff_maximal in Hs. destruct Hs as [d' [Hin' [Hne [Hsh Hm]]]].
    unfold dmatch in Hm. rewrite effective_canon in Hm.
    exists d'. repeat split; assumption.
  Qed.

  (* the simple sufficient condition ... *)
  Lemma prefix_free_well_formed ds : prefix_free ds -> no_empty ds -> well_formed wc ds.
  Proof.
    intros Hpf Hne d Hin. exists d. repeat split; [exact Hin|apply Hne; exact Hin| |apply covers_refl].
    intros [d' [Hin' Hsp]]. exact (Hpf d d' Hin Hin' Hsp).
  Qed.

  (* ... which is also necessary when no directive uses the wildcard *)
  Lemma well_formed_no_wildcard ds : no_wildcard wc ds -> well_formed wc ds -> prefix_free ds /\ no_empty ds.
  Proof.
    intros Hnw Hwf. split.
    - intros d d2 Hin Hin2 [t [Hne Ht]].
      destruct (Hwf d Hin) as [d' [Hin' [_ [Hsh Hc]]]].
      apply covers_literal in Hc; [|intros s Hs; exact (Hnw d' s Hin' Hs)].
      destruct Hc as [t' Ht']. apply Hsh. exists d2. split; [exact Hin2|].
      exists (t' ++ t). split; [destruct t'; [exact Hne|discriminate]|]. subst. rewrite app_assoc. reflexivity.
    - intros d Hin E. subst d. destruct (Hwf [] Hin) as [d' [_ [Hne [_ Hc]]]].
      apply covers_nil_r in Hc. contradiction.
  Qed.

  Corollary matches_iff_spec_prefix_free ds path :
    prefix_free ds -> no_empty ds ->
    (ps_matches wc (new_pathspec' ds) path = true <-> spec_excludes wc ds path).
  Proof. intros H1 H2. apply matches_iff_spec. apply prefix_free_well_formed; assumption. Qed.

  (* NewPathSpec on strings: strings.Split never yields an empty list, so only prefix-freeness remains *)
  Corollary matches_iff_spec_strings (ds : list bytes) path :
    prefix_free (map segments ds) ->
    (ps_matches wc (new_pathspec ds) path = true <-> spec_excludes wc (map segments ds) path).
  Proof.
    intros H. rewrite new_pathspec_segments. apply matches_iff_spec_prefix_free; [exact H|].
    intros d Hin E. apply in_map_iff in Hin. destruct Hin as [s [Hs _]]. subst d.
    exact (split_on_nonempty _ _ E).
  Qed.

  (* ---- algebra ---- *)
  Lemma matches_empty path : ps_matches wc ps_empty path = false.
  Proof. apply ps_matches_leaf. reflexivity. Qed.

  Lemma matches_empty_path p : ps_matches wc p [] = false.
  Proof. apply ps_matches_nil. Qed.

  (* whole subtrees are excluded (any trie, no premise) *)
  Theorem matches_subtree p path more : ps_matches wc p path = true -> ps_matches wc p (path ++ more) = true.
  Proof.
    rewrite !matches_iff_leaf. intros [d [Hne [Hl Hc]]]. exists d. split; [exact Hne|]. split; [exact Hl|].
    destruct (effective_app path more) as [t ->]. apply covers_app. exact Hc.
  Qed.

  Lemma spec_subtree ds path more : spec_excludes wc ds path -> spec_excludes wc ds (path ++ more).
  Proof.
    intros [d [Hin Hm]]. exists d. split; [exact Hin|]. unfold dmatch in *.
    destruct (effective_app path more) as [t ->]. apply covers_app. exact Hm.
  Qed.

  (* monotone in the directive set, provided the larger set is well formed *)
  Theorem matches_monotone ds1 ds2 path :
    incl ds1 ds2 -> well_formed wc ds2 ->
    ps_matches wc (new_pathspec' ds1) path = true -> ps_matches wc (new_pathspec' ds2) path = true.
  Proof.
    intros Hi Hwf H. apply matches_iff_maximal in H. destruct H as [d [Hin [_ [_ Hm]]]].
    apply matches_iff_spec; [exact Hwf|]. exists d. split; [apply Hi; exact Hin|exact Hm].
  Qed.

  (* the order and multiplicity of directives do not matter *)
  Theorem matches_set_ext ds1 ds2 path :
    (forall d, In d ds1 <-> In d ds2) ->
    ps_matches wc (new_pathspec' ds1) path = ps_matches wc (new_pathspec' ds2) path.
  Proof.
    intros He.
    assert (A : forall a b, (forall d, In d a <-> In d b) -> maximal_excludes wc a path -> maximal_excludes wc b path).
    { intros a b Hab [d [Hin [Hne [Hsh Hm]]]]. exists d. repeat split; try assumption; [apply Hab; exact Hin|].
      intros [d' [Hin' Hp]]. apply Hsh. exists d'. split; [apply Hab; exact Hin'|exact Hp]. }
    destruct (ps_matches wc (new_pathspec' ds1) path) eqn:E1; destruct (ps_matches wc (new_pathspec' ds2) path) eqn:E2;
      try reflexivity; exfalso.
    - apply matches_iff_maximal in E1. apply (A ds1 ds2 He) in E1. apply matches_iff_maximal in E1. congruence.
    - apply matches_iff_maximal in E2. apply (A ds2 ds1) in E2; [|intros d; symmetry; apply He].
      apply matches_iff_maximal in E2. congruence.
  Qed.

  (* corner (b): the empty path is excluded by the specification only through an empty directive, never by the code *)
  Lemma spec_empty_path ds : spec_excludes wc ds [] <-> In [] ds.
  Proof.
    split.
    - intros [d [Hin Hm]]. unfold dmatch in Hm. simpl in Hm. apply covers_nil_r in Hm. subst. exact Hin.
    - intros H. exists []. split; [exact H|constructor].
  Qed.

  (* an empty directive has no effect on the trie *)
  Lemma new_pathspec_drop_empty ds path :
    ps_matches wc (new_pathspec' ([] :: ds)) path = ps_matches wc (new_pathspec' ds) path.
  Proof. reflexivity. Qed.
End Main.

(* ------------------------------------------------------------------------------------------------------------- *)
(* Refutations (vm_compute witnesses): what the premises exclude                                                   *)
(* ------------------------------------------------------------------------------------------------------------- *)

Definition wc_star : bytes := [x2a].                 (* "*" *)
Definition seg_a : bytes := [x61].
Definition seg_b : bytes := [x62].
Definition seg_c : bytes := [x63].

(* the statement without any premise *)
Definition matches_iff_spec_full : Prop :=
  forall wc ds path, ps_matches wc (new_pathspec' ds) path = true <-> spec_excludes wc ds path.

(* (a) D21: ["a"] and ["a";"b"]: "a" is no longer excluded, neither is a/c *)
Lemma extended_directive_refuted :
  let ds := [[seg_a]; [seg_a; seg_b]] in
  spec_excludes wc_star ds [seg_a] /\ ps_matches wc_star (new_pathspec' ds) [seg_a] = false /\
  spec_excludes wc_star ds [seg_a; seg_c] /\ ps_matches wc_star (new_pathspec' ds) [seg_a; seg_c] = false /\
  ps_matches wc_star (new_pathspec' ds) [seg_a; seg_b] = true /\
  ps_matches wc_star (new_pathspec' [[seg_a]]) [seg_a] = true.
Proof.
  cbv zeta. repeat split; try (vm_compute; reflexivity).
  - exists [seg_a]. split; [left; reflexivity|]. unfold dmatch. vm_compute. constructor; [right; reflexivity|constructor].
  - exists [seg_a]. split; [left; reflexivity|]. unfold dmatch. vm_compute. constructor; [right; reflexivity|constructor].
Qed.

Lemma matches_iff_spec_refuted : ~ matches_iff_spec_full.
Proof.
  intros H. destruct extended_directive_refuted as [Hs [Hm _]].
  apply (H wc_star) in Hs. rewrite Hm in Hs. discriminate.
Qed.

(* monotonicity fails for the same reason: adding "a/b" to {"a"} un-excludes "a" *)
Lemma monotone_refuted :
  incl [[seg_a]] [[seg_a]; [seg_a; seg_b]] /\
  ps_matches wc_star (new_pathspec' [[seg_a]]) [seg_a] = true /\
  ps_matches wc_star (new_pathspec' [[seg_a]; [seg_a; seg_b]]) [seg_a] = false.
Proof. split; [intros d [<-|[]]; left; reflexivity|]. split; vm_compute; reflexivity. Qed.

(* a shadowed directive is harmless when a maximal one covers it: {"a", "a/b", "*"} is well formed *)
Lemma shadowed_but_covered :
  well_formed wc_star [[seg_a]; [seg_a; seg_b]; [wc_star]] /\ ~ prefix_free [[seg_a]; [seg_a; seg_b]; [wc_star]].
Proof.
  assert (Max : ~ shadowed [[seg_a]; [seg_a; seg_b]; [wc_star]] [wc_star]).
  { intros [d' [Hin [t [Hne Ht]]]]. destruct Hin as [<-|[<-|[<-|[]]]]; try discriminate.
    injection Ht as Ht. subst t. contradiction. }
  split.
  - intros d Hin. exists [wc_star]. split; [right; right; left; reflexivity|]. split; [discriminate|]. split; [exact Max|].
    destruct Hin as [<-|[<-|[<-|[]]]]; repeat constructor; left; reflexivity.
  - intros H. apply (H [seg_a] [seg_a; seg_b]); [left; reflexivity|right; left; reflexivity|].
    exists [seg_b]. split; [discriminate|reflexivity].
Qed.

(* (b) an empty directive: the specification excludes everything, the code nothing *)
Lemma empty_directive_refuted :
  spec_excludes wc_star [[]] [seg_a] /\ ps_matches wc_star (new_pathspec' [[]]) [seg_a] = false.
Proof. split; [exists []; split; [left; reflexivity|constructor]|vm_compute; reflexivity]. Qed.

(* (b) a directive segment that is itself "$set": never matched by a lone "$set" (which is skipped and then dangles),
   matched by "$set/$set" and "$delete/$set" *)
Lemma op_directive_behaviour :
  let ds := [[op_set]] in
  ps_matches wc_star (new_pathspec' ds) [op_set] = false /\
  ps_matches wc_star (new_pathspec' ds) [op_set; op_set] = true /\
  ps_matches wc_star (new_pathspec' ds) [op_delete; op_set] = true /\
  ps_matches wc_star (new_pathspec' ds) [op_set; seg_a] = false.
Proof. vm_compute. repeat split. Qed.

(* (b) the naive reading "delete every patch operator" is NOT what the code does: only one operator is skipped per
   level, and a trailing operator makes deeper directives fail even under a wildcard *)
Definition naive_excludes (wc : bytes) (ds : list (list bytes)) (path : list bytes) : Prop :=
  exists d, In d ds /\ covers wc d (strip_ops path).

Lemma naive_reading_refuted :
  naive_excludes wc_star [[seg_a]] [op_set; op_set; seg_a] /\
  ps_matches wc_star (new_pathspec' [[seg_a]]) [op_set; op_set; seg_a] = false /\
  ps_matches wc_star (new_pathspec' [[seg_a; wc_star]]) [seg_a; op_set] = false.
Proof.
  split; [|split; vm_compute; reflexivity].
  exists [seg_a]. split; [left; reflexivity|]. vm_compute. constructor; [right; reflexivity|constructor].
Qed.

(* ... but it IS what the code does on every path without two operators in a row *)
Lemma naive_reading_partial wc ds path :
  no_double_op path = true -> (spec_excludes wc ds path <-> naive_excludes wc ds path).
Proof. intros H. unfold spec_excludes, naive_excludes, dmatch. rewrite (effective_eq_strip path H). reflexivity. Qed.

(* (c) wildcard in the path (array scope) *)
Lemma wildcard_in_path :
  ps_matches wc_star (new_pathspec' [[seg_a; wc_star; seg_b]]) [seg_a; wc_star; seg_b] = true /\
  ps_matches wc_star (new_pathspec' [[seg_a; seg_c; seg_b]]) [seg_a; wc_star; seg_b] = false /\
  ps_matches wc_star (new_pathspec' [[seg_a; wc_star]]) [seg_a; wc_star; seg_b] = true.
Proof. vm_compute. repeat split. Qed.

(* non-vacuity: a wildcard directive, a path with "$set" *)
Lemma nonvacuous_example :
  let ds := [[seg_a; wc_star; seg_b]; [seg_c]] in
  well_formed wc_star ds /\
  ps_matches wc_star (new_pathspec' ds) [seg_a; op_set; seg_c; seg_b; seg_a] = true /\
  ps_matches wc_star (new_pathspec' ds) [seg_a; op_set; seg_c; seg_c] = false.
Proof.
  cbv zeta. split; [|split; vm_compute; reflexivity].
  apply prefix_free_well_formed.
  - intros d d' Hd Hd' [t [Hne Ht]].
    destruct Hd as [<-|[<-|[]]]; destruct Hd' as [<-|[<-|[]]]; try discriminate.
    + injection Ht as Ht. subst t. contradiction.
    + injection Ht as Ht. subst t. contradiction.
  - intros d [<-|[<-|[]]]; discriminate.
Qed.

(* ------------------------------------------------------------------------------------------------------------- *)
(* Part 2: the reader side (missing_fields.go)                                                                     *)
(* ------------------------------------------------------------------------------------------------------------- *)

Section Reader.
  Variable wc : bytes.
  Variable excl : pathspec.
  Variable ignore : nat.
  Notation enter_map := (enter_map wc excl ignore).
  Notation is_key_excluded := (is_key_excluded wc excl ignore).
  Notation record_missing := (record_missing wc excl ignore).

  (* the path the reader consults for key k in scope t: the scope with k pushed, minus the ignored leading segments,
     array indices replaced by the wildcard *)
  Definition reader_path (k : bytes) (t : tracker) : list bytes :=
    map (seg_name wc) (skipn ignore (t_scope t ++ [SKey k])).

  Definition reader_excluded (k : bytes) (t : tracker) : Prop :=
    ignore < length (t_scope t ++ [SKey k]) /\ ps_matches wc excl (reader_path k t) = true.

  Theorem enter_map_excluded_iff k t :
    (exists s, enter_map k t = Err (EExcluded s)) <-> reader_excluded k t.
  Proof.
    unfold Tracker.enter_map, reader_excluded, reader_path, push. simpl t_scope.
    destruct (Nat.leb (length (t_scope t ++ [SKey k])) ignore) eqn:El.
    - apply Nat.leb_le in El. split; [intros [s H]; discriminate|intros [H _]; lia].
    - apply Nat.leb_gt in El. destruct (ps_matches wc excl _) eqn:Em.
      + split; [intros _; split; [exact El|reflexivity]|intros _; eexists; reflexivity].
      + split; [intros [s H]; discriminate|intros [_ H]; discriminate].
  Qed.

  (* enterMapScope has exactly two outcomes: the pushed tracker, or the ExcludedFieldError carrying the scope string *)
  Theorem enter_map_outcomes k t :
    (enter_map k t = Ok (push (SKey k) t) /\ ~ reader_excluded k t) \/
    (enter_map k t = Err (EExcluded (scope_string (t_scope t ++ [SKey k]))) /\ reader_excluded k t).
  Proof.
    unfold Tracker.enter_map, reader_excluded, reader_path, push. simpl t_scope.
    destruct (Nat.leb (length (t_scope t ++ [SKey k])) ignore) eqn:El.
    - apply Nat.leb_le in El. left. split; [reflexivity|intros [H _]; lia].
    - apply Nat.leb_gt in El. destruct (ps_matches wc excl _) eqn:Em.
      + right. split; [reflexivity|split; [exact El|reflexivity]].
      + left. split; [reflexivity|intros [_ H]; discriminate].
  Qed.

  Theorem is_key_excluded_iff k t : is_key_excluded k t = true <-> reader_excluded k t.
  Proof.
    unfold Tracker.is_key_excluded. destruct (enter_map_outcomes k t) as [[E H]|[E H]]; rewrite E.
    - split; [discriminate|intros H'; contradiction].
    - split; [intros _; exact H|reflexivity].
  Qed.

  Theorem is_key_excluded_agrees k t :
    is_key_excluded k t = true <-> exists s, enter_map k t = Err (EExcluded s).
  Proof. rewrite is_key_excluded_iff, enter_map_excluded_iff. reflexivity. Qed.

  (* nothing is consulted while the scope is still inside the ignored prefix *)
  Lemma enter_map_ignored k t : length (t_scope t) < ignore -> enter_map k t = Ok (push (SKey k) t).
  Proof.
    intros H. destruct (enter_map_outcomes k t) as [[E _]|[_ [Hl _]]]; [exact E|].
    rewrite app_length in Hl. simpl in Hl. lia.
  Qed.

  (* with a well-formed directive set the reader rejects exactly the keys the specification excludes *)
  Theorem reader_rejects_iff_spec ds k t :
    excl = new_pathspec' ds -> well_formed wc ds ->
    ((exists s, enter_map k t = Err (EExcluded s)) <->
     ignore < length (t_scope t) + 1 /\ spec_excludes wc ds (reader_path k t)).
  Proof.
    intros He Hwf. rewrite enter_map_excluded_iff. unfold reader_excluded. rewrite He.
    rewrite (matches_iff_spec wc ds _ Hwf). rewrite app_length. simpl length. reflexivity.
  Qed.

  (* recordMissingRequiredFields *)
  Definition missing_prefix (t : tracker) : bytes :=
    match scope_string (t_scope t) with [] => [] | s => s ++ [x2e] end.

  Definition newly_missing (rem : list bytes) (t : tracker) : list bytes :=
    map (fun f => missing_prefix t ++ f) (filter (fun f => negb (is_key_excluded f t)) rem).

  Lemma record_missing_eq rem t :
    t_missing (record_missing rem t) = t_missing t ++ newly_missing rem t /\
    t_scope (record_missing rem t) = t_scope t.
  Proof.
    unfold Tracker.record_missing, newly_missing, missing_prefix. simpl.
    split; [|reflexivity]. destruct (scope_string (t_scope t)); reflexivity.
  Qed.

  Theorem newly_missing_iff rem t x :
    In x (newly_missing rem t) <-> exists f, x = missing_prefix t ++ f /\ In f rem /\ ~ reader_excluded f t.
  Proof.
    unfold newly_missing. rewrite in_map_iff. split.
    - intros [f [<- Hf]]. apply filter_In in Hf. destruct Hf as [Hin Hn]. exists f. split; [reflexivity|].
      split; [exact Hin|]. intros He. apply is_key_excluded_iff in He. rewrite He in Hn. discriminate.
    - intros [f [-> [Hin Hn]]]. exists f. split; [reflexivity|]. apply filter_In. split; [exact Hin|].
      destruct (is_key_excluded f t) eqn:E; [|reflexivity]. apply is_key_excluded_iff in E. contradiction.
  Qed.

  (* an excluded required field is never reported ... *)
  Theorem excluded_required_not_missing rem t f :
    is_key_excluded f t = true -> ~ In (missing_prefix t ++ f) (newly_missing rem t).
  Proof.
    intros He Hin. apply newly_missing_iff in Hin. destruct Hin as [f' [Eq [_ Hn]]].
    apply app_inv_head in Eq. subst f'. apply Hn. apply is_key_excluded_iff. exact He.
  Qed.

  (* ... every other remaining required field is, and nothing already recorded is lost *)
  Theorem other_required_missing rem t f :
    In f rem -> is_key_excluded f t = false -> In (missing_prefix t ++ f) (t_missing (record_missing rem t)).
  Proof.
    intros Hin He. destruct (record_missing_eq rem t) as [-> _]. apply in_or_app. right.
    apply newly_missing_iff. exists f. split; [reflexivity|]. split; [exact Hin|].
    intros H. apply is_key_excluded_iff in H. congruence.
  Qed.

  Theorem record_missing_keeps rem t x : In x (t_missing t) -> In x (t_missing (record_missing rem t)).
  Proof. intros H. destruct (record_missing_eq rem t) as [-> _]. apply in_or_app. left. exact H. Qed.

  Theorem record_missing_exact rem t x :
    In x (t_missing (record_missing rem t)) <->
    In x (t_missing t) \/ exists f, x = missing_prefix t ++ f /\ In f rem /\ ~ reader_excluded f t.
  Proof. destruct (record_missing_eq rem t) as [-> _]. rewrite in_app_iff, newly_missing_iff. reflexivity. Qed.
End Reader.
