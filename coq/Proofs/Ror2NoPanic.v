(* C04 - decoder robustness: the cursor-level ROR2 decoder (Codec/Decode.v decR) and the JSON tree decoder (decJ) never reach
   the explicit [Panic] outcome, for ALL inputs, schemas, environments, fuels and external oracles (parseF, unesc).

   Why: the only source of [Panic] in the model is [idx] (u.data[u.pos]) on an empty suffix, and every [idx] of the decoder is
   dominated by the same test as in the Go code: checkNotAtEnd (read_after, the three map-shaped loops) or atArray, whose STRICT
   comparison  len(data)-pos > len("List(")  guarantees one more byte after the prefix.

   Method: one step of decR / decJ is re-stated as a non-recursive body [stepR] / [stepJ] over an abstract recursive call
   [D] / [DJ] (the nested loops become top-level fixpoints); [decR_unfold] / [decJ_unfold] prove by [reflexivity] that the
   re-statement IS the model (conversion), so there is no gap.  The no-panic property of a step follows compositionally from
   that of the recursive call, and induction on the fuel closes the argument. *)
From Coq Require Import List Bool Arith ZArith NArith Lia.
From Coq.Strings Require Import Byte.
From GR Require Import Base.Bytes Base.Res Base.Dec Codec.Schema Codec.Doc Codec.Escape Codec.Utf8 Codec.Json Codec.Tracker
  Codec.Decode.
Import ListNotations.

(* ---------------------------------------------------------------------------------------------------------------------------
   the predicate and its closure lemmas
   --------------------------------------------------------------------------------------------------------------------------- *)
Definition np {A} (r : res A) : Prop := r <> Panic.

Lemma np_ok {A} (a : A) : np (Ok a).
Proof. unfold np; discriminate. Qed.
Lemma np_err {A} (x : err) : np (@Err A x).
Proof. unfold np; discriminate. Qed.
Lemma np_bind {A B} (r : res A) (f : A -> res B) :
  np r -> (forall a, r = Ok a -> np (f a)) -> np (bind r f).
Proof.
  intros Hr Hf. destruct r as [a|x|]; cbn [bind].
  - apply Hf; reflexivity.
  - apply np_err.
  - exfalso; apply Hr; reflexivity.
Qed.
Lemma np_bind' {A B} (r : res A) (f : A -> res B) :
  np r -> (forall a, np (f a)) -> np (bind r f).
Proof. intros Hr Hf. apply np_bind; auto. Qed.
Lemma np_if {A} (b : bool) (x y : res A) : np x -> np y -> np (if b then x else y).
Proof. destruct b; auto. Qed.
Lemma np_opt {A B} (o : option A) (f : A -> res B) (y : res B) :
  (forall a, np (f a)) -> np y -> np (match o with Some a => f a | None => y end).
Proof. destruct o; auto. Qed.

#[local] Hint Resolve np_ok np_err : np.

(* ---------------------------------------------------------------------------------------------------------------------------
   WHY: the index u.data[u.pos] and its guards
   --------------------------------------------------------------------------------------------------------------------------- *)
Lemma idx_panic_iff : forall s, idx s = Panic <-> r_rest s = [].
Proof.
  intro s. unfold idx. destruct (r_rest s) as [|c l]; split; intro H; try reflexivity; discriminate.
Qed.

Lemma idx_ok_iff : forall s, (exists c, idx s = Ok c) <-> r_rest s <> [].
Proof.
  intro s. unfold idx. destruct (r_rest s) as [|c l]; split.
  - intros [c H]; discriminate.
  - intro H; contradiction H; reflexivity.
  - intros _; discriminate.
  - intros _; exists c; reflexivity.
Qed.

Lemma idx_never_err : forall s x, idx s <> Err x.
Proof. intros s x. unfold idx. destruct (r_rest s); discriminate. Qed.

Lemma check_not_at_end_idx : forall s, check_not_at_end s = Ok tt -> exists c, idx s = Ok c.
Proof.
  intros s. unfold check_not_at_end, idx. destruct (r_rest s) as [|c l]; intro H.
  - discriminate.
  - exists c; reflexivity.
Qed.

Lemma check_not_at_end_np : forall s, np (check_not_at_end s).
Proof. intro s. unfold check_not_at_end. destruct (r_rest s); auto with np. Qed.

Lemma check_then_idx_np : forall s u, check_not_at_end s = Ok u -> np (idx s).
Proof.
  intros s u H. destruct u. destruct (check_not_at_end_idx s H) as [c Hc]. rewrite Hc. apply np_ok.
Qed.

(* the strict comparison of atArray is what makes the index after the prefix safe: the lemma needs exactly
   length prefix < length rest *)
Lemma idx_after_prefix : forall n s, n < length (r_rest s) -> idx (advance n s) <> Panic.
Proof.
  intros n s Hlt. rewrite idx_panic_iff. unfold advance; cbn [r_rest].
  intro H. apply (f_equal (@length byte)) in H. rewrite skipn_length in H. cbn [length] in H. lia.
Qed.

Lemma at_array_strict : forall list_prefix s,
  at_array list_prefix s = true -> length list_prefix < length (r_rest s) /\ has_prefix list_prefix (r_rest s) = true.
Proof.
  intros lp s H. unfold at_array in H. apply andb_true_iff in H. destruct H as [H1 H2].
  apply Nat.ltb_lt in H1. split; assumption.
Qed.

Lemma at_array_idx : forall list_prefix s,
  at_array list_prefix s = true -> idx (advance (length list_prefix) s) <> Panic.
Proof.
  intros lp s H. apply idx_after_prefix. apply (at_array_strict lp s H).
Qed.

(* with a non-strict comparison (>=) the guard would NOT be enough: the input that is exactly the prefix would index out of
   range.  This is the counterexample that the strict [<] excludes. *)
Lemma prefix_alone_would_panic : forall list_prefix tr,
  has_prefix list_prefix list_prefix = true ->
  length list_prefix <= length (r_rest (rinit list_prefix tr)) /\
  has_prefix list_prefix (r_rest (rinit list_prefix tr)) = true /\
  idx (advance (length list_prefix) (rinit list_prefix tr)) = Panic.
Proof.
  intros lp tr H. cbn [rinit r_rest]. split; [lia|]. split; [exact H|].
  apply idx_panic_iff. unfold advance; cbn [r_rest]. apply skipn_all.
Qed.

(* ---------------------------------------------------------------------------------------------------------------------------
   leaf readers
   --------------------------------------------------------------------------------------------------------------------------- *)
Lemma read_after_np : forall s, np (read_after s).
Proof.
  intro s. unfold read_after. apply np_bind; [apply check_not_at_end_np|]. intros u Hu.
  apply np_bind; [exact (check_then_idx_np s u Hu)|]. intros c _.
  repeat apply np_if; auto with np.
Qed.

Lemma read_field_name_np : forall unesc empty_marker s, np (read_field_name unesc empty_marker s).
Proof.
  intros unesc em s. unfold read_field_name. apply np_bind'; [apply check_not_at_end_np|]. intros _.
  destruct (scan_name (r_rest s)) as [[raw after]|]; [|apply np_err].
  destruct raw as [|c raw]; [apply np_err|].
  apply np_if; [apply np_ok|]. apply np_opt; auto with np.
Qed.

Lemma read_token_np : forall s, np (read_token s).
Proof.
  intro s. unfold read_token. apply np_bind'.
  - destruct (r_consumed s); [|apply np_ok].
    destruct (scan_token (r_rest s)) as [[tok after]|]; auto with np.
  - intros [tok s']. apply np_if; auto with np.
Qed.

Lemma read_decoded_np : forall unesc s, np (read_decoded unesc s).
Proof.
  intros unesc s. unfold read_decoded. apply np_bind'; [apply read_token_np|].
  intros [tok s']. apply np_opt; auto with np.
Qed.

Lemma read_string_np : forall unesc empty_marker s, np (read_string unesc empty_marker s).
Proof.
  intros unesc em s. unfold read_string. apply np_bind'; [apply read_token_np|].
  intros [tok s']. destruct tok as [|c tok]; [apply np_err|].
  apply np_if; [apply np_ok|]. apply np_opt; auto with np.
Qed.

Lemma rprim_np : forall parseF unesc empty_marker p s, np (rprim parseF unesc empty_marker p s).
Proof.
  intros parseF unesc em p s. unfold rprim.
  destruct p;
    (apply np_bind'; [first [apply read_string_np | apply read_decoded_np]|]; intros [x s'];
     first [apply np_ok | apply np_opt; auto with np]).
Qed.

Lemma rskip_np : forall list_prefix s, np (rskip list_prefix s).
Proof.
  intros lp s. unfold rskip. apply np_if; [apply np_ok|]. apply np_opt; auto with np.
Qed.

Lemma enter_map_np : forall wildcard excl ignore k tr, np (enter_map wildcard excl ignore k tr).
Proof.
  intros. unfold enter_map. repeat apply np_if; auto with np.
Qed.

Lemma jprim_np : forall parseF p d, np (jprim parseF p d).
Proof.
  intros parseF p d. unfold jprim.
  destruct p; destruct d; try apply np_err; try apply np_ok; apply np_opt; auto with np.
Qed.

Lemma jstring_np : forall d, np (jstring d).
Proof. intro d. unfold jstring. destruct d; auto with np. Qed.

(* ---------------------------------------------------------------------------------------------------------------------------
   one step of the decoders over an abstract recursive call
   --------------------------------------------------------------------------------------------------------------------------- *)
Section Step.
  Variable e : env.
  Variable wildcard : bytes.
  Variable excl : pathspec.
  Variable ignore : nat.
  Variable parseF : nat -> bytes -> option N.

  Notation enter_map := (enter_map wildcard excl ignore).
  Notation record_missing := (record_missing wildcard excl ignore).
  Notation zero_value := (zero_value e).
  Notation required_fields := (required_fields e).
  Notation jprim := (jprim parseF).

  (* the recursive call of decJ at the smaller fuel *)
  Variable DJ : bool -> ty -> jdoc -> tracker -> res (value * tracker).

  Definition lit_valueS (t' : ty) (lit : bytes) : option value :=
    match parse_json lit with
    | Some jd => match DJ true t' jd tracker0 with Ok (v, _) => Some v | _ => None end
    | None => None
    end.

  Fixpoint fill_defaultsS (fs : list field) (vs : list (option value)) : list (option value) :=
    match fs, vs with
    | fd :: fs', ov :: vs' =>
        (match ov, f_opt fd with
         | None, Default lit => lit_valueS (f_ty fd) lit
         | _, _ => ov
         end) :: fill_defaultsS fs' vs'
    | _, _ => vs
    end.

  (* ------------------------------------------------ JSON ------------------------------------------------ *)
  Fixpoint umfJ (k : nat) (n : nat) (key : bytes) (jd : jdoc) (rv : value) (tr : tracker) {struct k}
      : res (bool * value * tracker) :=
    match k with
    | 0 => Err EFuel
    | S k' =>
        match lookup e n, rv with
        | Some (DRecord incs fs), VRec ivs fvs =>
            let fix try_incs (is : list nat) (vs : list value) (pos : nat) : res (option (nat * value * tracker)) :=
              match is, vs with
              | i :: is', iv :: vs' =>
                  do r <- umfJ k' i key jd iv tr;
                  let '(found, iv', tr') := r in
                  if found then Ok (Some (pos, iv', tr')) else try_incs is' vs' (S pos)
              | _, _ => Ok None
              end in
            do hit <- try_incs incs ivs 0;
            match hit with
            | Some (pos, iv', tr') => Ok (true, VRec (set_nth pos iv' ivs) fvs, tr')
            | None =>
                match index_of key (map f_name fs) 0 with
                | Some j =>
                    match nth_error fs j with
                    | Some fd =>
                        do r <- DJ false (f_ty fd) jd tr;
                        let '(v, tr') := r in
                        Ok (true, VRec ivs (set_nth j (Some v) fvs), tr')
                    | None => Err EType
                    end
                | None => Ok (false, rv, tr)
                end
            end
        | _, _ => Err EType
        end
    end.

  Definition goJarr (t' : ty) :=
    fix go (l : list jdoc) (i : nat) (acc : list value) (tr : tracker) : res (value * tracker) :=
      match l with
      | [] => Ok (VArr (rev acc), tr)
      | x :: r =>
          do rr <- DJ false t' x (enter_array i tr);
          let '(v, tr') := rr in go r (S i) (v :: acc) (pop tr')
      end.

  Definition goJmap (t' : ty) :=
    fix go (l : list (bytes * jdoc)) (acc : list (bytes * value)) (tr : tracker) : res (value * tracker) :=
      match l with
      | [] => Ok (VMap (sort_entries acc), tr)
      | (k, x) :: r =>
          match x with
          | JNull => go r acc tr
          | _ => do tr1 <- enter_map k tr;
                 do rr <- DJ false t' x tr1;
                 let '(v, tr2) := rr in go r (map_put k v acc) (pop tr2)
          end
      end.

  Definition goJrec (n : nat) :=
    fix go (l : list (bytes * jdoc)) (rv : value) (rem : list bytes) (tr : tracker)
      : res (value * list bytes * tracker) :=
      match l with
      | [] => Ok (rv, rem, tr)
      | (k, x) :: r =>
          match x with
          | JNull => go r rv rem tr
          | _ => do tr1 <- enter_map k tr;
                 do u <- umfJ (S (length e)) n k x rv tr1;
                 let '(_, rv', tr2) := u in
                 go r rv' (remove_bytes k rem) (pop tr2)
          end
      end.

  Definition goJuni (ms : list (bytes * ty)) :=
    fix go (l : list (bytes * jdoc)) (uv : list (option value)) (wasSet : bool) (tr : tracker)
      : res (list (option value) * bool * tracker) :=
      match l with
      | [] => Ok (uv, wasSet, tr)
      | (k, x) :: r =>
          match x with
          | JNull => go r uv wasSet tr
          | _ => do tr1 <- enter_map k tr;
                 if wasSet then Err EUnion
                 else match index_of k (map fst ms) 0 with
                      | Some j =>
                          match nth_error ms j with
                          | Some (_, mt) =>
                              do rr <- DJ false mt x tr1;
                              let '(v, tr2) := rr in go r (set_nth j (Some v) uv) true (pop tr2)
                          | None => Err EType
                          end
                      | None => Err EUnion
                      end
          end
      end.

  Definition stepJ (top : bool) (t : ty) (d : jdoc) (tr : tracker) : res (value * tracker) :=
    match t with
    | TPrim p => do v <- jprim p d; Ok (v, tr)
    | TEnum syms => do s <- jstring d; Ok (enum_value syms s, tr)
    | TFixed n =>
        do v <- jprim PBytes d;
        match v with VBytes b => if Nat.eqb (length b) n then Ok (VFixed b, tr) else Err EFixedSize | _ => Err EType end
    | TArray t' =>
        match d with
        | JNull => Ok (VArr [], tr)
        | JArr items => goJarr t' items 0 [] tr
        | _ => Err EDeser
        end
    | TMap t' =>
        match d with
        | JNull => Ok (VMap [], tr)
        | JObj es => goJmap t' es [] tr
        | _ => Err EDeser
        end
    | TRef n =>
        match lookup e n with
        | Some (DRecord incs fs) =>
            do es <- match d with JNull => Ok [] | JObj es => Ok es | _ => Err EDeser end;
            do r <- goJrec n es (zero_value (S (S (length e))) t) (required_fields (S (length e)) n) tr;
            let '(rv, rem, tr1) := r in
            let tr2 := record_missing rem tr1 in
            let raising := top && negb (match t_missing tr2 with [] => true | _ => false end) in
            let rv' := if raising || negb (own_has_default fs) then rv
                       else match rv with VRec ivs fvs => VRec ivs (fill_defaultsS fs fvs) | _ => rv end in
            Ok (rv', tr2)
        | Some (DUnion nullable ms) =>
            do es <- match d with JNull => Ok [] | JObj es => Ok es | _ => Err EDeser end;
            do r <- goJuni ms es (map (fun _ => None) ms) false tr;
            let '(uv, wasSet, tr') := r in
            if negb nullable && negb wasSet then Err EUnion else Ok (VUnion uv, tr')
        | None => Err EType
        end
    end.

  (* ------------------------------------------------ ROR2 ------------------------------------------------ *)
  Variable unesc : bytes -> option bytes.
  Variables (empty_marker list_prefix : bytes).
  Variable query_reader : bool.

  Notation at_array := (at_array list_prefix).
  Notation read_field_name := (read_field_name unesc empty_marker).
  Notation read_string := (read_string unesc empty_marker).
  Notation rprim := (rprim parseF unesc empty_marker).
  Notation rskip := (rskip list_prefix).

  (* the recursive call of decR at the smaller fuel *)
  Variable D : ty -> rst -> res (value * rst).

  Fixpoint umfR (k : nat) (n : nat) (key : bytes) (rv : value) (s : rst) {struct k}
      : res (bool * value * rst) :=
    match k with
    | 0 => Err EFuel
    | S k' =>
        match lookup e n, rv with
        | Some (DRecord incs fs), VRec ivs fvs =>
            let fix try_incs (is : list nat) (vs : list value) (pos : nat) : res (option (nat * value * rst)) :=
              match is, vs with
              | i :: is', iv :: vs' =>
                  do r <- umfR k' i key iv s;
                  let '(found, iv', s') := r in
                  if found then Ok (Some (pos, iv', s')) else try_incs is' vs' (S pos)
              | _, _ => Ok None
              end in
            do hit <- try_incs incs ivs 0;
            match hit with
            | Some (pos, iv', s') => Ok (true, VRec (set_nth pos iv' ivs) fvs, s')
            | None =>
                match index_of key (map f_name fs) 0 with
                | Some j =>
                    match nth_error fs j with
                    | Some fd =>
                        do r <- D (f_ty fd) s;
                        let '(v, s') := r in
                        Ok (true, VRec ivs (set_nth j (Some v) fvs), s')
                    | None => Err EType
                    end
                | None => Ok (false, rv, s)
                end
            end
        | _, _ => Err EType
        end
    end.

  Definition goRarr (t' : ty) :=
    fix go (k : nat) (i : nat) (acc : list value) (s : rst) : res (value * rst) :=
      match k with
      | 0 => Err EFuel
      | S k' =>
          do rr <- D t' (with_tr s (enter_array i (r_tr s)));
          let '(v, s1) := rr in
          do a <- read_after (with_tr s1 (pop (r_tr s1)));
          match a with
          | Continue s2 => go k' (S i) (v :: acc) s2
          | Done s2 => Ok (VArr (rev (v :: acc)), s2)
          end
      end.

  Definition goRmap (t' : ty) :=
    fix go (k : nat) (acc : list (bytes * value)) (s : rst) : res (value * rst) :=
      match k with
      | 0 => Err EFuel
      | S k' =>
          do _ <- check_not_at_end s;
          do c <- idx s;
          if Byte.eqb c x29 then Ok (VMap (sort_entries acc), advance 1 s)
          else
            do nm <- read_field_name s;
            let '(key, s1) := nm in
            do tr1 <- enter_map key (r_tr s1);
            do rr <- D t' (with_tr s1 tr1);
            let '(v, s2) := rr in
            do a <- read_after (with_tr s2 (pop (r_tr s2)));
            match a with
            | Continue s3 => go k' (map_put key v acc) s3
            | Done s3 => Ok (VMap (sort_entries (map_put key v acc)), s3)
            end
      end.

  Definition goRrec (n : nat) :=
    fix go (k : nat) (rv : value) (rem : list bytes) (s : rst) : res (value * list bytes * rst) :=
      match k with
      | 0 => Err EFuel
      | S k' =>
          do _ <- check_not_at_end s;
          do c <- idx s;
          if Byte.eqb c x29 then Ok (rv, rem, advance 1 s)
          else
            do nm <- read_field_name s;
            let '(key, s1) := nm in
            do tr1 <- enter_map key (r_tr s1);
            do u <- umfR (S (length e)) n key rv (with_tr s1 tr1);
            let '(found, rv', s2) := u in
            do s2' <- (if found then Ok s2 else rskip s2);
            do a <- read_after (with_tr s2' (pop (r_tr s2')));
            match a with
            | Continue s3 => go k' rv' (remove_bytes key rem) s3
            | Done s3 => Ok (rv', remove_bytes key rem, s3)
            end
      end.

  Definition goRuni (ms : list (bytes * ty)) :=
    fix go (k : nat) (uv : list (option value)) (wasSet : bool) (s : rst)
      : res (list (option value) * bool * rst) :=
      match k with
      | 0 => Err EFuel
      | S k' =>
          do _ <- check_not_at_end s;
          do c <- idx s;
          if Byte.eqb c x29 then Ok (uv, wasSet, advance 1 s)
          else
            do nm <- read_field_name s;
            let '(key, s1) := nm in
            do tr1 <- enter_map key (r_tr s1);
            if wasSet then Err EUnion
            else match index_of key (map fst ms) 0 with
                 | Some j =>
                     match nth_error ms j with
                     | Some (_, mt) =>
                         do rr <- D mt (with_tr s1 tr1);
                         let '(v, s2) := rr in
                         do a <- read_after (with_tr s2 (pop (r_tr s2)));
                         match a with
                         | Continue s3 => go k' (set_nth j (Some v) uv) true s3
                         | Done s3 => Ok (set_nth j (Some v) uv, true, s3)
                         end
                     | None => Err EType
                     end
                 | None => Err EUnion
                 end
      end.

  (* f = the fuel handed to the loops (the same f as the one of the recursive call) *)
  Definition stepR (f : nat) (t : ty) (s : rst) : res (value * rst) :=
    match t with
    | TPrim p => rprim p s
    | TEnum syms => do r <- read_string s; let '(x, s') := r in Ok (enum_value syms x, s')
    | TFixed n =>
        do r <- read_string s; let '(x, s') := r in
        if Nat.eqb (length x) n then Ok (VFixed x, s') else Err EFixedSize
    | TArray t' =>
        if negb (at_array s) then Err EDeser
        else
          let s0 := advance (length list_prefix) s in
          do c <- idx s0;
          if Byte.eqb c x29 then Ok (VArr [], advance 1 s0)
          else goRarr t' f 0 [] s0
    | TMap t' =>
        if negb (at_map s) then Err EDeser
        else goRmap t' f [] (advance 1 s)
    | TRef n =>
        match lookup e n with
        | Some (DRecord incs fs) =>
            let start := negb (r_consumed s) && negb query_reader in
            if negb (at_map s) then Err EDeser
            else
              do r <- goRrec n f (zero_value (S (S (length e))) t) (required_fields (S (length e)) n) (advance 1 s);
              let '(rv, rem, s1) := r in
              let tr2 := record_missing rem (r_tr s1) in
              let raising := start && negb (match t_missing tr2 with [] => true | _ => false end) in
              let rv' := if raising || negb (own_has_default fs) then rv
                         else match rv with VRec ivs fvs => VRec ivs (fill_defaultsS fs fvs) | _ => rv end in
              Ok (rv', with_tr s1 tr2)
        | Some (DUnion nullable ms) =>
            if negb (at_map s) then Err EDeser
            else
              do r <- goRuni ms f (map (fun _ => None) ms) false (advance 1 s);
              let '(uv, wasSet, s') := r in
              if negb nullable && negb wasSet then Err EUnion else Ok (VUnion uv, s')
        | None => Err EType
        end
    end.

  (* ------------------------------------------------ no panic, JSON step ------------------------------------------------ *)
  Section StepJProofs.
    Hypothesis DJ_np : forall top t d tr, np (DJ top t d tr).

    Lemma umfJ_np : forall k n key jd rv tr, np (umfJ k n key jd rv tr).
    Proof.
      induction k as [|k IH]; intros n key jd rv tr; cbn [umfJ]; [apply np_err|].
      destruct (lookup e n) as [[incs fs|nullable ms]|]; try apply np_err.
      destruct rv; try apply np_err.
      apply np_bind'.
      - generalize 0 as pos. generalize incs0 as vs.
        induction incs as [|i is IHis]; intros vs pos; [apply np_ok|].
        destruct vs as [|iv vs]; [apply np_ok|].
        apply np_bind'; [apply IH|]. intros [[found iv'] tr'].
        apply np_if; [apply np_ok|apply IHis].
      - intros [[[pos iv'] tr']|]; [apply np_ok|].
        destruct (index_of key (map f_name fs) 0) as [j|]; [|apply np_ok].
        destruct (nth_error fs j) as [fd|]; [|apply np_err].
        apply np_bind'; [apply DJ_np|]. intros [v tr']. apply np_ok.
    Qed.

    Lemma goJarr_np : forall t' l i acc tr, np (goJarr t' l i acc tr).
    Proof.
      intros t'. induction l as [|x r IH]; intros i acc tr; cbn [goJarr]; [apply np_ok|].
      apply np_bind'; [apply DJ_np|]. intros [v tr']. apply IH.
    Qed.

    Lemma goJmap_np : forall t' l acc tr, np (goJmap t' l acc tr).
    Proof.
      intros t'. induction l as [|[k x] r IH]; intros acc tr; cbn [goJmap]; [apply np_ok|].
      assert (H : np (do tr1 <- enter_map k tr; do rr <- DJ false t' x tr1;
                      let '(v, tr2) := rr in goJmap t' r (map_put k v acc) (pop tr2))).
      { apply np_bind'; [apply enter_map_np|]. intro tr1.
        apply np_bind'; [apply DJ_np|]. intros [v tr2]. apply IH. }
      destruct x; first [apply IH | exact H].
    Qed.

    Lemma goJrec_np : forall n l rv rem tr, np (goJrec n l rv rem tr).
    Proof.
      intros n. induction l as [|[k x] r IH]; intros rv rem tr; cbn [goJrec]; [apply np_ok|].
      assert (H : np (do tr1 <- enter_map k tr; do u <- umfJ (S (length e)) n k x rv tr1;
                      let '(_, rv', tr2) := u in goJrec n r rv' (remove_bytes k rem) (pop tr2))).
      { apply np_bind'; [apply enter_map_np|]. intro tr1.
        apply np_bind'; [apply umfJ_np|]. intros [[found rv'] tr2]. apply IH. }
      destruct x; first [apply IH | exact H].
    Qed.

    Lemma goJuni_np : forall ms l uv wasSet tr, np (goJuni ms l uv wasSet tr).
    Proof.
      intros ms. induction l as [|[k x] r IH]; intros uv wasSet tr; cbn [goJuni]; [apply np_ok|].
      assert (H : np (do tr1 <- enter_map k tr;
                      if wasSet then Err EUnion
                      else match index_of k (map fst ms) 0 with
                           | Some j =>
                               match nth_error ms j with
                               | Some (_, mt) =>
                                   do rr <- DJ false mt x tr1;
                                   let '(v, tr2) := rr in goJuni ms r (set_nth j (Some v) uv) true (pop tr2)
                               | None => Err EType
                               end
                           | None => Err EUnion
                           end)).
      { apply np_bind'; [apply enter_map_np|]. intro tr1.
        apply np_if; [apply np_err|].
        destruct (index_of k (map fst ms) 0) as [j|]; [|apply np_err].
        destruct (nth_error ms j) as [[a mt]|]; [|apply np_err].
        apply np_bind'; [apply DJ_np|]. intros [v tr2]. apply IH. }
      destruct x; first [apply IH | exact H].
    Qed.

    Lemma stepJ_np : forall top t d tr, np (stepJ top t d tr).
    Proof.
      intros top t d tr. unfold stepJ. destruct t as [p|syms|n|n|t'|t'].
      - apply np_bind'; [apply jprim_np|]. intro v. apply np_ok.
      - apply np_bind'; [apply jstring_np|]. intro v. apply np_ok.
      - apply np_bind'; [apply jprim_np|]. intro v. destruct v; try apply np_err. apply np_if; auto with np.
      - destruct (lookup e n) as [[incs fs|nullable ms]|]; [| |apply np_err].
        + apply np_bind'; [destruct d; auto with np|]. intro es.
          apply np_bind'; [apply goJrec_np|]. intros [[rv rem] tr1]. apply np_ok.
        + apply np_bind'; [destruct d; auto with np|]. intro es.
          apply np_bind'; [apply goJuni_np|]. intros [[uv wasSet] tr']. apply np_if; auto with np.
      - destruct d; try apply np_err; try apply np_ok. apply goJarr_np.
      - destruct d; try apply np_err; try apply np_ok. apply goJmap_np.
    Qed.
  End StepJProofs.

  (* ------------------------------------------------ no panic, ROR2 step ------------------------------------------------ *)
  Section StepRProofs.
    Hypothesis D_np : forall t s, np (D t s).

    Lemma umfR_np : forall k n key rv s, np (umfR k n key rv s).
    Proof.
      induction k as [|k IH]; intros n key rv s; cbn [umfR]; [apply np_err|].
      destruct (lookup e n) as [[incs fs|nullable ms]|]; try apply np_err.
      destruct rv; try apply np_err.
      apply np_bind'.
      - generalize 0 as pos. generalize incs0 as vs.
        induction incs as [|i is IHis]; intros vs pos; [apply np_ok|].
        destruct vs as [|iv vs]; [apply np_ok|].
        apply np_bind'; [apply IH|]. intros [[found iv'] s'].
        apply np_if; [apply np_ok|apply IHis].
      - intros [[[pos iv'] s']|]; [apply np_ok|].
        destruct (index_of key (map f_name fs) 0) as [j|]; [|apply np_ok].
        destruct (nth_error fs j) as [fd|]; [|apply np_err].
        apply np_bind'; [apply D_np|]. intros [v s']. apply np_ok.
    Qed.

    Lemma goRarr_np : forall t' k i acc s, np (goRarr t' k i acc s).
    Proof.
      intros t'. induction k as [|k IH]; intros i acc s; cbn [goRarr]; [apply np_err|].
      apply np_bind'; [apply D_np|]. intros [v s1].
      apply np_bind'; [apply read_after_np|]. intros [s2|s2]; [apply IH|apply np_ok].
    Qed.

    Lemma goRmap_np : forall t' k acc s, np (goRmap t' k acc s).
    Proof.
      intros t'. induction k as [|k IH]; intros acc s; cbn [goRmap]; [apply np_err|].
      apply np_bind; [apply check_not_at_end_np|]. intros u Hu.
      apply np_bind'; [exact (check_then_idx_np s u Hu)|]. intro c.
      apply np_if; [apply np_ok|].
      apply np_bind'; [apply read_field_name_np|]. intros [key s1].
      apply np_bind'; [apply enter_map_np|]. intro tr1.
      apply np_bind'; [apply D_np|]. intros [v s2].
      apply np_bind'; [apply read_after_np|]. intros [s3|s3]; [apply IH|apply np_ok].
    Qed.

    Lemma goRrec_np : forall n k rv rem s, np (goRrec n k rv rem s).
    Proof.
      intros n. induction k as [|k IH]; intros rv rem s; cbn [goRrec]; [apply np_err|].
      apply np_bind; [apply check_not_at_end_np|]. intros u Hu.
      apply np_bind'; [exact (check_then_idx_np s u Hu)|]. intro c.
      apply np_if; [apply np_ok|].
      apply np_bind'; [apply read_field_name_np|]. intros [key s1].
      apply np_bind'; [apply enter_map_np|]. intro tr1.
      apply np_bind'; [apply umfR_np|]. intros [[found rv'] s2].
      apply np_bind'; [apply np_if; [apply np_ok|apply rskip_np]|]. intro s2'.
      apply np_bind'; [apply read_after_np|]. intros [s3|s3]; [apply IH|apply np_ok].
    Qed.

    Lemma goRuni_np : forall ms k uv wasSet s, np (goRuni ms k uv wasSet s).
    Proof.
      intros ms. induction k as [|k IH]; intros uv wasSet s; cbn [goRuni]; [apply np_err|].
      apply np_bind; [apply check_not_at_end_np|]. intros u Hu.
      apply np_bind'; [exact (check_then_idx_np s u Hu)|]. intro c.
      apply np_if; [apply np_ok|].
      apply np_bind'; [apply read_field_name_np|]. intros [key s1].
      apply np_bind'; [apply enter_map_np|]. intro tr1.
      apply np_if; [apply np_err|].
      destruct (index_of key (map fst ms) 0) as [j|]; [|apply np_err].
      destruct (nth_error ms j) as [[a mt]|]; [|apply np_err].
      apply np_bind'; [apply D_np|]. intros [v s2].
      apply np_bind'; [apply read_after_np|]. intros [s3|s3]; [apply IH|apply np_ok].
    Qed.

    Lemma stepR_np : forall f t s, np (stepR f t s).
    Proof.
      intros f t s. unfold stepR. destruct t as [p|syms|n|n|t'|t'].
      - apply rprim_np.
      - apply np_bind'; [apply read_string_np|]. intros [x s']. apply np_ok.
      - apply np_bind'; [apply read_string_np|]. intros [x s']. apply np_if; auto with np.
      - destruct (lookup e n) as [[incs fs|nullable ms]|]; [| |apply np_err].
        + cbv zeta. apply np_if; [apply np_err|].
          apply np_bind'; [apply goRrec_np|]. intros [[rv rem] s1]. apply np_ok.
        + apply np_if; [apply np_err|].
          apply np_bind'; [apply goRuni_np|]. intros [[uv wasSet] s']. apply np_if; auto with np.
      - (* the array: the only index that is guarded by atArray instead of checkNotAtEnd *)
        destruct (at_array s) eqn:Harr; cbn [negb]; [|apply np_err].
        cbv zeta. apply np_bind'; [exact (at_array_idx list_prefix s Harr)|]. intro c.
        apply np_if; [apply np_ok|apply goRarr_np].
      - apply np_if; [apply np_err|apply goRmap_np].
    Qed.
  End StepRProofs.
End Step.

(* ---------------------------------------------------------------------------------------------------------------------------
   the re-statement IS the model (by conversion)
   --------------------------------------------------------------------------------------------------------------------------- *)
(* the recursive calls of decJ at the smaller fuel: the children ([top' = false]) under the reader's own exclusion spec; the
   default literals ([top' = true] is used for nothing else: lit_valueS) as NewJsonReader reads them - no spec, scopeToIgnore 0 *)
Definition djmix (e : env) (wildcard : bytes) (excl : pathspec) (ignore : nat) (parseF : nat -> bytes -> option N) (f : nat)
    : bool -> ty -> jdoc -> tracker -> res (value * tracker) :=
  fun top' t d tr =>
    if top' then decJ e wildcard ps_empty 0 parseF f true t d tr else decJ e wildcard excl ignore parseF f false t d tr.

Lemma djmix_false e wildcard excl ignore parseF f t d tr :
  djmix e wildcard excl ignore parseF f false t d tr = decJ e wildcard excl ignore parseF f false t d tr.
Proof. reflexivity. Qed.

Lemma djmix_true e wildcard excl ignore parseF f t d tr :
  djmix e wildcard excl ignore parseF f true t d tr = decJ e wildcard ps_empty 0 parseF f true t d tr.
Proof. reflexivity. Qed.

Lemma decJ_unfold : forall e wildcard excl ignore parseF f top t d tr,
  decJ e wildcard excl ignore parseF (S f) top t d tr
  = stepJ e wildcard excl ignore parseF (djmix e wildcard excl ignore parseF f) top t d tr.
Proof. intros. reflexivity. Qed.

Lemma decR_unfold : forall e wildcard excl ignore parseF unesc empty_marker list_prefix query_reader f t s,
  decR e wildcard excl ignore parseF unesc empty_marker list_prefix query_reader (S f) t s
  = stepR e wildcard excl ignore parseF (djmix e wildcard excl ignore parseF f) unesc empty_marker list_prefix query_reader
      (decR e wildcard excl ignore parseF unesc empty_marker list_prefix query_reader f) f t s.
Proof. intros. reflexivity. Qed.

(* ---------------------------------------------------------------------------------------------------------------------------
   the theorems
   --------------------------------------------------------------------------------------------------------------------------- *)
Theorem decJ_never_panics : forall e wildcard excl ignore parseF fuel top t d tr,
  decJ e wildcard excl ignore parseF fuel top t d tr <> Panic.
Proof.
  intros e wildcard excl ignore parseF fuel. revert excl ignore.
  induction fuel as [|f IH]; intros excl ignore top t d tr.
  - cbn [decJ]. discriminate.
  - rewrite decJ_unfold. apply stepJ_np. intros [|] t0 d0 tr0; unfold djmix; apply IH.
Qed.

Theorem decR_never_panics : forall e wildcard excl ignore parseF unesc empty_marker list_prefix query_reader fuel t s,
  decR e wildcard excl ignore parseF unesc empty_marker list_prefix query_reader fuel t s <> Panic.
Proof.
  intros e wildcard excl ignore parseF unesc empty_marker list_prefix query_reader fuel.
  induction fuel as [|f IH]; intros t s.
  - cbn [decR]. discriminate.
  - rewrite decR_unfold. apply stepR_np. exact IH.
Qed.

Theorem decode_json_never_panics : forall e wildcard excl ignore parseF fuel t data,
  decode_json e wildcard excl ignore parseF fuel t data <> DPanic.
Proof.
  intros e wildcard excl ignore parseF fuel t data. unfold decode_json.
  destruct data as [|c data]; [discriminate|].
  destruct (bytes_eqb (c :: data) lit_null); [discriminate|].
  destruct (parse_json (c :: data)) as [jd|]; [|discriminate].
  pose proof (decJ_never_panics e wildcard excl ignore parseF fuel true t jd tracker0) as H.
  destruct (decJ e wildcard excl ignore parseF fuel true t jd tracker0) as [[v tr]|x|]; cbn [finish].
  - destruct (t_missing tr); [discriminate|]. destruct (is_record e t); discriminate.
  - discriminate.
  - contradiction H; reflexivity.
Qed.

Theorem decode_ror2_never_panics :
  forall e wildcard excl ignore parseF unesc empty_marker list_prefix query_reader fuel qp t data,
  decode_ror2 e wildcard excl ignore parseF unesc empty_marker list_prefix query_reader fuel qp t data <> DPanic.
Proof.
  intros e wildcard excl ignore parseF unesc empty_marker list_prefix query_reader fuel qp t data. unfold decode_ror2.
  destruct (negb (validate_ror2 0 data)); [discriminate|].
  match goal with |- context [decR ?a ?b ?c ?d ?e' ?f ?g ?h ?i ?j ?k ?l] =>
    pose proof (decR_never_panics a b c d e' f g h i j k l) as H; destruct (decR a b c d e' f g h i j k l) as [[v s]|x|] end.
  - cbn [finish]. destruct (t_missing (r_tr s)); [discriminate|].
    match goal with |- context [if ?b then _ else _] => destruct b end; discriminate.
  - discriminate.
  - contradiction H; reflexivity.
Qed.

(* the panic class of the observable outcome is never produced either *)
Corollary decR_class_not_panic : forall e wildcard excl ignore parseF unesc empty_marker list_prefix query_reader fuel t s,
  class_of (decR e wildcard excl ignore parseF unesc empty_marker list_prefix query_reader fuel t s) <> CPanic.
Proof.
  intros. pose proof (decR_never_panics e wildcard excl ignore parseF unesc empty_marker list_prefix query_reader fuel t s) as H.
  destruct (decR e wildcard excl ignore parseF unesc empty_marker list_prefix query_reader fuel t s) as [a|x|].
  - discriminate.
  - destruct x; discriminate.
  - contradiction H; reflexivity.
Qed.
