(* ValidityProofs (C11): the schema validity constraints are enforced by the generated encoders and decoders.

     union   exactly one member is set (at most one when the union is nullable)
     fixed   exactly the declared number of bytes
     enum    only a declared symbol is written; an unknown symbol read from the wire becomes the distinguished unknown
             constant (VEnum 0), never another symbol

   ENCODING ([enc], Codec/Encode.v).  [typed] is the shape of a Go value of the generated type (what the Go type system
   guarantees: an enum is any int32, a fixed is an array of the declared length, a union struct has one pointer per member);
   [valid] is the constraint proper.  [invalid_not_emitted]: a typed value that violates a constraint at a position the writer
   visits is never written (the outcome is an error - never Ok, never a panic) and [invalid_error_class] says which errors;
   [valid_emitted]: nothing else is rejected.

   DECODING ([decJ] over a JSON tree, [decR] over the ROR2 cursor, Codec/Decode.v).  [union_decodes_exactly_one] is the complete
   case analysis of the union decoder on the number of non-null entries of the object; [fixed_size_enforced];
   [unknown_enum_symbol]; and [decJ_dvalid] / [decR_dvalid]: whatever the decoders accept, every union of the result that was
   decoded from the document has exactly one member (none only when nullable), every fixed has its size and every enum is a
   declared constant or the unknown one.

   All statements are for ALL environments, types, values, documents, fuels (induction on the fuel of the model, on top of the
   one-step bodies [enc_body] (CanonProofs) and [stepJ]/[stepR] (Ror2NoPanic), which ARE the model by conversion). *)
From Coq Require Import List Bool Arith ZArith NArith Lia.
From Coq.Strings Require Import Byte.
From GR Require Import Base.Bytes Base.Res Base.Dec Codec.Schema Codec.Doc Codec.Json Codec.Tracker Codec.Encode Codec.Decode
  Proofs.CanonProofs Proofs.Ror2NoPanic.
Import ListNotations.

(* ==================================================================================================================== *)
(* 0. Specification vocabulary                                                                                           *)
(* ==================================================================================================================== *)

(* number of members of a union struct whose pointer is not nil *)
Fixpoint count_set {A} (vs : list (option A)) : nat :=
  match vs with
  | [] => 0
  | Some _ :: r => S (count_set r)
  | None :: r => count_set r
  end.

(* the union constraint *)
Definition union_ok {A} (nullable : bool) (vs : list (option A)) : Prop :=
  count_set vs = 1 \/ (nullable = true /\ count_set vs = 0).

(* nesting depth of a value: the recursion budget [enc] needs is [vdepth v + 1] *)
Fixpoint vdepth (v : value) : nat :=
  let od := fun o : option value => match o with Some x => vdepth x | None => 0 end in
  match v with
  | VRec incs fs => S (Nat.max (list_max (map vdepth incs)) (list_max (map od fs)))
  | VUnion ms => S (list_max (map od ms))
  | VArr l => S (list_max (map vdepth l))
  | VMap es => S (list_max (map (fun kv : bytes * value => let '(_, x) := kv in vdepth x) es))
  | _ => 0
  end.

Section Spec.
  Variable e : env.

  (* the shape of a Go value of the generated type for [t] (static typing; no constraint on enum constants or unions) *)
  Inductive typed : ty -> value -> Prop :=
  | T_int z : typed (TPrim PInt) (VInt z)
  | T_long z : typed (TPrim PLong) (VLong z)
  | T_float b : typed (TPrim PFloat) (VFloat b)
  | T_double b : typed (TPrim PDouble) (VDouble b)
  | T_bool b : typed (TPrim PBool) (VBool b)
  | T_str s : typed (TPrim PString) (VStr s)
  | T_bytes s : typed (TPrim PBytes) (VBytes s)
  | T_enum syms k : typed (TEnum syms) (VEnum k)                             (* type X int32 *)
  | T_fixed n s : length s = n -> typed (TFixed n) (VFixed s)                (* type X [n]byte *)
  | T_arr t l : Forall (typed t) l -> typed (TArray t) (VArr l)
  | T_map t es : Forall (fun kv => typed t (snd kv)) es -> typed (TMap t) (VMap es)
  | T_rec n incs fs ivs fvs :
      lookup e n = Some (DRecord incs fs) ->
      Forall2 (fun i iv => typed (TRef i) iv) incs ivs ->
      Forall2 (fun fd ov => (forall x, ov = Some x -> typed (f_ty fd) x) /\ (ov = None -> is_required (f_opt fd) = false)) fs fvs ->
      typed (TRef n) (VRec ivs fvs)
  | T_union n nullable ms vs :
      lookup e n = Some (DUnion nullable ms) ->
      Forall2 (fun (m : bytes * ty) ov => forall x, ov = Some x -> typed (snd m) x) ms vs ->
      typed (TRef n) (VUnion vs).

  (* the validity constraints, at every position of the value (a position below an unset optional field or an unset union
     member does not exist: there is no value there) *)
  Inductive valid : ty -> value -> Prop :=
  | V_prim p v : valid (TPrim p) v
  | V_enum syms k : 1 <= k <= length syms -> valid (TEnum syms) (VEnum k)
  | V_fixed n v : valid (TFixed n) v                                         (* the size is part of [typed] *)
  | V_arr t l : Forall (valid t) l -> valid (TArray t) (VArr l)
  | V_map t es : Forall (fun kv => valid t (snd kv)) es -> valid (TMap t) (VMap es)
  | V_rec n incs fs ivs fvs :
      lookup e n = Some (DRecord incs fs) ->
      Forall2 (fun i iv => valid (TRef i) iv) incs ivs ->
      Forall2 (fun fd ov => forall x, ov = Some x -> valid (f_ty fd) x) fs fvs ->
      valid (TRef n) (VRec ivs fvs)
  | V_union n nullable ms vs :
      lookup e n = Some (DUnion nullable ms) ->
      union_ok nullable vs ->
      Forall2 (fun (m : bytes * ty) ov => forall x, ov = Some x -> valid (snd m) x) ms vs ->
      valid (TRef n) (VUnion vs).
End Spec.

(* ==================================================================================================================== *)
(* 1. Small facts                                                                                                        *)
(* ==================================================================================================================== *)
Lemma ps_empty_matches w path : ps_matches w ps_empty path = false.
Proof. destruct path; reflexivity. Qed.

Lemma excluded_empty w scope : excluded w ps_empty scope = false.
Proof. apply ps_empty_matches. Qed.

Lemma count_set_zero_none {A} (vs : list (option A)) : count_set vs = 0 -> forall o, In o vs -> o = None.
Proof.
  induction vs as [|[a|] r IH]; simpl; intros H o Ho; try discriminate; [contradiction|].
  destruct Ho as [<-|Ho]; [reflexivity | apply IH; assumption].
Qed.

Lemma list_max_In x l : In x l -> x <= list_max l.
Proof.
  intros H. assert (F : Forall (fun k => k <= list_max l) l) by (apply list_max_le; lia).
  rewrite Forall_forall in F. apply F. exact H.
Qed.

Lemma Forall2_imp {A B} (P Q : A -> B -> Prop) l1 l2 :
  (forall a b, P a b -> Q a b) -> Forall2 P l1 l2 -> Forall2 Q l1 l2.
Proof. intros H F. induction F; constructor; auto. Qed.

Lemma is_ok_false_err {A} (r : res A) : is_panic r = false -> (forall a, r <> Ok a) -> exists x, r = Err x.
Proof. destruct r as [a|x|]; simpl; intros Hp Hn; [destruct (Hn a eq_refl) | exists x; reflexivity | discriminate]. Qed.

(* ==================================================================================================================== *)
(* 2. Encoding: what [Ok] implies (one step, over an abstract recursive call)                                            *)
(* ==================================================================================================================== *)
Section EncOk.
  Variables (e : env) (w : bytes) (rec : list bytes -> ty -> value -> res doc).
  Notation x := ps_empty.
  Hypothesis Hrec : forall scope t v d, rec scope t v = Ok d -> valid e t v.

  Lemma enc_key_valid scope k t v a : enc_key w x rec scope k t v = Ok a -> valid e t v.
  Proof.
    unfold enc_key. rewrite excluded_empty.
    destruct (rec (scope ++ [k]) t v) as [d| |] eqn:E; simpl; try discriminate. intros _. eapply Hrec; exact E.
  Qed.

  Lemma mapM_valid scope t l ds : mapM (rec scope t) l = Ok ds -> Forall (valid e t) l.
  Proof.
    revert ds. induction l as [|v r IH]; intros ds H; [constructor|]. simpl in H.
    destruct (rec scope t v) as [d| |] eqn:E; simpl in H; try discriminate.
    destruct (mapM (rec scope t) r) as [ds'| |]; simpl in H; try discriminate.
    constructor; [eapply Hrec; exact E | eapply IH; reflexivity].
  Qed.

  Lemma map_entries_valid scope t es ents :
    map_entries w x rec scope t es = Ok ents -> Forall (fun kv => valid e t (snd kv)) es.
  Proof.
    revert ents. induction es as [|[k v] r IH]; intros ents H; [constructor|]. rewrite map_entries_cons in H.
    destruct (enc_key w x rec scope k t v) as [a| |] eqn:Ea; simpl in H; try discriminate.
    destruct (map_entries w x rec scope t r) as [b| |]; simpl in H; try discriminate.
    constructor; [simpl; eapply enc_key_valid; exact Ea | eapply IH; reflexivity].
  Qed.

  Lemma inc_entries_valid scope incs ivs ents :
    inc_entries rec scope incs ivs = Ok ents -> Forall2 (fun i iv => valid e (TRef i) iv) incs ivs.
  Proof.
    revert ivs ents. induction incs as [|i incs IH]; intros [|iv ivs] ents H; try discriminate; [constructor|].
    rewrite inc_entries_cons in H.
    destruct (rec scope (TRef i) iv) as [d| |] eqn:E; simpl in H; try discriminate.
    destruct (match d with DObj en => Ok en | _ => Err EType end) as [a| |]; simpl in H; try discriminate.
    destruct (inc_entries rec scope incs ivs) as [b| |] eqn:Eb; simpl in H; try discriminate.
    constructor; [eapply Hrec; exact E | eapply IH; exact Eb].
  Qed.

  Lemma fields_entries_valid scope fs fvs own :
    fields_entries w x rec scope fs fvs = Ok own -> Forall2 (fun fd ov => forall y, ov = Some y -> valid e (f_ty fd) y) fs fvs.
  Proof.
    revert fvs own. induction fs as [|fd fs IH]; intros [|ov fvs] own H; try discriminate; [constructor|].
    rewrite fields_entries_cons in H.
    destruct (match ov with Some v' => enc_key w x rec scope (f_name fd) (f_ty fd) v'
                          | None => if is_required (f_opt fd) then Err EType else Ok [] end) as [a| |] eqn:Ea;
      simpl in H; try discriminate.
    destruct (fields_entries w x rec scope fs fvs) as [b| |] eqn:Eb; simpl in H; try discriminate.
    constructor; [|eapply IH; exact Eb].
    intros y ->. eapply enc_key_valid; exact Ea.
  Qed.

  (* the union loop (validateAllMembers): it succeeds only when no member is set after a set one *)
  Lemma union_entries_ok_inv scope mts vs isSet r :
    union_entries w x rec scope mts vs isSet = Ok r ->
    Forall2 (fun (m : bytes * ty) ov => forall y, ov = Some y -> valid e (snd m) y) mts vs /\
    (if isSet then count_set vs = 0 /\ snd r = true
     else (count_set vs = 0 /\ snd r = false) \/ (count_set vs = 1 /\ snd r = true)).
  Proof.
    revert vs isSet r. induction mts as [|[alias mt] mts IH]; intros [|ov vs] isSet r H; try discriminate.
    - simpl in H. inversion H; subst; simpl. split; [constructor|]. destruct isSet; auto.
    - rewrite union_entries_cons in H. destruct ov as [v'|].
      + destruct isSet; [discriminate|].
        destruct (enc_key w x rec scope alias mt v') as [a| |] eqn:Ea; simpl in H; try discriminate.
        destruct (union_entries w x rec scope mts vs true) as [br| |] eqn:Eb; simpl in H; try discriminate.
        inversion H; subst r; clear H. destruct (IH _ _ _ Eb) as [F [C S]]. simpl. split.
        * constructor; [|exact F]. intros y Hy; inversion Hy; subst. eapply enc_key_valid; exact Ea.
        * right. split; [rewrite C; reflexivity | exact S].
      + destruct (IH _ _ _ H) as [F C]. split; [|exact C]. constructor; [|exact F]. intros y Hy; discriminate.
  Qed.

  Lemma enc_body_valid scope t v d : enc_body e w x rec scope t v = Ok d -> valid e t v.
  Proof.
    destruct t as [p|syms|sz|n|t'|t']; try (intros; constructor; fail).
    - destruct v; simpl; try discriminate. destruct k as [|i]; [discriminate|].
      destruct (nth_error syms i) eqn:E; [|discriminate]. intros _. constructor.
      assert (i < length syms) by (apply nth_error_Some; congruence). lia.
    - destruct v; simpl; try discriminate.
      + destruct (lookup e n) as [[incs0 fs0|nullable mems]|] eqn:L; try discriminate.
        destruct (inc_entries rec scope incs0 incs) as [a| |] eqn:Ea; simpl; try discriminate.
        destruct (fields_entries w x rec scope fs0 fields) as [b| |] eqn:Eb; simpl; try discriminate.
        intros _. eapply V_rec; [exact L | eapply inc_entries_valid; exact Ea | eapply fields_entries_valid; exact Eb].
      + destruct (lookup e n) as [[incs0 fs0|nullable mems]|] eqn:L; try discriminate.
        destruct (union_entries w x rec scope mems members false) as [r| |] eqn:Eu; simpl; try discriminate.
        destruct (union_entries_ok_inv _ _ _ _ _ Eu) as [F C]. simpl in C.
        destruct (negb nullable && negb (snd r)) eqn:G; [discriminate|]. intros _.
        eapply V_union; [exact L | | exact F]. unfold union_ok.
        destruct C as [[C S]|[C S]]; [|left; exact C]. right. split; [|exact C].
        rewrite S in G. destruct nullable; [reflexivity | discriminate].
    - destruct v; simpl; try discriminate.
      destruct (mapM (rec (scope ++ [w]) t') l) as [ds| |] eqn:E; simpl; try discriminate.
      intros _. constructor. eapply mapM_valid; exact E.
    - destruct v; simpl; try discriminate.
      destruct (map_entries w x rec scope t' es) as [en| |] eqn:E; simpl; try discriminate.
      intros _. constructor. eapply map_entries_valid; exact E.
  Qed.
End EncOk.

Theorem enc_ok_valid : forall e w fuel scope t v d, enc e w ps_empty fuel scope t v = Ok d -> valid e t v.
Proof.
  intros e w fuel. induction fuel as [|f IH]; intros scope t v d H; [discriminate|].
  rewrite enc_S in H. eapply enc_body_valid; [|exact H]. exact IH.
Qed.

(* THEOREM (invalid values are never written).  No typing premise is needed for this direction. *)
Theorem invalid_not_emitted : forall e wildcard fuel scope t v,
  ~ valid e t v -> exists x, enc e wildcard ps_empty fuel scope t v = Err x.
Proof.
  intros e w fuel scope t v Hn. apply is_ok_false_err; [apply enc_no_panic|].
  intros d Hd. apply Hn. eapply enc_ok_valid; exact Hd.
Qed.

(* ==================================================================================================================== *)
(* 3. Encoding: the individual rejections, explicitly (any exclusion spec, any recursive call)                            *)
(* ==================================================================================================================== *)
Section EncErr.
  Variables (e : env) (w : bytes) (x : pathspec) (rec : list bytes -> ty -> value -> res doc).

  Definition b2n (b : bool) : nat := if b then 1 else 0.

  (* no member set: the loop writes nothing and reports isSet unchanged *)
  Lemma union_entries_none_set scope mts vs isSet :
    length vs = length mts -> count_set vs = 0 -> union_entries w x rec scope mts vs isSet = Ok ([], isSet).
  Proof.
    revert vs. induction mts as [|[alias mt] mts IH]; intros [|ov vs] L C; try discriminate; [reflexivity|].
    rewrite union_entries_cons. destruct ov; [discriminate|]. apply IH; [simpl in L; lia | exact C].
  Qed.

  (* a member set after a set one: EUnion, unless the encoding of an earlier set member failed first *)
  Lemma union_entries_second_set scope mts vs isSet :
    Forall2 (fun (m : bytes * ty) ov => forall v, ov = Some v -> exists a, enc_key w x rec scope (fst m) (snd m) v = Ok a) mts vs ->
    2 <= count_set vs + b2n isSet ->
    union_entries w x rec scope mts vs isSet = Err EUnion.
  Proof.
    intros F. revert isSet. induction F as [|[alias mt] ov mts vs Hm F IH]; intros isSet C.
    - destruct isSet; simpl in C; lia.
    - rewrite union_entries_cons. destruct ov as [v|]; [|apply IH; exact C].
      destruct isSet; [reflexivity|]. destruct (Hm v eq_refl) as [a Ha]. simpl in Ha. rewrite Ha. simpl.
      rewrite IH; [reflexivity|]. simpl in *. lia.
  Qed.

  (* whatever the members do, the loop never succeeds with two members set *)
  Lemma union_entries_ok_count scope mts vs isSet r :
    union_entries w x rec scope mts vs isSet = Ok r -> count_set vs + b2n isSet <= 1.
  Proof.
    revert vs isSet r. induction mts as [|[alias mt] mts IH]; intros [|ov vs] isSet r H; try discriminate.
    - destruct isSet; simpl; lia.
    - rewrite union_entries_cons in H. destruct ov as [v'|]; [|simpl; eapply IH; exact H].
      destruct isSet; [discriminate|].
      destruct (enc_key w x rec scope alias mt v') as [a| |]; simpl in H; try discriminate.
      destruct (union_entries w x rec scope mts vs true) as [br| |] eqn:Eb; simpl in H; try discriminate.
      apply IH in Eb. simpl in *. lia.
  Qed.

  Lemma enc_body_union_zero scope n ms vs :
    lookup e n = Some (DUnion false ms) -> length vs = length ms -> count_set vs = 0 ->
    enc_body e w x rec scope (TRef n) (VUnion vs) = Err EUnion.
  Proof. intros L Hl C. simpl. rewrite L, union_entries_none_set by assumption. reflexivity. Qed.

  Lemma enc_body_union_many scope n nullable ms vs :
    lookup e n = Some (DUnion nullable ms) -> 2 <= count_set vs ->
    (forall d, enc_body e w x rec scope (TRef n) (VUnion vs) <> Ok d) /\
    (Forall2 (fun (m : bytes * ty) ov => forall v, ov = Some v -> exists a, enc_key w x rec scope (fst m) (snd m) v = Ok a) ms vs ->
     enc_body e w x rec scope (TRef n) (VUnion vs) = Err EUnion).
  Proof.
    intros L C. simpl. rewrite L. split.
    - intros d. destruct (union_entries w x rec scope ms vs false) as [r|err|] eqn:E; simpl; try discriminate.
      apply union_entries_ok_count in E. simpl in E. lia.
    - intros F. rewrite union_entries_second_set; [reflexivity | exact F | simpl; lia].
  Qed.

  Lemma enc_body_enum_illegal scope syms k :
    ~ (1 <= k <= length syms) -> enc_body e w x rec scope (TEnum syms) (VEnum k) = Err EEnumConst.
  Proof.
    intros H. simpl. destruct k as [|i]; [reflexivity|]. destruct (nth_error syms i) eqn:E; [|reflexivity].
    exfalso. apply H. assert (i < length syms) by (apply nth_error_Some; congruence). lia.
  Qed.
End EncErr.

(* the same three facts about [enc] itself *)
Theorem enc_union_zero_members : forall e w x f scope n ms vs,
  lookup e n = Some (DUnion false ms) -> length vs = length ms -> count_set vs = 0 ->
  enc e w x (S f) scope (TRef n) (VUnion vs) = Err EUnion.
Proof. intros. rewrite enc_S. eapply enc_body_union_zero; eassumption. Qed.

Theorem enc_union_many_members : forall e w x f scope n nullable ms vs,
  lookup e n = Some (DUnion nullable ms) -> 2 <= count_set vs ->
  (exists err, enc e w x (S f) scope (TRef n) (VUnion vs) = Err err) /\
  (Forall2 (fun (m : bytes * ty) ov => forall v, ov = Some v ->
              exists d, excluded w x (scope ++ [fst m]) = false /\ enc e w x f (scope ++ [fst m]) (snd m) v = Ok d) ms vs ->
   enc e w x (S f) scope (TRef n) (VUnion vs) = Err EUnion).
Proof.
  intros e w x f scope n nullable ms vs L C. rewrite enc_S.
  destruct (enc_body_union_many e w x (enc e w x f) scope n nullable ms vs L C) as [H1 H2]. split.
  - apply is_ok_false_err; [rewrite <- enc_S; apply enc_no_panic | exact H1].
  - intros F. apply H2. eapply Forall2_imp; [|exact F]. intros m ov H v Hv.
    destruct (H v Hv) as [d [Hx Hd]]. unfold enc_key. rewrite Hx, Hd. eexists; reflexivity.
Qed.

Theorem enc_enum_illegal : forall e w x f scope syms k,
  ~ (1 <= k <= length syms) -> enc e w x (S f) scope (TEnum syms) (VEnum k) = Err EEnumConst.
Proof. intros. rewrite enc_S. apply enc_body_enum_illegal. assumption. Qed.

(* ==================================================================================================================== *)
(* 4. Encoding: a typed valid value is written (nothing else is rejected)                                                *)
(* ==================================================================================================================== *)
Lemma vdepth_arr x l : In x l -> vdepth x < vdepth (VArr l).
Proof. intros H. cbn [vdepth]. apply Nat.lt_succ_r. apply list_max_In. apply in_map. exact H. Qed.

Lemma vdepth_map k x es : In (k, x) es -> vdepth x < vdepth (VMap es).
Proof.
  intros H. cbn [vdepth]. apply Nat.lt_succ_r. apply list_max_In.
  apply (in_map (fun kv : bytes * value => let '(_, y) := kv in vdepth y)) in H. exact H.
Qed.

Lemma vdepth_inc x ivs fvs : In x ivs -> vdepth x < vdepth (VRec ivs fvs).
Proof.
  intros H. cbn [vdepth]. apply Nat.lt_succ_r. etransitivity; [|apply Nat.le_max_l]. apply list_max_In. apply in_map. exact H.
Qed.

Lemma vdepth_field x ivs fvs : In (Some x) fvs -> vdepth x < vdepth (VRec ivs fvs).
Proof.
  intros H. cbn [vdepth]. apply Nat.lt_succ_r. etransitivity; [|apply Nat.le_max_r]. apply list_max_In.
  apply (in_map (fun o : option value => match o with Some y => vdepth y | None => 0 end)) in H. exact H.
Qed.

Lemma vdepth_member x vs : In (Some x) vs -> vdepth x < vdepth (VUnion vs).
Proof.
  intros H. cbn [vdepth]. apply Nat.lt_succ_r. apply list_max_In.
  apply (in_map (fun o : option value => match o with Some y => vdepth y | None => 0 end)) in H. exact H.
Qed.

Lemma enc_noop_valid e t v : valid e t v -> enc_noop t v = Ok tt.
Proof.
  intros H. inversion H; subst; try reflexivity. simpl.
  destruct k as [|i]; [lia|]. destruct (nth_error syms i) eqn:E; [reflexivity|].
  apply nth_error_None in E. lia.
Qed.

Lemma enc_body_ref_obj e w x rec scope n v d :
  enc_body e w x rec scope (TRef n) v = Ok d -> exists en, d = DObj en.
Proof.
  destruct v; simpl; try discriminate; destruct (lookup e n) as [[incs0 fs0|nullable mems]|]; try discriminate.
  - destruct (inc_entries rec scope incs0 incs) as [a| |]; simpl; try discriminate.
    destruct (fields_entries w x rec scope fs0 fields) as [b| |]; simpl; try discriminate.
    intros H; inversion H. eexists; reflexivity.
  - destruct (union_entries w x rec scope mems members false) as [r| |]; simpl; try discriminate.
    destruct (negb nullable && negb (snd r)); [discriminate|]. intros H; inversion H. eexists; reflexivity.
Qed.

Lemma enc_ref_obj e w x f scope n v d : enc e w x f scope (TRef n) v = Ok d -> exists en, d = DObj en.
Proof. destruct f; [discriminate|]. rewrite enc_S. apply enc_body_ref_obj. Qed.

Section EncValid.
  Variables (e : env) (w : bytes) (x : pathspec) (rec : list bytes -> ty -> value -> res doc) (F : nat).
  Hypothesis Hrec : forall scope t v, typed e t v -> valid e t v -> vdepth v < F -> exists d, rec scope t v = Ok d.
  Hypothesis Hobj : forall scope n v d, rec scope (TRef n) v = Ok d -> exists en, d = DObj en.

  Lemma enc_key_emit scope k t v :
    typed e t v -> valid e t v -> vdepth v < F -> exists a, enc_key w x rec scope k t v = Ok a.
  Proof.
    intros Ht Hv Hd. unfold enc_key. destruct (excluded w x (scope ++ [k])).
    - rewrite (enc_noop_valid e t v Hv). eexists; reflexivity.
    - destruct (Hrec (scope ++ [k]) t v Ht Hv Hd) as [d ->]. eexists; reflexivity.
  Qed.

  Lemma mapM_emit scope t l :
    Forall (typed e t) l -> Forall (valid e t) l -> (forall y, In y l -> vdepth y < F) -> exists ds, mapM (rec scope t) l = Ok ds.
  Proof.
    induction l as [|v r IH]; intros Ht Hv Hd; [eexists; reflexivity|].
    inversion Ht; subst. inversion Hv; subst. simpl.
    destruct (Hrec scope t v) as [d ->]; [assumption | assumption | apply Hd; left; reflexivity |].
    destruct IH as [ds ->]; [assumption | assumption | intros y Hy; apply Hd; right; exact Hy |].
    eexists; reflexivity.
  Qed.

  Lemma map_entries_emit scope t es :
    Forall (fun kv => typed e t (snd kv)) es -> Forall (fun kv => valid e t (snd kv)) es ->
    (forall k y, In (k, y) es -> vdepth y < F) -> exists ents, map_entries w x rec scope t es = Ok ents.
  Proof.
    induction es as [|[k v] r IH]; intros Ht Hv Hd; [eexists; reflexivity|].
    inversion Ht; subst. inversion Hv; subst. rewrite map_entries_cons.
    destruct (enc_key_emit scope k t v) as [a ->]; [assumption | assumption | apply (Hd k); left; reflexivity |].
    destruct IH as [b ->]; [assumption | assumption | intros k' y Hy; apply (Hd k'); right; exact Hy |].
    eexists; reflexivity.
  Qed.

  Lemma inc_entries_emit scope incs ivs :
    Forall2 (fun i iv => typed e (TRef i) iv) incs ivs -> Forall2 (fun i iv => valid e (TRef i) iv) incs ivs ->
    (forall y, In y ivs -> vdepth y < F) -> exists ents, inc_entries rec scope incs ivs = Ok ents.
  Proof.
    intros Ht. induction Ht as [|i iv incs ivs Hi Ht IH]; intros Hv Hd; [eexists; reflexivity|].
    inversion Hv; subst. rewrite inc_entries_cons.
    destruct (Hrec scope (TRef i) iv) as [d Ed]; [assumption | assumption | apply Hd; left; reflexivity |].
    rewrite Ed. destruct (Hobj _ _ _ _ Ed) as [en ->]. simpl.
    destruct IH as [b ->]; [assumption | intros y Hy; apply Hd; right; exact Hy |].
    eexists; reflexivity.
  Qed.

  Lemma fields_entries_emit scope fs fvs :
    Forall2 (fun fd ov => (forall y, ov = Some y -> typed e (f_ty fd) y) /\ (ov = None -> is_required (f_opt fd) = false)) fs fvs ->
    Forall2 (fun fd ov => forall y, ov = Some y -> valid e (f_ty fd) y) fs fvs ->
    (forall y, In (Some y) fvs -> vdepth y < F) -> exists own, fields_entries w x rec scope fs fvs = Ok own.
  Proof.
    intros Ht. induction Ht as [|fd ov fs fvs [Hs Hn] Ht IH]; intros Hv Hd; [eexists; reflexivity|].
    inversion Hv; subst. rewrite fields_entries_cons.
    destruct IH as [b Eb]; [assumption | intros y Hy; apply Hd; right; exact Hy |]. rewrite Eb.
    destruct ov as [v|].
    - destruct (enc_key_emit scope (f_name fd) (f_ty fd) v) as [a ->]; [auto | auto | apply Hd; left; reflexivity |].
      eexists; reflexivity.
    - rewrite (Hn eq_refl). eexists; reflexivity.
  Qed.

  Lemma union_entries_emit scope mts vs isSet :
    Forall2 (fun (m : bytes * ty) ov => forall y, ov = Some y -> typed e (snd m) y) mts vs ->
    Forall2 (fun (m : bytes * ty) ov => forall y, ov = Some y -> valid e (snd m) y) mts vs ->
    (forall y, In (Some y) vs -> vdepth y < F) -> count_set vs + b2n isSet <= 1 ->
    exists r, union_entries w x rec scope mts vs isSet = Ok r /\ snd r = (isSet || negb (Nat.eqb (count_set vs) 0)).
  Proof.
    intros Ht. revert isSet. induction Ht as [|[alias mt] ov mts vs Hm Ht IH]; intros isSet Hv Hd C.
    - eexists; split; [reflexivity|]. simpl. destruct isSet; reflexivity.
    - inversion Hv; subst. rewrite union_entries_cons. destruct ov as [v|].
      + destruct isSet; [simpl in C; lia|].
        destruct (enc_key_emit scope alias mt v) as [a ->]; [apply Hm; reflexivity | auto | apply Hd; left; reflexivity |].
        destruct (IH true) as [r [Er Sr]]; [assumption | intros y Hy; apply Hd; right; exact Hy | simpl in *; lia |].
        rewrite Er. eexists; split; [reflexivity|]. simpl. exact Sr.
      + destruct (IH isSet) as [r [Er Sr]]; [assumption | intros y Hy; apply Hd; right; exact Hy | exact C |].
        exists r. split; [exact Er | exact Sr].
  Qed.

  Lemma enc_body_emit scope t v :
    typed e t v -> valid e t v -> vdepth v <= F -> exists d, enc_body e w x rec scope t v = Ok d.
  Proof.
    intros Ht Hv Hd. inversion Ht; subst; try (eexists; reflexivity).
    - inversion Hv; subst. simpl. destruct k as [|i]; [lia|]. destruct (nth_error syms i) eqn:E; [eexists; reflexivity|].
      apply nth_error_None in E. lia.
    - inversion Hv; subst. simpl.
      destruct (mapM_emit (scope ++ [w]) t0 l) as [ds ->]; [assumption | assumption | | eexists; reflexivity].
      intros y Hy. apply vdepth_arr in Hy. lia.
    - inversion Hv; subst. simpl.
      destruct (map_entries_emit scope t0 es) as [en ->]; [assumption | assumption | | eexists; reflexivity].
      intros k y Hy. apply vdepth_map in Hy. lia.
    - inversion Hv; subst. simpl. rewrite H.
      assert (incs0 = incs /\ fs0 = fs) as [-> ->] by (split; congruence).
      destruct (inc_entries_emit scope incs ivs) as [a ->]; [assumption | assumption | |].
      { intros y Hy. apply (vdepth_inc y ivs fvs) in Hy. lia. }
      destruct (fields_entries_emit scope fs fvs) as [b ->]; [assumption | assumption | |].
      { intros y Hy. apply (vdepth_field y ivs fvs) in Hy. lia. }
      eexists; reflexivity.
    - inversion Hv; subst. simpl. rewrite H.
      assert (nullable0 = nullable /\ ms0 = ms) as [-> ->] by (split; congruence).
      destruct (union_entries_emit scope ms vs false) as [r [-> Sr]]; [assumption | assumption | | |].
      { intros y Hy. apply vdepth_member in Hy. lia. }
      { unfold union_ok in *. simpl. lia. }
      simpl. rewrite Sr. simpl.
      match goal with Hu : union_ok _ _ |- _ => destruct Hu as [C|[-> C]] end; rewrite C; simpl; [rewrite andb_false_r|]; eexists; reflexivity.
  Qed.
End EncValid.

(* THEOREM (valid values are written): with ANY exclusion spec, a typed valid value is encoded as soon as the recursion
   budget exceeds its nesting depth.  The only further premise is typing itself (which holds the fixed's length). *)
Theorem valid_emitted : forall e wildcard excl fuel scope t v,
  typed e t v -> valid e t v -> vdepth v < fuel -> exists d, enc e wildcard excl fuel scope t v = Ok d.
Proof.
  intros e w x fuel. induction fuel as [|f IH]; intros scope t v Ht Hv Hd; [lia|].
  rewrite enc_S. eapply enc_body_emit with (F := f); [exact IH | apply enc_ref_obj | exact Ht | exact Hv | lia].
Qed.

(* ==================================================================================================================== *)
(* 5. Encoding: WHICH error.  On a typed value and a sufficient budget the only errors the encoder can raise are the two   *)
(*    validity errors (the model artefacts EType and EFuel are excluded by the premises).                                  *)
(* ==================================================================================================================== *)
Definition validity_error (x : err) : Prop := x = EUnion \/ x = EEnumConst.

Lemma enc_noop_err t v x : enc_noop t v = Err x -> x = EEnumConst.
Proof.
  destruct t; try discriminate. destruct v; try discriminate. simpl. destruct k as [|i]; [congruence|].
  destruct (nth_error symbols i); [discriminate | congruence].
Qed.

Section EncClass.
  Variables (e : env) (w : bytes) (x : pathspec) (rec : list bytes -> ty -> value -> res doc) (F : nat).
  Hypothesis Hrec : forall scope t v err, typed e t v -> vdepth v < F -> rec scope t v = Err err -> validity_error err.
  Hypothesis Hobj : forall scope n v d, rec scope (TRef n) v = Ok d -> exists en, d = DObj en.

  Lemma enc_key_cls scope k t v err :
    typed e t v -> vdepth v < F -> enc_key w x rec scope k t v = Err err -> validity_error err.
  Proof.
    intros Ht Hd. unfold enc_key. destruct (excluded w x (scope ++ [k])).
    - destruct (enc_noop t v) as [u|y|] eqn:E; simpl; try discriminate. intros H; inversion H; subst.
      right. eapply enc_noop_err; exact E.
    - destruct (rec (scope ++ [k]) t v) as [d|y|] eqn:E; simpl; try discriminate. intros H; inversion H; subst.
      eapply Hrec; eassumption.
  Qed.

  Lemma mapM_cls scope t l err :
    Forall (typed e t) l -> (forall y, In y l -> vdepth y < F) -> mapM (rec scope t) l = Err err -> validity_error err.
  Proof.
    induction l as [|v r IH]; intros Ht Hd H; [discriminate|]. inversion Ht; subst. simpl in H.
    destruct (rec scope t v) as [d|y|] eqn:E; simpl in H; try discriminate.
    - destruct (mapM (rec scope t) r) as [ds|y|] eqn:E2; simpl in H; try discriminate. inversion H; subst.
      apply IH; [assumption | intros z Hz; apply Hd; right; exact Hz | reflexivity].
    - inversion H; subst. eapply Hrec; [eassumption | apply Hd; left; reflexivity | exact E].
  Qed.

  Lemma map_entries_cls scope t es err :
    Forall (fun kv => typed e t (snd kv)) es -> (forall k y, In (k, y) es -> vdepth y < F) ->
    map_entries w x rec scope t es = Err err -> validity_error err.
  Proof.
    induction es as [|[k v] r IH]; intros Ht Hd H; [discriminate|]. inversion Ht; subst. rewrite map_entries_cons in H.
    destruct (enc_key w x rec scope k t v) as [a|y|] eqn:E; simpl in H; try discriminate.
    - destruct (map_entries w x rec scope t r) as [b|y|] eqn:E2; simpl in H; try discriminate. inversion H; subst.
      apply IH; [assumption | intros k' z Hz; apply (Hd k'); right; exact Hz | reflexivity].
    - inversion H; subst. eapply enc_key_cls; [eassumption | apply (Hd k); left; reflexivity | exact E].
  Qed.

  Lemma inc_entries_cls scope incs ivs err :
    Forall2 (fun i iv => typed e (TRef i) iv) incs ivs -> (forall y, In y ivs -> vdepth y < F) ->
    inc_entries rec scope incs ivs = Err err -> validity_error err.
  Proof.
    intros Ht. induction Ht as [|i iv incs ivs Hi Ht IH]; intros Hd H; [discriminate|]. rewrite inc_entries_cons in H.
    destruct (rec scope (TRef i) iv) as [d|y|] eqn:E; simpl in H; try discriminate.
    - destruct (Hobj _ _ _ _ E) as [en ->]. simpl in H.
      destruct (inc_entries rec scope incs ivs) as [b|y|] eqn:E2; simpl in H; try discriminate. inversion H; subst.
      apply IH; [intros z Hz; apply Hd; right; exact Hz | reflexivity].
    - inversion H; subst. eapply Hrec; [exact Hi | apply Hd; left; reflexivity | exact E].
  Qed.

  Lemma fields_entries_cls scope fs fvs err :
    Forall2 (fun fd ov => (forall y, ov = Some y -> typed e (f_ty fd) y) /\ (ov = None -> is_required (f_opt fd) = false)) fs fvs ->
    (forall y, In (Some y) fvs -> vdepth y < F) ->
    fields_entries w x rec scope fs fvs = Err err -> validity_error err.
  Proof.
    intros Ht. induction Ht as [|fd ov fs fvs [Hs Hn] Ht IH]; intros Hd H; [discriminate|]. rewrite fields_entries_cons in H.
    destruct ov as [v|].
    - destruct (enc_key w x rec scope (f_name fd) (f_ty fd) v) as [a|y|] eqn:E; simpl in H; try discriminate.
      + destruct (fields_entries w x rec scope fs fvs) as [b|y|] eqn:E2; simpl in H; try discriminate. inversion H; subst.
        apply IH; [intros z Hz; apply Hd; right; exact Hz | reflexivity].
      + inversion H; subst. eapply enc_key_cls; [apply Hs; reflexivity | apply Hd; left; reflexivity | exact E].
    - rewrite (Hn eq_refl) in H. simpl in H.
      destruct (fields_entries w x rec scope fs fvs) as [b|y|] eqn:E2; simpl in H; try discriminate. inversion H; subst.
      apply IH; [intros z Hz; apply Hd; right; exact Hz | reflexivity].
  Qed.

  Lemma union_entries_cls scope mts vs isSet err :
    Forall2 (fun (m : bytes * ty) ov => forall y, ov = Some y -> typed e (snd m) y) mts vs ->
    (forall y, In (Some y) vs -> vdepth y < F) ->
    union_entries w x rec scope mts vs isSet = Err err -> validity_error err.
  Proof.
    intros Ht. revert isSet. induction Ht as [|[alias mt] ov mts vs Hm Ht IH]; intros isSet Hd H; [discriminate|].
    rewrite union_entries_cons in H. destruct ov as [v|].
    - destruct isSet; [inversion H; left; reflexivity|].
      destruct (enc_key w x rec scope alias mt v) as [a|y|] eqn:E; simpl in H; try discriminate.
      + destruct (union_entries w x rec scope mts vs true) as [b|y|] eqn:E2; simpl in H; try discriminate. inversion H; subst.
        eapply IH; [intros z Hz; apply Hd; right; exact Hz | exact E2].
      + inversion H; subst. eapply enc_key_cls; [apply Hm; reflexivity | apply Hd; left; reflexivity | exact E].
    - eapply IH; [intros z Hz; apply Hd; right; exact Hz | exact H].
  Qed.

  Lemma enc_body_cls scope t v err :
    typed e t v -> vdepth v <= F -> enc_body e w x rec scope t v = Err err -> validity_error err.
  Proof.
    intros Ht Hd. inversion Ht; subst; try discriminate.
    - simpl. destruct k as [|i]; [intros H; inversion H; right; reflexivity|].
      destruct (nth_error syms i); [discriminate|]. intros H; inversion H; right; reflexivity.
    - simpl. destruct (mapM (rec (scope ++ [w]) t0) l) as [ds|y|] eqn:E; simpl; try discriminate.
      intros H'; inversion H'; subst. eapply mapM_cls; [eassumption | | exact E].
      intros y Hy. apply vdepth_arr in Hy. lia.
    - simpl. destruct (map_entries w x rec scope t0 es) as [en|y|] eqn:E; simpl; try discriminate.
      intros H'; inversion H'; subst. eapply map_entries_cls; [eassumption | | exact E].
      intros k y Hy. apply vdepth_map in Hy. lia.
    - simpl. rewrite H.
      destruct (inc_entries rec scope incs ivs) as [a|y|] eqn:E; simpl; try discriminate.
      + destruct (fields_entries w x rec scope fs fvs) as [b|y|] eqn:E2; simpl; try discriminate.
        intros H'; inversion H'; subst. eapply fields_entries_cls; [eassumption | | exact E2].
        intros y Hy. apply (vdepth_field y ivs fvs) in Hy. lia.
      + intros H'; inversion H'; subst. eapply inc_entries_cls; [eassumption | | exact E].
        intros y Hy. apply (vdepth_inc y ivs fvs) in Hy. lia.
    - simpl. rewrite H.
      destruct (union_entries w x rec scope ms vs false) as [r|y|] eqn:E; simpl; try discriminate.
      + destruct (negb nullable && negb (snd r)); [|discriminate]. intros H'; inversion H'; left; reflexivity.
      + intros H'; inversion H'; subst. eapply union_entries_cls; [eassumption | | exact E].
        intros y Hy. apply vdepth_member in Hy. lia.
  Qed.
End EncClass.

Theorem typed_error_class : forall e wildcard excl fuel scope t v err,
  typed e t v -> vdepth v < fuel -> enc e wildcard excl fuel scope t v = Err err -> validity_error err.
Proof.
  intros e w x fuel. induction fuel as [|f IH]; intros scope t v err Ht Hd H; [lia|].
  rewrite enc_S in H. eapply enc_body_cls with (F := f); [exact IH | apply enc_ref_obj | exact Ht | lia | exact H].
Qed.

(* THEOREM (the complete outcome on typed values): written iff valid; otherwise rejected with a validity error. *)
Theorem typed_encode_outcome : forall e wildcard fuel scope t v,
  typed e t v -> vdepth v < fuel ->
  (valid e t v /\ exists d, enc e wildcard ps_empty fuel scope t v = Ok d) \/
  (~ valid e t v /\ (enc e wildcard ps_empty fuel scope t v = Err EUnion \/ enc e wildcard ps_empty fuel scope t v = Err EEnumConst)).
Proof.
  intros e w fuel scope t v Ht Hd.
  destruct (enc e w ps_empty fuel scope t v) as [d|err|] eqn:E.
  - left. split; [eapply enc_ok_valid; exact E | exists d; reflexivity].
  - right. split.
    + intros Hv. destruct (valid_emitted e w ps_empty fuel scope t v Ht Hv Hd) as [d Ed]. congruence.
    + destruct (typed_error_class _ _ _ _ _ _ _ _ Ht Hd E) as [->| ->]; [left | right]; reflexivity.
  - pose proof (enc_no_panic e w ps_empty fuel scope t v) as Hp. rewrite E in Hp. discriminate.
Qed.

(* ==================================================================================================================== *)
(* 6. Decoding: enum and fixed                                                                                           *)
(* ==================================================================================================================== *)
Lemma index_of_spec s l : forall j,
  match index_of s l j with
  | Some i => exists i0, i = j + i0 /\ nth_error l i0 = Some s /\ forall m, m < i0 -> nth_error l m <> Some s
  | None => ~ In s l
  end.
Proof.
  induction l as [|y r IH]; intros j; simpl; [tauto|].
  destruct (bytes_eqb s y) eqn:E.
  - apply bytes_eqb_eq in E. subst y. exists 0. split; [lia|]. split; [reflexivity|]. intros m Hm; lia.
  - apply bytes_eqb_neq in E. specialize (IH (S j)). destruct (index_of s r (S j)) as [i|].
    + destruct IH as [i0 [Hi [Hn Hf]]]. exists (S i0). split; [lia|]. split; [exact Hn|].
      intros [|m] Hm; simpl; [congruence | apply Hf; lia].
    + intros [H|H]; [congruence | contradiction].
Qed.

(* the enum reader: the FIRST declared symbol equal to the text, else the unknown constant 0 - never another symbol *)
Lemma enum_value_spec syms s :
  (~ In s syms /\ enum_value syms s = VEnum 0) \/
  (exists i, enum_value syms s = VEnum (S i) /\ nth_error syms i = Some s /\ forall m, m < i -> nth_error syms m <> Some s).
Proof.
  unfold enum_value. pose proof (index_of_spec s syms 0) as H. destruct (index_of s syms 0) as [i|].
  - destruct H as [i0 [-> [Hn Hf]]]. right. exists i0. auto.
  - left. auto.
Qed.

Lemma enum_value_bound syms s : exists k, enum_value syms s = VEnum k /\ k <= length syms.
Proof.
  destruct (enum_value_spec syms s) as [[_ ->]|[i [-> [Hn _]]]]; [exists 0; split; [reflexivity | lia]|].
  exists (S i). split; [reflexivity|]. assert (i < length syms) by (apply nth_error_Some; congruence). lia.
Qed.

Lemma nth_error_In_first {A} (l : list A) s : In s l -> exists i, nth_error l i = Some s.
Proof. apply In_nth_error. Qed.

Theorem unknown_enum_symbol_J : forall e w x ig pF f top syms s tr,
  (~ In s syms -> decJ e w x ig pF (S f) top (TEnum syms) (JStr s) tr = Ok (VEnum 0, tr)) /\
  (In s syms -> exists i, decJ e w x ig pF (S f) top (TEnum syms) (JStr s) tr = Ok (VEnum (S i), tr) /\
                          nth_error syms i = Some s /\ forall m, m < i -> nth_error syms m <> Some s).
Proof.
  intros. rewrite decJ_unfold. simpl.
  destruct (enum_value_spec syms s) as [[Hn ->]|[i [-> [Hi Hf]]]]; split; intros H.
  - reflexivity.
  - contradiction.
  - exfalso. apply H. eapply nth_error_In; exact Hi.
  - exists i. auto.
Qed.

(* anything but a string is rejected at an enum *)
Theorem enum_needs_string_J : forall e w x ig pF f top syms d tr r,
  decJ e w x ig pF (S f) top (TEnum syms) d tr = Ok r -> exists s, d = JStr s /\ r = (enum_value syms s, tr).
Proof.
  intros until r. rewrite decJ_unfold. simpl. destruct d; simpl; try discriminate. intros H; inversion H. eexists; split; reflexivity.
Qed.

(* fixed: the text is decoded one code point (0..255) per byte and must have exactly the declared size *)
Theorem fixed_size_enforced_J : forall e w x ig pF f top n d tr,
  decJ e w x ig pF (S f) top (TFixed n) d tr =
  match d with
  | JStr s => match latin1_decode (S (length s)) s with
              | Some b => if Nat.eqb (length b) n then Ok (VFixed b, tr) else Err EFixedSize
              | None => Err EDeser
              end
  | _ => Err EDeser
  end.
Proof.
  intros. rewrite decJ_unfold. unfold stepJ, jprim. destruct d; try reflexivity.
  destruct (latin1_decode (S (length s)) s); reflexivity.
Qed.

Theorem fixed_ok_size_J : forall e w x ig pF f top n d tr v tr',
  decJ e w x ig pF (S f) top (TFixed n) d tr = Ok (v, tr') ->
  exists s b, d = JStr s /\ latin1_decode (S (length s)) s = Some b /\ length b = n /\ v = VFixed b /\ tr' = tr.
Proof.
  intros until tr'. rewrite fixed_size_enforced_J. destruct d; try discriminate.
  destruct (latin1_decode (S (length s)) s) as [b|] eqn:E; [|discriminate].
  destruct (Nat.eqb (length b) n) eqn:L; [|discriminate]. apply Nat.eqb_eq in L.
  intros H; inversion H; subst. exists s, b. auto.
Qed.

(* ==================================================================================================================== *)
(* 7. Decoding: the union reader, by the number of non-null entries of the object                                        *)
(* ==================================================================================================================== *)
Definition is_jnull (d : jdoc) : bool := match d with JNull => true | _ => false end.
(* the entries the reader looks at: a null entry is skipped *)
Definition live (es : list (bytes * jdoc)) : list (bytes * jdoc) := filter (fun kx => negb (is_jnull (snd kx))) es.

Lemma live_cons_live k xd r : is_jnull xd = false -> live ((k, xd) :: r) = (k, xd) :: live r.
Proof. intros H. unfold live. simpl. rewrite H. reflexivity. Qed.
Lemma live_cons_null k r : live ((k, JNull) :: r) = live r.
Proof. reflexivity. Qed.

Definition none_members (ms : list (bytes * ty)) : list (option value) := map (fun _ => None) ms.

Lemma set_nth_nth {A} (l : list A) j y : j < length l ->
  forall i, nth_error (set_nth j y l) i = if Nat.eqb i j then Some y else nth_error l i.
Proof.
  revert j. induction l as [|a r IH]; intros j Hj i; [simpl in Hj; lia|].
  destruct j as [|j]; destruct i as [|i]; simpl; try reflexivity. apply IH. simpl in Hj. lia.
Qed.

Lemma set_nth_nth' {A} (l : list A) j y i :
  nth_error (set_nth j y l) i = if Nat.eqb i j then (match nth_error l i with Some _ => Some y | None => None end) else nth_error l i.
Proof.
  revert j i. induction l as [|a r IH]; intros j i.
  - destruct j; destruct i; simpl; try reflexivity. destruct (Nat.eqb i j); reflexivity.
  - destruct j as [|j]; destruct i as [|i]; simpl; try reflexivity. apply IH.
Qed.

Lemma set_nth_length {A} (l : list A) j y : length (set_nth j y l) = length l.
Proof. revert j. induction l as [|a r IH]; intros [|j]; simpl; auto. Qed.

Lemma count_set_none (ms : list (bytes * ty)) : count_set (none_members ms) = 0.
Proof. induction ms; simpl; auto. Qed.

Lemma count_set_set_nth {A} (l : list (option A)) j y :
  j < length l -> count_set l = 0 -> count_set (set_nth j (Some y) l) = 1.
Proof.
  revert j. induction l as [|[a|] r IH]; intros j Hj C; simpl in *; try lia; try discriminate.
  destruct j as [|j]; simpl; [rewrite C; reflexivity|]. apply IH; [lia | exact C].
Qed.

(* exactly member j is set in the struct the reader builds for one entry *)
Lemma single_member ms j (v : value) : j < length ms ->
  count_set (set_nth j (Some v) (none_members ms)) = 1 /\
  forall i, nth_error (set_nth j (Some v) (none_members ms)) i =
            if Nat.eqb i j then Some (Some v) else if Nat.ltb i (length ms) then Some None else None.
Proof.
  intros Hj. split.
  - apply count_set_set_nth; [unfold none_members; rewrite map_length; exact Hj | apply count_set_none].
  - intros i. rewrite set_nth_nth by (unfold none_members; rewrite map_length; exact Hj).
    destruct (Nat.eqb i j); [reflexivity|]. unfold none_members.
    destruct (Nat.ltb i (length ms)) eqn:L.
    + apply Nat.ltb_lt in L. destruct (nth_error ms i) eqn:E; [|apply nth_error_None in E; lia].
      rewrite (map_nth_error _ _ _ E). reflexivity.
    + apply Nat.ltb_ge in L. apply nth_error_None. rewrite map_length. exact L.
Qed.

Lemma index_of_alias k (ms : list (bytes * ty)) j :
  index_of k (map fst ms) 0 = Some j -> exists mt, nth_error ms j = Some (k, mt) /\ j < length ms.
Proof.
  intros H. pose proof (index_of_spec k (map fst ms) 0) as S. rewrite H in S. destruct S as [i0 [-> [Hn _]]]. simpl.
  destruct (nth_error ms i0) as [[a mt]|] eqn:E.
  - rewrite (map_nth_error fst _ _ E) in Hn. simpl in Hn. inversion Hn; subst. exists mt. split; [reflexivity|].
    apply nth_error_Some. congruence.
  - apply nth_error_None in E. assert (nth_error (map fst ms) i0 = None) by (apply nth_error_None; rewrite map_length; exact E).
    congruence.
Qed.

Section UnionJ.
  Variables (e : env) (w : bytes) (x : pathspec) (ig : nat) (pF : nat -> bytes -> option N).
  Variable DJ : bool -> ty -> jdoc -> tracker -> res (value * tracker).
  Notation goJuni := (goJuni w x ig DJ).
  Notation stepJ := (stepJ e w x ig pF DJ).
  Notation enter_map := (enter_map w x ig).

  (* what the loop does with one non-null entry *)
  Definition uni_entry (ms : list (bytes * ty)) (k : bytes) (xd : jdoc) (r : list (bytes * jdoc))
      (uv : list (option value)) (wasSet : bool) (tr : tracker) : res (list (option value) * bool * tracker) :=
    do tr1 <- enter_map k tr;
    if wasSet then Err EUnion
    else match index_of k (map fst ms) 0 with
         | Some j =>
             match nth_error ms j with
             | Some (_, mt) => do rr <- DJ false mt xd tr1; goJuni ms r (set_nth j (Some (fst rr)) uv) true (pop (snd rr))
             | None => Err EType
             end
         | None => Err EUnion
         end.

  Lemma goJuni_cons_live ms k xd r uv ws tr :
    is_jnull xd = false -> goJuni ms ((k, xd) :: r) uv ws tr = uni_entry ms k xd r uv ws tr.
  Proof.
    intros H. unfold uni_entry. destruct xd; try discriminate; cbn [Ror2NoPanic.goJuni];
      (destruct (enter_map k tr) as [tr1| |]; simpl; [|reflexivity..]; destruct ws; [reflexivity|];
       destruct (index_of k (map fst ms) 0) as [j|]; [|reflexivity]; destruct (nth_error ms j) as [[al mt]|]; [|reflexivity];
       match goal with |- context [DJ false mt ?d tr1] => destruct (DJ false mt d tr1) as [[v tr2]| |] end; reflexivity).
  Qed.

  Lemma goJuni_cons_null ms k r uv ws tr : goJuni ms ((k, JNull) :: r) uv ws tr = goJuni ms r uv ws tr.
  Proof. reflexivity. Qed.

  Lemma goJuni_live ms es : forall uv ws tr, goJuni ms es uv ws tr = goJuni ms (live es) uv ws tr.
  Proof.
    induction es as [|[k xd] r IH]; intros uv ws tr; [reflexivity|].
    destruct (is_jnull xd) eqn:N.
    - destruct xd; try discriminate. rewrite goJuni_cons_null, live_cons_null. apply IH.
    - rewrite (live_cons_live k xd r N). rewrite !goJuni_cons_live by exact N.
      unfold uni_entry. destruct (enter_map k tr) as [tr1| |]; simpl; try reflexivity. destruct ws; [reflexivity|].
      destruct (index_of k (map fst ms) 0) as [j|]; [|reflexivity]. destruct (nth_error ms j) as [[al mt]|]; [|reflexivity].
      destruct (DJ false mt xd tr1) as [[v tr2]| |]; simpl; try reflexivity. apply IH.
  Qed.

  Lemma live_is_live es k xd r : live es = (k, xd) :: r -> is_jnull xd = false.
  Proof.
    intros H. assert (I : In (k, xd) (live es)) by (rewrite H; left; reflexivity).
    unfold live in I. apply filter_In in I. destruct I as [_ I]. simpl in I. apply negb_true_iff in I. exact I.
  Qed.

  (* once a member is set, any further non-null entry is an error: after enterMapScope, which may itself report an
     excluded field first *)
  Lemma goJuni_after_set ms k xd r uv tr :
    is_jnull xd = false -> goJuni ms ((k, xd) :: r) uv true tr = (do _ <- enter_map k tr; Err EUnion).
  Proof. intros H. rewrite goJuni_cons_live by exact H. reflexivity. Qed.

  Definition union_outcome (nullable : bool) (r : res (list (option value) * bool * tracker)) : res (value * tracker) :=
    do r0 <- r; let '(uv, wasSet, tr') := r0 in if negb nullable && negb wasSet then Err EUnion else Ok (VUnion uv, tr').

  Lemma stepJ_union top n nullable ms d es tr :
    lookup e n = Some (DUnion nullable ms) -> (d = JNull /\ es = [] \/ d = JObj es) ->
    stepJ top (TRef n) d tr = union_outcome nullable (goJuni ms (live es) (none_members ms) false tr).
  Proof.
    intros L [[-> ->]| ->]; unfold Ror2NoPanic.stepJ; rewrite L; simpl; [reflexivity|].
    rewrite goJuni_live. reflexivity.
  Qed.

  (* THE CASE ANALYSIS *)
  Lemma stepJ_union_cases top n nullable ms d es tr :
    lookup e n = Some (DUnion nullable ms) -> (d = JNull /\ es = [] \/ d = JObj es) ->
    match live es with
    | [] =>
        (* no member: accepted only by a nullable union, as the struct with no member set *)
        stepJ top (TRef n) d tr = if nullable then Ok (VUnion (none_members ms), tr) else Err EUnion
    | [(k, xd)] =>
        match index_of k (map fst ms) 0 with
        | None =>
            (* unknown member *)
            stepJ top (TRef n) d tr = (do _ <- enter_map k tr; Err EUnion)
        | Some j =>
            (* the one known member: accepted iff the member decodes; exactly member j is set *)
            exists mt, nth_error ms j = Some (k, mt) /\ j < length ms /\
              stepJ top (TRef n) d tr =
              (do tr1 <- enter_map k tr; do rr <- DJ false mt xd tr1;
               Ok (VUnion (set_nth j (Some (fst rr)) (none_members ms)), pop (snd rr)))
        end
    | (k1, x1) :: (k2, x2) :: _ =>
        (* two members: never accepted; the union error unless something failed before the second member was reached *)
        stepJ top (TRef n) d tr =
        (do tr1 <- enter_map k1 tr;
         match index_of k1 (map fst ms) 0 with
         | None => Err EUnion
         | Some j => match nth_error ms j with
                     | Some (_, mt) => do rr <- DJ false mt x1 tr1; do _ <- enter_map k2 (pop (snd rr)); Err EUnion
                     | None => Err EType
                     end
         end)
    end.
  Proof.
    intros L Hd. rewrite (stepJ_union top n nullable ms d es tr L Hd).
    destruct (live es) as [|[k1 x1] [|[k2 x2] rest]] eqn:E.
    - simpl. destruct nullable; reflexivity.
    - pose proof (live_is_live _ _ _ _ E) as N1. rewrite goJuni_cons_live by exact N1. unfold uni_entry.
      destruct (index_of k1 (map fst ms) 0) as [j|] eqn:I.
      + destruct (index_of_alias _ _ _ I) as [mt [Hn Hj]]. exists mt. split; [exact Hn|]. split; [exact Hj|].
        rewrite Hn. unfold union_outcome. destruct (enter_map k1 tr) as [tr1| |]; simpl; try reflexivity.
        destruct (DJ false mt x1 tr1) as [[v tr2]| |]; simpl; try reflexivity. rewrite andb_false_r. reflexivity.
      + unfold union_outcome. destruct (enter_map k1 tr); reflexivity.
    - pose proof (live_is_live _ _ _ _ E) as N1.
      assert (N2 : is_jnull x2 = false).
      { assert (I : In (k2, x2) (live es)) by (rewrite E; right; left; reflexivity).
        unfold live in I. apply filter_In in I. destruct I as [_ I]. simpl in I. apply negb_true_iff in I. exact I. }
      rewrite goJuni_cons_live by exact N1. unfold uni_entry, union_outcome.
      destruct (enter_map k1 tr) as [tr1| |]; cbn [bind]; try reflexivity.
      destruct (index_of k1 (map fst ms) 0) as [j|]; [|reflexivity].
      destruct (nth_error ms j) as [[a mt]|]; [|reflexivity].
      destruct (DJ false mt x1 tr1) as [[v tr2]| |]; cbn [bind fst snd]; try reflexivity.
      rewrite goJuni_after_set by exact N2. destruct (enter_map k2 (pop tr2)); reflexivity.
  Qed.
End UnionJ.

Lemma np_not_ok_err {A} (r : res A) : r <> Panic -> (forall a, r <> Ok a) -> exists y, r = Err y.
Proof. destruct r as [a|y|]; intros Hp Hn; [destruct (Hn a eq_refl) | exists y; reflexivity | congruence]. Qed.

(* THEOREM (union, JSON): the complete behaviour of the union reader on a JSON object (or null), by its non-null entries *)
Theorem union_decodes_exactly_one_J : forall e w x ig pF f top n nullable ms d es tr,
  lookup e n = Some (DUnion nullable ms) -> (d = JNull /\ es = [] \/ d = JObj es) ->
  let R := decJ e w x ig pF (S f) top (TRef n) d tr in
  let D := decJ e w x ig pF f in
  match live es with
  | [] => R = if nullable then Ok (VUnion (none_members ms), tr) else Err EUnion
  | [(k, xd)] =>
      match index_of k (map fst ms) 0 with
      | None => R = (do _ <- enter_map w x ig k tr; Err EUnion)
      | Some j =>
          exists mt, nth_error ms j = Some (k, mt) /\ j < length ms /\
            R = (do tr1 <- enter_map w x ig k tr; do rr <- D false mt xd tr1;
                 Ok (VUnion (set_nth j (Some (fst rr)) (none_members ms)), pop (snd rr)))
      end
  | (k1, x1) :: (k2, x2) :: _ =>
      (exists err, R = Err err) /\
      (forall tr1 j a mt v tr2 tr3,
         enter_map w x ig k1 tr = Ok tr1 -> index_of k1 (map fst ms) 0 = Some j -> nth_error ms j = Some (a, mt) ->
         D false mt x1 tr1 = Ok (v, tr2) -> enter_map w x ig k2 (pop tr2) = Ok tr3 -> R = Err EUnion)
  end.
Proof.
  intros e w x ig pF f top n nullable ms d es tr L Hd R D.
  pose proof (stepJ_union_cases e w x ig pF (djmix e w x ig pF f) top n nullable ms d es tr L Hd) as H.
  change (djmix e w x ig pF f false) with (D false) in H.
  assert (ER : R = stepJ e w x ig pF (djmix e w x ig pF f) top (TRef n) d tr) by (apply decJ_unfold).
  destruct (live es) as [|[k1 x1] [|[k2 x2] rest]].
  - rewrite ER. exact H.
  - destruct (index_of k1 (map fst ms) 0) as [j|].
    + destruct H as [mt [H1 [H2 H3]]]. exists mt. rewrite ER. auto.
    + rewrite ER. exact H.
  - rewrite <- ER in H. split.
    + apply np_not_ok_err; [apply decJ_never_panics|]. intros r. rewrite H.
      destruct (enter_map w x ig k1 tr) as [tr1| |]; simpl; try discriminate.
      destruct (index_of k1 (map fst ms) 0) as [j|]; [|discriminate].
      destruct (nth_error ms j) as [[a mt]|]; [|discriminate].
      destruct (D false mt x1 tr1) as [[v tr2]| |]; simpl; try discriminate.
      destruct (enter_map w x ig k2 (pop tr2)); discriminate.
    + intros tr1 j a mt v tr2 tr3 E1 E2 E3 E4 E5. rewrite H, E1. simpl. rewrite E2, E3, E4. simpl. rewrite E5. reflexivity.
Qed.

(* ==================================================================================================================== *)
(* 8. Decoding: every accepted value satisfies the constraints at the positions decoded from the document                *)
(* ==================================================================================================================== *)
Section DValid.
  Variable e : env.

  (* the untouched zero value of the Go type: what a record slot holds when the document has no entry for it *)
  Definition is_zero (t : ty) (v : value) : Prop := exists k, v = zero_value e k t.

  (* [dvalid t v]: every union of v decoded from the document has exactly one member (none only if nullable), every fixed has
     its size, every enum is a declared constant or the unknown constant 0.  A REQUIRED field of a record (and an included
     record) whose entry is absent from the document keeps its zero value - the absence is reported separately through the
     missing-required-fields tracker (property C07) - so such a slot is allowed to hold the zero value instead. *)
  Inductive dvalid : ty -> value -> Prop :=
  | DV_prim p v : dvalid (TPrim p) v
  | DV_enum syms k : k <= length syms -> dvalid (TEnum syms) (VEnum k)
  | DV_fixed n s : length s = n -> dvalid (TFixed n) (VFixed s)
  | DV_arr t l : Forall (dvalid t) l -> dvalid (TArray t) (VArr l)
  | DV_map t es : Forall (fun kv => dvalid t (snd kv)) es -> dvalid (TMap t) (VMap es)
  | DV_rec n incs fs ivs fvs :
      lookup e n = Some (DRecord incs fs) ->
      (forall p i iv, nth_error incs p = Some i -> nth_error ivs p = Some iv -> dvalid (TRef i) iv \/ is_zero (TRef i) iv) ->
      (forall j fd y, nth_error fs j = Some fd -> nth_error fvs j = Some (Some y) ->
                      dvalid (f_ty fd) y \/ (is_required (f_opt fd) = true /\ is_zero (f_ty fd) y)) ->
      dvalid (TRef n) (VRec ivs fvs)
  | DV_union n nullable ms vs :
      lookup e n = Some (DUnion nullable ms) ->
      length vs = length ms ->
      union_ok nullable vs ->
      (forall j m y, nth_error ms j = Some m -> nth_error vs j = Some (Some y) -> dvalid (snd m) y) ->
      dvalid (TRef n) (VUnion vs).

  Lemma zero_rec_dvalid i incs fs : lookup e i = Some (DRecord incs fs) -> forall k, dvalid (TRef i) (zero_value e k (TRef i)).
  Proof.
    intros L [|k].
    - simpl. eapply DV_rec; [exact L | |]; intros [|p] ? ? ? H; discriminate.
    - simpl. rewrite L. eapply DV_rec; [exact L | |].
      + intros p i' iv Hi Hv. right. rewrite (map_nth_error _ _ _ Hi) in Hv. inversion Hv. exists k. reflexivity.
      + intros j fd y Hf Hv. right. rewrite (map_nth_error _ _ _ Hf) in Hv.
        destruct (is_required (f_opt fd)); [|discriminate]. inversion Hv. split; [reflexivity | exists k; reflexivity].
  Qed.
End DValid.

Lemma Forall_insert_entry {A} (P : bytes * A -> Prop) k v l : P (k, v) -> Forall P l -> Forall P (insert_entry k v l).
Proof.
  intros Hk. induction l as [|[k' v'] r IH]; intros H; simpl; [constructor; auto|].
  inversion H; subst. destruct (bytes_ltb k k'); constructor; auto.
Qed.

Lemma Forall_sort_entries {A} (P : bytes * A -> Prop) l : Forall P l -> Forall P (sort_entries l).
Proof.
  induction l as [|[k v] r IH]; intros H; simpl; [constructor|]. inversion H; subst. apply Forall_insert_entry; auto.
Qed.

Lemma Forall_map_put (P : bytes * value -> Prop) k v l : P (k, v) -> Forall P l -> Forall P (map_put k v l).
Proof.
  intros Hk. induction l as [|[k' v'] r IH]; intros H; simpl; [constructor; auto|].
  inversion H; subst. destruct (bytes_eqb k k'); constructor; auto.
Qed.

(* the include search of UnmarshalField, as a top-level fixpoint (the model's local fix, by conversion) *)
Definition try_incsJ (e : env) (DJ : bool -> ty -> jdoc -> tracker -> res (value * tracker)) (k : nat) (key : bytes) (jd : jdoc)
    (tr : tracker) :=
  fix try_incs (is : list nat) (vs : list value) (pos : nat) : res (option (nat * value * tracker)) :=
    match is, vs with
    | i :: is', iv :: vs' =>
        do r <- umfJ e DJ k i key jd iv tr;
        let '(found, iv', tr') := r in
        if found then Ok (Some (pos, iv', tr')) else try_incs is' vs' (S pos)
    | _, _ => Ok None
    end.

Lemma umfJ_S e DJ k n key jd rv tr :
  umfJ e DJ (S k) n key jd rv tr =
  match lookup e n, rv with
  | Some (DRecord incs fs), VRec ivs fvs =>
      do hit <- try_incsJ e DJ k key jd tr incs ivs 0;
      match hit with
      | Some (pos, iv', tr') => Ok (true, VRec (set_nth pos iv' ivs) fvs, tr')
      | None =>
          match index_of key (map f_name fs) 0 with
          | Some j =>
              match nth_error fs j with
              | Some fd => do r <- DJ false (f_ty fd) jd tr; let '(v, tr') := r in Ok (true, VRec ivs (set_nth j (Some v) fvs), tr')
              | None => Err EType
              end
          | None => Ok (false, rv, tr)
          end
      end
  | _, _ => Err EType
  end.
Proof. reflexivity. Qed.

Lemma try_incsJ_spec e DJ k key jd tr : forall is vs pos hit,
  try_incsJ e DJ k key jd tr is vs pos = Ok hit ->
  match hit with
  | None => True
  | Some (p, iv', tr') =>
      exists q i iv b, p = pos + q /\ nth_error is q = Some i /\ nth_error vs q = Some iv /\
                       umfJ e DJ k i key jd iv tr = Ok (b, iv', tr')
  end.
Proof.
  induction is as [|i is IH]; intros vs pos hit H; [inversion H; exact I|].
  destruct vs as [|iv vs]; [inversion H; exact I|]. cbn [try_incsJ] in H. fold (try_incsJ e DJ k key jd tr) in H.
  destruct (umfJ e DJ k i key jd iv tr) as [[[found iv'] tr']| |] eqn:E; simpl in H; try discriminate.
  destruct found.
  - inversion H; subst. exists 0, i, iv, true. repeat split; [lia | exact E].
  - apply IH in H. destruct hit as [[[p iv''] tr'']|]; [|exact I].
    destruct H as [q [i' [iv0 [b [-> [H1 [H2 H3]]]]]]]. exists (S q), i', iv0, b. repeat split; [lia | exact H1 | exact H2 | exact H3].
Qed.

Lemma umfJ_ok_record e DJ k n key jd rv tr r :
  umfJ e DJ k n key jd rv tr = Ok r -> exists incs fs, lookup e n = Some (DRecord incs fs).
Proof.
  destruct k; [discriminate|]. rewrite umfJ_S. destruct (lookup e n) as [[incs fs|? ?]|]; try discriminate.
  intros _. eexists; eexists; reflexivity.
Qed.

Lemma fill_defaultsS_nth DJ : forall fs fvs j fd y,
  nth_error fs j = Some fd -> nth_error (fill_defaultsS DJ fs fvs) j = Some (Some y) ->
  nth_error fvs j = Some (Some y) \/ (exists lit, f_opt fd = Default lit /\ lit_valueS DJ (f_ty fd) lit = Some y).
Proof.
  induction fs as [|fd0 fs IH]; intros fvs j fd y Hf H; [destruct j; discriminate|].
  destruct fvs as [|ov fvs]; [destruct j; discriminate|]. cbn [fill_defaultsS] in H. destruct j as [|j]; simpl in *.
  - inversion Hf; subst fd0. destruct ov as [v|]; [left; exact H|].
    destruct (f_opt fd) as [| |lit]; try (left; exact H). right. exists lit. split; [reflexivity|]. inversion H. reflexivity.
  - eapply IH; eassumption.
Qed.

Section DecJValid.
  Variables (e : env) (w : bytes) (x : pathspec) (ig : nat) (pF : nat -> bytes -> option N).
  Variable DJ : bool -> ty -> jdoc -> tracker -> res (value * tracker).
  Hypothesis HDJ : forall top t d tr v tr', DJ top t d tr = Ok (v, tr') -> dvalid e t v.
  Notation enter_map := (enter_map w x ig).

  Lemma goJarr_dvalid t' : forall l i acc tr v tr',
    Forall (dvalid e t') acc -> goJarr DJ t' l i acc tr = Ok (v, tr') -> dvalid e (TArray t') v.
  Proof.
    induction l as [|d l IH]; intros i acc tr v tr' Ha H; cbn [goJarr] in H.
    - inversion H; subst. constructor. apply Forall_rev. exact Ha.
    - destruct (DJ false t' d (enter_array i tr)) as [[v1 tr1]| |] eqn:E; simpl in H; try discriminate.
      eapply IH; [|exact H]. constructor; [eapply HDJ; exact E | exact Ha].
  Qed.

  Lemma goJmap_cons_live t' k xd r acc tr : is_jnull xd = false ->
    goJmap w x ig DJ t' ((k, xd) :: r) acc tr =
    (do tr1 <- enter_map k tr; do rr <- DJ false t' xd tr1; goJmap w x ig DJ t' r (map_put k (fst rr) acc) (pop (snd rr))).
  Proof.
    intros H. destruct xd; try discriminate; cbn [goJmap];
      (destruct (enter_map k tr) as [tr1| |]; simpl; [|reflexivity..];
       match goal with |- context [DJ false t' ?d tr1] => destruct (DJ false t' d tr1) as [[v tr2]| |] end; reflexivity).
  Qed.

  Lemma goJmap_dvalid t' : forall l acc tr v tr',
    Forall (fun kv => dvalid e t' (snd kv)) acc -> goJmap w x ig DJ t' l acc tr = Ok (v, tr') -> dvalid e (TMap t') v.
  Proof.
    induction l as [|[k xd] l IH]; intros acc tr v tr' Ha H.
    - cbn [goJmap] in H. inversion H; subst. constructor. apply Forall_sort_entries. exact Ha.
    - destruct (is_jnull xd) eqn:N.
      + destruct xd; try discriminate. cbn [goJmap] in H. eapply IH; eassumption.
      + rewrite goJmap_cons_live in H by exact N.
        destruct (enter_map k tr) as [tr1| |]; simpl in H; try discriminate.
        destruct (DJ false t' xd tr1) as [[v1 tr2]| |] eqn:E; simpl in H; try discriminate.
        eapply IH; [|exact H]. apply Forall_map_put; [simpl; eapply HDJ; exact E | exact Ha].
  Qed.

  Lemma umfJ_dvalid : forall k n key jd rv tr b rv' tr',
    umfJ e DJ k n key jd rv tr = Ok (b, rv', tr') -> dvalid e (TRef n) rv -> dvalid e (TRef n) rv'.
  Proof.
    induction k as [|k IH]; intros n key jd rv tr b rv' tr' H Hv; [discriminate|].
    rewrite umfJ_S in H. destruct (lookup e n) as [[incs fs|? ?]|] eqn:L; try discriminate.
    destruct rv as [| | | | | | | | |ivs fvs| | |]; try discriminate.
    inversion Hv as [| | | | |n0 incs0 fs0 ivs0 fvs0 L0 Hinc Hfld|]; subst.
    assert (incs0 = incs /\ fs0 = fs) as [-> ->] by (split; congruence). clear L0.
    destruct (try_incsJ e DJ k key jd tr incs ivs 0) as [hit| |] eqn:Eh; simpl in H; try discriminate.
    apply try_incsJ_spec in Eh. destruct hit as [[[p iv'] tr1]|].
    - destruct Eh as [q [i [iv [b0 [-> [Hi [Hiv Hu]]]]]]]. simpl in H. inversion H; subst. clear H.
      assert (Hd : dvalid e (TRef i) iv').
      { eapply IH; [exact Hu|]. destruct (Hinc q i iv Hi Hiv) as [Hd|[k0 ->]]; [exact Hd|].
        destruct (umfJ_ok_record _ _ _ _ _ _ _ _ _ Hu) as [incs' [fs' L']]. eapply zero_rec_dvalid; exact L'. }
      eapply DV_rec; [exact L | | exact Hfld].
      intros p i' iv'' Hi' Hs. rewrite set_nth_nth' in Hs. destruct (Nat.eqb p q) eqn:Epq.
      + apply Nat.eqb_eq in Epq. subst p. rewrite Hiv in Hs. inversion Hs; subst. left.
        assert (i' = i) by congruence. subst. exact Hd.
      + eapply Hinc; eassumption.
    - destruct (index_of key (map f_name fs) 0) as [j|].
      + destruct (nth_error fs j) as [fd|] eqn:Ef; [|discriminate].
        destruct (DJ false (f_ty fd) jd tr) as [[v tr2]| |] eqn:Ed; simpl in H; try discriminate.
        inversion H; subst. clear H. eapply DV_rec; [exact L | exact Hinc |].
        intros j' fd' y Hf Hs. rewrite set_nth_nth' in Hs. destruct (Nat.eqb j' j) eqn:Ej.
        * apply Nat.eqb_eq in Ej. subst j'. destruct (nth_error fvs j); [|discriminate]. inversion Hs; subst.
          assert (fd' = fd) by congruence. subst. left. eapply HDJ; exact Ed.
        * eapply Hfld; eassumption.
      + inversion H; subst. exact Hv.
  Qed.

  Lemma goJrec_cons_live n k xd r rv rem tr : is_jnull xd = false ->
    goJrec e w x ig DJ n ((k, xd) :: r) rv rem tr =
    (do tr1 <- enter_map k tr; do u <- umfJ e DJ (S (length e)) n k xd rv tr1;
     goJrec e w x ig DJ n r (snd (fst u)) (remove_bytes k rem) (pop (snd u))).
  Proof.
    intros H. destruct xd; try discriminate; cbn [goJrec];
      (destruct (enter_map k tr) as [tr1| |]; cbn [bind]; [|reflexivity..];
       match goal with |- context [umfJ e DJ ?a n k ?d rv tr1] => destruct (umfJ e DJ a n k d rv tr1) as [[[fb rvx] trx]| |] end;
       reflexivity).
  Qed.

  Lemma goJrec_dvalid n : forall l rv rem tr rv' rem' tr',
    dvalid e (TRef n) rv -> goJrec e w x ig DJ n l rv rem tr = Ok (rv', rem', tr') -> dvalid e (TRef n) rv'.
  Proof.
    induction l as [|[k xd] l IH]; intros rv rem tr rv' rem' tr' Hv H.
    - cbn [goJrec] in H. inversion H; subst. exact Hv.
    - destruct (is_jnull xd) eqn:N.
      + destruct xd; try discriminate. cbn [goJrec] in H. eapply IH; eassumption.
      + rewrite goJrec_cons_live in H by exact N.
        destruct (enter_map k tr) as [tr1| |]; cbn [bind] in H; try discriminate.
        destruct (umfJ e DJ (S (length e)) n k xd rv tr1) as [[[b rv1] tr2]| |] eqn:E; cbn [bind fst snd] in H; try discriminate.
        eapply IH; [|exact H]. eapply umfJ_dvalid; eassumption.
  Qed.

  Definition uni_inv (ms : list (bytes * ty)) (uv : list (option value)) (ws : bool) : Prop :=
    length uv = length ms /\ count_set uv = b2n ws /\
    forall j m y, nth_error ms j = Some m -> nth_error uv j = Some (Some y) -> dvalid e (snd m) y.

  Lemma uni_inv_init ms : uni_inv ms (none_members ms) false.
  Proof.
    split; [unfold none_members; apply map_length|]. split; [apply count_set_none|].
    intros j m y Hm H. unfold none_members in H. rewrite (map_nth_error _ _ _ Hm) in H. discriminate.
  Qed.

  Lemma uni_inv_set ms uv j k mt v :
    uni_inv ms uv false -> nth_error ms j = Some (k, mt) -> j < length ms -> dvalid e mt v ->
    uni_inv ms (set_nth j (Some v) uv) true.
  Proof.
    intros [Hl [Hc Hk]] Hm Hj Hv. split; [rewrite set_nth_length; exact Hl|]. split.
    - apply count_set_set_nth; [lia | exact Hc].
    - intros j' m y Hm' Hs. rewrite set_nth_nth in Hs by lia. destruct (Nat.eqb j' j) eqn:Ej.
      + apply Nat.eqb_eq in Ej. subst j'. inversion Hs; subst. assert (m = (k, mt)) by congruence. subst. exact Hv.
      + eapply Hk; eassumption.
  Qed.

  Lemma goJuni_inv ms : forall l uv ws tr uv' ws' tr',
    uni_inv ms uv ws -> goJuni w x ig DJ ms l uv ws tr = Ok (uv', ws', tr') -> uni_inv ms uv' ws'.
  Proof.
    induction l as [|[k xd] l IH]; intros uv ws tr uv' ws' tr' Hi H.
    - cbn [goJuni] in H. inversion H; subst. exact Hi.
    - destruct (is_jnull xd) eqn:N.
      + destruct xd; try discriminate. rewrite goJuni_cons_null in H. eapply IH; eassumption.
      + rewrite goJuni_cons_live in H by exact N. unfold uni_entry in H.
        destruct (enter_map k tr) as [tr1| |]; cbn [bind] in H; try discriminate.
        destruct ws; [discriminate|].
        destruct (index_of k (map fst ms) 0) as [j|] eqn:I; [|discriminate].
        destruct (index_of_alias _ _ _ I) as [mt [Hm Hj]]. rewrite Hm in H.
        destruct (DJ false mt xd tr1) as [[v tr2]| |] eqn:E; cbn [bind fst snd] in H; try discriminate.
        eapply IH; [|exact H]. eapply uni_inv_set; [exact Hi | exact Hm | exact Hj | eapply HDJ; exact E].
  Qed.

  Lemma stepJ_dvalid top t d tr v tr' : stepJ e w x ig pF DJ top t d tr = Ok (v, tr') -> dvalid e t v.
  Proof.
    unfold stepJ. destruct t as [p|syms|sz|n|t'|t'].
    - intros _. constructor.
    - destruct (jstring d) as [s| |]; simpl; try discriminate. intros H; inversion H; subst.
      destruct (enum_value_bound syms s) as [k [-> Hk]]. constructor. exact Hk.
    - destruct (jprim pF PBytes d) as [v0| |]; simpl; try discriminate. destruct v0; try discriminate.
      destruct (Nat.eqb (length s) sz) eqn:L; [|discriminate]. apply Nat.eqb_eq in L. intros H; inversion H; subst.
      constructor. reflexivity.
    - destruct (lookup e n) as [[incs fs|nullable ms]|] eqn:L; [| |discriminate].
      + destruct (match d with JNull => Ok [] | JObj es => Ok es | _ => Err EDeser end) as [es| |]; cbn [bind]; try discriminate.
        destruct (goJrec e w x ig DJ n es (zero_value e (S (S (length e))) (TRef n)) (required_fields e (S (length e)) n) tr)
          as [[[rv rem] tr1]| |] eqn:G; cbn [bind]; try discriminate.
        assert (Hr : dvalid e (TRef n) rv).
        { eapply goJrec_dvalid; [|exact G]. eapply zero_rec_dvalid; exact L. }
        cbv zeta. intros H. inversion H; subst. clear H.
        match goal with |- dvalid _ _ (if ?c then _ else _) => destruct c end; [exact Hr|].
        destruct rv as [| | | | | | | | |rivs rfvs| | |]; try exact Hr.
        inversion Hr as [| | | | |n0 incs1 fs1 ivs0 fvs0 L0 Hinc Hfld|]; subst.
        assert (incs1 = incs /\ fs1 = fs) as [-> ->] by (split; congruence).
        eapply DV_rec; [exact L | exact Hinc |].
        intros j fd y Hf Hs. destruct (fill_defaultsS_nth DJ _ _ _ _ _ Hf Hs) as [Ho|[lit [_ Hl]]].
        * eapply Hfld; eassumption.
        * left. unfold lit_valueS in Hl. destruct (Json.parse_json lit) as [jd|]; [|discriminate].
          destruct (DJ true (f_ty fd) jd tracker0) as [[v0 tr0]| |] eqn:E; try discriminate. inversion Hl; subst.
          eapply HDJ; exact E.
      + destruct (match d with JNull => Ok [] | JObj es => Ok es | _ => Err EDeser end) as [es| |]; cbn [bind]; try discriminate.
        destruct (goJuni w x ig DJ ms es (map (fun _ => None) ms) false tr) as [[[uv ws] tr1]| |] eqn:G; cbn [bind]; try discriminate.
        destruct (goJuni_inv ms _ _ _ _ _ _ _ (uni_inv_init ms) G) as [Hl [Hc Hk]].
        destruct (negb nullable && negb ws) eqn:C; [discriminate|]. intros H; inversion H; subst.
        eapply DV_union; [exact L | exact Hl | | exact Hk].
        unfold union_ok. rewrite Hc. destruct ws; [left; reflexivity|]. right. split; [|reflexivity].
        destruct nullable; [reflexivity | discriminate].
    - destruct d; try discriminate.
      + intros H; inversion H. constructor. constructor.
      + intros H. eapply goJarr_dvalid; [|exact H]. constructor.
    - destruct d; try discriminate.
      + intros H; inversion H. constructor. constructor.
      + intros H. eapply goJmap_dvalid; [|exact H]. constructor.
  Qed.
End DecJValid.

(* THEOREM (decoded values are valid, JSON) *)
Theorem decJ_dvalid : forall e w x ig pF fuel top t d tr v tr',
  decJ e w x ig pF fuel top t d tr = Ok (v, tr') -> dvalid e t v.
Proof.
  intros e w x ig pF fuel. revert x ig. induction fuel as [|f IH]; intros x ig top t d tr v tr' H; [discriminate|].
  rewrite decJ_unfold in H. eapply stepJ_dvalid; [|exact H].
  intros [|] t0 d0 tr0 v0 tr0' H0; unfold djmix in H0; eapply IH; exact H0.
Qed.

(* in particular: a union the JSON decoder accepts has exactly one member set, or none when nullable *)
Theorem union_decoded_constraint_J : forall e w x ig pF fuel top n nullable ms d tr v tr',
  lookup e n = Some (DUnion nullable ms) -> decJ e w x ig pF fuel top (TRef n) d tr = Ok (v, tr') ->
  exists uv, v = VUnion uv /\ length uv = length ms /\ union_ok nullable uv.
Proof.
  intros e w x ig pF fuel top n nullable ms d tr v tr' L H. apply decJ_dvalid in H.
  inversion H; subst; [congruence|]. assert (nullable0 = nullable /\ ms0 = ms) as [-> ->] by (split; congruence).
  eexists; split; [reflexivity|]. split; assumption.
Qed.

(* ==================================================================================================================== *)
(* 9. The same on the ROR2 cursor-level decoder [decR]                                                                    *)
(* ==================================================================================================================== *)
Definition try_incsR (e : env) (D : ty -> rst -> res (value * rst)) (k : nat) (key : bytes) (s : rst) :=
  fix try_incs (is : list nat) (vs : list value) (pos : nat) : res (option (nat * value * rst)) :=
    match is, vs with
    | i :: is', iv :: vs' =>
        do r <- umfR e D k i key iv s;
        let '(found, iv', s') := r in
        if found then Ok (Some (pos, iv', s')) else try_incs is' vs' (S pos)
    | _, _ => Ok None
    end.

Lemma umfR_S e D k n key rv s :
  umfR e D (S k) n key rv s =
  match lookup e n, rv with
  | Some (DRecord incs fs), VRec ivs fvs =>
      do hit <- try_incsR e D k key s incs ivs 0;
      match hit with
      | Some (pos, iv', s') => Ok (true, VRec (set_nth pos iv' ivs) fvs, s')
      | None =>
          match index_of key (map f_name fs) 0 with
          | Some j =>
              match nth_error fs j with
              | Some fd => do r <- D (f_ty fd) s; let '(v, s') := r in Ok (true, VRec ivs (set_nth j (Some v) fvs), s')
              | None => Err EType
              end
          | None => Ok (false, rv, s)
          end
      end
  | _, _ => Err EType
  end.
Proof. reflexivity. Qed.

Lemma try_incsR_spec e D k key s : forall is vs pos hit,
  try_incsR e D k key s is vs pos = Ok hit ->
  match hit with
  | None => True
  | Some (p, iv', s') =>
      exists q i iv b, p = pos + q /\ nth_error is q = Some i /\ nth_error vs q = Some iv /\
                       umfR e D k i key iv s = Ok (b, iv', s')
  end.
Proof.
  induction is as [|i is IH]; intros vs pos hit H; [inversion H; exact I|].
  destruct vs as [|iv vs]; [inversion H; exact I|]. cbn [try_incsR] in H. fold (try_incsR e D k key s) in H.
  destruct (umfR e D k i key iv s) as [[[found iv'] s']| |] eqn:E; simpl in H; try discriminate.
  destruct found.
  - inversion H; subst. exists 0, i, iv, true. repeat split; [lia | exact E].
  - apply IH in H. destruct hit as [[[p iv''] s'']|]; [|exact I].
    destruct H as [q [i' [iv0 [b [-> [H1 [H2 H3]]]]]]]. exists (S q), i', iv0, b. repeat split; [lia | exact H1 | exact H2 | exact H3].
Qed.

Lemma umfR_ok_record e D k n key rv s r :
  umfR e D k n key rv s = Ok r -> exists incs fs, lookup e n = Some (DRecord incs fs).
Proof.
  destruct k; [discriminate|]. rewrite umfR_S. destruct (lookup e n) as [[incs fs|? ?]|]; try discriminate.
  intros _. eexists; eexists; reflexivity.
Qed.

(* populateLocalDefaultValues keeps the invariant: a default is itself decoded from a document (its literal) *)
Lemma fill_defaults_dvalid e DJ n incs fs rv :
  (forall top t d tr v tr', DJ top t d tr = Ok (v, tr') -> dvalid e t v) ->
  lookup e n = Some (DRecord incs fs) -> dvalid e (TRef n) rv ->
  dvalid e (TRef n) (match rv with VRec ivs fvs => VRec ivs (fill_defaultsS DJ fs fvs) | _ => rv end).
Proof.
  intros HDJ L Hr. destruct rv as [| | | | | | | | |rivs rfvs| | |]; try exact Hr.
  inversion Hr as [| | | | |n0 incs1 fs1 ivs0 fvs0 L0 Hinc Hfld|]; subst.
  assert (incs1 = incs /\ fs1 = fs) as [-> ->] by (split; congruence).
  eapply DV_rec; [exact L | exact Hinc |].
  intros j fd y Hf Hs. destruct (fill_defaultsS_nth DJ _ _ _ _ _ Hf Hs) as [Ho|[lit [_ Hl]]].
  - eapply Hfld; eassumption.
  - left. unfold lit_valueS in Hl. destruct (Json.parse_json lit) as [jd|]; [|discriminate].
    destruct (DJ true (f_ty fd) jd tracker0) as [[v0 tr0]| |] eqn:E; try discriminate. inversion Hl; subst.
    eapply HDJ; exact E.
Qed.

Section DecRValid.
  Variables (e : env) (w : bytes) (x : pathspec) (ig : nat) (pF : nat -> bytes -> option N).
  Variable DJ : bool -> ty -> jdoc -> tracker -> res (value * tracker).
  Variables (unesc : bytes -> option bytes) (em lp : bytes) (qr : bool).
  Variable D : ty -> rst -> res (value * rst).
  Hypothesis HDJ : forall top t d tr v tr', DJ top t d tr = Ok (v, tr') -> dvalid e t v.
  Hypothesis HD : forall t s v s', D t s = Ok (v, s') -> dvalid e t v.
  Notation enter_map := (enter_map w x ig).

  Lemma goRarr_dvalid t' : forall k i acc s v s',
    Forall (dvalid e t') acc -> goRarr D t' k i acc s = Ok (v, s') -> dvalid e (TArray t') v.
  Proof.
    induction k as [|k IH]; intros i acc s v s' Ha H; [discriminate|]. cbn [goRarr] in H.
    destruct (D t' (with_tr s (enter_array i (r_tr s)))) as [[v1 s1]| |] eqn:E; cbn [bind] in H; try discriminate.
    destruct (read_after (with_tr s1 (pop (r_tr s1)))) as [[s2|s2]| |]; cbn [bind] in H; try discriminate.
    - eapply IH; [|exact H]. constructor; [eapply HD; exact E | exact Ha].
    - assert (Hf : Forall (dvalid e t') (rev (v1 :: acc))).
      { apply Forall_rev. constructor; [eapply HD; exact E | exact Ha]. }
      inversion H; subst. constructor. exact Hf.
  Qed.

  Lemma goRmap_dvalid t' : forall k acc s v s',
    Forall (fun kv => dvalid e t' (snd kv)) acc -> goRmap w x ig unesc em D t' k acc s = Ok (v, s') -> dvalid e (TMap t') v.
  Proof.
    induction k as [|k IH]; intros acc s v s' Ha H; [discriminate|]. cbn [goRmap] in H.
    destruct (check_not_at_end s); cbn [bind] in H; try discriminate.
    destruct (idx s) as [c| |]; cbn [bind] in H; try discriminate.
    destruct (Byte.eqb c x29).
    { inversion H; subst. constructor. apply Forall_sort_entries. exact Ha. }
    destruct (read_field_name unesc em s) as [[key s1]| |]; cbn [bind] in H; try discriminate.
    destruct (enter_map key (r_tr s1)) as [tr1| |]; cbn [bind] in H; try discriminate.
    destruct (D t' (with_tr s1 tr1)) as [[v1 s2]| |] eqn:E; cbn [bind] in H; try discriminate.
    assert (Ha' : Forall (fun kv => dvalid e t' (snd kv)) (map_put key v1 acc)).
    { apply Forall_map_put; [simpl; eapply HD; exact E | exact Ha]. }
    destruct (read_after (with_tr s2 (pop (r_tr s2)))) as [[s3|s3]| |]; cbn [bind] in H; try discriminate.
    - eapply IH; [|exact H]. exact Ha'.
    - inversion H; subst. constructor. apply Forall_sort_entries. exact Ha'.
  Qed.

  Lemma umfR_dvalid : forall k n key rv s b rv' s',
    umfR e D k n key rv s = Ok (b, rv', s') -> dvalid e (TRef n) rv -> dvalid e (TRef n) rv'.
  Proof.
    induction k as [|k IH]; intros n key rv s b rv' s' H Hv; [discriminate|].
    rewrite umfR_S in H. destruct (lookup e n) as [[incs fs|? ?]|] eqn:L; try discriminate.
    destruct rv as [| | | | | | | | |ivs fvs| | |]; try discriminate.
    inversion Hv as [| | | | |n0 incs0 fs0 ivs0 fvs0 L0 Hinc Hfld|]; subst.
    assert (incs0 = incs /\ fs0 = fs) as [-> ->] by (split; congruence). clear L0.
    destruct (try_incsR e D k key s incs ivs 0) as [hit| |] eqn:Eh; simpl in H; try discriminate.
    apply try_incsR_spec in Eh. destruct hit as [[[p iv'] s1]|].
    - destruct Eh as [q [i [iv [b0 [-> [Hi [Hiv Hu]]]]]]]. simpl in H. inversion H; subst. clear H.
      assert (Hd : dvalid e (TRef i) iv').
      { eapply IH; [exact Hu|]. destruct (Hinc q i iv Hi Hiv) as [Hd|[k0 ->]]; [exact Hd|].
        destruct (umfR_ok_record _ _ _ _ _ _ _ _ Hu) as [incs' [fs' L']]. eapply zero_rec_dvalid; exact L'. }
      eapply DV_rec; [exact L | | exact Hfld].
      intros p i' iv'' Hi' Hs. rewrite set_nth_nth' in Hs. destruct (Nat.eqb p q) eqn:Epq.
      + apply Nat.eqb_eq in Epq. subst p. rewrite Hiv in Hs. inversion Hs; subst. left.
        assert (i' = i) by congruence. subst. exact Hd.
      + eapply Hinc; eassumption.
    - destruct (index_of key (map f_name fs) 0) as [j|].
      + destruct (nth_error fs j) as [fd|] eqn:Ef; [|discriminate].
        destruct (D (f_ty fd) s) as [[v s2]| |] eqn:Ed; simpl in H; try discriminate.
        inversion H; subst. clear H. eapply DV_rec; [exact L | exact Hinc |].
        intros j' fd' y Hf Hs. rewrite set_nth_nth' in Hs. destruct (Nat.eqb j' j) eqn:Ej.
        * apply Nat.eqb_eq in Ej. subst j'. destruct (nth_error fvs j); [|discriminate]. inversion Hs; subst.
          assert (fd' = fd) by congruence. subst. left. eapply HD; exact Ed.
        * eapply Hfld; eassumption.
      + inversion H; subst. exact Hv.
  Qed.

  Lemma goRrec_dvalid n : forall k rv rem s rv' rem' s',
    dvalid e (TRef n) rv -> goRrec e w x ig unesc em lp D n k rv rem s = Ok (rv', rem', s') -> dvalid e (TRef n) rv'.
  Proof.
    induction k as [|k IH]; intros rv rem s rv' rem' s' Hv H; [discriminate|]. cbn [goRrec] in H.
    destruct (check_not_at_end s); cbn [bind] in H; try discriminate.
    destruct (idx s) as [c| |]; cbn [bind] in H; try discriminate.
    destruct (Byte.eqb c x29).
    { inversion H; subst. exact Hv. }
    destruct (read_field_name unesc em s) as [[key s1]| |]; cbn [bind] in H; try discriminate.
    destruct (enter_map key (r_tr s1)) as [tr1| |]; cbn [bind] in H; try discriminate.
    destruct (umfR e D (S (length e)) n key rv (with_tr s1 tr1)) as [[[found rv1] s2]| |] eqn:E; cbn [bind] in H; try discriminate.
    assert (Hv1 : dvalid e (TRef n) rv1) by (eapply umfR_dvalid; eassumption).
    destruct (if found then Ok s2 else rskip lp s2) as [s2'| |]; cbn [bind] in H; try discriminate.
    destruct (read_after (with_tr s2' (pop (r_tr s2')))) as [[s3|s3]| |]; cbn [bind] in H; try discriminate.
    - eapply IH; [|exact H]. exact Hv1.
    - inversion H; subst. exact Hv1.
  Qed.

  Lemma goRuni_inv ms : forall k uv ws s uv' ws' s',
    uni_inv e ms uv ws -> goRuni w x ig unesc em D ms k uv ws s = Ok (uv', ws', s') -> uni_inv e ms uv' ws'.
  Proof.
    induction k as [|k IH]; intros uv ws s uv' ws' s' Hi H; [discriminate|]. cbn [goRuni] in H.
    destruct (check_not_at_end s); cbn [bind] in H; try discriminate.
    destruct (idx s) as [c| |]; cbn [bind] in H; try discriminate.
    destruct (Byte.eqb c x29).
    { inversion H; subst. exact Hi. }
    destruct (read_field_name unesc em s) as [[key s1]| |]; cbn [bind] in H; try discriminate.
    destruct (enter_map key (r_tr s1)) as [tr1| |]; cbn [bind] in H; try discriminate.
    destruct ws; [discriminate|].
    destruct (index_of key (map fst ms) 0) as [j|] eqn:I; [|discriminate].
    destruct (index_of_alias _ _ _ I) as [mt [Hm Hj]]. rewrite Hm in H.
    destruct (D mt (with_tr s1 tr1)) as [[v s2]| |] eqn:E; cbn [bind] in H; try discriminate.
    assert (Hi' : uni_inv e ms (set_nth j (Some v) uv) true).
    { eapply uni_inv_set; [exact Hi | exact Hm | exact Hj | eapply HD; exact E]. }
    destruct (read_after (with_tr s2 (pop (r_tr s2)))) as [[s3|s3]| |]; cbn [bind] in H; try discriminate.
    - eapply IH; [|exact H]. exact Hi'.
    - inversion H; subst. exact Hi'.
  Qed.

  (* once a member is set, the only continuation the union reader accepts is the closing parenthesis *)
  Lemma goRuni_after_set ms k uv s r :
    goRuni w x ig unesc em D ms (S k) uv true s = Ok r ->
    exists c, idx s = Ok c /\ Byte.eqb c x29 = true /\ r = (uv, true, advance 1 s).
  Proof.
    cbn [goRuni]. destruct (check_not_at_end s); cbn [bind]; try discriminate.
    destruct (idx s) as [c| |]; cbn [bind]; try discriminate.
    destruct (Byte.eqb c x29) eqn:Ec.
    - intros H; inversion H. exists c. auto.
    - destruct (read_field_name unesc em s) as [[key s1]| |]; cbn [bind]; try discriminate.
      destruct (enter_map key (r_tr s1)) as [tr1| |]; cbn [bind]; discriminate.
  Qed.

  Lemma stepR_dvalid f t s v s' : stepR e w x ig pF DJ unesc em lp qr D f t s = Ok (v, s') -> dvalid e t v.
  Proof.
    unfold stepR. destruct t as [p|syms|sz|n|t'|t'].
    - intros _. constructor.
    - destruct (read_string unesc em s) as [[x0 s0]| |]; cbn [bind]; try discriminate. intros H; inversion H; subst.
      destruct (enum_value_bound syms x0) as [k [-> Hk]]. constructor. exact Hk.
    - destruct (read_string unesc em s) as [[x0 s0]| |]; cbn [bind]; try discriminate.
      destruct (Nat.eqb (length x0) sz) eqn:L; [|discriminate]. apply Nat.eqb_eq in L. intros H; inversion H; subst.
      constructor. reflexivity.
    - destruct (lookup e n) as [[incs fs|nullable ms]|] eqn:L; [| |discriminate].
      + cbv zeta. destruct (negb (at_map s)); [discriminate|].
        destruct (goRrec e w x ig unesc em lp D n f (zero_value e (S (S (length e))) (TRef n))
                    (required_fields e (S (length e)) n) (advance 1 s)) as [[[rv rem] s1]| |] eqn:G; cbn [bind]; try discriminate.
        assert (Hr : dvalid e (TRef n) rv).
        { eapply goRrec_dvalid; [|exact G]. eapply zero_rec_dvalid; exact L. }
        intros H. inversion H; subst. clear H.
        match goal with |- dvalid _ _ (if ?c then _ else _) => destruct c end; [exact Hr|].
        eapply fill_defaults_dvalid; eassumption.
      + destruct (negb (at_map s)); [discriminate|].
        destruct (goRuni w x ig unesc em D ms f (map (fun _ => None) ms) false (advance 1 s)) as [[[uv ws] s1]| |] eqn:G;
          cbn [bind]; try discriminate.
        destruct (goRuni_inv ms _ _ _ _ _ _ _ (uni_inv_init e ms) G) as [Hl [Hc Hk]].
        destruct (negb nullable && negb ws) eqn:C; [discriminate|]. intros H; inversion H; subst.
        eapply DV_union; [exact L | exact Hl | | exact Hk].
        unfold union_ok. rewrite Hc. destruct ws; [left; reflexivity|]. right. split; [|reflexivity].
        destruct nullable; [reflexivity | discriminate].
    - destruct (negb (at_array lp s)); [discriminate|]. cbv zeta.
      destruct (idx (advance (length lp) s)) as [c| |]; cbn [bind]; try discriminate.
      destruct (Byte.eqb c x29).
      + intros H; inversion H. constructor. constructor.
      + intros H. eapply goRarr_dvalid; [|exact H]. constructor.
    - destruct (negb (at_map s)); [discriminate|].
      intros H. eapply goRmap_dvalid; [|exact H]. constructor.
  Qed.
End DecRValid.

(* THEOREM (decoded values are valid, ROR2) *)
Theorem decR_dvalid : forall e w x ig pF unesc em lp qr fuel t s v s',
  decR e w x ig pF unesc em lp qr fuel t s = Ok (v, s') -> dvalid e t v.
Proof.
  intros e w x ig pF unesc em lp qr fuel. induction fuel as [|f IH]; intros t s v s' H; [discriminate|].
  rewrite decR_unfold in H. eapply stepR_dvalid; [| |exact H].
  - intros [|] t0 d tr v0 tr'; unfold djmix; apply decJ_dvalid.
  - exact IH.
Qed.

Theorem union_decoded_constraint_R : forall e w x ig pF unesc em lp qr fuel n nullable ms s v s',
  lookup e n = Some (DUnion nullable ms) -> decR e w x ig pF unesc em lp qr fuel (TRef n) s = Ok (v, s') ->
  exists uv, v = VUnion uv /\ length uv = length ms /\ union_ok nullable uv.
Proof.
  intros e w x ig pF unesc em lp qr fuel n nullable ms s v s' L H. apply decR_dvalid in H.
  inversion H; subst; [congruence|]. assert (nullable0 = nullable /\ ms0 = ms) as [-> ->] by (split; congruence).
  eexists; split; [reflexivity|]. split; assumption.
Qed.

(* a second member after a set one is never accepted by the cursor-level union reader *)
Theorem union_second_member_R : forall e w x ig pF unesc em lp qr f ms k uv s r,
  goRuni w x ig unesc em (decR e w x ig pF unesc em lp qr f) ms (S k) uv true s = Ok r ->
  exists c, idx s = Ok c /\ Byte.eqb c x29 = true /\ r = (uv, true, advance 1 s).
Proof. intros until r. apply goRuni_after_set. Qed.

Theorem unknown_enum_symbol_R : forall e w x ig pF unesc em lp qr f syms s v s',
  decR e w x ig pF unesc em lp qr (S f) (TEnum syms) s = Ok (v, s') ->
  exists text, read_string unesc em s = Ok (text, s') /\ v = enum_value syms text /\
    ((~ In text syms /\ v = VEnum 0) \/
     (exists i, v = VEnum (S i) /\ nth_error syms i = Some text /\ forall m, m < i -> nth_error syms m <> Some text)).
Proof.
  intros until s'. rewrite decR_unfold. unfold stepR.
  destruct (read_string unesc em s) as [[text s0]| |]; cbn [bind]; try discriminate.
  intros H; inversion H; subst. exists text. split; [reflexivity|]. split; [reflexivity|].
  destruct (enum_value_spec syms text) as [[Hn ->]|[i [-> [Hi Hf]]]]; [left; auto | right; exists i; auto].
Qed.

Theorem fixed_size_enforced_R : forall e w x ig pF unesc em lp qr f n s,
  decR e w x ig pF unesc em lp qr (S f) (TFixed n) s =
  (do r <- read_string unesc em s;
   if Nat.eqb (length (fst r)) n then Ok (VFixed (fst r), snd r) else Err EFixedSize).
Proof.
  intros. rewrite decR_unfold. unfold stepR. destruct (read_string unesc em s) as [[b s0]| |]; reflexivity.
Qed.

Theorem fixed_ok_size_R : forall e w x ig pF unesc em lp qr f n s v s',
  decR e w x ig pF unesc em lp qr (S f) (TFixed n) s = Ok (v, s') ->
  exists b, read_string unesc em s = Ok (b, s') /\ v = VFixed b /\ length b = n.
Proof.
  intros until s'. rewrite fixed_size_enforced_R. destruct (read_string unesc em s) as [[b s0]| |]; cbn [bind fst snd]; try discriminate.
  destruct (Nat.eqb (length b) n) eqn:L; [|discriminate]. apply Nat.eqb_eq in L. intros H; inversion H; subst.
  exists b. auto.
Qed.

(* ==================================================================================================================== *)
(* 10. Why [dvalid] must allow the zero value in required slots: the unconditional statement is false                    *)
(* ==================================================================================================================== *)
(* some union struct, anywhere in the value, has no member set *)
Fixpoint has_empty_union (v : value) : bool :=
  let ob := fun o : option value => match o with Some y => has_empty_union y | None => false end in
  match v with
  | VRec incs fs => existsb has_empty_union incs || existsb ob fs
  | VUnion ms => Nat.eqb (count_set ms) 0 || existsb ob ms
  | VArr l => existsb has_empty_union l
  | VMap es => existsb (fun kv : bytes * value => let '(_, y) := kv in has_empty_union y) es
  | _ => false
  end.

(* "a document the JSON decoder ACCEPTS (no error, no missing-field report) never yields a non-nullable union with no member" *)
Definition decoded_unions_never_empty_full : Prop :=
  forall e w x ig pF fuel t data v,
    (forall n nullable ms, lookup e n = Some (DUnion nullable ms) -> nullable = false) ->
    decode_json e w x ig pF fuel t data = DOk v -> has_empty_union v = false.

(* record R { u : U (required) }, union U { a : int } (not nullable); the type decoded is array<R>; the document is [{}] *)
Definition cx11_env : env :=
  [DRecord [] [{| f_name := [x75]; f_ty := TRef 1; f_opt := Required |}]; DUnion false [([x61], TPrim PInt)]].
Definition cx11_doc : bytes := [x5b; x7b; x7d; x5d].

(* The required union field is absent; its absence is recorded in the tracker, but a top-level value that is not a record never
   raises the missing-fields report (defect D33 of the pinned tree), so the decode is accepted and the caller receives a
   non-nullable union with no member set. *)
Theorem decoded_unions_never_empty_refuted :
  exists e w x ig pF fuel t data v,
    (forall n nullable ms, lookup e n = Some (DUnion nullable ms) -> nullable = false) /\
    decode_json e w x ig pF fuel t data = DOk v /\ has_empty_union v = true.
Proof.
  exists cx11_env, [x2a], ps_empty, 0, (fun _ _ => None), 10, (TArray (TRef 0)), cx11_doc,
         (VArr [VRec [] [Some (VUnion [None])]]).
  split; [|split; vm_compute; reflexivity].
  intros [|[|[|n]]] nullable ms H; simpl in H; inversion H; reflexivity.
Qed.
