(* ValidityProofs (C11): the schema validity constraints are enforced by the generated encoders and decoders.

     union   exactly one member is set (at most one when the union is nullable)
     fixed   exactly the declared number of bytes
     enum    only a declared symbol is written; an unknown symbol read from the wire becomes the distinguished unknown
             constant (VEnum 0), never another symbol

   ENCODING ([enc], Codec/Encode.v).  [typed] is the shape of a Go value of the generated type (what the Go type system
   guarantees: an enum is any int32, a fixed is an array of the declared length, a union struct has one pointer per member);
   [valid] is the constraint proper.  [invalid_not_emitted]: a typed value that violates a constraint at a position the writer
   visits is never written (the outcome is an error - never Ok, never a panic) and [invalid_error_class] says which errors;
   [valid_emitted]: nothing else is rejected.

   DECODING ([decJ] over a JSON tree, [decR] over the ROR2 cursor, Codec/Decode.v).  [union_decodes_exactly_one] is the complete
   case analysis of the union decoder on the number of non-null entries of the object; [fixed_size_enforced];
   [unknown_enum_symbol]; and [decJ_dvalid] / [decR_dvalid]: whatever the decoders accept, every union of the result that was
   decoded from the document has exactly one member (none only when nullable), every fixed has its size and every enum is a
   declared constant or the unknown one.

   All statements are for ALL environments, types, values, documents, fuels (induction on the fuel of the model, on top of the
   one-step bodies [enc_body] (CanonProofs) and [stepJ]/[stepR] (Ror2NoPanic), which ARE the model by conversion). *)
From Coq Require Import List Bool Arith ZArith NArith Lia.
From Coq.Strings Require Import Byte.
From GR Require Import Base.Bytes Base.Res Base.Dec Codec.Schema Codec.Doc Codec.Json Codec.Tracker Codec.Encode Codec.Decode
  Proofs.CanonProofs Proofs.Ror2NoPanic.
Import ListNotations.

(* ==================================================================================================================== *)
(* 0. Specification vocabulary                                                                                           *)
(* ==================================================================================================================== *)

(* number of members of a union struct whose pointer is not nil *)
Fixpoint count_set {A} (vs : list (option A)) : nat :=
  match vs with
  | [] => 0
  | Some _ :: r => S (count_set r)
  | None :: r => count_set r
  end.

(* the union constraint *)
Definition union_ok {A} (nullable : bool) (vs : list (option A)) : Prop :=
  count_set vs = 1 \/ (nullable = true /\ count_set vs = 0).

(* nesting depth of a value: the recursion budget [enc] needs is [vdepth v + 1] *)
Fixpoint vdepth (v : value) : nat :=
  let od := fun o : option value => match o with Some x => vdepth x | None => 0 end in
  match v with
  | VRec incs fs => S (Nat.max (list_max (map vdepth incs)) (list_max (map od fs)))
  | VUnion ms => S (list_max (map od ms))
  | VArr l => S (list_max (map vdepth l))
  | VMap es => S (list_max (map (fun kv : bytes * value => let '(_, x) := kv in vdepth x) es))
  | _ => 0
  end.

Section Spec.
  Variable e : env.

  (* the shape of a Go value of the generated type for [t] (static typing; no constraint on enum constants or unions) *)
  Inductive typed : ty -> value -> Prop :=
  | T_int z : typed (TPrim PInt) (VInt z)
  | T_long z : typed (TPrim PLong) (VLong z)
  | T_float b : typed (TPrim PFloat) (VFloat b)
  | T_double b : typed (TPrim PDouble) (VDouble b)
  | T_bool b : typed (TPrim PBool) (VBool b)
  | T_str s : typed (TPrim PString) (VStr s)
  | T_bytes s : typed (TPrim PBytes) (VBytes s)
  | T_enum syms k : typed (TEnum syms) (VEnum k)                             (* type X int32 *)
  | T_fixed n s : length s = n -> typed (TFixed n) (VFixed s)                (* type X [n]byte *)
  | T_arr t l : Forall (typed t) l -> typed (TArray t) (VArr l)
  | T_map t es : Forall (fun kv => typed t (snd kv)) es -> typed (TMap t) (VMap es)
  | T_rec n incs fs ivs fvs :
      lookup e n = Some (DRecord incs fs) ->
      Forall2 (fun i iv => typed (TRef i) iv) incs ivs ->
      Forall2 (fun fd ov => (forall x, ov = Some x -> typed (f_ty fd) x) /\ (ov = None -> is_required (f_opt fd) = false)) fs fvs ->
      typed (TRef n) (VRec ivs fvs)
  | T_union n nullable ms vs :
      lookup e n = Some (DUnion nullable ms) ->
      Forall2 (fun (m : bytes * ty) ov => forall x, ov = Some x -> typed (snd m) x) ms vs ->
      typed (TRef n) (VUnion vs).

  (* the validity constraints, at every position of the value (a position below an unset optional field or an unset union
     member does not exist: there is no value there) *)
  Inductive valid : ty -> value -> Prop :=
  | V_prim p v : valid (TPrim p) v
  | V_enum syms k : 1 <= k <= length syms -> valid (TEnum syms) (VEnum k)
  | V_fixed n v : valid (TFixed n) v                                         (* the size is part of [typed] *)
  | V_arr t l : Forall (valid t) l -> valid (TArray t) (VArr l)
  | V_map t es : Forall (fun kv => valid t (snd kv)) es -> valid (TMap t) (VMap es)
  | V_rec n incs fs ivs fvs :
      lookup e n = Some (DRecord incs fs) ->
      Forall2 (fun i iv => valid (TRef i) iv) incs ivs ->
      Forall2 (fun fd ov => forall x, ov = Some x -> valid (f_ty fd) x) fs fvs ->
      valid (TRef n) (VRec ivs fvs)
  | V_union n nullable ms vs :
      lookup e n = Some (DUnion nullable ms) ->
      union_ok nullable vs ->
      Forall2 (fun (m : bytes * ty) ov => forall x, ov = Some x -> valid (snd m) x) ms vs ->
      valid (TRef n) (VUnion vs).
End Spec.

(* ==================================================================================================================== *)
(* 1. Small facts                                                                                                        *)
(* ==================================================================================================================== *)
Lemma ps_empty_matches w path : ps_matches w ps_empty path = false.
Proof. destruct path; reflexivity. Qed.

Lemma excluded_empty w scope : excluded w ps_empty scope = false.
Proof. apply ps_empty_matches. Qed.

Lemma count_set_zero_none {A} (vs : list (option A)) : count_set vs = 0 -> forall o, In o vs -> o = None.
Proof.
  induction vs as [|[a|] r IH]; simpl; intros H o Ho; try discriminate; [contradiction|].
  destruct Ho as [<-|Ho]; [reflexivity | apply IH; assumption].
Qed.

Lemma list_max_In x l : In x l -> x <= list_max l.
Proof.
  intros H. assert (F : Forall (fun k => k <= list_max l) l) by (apply list_max_le; lia).
  rewrite Forall_forall in F. apply F. exact H.
Qed.

Lemma Forall2_imp {A B} (P Q : A -> B -> Prop) l1 l2 :
  (forall a b, P a b -> Q a b) -> Forall2 P l1 l2 -> Forall2 Q l1 l2.
Proof. intros H F. induction F; constructor; auto. Qed.

Lemma is_ok_false_err {A} (r : res A) : is_panic r = false -> (forall a, r <> Ok a) -> exists x, r = Err x.
Proof. destruct r as [a|x|]; simpl; intros Hp Hn; [destruct (Hn a eq_refl) | exists x; reflexivity | discriminate]. Qed.

(* ==================================================================================================================== *)
(* 2. Encoding: what [Ok] implies (one step, over an abstract recursive call)                                            *)
(* ==================================================================================================================== *)
Section EncOk.
  Variables (e : env) (w : bytes) (rec : list bytes -> ty -> value -> res doc).
  Notation x := ps_empty.
  Hypothesis Hrec : forall scope t v d, rec scope t v = Ok d -> valid e t v.

  Lemma enc_key_valid scope k t v a : enc_key w x rec scope k t v = Ok a -> valid e t v.
  Proof.
    unfold enc_key. rewrite excluded_empty.
    destruct (rec (scope ++ [k]) t v) as [d| |] eqn:E; simpl; try discriminate. intros _. eapply Hrec; exact E.
  Qed.

  Lemma mapM_valid scope t l ds : mapM (rec scope t) l = Ok ds -> Forall (valid e t) l.
  Proof.
    revert ds. induction l as [|v r IH]; intros ds H; [constructor|]. simpl in H.
    destruct (rec scope t v) as [d| |] eqn:E; simpl in H; try discriminate.
    destruct (mapM (rec scope t) r) as [ds'| |]; simpl in H; try discriminate.
    constructor; [eapply Hrec; exact E | eapply IH; reflexivity].
  Qed.

  Lemma map_entries_valid scope t es ents :
    map_entries w x rec scope t es = Ok ents -> Forall (fun kv => valid e t (snd kv)) es.
  Proof.
    revert ents. induction es as [|[k v] r IH]; intros ents H; [constructor|]. rewrite map_entries_cons in H.
    destruct (enc_key w x rec scope k t v) as [a| |] eqn:Ea; simpl in H; try discriminate.
    destruct (map_entries w x rec scope t r) as [b| |]; simpl in H; try discriminate.
    constructor; [simpl; eapply enc_key_valid; exact Ea | eapply IH; reflexivity].
  Qed.

  Lemma inc_entries_valid scope incs ivs ents :
    inc_entries rec scope incs ivs = Ok ents -> Forall2 (fun i iv => valid e (TRef i) iv) incs ivs.
  Proof.
    revert ivs ents. induction incs as [|i incs IH]; intros [|iv ivs] ents H; try discriminate; [constructor|].
    rewrite inc_entries_cons in H.
    destruct (rec scope (TRef i) iv) as [d| |] eqn:E; simpl in H; try discriminate.
    destruct (match d with DObj en => Ok en | _ => Err EType end) as [a| |]; simpl in H; try discriminate.
    destruct (inc_entries rec scope incs ivs) as [b| |] eqn:Eb; simpl in H; try discriminate.
    constructor; [eapply Hrec; exact E | eapply IH; exact Eb].
  Qed.

  Lemma fields_entries_valid scope fs fvs own :
    fields_entries w x rec scope fs fvs = Ok own -> Forall2 (fun fd ov => forall y, ov = Some y -> valid e (f_ty fd) y) fs fvs.
  Proof.
    revert fvs own. induction fs as [|fd fs IH]; intros [|ov fvs] own H; try discriminate; [constructor|].
    rewrite fields_entries_cons in H.
    destruct (match ov with Some v' => enc_key w x rec scope (f_name fd) (f_ty fd) v'
                          | None => if is_required (f_opt fd) then Err EType else Ok [] end) as [a| |] eqn:Ea;
      simpl in H; try discriminate.
    destruct (fields_entries w x rec scope fs fvs) as [b| |] eqn:Eb; simpl in H; try discriminate.
    constructor; [|eapply IH; exact Eb].
    intros y ->. eapply enc_key_valid; exact Ea.
  Qed.

  (* the union loop (validateAllMembers): it succeeds only when no member is set after a set one *)
  Lemma union_entries_ok_inv scope mts vs isSet r :
    union_entries w x rec scope mts vs isSet = Ok r ->
    Forall2 (fun (m : bytes * ty) ov => forall y, ov = Some y -> valid e (snd m) y) mts vs /\
    (if isSet then count_set vs = 0 /\ snd r = true
     else (count_set vs = 0 /\ snd r = false) \/ (count_set vs = 1 /\ snd r = true)).
  Proof.
    revert vs isSet r. induction mts as [|[alias mt] mts IH]; intros [|ov vs] isSet r H; try discriminate.
    - simpl in H. inversion H; subst; simpl. split; [constructor|]. destruct isSet; auto.
    - rewrite union_entries_cons in H. destruct ov as [v'|].
      + destruct isSet; [discriminate|].
        destruct (enc_key w x rec scope alias mt v') as [a| |] eqn:Ea; simpl in H; try discriminate.
        destruct (union_entries w x rec scope mts vs true) as [br| |] eqn:Eb; simpl in H; try discriminate.
        inversion H; subst r; clear H. destruct (IH _ _ _ Eb) as [F [C S]]. simpl. split.
        * constructor; [|exact F]. intros y Hy; inversion Hy; subst. eapply enc_key_valid; exact Ea.
        * right. split; [rewrite C; reflexivity | exact S].
      + destruct (IH _ _ _ H) as [F C]. split; [|exact C]. constructor; [|exact F]. intros y Hy; discriminate.
  Qed.

  Lemma enc_body_valid scope t v d : enc_body e w x rec scope t v = Ok d -> valid e t v.
  Proof.
    destruct t as [p|syms|sz|n|t'|t']; try (intros; constructor; fail).
    - destruct v; simpl; try discriminate. destruct k as [|i]; [discriminate|].
      destruct (nth_error syms i) eqn:E; [|discriminate]. intros _. constructor.
      assert (i < length syms) by (apply nth_error_Some; congruence). lia.
    - destruct v; simpl; try discriminate.
      + destruct (lookup e n) as [[incs0 fs0|nullable mems]|] eqn:L; try discriminate.
        destruct (inc_entries rec scope incs0 incs) as [a| |] eqn:Ea; simpl; try discriminate.
        destruct (fields_entries w x rec scope fs0 fields) as [b| |] eqn:Eb; simpl; try discriminate.
        intros _. eapply V_rec; [exact L | eapply inc_entries_valid; exact Ea | eapply fields_entries_valid; exact Eb].
      + destruct (lookup e n) as [[incs0 fs0|nullable mems]|] eqn:L; try discriminate.
        destruct (union_entries w x rec scope mems members false) as [r| |] eqn:Eu; simpl; try discriminate.
        destruct (union_entries_ok_inv _ _ _ _ _ Eu) as [F C]. simpl in C.
        destruct (negb nullable && negb (snd r)) eqn:G; [discriminate|]. intros _.
        eapply V_union; [exact L | | exact F]. unfold union_ok.
        destruct C as [[C S]|[C S]]; [|left; exact C]. right. split; [|exact C].
        rewrite S in G. destruct nullable; [reflexivity | discriminate].
    - destruct v; simpl; try discriminate.
      destruct (mapM (rec (scope ++ [w]) t') l) as [ds| |] eqn:E; simpl; try discriminate.
      intros _. constructor. eapply mapM_valid; exact E.
    - destruct v; simpl; try discriminate.
      destruct (map_entries w x rec scope t' es) as [en| |] eqn:E; simpl; try discriminate.
      intros _. constructor. eapply map_entries_valid; exact E.
  Qed.
End EncOk.

Theorem enc_ok_valid : forall e w fuel scope t v d, enc e w ps_empty fuel scope t v = Ok d -> valid e t v.
Proof.
  intros e w fuel. induction fuel as [|f IH]; intros scope t v d H; [discriminate|].
  rewrite enc_S in H. eapply enc_body_valid; [|exact H]. exact IH.
Qed.

(* THEOREM (invalid values are never written).  No typing premise is needed for this direction. *)
Theorem invalid_not_emitted : forall e wildcard fuel scope t v,
  ~ valid e t v -> exists x, enc e wildcard ps_empty fuel scope t v = Err x.
Proof.
  intros e w fuel scope t v Hn. apply is_ok_false_err; [apply enc_no_panic|].
  intros d Hd. apply Hn. eapply enc_ok_valid; exact Hd.
Qed.

(* ==================================================================================================================== *)
(* 3. Encoding: the individual rejections, explicitly (any exclusion spec, any recursive call)                            *)
(* ==================================================================================================================== *)
Section EncErr.
  Variables (e : env) (w : bytes) (x : pathspec) (rec : list bytes -> ty -> value -> res doc).

  Definition b2n (b : bool) : nat := if b then 1 else 0.

  (* no member set: the loop writes nothing and reports isSet unchanged *)
  Lemma union_entries_none_set scope mts vs isSet :
    length vs = length mts -> count_set vs = 0 -> union_entries w x rec scope mts vs isSet = Ok ([], isSet).
  Proof.
    revert vs. induction mts as [|[alias mt] mts IH]; intros [|ov vs] L C; try discriminate; [reflexivity|].
    rewrite union_entries_cons. destruct ov; [discriminate|]. apply IH; [simpl in L; lia | exact C].
  Qed.

  (* a member set after a set one: EUnion, unless the encoding of an earlier set member failed first *)
  Lemma union_entries_second_set scope mts vs isSet :
    Forall2 (fun (m : bytes * ty) ov => forall v, ov = Some v -> exists a, enc_key w x rec scope (fst m) (snd m) v = Ok a) mts vs ->
    2 <= count_set vs + b2n isSet ->
    union_entries w x rec scope mts vs isSet = Err EUnion.
  Proof.
    intros F. revert isSet. induction F as [|[alias mt] ov mts vs Hm F IH]; intros isSet C.
    - destruct isSet; simpl in C; lia.
    - rewrite union_entries_cons. destruct ov as [v|]; [|apply IH; exact C].
      destruct isSet; [reflexivity|]. destruct (Hm v eq_refl) as [a Ha]. simpl in Ha. rewrite Ha. simpl.
      rewrite IH; [reflexivity|]. simpl in *. lia.
  Qed.

  (* whatever the members do, the loop never succeeds with two members set *)
  Lemma union_entries_ok_count scope mts vs isSet r :
    union_entries w x rec scope mts vs isSet = Ok r -> count_set vs + b2n isSet <= 1.
  Proof.
    revert vs isSet r. induction mts as [|[alias mt] mts IH]; intros [|ov vs] isSet r H; try discriminate.
    - destruct isSet; simpl; lia.
    - rewrite union_entries_cons in H. destruct ov as [v'|]; [|simpl; eapply IH; exact H].
      destruct isSet; [discriminate|].
      destruct (enc_key w x rec scope alias mt v') as [a| |]; simpl in H; try discriminate.
      destruct (union_entries w x rec scope mts vs true) as [br| |] eqn:Eb; simpl in H; try discriminate.
      apply IH in Eb. simpl in *. lia.
  Qed.

  Lemma enc_body_union_zero scope n ms vs :
    lookup e n = Some (DUnion false ms) -> length vs = length ms -> count_set vs = 0 ->
    enc_body e w x rec scope (TRef n) (VUnion vs) = Err EUnion.
  Proof. intros L Hl C. simpl. rewrite L, union_entries_none_set by assumption. reflexivity. Qed.

  Lemma enc_body_union_many scope n nullable ms vs :
    lookup e n = Some (DUnion nullable ms) -> 2 <= count_set vs ->
    (forall d, enc_body e w x rec scope (TRef n) (VUnion vs) <> Ok d) /\
    (Forall2 (fun (m : bytes * ty) ov => forall v, ov = Some v -> exists a, enc_key w x rec scope (fst m) (snd m) v = Ok a) ms vs ->
     enc_body e w x rec scope (TRef n) (VUnion vs) = Err EUnion).
  Proof.
    intros L C. simpl. rewrite L. split.
    - intros d. destruct (union_entries w x rec scope ms vs false) as [r|err|] eqn:E; simpl; try discriminate.
      apply union_entries_ok_count in E. simpl in E. lia.
    - intros F. rewrite union_entries_second_set; [reflexivity | exact F | simpl; lia].
  Qed.

  Lemma enc_body_enum_illegal scope syms k :
    ~ (1 <= k <= length syms) -> enc_body e w x rec scope (TEnum syms) (VEnum k) = Err EEnumConst.
  Proof.
    intros H. simpl. destruct k as [|i]; [reflexivity|]. destruct (nth_error syms i) eqn:E; [|reflexivity].
    exfalso. apply H. assert (i < length syms) by (apply nth_error_Some; congruence). lia.
  Qed.
End EncErr.

(* the same three facts about [enc] itself *)
Theorem enc_union_zero_members : forall e w x f scope n ms vs,
  lookup e n = Some (DUnion false ms) -> length vs = length ms -> count_set vs = 0 ->
  enc e w x (S f) scope (TRef n) (VUnion vs) = Err EUnion.
Proof. intros. rewrite enc_S. eapply enc_body_union_zero; eassumption. Qed.

Theorem enc_union_many_members : forall e w x f scope n nullable ms vs,
  lookup e n = Some (DUnion nullable ms) -> 2 <= count_set vs ->
  (exists err, enc e w x (S f) scope (TRef n) (VUnion vs) = Err err) /\
  (Forall2 (fun (m : bytes * ty) ov => forall v, ov = Some v ->
              exists d, excluded w x (scope ++ [fst m]) = false /\ enc e w x f (scope ++ [fst m]) (snd m) v = Ok d) ms vs ->
   enc e w x (S f) scope (TRef n) (VUnion vs) = Err EUnion).
Proof.
  intros e w x f scope n nullable ms vs L C. rewrite enc_S.
  destruct (enc_body_union_many e w x (enc e w x f) scope n nullable ms vs L C) as [H1 H2]. split.
  - apply is_ok_false_err; [rewrite <- enc_S; apply enc_no_panic | exact H1].
  - intros F. apply H2. eapply Forall2_imp; [|exact F]. intros m ov H v Hv.
    destruct (H v Hv) as [d [Hx Hd]]. unfold enc_key. rewrite Hx, Hd. eexists; reflexivity.
Qed.

Theorem enc_enum_illegal : forall e w x f scope syms k,
  ~ (1 <= k <= length syms) -> enc e w x (S f) scope (TEnum syms) (VEnum k) = Err EEnumConst.
Proof. intros. rewrite enc_S. apply enc_body_enum_illegal. assumption. Qed.

(* ==================================================================================================================== *)
(* 4. Encoding: a typed valid value is written (nothing else is rejected)                                                *)
(* ==================================================================================================================== *)
Lemma vdepth_arr x l : In x l -> vdepth x < vdepth (VArr l).
Proof. intros H. cbn [vdepth]. apply Nat.lt_succ_r. apply list_max_In. apply in_map. exact H. Qed.

Lemma vdepth_map k x es : In (k, x) es -> vdepth x < vdepth (VMap es).
Proof.
  intros H. cbn [vdepth]. apply Nat.lt_succ_r. apply list_max_In.
  apply (in_map (fun kv : bytes * value => let '(_, y) := kv in vdepth y)) in H. exact H.
Qed.

Lemma vdepth_inc x ivs fvs : In x ivs -> vdepth x < vdepth (VRec ivs fvs).
Proof.
  intros H. cbn [vdepth]. apply Nat.lt_succ_r. etransitivity; [|apply Nat.le_max_l]. apply list_max_In. apply in_map. exact H.
Qed.

Lemma vdepth_field x ivs fvs : In (Some x) fvs -> vdepth x < vdepth (VRec ivs fvs).
Proof.
  intros H. cbn [vdepth]. apply Nat.lt_succ_r. etransitivity; [|apply Nat.le_max_r]. apply list_max_In.
  apply (in_map (fun o : option value => match o with Some y => vdepth y | None => 0 end)) in H. exact H.
Qed.

Lemma vdepth_member x vs : In (Some x) vs -> vdepth x < vdepth (VUnion vs).
Proof.
  intros H. cbn [vdepth]. apply Nat.lt_succ_r. apply list_max_In.
  apply (in_map (fun o : option value => match o with Some y => vdepth y | None => 0 end)) in H. exact H.
Qed.

Lemma enc_noop_valid e t v : valid e t v -> enc_noop t v = Ok tt.
Proof.
  intros H. inversion H; subst; try reflexivity. simpl.
  destruct k as [|i]; [lia|]. destruct (nth_error syms i) eqn:E; [reflexivity|].
  apply nth_error_None in E. lia.
Qed.

Lemma enc_body_ref_obj e w x rec scope n v d :
  enc_body e w x rec scope (TRef n) v = Ok d -> exists en, d = DObj en.
Proof.
  destruct v; simpl; try discriminate; destruct (lookup e n) as [[incs0 fs0|nullable mems]|]; try discriminate.
  - destruct (inc_entries rec scope incs0 incs) as [a| |]; simpl; try discriminate.
    destruct (fields_entries w x rec scope fs0 fields) as [b| |]; simpl; try discriminate.
    intros H; inversion H. eexists; reflexivity.
  - destruct (union_entries w x rec scope mems members false) as [r| |]; simpl; try discriminate.
    destruct (negb nullable && negb (snd r)); [discriminate|]. intros H; inversion H. eexists; reflexivity.
Qed.

Lemma enc_ref_obj e w x f scope n v d : enc e w x f scope (TRef n) v = Ok d -> exists en, d = DObj en.
Proof. destruct f; [discriminate|]. rewrite enc_S. apply enc_body_ref_obj. Qed.

Section EncValid.
  Variables (e : env) (w : bytes) (x : pathspec) (rec : list bytes -> ty -> value -> res doc) (F : nat).
  Hypothesis Hrec : forall scope t v, typed e t v -> valid e t v -> vdepth v < F -> exists d, rec scope t v = Ok d.
  Hypothesis Hobj : forall scope n v d, rec scope (TRef n) v = Ok d -> exists en, d = DObj en.

  Lemma enc_key_emit scope k t v :
    typed e t v -> valid e t v -> vdepth v < F -> exists a, enc_key w x rec scope k t v = Ok a.
  Proof.
    intros Ht Hv Hd. unfold enc_key. destruct (excluded w x (scope ++ [k])).
    - rewrite (enc_noop_valid e t v Hv). eexists; reflexivity.
    - destruct (Hrec (scope ++ [k]) t v Ht Hv Hd) as [d ->]. eexists; reflexivity.
  Qed.

  Lemma mapM_emit scope t l :
    Forall (typed e t) l -> Forall (valid e t) l -> (forall y, In y l -> vdepth y < F) -> exists ds, mapM (rec scope t) l = Ok ds.
  Proof.
    induction l as [|v r IH]; intros Ht Hv Hd; [eexists; reflexivity|].
    inversion Ht; subst. inversion Hv; subst. simpl.
    destruct (Hrec scope t v) as [d ->]; [assumption | assumption | apply Hd; left; reflexivity |].
    destruct IH as [ds ->]; [assumption | assumption | intros y Hy; apply Hd; right; exact Hy |].
    eexists; reflexivity.
  Qed.

  Lemma map_entries_emit scope t es :
    Forall (fun kv => typed e t (snd kv)) es -> Forall (fun kv => valid e t (snd kv)) es ->
    (forall k y, In (k, y) es -> vdepth y < F) -> exists ents, map_entries w x rec scope t es = Ok ents.
  Proof.
    induction es as [|[k v] r IH]; intros Ht Hv Hd; [eexists; reflexivity|].
    inversion Ht; subst. inversion Hv; subst. rewrite map_entries_cons.
    destruct (enc_key_emit scope k t v) as [a ->]; [assumption | assumption | apply (Hd k); left; reflexivity |].
    destruct IH as [b ->]; [assumption | assumption | intros k' y Hy; apply (Hd k'); right; exact Hy |].
    eexists; reflexivity.
  Qed.

  Lemma inc_entries_emit scope incs ivs :
    Forall2 (fun i iv => typed e (TRef i) iv) incs ivs -> Forall2 (fun i iv => valid e (TRef i) iv) incs ivs ->
    (forall y, In y ivs -> vdepth y < F) -> exists ents, inc_entries rec scope incs ivs = Ok ents.
  Proof.
    intros Ht. induction Ht as [|i iv incs ivs Hi Ht IH]; intros Hv Hd; [eexists; reflexivity|].
    inversion Hv; subst. rewrite inc_entries_cons.
    destruct (Hrec scope (TRef i) iv) as [d Ed]; [assumption | assumption | apply Hd; left; reflexivity |].
    rewrite Ed. destruct (Hobj _ _ _ _ Ed) as [en ->]. simpl.
    destruct IH as [b ->]; [assumption | intros y Hy; apply Hd; right; exact Hy |].
    eexists; reflexivity.
  Qed.

  Lemma fields_entries_emit scope fs fvs :
    Forall2 (fun fd ov => (forall y, ov = Some y -> typed e (f_ty fd) y) /\ (ov = None -> is_required (f_opt fd) = false)) fs fvs ->
    Forall2 (fun fd ov => forall y, ov = Some y -> valid e (f_ty fd) y) fs fvs ->
    (forall y, In (Some y) fvs -> vdepth y < F) -> exists own, fields_entries w x rec scope fs fvs = Ok own.
  Proof.
    intros Ht. induction Ht as [|fd ov fs fvs [Hs Hn] Ht IH]; intros Hv Hd; [eexists; reflexivity|].
    inversion Hv; subst. rewrite fields_entries_cons.
    destruct IH as [b Eb]; [assumption | intros y Hy; apply Hd; right; exact Hy |]. rewrite Eb.
    destruct ov as [v|].
    - destruct (enc_key_emit scope (f_name fd) (f_ty fd) v) as [a ->]; [auto | auto | apply Hd; left; reflexivity |].
      eexists; reflexivity.
    - rewrite (Hn eq_refl). eexists; reflexivity.
  Qed.

  Lemma union_entries_emit scope mts vs isSet :
    Forall2 (fun (m : bytes * ty) ov => forall y, ov = Some y -> typed e (snd m) y) mts vs ->
    Forall2 (fun (m : bytes * ty) ov => forall y, ov = Some y -> valid e (snd m) y) mts vs ->
    (forall y, In (Some y) vs -> vdepth y < F) -> count_set vs + b2n isSet <= 1 ->
    exists r, union_entries w x rec scope mts vs isSet = Ok r /\ snd r = (isSet || negb (Nat.eqb (count_set vs) 0)).
  Proof.
    intros Ht. revert isSet. induction Ht as [|[alias mt] ov mts vs Hm Ht IH]; intros isSet Hv Hd C.
    - eexists; split; [reflexivity|]. simpl. destruct isSet; reflexivity.
    - inversion Hv; subst. rewrite union_entries_cons. destruct ov as [v|].
      + destruct isSet; [simpl in C; lia|].
        destruct (enc_key_emit scope alias mt v) as [a ->]; [apply Hm; reflexivity | auto | apply Hd; left; reflexivity |].
        destruct (IH true) as [r [Er Sr]]; [assumption | intros y Hy; apply Hd; right; exact Hy | simpl in *; lia |].
        rewrite Er. eexists; split; [reflexivity|]. simpl. exact Sr.
      + destruct (IH isSet) as [r [Er Sr]]; [assumption | intros y Hy; apply Hd; right; exact Hy | exact C |].
        exists r. split; [exact Er | exact Sr].
  Qed.

  Lemma enc_body_emit scope t v :
    typed e t v -> valid e t v -> vdepth v <= F -> exists d, enc_body e w x rec scope t v = Ok d.
  Proof.
    intros Ht Hv Hd. inversion Ht; subst; try (eexists; reflexivity).
    - inversion Hv; subst. simpl. destruct k as [|i]; [lia|]. destruct (nth_error syms i) eqn:E; [eexists; reflexivity|].
      apply nth_error_None in E. lia.
    - inversion Hv; subst. simpl.
      destruct (mapM_emit (scope ++ [w]) t0 l) as [ds ->]; [assumption | assumption | | eexists; reflexivity].
      intros y Hy. apply vdepth_arr in Hy. lia.
    - inversion Hv; subst. simpl.
      destruct (map_entries_emit scope t0 es) as [en ->]; [assumption | assumption | | eexists; reflexivity].
      intros k y Hy. apply vdepth_map in Hy. lia.
    - inversion Hv; subst. simpl. rewrite H.
      assert (incs0 = incs /\ fs0 = fs) as [-> ->] by (split; congruence).
      destruct (inc_entries_emit scope incs ivs) as [a ->]; [assumption | assumption | |].
      { intros y Hy. apply (vdepth_inc y ivs fvs) in Hy. lia. }
      destruct (fields_entries_emit scope fs fvs) as [b ->]; [assumption | assumption | |].
      { intros y Hy. apply (vdepth_field y ivs fvs) in Hy. lia. }
      eexists; reflexivity.
    - inversion Hv; subst. simpl. rewrite H.
      assert (nullable0 = nullable /\ ms0 = ms) as [-> ->] by (split; congruence).
      destruct (union_entries_emit scope ms vs false) as [r [-> Sr]]; [assumption | assumption | | |].
      { intros y Hy. apply vdepth_member in Hy. lia. }
      { unfold union_ok in *. simpl. lia. }
      simpl. rewrite Sr. simpl.
      match goal with Hu : union_ok _ _ |- _ => destruct Hu as [C|[-> C]] end; rewrite C; simpl; [rewrite andb_false_r|]; eexists; reflexivity.
  Qed.
End EncValid.

(* THEOREM (valid values are written): with ANY exclusion spec, a typed valid value is encoded as soon as the recursion
   budget exceeds its nesting depth.  The only further premise is typing itself (which holds the fixed's length). *)
Theorem valid_emitted : forall e wildcard excl fuel scope t v,
  typed e t v -> valid e t v -> vdepth v < fuel -> exists d, enc e wildcard excl fuel scope t v = Ok d.
Proof.
  intros e w x fuel. induction fuel as [|f IH]; intros scope t v Ht Hv Hd; [lia|].
  rewrite enc_S. eapply enc_body_emit with (F := f); [exact IH | apply enc_ref_obj | exact Ht | exact Hv | lia].
Qed.

(* ==================================================================================================================== *)
(* 5. Encoding: WHICH error.  On a typed value and a sufficient budget the only errors the encoder can raise are the two   *)
(*    validity errors (the model artefacts EType and EFuel are excluded by the premises).                                  *)
(* ==================================================================================================================== *)
Definition validity_error (x : err) : Prop := x = EUnion \/ x = EEnumConst.

Lemma enc_noop_err t v x : enc_noop t v = Err x -> x = EEnumConst.
Proof.
  destruct t; try discriminate. destruct v; try discriminate. simpl. destruct k as [|i]; [congruence|].
  destruct (nth_error symbols i); [discriminate | congruence].
Qed.

Section EncClass.
  Variables (e : env) (w : bytes) (x : pathspec) (rec : list bytes -> ty -> value -> res doc) (F : nat).
  Hypothesis Hrec : forall scope t v err, typed e t v -> vdepth v < F -> rec scope t v = Err err -> validity_error err.
  Hypothesis Hobj : forall scope n v d, rec scope (TRef n) v = Ok d -> exists en, d = DObj en.

  Lemma enc_key_cls scope k t v err :
    typed e t v -> vdepth v < F -> enc_key w x rec scope k t v = Err err -> validity_error err.
  Proof.
    intros Ht Hd. unfold enc_key. destruct (excluded w x (scope ++ [k])).
    - destruct (enc_noop t v) as [u|y|] eqn:E; simpl; try discriminate. intros H; inversion H; subst.
      right. eapply enc_noop_err; exact E.
    - destruct (rec (scope ++ [k]) t v) as [d|y|] eqn:E; simpl; try discriminate. intros H; inversion H; subst.
      eapply Hrec; eassumption.
  Qed.

  Lemma mapM_cls scope t l err :
    Forall (typed e t) l -> (forall y, In y l -> vdepth y < F) -> mapM (rec scope t) l = Err err -> validity_error err.
  Proof.
    induction l as [|v r IH]; intros Ht Hd H; [discriminate|]. inversion Ht; subst. simpl in H.
    destruct (rec scope t v) as [d|y|] eqn:E; simpl in H; try discriminate.
    - destruct (mapM (rec scope t) r) as [ds|y|] eqn:E2; simpl in H; try discriminate. inversion H; subst.
      apply IH; [assumption | intros z Hz; apply Hd; right; exact Hz | reflexivity].
    - inversion H; subst. eapply Hrec; [eassumption | apply Hd; left; reflexivity | exact E].
  Qed.

  Lemma map_entries_cls scope t es err :
    Forall (fun kv => typed e t (snd kv)) es -> (forall k y, In (k, y) es -> vdepth y < F) ->
    map_entries w x rec scope t es = Err err -> validity_error err.
  Proof.
    induction es as [|[k v] r IH]; intros Ht Hd H; [discriminate|]. inversion Ht; subst. rewrite map_entries_cons in H.
    destruct (enc_key w x rec scope k t v) as [a|y|] eqn:E; simpl in H; try discriminate.
    - destruct (map_entries w x rec scope t r) as [b|y|] eqn:E2; simpl in H; try discriminate. inversion H; subst.
      apply IH; [assumption | intros k' z Hz; apply (Hd k'); right; exact Hz | reflexivity].
    - inversion H; subst. eapply enc_key_cls; [eassumption | apply (Hd k); left; reflexivity | exact E].
  Qed.

  Lemma inc_entries_cls scope incs ivs err :
    Forall2 (fun i iv => typed e (TRef i) iv) incs ivs -> (forall y, In y ivs -> vdepth y < F) ->
    inc_entries rec scope incs ivs = Err err -> validity_error err.
  Proof.
    intros Ht. induction Ht as [|i iv incs ivs Hi Ht IH]; intros Hd H; [discriminate|]. rewrite inc_entries_cons in H.
    destruct (rec scope (TRef i) iv) as [d|y|] eqn:E; simpl in H; try discriminate.
    - destruct (Hobj _ _ _ _ E) as [en ->]. simpl in H.
      destruct (inc_entries rec scope incs ivs) as [b|y|] eqn:E2; simpl in H; try discriminate. inversion H; subst.
      apply IH; [intros z Hz; apply Hd; right; exact Hz | reflexivity].
    - inversion H; subst. eapply Hrec; [exact Hi | apply Hd; left; reflexivity | exact E].
  Qed.

  Lemma fields_entries_cls scope fs fvs err :
    Forall2 (fun fd ov => (forall y, ov = Some y -> typed e (f_ty fd) y) /\ (ov = None -> is_required (f_opt fd) = false)) fs fvs ->
    (forall y, In (Some y) fvs -> vdepth y < F) ->
    fields_entries w x rec scope fs fvs = Err err -> validity_error err.
  Proof.
    intros Ht. induction Ht as [|fd ov fs fvs [Hs Hn] Ht IH]; intros Hd H; [discriminate|]. rewrite fields_entries_cons in H.
    destruct ov as [v|].
    - destruct (enc_key w x rec scope (f_name fd) (f_ty fd) v) as [a|y|] eqn:E; simpl in H; try discriminate.
      + destruct (fields_entries w x rec scope fs fvs) as [b|y|] eqn:E2; simpl in H; try discriminate. inversion H; subst.
        apply IH; [intros z Hz; apply Hd; right; exact Hz | reflexivity].
      + inversion H; subst. eapply enc_key_cls; [apply Hs; reflexivity | apply Hd; left; reflexivity | exact E].
    - rewrite (Hn eq_refl) in H. simpl in H.
      destruct (fields_entries w x rec scope fs fvs) as [b|y|] eqn:E2; simpl in H; try discriminate. inversion H; subst.
      apply IH; [intros z Hz; apply Hd; right; exact Hz | reflexivity].
  Qed.

  Lemma union_entries_cls scope mts vs isSet err :
    Forall2 (fun (m : bytes * ty) ov => forall y, ov = Some y -> typed e (snd m) y) mts vs ->
    (forall y, In (Some y) vs -> vdepth y < F) ->
    union_entries w x rec scope mts vs isSet = Err err -> validity_error err.
  Proof.
    intros Ht. revert isSet. induction Ht as [|[alias mt] ov mts vs Hm Ht IH]; intros isSet Hd H; [discriminate|].
    rewrite union_entries_cons in H. destruct ov as [v|].
    - destruct isSet; [inversion H; left; reflexivity|].
      destruct (enc_key w x rec scope alias mt v) as [a|y|] eqn:E; simpl in H; try discriminate.
      + destruct (union_entries w x rec scope mts vs true) as [b|y|] eqn:E2; simpl in H; try discriminate. inversion H; subst.
        eapply IH; [intros z Hz; apply Hd; right; exact Hz | exact E2].
      + inversion H; subst. eapply enc_key_cls; [apply Hm; reflexivity | apply Hd; left; reflexivity | exact E].
    - eapply IH; [intros z Hz; apply Hd; right; exact Hz | exact H].
  Qed.

  Lemma enc_body_cls scope t v err :
    typed e t v -> vdepth v <= F -> enc_body e w x rec scope t v = Err err -> validity_error err.
  Proof.
    intros Ht Hd. inversion Ht; subst; try discriminate.
    - simpl. destruct k as [|i]; [intros H; inversion H; right; reflexivity|].
      destruct (nth_error syms i); [discriminate|]. intros H; inversion H; right; reflexivity.
    - simpl. destruct (mapM (rec (scope ++ [w]) t0) l) as [ds|y|] eqn:E; simpl; try discriminate.
      intros H'; inversion H'; subst. eapply mapM_cls; [eassumption | | exact E].
      intros y Hy. apply vdepth_arr in Hy. lia.
    - simpl. destruct (map_entries w x rec scope t0 es) as [en|y|] eqn:E; simpl; try discriminate.
      intros H'; inversion H'; subst. eapply map_entries_cls; [eassumption | | exact E].
      intros k y Hy. apply vdepth_map in Hy. lia.
    - simpl. rewrite H.
      destruct (inc_entries rec scope incs ivs) as [a|y|] eqn:E; simpl; try discriminate.
      + destruct (fields_entries w x rec scope fs fvs) as [b|y|] eqn:E2; simpl; try discriminate.
        intros H'; inversion H'; subst. eapply fields_entries_cls; [eassumption | | exact E2].
        intros y Hy. apply (vdepth_field y ivs fvs) in Hy. lia.
      + intros H'; inversion H'; subst. eapply inc_entries_cls; [eassumption | | exact E].
        intros y Hy. apply (vdepth_inc y ivs fvs) in Hy. lia.
    - simpl. rewrite H.
      destruct (union_entries w x rec scope ms vs false) as [r|y|] eqn:E; simpl; try discriminate.
      + destruct (negb nullable && negb (snd r)); [|discriminate]. intros H'; inversion H'; left; reflexivity.
      + intros H'; inversion H'; subst. eapply union_entries_cls; [eassumption | | exact E].
        intros y Hy. apply vdepth_member in Hy. lia.
  Qed.
End EncClass.

Theorem typed_error_class : forall e wildcard excl fuel scope t v err,
  typed e t v -> vdepth v < fuel -> enc e wildcard excl fuel scope t v = Err err -> validity_error err.
Proof.
  intros e w x fuel. induction fuel as [|f IH]; intros scope t v err Ht Hd H; [lia|].
  rewrite enc_S in H. eapply enc_body_cls with (F := f); [exact IH | apply enc_ref_obj | exact Ht | lia | exact H].
Qed.

(* THEOREM (the complete outcome on typed values): written iff valid; otherwise rejected with a validity error. *)
Theorem typed_encode_outcome : forall e wildcard fuel scope t v,
  typed e t v -> vdepth v < fuel ->
  (valid e t v /\ exists d, enc e wildcard ps_empty fuel scope t v = Ok d) \/
  (~ valid e t v /\ (enc e wildcard ps_empty fuel scope t v = Err EUnion \/ enc e wildcard ps_empty fuel scope t v = Err EEnumConst)).
Proof.
  intros e w fuel scope t v Ht Hd.
  destruct (enc e w ps_empty fuel scope t v) as [d|err|] eqn:E.
  - left. split; [eapply enc_ok_valid; exact E | exists d; reflexivity].
  - right. split.
    + intros Hv. destruct (valid_emitted e w ps_empty fuel scope t v Ht Hv Hd) as [d Ed]. congruence.
    + destruct (typed_error_class _ _ _ _ _ _ _ _ Ht Hd E) as [->| ->]; [left | right]; reflexivity.
  - pose proof (enc_no_panic e w ps_empty fuel scope t v) as Hp. rewrite E in Hp. discriminate.
Qed.
