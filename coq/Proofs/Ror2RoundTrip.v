(* C01, ROR2 part: rendering an encoded value in any of the three ROR2 flavours and reading it back with the
   cursor-level reader gives the (canonicalised) value back.  Levels L1 (tables), L2 (tokens), L3 (values), L4 (records,
   unions).  The model files are not modified; everything here is proofs plus the specification-side definitions
   (typed, vsize, canon, expect ...). *)
From Coq Require Import List Bool Arith ZArith NArith Lia Permutation.
From Coq.Strings Require Import Byte.
From GR Require Import Base.Bytes Base.Res Base.Dec Codec.Schema Codec.Doc Codec.Escape Codec.Utf8 Codec.Json Codec.Tracker
  Codec.Render Codec.Encode Codec.Decode Proofs.EscapeProofs Gen.TablesCodec.
From GR Require Proofs.Ror2NoPanic.     (* djmix: how decJ calls itself on default literals (no exclusions, scopeToIgnore 0) *)
Local Notation djmix := Ror2NoPanic.djmix.
Import ListNotations.

Local Notation esc fl := (escape v2_hex_chars v2_unescaped_path_chars v2_unescaped_query_chars v2_header_escaped_chars fl).
Local Notation safe fl := (safe_of v2_unescaped_path_chars v2_unescaped_query_chars v2_header_escaped_chars fl).
Local Notation rstr fl := (ror2_string v2_hex_chars v2_unescaped_path_chars v2_unescaped_query_chars v2_header_escaped_chars
                             v2_empty_string fl).
Local Notation unesc fl := (unescape (plus_of fl)).

(* ======================================================================================================
   L1: the tables of the current tree
   ====================================================================================================== *)
Lemma hex_ok_v2 : hex_ok v2_hex_chars = true.
Proof. vm_compute. reflexivity. Qed.

Lemma hex_len_v2 : length v2_hex_chars = 16.
Proof. reflexivity. Qed.

Lemma safe_ok_v2 fl : safe_ok (plus_of fl) (safe fl) = true.
Proof. destruct fl; vm_compute; reflexivity. Qed.

Theorem unescape_escape_fl fl s : unescape_fl fl (esc fl s) = Some s.
Proof. apply unescape_escape; [apply hex_ok_v2 | apply safe_ok_v2]. Qed.

(* the five ROR2 delimiters  ( ) , : '  *)
Definition ror2_delims : bytes := [x28; x29; x2c; x3a; x27].

Lemma delims_not_out fl : forallb (fun d => negb (out_byte v2_hex_chars (safe fl) d)) ror2_delims = true.
Proof. destruct fl; vm_compute; reflexivity. Qed.

Lemma delim_not_out fl d : In d ror2_delims -> out_byte v2_hex_chars (safe fl) d = false.
Proof.
  intros H. pose proof (delims_not_out fl) as A. rewrite forallb_forall in A.
  apply A in H. apply negb_true_iff in H. exact H.
Qed.

Theorem escape_no_delim fl s d : In d ror2_delims -> mem_byte d (esc fl s) = false.
Proof. intros H. apply escape_avoids; [apply hex_len_v2 | apply delim_not_out; exact H]. Qed.

(* ======================================================================================================
   L2: tokens
   ====================================================================================================== *)
Definition cur (c : bool) (rest : bytes) (tr : tracker) : rst := {| r_rest := rest; r_consumed := c; r_tr := tr |}.

Definition delim_started (rest : bytes) : Prop := exists c r, rest = c :: r /\ is_delim c = true.
(* the context of a primitive token: inside a map / list it is followed by ',' or ')'; at position 0 it is the whole input *)
Definition tok_ctx (c : bool) (rest : bytes) : Prop := if c then delim_started rest else rest = [].

(* a token free of the four structural delimiters ( ) , :   (the empty marker '' is one) / of all five *)
Definition tokfree4 (tok : bytes) : Prop := forall d, In d [x28; x29; x2c; x3a] -> mem_byte d tok = false.
Definition tokfree (tok : bytes) : Prop := forall d, In d ror2_delims -> mem_byte d tok = false.

Lemma tokfree_4 tok : tokfree tok -> tokfree4 tok.
Proof. intros H d Hd. apply H. simpl in *. tauto. Qed.

Lemma mem_byte_app c a b : mem_byte c (a ++ b) = mem_byte c a || mem_byte c b.
Proof. induction a as [|x a IH]; simpl; [reflexivity|]. rewrite IH, orb_assoc. reflexivity. Qed.

Lemma tokfree4_cons c tok : tokfree4 (c :: tok) -> tokfree4 tok /\ (forall d, In d [x28; x29; x2c; x3a] -> Byte.eqb c d = false).
Proof.
  intros H. split; intros d Hd; specialize (H d Hd); simpl in H; apply orb_false_iff in H; tauto.
Qed.

Lemma tokfree_esc fl s : tokfree (esc fl s).
Proof. intros d Hd. apply escape_no_delim; exact Hd. Qed.

Lemma scan_token_ok tok rest : tokfree4 tok -> delim_started rest -> scan_token (tok ++ rest) = Some (tok, rest).
Proof.
  intros Hf (d & r & -> & Hd). induction tok as [|c tok IH]; simpl.
  - rewrite Hd. reflexivity.
  - apply tokfree4_cons in Hf as [Hf Hc]. unfold is_delim.
    rewrite (Hc x2c), (Hc x29) by (simpl; tauto). simpl. rewrite (IH Hf). reflexivity.
Qed.

Lemma not_illegal tok : tokfree4 tok -> existsb is_illegal tok = false.
Proof.
  induction tok as [|c tok IH]; intros Hf; simpl; [reflexivity|].
  apply tokfree4_cons in Hf as [Hf Hc]. unfold is_illegal at 1.
  rewrite (Hc x28), (Hc x2c), (Hc x29) by (simpl; tauto). simpl. apply IH, Hf.
Qed.

Lemma read_token_ok c tok rest tr : tokfree4 tok -> tok <> [] -> tok_ctx c rest ->
  read_token (cur c (tok ++ rest) tr) = Ok (tok, cur true rest tr).
Proof.
  intros Hf Hn Hc. unfold read_token, cur; cbn [r_consumed r_rest r_tr]. destruct c; cbn [tok_ctx] in Hc.
  - rewrite (scan_token_ok _ _ Hf Hc). cbn [bind]. rewrite (not_illegal _ Hf). reflexivity.
  - subst rest. rewrite app_nil_r. cbn [bind]. rewrite (not_illegal _ Hf).
    destruct tok; [congruence|]. reflexivity.
Qed.

Lemma scan_name_ok tok rest : tokfree4 tok -> scan_name (tok ++ x3a :: rest) = Some (tok, rest).
Proof.
  intros Hf. induction tok as [|c tok IH]; simpl.
  - reflexivity.
  - apply tokfree4_cons in Hf as [Hf Hc]. unfold is_delim.
    rewrite (Hc x3a), (Hc x2c), (Hc x29) by (simpl; tauto). simpl. rewrite (IH Hf). reflexivity.
Qed.

(* strings *)
Lemma tokfree_empty_marker_not tok : tokfree tok -> bytes_eqb tok v2_empty_string = false.
Proof.
  intros Hf. apply bytes_eqb_neq. intros ->. specialize (Hf x27). discriminate Hf. simpl. tauto.
Qed.

Lemma esc_nonempty fl s : s <> [] -> esc fl s <> [].
Proof. apply escape_nonempty. Qed.

Lemma rstr_cases fl s : (s = [] /\ rstr fl s = v2_empty_string) \/ (s <> [] /\ rstr fl s = esc fl s).
Proof. destruct s; [left | right]; split; try reflexivity; discriminate. Qed.

Lemma rstr_nonempty fl s : rstr fl s <> [].
Proof. destruct (rstr_cases fl s) as [[_ ->]|[H ->]]; [discriminate | apply esc_nonempty, H]. Qed.

Lemma rstr_free4 fl s : tokfree4 (rstr fl s).
Proof.
  destruct (rstr_cases fl s) as [[_ ->]|[_ ->]].
  - intros d Hd. simpl in Hd. destruct Hd as [<-|[<-|[<-|[<-|[]]]]]; reflexivity.
  - apply tokfree_4, tokfree_esc.
Qed.

Theorem read_string_ok fl c s rest tr : tok_ctx c rest ->
  read_string (unesc fl) v2_empty_string (cur c (rstr fl s ++ rest) tr) = Ok (s, cur true rest tr).
Proof.
  intros Hc. unfold read_string.
  rewrite (read_token_ok c _ rest tr (rstr_free4 fl s) (rstr_nonempty fl s) Hc). cbn [bind].
  pose proof (rstr_nonempty fl s) as Hn.
  destruct (rstr_cases fl s) as [[-> E]|[Hs E]]; rewrite E in *.
  - reflexivity.
  - destruct (esc fl s) as [|x y] eqn:Ee; [congruence|]. rewrite <- Ee.
    rewrite (tokfree_empty_marker_not _ (tokfree_esc fl s)).
    pose proof (unescape_escape_fl fl s) as U. unfold unescape_fl in U. rewrite U. reflexivity.
Qed.

Theorem read_field_name_ok fl c key rest tr :
  read_field_name (unesc fl) v2_empty_string (cur c (rstr fl key ++ x3a :: rest) tr) = Ok (key, cur true rest tr).
Proof.
  unfold read_field_name, check_not_at_end. cbn [cur r_rest].
  pose proof (rstr_nonempty fl key) as Hn.
  destruct (rstr fl key ++ x3a :: rest) as [|a b] eqn:Ea; [destruct (rstr fl key); discriminate|]. rewrite <- Ea. cbn [bind].
  rewrite (scan_name_ok _ rest (rstr_free4 fl key)).
  destruct (rstr_cases fl key) as [[-> E]|[Hs E]]; rewrite E in *.
  - reflexivity.
  - destruct (esc fl key) as [|x y] eqn:Ee; [congruence|]. rewrite <- Ee.
    rewrite (tokfree_empty_marker_not _ (tokfree_esc fl key)).
    pose proof (unescape_escape_fl fl key) as U. unfold unescape_fl in U. rewrite U. reflexivity.
Qed.

(* tokens that are written unescaped (integers, booleans, NaN / Infinity): bytes that the unescapers leave alone *)
Definition plain (c : byte) : bool :=
  negb (Byte.eqb c x25) && negb (Byte.eqb c x2b) && negb (Byte.eqb c x28) && negb (Byte.eqb c x29)
  && negb (Byte.eqb c x2c) && negb (Byte.eqb c x3a).

Lemma plain_unescape plus s : forallb plain s = true -> unescape plus s = Some s.
Proof.
  induction s as [|c s IH]; intros H; [reflexivity|]. simpl in H. apply andb_true_iff in H as [Hc Hs].
  unfold plain in Hc. repeat (apply andb_true_iff in Hc as [Hc ?]).
  cbn [unescape]. apply negb_true_iff in Hc. rewrite Hc, (IH Hs).
  match goal with A : negb (Byte.eqb c x2b) = true |- _ => apply negb_true_iff in A; rewrite A end.
  rewrite andb_false_r. reflexivity.
Qed.

Lemma plain_free4 s : forallb plain s = true -> tokfree4 s.
Proof.
  induction s as [|c s IH]; intros H d Hd; [reflexivity|]. simpl in H. apply andb_true_iff in H as [Hc Hs].
  simpl. rewrite (IH Hs d Hd), orb_false_r.
  unfold plain in Hc. repeat (apply andb_true_iff in Hc as [Hc ?]).
  repeat match goal with A : negb _ = true |- _ => apply negb_true_iff in A end.
  simpl in Hd. destruct Hd as [<-|[<-|[<-|[<-|[]]]]]; assumption.
Qed.

Lemma dec_byte_plain : forall c, dec_byte c = true -> plain c = true.
Proof.
  assert (H : forallb (fun c => negb (dec_byte c) || plain c) all_bytes = true) by (vm_compute; reflexivity).
  intros c Hc. pose proof (forall_bytes _ H c) as A. cbv beta in A. rewrite Hc in A. exact A.
Qed.

Lemma print_dec_plain z : forallb plain (print_dec z) = true.
Proof.
  apply forallb_forall. intros c Hc. apply dec_byte_plain.
  pose proof (print_dec_alphabet z) as A. rewrite Forall_forall in A. apply A, Hc.
Qed.

Lemma read_decoded_plain fl c tok rest tr : forallb plain tok = true -> tok <> [] -> tok_ctx c rest ->
  read_decoded (unesc fl) (cur c (tok ++ rest) tr) = Ok (tok, cur true rest tr).
Proof.
  intros Hp Hn Hc. unfold read_decoded. rewrite (read_token_ok c tok rest tr (plain_free4 _ Hp) Hn Hc). cbn [bind].
  rewrite (plain_unescape _ _ Hp). reflexivity.
Qed.

Lemma read_decoded_esc fl c s rest tr : s <> [] -> tok_ctx c rest ->
  read_decoded (unesc fl) (cur c (esc fl s ++ rest) tr) = Ok (s, cur true rest tr).
Proof.
  intros Hn Hc. unfold read_decoded.
  rewrite (read_token_ok c _ rest tr (tokfree_4 _ (tokfree_esc fl s)) (esc_nonempty fl s Hn) Hc). cbn [bind].
  pose proof (unescape_escape_fl fl s) as U. unfold unescape_fl in U. rewrite U. reflexivity.
Qed.

Theorem read_int_ok fl c z rest tr : tok_ctx c rest ->
  read_decoded (unesc fl) (cur c (print_dec z ++ rest) tr) = Ok (print_dec z, cur true rest tr).
Proof. intros Hc. apply read_decoded_plain; [apply print_dec_plain | apply print_dec_nonempty | exact Hc]. Qed.

Definition bool_text (b : bool) : bytes := if b then s_true else s_false.
Theorem read_bool_ok fl c (b : bool) rest tr : tok_ctx c rest ->
  read_decoded (unesc fl) (cur c (bool_text b ++ rest) tr) = Ok (bool_text b, cur true rest tr)
  /\ parse_bool (bool_text b) = Some b.
Proof.
  intros Hc. unfold bool_text. split; [|destruct b; reflexivity].
  apply read_decoded_plain; [destruct b; reflexivity | destruct b; discriminate | exact Hc].
Qed.

(* L2 counterexample to the naive context condition: a consumed-state cursor whose token runs to the end of the input is an
   error (unsafeReadPrimitiveFieldValue needs the closing delimiter); "rest empty" is only right at position 0 *)
Example consumed_token_needs_delimiter :
  read_string (unescape false) v2_empty_string (cur true [x61] tracker0) = Err EDeser.
Proof. vm_compute. reflexivity. Qed.

(* ======================================================================================================
   sort_entries (insertion sort by key): facts used by the map / record cases
   ====================================================================================================== *)
Section SortFacts.
  Context {A B : Type}.

  Lemma insert_entry_perm (k : bytes) (v : A) l : Permutation (insert_entry k v l) ((k, v) :: l).
  Proof.
    induction l as [|[k' v'] r IH]; simpl; [reflexivity|].
    destruct (bytes_ltb k k'); [reflexivity|].
    rewrite IH. apply perm_swap.
  Qed.

  Lemma sort_entries_perm (l : list (bytes * A)) : Permutation (sort_entries l) l.
  Proof.
    induction l as [|[k v] r IH]; simpl; [reflexivity|]. rewrite insert_entry_perm. constructor. exact IH.
  Qed.

  Lemma sort_entries_length (l : list (bytes * A)) : length (sort_entries l) = length l.
  Proof. apply Permutation_length, sort_entries_perm. Qed.

  Lemma sort_entries_keys_nodup (l : list (bytes * A)) : NoDup (map fst l) -> NoDup (map fst (sort_entries l)).
  Proof. intros H. eapply Permutation_NoDup; [|exact H]. apply Permutation_map. symmetry. apply sort_entries_perm. Qed.

  (* relation lifting: sorting only looks at the keys *)
  Variable P : A -> B -> Prop.
  Definition entry_rel (x : bytes * A) (y : bytes * B) : Prop := fst x = fst y /\ P (snd x) (snd y).

  Lemma insert_entry_rel k a b l1 l2 : P a b -> Forall2 entry_rel l1 l2 ->
    Forall2 entry_rel (insert_entry k a l1) (insert_entry k b l2).
  Proof.
    intros Hab H. induction H as [|[k1 a1] [k2 b1] l1 l2 [Hk Hp] HF IH]; simpl.
    - constructor; [split; [reflexivity | exact Hab] | constructor].
    - simpl in Hk. subst k2. destruct (bytes_ltb k k1).
      + constructor; [split; [reflexivity | exact Hab]|]. constructor; [split; [reflexivity | exact Hp] | exact HF].
      + constructor; [split; [reflexivity | exact Hp] | exact IH].
  Qed.

  Lemma sort_entries_rel l1 l2 : Forall2 entry_rel l1 l2 -> Forall2 entry_rel (sort_entries l1) (sort_entries l2).
  Proof.
    intros H. induction H as [|[k1 a1] [k2 b1] l1 l2 [Hk Hp] HF IH]; simpl; [constructor|].
    simpl in Hk, Hp. subst k2. apply insert_entry_rel; assumption.
  Qed.
End SortFacts.

Section SortFacts2.
  Context {A B : Type}.
  Variable g : A -> B.
  Definition map_val (kv : bytes * A) : bytes * B := let '(k, x) := kv in (k, g x).

  Lemma insert_entry_map k v l : map map_val (insert_entry k v l) = insert_entry k (g v) (map map_val l).
  Proof.
    induction l as [|[k' v'] r IH]; simpl; [reflexivity|].
    destruct (bytes_ltb k k'); simpl; [reflexivity|]. rewrite IH. reflexivity.
  Qed.
  Lemma sort_entries_map l : map map_val (sort_entries l) = sort_entries (map map_val l).
  Proof. induction l as [|[k v] r IH]; simpl; [reflexivity|]. rewrite insert_entry_map, IH. reflexivity. Qed.
  Lemma map_val_keys l : map fst (map map_val l) = map fst l.
  Proof. induction l as [|[k v] r IH]; simpl; [reflexivity|]. rewrite IH. reflexivity. Qed.
End SortFacts2.

(* strictly increasing keys *)
Fixpoint ssorted {A} (l : list (bytes * A)) : Prop :=
  match l with
  | [] => True
  | (k, _) :: r => (match r with [] => True | (k', _) :: _ => bytes_ltb k k' = true end) /\ ssorted r
  end.

Lemma insert_ssorted {A} k (v : A) l : ssorted l -> ~ In k (map fst l) -> ssorted (insert_entry k v l).
Proof.
  induction l as [|[k' v'] r IH]; intros Hs Hn; simpl.
  - auto.
  - destruct (bytes_ltb k k') eqn:E.
    + simpl. split; [exact E|]. exact Hs.
    + simpl in Hs. destruct Hs as [Hh Hs]. simpl in Hn.
      assert (Hlt : bytes_ltb k' k = true).
      { destruct (bytes_ltb k' k) eqn:E2; [reflexivity|]. exfalso. apply Hn. left. apply bytes_ltb_total; assumption. }
      specialize (IH Hs (fun H => Hn (or_intror H))).
      destruct r as [|[k'' v''] r'].
      * simpl. auto.
      * simpl in *. destruct (bytes_ltb k k''); simpl; split; auto; try tauto.
  Qed.

Lemma sort_ssorted {A} (l : list (bytes * A)) : NoDup (map fst l) -> ssorted (sort_entries l).
Proof.
  induction l as [|[k v] r IH]; intros H; simpl; [exact I|]. simpl in H. inversion H as [|? ? Hn Hd]; subst.
  apply insert_ssorted; [apply IH, Hd|].
  intros Hin. apply Hn. eapply Permutation_in; [|exact Hin]. apply Permutation_map, sort_entries_perm.
Qed.

Lemma ssorted_sort_id {A} (l : list (bytes * A)) : ssorted l -> sort_entries l = l.
Proof.
  induction l as [|[k v] r IH]; intros H; simpl; [reflexivity|]. simpl in H. destruct H as [Hh Hs].
  rewrite (IH Hs). destruct r as [|[k' v'] r']; simpl; [reflexivity|]. rewrite Hh. reflexivity.
Qed.

Lemma sort_entries_idem {A} (l : list (bytes * A)) : NoDup (map fst l) -> sort_entries (sort_entries l) = sort_entries l.
Proof. intros H. apply ssorted_sort_id, sort_ssorted, H. Qed.

Lemma map_put_fresh k v acc : ~ In k (map fst acc) -> map_put k v acc = acc ++ [(k, v)].
Proof.
  induction acc as [|[k' v'] r IH]; intros H; simpl; [reflexivity|].
  simpl in H. destruct (bytes_eqb k k') eqn:E.
  - apply bytes_eqb_eq in E. subst. tauto.
  - rewrite IH by tauto. reflexivity.
Qed.

(* ======================================================================================================
   L3 / L4: values
   ====================================================================================================== *)
(* canonical form of a value: map entries sorted by key (the decoder returns them sorted), at every depth *)
Fixpoint canon (v : value) : value :=
  match v with
  | VArr l => VArr (map canon l)
  | VMap es => VMap (sort_entries (map (fun kv => let '(k, x) := kv in (k, canon x)) es))
  | VRec ivs fvs => VRec (map canon ivs) (map (option_map canon) fvs)
  | VUnion ms => VUnion (map (option_map canon) ms)
  | _ => v
  end.

Section RT.
  Variable fmtF : bool -> N -> bytes.
  Variable parseF : nat -> bytes -> option N.
  Variable e : env.
  Variable wc : bytes.
  Variable ignore : nat.
  Variable fl : flavour.
  Variable qr : bool.

  (* the text the writer emits for a float, before escaping: strconv's for a finite value, the three names otherwise *)
  Definition float_text (is32 : bool) (b : N) : bytes :=
    match classify_float is32 b with FNaN => s_nan | FPosInf => s_inf | FNegInf => s_ninf | FFinite => fmtF is32 b end.
  (* strconv facts (trusted): ParseFloat inverts FormatFloat('g', -1) on every non-NaN bit pattern, and the text is not empty *)
  Hypothesis fmtF_nonempty : forall is32 b, fmtF is32 b <> [].
  Hypothesis parseF_64 : forall b, (b < 2 ^ 64)%N -> classify_float false b <> FNaN -> parseF 0 (float_text false b) = Some b.
  Hypothesis parseF_32 : forall b, (b < 2 ^ 32)%N -> classify_float true b <> FNaN -> parseF 1 (float_text true b) = Some b.

  Local Notation R := (render_ror2 fmtF v2_hex_chars v2_unescaped_path_chars v2_unescaped_query_chars v2_header_escaped_chars
                         v2_empty_string v2_list_prefix fl).
  Local Notation Rleaf := (ror2_leaf fmtF v2_hex_chars v2_unescaped_path_chars v2_unescaped_query_chars v2_header_escaped_chars
                         v2_empty_string fl).
  Local Notation Dec := (decR e wc ps_empty ignore parseF (unesc fl) v2_empty_string v2_list_prefix qr).
  Local Notation Enc := (enc e wc ps_empty).

  Inductive typed : ty -> value -> Prop :=
  | T_int z : in_i32 z = true -> typed (TPrim PInt) (VInt z)
  | T_long z : in_i64 z = true -> typed (TPrim PLong) (VLong z)
  | T_float b : (b < 2^32)%N -> classify_float true b <> FNaN -> typed (TPrim PFloat) (VFloat b)
  | T_double b : (b < 2^64)%N -> classify_float false b <> FNaN -> typed (TPrim PDouble) (VDouble b)
  | T_bool b : typed (TPrim PBool) (VBool b)
  | T_str s : typed (TPrim PString) (VStr s)
  | T_bytes s : typed (TPrim PBytes) (VBytes s)
  | T_enum syms k : 1 <= k <= length syms -> typed (TEnum syms) (VEnum k)
  | T_fixed n s : length s = n -> typed (TFixed n) (VFixed s)
  | T_arr t l : Forall (typed t) l -> typed (TArray t) (VArr l)
  | T_map t es : NoDup (map fst es) -> Forall (fun kv => typed t (snd kv)) es -> typed (TMap t) (VMap es)
  | T_rec n incs fs ivs fvs : lookup e n = Some (DRecord incs fs) ->
       Forall2 (fun i iv => typed (TRef i) iv) incs ivs ->
       Forall2 (fun fd ov => (forall x, ov = Some x -> typed (f_ty fd) x) /\ (ov = None -> is_required (f_opt fd) = false)) fs fvs ->
       typed (TRef n) (VRec ivs fvs)
  | T_union n nullable ms vs : lookup e n = Some (DUnion nullable ms) ->
       Forall2 (fun (m : bytes * ty) ov => forall x, ov = Some x -> typed (snd m) x) ms vs ->
       typed (TRef n) (VUnion vs).

  Definition osize (f : value -> nat) (ov : option value) : nat := match ov with Some x => S (f x) | None => 0 end.
  Fixpoint vsize (v : value) : nat :=
    match v with
    | VArr l => S (list_sum (map (fun x => S (vsize x)) l))
    | VMap es => S (S (list_sum (map (fun kv => let '(_, x) := kv in S (vsize x)) es)))
    | VRec ivs fvs => S (S (list_sum (map (fun x => S (vsize x)) ivs) + list_sum (map (osize vsize) fvs)))
    | VUnion ms => S (S (list_sum (map (osize vsize) ms)))
    | _ => 1
    end.

  Definition lit_value_ (f : nat) (t' : ty) (lit : bytes) : option value :=
    match parse_json lit with
    | Some jd => match djmix e wc ps_empty ignore parseF f true t' jd tracker0 with Ok (v, _) => Some v | _ => None end
    | None => None
    end.
  Definition fill_ (f : nat) :=
    fix fill_defaults (fs : list field) (vs : list (option value)) : list (option value) :=
      match fs, vs with
      | fd :: fs', ov :: vs' =>
          (match ov, f_opt fd with
           | None, Default lit => lit_value_ f (f_ty fd) lit
           | _, _ => ov
           end) :: fill_defaults fs' vs'
      | _, _ => vs
      end.

  Fixpoint expect (v : value) (fd : nat) (t : ty) {struct v} : value :=
    match v, t with
    | VArr l, TArray t' => VArr (map (fun x => expect x (pred fd) t') l)
    | VMap es, TMap t' => VMap (sort_entries (map (fun kv => let '(k, x) := kv in (k, expect x (pred fd) t')) es))
    | VUnion ms, TRef n =>
        match lookup e n with
        | Some (DUnion _ members) =>
            VUnion ((fix go (mts : list (bytes * ty)) (vs : list (option value)) {struct vs} : list (option value) :=
                       match mts, vs with
                       | m :: mts', ov :: vs' =>
                           (match ov with Some x => Some (expect x (pred fd) (snd m)) | None => None end) :: go mts' vs'
                       | _, _ => vs
                       end) members ms)
        | _ => v
        end
    | VRec ivs fvs, TRef n =>
        match lookup e n with
        | Some (DRecord incs fs) =>
            let fvs' := (fix go (fs : list field) (vs : list (option value)) {struct vs} : list (option value) :=
                           match fs, vs with
                           | fd0 :: fs', ov :: vs' =>
                               (match ov with Some x => Some (expect x (pred fd) (f_ty fd0)) | None => None end) :: go fs' vs'
                           | _, _ => vs
                           end) fs fvs in
            VRec ((fix go (is : list nat) (vs : list value) {struct vs} : list value :=
                     match is, vs with
                     | i :: is', iv :: vs' => expect_body iv (pred fd) i :: go is' vs'
                     | _, _ => vs
                     end) incs ivs)
                 (if own_has_default fs then fill_ (pred fd) fs fvs' else fvs')
        | _ => v
        end
    | _, _ => v
    end
  with expect_body (v : value) (f : nat) (n : nat) {struct v} : value :=
    match v with
    | VRec ivs fvs =>
        match lookup e n with
        | Some (DRecord incs fs) =>
            VRec ((fix go (is : list nat) (vs : list value) {struct vs} : list value :=
                     match is, vs with
                     | i :: is', iv :: vs' => expect_body iv f i :: go is' vs'
                     | _, _ => vs
                     end) incs ivs)
                 ((fix go (fs : list field) (vs : list (option value)) {struct vs} : list (option value) :=
                     match fs, vs with
                     | fd :: fs', ov :: vs' =>
                         (match ov with Some x => Some (expect x f (f_ty fd)) | None => None end) :: go fs' vs'
                     | _, _ => vs
                     end) fs fvs)
        | _ => v
        end
    | _ => v
    end.

  Fixpoint wf_ty (t : ty) : Prop :=
    match t with
    | TEnum syms => NoDup syms
    | TArray t' | TMap t' => wf_ty t'
    | _ => True
    end.

  (* ---- trackers: with no excluded fields the scope stack is pushed and popped, nothing else happens ---- *)
  Lemma ps_matches_empty path : ps_matches wc ps_empty path = false.
  Proof. destruct path; reflexivity. Qed.

  Lemma enter_map_ok k tr : enter_map wc ps_empty ignore k tr = Ok (push (SKey k) tr).
  Proof.
    unfold enter_map. destruct (Nat.leb _ _); [reflexivity|]. rewrite ps_matches_empty. reflexivity.
  Qed.

  Lemma pop_push s tr : pop (push s tr) = tr.
  Proof. destruct tr as [sc ms]. unfold pop, push. cbn [t_scope t_missing]. rewrite removelast_last. reflexivity. Qed.

  Lemma record_missing_nil tr : record_missing wc ps_empty ignore [] tr = tr.
  Proof. destruct tr as [sc ms]. unfold record_missing. cbn. rewrite app_nil_r. reflexivity. Qed.

  (* ---- cursor steps ---- *)
  Lemma read_after_comma r tr : read_after (cur true (x2c :: r) tr) = Ok (Continue (cur true r tr)).
  Proof. reflexivity. Qed.
  Lemma read_after_close r tr : read_after (cur true (x29 :: r) tr) = Ok (Done (cur true r tr)).
  Proof. reflexivity. Qed.

  (* ---- rendering equations ---- *)
  Lemma render_arr ds : R (DArr ds) = v2_list_prefix ++ join_bytes [x2c] (map R ds) ++ [x29].
  Proof.
    assert (H : forall l, (fix go (l : list doc) : list bytes := match l with [] => [] | x :: r => R x :: go r end) l = map R l).
    { induction l as [|x r IH]; [reflexivity|]. cbn [map]. rewrite <- IH. reflexivity. }
    cbn [render_ror2]. rewrite H. reflexivity.
  Qed.
  Definition entR (kd : bytes * doc) : bytes := let '(k, x) := kd in rstr fl k ++ [x3a] ++ R x.
  Lemma render_obj ents : R (DObj ents) = [x28] ++ join_bytes [x2c] (map entR ents) ++ [x29].
  Proof.
    assert (H : forall l, (fix go (l : list (bytes * doc)) : list bytes :=
                             match l with [] => [] | (k, x) :: r => (rstr fl k ++ [x3a] ++ R x) :: go r end) l = map entR l).
    { induction l as [|[k x] r IH]; [reflexivity|]. cbn [map]. rewrite <- IH. reflexivity. }
    cbn [render_ror2]. rewrite H. reflexivity.
  Qed.

  Lemma join_cons2 (a b : bytes) l sep : join_bytes sep (a :: b :: l) = a ++ sep ++ join_bytes sep (b :: l).
  Proof. reflexivity. Qed.

  (* ---- leaves ---- *)
  Lemma float_leaf_tok is32 b :
    tokfree4 (Rleaf (LFloat is32 b)) /\ Rleaf (LFloat is32 b) <> [] /\ unesc fl (Rleaf (LFloat is32 b)) = Some (float_text is32 b).
  Proof.
    unfold float_text. cbn [ror2_leaf]. destruct (classify_float is32 b).
    - split; [apply plain_free4; reflexivity|]. split; [discriminate|]. apply plain_unescape. reflexivity.
    - split; [apply plain_free4; reflexivity|]. split; [discriminate|]. apply plain_unescape. reflexivity.
    - split; [apply plain_free4; reflexivity|]. split; [discriminate|]. apply plain_unescape. reflexivity.
    - split; [apply tokfree_4, tokfree_esc|]. split; [apply esc_nonempty, fmtF_nonempty|].
      pose proof (unescape_escape_fl fl (fmtF is32 b)) as U. exact U.
  Qed.

  Lemma leaf_tok l : tokfree4 (Rleaf l) /\ Rleaf l <> [].
  Proof.
    destruct l as [z|is32 b|b|s|s]; cbn [ror2_leaf].
    - split; [apply plain_free4, print_dec_plain | apply print_dec_nonempty].
    - destruct (float_leaf_tok is32 b) as (A & B & _). cbn [ror2_leaf] in A, B. auto.
    - split; [apply plain_free4; destruct b; reflexivity | destruct b; discriminate].
    - split; [apply rstr_free4 | apply rstr_nonempty].
    - split; [apply rstr_free4 | apply rstr_nonempty].
  Qed.

  Lemma tokfree4_head tok : tokfree4 tok -> tok <> [] ->
    exists c r, tok = c :: r /\ Byte.eqb c x29 = false /\ Byte.eqb c x28 = false /\ Byte.eqb c x2c = false.
  Proof.
    intros Hf Hn. destruct tok as [|c r]; [congruence|]. exists c, r. split; [reflexivity|].
    apply tokfree4_cons in Hf as [_ Hc]. repeat split; apply Hc; simpl; tauto.
  Qed.

  (* no rendering is empty or begins with ')' *)
  Lemma render_head d : exists c r, R d = c :: r /\ Byte.eqb c x29 = false.
  Proof.
    destruct d as [l|ds|ents].
    - cbn [render_ror2]. destruct (leaf_tok l) as [A B]. destruct (tokfree4_head _ A B) as (c & r & E & H & _).
      exists c, r. auto.
    - rewrite render_arr. eexists _, _. split; [reflexivity|reflexivity].
    - rewrite render_obj. eexists _, _. split; [reflexivity|reflexivity].
  Qed.
  Lemma ds_close r : delim_started (x29 :: r).
  Proof. exists x29, r. split; reflexivity. Qed.
  Lemma ds_comma r : delim_started (x2c :: r).
  Proof. exists x2c, r. split; reflexivity. Qed.

  Definition ctx (d : doc) (c : bool) (rest : bytes) : Prop := match d with DLeaf _ => tok_ctx c rest | _ => True end.
  Lemma ctx_delim d rest : delim_started rest -> ctx d true rest.
  Proof. intros H. destruct d; simpl; auto. Qed.

  (* ---- primitives ---- *)
  Definition prim_leaf (v : value) : leaf :=
    match v with
    | VInt z | VLong z => LInt z
    | VFloat b => LFloat true b
    | VDouble b => LFloat false b
    | VBool b => LBool b
    | VStr s => LStr s
    | VBytes s => LBytes s
    | _ => LInt 0
    end.

  Lemma read_float_ok is32 b c rest tr : tok_ctx c rest ->
    read_decoded (unesc fl) (cur c (Rleaf (LFloat is32 b) ++ rest) tr) = Ok (float_text is32 b, cur true rest tr).
  Proof.
    intros Hc. destruct (float_leaf_tok is32 b) as (A & B & U). unfold read_decoded.
    rewrite (read_token_ok c _ rest tr A B Hc). cbn [bind]. rewrite U. reflexivity.
  Qed.

  Theorem rprim_ok p v c rest tr : typed (TPrim p) v -> tok_ctx c rest ->
    rprim parseF (unesc fl) v2_empty_string p (cur c (Rleaf (prim_leaf v) ++ rest) tr) = Ok (v, cur true rest tr).
  Proof.
    intros Ht Hc. inversion Ht; subst; cbn [prim_leaf rprim ror2_leaf].
    - rewrite (read_int_ok fl c z rest tr Hc). cbn [bind]. unfold in_i32 in H0. apply andb_true_iff in H0 as [A B].
      apply Z.leb_le in A, B. rewrite parse_print_i32 by lia. reflexivity.
    - rewrite (read_int_ok fl c z rest tr Hc). cbn [bind]. unfold in_i64 in H0. apply andb_true_iff in H0 as [A B].
      apply Z.leb_le in A, B. rewrite parse_print_i64 by lia. reflexivity.
    - pose proof (read_float_ok true b c rest tr Hc) as E. cbn [ror2_leaf] in E. rewrite E. cbn [bind].
      rewrite parseF_32 by assumption. reflexivity.
    - pose proof (read_float_ok false b c rest tr Hc) as E. cbn [ror2_leaf] in E. rewrite E. cbn [bind].
      rewrite parseF_64 by assumption. reflexivity.
    - destruct (read_bool_ok fl c b rest tr Hc) as [E P]. change (if b then s_true else s_false) with (bool_text b). rewrite E. cbn [bind]. rewrite P. reflexivity.
    - rewrite (read_string_ok fl c s rest tr Hc). reflexivity.
    - rewrite (read_string_ok fl c s rest tr Hc). reflexivity.
  Qed.

  (* ---- enums ---- *)
  Lemma index_of_nth syms : NoDup syms -> forall i s j, nth_error syms i = Some s -> index_of s syms j = Some (j + i).
  Proof.
    induction syms as [|x r IH]; intros Hd i s j Hn; [destruct i; discriminate|].
    inversion Hd as [|? ? Hx Hr]; subst. destruct i as [|i]; simpl in *.
    - injection Hn as ->. rewrite bytes_eqb_refl. f_equal. lia.
    - destruct (bytes_eqb s x) eqn:E.
      + apply bytes_eqb_eq in E. subst. exfalso. apply Hx. eapply nth_error_In, Hn.
      + rewrite (IH Hr i s (S j) Hn). f_equal. lia.
  Qed.

  (* ---- the loops of decR as top-level functions ---- *)
  Definition arr_loop (dec : rst -> res (value * rst)) :=
    fix go (k : nat) (i : nat) (acc : list value) (s : rst) : res (value * rst) :=
      match k with
      | 0 => Err EFuel
      | S k' =>
          do rr <- dec (with_tr s (enter_array i (r_tr s)));
          let '(v, s1) := rr in
          do a <- read_after (with_tr s1 (pop (r_tr s1)));
          match a with
          | Continue s2 => go k' (S i) (v :: acc) s2
          | Done s2 => Ok (VArr (rev (v :: acc)), s2)
          end
      end.

  Definition map_loop (dec : rst -> res (value * rst)) :=
    fix go (k : nat) (acc : list (bytes * value)) (s : rst) : res (value * rst) :=
      match k with
      | 0 => Err EFuel
      | S k' =>
          do _ <- check_not_at_end s;
          do c <- idx s;
          if Byte.eqb c x29 then Ok (VMap (sort_entries acc), advance 1 s)
          else
            do nm <- read_field_name (unesc fl) v2_empty_string s;
            let '(key, s1) := nm in
            do tr1 <- enter_map wc ps_empty ignore key (r_tr s1);
            do rr <- dec (with_tr s1 tr1);
            let '(v, s2) := rr in
            do a <- read_after (with_tr s2 (pop (r_tr s2)));
            match a with
            | Continue s3 => go k' (map_put key v acc) s3
            | Done s3 => Ok (VMap (sort_entries (map_put key v acc)), s3)
            end
      end.

  Lemma decR_prim f p s : Dec (S f) (TPrim p) s = rprim parseF (unesc fl) v2_empty_string p s.
  Proof. reflexivity. Qed.
  Lemma decR_enum f syms s : Dec (S f) (TEnum syms) s =
    do r <- read_string (unesc fl) v2_empty_string s; let '(x, s') := r in Ok (enum_value syms x, s').
  Proof. reflexivity. Qed.
  Lemma decR_fixed f n s : Dec (S f) (TFixed n) s =
    do r <- read_string (unesc fl) v2_empty_string s; let '(x, s') := r in
    if Nat.eqb (length x) n then Ok (VFixed x, s') else Err EFixedSize.
  Proof. reflexivity. Qed.
  Lemma decR_arr f t' s : Dec (S f) (TArray t') s =
    if negb (at_array v2_list_prefix s) then Err EDeser
    else let s0 := advance (length v2_list_prefix) s in
         do c <- idx s0;
         if Byte.eqb c x29 then Ok (VArr [], advance 1 s0)
         else arr_loop (Dec f t') f 0 [] s0.
  Proof. reflexivity. Qed.
  Lemma decR_map f t' s : Dec (S f) (TMap t') s =
    if negb (at_map s) then Err EDeser else map_loop (Dec f t') f [] (advance 1 s).
  Proof. reflexivity. Qed.

  Lemma arr_loop_S dec k i acc s : arr_loop dec (S k) i acc s =
    do rr <- dec (with_tr s (enter_array i (r_tr s)));
    let '(v, s1) := rr in
    do a <- read_after (with_tr s1 (pop (r_tr s1)));
    match a with
    | Continue s2 => arr_loop dec k (S i) (v :: acc) s2
    | Done s2 => Ok (VArr (rev (v :: acc)), s2)
    end.
  Proof. reflexivity. Qed.

  Lemma map_loop_S dec k acc s : map_loop dec (S k) acc s =
    do _ <- check_not_at_end s;
    do c <- idx s;
    if Byte.eqb c x29 then Ok (VMap (sort_entries acc), advance 1 s)
    else
      do nm <- read_field_name (unesc fl) v2_empty_string s;
      let '(key, s1) := nm in
      do tr1 <- enter_map wc ps_empty ignore key (r_tr s1);
      do rr <- dec (with_tr s1 tr1);
      let '(v, s2) := rr in
      do a <- read_after (with_tr s2 (pop (r_tr s2)));
      match a with
      | Continue s3 => map_loop dec k (map_put key v acc) s3
      | Done s3 => Ok (VMap (sort_entries (map_put key v acc)), s3)
      end.
  Proof. reflexivity. Qed.

  (* an element decoder that inverts the rendering of d inside a list / map *)
  Definition elem_ok (dec : rst -> res (value * rst)) (x : value) (d : doc) : Prop :=
    forall tr rest, delim_started rest -> dec (cur true (R d ++ rest) tr) = Ok (x, cur true rest tr).

  Lemma with_tr_cur c r tr tr' : with_tr (cur c r tr) tr' = cur c r tr'.
  Proof. reflexivity. Qed.
  Lemma r_tr_cur c r tr : r_tr (cur c r tr) = tr.
  Proof. reflexivity. Qed.
  Lemma r_rest_cur c r tr : r_rest (cur c r tr) = r.
  Proof. reflexivity. Qed.
  Lemma pop_enter_array i tr : pop (enter_array i tr) = tr.
  Proof. apply pop_push. Qed.

  Lemma arr_loop_ok dec : forall xs ds, Forall2 (elem_ok dec) xs ds -> ds <> [] ->
    forall k i acc tr rest, length ds <= k ->
    arr_loop dec k i acc (cur true (join_bytes [x2c] (map R ds) ++ x29 :: rest) tr) = Ok (VArr (rev acc ++ xs), cur true rest tr).
  Proof.
    induction 1 as [|x d xs ds Hx HF IH]; [congruence|]. intros _ k i acc tr rest Hk.
    destruct k as [|k]; [simpl in Hk; lia|]. rewrite arr_loop_S. rewrite r_tr_cur, with_tr_cur.
    destruct ds as [|d2 ds].
    - inversion HF; subst. cbn [map join_bytes].
      rewrite (Hx _ _ (ds_close rest)). cbn [bind]. rewrite r_tr_cur, with_tr_cur, pop_enter_array.
      rewrite read_after_close. cbn [bind]. cbn [rev]. reflexivity.
    - cbn [map]. rewrite join_cons2. rewrite <- !app_assoc. cbn [app].
      rewrite (Hx _ _ (ds_comma _)). cbn [bind]. rewrite r_tr_cur, with_tr_cur, pop_enter_array.
      rewrite read_after_comma. cbn [bind].
      rewrite IH; [|discriminate|simpl in *; lia]. cbn [rev]. rewrite <- app_assoc. reflexivity.
  Qed.


  Lemma advance1_cur b r tr : advance 1 (cur true (b :: r) tr) = cur true r tr.
  Proof. reflexivity. Qed.

  Lemma map_loop_step dec k acc key more tr :
    map_loop dec (S k) acc (cur true (rstr fl key ++ x3a :: more) tr) =
    do rr <- dec (cur true more (push (SKey key) tr));
    let '(v, s2) := rr in
    do a <- read_after (with_tr s2 (pop (r_tr s2)));
    match a with
    | Continue s3 => map_loop dec k (map_put key v acc) s3
    | Done s3 => Ok (VMap (sort_entries (map_put key v acc)), s3)
    end.
  Proof.
    rewrite map_loop_S, read_field_name_ok.
    destruct (tokfree4_head _ (rstr_free4 fl key) (rstr_nonempty fl key)) as (c0 & r0 & E & Hc & _).
    unfold check_not_at_end, idx. rewrite r_rest_cur, E. cbn [app bind]. rewrite Hc.
    rewrite r_tr_cur, enter_map_ok. cbn [bind]. rewrite with_tr_cur. reflexivity.
  Qed.

  Lemma map_loop_ok dec : forall xs ents, Forall2 (entry_rel (elem_ok dec)) xs ents ->
    forall k acc tr rest, length ents < k -> NoDup (map fst acc ++ map fst xs) ->
    map_loop dec k acc (cur true (join_bytes [x2c] (map entR ents) ++ x29 :: rest) tr)
    = Ok (VMap (sort_entries (acc ++ xs)), cur true rest tr).
  Proof.
    induction 1 as [|[kx x] [kd d] xs ents [Hk Hx] HF IH]; intros k acc tr rest Hlen Hnd.
    - destruct k as [|k]; [lia|]. cbn [map join_bytes app]. rewrite map_loop_S.
      unfold check_not_at_end, idx. rewrite r_rest_cur. cbn [bind]. rewrite advance1_cur, app_nil_r. reflexivity.
    - destruct k as [|k]; [lia|]. cbn [fst snd] in Hk, Hx. subst kd.
      assert (Hfresh : ~ In kx (map fst acc)).
      { cbn [map fst] in Hnd. apply NoDup_remove_2 in Hnd. intros Hin. apply Hnd. apply in_or_app. left. exact Hin. }
      assert (Hnd' : NoDup (map fst (acc ++ [(kx, x)]) ++ map fst xs)).
      { rewrite map_app. cbn [map fst]. rewrite <- app_assoc. exact Hnd. }
      destruct ents as [|e2 ents].
      + inversion HF; subst. cbn [map join_bytes entR]. rewrite <- !app_assoc. cbn [app].
        rewrite map_loop_step. rewrite (Hx _ _ (ds_close rest)). cbn [bind].
        rewrite r_tr_cur, with_tr_cur, pop_push, read_after_close. cbn [bind].
        rewrite (map_put_fresh _ _ _ Hfresh). reflexivity.
      + cbn [map]. rewrite join_cons2. cbn [entR]. rewrite <- !app_assoc. cbn [app].
        rewrite map_loop_step. rewrite (Hx _ _ (ds_comma _)). cbn [bind].
        rewrite r_tr_cur, with_tr_cur, pop_push, read_after_comma. cbn [bind].
        rewrite (map_put_fresh _ _ _ Hfresh).
        rewrite IH; [|simpl in *; lia|exact Hnd']. rewrite <- app_assoc. reflexivity.
  Qed.


  (* ---- generic list facts ---- *)
  Lemma mapM_Forall2 {A B} (f : A -> res B) l r : mapM f l = Ok r -> Forall2 (fun a b => f a = Ok b) l r.
  Proof.
    revert r. induction l as [|a l IH]; intros r H; simpl in H.
    - injection H as <-. constructor.
    - destruct (f a) as [b| |] eqn:Ea; try discriminate. cbn [bind] in H.
      destruct (mapM f l) as [bs| |]; try discriminate. cbn [bind] in H. injection H as <-.
      constructor; [exact Ea | apply IH; reflexivity].
  Qed.

  Lemma Forall2_map_l {A A' B} (g : A -> A') (P : A' -> B -> Prop) l r :
    Forall2 (fun a b => P (g a) b) l r -> Forall2 P (map g l) r.
  Proof. induction 1; constructor; auto. Qed.

  Lemma Forall2_impl_in {A B} (P Q : A -> B -> Prop) l r :
    (forall a b, In a l -> P a b -> Q a b) -> Forall2 P l r -> Forall2 Q l r.
  Proof.
    intros H HF. induction HF; constructor.
    - apply H; [left; reflexivity | assumption].
    - apply IHHF. intros a b Hin. apply H. right. exact Hin.
  Qed.

  Lemma Forall2_len {A B} (P : A -> B -> Prop) l r : Forall2 P l r -> length l = length r.
  Proof. induction 1; simpl; congruence. Qed.

  Lemma list_sum_in {A} (g : A -> nat) l x : In x l -> g x <= list_sum (map g l).
  Proof.
    induction l as [|a l IH]; intros H; [destruct H|]. simpl. destruct H as [->|H]; [lia|]. specialize (IH H). lia.
  Qed.
  Lemma list_sum_len {A} (g : A -> nat) l : (forall x, 1 <= g x) -> length l <= list_sum (map g l).
  Proof. intros H. induction l as [|a l IH]; simpl; [lia|]. specialize (H a). lia. Qed.

  Lemma vsize_pos v : 1 <= vsize v.
  Proof. destruct v; simpl; lia. Qed.

  (* ---- encoder equations ---- *)
  Lemma enc_0 scope t v : Enc 0 scope t v = Err EFuel.
  Proof. reflexivity. Qed.
  Lemma enc_arr f scope t' l : Enc (S f) scope (TArray t') (VArr l) = do ds <- mapM (Enc f (scope ++ [wc]) t') l; Ok (DArr ds).
  Proof. reflexivity. Qed.

  Definition enc_key_ (f : nat) (scope : list bytes) (key : bytes) (t' : ty) (v' : value) : res (list (bytes * doc)) :=
    if excluded wc ps_empty (scope ++ [key]) then do _ <- enc_noop t' v'; Ok []
    else do d <- Enc f (scope ++ [key]) t' v'; Ok [(key, d)].
  Lemma enc_key_eq f scope key t' v' : enc_key_ f scope key t' v' = do d <- Enc f (scope ++ [key]) t' v'; Ok [(key, d)].
  Proof. unfold enc_key_, excluded. rewrite ps_matches_empty. reflexivity. Qed.

  Definition enc_map_go (f : nat) (scope : list bytes) (t' : ty) :=
    fix go (l : list (bytes * value)) : res (list (bytes * doc)) :=
      match l with
      | [] => Ok []
      | (k, v') :: r => do a <- enc_key_ f scope k t' v'; do b <- go r; Ok (a ++ b)
      end.
  Lemma enc_map f scope t' es : Enc (S f) scope (TMap t') (VMap es) =
    do ents <- enc_map_go f scope t' es; Ok (DObj (sort_entries ents)).
  Proof. reflexivity. Qed.

  Definition enc_any (f : nat) (t' : ty) (v : value) (d : doc) : Prop := exists sc, Enc f sc t' v = Ok d.

  Lemma enc_map_go_rel f scope t' es ents : enc_map_go f scope t' es = Ok ents ->
    Forall2 (entry_rel (enc_any f t')) es ents.
  Proof.
    revert ents. induction es as [|[k v] r IH]; intros ents H; cbn [enc_map_go] in H.
    - injection H as <-. constructor.
    - rewrite enc_key_eq in H. destruct (Enc f (scope ++ [k]) t' v) as [d| |] eqn:Ed; try discriminate. cbn [bind] in H.
      fold (enc_map_go f scope t') in H.
      destruct (enc_map_go f scope t' r) as [b| |]; try discriminate. cbn [bind] in H. injection H as <-.
      cbn [app]. constructor; [split; [reflexivity | exists (scope ++ [k]); exact Ed] | apply IH; reflexivity].
  Qed.

  (* ---- cursor at the start of a list / map ---- *)
  Lemma at_array_ok c m tr : m <> [] -> at_array v2_list_prefix (cur c (v2_list_prefix ++ m) tr) = true.
  Proof.
    intros Hm. unfold at_array. rewrite r_rest_cur. apply andb_true_iff. split.
    - apply Nat.ltb_lt. rewrite app_length. destruct m; [congruence|]. simpl. lia.
    - apply has_prefix_spec. exists m. reflexivity.
  Qed.
  Lemma advance_prefix c m tr : advance (length v2_list_prefix) (cur c (v2_list_prefix ++ m) tr) = cur true m tr.
  Proof. destruct c; reflexivity. Qed.
  Lemma advance_open c m tr : advance 1 (cur c (x28 :: m) tr) = cur true m tr.
  Proof. destruct c; reflexivity. Qed.

  (* ---- the expected value: equations ---- *)
  Lemma expect_arr l f t' : expect (VArr l) (S f) (TArray t') = VArr (map (fun x => expect x f t') l).
  Proof. reflexivity. Qed.
  Lemma expect_map es f t' : expect (VMap es) (S f) (TMap t') = VMap (sort_entries (map (map_val (fun x => expect x f t')) es)).
  Proof. reflexivity. Qed.


  (* ---- unions ---- *)
  Definition enc_union_go (f : nat) (scope : list bytes) :=
    fix go (mts : list (bytes * ty)) (vs : list (option value)) (isSet : bool) : res (list (bytes * doc) * bool) :=
      match mts, vs with
      | [], [] => Ok ([], isSet)
      | (alias, mt) :: mts', ov :: vs' =>
          match ov with
          | None => go mts' vs' isSet
          | Some v' =>
              if isSet then Err EUnion
              else do a <- enc_key_ f scope alias mt v';
                   do br <- go mts' vs' true;
                   Ok (a ++ fst br, snd br)
          end
      | _, _ => Err EType
      end.
  Lemma enc_union f scope n vs : Enc (S f) scope (TRef n) (VUnion vs) =
    match lookup e n with
    | Some (DUnion nullable members) =>
        do ents <- enc_union_go f scope members vs false;
        if negb nullable && negb (snd ents) then Err EUnion else Ok (DObj (sort_entries (fst ents)))
    | _ => Err EType
    end.
  Proof. reflexivity. Qed.

  Definition union_loop (dec : ty -> rst -> res (value * rst)) (ms : list (bytes * ty)) :=
    fix go (k : nat) (uv : list (option value)) (wasSet : bool) (s : rst) : res (list (option value) * bool * rst) :=
      match k with
      | 0 => Err EFuel
      | S k' =>
          do _ <- check_not_at_end s;
          do c <- idx s;
          if Byte.eqb c x29 then Ok (uv, wasSet, advance 1 s)
          else
            do nm <- read_field_name (unesc fl) v2_empty_string s;
            let '(key, s1) := nm in
            do tr1 <- enter_map wc ps_empty ignore key (r_tr s1);
            if wasSet then Err EUnion
            else match index_of key (map fst ms) 0 with
                 | Some j =>
                     match nth_error ms j with
                     | Some (_, mt) =>
                         do rr <- dec mt (with_tr s1 tr1);
                         let '(v, s2) := rr in
                         do a <- read_after (with_tr s2 (pop (r_tr s2)));
                         match a with
                         | Continue s3 => go k' (set_nth j (Some v) uv) true s3
                         | Done s3 => Ok (set_nth j (Some v) uv, true, s3)
                         end
                     | None => Err EType
                     end
                 | None => Err EUnion
                 end
      end.
  Lemma decR_union f n nullable ms s : lookup e n = Some (DUnion nullable ms) ->
    Dec (S f) (TRef n) s =
    if negb (at_map s) then Err EDeser
    else do r <- union_loop (Dec f) ms f (map (fun _ => None) ms) false (advance 1 s);
         let '(uv, wasSet, s') := r in
         if negb nullable && negb wasSet then Err EUnion else Ok (VUnion uv, s').
  Proof. intros H. cbn [decR]. rewrite H. reflexivity. Qed.

  Lemma union_loop_S dec ms k uv wasSet s : union_loop dec ms (S k) uv wasSet s =
    do _ <- check_not_at_end s;
    do c <- idx s;
    if Byte.eqb c x29 then Ok (uv, wasSet, advance 1 s)
    else
      do nm <- read_field_name (unesc fl) v2_empty_string s;
      let '(key, s1) := nm in
      do tr1 <- enter_map wc ps_empty ignore key (r_tr s1);
      if wasSet then Err EUnion
      else match index_of key (map fst ms) 0 with
           | Some j =>
               match nth_error ms j with
               | Some (_, mt) =>
                   do rr <- dec mt (with_tr s1 tr1);
                   let '(v, s2) := rr in
                   do a <- read_after (with_tr s2 (pop (r_tr s2)));
                   match a with
                   | Continue s3 => union_loop dec ms k (set_nth j (Some v) uv) true s3
                   | Done s3 => Ok (set_nth j (Some v) uv, true, s3)
                   end
               | None => Err EType
               end
           | None => Err EUnion
           end.
  Proof. reflexivity. Qed.

  Definition nones {A} (ms : list A) : list (option value) := map (fun _ => None) ms.

  Lemma enc_union_go_set f scope ms : forall vs r, enc_union_go f scope ms vs true = Ok r -> r = ([], true) /\ vs = nones ms.
  Proof.
    induction ms as [|[alias mt] ms IH]; intros vs r H; destruct vs as [|ov vs]; cbn [enc_union_go] in H; try discriminate.
    - injection H as <-. auto.
    - destruct ov; [discriminate|]. fold (enc_union_go f scope) in H. destruct (IH _ _ H) as [-> ->]. auto.
  Qed.

  Lemma enc_union_go_unset f scope ms : forall vs r, enc_union_go f scope ms vs false = Ok r ->
    (r = ([], false) /\ vs = nones ms) \/
    (exists j alias mt x d, nth_error ms j = Some (alias, mt) /\ vs = set_nth j (Some x) (nones ms) /\
       Enc f (scope ++ [alias]) mt x = Ok d /\ r = ([(alias, d)], true)).
  Proof.
    induction ms as [|[alias mt] ms IH]; intros vs r H; destruct vs as [|ov vs]; cbn [enc_union_go] in H; try discriminate.
    - injection H as <-. left. auto.
    - fold (enc_union_go f scope) in H. destruct ov as [x|].
      + rewrite enc_key_eq in H. destruct (Enc f (scope ++ [alias]) mt x) as [d| |] eqn:Ed; try discriminate. cbn [bind] in H.
        destruct (enc_union_go f scope ms vs true) as [br| |] eqn:Eg; try discriminate. cbn [bind] in H.
        destruct (enc_union_go_set _ _ _ _ _ Eg) as [-> ->]. injection H as <-.
        right. exists 0, alias, mt, x, d. repeat split; auto.
      + destruct (IH _ _ H) as [[-> ->]|(j & a & m & x & d & Hn & -> & He & ->)].
        * left. auto.
        * right. exists (S j), a, m, x, d. repeat split; auto.
  Qed.

  Definition expect_union_go (f : nat) :=
    fix go (mts : list (bytes * ty)) (vs : list (option value)) {struct vs} : list (option value) :=
      match mts, vs with
      | m :: mts', ov :: vs' => (match ov with Some x => Some (expect x f (snd m)) | None => None end) :: go mts' vs'
      | _, _ => vs
      end.
  Lemma expect_union vs f n nullable ms : lookup e n = Some (DUnion nullable ms) ->
    expect (VUnion vs) (S f) (TRef n) = VUnion (expect_union_go f ms vs).
  Proof. intros H. cbn [expect]. rewrite H. reflexivity. Qed.
  Lemma expect_union_nones f ms : expect_union_go f ms (nones ms) = nones ms.
  Proof. induction ms as [|m ms IH]; [reflexivity|]. cbn. f_equal. exact IH. Qed.
  Lemma expect_union_set f ms : forall j m x, nth_error ms j = Some m ->
    expect_union_go f ms (set_nth j (Some x) (nones ms)) = set_nth j (Some (expect x f (snd m))) (nones ms).
  Proof.
    induction ms as [|m0 ms IH]; intros j m x H; [destruct j; discriminate|].
    destruct j as [|j]; cbn in *.
    - injection H as ->. f_equal. apply expect_union_nones.
    - f_equal. apply IH. exact H.
  Qed.

  Lemma nth_error_set_nth {A} (l : list A) j x : j < length l -> nth_error (set_nth j x l) j = Some x.
  Proof. revert j. induction l as [|a l IH]; intros j H; [simpl in H; lia|]. destruct j; simpl in *; [reflexivity | apply IH; lia]. Qed.
  Lemma Forall2_nth {A B} (P : A -> B -> Prop) l r j a b :
    Forall2 P l r -> nth_error l j = Some a -> nth_error r j = Some b -> P a b.
  Proof.
    intros H. revert j. induction H; intros j Ha Hb; destruct j; simpl in *; try discriminate.
    - injection Ha as <-. injection Hb as <-. assumption.
    - eapply IHForall2; eassumption.
  Qed.

  (* ---- records: the decoder functions as top-level definitions ---- *)
  Definition try_incs_ (umf' : nat -> value -> res (bool * value * rst)) :=
    fix try_incs (is : list nat) (vs : list value) (pos : nat) : res (option (nat * value * rst)) :=
      match is, vs with
      | i :: is', iv :: vs' =>
          do r <- umf' i iv;
          let '(found, iv', s') := r in
          if found then Ok (Some (pos, iv', s')) else try_incs is' vs' (S pos)
      | _, _ => Ok None
      end.

  Definition umf_ (dec : ty -> rst -> res (value * rst)) :=
    fix unmarshal_field (k : nat) (n : nat) (key : bytes) (rv : value) (s : rst) {struct k} : res (bool * value * rst) :=
      match k with
      | 0 => Err EFuel
      | S k' =>
          match lookup e n, rv with
          | Some (DRecord incs fs), VRec ivs fvs =>
              let fix try_incs (is : list nat) (vs : list value) (pos : nat) : res (option (nat * value * rst)) :=
                match is, vs with
                | i :: is', iv :: vs' =>
                    do r <- unmarshal_field k' i key iv s;
                    let '(found, iv', s') := r in
                    if found then Ok (Some (pos, iv', s')) else try_incs is' vs' (S pos)
                | _, _ => Ok None
                end in
              do hit <- try_incs incs ivs 0;
              match hit with
              | Some (pos, iv', s') => Ok (true, VRec (set_nth pos iv' ivs) fvs, s')
              | None =>
                  match index_of key (map f_name fs) 0 with
                  | Some j =>
                      match nth_error fs j with
                      | Some fd =>
                          do r <- dec (f_ty fd) s;
                          let '(v, s') := r in
                          Ok (true, VRec ivs (set_nth j (Some v) fvs), s')
                      | None => Err EType
                      end
                  | None => Ok (false, rv, s)
                  end
              end
          | _, _ => Err EType
          end
      end.

  Lemma umf_S dec k' n key rv s : umf_ dec (S k') n key rv s =
    match lookup e n, rv with
    | Some (DRecord incs fs), VRec ivs fvs =>
        do hit <- try_incs_ (fun i iv => umf_ dec k' i key iv s) incs ivs 0;
        match hit with
        | Some (pos, iv', s') => Ok (true, VRec (set_nth pos iv' ivs) fvs, s')
        | None =>
            match index_of key (map f_name fs) 0 with
            | Some j =>
                match nth_error fs j with
                | Some fd =>
                    do r <- dec (f_ty fd) s;
                    let '(v, s') := r in
                    Ok (true, VRec ivs (set_nth j (Some v) fvs), s')
                | None => Err EType
                end
            | None => Ok (false, rv, s)
            end
        end
    | _, _ => Err EType
    end.
  Proof. reflexivity. Qed.

  Definition rec_loop (umf : bytes -> value -> rst -> res (bool * value * rst)) :=
    fix go (k : nat) (rv : value) (rem : list bytes) (s : rst) : res (value * list bytes * rst) :=
      match k with
      | 0 => Err EFuel
      | S k' =>
          do _ <- check_not_at_end s;
          do c <- idx s;
          if Byte.eqb c x29 then Ok (rv, rem, advance 1 s)
          else
            do nm <- read_field_name (unesc fl) v2_empty_string s;
            let '(key, s1) := nm in
            do tr1 <- enter_map wc ps_empty ignore key (r_tr s1);
            do u <- umf key rv (with_tr s1 tr1);
            let '(found, rv', s2) := u in
            do s2' <- (if found then Ok s2 else rskip v2_list_prefix s2);
            do a <- read_after (with_tr s2' (pop (r_tr s2')));
            match a with
            | Continue s3 => go k' rv' (remove_bytes key rem) s3
            | Done s3 => Ok (rv', remove_bytes key rem, s3)
            end
      end.

  Lemma rec_loop_S umf k rv rem s : rec_loop umf (S k) rv rem s =
    do _ <- check_not_at_end s;
    do c <- idx s;
    if Byte.eqb c x29 then Ok (rv, rem, advance 1 s)
    else
      do nm <- read_field_name (unesc fl) v2_empty_string s;
      let '(key, s1) := nm in
      do tr1 <- enter_map wc ps_empty ignore key (r_tr s1);
      do u <- umf key rv (with_tr s1 tr1);
      let '(found, rv', s2) := u in
      do s2' <- (if found then Ok s2 else rskip v2_list_prefix s2);
      do a <- read_after (with_tr s2' (pop (r_tr s2')));
      match a with
      | Continue s3 => rec_loop umf k rv' (remove_bytes key rem) s3
      | Done s3 => Ok (rv', remove_bytes key rem, s3)
      end.
  Proof. reflexivity. Qed.

  Definition rec_rhs (f n : nat) (fs : list field) (s : rst) : res (value * rst) :=
    if negb (at_map s) then Err EDeser
    else
      do r <- rec_loop (umf_ (Dec f) (S (length e)) n) f (zero_value e (S (S (length e))) (TRef n))
                (required_fields e (S (length e)) n) (advance 1 s);
      let '(rv, rem, s1) := r in
      let tr2 := record_missing wc ps_empty ignore rem (r_tr s1) in
      let raising := (negb (r_consumed s) && negb qr) && negb (match t_missing tr2 with [] => true | _ => false end) in
      let rv' := if raising || negb (own_has_default fs) then rv
                 else match rv with VRec ivs fvs => VRec ivs (fill_ f fs fvs) | _ => rv end in
      Ok (rv', with_tr s1 tr2).
  Lemma decR_ref f n s : Dec (S f) (TRef n) s =
    match lookup e n with
    | Some (DRecord incs fs) => rec_rhs f n fs s
    | Some (DUnion nullable ms) =>
        if negb (at_map s) then Err EDeser
        else do r <- union_loop (Dec f) ms f (map (fun _ => None) ms) false (advance 1 s);
             let '(uv, wasSet, s') := r in
             if negb nullable && negb wasSet then Err EUnion else Ok (VUnion uv, s')
    | None => Err EType
    end.
  Proof. reflexivity. Qed.
  Lemma decR_rec f n incs fs s : lookup e n = Some (DRecord incs fs) -> Dec (S f) (TRef n) s = rec_rhs f n fs s.
  Proof. intros H. rewrite decR_ref, H. reflexivity. Qed.

  Lemma rec_loop_step umf k rv rem key more tr :
    rec_loop umf (S k) rv rem (cur true (rstr fl key ++ x3a :: more) tr) =
    do u <- umf key rv (cur true more (push (SKey key) tr));
    let '(found, rv', s2) := u in
    do s2' <- (if found then Ok s2 else rskip v2_list_prefix s2);
    do a <- read_after (with_tr s2' (pop (r_tr s2')));
    match a with
    | Continue s3 => rec_loop umf k rv' (remove_bytes key rem) s3
    | Done s3 => Ok (rv', remove_bytes key rem, s3)
    end.
  Proof.
    rewrite rec_loop_S, read_field_name_ok.
    destruct (tokfree4_head _ (rstr_free4 fl key) (rstr_nonempty fl key)) as (c0 & r0 & E & Hc & _).
    unfold check_not_at_end, idx. rewrite r_rest_cur, E. cbn [app bind]. rewrite Hc.
    rewrite r_tr_cur, enter_map_ok. cbn [bind]. rewrite with_tr_cur. reflexivity.
  Qed.

  (* ---- records: specification-side definitions ---- *)
  (* include nesting of record n is shallower than k *)
  Fixpoint rec_closed (k n : nat) : Prop :=
    match k with
    | 0 => False
    | S k' => match lookup e n with Some (DRecord incs fs) => Forall (rec_closed k') incs | _ => False end
    end.
  (* all field names of record n, includes first (the order UnmarshalField searches) *)
  Fixpoint names (k n : nat) : list bytes :=
    match k with
    | 0 => []
    | S k' => match lookup e n with Some (DRecord incs fs) => flat_map (names k') incs ++ map f_name fs | _ => [] end
    end.

  Local Notation slot := (bytes * (ty * value))%type.
  Fixpoint own_slots (fs : list field) (vf : list (option value)) : list slot :=
    match fs, vf with
    | fd :: fs', ov :: vf' =>
        (match ov with Some x => [(f_name fd, (f_ty fd, x))] | None => [] end) ++ own_slots fs' vf'
    | _, _ => []
    end.
  Fixpoint inc_slots (sl : nat -> value -> list slot) (incs : list nat) (vi : list value) : list slot :=
    match incs, vi with
    | i :: incs', v :: vi' => sl i v ++ inc_slots sl incs' vi'
    | _, _ => []
    end.
  (* the set fields of a record value, flattened through the includes *)
  Fixpoint slots (k n : nat) (v : value) : list slot :=
    match k with
    | 0 => []
    | S k' =>
        match lookup e n, v with
        | Some (DRecord incs fs), VRec vi vf => inc_slots (slots k') incs vi ++ own_slots fs vf
        | _, _ => []
        end
    end.

  Fixpoint map3 {A B C D} (g : A -> B -> C -> D) (la : list A) (lb : list B) (lc : list C) : list D :=
    match la, lb, lc with
    | a :: la', b :: lb', c :: lc' => g a b c :: map3 g la' lb' lc'
    | _, _, _ => []
    end.

  Definition done_in (done : list bytes) (name : bytes) : bool := existsb (bytes_eqb name) done.
  Definition merge_fld (f : nat) (done : list bytes) (fd : field) (z t : option value) : option value :=
    if done_in done (f_name fd) then option_map (fun x => expect x f (f_ty fd)) t else z.
  (* the partially decoded record: the fields named in [done] hold the expected values of tv, the others those of zv *)
  Fixpoint merge (f : nat) (done : list bytes) (k n : nat) (zv tv : value) : value :=
    match k with
    | 0 => zv
    | S k' =>
        match lookup e n, zv, tv with
        | Some (DRecord incs fs), VRec zi zf, VRec ti tf =>
            VRec (map3 (merge f done k') incs zi ti) (map3 (merge_fld f done) fs zf tf)
        | _, _, _ => zv
        end
    end.

  (* a zero value of the right shape: one slot per field, the non-required ones empty *)
  Fixpoint zok (k n : nat) (v : value) : Prop :=
    match k with
    | 0 => True
    | S k' =>
        match lookup e n, v with
        | Some (DRecord incs fs), VRec vi vf =>
            Forall2 (fun fd oz => is_required (f_opt fd) = false -> oz = None) fs vf /\ Forall2 (zok k') incs vi
        | _, _ => False
        end
    end.

  Definition fld_typed (fd : field) (ov : option value) : Prop :=
    (forall x, ov = Some x -> typed (f_ty fd) x) /\ (ov = None -> is_required (f_opt fd) = false).

  Lemma typed_rec_inv n v incs fs : typed (TRef n) v -> lookup e n = Some (DRecord incs fs) ->
    exists vi vf, v = VRec vi vf /\ Forall2 (fun i iv => typed (TRef i) iv) incs vi /\ Forall2 fld_typed fs vf.
  Proof.
    intros Ht Hl. inversion Ht; subst.
    - match goal with H : lookup e n = Some (DRecord _ _) |- _ => rewrite Hl in H; injection H as <- <- end.
      eexists _, _. split; [reflexivity|]. split; assumption.
    - congruence.
  Qed.

  Lemma index_of_none key l j : ~ In key l -> index_of key l j = None.
  Proof.
    revert j. induction l as [|x l IH]; intros j H; [reflexivity|]. simpl in *.
    destruct (bytes_eqb key x) eqn:E; [apply bytes_eqb_eq in E; subst; tauto|]. apply IH. tauto.
  Qed.

  Lemma map3_ext_in {A B C D} (g g' : A -> B -> C -> D) la : forall lb lc,
    (forall a, In a la -> forall b c, g a b c = g' a b c) -> map3 g la lb lc = map3 g' la lb lc.
  Proof.
    induction la as [|a la IH]; intros lb lc H; [reflexivity|]. destruct lb as [|b lb]; [reflexivity|].
    destruct lc as [|c lc]; [reflexivity|]. cbn [map3]. rewrite (H a (or_introl eq_refl)). f_equal.
    apply IH. intros a' Ha. apply H. right. exact Ha.
  Qed.

  Lemma done_in_cons key done name : done_in (key :: done) name = bytes_eqb name key || done_in done name.
  Proof. reflexivity. Qed.

  Lemma merge_ext f d1 d2 : forall k n zv tv,
    (forall name, In name (names k n) -> done_in d1 name = done_in d2 name) ->
    merge f d1 k n zv tv = merge f d2 k n zv tv.
  Proof.
    induction k as [|k IH]; intros n zv tv H; [reflexivity|]. cbn [merge names] in *.
    destruct (lookup e n) as [[incs fs|? ?]|]; try reflexivity.
    destruct zv; try reflexivity. destruct tv; try reflexivity. f_equal.
    - apply map3_ext_in. intros i Hi b c. apply IH. intros name Hn. apply H. apply in_or_app. left.
      apply in_flat_map. exists i. auto.
    - apply map3_ext_in. intros fd Hfd b c. unfold merge_fld. rewrite H; [reflexivity|].
      apply in_or_app. right. apply in_map. exact Hfd.
  Qed.

  Lemma merge_skip f key done k n zv tv : ~ In key (names k n) ->
    merge f (key :: done) k n zv tv = merge f done k n zv tv.
  Proof.
    intros H. apply merge_ext. intros name Hn. rewrite done_in_cons.
    destruct (bytes_eqb name key) eqn:E; [apply bytes_eqb_eq in E; subst; contradiction | reflexivity].
  Qed.

  Lemma own_slots_names key tx fs : forall vf, In (key, tx) (own_slots fs vf) -> In key (map f_name fs).
  Proof.
    induction fs as [|fd fs IH]; intros vf H; [destruct H|]. destruct vf as [|ov vf]; [destruct H|].
    cbn [own_slots] in H. apply in_app_or in H as [H|H].
    - destruct ov; [|destruct H]. destruct H as [H|[]]. injection H as <- _. left. reflexivity.
    - right. eapply IH, H.
  Qed.

  Lemma inc_slots_in sl sx incs : forall vi, In sx (inc_slots sl incs vi) ->
    exists i v, In i incs /\ In sx (sl i v).
  Proof.
    induction incs as [|i incs IH]; intros vi H; [destruct H|]. destruct vi as [|v vi]; [destruct H|].
    cbn [inc_slots] in H. apply in_app_or in H as [H|H].
    - exists i, v. split; [left; reflexivity | exact H].
    - destruct (IH _ H) as (i' & v' & Hi & Hs). exists i', v'. split; [right; exact Hi | exact Hs].
  Qed.

  Lemma slots_names key tx : forall k n v, In (key, tx) (slots k n v) -> In key (names k n).
  Proof.
    induction k as [|k IH]; intros n v H; [destruct H|]. cbn [slots names] in *.
    destruct (lookup e n) as [[incs fs|? ?]|]; try destruct H. destruct v; try destruct H.
    apply in_app_or in H as [H|H]; apply in_or_app.
    - left. destruct (inc_slots_in _ _ _ _ H) as (i & v & Hi & Hs). apply in_flat_map. exists i. split; [exact Hi|]. eapply IH, Hs.
    - right. eapply own_slots_names, H.
  Qed.

  Lemma NoDup_app_l {A} (a b : list A) : NoDup (a ++ b) -> NoDup a.
  Proof. induction a as [|x a IH]; intros H; [constructor|]. inversion H; subst. constructor; [intro; apply H2, in_or_app; auto | auto]. Qed.
  Lemma NoDup_app_r {A} (a b : list A) : NoDup (a ++ b) -> NoDup b.
  Proof. induction a as [|x a IH]; intros H; [exact H|]. inversion H; subst. auto. Qed.
  Lemma NoDup_app_disj {A} (a b : list A) x : NoDup (a ++ b) -> In x a -> In x b -> False.
  Proof.
    induction a as [|y a IH]; intros H Ha Hb; [destruct Ha|]. inversion H; subst. destruct Ha as [->|Ha].
    - apply H2, in_or_app. auto.
    - eauto.
  Qed.

  Section Umf.
    Variable dec : ty -> rst -> res (value * rst).
    Variable f : nat.
    Variable done : list bytes.
    Variable key : bytes.
    Variable s : rst.

    Lemma umf_notfound : forall k n zv tv,
      rec_closed k n -> zok k n zv -> typed (TRef n) tv -> ~ In key (names k n) ->
      umf_ dec k n key (merge f done k n zv tv) s = Ok (false, merge f done k n zv tv, s).
    Proof.
      induction k as [|k IH]; intros n zv tv Hc Hz Ht Hn; [destruct Hc|].
      cbn [rec_closed zok names] in Hc, Hz, Hn.
      destruct (lookup e n) as [[incs fs|? ?]|] eqn:Hl; try contradiction.
      destruct (typed_rec_inv _ _ _ _ Ht Hl) as (ti & tf & -> & Hti & Htf).
      destruct zv as [| | | | | | | | |zi zf| | |]; try (exact (False_ind _ Hz)). destruct Hz as [Hzf Hzi].
      rewrite umf_S. cbn [merge]. rewrite Hl.
      assert (Hinc : forall pos, try_incs_ (fun i iv => umf_ dec k i key iv s) incs (map3 (merge f done k) incs zi ti) pos = Ok None).
      { assert (Hn' : ~ In key (flat_map (names k) incs)) by (intro; apply Hn, in_or_app; auto).
        clear Hn Hl Hzf Htf Ht. revert zi ti Hzi Hti.
        induction incs as [|i incs IHi]; intros zi ti Hzi Hti pos; [reflexivity|].
        inversion Hzi; subst. inversion Hti; subst. inversion Hc; subst.
        cbn [map3 try_incs_]. cbn [flat_map] in Hn'.
        rewrite IH; [|assumption|assumption|assumption|intro; apply Hn', in_or_app; auto]. cbn [bind].
        apply IHi; [assumption|intro; apply Hn', in_or_app; auto|assumption|assumption]. }
      rewrite Hinc. cbn [bind]. rewrite index_of_none; [reflexivity|]. intro. apply Hn, in_or_app. auto.
    Qed.

    Variable ty0 : ty.
    Variable x0 : value.
    Variable s' : rst.
    Hypothesis dec_ok : dec ty0 s = Ok (expect x0 f ty0, s').

    Lemma own_found : forall fs zf tf j0,
      In (key, (ty0, x0)) (own_slots fs tf) -> NoDup (map f_name fs) -> length zf = length fs ->
      exists j fd, index_of key (map f_name fs) j0 = Some (j0 + j) /\ nth_error fs j = Some fd /\ f_ty fd = ty0 /\
        set_nth j (Some (expect x0 f ty0)) (map3 (merge_fld f done) fs zf tf) = map3 (merge_fld f (key :: done)) fs zf tf.
    Proof.
      induction fs as [|fd fs IH]; intros zf tf j0 Hin Hnd Hlen; [destruct Hin|].
      destruct tf as [|ov tf]; [destruct Hin|]. destruct zf as [|oz zf]; [discriminate|].
      cbn [own_slots] in Hin. cbn [map] in Hnd. inversion Hnd as [|? ? Hnot Hnd']; subst.
      apply in_app_or in Hin as [Hin|Hin].
      - destruct ov as [xv|]; [|destruct Hin]. destruct Hin as [Hin|[]]. injection Hin as Hk Ht Hx. subst xv.
        exists 0, fd. cbn [map index_of nth_error map3 set_nth]. rewrite <- Hk, bytes_eqb_refl.
        split; [f_equal; lia|]. split; [reflexivity|]. split; [exact Ht|]. f_equal.
        + unfold merge_fld. rewrite done_in_cons, bytes_eqb_refl. cbn [orb option_map]. rewrite Ht. reflexivity.
        + apply map3_ext_in. intros fd' Hfd' b c. unfold merge_fld. rewrite done_in_cons.
          destruct (bytes_eqb (f_name fd') (f_name fd)) eqn:E; [|reflexivity].
          apply bytes_eqb_eq in E. exfalso. apply Hnot. rewrite <- E. apply in_map. exact Hfd'.
      - assert (Hne : bytes_eqb key (f_name fd) = false).
        { apply bytes_eqb_neq. intros ->. apply Hnot. eapply own_slots_names, Hin. }
        destruct (IH zf tf (S j0) Hin Hnd' ltac:(simpl in Hlen; lia)) as (j & fd' & Hi & Hn & Ht & Hs).
        exists (S j), fd'. cbn [map index_of nth_error map3 set_nth]. rewrite Hne.
        split; [rewrite Hi; f_equal; lia|]. split; [exact Hn|]. split; [exact Ht|]. f_equal; [|exact Hs].
        unfold merge_fld. rewrite done_in_cons.
        replace (bytes_eqb (f_name fd) key) with false; [reflexivity|].
        symmetry. apply bytes_eqb_neq. intros E. apply bytes_eqb_neq in Hne. apply Hne. symmetry. exact E.
    Qed.

    Lemma umf_found : forall k n zv tv,
      rec_closed k n -> zok k n zv -> typed (TRef n) tv -> NoDup (names k n) ->
      In (key, (ty0, x0)) (slots k n tv) ->
      umf_ dec k n key (merge f done k n zv tv) s = Ok (true, merge f (key :: done) k n zv tv, s').
    Proof.
      induction k as [|k IH]; intros n zv tv Hc Hz Ht Hnd Hin; [destruct Hc|].
      cbn [rec_closed zok names slots] in Hc, Hz, Hnd, Hin.
      destruct (lookup e n) as [[incs fs|? ?]|] eqn:Hl; try contradiction.
      destruct (typed_rec_inv _ _ _ _ Ht Hl) as (ti & tf & -> & Hti & Htf).
      destruct zv as [| | | | | | | | |zi zf| | |]; try (exact (False_ind _ Hz)). destruct Hz as [Hzf Hzi].
      rewrite umf_S. cbn [merge]. rewrite Hl.
      pose proof (NoDup_app_l _ _ Hnd) as HndI. pose proof (NoDup_app_r _ _ Hnd) as HndO.
      apply in_app_or in Hin as [Hin|Hin].
      - (* the field belongs to an included record *)
        assert (Hinc : forall pos, exists j iv',
                  try_incs_ (fun i iv => umf_ dec k i key iv s) incs (map3 (merge f done k) incs zi ti) pos = Ok (Some (pos + j, iv', s'))
                  /\ set_nth j iv' (map3 (merge f done k) incs zi ti) = map3 (merge f (key :: done) k) incs zi ti).
        { clear Hnd HndO Hl Hzf Htf Ht. revert zi ti Hzi Hti Hin.
          induction incs as [|i incs IHi]; intros zi ti Hzi Hti Hin pos; [destruct Hin|].
          inversion Hzi as [|? z0 ? zi' Hz0 Hzi']; subst. inversion Hti as [|? t0 ? ti' Ht0 Hti']; subst.
          inversion Hc as [|? ? Hc0 Hc']; subst.
          cbn [flat_map] in HndI. cbn [inc_slots] in Hin. cbn [map3 try_incs_].
          apply in_app_or in Hin as [Hin|Hin].
          + exists 0. eexists. rewrite (IH i z0 t0 Hc0 Hz0 Ht0 (NoDup_app_l _ _ HndI) Hin).
            cbn [bind]. split; [rewrite Nat.add_0_r; reflexivity|]. cbn [set_nth]. f_equal.
            apply map3_ext_in. intros i' Hi' b c. symmetry. apply merge_skip. intros Hk.
            apply (NoDup_app_disj _ _ key HndI); [eapply slots_names, Hin | apply in_flat_map; exists i'; auto].
          + assert (Hk : In key (flat_map (names k) incs)).
            { destruct (inc_slots_in _ _ _ _ Hin) as (i' & v' & Hi' & Hs). apply in_flat_map. exists i'. split; [exact Hi'|].
              eapply slots_names, Hs. }
            assert (Hnk : ~ In key (names k i)) by (intro; eapply (NoDup_app_disj _ _ key HndI); eassumption).
            rewrite (umf_notfound k i z0 t0 Hc0 Hz0 Ht0 Hnk). cbn [bind].
            destruct (IHi Hc' (NoDup_app_r _ _ HndI) zi' ti' Hzi' Hti' Hin (S pos)) as (j & iv' & Htry & Hset).
            exists (S j), iv'. split; [rewrite Htry; replace (S pos + j) with (pos + S j) by lia; reflexivity|]. cbn [set_nth]. rewrite Hset.
            f_equal. symmetry. apply merge_skip, Hnk. }
        destruct (Hinc 0) as (j & iv' & Htry & Hset). rewrite Htry. cbn [bind Nat.add]. rewrite Hset.
        replace (map3 (merge_fld f (key :: done)) fs zf tf) with (map3 (merge_fld f done) fs zf tf); [reflexivity|].
        apply map3_ext_in. intros fd Hfd b c. unfold merge_fld. rewrite done_in_cons.
        destruct (bytes_eqb (f_name fd) key) eqn:E; [|reflexivity]. apply bytes_eqb_eq in E. exfalso.
        apply (NoDup_app_disj _ _ key Hnd); [|rewrite <- E; apply in_map, Hfd].
        destruct (inc_slots_in _ _ _ _ Hin) as (i' & v' & Hi' & Hs). apply in_flat_map. exists i'. split; [exact Hi'|].
        eapply slots_names, Hs.
      - (* an own field *)
        assert (Hnk : ~ In key (flat_map (names k) incs)).
        { intro Hk. apply (NoDup_app_disj _ _ key Hnd Hk). eapply own_slots_names, Hin. }
        assert (Hinc : forall pos, try_incs_ (fun i iv => umf_ dec k i key iv s) incs (map3 (merge f done k) incs zi ti) pos = Ok None).
        { clear Hnd HndI HndO Hl Hzf Htf Hin Ht. revert zi ti Hzi Hti.
          induction incs as [|i incs IHi]; intros zi ti Hzi Hti pos; [reflexivity|].
          inversion Hzi; subst. inversion Hti; subst. inversion Hc; subst.
          cbn [map3 try_incs_]. cbn [flat_map] in Hnk.
          rewrite umf_notfound; [|assumption|assumption|assumption|intro; apply Hnk, in_or_app; auto]. cbn [bind].
          apply IHi; [assumption|intro; apply Hnk, in_or_app; auto|assumption|assumption]. }
        rewrite Hinc. cbn [bind].
        assert (Hlen : length zf = length fs) by (symmetry; eapply Forall2_len, Hzf).
        destruct (own_found fs zf tf 0 Hin HndO Hlen) as (j & fd & Hi & Hn & Hty & Hset).
        cbn [Nat.add] in Hi. rewrite Hi, Hn, Hty, dec_ok. cbn [bind]. rewrite Hset.
        replace (map3 (merge f (key :: done) k) incs zi ti) with (map3 (merge f done k) incs zi ti); [reflexivity|].
        apply map3_ext_in. intros i' Hi' b c. symmetry. apply merge_skip. intro Hk. apply Hnk, in_flat_map. exists i'. auto.
    Qed.
  End Umf.

  (* ---- the start and the end of the record loop ---- *)
  Lemma map3_mid {A B C} (P : A -> B -> Prop) (Q : A -> C -> Prop) (g : A -> B -> C -> B) la : forall lb lc,
    Forall2 P la lb -> Forall2 Q la lc -> (forall a b c, In a la -> P a b -> Q a c -> g a b c = b) -> map3 g la lb lc = lb.
  Proof.
    induction la as [|a la IH]; intros lb lc Hb Hc H; inversion Hb; subst; inversion Hc; subst; [reflexivity|].
    cbn [map3]. f_equal; [apply H; [left; reflexivity|assumption|assumption]|].
    apply IH; [assumption|assumption|]. intros a' b' c' Ha'. apply H. right. exact Ha'.
  Qed.

  Lemma merge_nil f : forall k n zv tv, rec_closed k n -> zok k n zv -> typed (TRef n) tv -> merge f [] k n zv tv = zv.
  Proof.
    induction k as [|k IH]; intros n zv tv Hc Hz Ht; [reflexivity|].
    cbn [rec_closed zok merge] in *.
    destruct (lookup e n) as [[incs fs|? ?]|] eqn:Hl; try contradiction.
    destruct (typed_rec_inv _ _ _ _ Ht Hl) as (ti & tf & -> & Hti & Htf).
    destruct zv as [| | | | | | | | |zi zf| | |]; try (exact (False_ind _ Hz)). destruct Hz as [Hzf Hzi].
    f_equal.
    - apply (map3_mid (zok k) (fun i iv => typed (TRef i) iv)); [assumption|assumption|].
      intros i b c Hi Hb Hc'. apply IH; [|assumption|assumption]. rewrite Forall_forall in Hc. apply Hc, Hi.
    - eapply (map3_mid _ fld_typed); [exact Hzf|exact Htf|]. intros. reflexivity.
  Qed.

  Definition eb_incs (f : nat) :=
    fix go (is : list nat) (vs : list value) {struct vs} : list value :=
      match is, vs with
      | i :: is', iv :: vs' => expect_body iv f i :: go is' vs'
      | _, _ => vs
      end.
  Definition eb_flds (f : nat) :=
    fix go (fs : list field) (vs : list (option value)) {struct vs} : list (option value) :=
      match fs, vs with
      | fd :: fs', ov :: vs' => (match ov with Some x => Some (expect x f (f_ty fd)) | None => None end) :: go fs' vs'
      | _, _ => vs
      end.
  Lemma expect_body_rec f n incs fs ti tf : lookup e n = Some (DRecord incs fs) ->
    expect_body (VRec ti tf) f n = VRec (eb_incs f incs ti) (eb_flds f fs tf).
  Proof. intros H. cbn [expect_body]. rewrite H. reflexivity. Qed.
  Lemma expect_rec f n incs fs ti tf : lookup e n = Some (DRecord incs fs) ->
    expect (VRec ti tf) (S f) (TRef n) =
    VRec (eb_incs f incs ti) (if own_has_default fs then fill_ f fs (eb_flds f fs tf) else eb_flds f fs tf).
  Proof. intros H. cbn [expect]. rewrite H. reflexivity. Qed.

  Lemma merge_all f done : forall k n zv tv, rec_closed k n -> zok k n zv -> typed (TRef n) tv ->
    (forall key ty x, In (key, (ty, x)) (slots k n tv) -> done_in done key = true) ->
    merge f done k n zv tv = expect_body tv f n.
  Proof.
    induction k as [|k IH]; intros n zv tv Hc Hz Ht Hd; [destruct Hc|].
    cbn [rec_closed zok merge slots] in *.
    destruct (lookup e n) as [[incs fs|? ?]|] eqn:Hl; try contradiction.
    destruct (typed_rec_inv _ _ _ _ Ht Hl) as (ti & tf & -> & Hti & Htf).
    destruct zv as [| | | | | | | | |zi zf| | |]; try (exact (False_ind _ Hz)). destruct Hz as [Hzf Hzi].
    rewrite (expect_body_rec f n incs fs ti tf Hl). f_equal.
    - assert (Hd' : forall key ty x, In (key, (ty, x)) (inc_slots (slots k) incs ti) -> done_in done key = true).
      { intros. eapply Hd, in_or_app. left. eassumption. }
      clear Hd Ht Hl Hzf Htf. revert zi ti Hzi Hti Hd'.
      induction incs as [|i incs IHi]; intros zi ti Hzi Hti Hd'; inversion Hzi; subst; inversion Hti; subst; [reflexivity|].
      inversion Hc; subst. cbn [map3 eb_incs]. cbn [inc_slots] in Hd'. f_equal.
      + apply IH; [assumption|assumption|assumption|]. intros. eapply Hd', in_or_app. left. eassumption.
      + apply IHi; [assumption|assumption|assumption|]. intros. eapply Hd', in_or_app. right. eassumption.
    - assert (Hd' : forall key ty x, In (key, (ty, x)) (own_slots fs tf) -> done_in done key = true).
      { intros. eapply Hd, in_or_app. right. eassumption. }
      clear Hd Ht Hl Hzi Hti Hc. revert zf tf Hzf Htf Hd'.
      induction fs as [|fd fs IHf]; intros zf tf Hzf Htf Hd'; inversion Hzf as [|? oz ? zf' Hoz Hzf']; subst;
        inversion Htf as [|? ot ? tf' Hot Htf']; subst; [reflexivity|].
      cbn [map3 eb_flds]. cbn [own_slots] in Hd'. f_equal.
      + unfold merge_fld. destruct (done_in done (f_name fd)) eqn:Ed; [destruct ot; reflexivity|].
        destruct ot as [x|].
        * rewrite (Hd' (f_name fd) (f_ty fd) x) in Ed; [discriminate|]. left. reflexivity.
        * destruct Hot as [_ Hreq]. apply Hoz, Hreq. reflexivity.
      + apply IHf; [assumption|assumption|]. intros. eapply Hd', in_or_app. right. eassumption.
  Qed.

  Lemma zero_value_zok : forall k fz n, k <= fz -> rec_closed k n -> zok k n (zero_value e fz (TRef n)).
  Proof.
    induction k as [|k IH]; intros fz n Hk Hc; [exact I|]. destruct fz as [|fz]; [lia|].
    cbn [zero_value rec_closed zok] in *.
    destruct (lookup e n) as [[incs fs|? ?]|]; try contradiction. split.
    - clear Hc. induction fs as [|fd fs IHf]; cbn [map]; constructor; [|exact IHf].
      intros Hr. rewrite Hr. reflexivity.
    - induction incs as [|i incs IHi]; cbn [map]; constructor; inversion Hc; subst.
      + apply IH; [lia|assumption].
      + apply IHi. assumption.
  Qed.

  (* ---- records: the encoder ---- *)
  Definition enc_fields_ (f : nat) (scope : list bytes) :=
    fix fields_entries (fs : list field) (vs : list (option value)) : res (list (bytes * doc)) :=
      match fs, vs with
      | [], [] => Ok []
      | fd :: fs', ov :: vs' =>
          do here <- match ov with
                     | Some v' => enc_key_ f scope (f_name fd) (f_ty fd) v'
                     | None => if is_required (f_opt fd) then Err EType else Ok []
                     end;
          do rest <- fields_entries fs' vs';
          Ok (here ++ rest)
      | _, _ => Err EType
      end.
  Definition enc_incs_ (f : nat) (scope : list bytes) :=
    fix go (is : list nat) (vs : list value) : res (list (bytes * doc)) :=
      match is, vs with
      | [], [] => Ok []
      | i :: is', iv :: vs' =>
          do d <- Enc f scope (TRef i) iv;
          do a <- match d with DObj ents => Ok ents | _ => Err EType end;
          do b <- go is' vs';
          Ok (a ++ b)
      | _, _ => Err EType
      end.
  Lemma enc_rec f scope n vi vf : Enc (S f) scope (TRef n) (VRec vi vf) =
    match lookup e n with
    | Some (DRecord incs fs) =>
        do inc_ents <- enc_incs_ f scope incs vi;
        do own <- enc_fields_ f scope fs vf;
        Ok (DObj (sort_entries (inc_ents ++ own)))
    | _ => Err EType
    end.
  Proof. reflexivity. Qed.

  Definition enc_le (fe : nat) (tx : ty * value) (d : doc) : Prop :=
    exists fe' sc, fe' <= fe /\ Enc fe' sc (fst tx) (snd tx) = Ok d.

  Lemma enc_fields_rel f scope : forall fs vf own, enc_fields_ f scope fs vf = Ok own ->
    Forall2 (entry_rel (enc_le f)) (own_slots fs vf) own.
  Proof.
    induction fs as [|fd fs IH]; intros vf own H; destruct vf as [|ov vf]; cbn [enc_fields_] in H; try discriminate.
    - injection H as <-. constructor.
    - fold (enc_fields_ f scope) in H. cbn [own_slots]. destruct ov as [x|].
      + rewrite enc_key_eq in H. destruct (Enc f (scope ++ [f_name fd]) (f_ty fd) x) as [d| |] eqn:Ed; try discriminate.
        cbn [bind] in H. destruct (enc_fields_ f scope fs vf) as [r| |] eqn:Er; try discriminate. cbn [bind] in H.
        injection H as <-. cbn [app]. constructor; [|apply IH; exact Er].
        split; [reflexivity|]. exists f, (scope ++ [f_name fd]). split; [lia | exact Ed].
      + destruct (is_required (f_opt fd)); [discriminate|]. cbn [bind] in H.
        destruct (enc_fields_ f scope fs vf) as [r| |] eqn:Er; try discriminate. cbn [bind] in H.
        injection H as <-. cbn [app]. apply IH. exact Er.
  Qed.

  Lemma Forall2_perm {A B} (P : A -> B -> Prop) l2 l2' : Permutation l2 l2' ->
    forall l1, Forall2 P l1 l2 -> exists l1', Permutation l1 l1' /\ Forall2 P l1' l2'.
  Proof.
    induction 1 as [|x l2 l2' Hp IH|x y l2|l2 l2' l2'' Hp1 IH1 Hp2 IH2]; intros l1 HF.
    - inversion HF; subst. exists []. split; constructor.
    - inversion HF as [|a ? l1t ? Ha Ht]; subst. destruct (IH _ Ht) as (l1' & Hp' & HF').
      exists (a :: l1'). split; constructor; assumption.
    - inversion HF as [|a ? l1t ? Ha Ht]; subst. inversion Ht as [|b ? l1u ? Hb Hu]; subst.
      exists (b :: a :: l1u). split; [apply perm_swap|]. repeat constructor; assumption.
    - destruct (IH1 _ HF) as (m & Hpm & HFm). destruct (IH2 _ HFm) as (m' & Hpm' & HFm').
      exists m'. split; [eapply perm_trans; eassumption | exact HFm'].
  Qed.

  Lemma Forall2_app2 {A B} (P : A -> B -> Prop) a1 a2 b1 b2 :
    Forall2 P a1 b1 -> Forall2 P a2 b2 -> Forall2 P (a1 ++ a2) (b1 ++ b2).
  Proof. induction 1; intros; simpl; [assumption|constructor; auto]. Qed.

  Lemma enc_le_mono fe tx d : enc_le fe tx d -> enc_le (S fe) tx d.
  Proof. intros (fe' & sc & Hle & He). exists fe', sc. split; [lia | exact He]. Qed.

  Lemma enc_slots : forall k fe n v scope d, rec_closed k n -> typed (TRef n) v -> Enc (S fe) scope (TRef n) v = Ok d ->
    exists ents L, d = DObj ents /\ Permutation ents L /\ Forall2 (entry_rel (enc_le fe)) (slots k n v) L.
  Proof.
    induction k as [|k IH]; intros fe n v scope d Hc Ht He; [destruct Hc|].
    cbn [rec_closed slots] in *.
    destruct (lookup e n) as [[incs fs|? ?]|] eqn:Hl; try contradiction.
    destruct (typed_rec_inv _ _ _ _ Ht Hl) as (vi & vf & -> & Hti & Htf).
    rewrite enc_rec, Hl in He.
    destruct (enc_incs_ fe scope incs vi) as [a| |] eqn:Ea; try discriminate. cbn [bind] in He.
    destruct (enc_fields_ fe scope fs vf) as [own| |] eqn:Eo; try discriminate. cbn [bind] in He. injection He as <-.
    assert (Hinc : exists L, Permutation a L /\ Forall2 (entry_rel (enc_le fe)) (inc_slots (slots k) incs vi) L).
    { clear Ht Hl Htf Eo. revert vi a Hti Ea.
      induction incs as [|i incs IHi]; intros vi a Hti Ea; inversion Hti as [|? iv ? vi' Hiv Hvi']; subst; cbn [enc_incs_] in Ea.
      - injection Ea as <-. exists []. split; constructor.
      - fold (enc_incs_ fe scope) in Ea. inversion Hc as [|? ? Hci Hc']; subst.
        destruct (Enc fe scope (TRef i) iv) as [di| |] eqn:Ei; try discriminate. cbn [bind] in Ea.
        destruct fe as [|fe']; [rewrite enc_0 in Ei; discriminate|].
        destruct (IH fe' i iv scope di Hci Hiv Ei) as (ents & L1 & -> & Hp1 & HF1). cbn [bind] in Ea.
        destruct (enc_incs_ (S fe') scope incs vi') as [b| |] eqn:Eb; try discriminate. cbn [bind] in Ea. injection Ea as <-.
        destruct (IHi Hc' vi' b Hvi' Eb) as (L2 & Hp2 & HF2).
        exists (L1 ++ L2). split; [apply Permutation_app; assumption|]. cbn [inc_slots]. apply Forall2_app2; [|assumption].
        eapply Forall2_impl_in; [|exact HF1]. intros ? ? _ [Hk Hr]. split; [exact Hk | apply enc_le_mono, Hr]. }
    destruct Hinc as (L & Hp & HF). apply enc_fields_rel in Eo.
    exists (sort_entries (a ++ own)), (L ++ own). split; [reflexivity|]. split.
    - eapply perm_trans; [apply sort_entries_perm|]. apply Permutation_app_tail. exact Hp.
    - apply Forall2_app2; assumption.
  Qed.

  (* ---- sizes, types and required fields of the slots ---- *)
  Lemma list_sum_cons a l : list_sum (a :: l) = a + list_sum l.
  Proof. reflexivity. Qed.
  Lemma own_slots_len fs : forall vf, length (own_slots fs vf) <= list_sum (map (osize vsize) vf).
  Proof.
    induction fs as [|fd fs IH]; intros vf; [simpl; lia|]. destruct vf as [|ov vf]; [simpl; lia|].
    cbn [own_slots map]. rewrite list_sum_cons, app_length. specialize (IH vf). destruct ov; cbn [length osize]; lia.
  Qed.
  Lemma own_slots_vsize key ty x fs : forall vf, In (key, (ty, x)) (own_slots fs vf) -> S (vsize x) <= list_sum (map (osize vsize) vf).
  Proof.
    induction fs as [|fd fs IH]; intros vf H; [destruct H|]. destruct vf as [|ov vf]; [destruct H|].
    cbn [own_slots map] in *. rewrite list_sum_cons. apply in_app_or in H as [H|H].
    - destruct ov; [|destruct H]. destruct H as [H|[]]. injection H as _ _ ->. cbn [osize]. lia.
    - specialize (IH vf H). lia.
  Qed.

  Lemma slots_len : forall k n v, length (slots k n v) + 2 <= vsize v \/ slots k n v = [].
  Proof.
    induction k as [|k IH]; intros n v; [right; reflexivity|]. cbn [slots].
    destruct (lookup e n) as [[incs fs|? ?]|]; try (right; reflexivity). destruct v; try (right; reflexivity).
    left. rewrite app_length. cbn [vsize]. pose proof (own_slots_len fs fields).
    assert (length (inc_slots (slots k) incs incs0) <= list_sum (map (fun x => S (vsize x)) incs0)).
    { clear H. revert incs0. induction incs as [|i incs IHi]; intros vi; [simpl; lia|]. destruct vi as [|iv vi]; [simpl; lia|].
      cbn [inc_slots map]. rewrite list_sum_cons, app_length. specialize (IHi vi).
      destruct (IH i iv) as [A|A]; [lia | rewrite A; cbn [length]; lia]. }
    lia.
  Qed.

  Lemma slots_vsize key ty x : forall k n v, In (key, (ty, x)) (slots k n v) -> vsize x + 2 <= vsize v.
  Proof.
    induction k as [|k IH]; intros n v H; [destruct H|]. cbn [slots] in H.
    destruct (lookup e n) as [[incs fs|? ?]|]; try destruct H. destruct v; try destruct H.
    cbn [vsize]. apply in_app_or in H as [H|H].
    - assert (vsize x + 2 <= list_sum (map (fun x => S (vsize x)) incs0)); [|lia].
      revert incs0 H. induction incs as [|i incs IHi]; intros vi H; [destruct H|]. destruct vi as [|iv vi]; [destruct H|].
      cbn [inc_slots map] in *. rewrite list_sum_cons. apply in_app_or in H as [H|H].
      + specialize (IH _ _ H). lia.
      + specialize (IHi _ H). lia.
    - pose proof (own_slots_vsize _ _ _ _ _ H). lia.
  Qed.

  Lemma slots_typed key ty x : forall k n v, typed (TRef n) v -> In (key, (ty, x)) (slots k n v) ->
    typed ty x /\ exists m incs fs fd, lookup e m = Some (DRecord incs fs) /\ In fd fs /\ f_ty fd = ty.
  Proof.
    induction k as [|k IH]; intros n v Ht H; [destruct H|]. cbn [slots] in H.
    destruct (lookup e n) as [[incs fs|? ?]|] eqn:Hl; try destruct H.
    destruct (typed_rec_inv _ _ _ _ Ht Hl) as (vi & vf & -> & Hti & Htf).
    apply in_app_or in H as [H|H].
    - clear Ht Hl Htf. induction Hti as [|i iv incs vi Hiv Hti IHi]; [destruct H|].
      cbn [inc_slots] in H. apply in_app_or in H as [H|H]; [eapply IH; eassumption | apply IHi, H].
    - assert (A : typed ty x /\ exists fd, In fd fs /\ f_ty fd = ty).
      { clear Ht Hl Hti. induction Htf as [|fd ov fs vf Hov Htf IHf]; [destruct H|].
        cbn [own_slots] in H. apply in_app_or in H as [H|H].
        - destruct ov as [x1|]; [|destruct H]. destruct H as [H|[]]. injection H as _ <- <-.
          split; [apply Hov; reflexivity|]. exists fd. split; [left; reflexivity | reflexivity].
        - destruct (IHf H) as [A (fd' & B & C)]. split; [exact A|]. exists fd'. split; [right; exact B | exact C]. }
      destruct A as [A (fd & B & C)]. split; [exact A|]. exists n, incs, fs, fd. auto.
  Qed.

  Lemma req_slots name : forall k n v, typed (TRef n) v -> In name (required_fields e k n) ->
    exists ty x, In (name, (ty, x)) (slots k n v).
  Proof.
    induction k as [|k IH]; intros n v Ht H; [destruct H|]. cbn [required_fields slots] in *.
    destruct (lookup e n) as [[incs fs|? ?]|] eqn:Hl; try destruct H.
    destruct (typed_rec_inv _ _ _ _ Ht Hl) as (vi & vf & -> & Hti & Htf).
    apply in_app_or in H as [H|H].
    - assert (A : exists ty x, In (name, (ty, x)) (inc_slots (slots k) incs vi)).
      { clear Ht Hl Htf. induction Hti as [|i iv incs vi Hiv Hti IHi]; [destruct H|].
        cbn [flat_map] in H. cbn [inc_slots]. apply in_app_or in H as [H|H].
        - destruct (IH _ _ Hiv H) as (ty & x & A). exists ty, x. apply in_or_app. left. exact A.
        - destruct (IHi H) as (ty & x & A). exists ty, x. apply in_or_app. right. exact A. }
      destruct A as (ty & x & A). exists ty, x. apply in_or_app. left. exact A.
    - assert (A : exists ty x, In (name, (ty, x)) (own_slots fs vf)).
      { clear Ht Hl Hti. induction Htf as [|fd ov fs vf Hov Htf IHf]; [destruct H|].
        cbn [filter] in H. cbn [own_slots]. destruct (is_required (f_opt fd)) eqn:Er.
        - destruct H as [H|H].
          + destruct ov as [x|]; [|destruct Hov as [_ Hn]; rewrite (Hn eq_refl) in Er; discriminate].
            exists (f_ty fd), x. apply in_or_app. left. left. rewrite H. reflexivity.
          + destruct (IHf H) as (ty & x & A). exists ty, x. apply in_or_app. right. exact A.
        - destruct (IHf H) as (ty & x & A). exists ty, x. apply in_or_app. right. exact A. }
      destruct A as (ty & x & A). exists ty, x. apply in_or_app. right. exact A.
  Qed.

  Lemma remove_bytes_in y k l : In y (remove_bytes k l) -> In y l /\ y <> k.
  Proof.
    induction l as [|x l IH]; intros H; [destruct H|]. simpl in H. destruct (bytes_eqb k x) eqn:E.
    - destruct (IH H). split; [right; assumption | assumption].
    - destruct H as [->|H]; [split; [left; reflexivity | apply bytes_eqb_neq in E; congruence]|].
      destruct (IH H). split; [right; assumption | assumption].
  Qed.
  Lemma remove_all keys : forall rem, (forall y, In y rem -> In y keys) ->
    fold_left (fun r key => remove_bytes key r) keys rem = [].
  Proof.
    assert (A : forall keys rem y, In y (fold_left (fun r key => remove_bytes key r) keys rem) -> In y rem /\ ~ In y keys).
    { clear keys. induction keys as [|k keys IH]; intros rem y H; [split; [exact H | intros []]|].
      cbn [fold_left] in H. destruct (IH _ _ H) as [B C]. apply remove_bytes_in in B as [B D].
      split; [exact B|]. intros [->|E]; [congruence | contradiction]. }
    intros rem H. destruct (fold_left _ keys rem) as [|y l] eqn:E; [reflexivity|].
    destruct (A keys rem y) as [B C]; [rewrite E; left; reflexivity|]. exfalso. apply C, H, B.
  Qed.

  Lemma done_in_true done key : In key done -> done_in done key = true.
  Proof. intros H. unfold done_in. apply existsb_exists. exists key. split; [exact H | apply bytes_eqb_refl]. Qed.

  (* ---- the record loop ---- *)
  Section RecLoop.
    Variables (f K n : nat) (zv tv : value).
    Hypothesis Hc : rec_closed K n.
    Hypothesis Hz : zok K n zv.
    Hypothesis Ht : typed (TRef n) tv.
    Hypothesis Hnd : NoDup (names K n).

    Definition slot_ok (tx : ty * value) (d : doc) : Prop := elem_ok (Dec f (fst tx)) (expect (snd tx) f (fst tx)) d.

    Lemma rec_loop_ok : forall sl ents, Forall2 (entry_rel slot_ok) sl ents ->
      (forall key ty x, In (key, (ty, x)) sl -> In (key, (ty, x)) (slots K n tv)) ->
      forall kk done rv0 rem tr rest, length ents < kk -> rv0 = merge f done K n zv tv ->
      rec_loop (umf_ (Dec f) K n) kk rv0 rem (cur true (join_bytes [x2c] (map entR ents) ++ x29 :: rest) tr)
      = Ok (merge f (rev (map fst sl) ++ done) K n zv tv, fold_left (fun r key => remove_bytes key r) (map fst sl) rem,
            cur true rest tr).
    Proof.
      induction 1 as [|[key [ty x]] [kd d] sl ents [Hk Hx] HF IH]; intros Hsub kk done rv0 rem tr rest Hlen ->.
      - destruct kk as [|k]; [lia|]. cbn [map join_bytes app rev fold_left]. rewrite rec_loop_S.
        unfold check_not_at_end, idx. rewrite r_rest_cur. cbn [bind]. rewrite advance1_cur. reflexivity.
      - destruct kk as [|k]; [lia|]. cbn [fst snd] in Hk, Hx. subst kd. unfold slot_ok in Hx. cbn [fst snd] in Hx.
        assert (Hin : In (key, (ty, x)) (slots K n tv)) by (apply Hsub; left; reflexivity).
        assert (Hsub' : forall key ty x, In (key, (ty, x)) sl -> In (key, (ty, x)) (slots K n tv)).
        { intros. apply Hsub. right. assumption. }
        destruct ents as [|e2 ents].
        + inversion HF; subst. cbn [map join_bytes entR]. rewrite <- !app_assoc. cbn [app].
          rewrite rec_loop_step.
          rewrite (umf_found (Dec f) f done key _ ty x _ (Hx _ _ (ds_close rest)) K n zv tv Hc Hz Ht Hnd Hin).
          cbn [bind]. rewrite r_tr_cur, with_tr_cur, pop_push, read_after_close. cbn [bind]. reflexivity.
        + cbn [map]. rewrite join_cons2. cbn [entR]. rewrite <- !app_assoc. cbn [app].
          rewrite rec_loop_step.
          rewrite (umf_found (Dec f) f done key _ ty x _ (Hx _ _ (ds_comma _)) K n zv tv Hc Hz Ht Hnd Hin).
          cbn [bind]. rewrite r_tr_cur, with_tr_cur, pop_push, read_after_comma. cbn [bind].
          change (entR e2 :: map entR ents) with (map entR (e2 :: ents)).
          rewrite (IH Hsub' k (key :: done) _ (remove_bytes key rem) tr rest ltac:(simpl in *; lia) eq_refl).
          cbn [map fst rev fold_left]. rewrite <- app_assoc. reflexivity.
    Qed.
  End RecLoop.
  Section Cases.
    Variable Pt : ty -> Prop.
    Hypothesis Pt_arr : forall t, Pt (TArray t) -> Pt t.
    Hypothesis Pt_map : forall t, Pt (TMap t) -> Pt t.
    Hypothesis Pt_enum : forall syms, Pt (TEnum syms) -> NoDup syms.
    (* side condition on the tracker at the start of the input (only records look at it) *)
    Variable Mt : bool -> tracker -> Prop.
    Hypothesis Mt_true : forall tr, Mt true tr.

    Definition RT (fe : nat) : Prop :=
      forall scope t v d, Pt t -> typed t v -> Enc fe scope t v = Ok d ->
      forall fd c tr rest, vsize v <= fd -> ctx d c rest -> Mt c tr ->
      Dec fd t (cur c (R d ++ rest) tr) = Ok (expect v fd t, cur true rest tr).

    Lemma RT_elem fe t' f v d : RT fe -> Pt t' -> typed t' v -> enc_any fe t' v d -> vsize v <= f ->
      elem_ok (Dec f t') (expect v f t') d.
    Proof.
      intros H Hp Ht [sc He] Hs tr rest Hr. apply (H sc t' v d Hp Ht He f true tr rest Hs); [apply ctx_delim, Hr | apply Mt_true].
    Qed.

    Lemma case_prim fe scope p v d : typed (TPrim p) v -> Enc (S fe) scope (TPrim p) v = Ok d ->
      forall fd c tr rest, vsize v <= fd -> ctx d c rest ->
      Dec fd (TPrim p) (cur c (R d ++ rest) tr) = Ok (expect v fd (TPrim p), cur true rest tr).
    Proof.
      intros Ht He fd c tr rest Hs Hc. pose proof (vsize_pos v). destruct fd as [|f]; [lia|].
      assert (Hd : d = DLeaf (prim_leaf v)) by (inversion Ht; subst; cbn in He; injection He as <-; reflexivity).
      subst d. rewrite decR_prim. cbn [render_ror2]. cbn [ctx] in Hc. rewrite (rprim_ok p v c rest tr Ht Hc).
      inversion Ht; reflexivity.
    Qed.

    Lemma case_enum fe scope syms v d : Pt (TEnum syms) -> typed (TEnum syms) v -> Enc (S fe) scope (TEnum syms) v = Ok d ->
      forall fd c tr rest, vsize v <= fd -> ctx d c rest ->
      Dec fd (TEnum syms) (cur c (R d ++ rest) tr) = Ok (expect v fd (TEnum syms), cur true rest tr).
    Proof.
      intros Hp Ht He fd c tr rest Hs Hc. pose proof (vsize_pos v). destruct fd as [|f]; [lia|].
      inversion Ht; subst. cbn in He. destruct k as [|i]; [discriminate|].
      destruct (nth_error syms i) as [s|] eqn:En; [|discriminate]. injection He as <-.
      rewrite decR_enum. cbn [render_ror2 ror2_leaf]. cbn [ctx] in Hc. rewrite (read_string_ok fl c s rest tr Hc). cbn [bind].
      unfold enum_value. rewrite (index_of_nth syms (Pt_enum _ Hp) i s 0 En). reflexivity.
    Qed.

    Lemma case_fixed fe scope n v d : typed (TFixed n) v -> Enc (S fe) scope (TFixed n) v = Ok d ->
      forall fd c tr rest, vsize v <= fd -> ctx d c rest ->
      Dec fd (TFixed n) (cur c (R d ++ rest) tr) = Ok (expect v fd (TFixed n), cur true rest tr).
    Proof.
      intros Ht He fd c tr rest Hs Hc. pose proof (vsize_pos v). destruct fd as [|f]; [lia|].
      inversion Ht; subst. cbn in He. injection He as <-.
      rewrite decR_fixed. cbn [render_ror2 ror2_leaf]. cbn [ctx] in Hc. rewrite (read_string_ok fl c s rest tr Hc). cbn [bind].
      rewrite Nat.eqb_refl. reflexivity.
    Qed.

    Lemma case_arr fe scope t' v d : RT fe -> Pt (TArray t') -> typed (TArray t') v -> Enc (S fe) scope (TArray t') v = Ok d ->
      forall fd c tr rest, vsize v <= fd ->
      Dec fd (TArray t') (cur c (R d ++ rest) tr) = Ok (expect v fd (TArray t'), cur true rest tr).
    Proof.
      intros HRT Hp Ht He fd c tr rest Hs. inversion Ht as [| | | | | | | | |? l Hall| | |]; subst.
      destruct fd as [|f]; [simpl in Hs; lia|]. cbn [vsize] in Hs.
      rewrite enc_arr in He. destruct (mapM _ l) as [ds| |] eqn:Em; try discriminate. cbn [bind] in He. injection He as <-.
      apply mapM_Forall2 in Em.
      rewrite decR_arr, render_arr, <- !app_assoc.
      rewrite at_array_ok by (destruct (join_bytes _ _); discriminate). cbn [negb]. cbv zeta.
      rewrite advance_prefix, expect_arr.
      destruct ds as [|d1 ds].
      - inversion Em; subst. cbn [map join_bytes app]. unfold idx. rewrite r_rest_cur. cbn [bind].
        rewrite advance1_cur. reflexivity.
      - destruct (render_head d1) as (c1 & r1 & E1 & Hc1).
        assert (Hidx : idx (cur true (join_bytes [x2c] (map R (d1 :: ds)) ++ [x29] ++ rest) tr) = Ok c1).
        { unfold idx. rewrite r_rest_cur. destruct ds; cbn [map join_bytes]; rewrite E1; reflexivity. }
        rewrite Hidx. cbn [bind]. rewrite Hc1.
        assert (Hlen : length l = length (d1 :: ds)) by (eapply Forall2_len; exact Em).
        assert (Hll : length l <= list_sum (map (fun x => S (vsize x)) l)) by (apply list_sum_len; intros; lia).
        change ([x29] ++ rest) with (x29 :: rest).
        rewrite (arr_loop_ok (Dec f t') (map (fun x => expect x f t') l) (d1 :: ds)); [reflexivity| |discriminate|lia].
        apply Forall2_map_l. eapply Forall2_impl_in; [|exact Em]. intros a b Hin Hab. cbv beta in Hab.
        apply (RT_elem fe); [exact HRT | apply Pt_arr, Hp | rewrite Forall_forall in Hall; apply Hall, Hin | eexists; exact Hab |].
        pose proof (list_sum_in (fun x => S (vsize x)) l a Hin). cbv beta in *. lia.
    Qed.
    Lemma case_map fe scope t' v d : RT fe -> Pt (TMap t') -> typed (TMap t') v -> Enc (S fe) scope (TMap t') v = Ok d ->
      forall fd c tr rest, vsize v <= fd ->
      Dec fd (TMap t') (cur c (R d ++ rest) tr) = Ok (expect v fd (TMap t'), cur true rest tr).
    Proof.
      intros HRT Hp Ht He fd c tr rest Hs. inversion Ht as [| | | | | | | | | |? es Hnd Hall| |]; subst.
      destruct fd as [|f]; [simpl in Hs; lia|]. cbn [vsize] in Hs.
      rewrite enc_map in He. destruct (enc_map_go fe scope t' es) as [ents| |] eqn:Eg; try discriminate.
      cbn [bind] in He. injection He as <-.
      apply enc_map_go_rel in Eg. pose proof (Forall2_len _ _ _ Eg) as Hlen.
      apply sort_entries_rel in Eg.
      set (gsz := fun kv : bytes * value => let '(_, x) := kv in S (vsize x)) in *.
      assert (Hll : length es <= list_sum (map gsz es)) by (apply list_sum_len; intros [k x]; simpl; lia).
      rewrite decR_map, render_obj. cbn [app].
      replace (at_map (cur c (x28 :: join_bytes [x2c] (map entR (sort_entries ents)) ++ [x29] ++ rest) tr)) with true by reflexivity.
      cbn [negb]. rewrite <- app_assoc. change ([x29] ++ rest) with (x29 :: rest). rewrite advance_open, expect_map.
      set (X := fun x => expect x f t').
      rewrite (map_loop_ok (Dec f t') (map (map_val X) (sort_entries es)) (sort_entries ents)).
      - cbn [app]. rewrite sort_entries_map, sort_entries_idem; [reflexivity|]. rewrite map_val_keys. exact Hnd.
      - apply Forall2_map_l. eapply Forall2_impl_in; [|exact Eg]. intros [k x] [k' d'] Hin [Hk Hab]. cbn [fst snd] in *.
        split; [exact Hk|]. cbn [map_val snd].
        assert (Hin' : In (k, x) es) by (eapply Permutation_in; [apply sort_entries_perm | exact Hin]).
        apply (RT_elem fe); [exact HRT | apply Pt_map, Hp | rewrite Forall_forall in Hall; apply (Hall _ Hin') | exact Hab |].
        pose proof (list_sum_in gsz es (k, x) Hin'). cbn in H. lia.
      - rewrite sort_entries_length. lia.
      - cbn [map app]. rewrite map_val_keys. apply sort_entries_keys_nodup, Hnd.
    Qed.

    (* ---- unions ---- *)
    Hypothesis Pt_union : forall n nullable ms, Pt (TRef n) -> lookup e n = Some (DUnion nullable ms) ->
      NoDup (map fst ms) /\ Forall (fun m => Pt (snd m)) ms.

    Lemma union_loop_step dec ms k uv key more tr j mt alias' :
      index_of key (map fst ms) 0 = Some j -> nth_error ms j = Some (alias', mt) ->
      union_loop dec ms (S k) uv false (cur true (rstr fl key ++ x3a :: more) tr) =
      do rr <- dec mt (cur true more (push (SKey key) tr));
      let '(v, s2) := rr in
      do a <- read_after (with_tr s2 (pop (r_tr s2)));
      match a with
      | Continue s3 => union_loop dec ms k (set_nth j (Some v) uv) true s3
      | Done s3 => Ok (set_nth j (Some v) uv, true, s3)
      end.
    Proof.
      intros Hi Hn. rewrite union_loop_S, read_field_name_ok.
      destruct (tokfree4_head _ (rstr_free4 fl key) (rstr_nonempty fl key)) as (c0 & r0 & E & Hc & _).
      unfold check_not_at_end, idx. rewrite r_rest_cur, E. cbn [app bind]. rewrite Hc.
      rewrite r_tr_cur, enter_map_ok. cbn [bind]. rewrite Hi, Hn, with_tr_cur. reflexivity.
    Qed.

    Lemma case_union fe scope n vs d : RT fe -> Pt (TRef n) -> typed (TRef n) (VUnion vs) ->
      Enc (S fe) scope (TRef n) (VUnion vs) = Ok d ->
      forall fd c tr rest, vsize (VUnion vs) <= fd ->
      Dec fd (TRef n) (cur c (R d ++ rest) tr) = Ok (expect (VUnion vs) fd (TRef n), cur true rest tr).
    Proof.
      intros HRT Hp Ht He fd c tr rest Hs. inversion Ht as [| | | | | | | | | | | |? nullable ms ? Hl HF]; subst.
      destruct fd as [|f]; [simpl in Hs; lia|]. cbn [vsize] in Hs.
      destruct (Pt_union _ _ _ Hp Hl) as [Hnd HPm].
      rewrite enc_union, Hl in He. destruct (enc_union_go fe scope ms vs false) as [[ents b]| |] eqn:Eg; try discriminate.
      cbn [bind fst snd] in He. destruct (negb nullable && negb b) eqn:En; [discriminate|]. injection He as <-.
      rewrite (decR_union f n nullable ms _ Hl), render_obj, (expect_union vs f n nullable ms Hl).
      destruct (enc_union_go_unset _ _ _ _ _ Eg) as [[E1 ->]|(j & alias & mt & x & d & Hn & -> & Hed & E1)];
        injection E1 as -> ->.
      - cbn [sort_entries map join_bytes app].
        replace (at_map (cur c (x28 :: x29 :: rest) tr)) with true by reflexivity. cbn [negb]. rewrite advance_open.
        destruct f as [|k]; [lia|]. rewrite union_loop_S. unfold check_not_at_end, idx. rewrite r_rest_cur. cbn [bind].
        rewrite advance1_cur. rewrite byte_eqb_refl. cbn [bind]. rewrite En, expect_union_nones. reflexivity.
      - cbn [sort_entries insert_entry map join_bytes entR]. rewrite <- !app_assoc. cbn [app].
        match goal with |- context [at_map ?s] => replace (at_map s) with true by reflexivity end. cbn [negb].
        rewrite advance_open.
        assert (Hj : j < length (nones ms)).
        { unfold nones. rewrite map_length. apply nth_error_Some. rewrite Hn. discriminate. }
        assert (Hvx : nth_error (set_nth j (Some x) (nones ms)) j = Some (Some x)) by (apply nth_error_set_nth, Hj).
        pose proof (Forall2_nth _ _ _ _ _ _ HF Hn Hvx x eq_refl) as Htx. cbn [snd] in Htx.
        assert (Hpm : Pt mt). { rewrite Forall_forall in HPm. apply (HPm (alias, mt)). eapply nth_error_In, Hn. }
        assert (Hsz : vsize x <= f).
        { pose proof (list_sum_in (osize vsize) _ _ (nth_error_In _ _ Hvx)) as A. cbn [osize] in A. lia. }
        assert (Hi : index_of alias (map fst ms) 0 = Some j).
        { rewrite (index_of_nth _ Hnd j alias 0); [reflexivity|]. rewrite (map_nth_error fst j ms Hn). reflexivity. }
        destruct f as [|k]; [pose proof (vsize_pos x); lia|].
        rewrite (union_loop_step _ _ _ _ _ _ _ _ _ _ Hi Hn).
        rewrite (HRT _ mt x d Hpm Htx Hed (S k) true _ (x29 :: rest) Hsz (ctx_delim _ _ (ds_close rest)) (Mt_true _)).
        cbn [bind]. rewrite r_tr_cur, with_tr_cur, pop_push, read_after_close. cbn [bind].
        rewrite andb_false_r. rewrite (expect_union_set (S k) ms j (alias, mt) x Hn). reflexivity.
    Qed.

    (* ---- records ---- *)
    Definition RTs (fe : nat) : Prop := forall fe', fe' <= fe -> RT fe'.
    Hypothesis Pt_rec : forall m incs fs, lookup e m = Some (DRecord incs fs) -> Forall (fun fd => Pt (f_ty fd)) fs.
    Hypothesis env_rec : forall n incs fs, lookup e n = Some (DRecord incs fs) ->
      rec_closed (S (length e)) n /\ NoDup (names (S (length e)) n).
    Hypothesis Mt_rec : forall c tr, Mt c tr -> c = true \/ t_missing tr = [].

    Lemma case_rec fe scope n vi vf d : RTs fe -> typed (TRef n) (VRec vi vf) ->
      Enc (S fe) scope (TRef n) (VRec vi vf) = Ok d ->
      forall fd c tr rest, vsize (VRec vi vf) <= fd -> Mt c tr ->
      Dec fd (TRef n) (cur c (R d ++ rest) tr) = Ok (expect (VRec vi vf) fd (TRef n), cur true rest tr).
    Proof.
      intros HRT Ht He fd c tr rest Hs Hm.
      inversion Ht as [| | | | | | | | | | |? incs fs ? ? Hl Hti Htf|]; subst.
      destruct fd as [|f]; [simpl in Hs; lia|].
      destruct (env_rec _ _ _ Hl) as [Hc Hnd]. remember (S (length e)) as K eqn:EK.
      destruct (enc_slots K fe n _ scope d Hc Ht He) as (ents & L & -> & Hp & HF).
      destruct (Forall2_perm _ _ _ (Permutation_sym Hp) _ HF) as (sl & Hps & HFs).
      assert (Hsub : forall key ty x, In (key, (ty, x)) sl -> In (key, (ty, x)) (slots K n (VRec vi vf))).
      { intros. eapply Permutation_in; [apply Permutation_sym, Hps | assumption]. }
      assert (Hlen : length ents < f).
      { rewrite <- (Forall2_len _ _ _ HFs), <- (Permutation_length Hps). cbn [vsize] in Hs.
        destruct (slots_len K n (VRec vi vf)) as [A|A]; [cbn [vsize] in A; lia | rewrite A; cbn [length]; lia]. }
      assert (Hok : Forall2 (entry_rel (slot_ok f)) sl ents).
      { eapply Forall2_impl_in; [|exact HFs]. intros [key [ty x]] [kd dd] Hin [Hk (fe' & sc & Hle & Hee)]. cbn [fst snd] in *.
        split; [exact Hk|]. unfold slot_ok; cbn [fst snd]. apply Hsub in Hin.
        destruct (slots_typed _ _ _ K n _ Ht Hin) as [Htx (m & mi & mf & fd0 & Hlm & Hfd & Hty)].
        assert (Hpt : Pt ty). { subst ty. pose proof (Pt_rec _ _ _ Hlm) as A. rewrite Forall_forall in A. apply A, Hfd. }
        pose proof (slots_vsize _ _ _ K n _ Hin) as Hsz.
        apply (RT_elem fe'); [apply HRT, Hle | exact Hpt | exact Htx | exists sc; exact Hee | lia]. }
      assert (Hz : zok K n (zero_value e (S K) (TRef n))) by (apply zero_value_zok; [lia | exact Hc]).
      rewrite (decR_rec f n incs fs _ Hl). unfold rec_rhs. rewrite render_obj. cbn [app].
      match goal with |- context [at_map ?s] => replace (at_map s) with true by reflexivity end. cbn [negb].
      rewrite <- app_assoc. change ([x29] ++ rest) with (x29 :: rest). rewrite advance_open. rewrite <- EK.
      rewrite (rec_loop_ok f K n _ (VRec vi vf) Hc Hz Ht Hnd sl ents Hok Hsub f [] _ _ tr rest Hlen
                 (eq_sym (merge_nil f K n _ _ Hc Hz Ht))).
      cbn [bind]. rewrite r_tr_cur, with_tr_cur.
      rewrite remove_all.
      2:{ intros y Hy. destruct (req_slots y K n _ Ht Hy) as (ty & x & Hin).
          apply (Permutation_in _ Hps) in Hin. apply (in_map fst) in Hin. exact Hin. }
      rewrite record_missing_nil. cbv zeta.
      rewrite (merge_all f _ K n _ _ Hc Hz Ht).
      2:{ intros key ty x Hin. apply done_in_true. rewrite app_nil_r. apply -> in_rev.
          apply (Permutation_in _ Hps) in Hin. apply (in_map fst) in Hin. exact Hin. }
      rewrite (expect_body_rec f n incs fs vi vf Hl), (expect_rec f n incs fs vi vf Hl).
      cbn [r_consumed cur].
      assert (Hr : negb c && negb qr && negb (match t_missing tr with [] => true | _ :: _ => false end) = false).
      { destruct (Mt_rec _ _ Hm) as [-> | Hmiss]; [reflexivity | rewrite Hmiss; apply andb_false_r]. }
      rewrite Hr. cbn [orb]. destruct (own_has_default fs); reflexivity.
    Qed.
  End Cases.


  (* ---- L3: types without records / unions ---- *)
  Fixpoint noref (t : ty) : Prop :=
    match t with
    | TRef _ => False
    | TArray t' | TMap t' => noref t'
    | _ => True
    end.
  Definition Pt3 (t : ty) : Prop := wf_ty t /\ noref t.

  Lemma Pt3_arr t : Pt3 (TArray t) -> Pt3 t. Proof. exact (fun H => H). Qed.
  Lemma Pt3_map t : Pt3 (TMap t) -> Pt3 t. Proof. exact (fun H => H). Qed.
  Lemma Pt3_enum syms : Pt3 (TEnum syms) -> NoDup syms. Proof. intros [H _]. exact H. Qed.


  Theorem rt3 : forall fe, RT Pt3 (fun _ _ => True) fe.
  Proof.
    induction fe as [|fe IH]; intros scope t v d Hp Ht He fd c tr rest Hs Hc Hm.
    - rewrite enc_0 in He. discriminate.
    - destruct t as [p|syms|n|n|t'|t'].
      + eapply case_prim; eassumption.
      + eapply (case_enum Pt3 Pt3_enum); eassumption.
      + eapply case_fixed; eassumption.
      + destruct Hp as [_ []].
      + eapply (case_arr Pt3 Pt3_arr (fun _ _ => True) (fun _ => I)); eassumption.
      + eapply (case_map Pt3 Pt3_map (fun _ _ => True) (fun _ => I)); eassumption.
  Qed.


  Lemma expect_arr' l fd t' : expect (VArr l) fd (TArray t') = VArr (map (fun x => expect x (pred fd) t') l).
  Proof. reflexivity. Qed.
  Lemma expect_map' es fd t' :
    expect (VMap es) fd (TMap t') = VMap (sort_entries (map (map_val (fun x => expect x (pred fd) t')) es)).
  Proof. reflexivity. Qed.
  Lemma canon_map es : canon (VMap es) = VMap (sort_entries (map (map_val canon) es)).
  Proof. reflexivity. Qed.

  Lemma expect_canon t : noref t -> forall v, typed t v -> forall fd, expect v fd t = canon v.
  Proof.
    induction t as [p|syms|n|n|t' IH|t' IH]; intros Hn v Ht fd; inversion Ht; subst; try reflexivity.
    - destruct Hn.
    - destruct Hn.
    - rewrite expect_arr'. cbn [canon]. f_equal. apply map_ext_in. intros a Ha.
      apply IH; [exact Hn|]. match goal with H : Forall _ _ |- _ => rewrite Forall_forall in H; apply H, Ha end.
    - rewrite expect_map', canon_map. do 2 f_equal. apply map_ext_in. intros [k a] Ha. cbn [map_val]. f_equal.
      apply IH; [exact Hn|]. match goal with H : Forall _ _ |- _ => rewrite Forall_forall in H; apply (H _ Ha) end.
  Qed.

  (* L3, final form *)
  Theorem ror2_roundtrip_noref fe scope t v d fd c tr rest :
    wf_ty t -> noref t -> typed t v -> Enc fe scope t v = Ok d -> vsize v <= fd -> ctx d c rest ->
    Dec fd t (cur c (R d ++ rest) tr) = Ok (canon v, cur true rest tr).
  Proof.
    intros Hw Hn Ht He Hs Hc. rewrite <- (expect_canon t Hn v Ht fd).
    exact (rt3 fe scope t v d (conj Hw Hn) Ht He fd c tr rest Hs Hc I).
  Qed.


  (* ---- L4: all types ---- *)
  (* schema well-formedness: includes are acyclic (nesting depth at most the number of definitions), the field names of a
     record and its includes are pairwise distinct, union aliases are distinct, enum symbols are distinct *)
  Definition wf_env : Prop :=
    (forall n incs fs, lookup e n = Some (DRecord incs fs) ->
       rec_closed (S (length e)) n /\ NoDup (names (S (length e)) n) /\ Forall (fun fd => wf_ty (f_ty fd)) fs) /\
    (forall n nullable ms, lookup e n = Some (DUnion nullable ms) ->
       NoDup (map fst ms) /\ Forall (fun m => wf_ty (snd m)) ms).
  (* at position 0 (the top-level value) the reader's missing-field list is still empty *)
  Definition Mt4 (c : bool) (tr : tracker) : Prop := c = true \/ t_missing tr = [].

  Theorem rt4 : wf_env -> forall fe, RTs wf_ty Mt4 fe.
  Proof.
    intros [Hwr Hwu].
    assert (HMt : forall tr, Mt4 true tr) by (intros; left; reflexivity).
    assert (HPr : forall m incs fs, lookup e m = Some (DRecord incs fs) -> Forall (fun fd => wf_ty (f_ty fd)) fs).
    { intros m incs fs Hl. apply (Hwr _ _ _ Hl). }
    assert (HEr : forall n incs fs, lookup e n = Some (DRecord incs fs) ->
                  rec_closed (S (length e)) n /\ NoDup (names (S (length e)) n)).
    { intros n incs fs Hl. destruct (Hwr _ _ _ Hl) as (A & B & _). auto. }
    assert (HPu : forall n nullable ms, wf_ty (TRef n) -> lookup e n = Some (DUnion nullable ms) ->
                  NoDup (map fst ms) /\ Forall (fun m => wf_ty (snd m)) ms).
    { intros n nullable ms _ Hl. apply (Hwu _ _ _ Hl). }
    induction fe as [|fe IH]; intros fe' Hle.
    - replace fe' with 0 by lia. intros scope t v d Hp Ht He. rewrite enc_0 in He. discriminate.
    - destruct (Nat.eq_dec fe' (S fe)) as [->|Hne]; [|apply IH; lia].
      intros scope t v d Hp Ht He fd c tr rest Hs Hc Hm.
      destruct t as [p|syms|n|n|t'|t'].
      + eapply case_prim; eassumption.
      + eapply (case_enum wf_ty (fun syms H => H)); eassumption.
      + eapply case_fixed; eassumption.
      + inversion Ht; subst.
        * eapply (case_rec wf_ty Mt4 HMt HPr HEr (fun c tr H => H)); eassumption.
        * eapply (case_union wf_ty Mt4 HMt HPu); try eassumption. apply IH. lia.
      + eapply (case_arr wf_ty (fun t H => H) Mt4 HMt); try eassumption. apply IH. lia.
      + eapply (case_map wf_ty (fun t H => H) Mt4 HMt); try eassumption. apply IH. lia.
  Qed.

  (* L4, final form *)
  Theorem ror2_roundtrip fe scope t v d fd c tr rest :
    wf_env -> wf_ty t -> typed t v -> Enc fe scope t v = Ok d -> vsize v <= fd -> ctx d c rest ->
    (c = true \/ t_missing tr = []) ->
    Dec fd t (cur c (R d ++ rest) tr) = Ok (expect v fd t, cur true rest tr).
  Proof.
    intros Hw Hwt Ht He Hs Hc Hm. exact (rt4 Hw fe fe (le_n _) scope t v d Hwt Ht He fd c tr rest Hs Hc Hm).
  Qed.


  (* ---- the top-level wrapper decode_ror2: the parenthesis pre-check accepts every rendering ---- *)
  Lemma doc_ind' (P : doc -> Prop) :
    (forall l, P (DLeaf l)) -> (forall ds, Forall P ds -> P (DArr ds)) ->
    (forall ents, Forall (fun kd => P (snd kd)) ents -> P (DObj ents)) -> forall d, P d.
  Proof.
    intros Hl Ha Ho. fix IH 1. intros [l|ds|ents].
    - apply Hl.
    - apply Ha. induction ds as [|d r IHr]; constructor; [apply IH | exact IHr].
    - apply Ho. induction ents as [|[k d] r IHr]; constructor; [apply IH | exact IHr].
  Qed.

  Lemma validate_tok k tok rest : tokfree4 tok -> validate_ror2 k (tok ++ rest) = validate_ror2 k rest.
  Proof.
    induction tok as [|c tok IH]; intros Hf; [reflexivity|]. apply tokfree4_cons in Hf as [Hf Hc].
    cbn [app validate_ror2]. rewrite (Hc x28), (Hc x29) by (simpl; tauto). apply IH, Hf.
  Qed.
  Lemma validate_prefix k m : validate_ror2 k (v2_list_prefix ++ m) = validate_ror2 (S k) m.
  Proof. reflexivity. Qed.

  Definition val_ok (d : doc) : Prop := forall k rest, validate_ror2 k (R d ++ rest) = validate_ror2 k rest.

  Lemma validate_render : forall d, val_ok d.
  Proof.
    apply doc_ind'.
    - intros l k rest. cbn [render_ror2]. apply validate_tok, leaf_tok.
    - intros ds HF k rest. rewrite render_arr, <- !app_assoc, validate_prefix. cbn [app].
      induction HF as [|d ds Hd HF IH]; [reflexivity|].
      destruct ds as [|d2 ds].
      + cbn [map join_bytes]. rewrite Hd. reflexivity.
      + cbn [map]. rewrite join_cons2, <- !app_assoc, Hd. cbn [app]. exact IH.
    - intros ents HF k rest. rewrite render_obj, <- !app_assoc. cbn [app].
      change (validate_ror2 k (x28 :: join_bytes [x2c] (map entR ents) ++ x29 :: rest)) with
        (validate_ror2 (S k) (join_bytes [x2c] (map entR ents) ++ x29 :: rest)).
      induction HF as [|[key d] ents Hd HF IH]; [reflexivity|]. cbn [snd] in Hd.
      destruct ents as [|e2 ents].
      + cbn [map join_bytes entR]. rewrite <- !app_assoc, (validate_tok _ _ _ (rstr_free4 fl key)). cbn [app].
        change (validate_ror2 (S k) (x3a :: R d ++ x29 :: rest)) with (validate_ror2 (S k) (R d ++ x29 :: rest)).
        rewrite Hd. reflexivity.
      + cbn [map]. rewrite join_cons2. cbn [entR]. rewrite <- !app_assoc, (validate_tok _ _ _ (rstr_free4 fl key)). cbn [app].
        match goal with |- validate_ror2 _ (x3a :: ?m) = _ => change (validate_ror2 (S k) (x3a :: m)) with (validate_ror2 (S k) m) end.
        rewrite Hd. exact IH.
  Qed.

  Theorem decode_ror2_roundtrip fe scope t v d fd (qp : option bytes) :
    wf_env -> wf_ty t -> typed t v -> Enc fe scope t v = Ok d -> vsize v <= fd ->
    decode_ror2 e wc ps_empty ignore parseF (unesc fl) v2_empty_string v2_list_prefix qr fd qp t (R d) = DOk (expect v fd t).
  Proof.
    intros Hw Hwt Ht He Hs. unfold decode_ror2.
    pose proof (validate_render d 0 []) as Hv. rewrite app_nil_r in Hv. rewrite Hv. cbn [validate_ror2 negb].
    set (tr := match qp with Some p => {| t_scope := [SKey p]; t_missing := [] |} | None => tracker0 end).
    assert (Hm : t_missing tr = []) by (destruct qp; reflexivity).
    assert (Hc : ctx d false []) by (destruct d; simpl; auto).
    pose proof (ror2_roundtrip fe scope t v d fd false tr [] Hw Hwt Ht He Hs Hc (or_intror Hm)) as E.
    rewrite app_nil_r in E. unfold rinit. fold (cur false (R d) tr). rewrite E. unfold finish. rewrite r_tr_cur, Hm. reflexivity.
  Qed.


  (* ---- characterisation of the expected value ---- *)
  (* default filling: a set slot is kept; an unset slot with a schema default gets the decoded literal *)
  Lemma fill_spec f : forall fs vs j fd ov, nth_error fs j = Some fd -> nth_error vs j = Some ov ->
    nth_error (fill_ f fs vs) j =
    Some (match ov, f_opt fd with None, Default lit => lit_value_ f (f_ty fd) lit | _, _ => ov end).
  Proof.
    induction fs as [|fd0 fs IH]; intros vs j fd ov Hf Hv; [destruct j; discriminate|].
    destruct vs as [|ov0 vs]; [destruct j; discriminate|]. destruct j as [|j]; cbn [fill_ nth_error] in *.
    - injection Hf as <-. injection Hv as <-. reflexivity.
    - apply IH; assumption.
  Qed.
  Lemma fill_length f : forall fs vs, length (fill_ f fs vs) = length vs.
  Proof. induction fs as [|fd fs IH]; intros [|ov vs]; cbn [fill_ length]; try reflexivity. rewrite IH. reflexivity. Qed.

  Lemma expect_rec' fd n incs fs ti tf : lookup e n = Some (DRecord incs fs) ->
    expect (VRec ti tf) fd (TRef n) =
    VRec (eb_incs (pred fd) incs ti)
         (if own_has_default fs then fill_ (pred fd) fs (eb_flds (pred fd) fs tf) else eb_flds (pred fd) fs tf).
  Proof. intros H. cbn [expect]. rewrite H. reflexivity. Qed.
  Lemma expect_union' vs fd n nullable ms : lookup e n = Some (DUnion nullable ms) ->
    expect (VUnion vs) fd (TRef n) = VUnion (expect_union_go (pred fd) ms vs).
  Proof. intros H. cbn [expect]. rewrite H. reflexivity. Qed.

  (* with no schema defaults the expected value is the canonical form of the original value *)
  Definition no_defaults : Prop := forall n incs fs, lookup e n = Some (DRecord incs fs) -> own_has_default fs = false.

  Lemma rec_closed_inc k n incs fs i : rec_closed k n -> lookup e n = Some (DRecord incs fs) -> In i incs ->
    exists k', k = S (S k') /\ exists incs' fs', lookup e i = Some (DRecord incs' fs').
  Proof.
    intros Hc Hl Hi. destruct k as [|k]; [destruct Hc|]. cbn [rec_closed] in Hc. rewrite Hl in Hc.
    rewrite Forall_forall in Hc. specialize (Hc i Hi). destruct k as [|k]; [destruct Hc|]. exists k. split; [reflexivity|].
    cbn [rec_closed] in Hc. destruct (lookup e i) as [[incs' fs'|? ?]|]; try contradiction. eauto.
  Qed.

  Lemma expect_canon_nodef : wf_env -> no_defaults -> forall m v, vsize v <= m ->
    (forall n f vi vf, v = VRec vi vf -> typed (TRef n) v -> expect_body v f n = canon v) /\
    (forall t fd, typed t v -> expect v fd t = canon v).
  Proof.
    intros [Hwr _] Hnd. induction m as [|m IH]; intros v Hs; [pose proof (vsize_pos v); lia|].
    assert (Hflds : forall f fs vf, Forall2 fld_typed fs vf -> list_sum (map (osize vsize) vf) <= m ->
                    eb_flds f fs vf = map (option_map canon) vf).
    { intros f fs vf HF. induction HF as [|fd ov fs vf Hov HF IHf]; intros Hsz; [reflexivity|].
      cbn [map] in Hsz. rewrite list_sum_cons in Hsz. cbn [eb_flds map]. f_equal; [|apply IHf; lia].
      destruct ov as [x|]; [|reflexivity]. cbn [option_map osize] in *. f_equal.
      apply (IH x ltac:(lia)). apply Hov. reflexivity. }
    assert (Hincs : forall f n incs fs vi, lookup e n = Some (DRecord incs fs) ->
                    Forall2 (fun i iv => typed (TRef i) iv) incs vi -> list_sum (map (fun x => S (vsize x)) vi) <= m ->
                    eb_incs f incs vi = map canon vi).
    { intros f n incs fs vi Hl HF.
      assert (Hrec : forall i, In i incs -> exists incs' fs', lookup e i = Some (DRecord incs' fs')).
      { intros i Hi. destruct (Hwr _ _ _ Hl) as (Hc & _). destruct (rec_closed_inc _ _ _ _ i Hc Hl Hi) as (_ & _ & A). exact A. }
      clear Hl. induction HF as [|i iv incs vi Hiv HF IHi]; intros Hsz; [reflexivity|].
      cbn [map] in Hsz. rewrite list_sum_cons in Hsz. cbn [eb_incs map]. f_equal.
      - destruct (Hrec i (or_introl eq_refl)) as (incs' & fs' & Hli).
        destruct (typed_rec_inv _ _ _ _ Hiv Hli) as (vi' & vf' & E & _). 
        apply (proj1 (IH iv ltac:(lia)) i f vi' vf' E Hiv).
      - apply IHi; [intros; apply Hrec; right; assumption | lia]. }
    assert (Hbody : forall n f vi vf, v = VRec vi vf -> typed (TRef n) v -> expect_body v f n = canon v).
    { intros n f vi vf -> Ht. inversion Ht as [| | | | | | | | | | |? incs fs ? ? Hl Hti Htf|]; subst.
      cbn [vsize] in Hs. rewrite (expect_body_rec f n incs fs vi vf Hl). cbn [canon]. f_equal.
      - apply (Hincs f n incs fs vi Hl Hti). lia.
      - apply Hflds; [exact Htf | lia]. }
    split; [exact Hbody|].
    intros t fd Ht. inversion Ht as [| | | | | | | | |? l Hall|? es Hnd' Hall|? incs fs vi vf Hl Hti Htf|? nullable ms vs Hl HF];
      subst; try reflexivity.
    - rewrite expect_arr'. cbn [canon]. f_equal. apply map_ext_in. intros a Ha. cbn [vsize] in Hs.
      pose proof (list_sum_in (fun x => S (vsize x)) l a Ha). cbv beta in *.
      apply (IH a ltac:(lia)). rewrite Forall_forall in Hall. apply Hall, Ha.
    - rewrite expect_map', canon_map. do 2 f_equal. apply map_ext_in. intros [k a] Ha. cbn [map_val]. f_equal.
      cbn [vsize] in Hs. pose proof (list_sum_in (fun kv : bytes * value => let '(_, x) := kv in S (vsize x)) es (k, a) Ha) as A.
      cbv beta iota in A. apply (IH a ltac:(lia)). rewrite Forall_forall in Hall. apply (Hall _ Ha).
    - rewrite (expect_rec' fd n incs fs vi vf Hl), (Hnd _ _ _ Hl). cbn [vsize] in Hs. cbn [canon]. f_equal.
      + apply (Hincs _ n incs fs vi Hl Hti). lia.
      + apply Hflds; [exact Htf | lia].
    - rewrite (expect_union' vs fd n nullable ms Hl). cbn [canon]. f_equal. cbn [vsize] in Hs.
      assert (Hsz : list_sum (map (osize vsize) vs) <= m) by lia. clear Hs Ht Hl Hbody.
      induction HF as [|mm ov ms vs Hov HF IHu]; [reflexivity|].
      cbn [map] in Hsz. rewrite list_sum_cons in Hsz. cbn [expect_union_go map]. f_equal; [|apply IHu; lia].
      destruct ov as [x|]; [|reflexivity]. cbn [option_map osize] in *. f_equal. apply (IH x ltac:(lia)). apply Hov. reflexivity.
  Qed.

  Theorem expect_is_canon t v fd : wf_env -> no_defaults -> typed t v -> expect v fd t = canon v.
  Proof. intros Hw Hn Ht. exact (proj2 (expect_canon_nodef Hw Hn (vsize v) v (le_n _)) t fd Ht). Qed.
End RT.

(* ======================================================================================================
   Final forms (the strconv facts bundled as one premise)
   ====================================================================================================== *)
Definition float_oracle_ok (fmtF : bool -> N -> bytes) (parseF : nat -> bytes -> option N) : Prop :=
  (forall is32 b, fmtF is32 b <> []) /\
  (forall b, (b < 2 ^ 64)%N -> classify_float false b <> FNaN -> parseF 0 (float_text fmtF false b) = Some b) /\
  (forall b, (b < 2 ^ 32)%N -> classify_float true b <> FNaN -> parseF 1 (float_text fmtF true b) = Some b).

Local Notation render fmtF fl := (render_ror2 fmtF v2_hex_chars v2_unescaped_path_chars v2_unescaped_query_chars
                                    v2_header_escaped_chars v2_empty_string v2_list_prefix fl).

Theorem L2_primitive fmtF parseF e fl p v c rest tr :
  float_oracle_ok fmtF parseF -> typed e (TPrim p) v -> tok_ctx c rest ->
  rprim parseF (unescape (plus_of fl)) v2_empty_string p
    (cur c (ror2_leaf fmtF v2_hex_chars v2_unescaped_path_chars v2_unescaped_query_chars v2_header_escaped_chars
              v2_empty_string fl (prim_leaf v) ++ rest) tr)
  = Ok (v, cur true rest tr).
Proof. intros (A & B & C). apply rprim_ok; assumption. Qed.

Theorem L3_noref fmtF parseF e wc ignore fl qr fe scope t v d fd c tr rest :
  float_oracle_ok fmtF parseF ->
  wf_ty t -> noref t -> typed e t v -> enc e wc ps_empty fe scope t v = Ok d -> vsize v <= fd -> ctx d c rest ->
  decR e wc ps_empty ignore parseF (unescape (plus_of fl)) v2_empty_string v2_list_prefix qr fd t
    (cur c (render fmtF fl d ++ rest) tr)
  = Ok (canon v, cur true rest tr).
Proof. intros (A & B & C). apply ror2_roundtrip_noref; assumption. Qed.

Theorem L4_all fmtF parseF e wc ignore fl qr fe scope t v d fd c tr rest :
  float_oracle_ok fmtF parseF ->
  wf_env e -> wf_ty t -> typed e t v -> enc e wc ps_empty fe scope t v = Ok d -> vsize v <= fd -> ctx d c rest ->
  (c = true \/ t_missing tr = []) ->
  decR e wc ps_empty ignore parseF (unescape (plus_of fl)) v2_empty_string v2_list_prefix qr fd t
    (cur c (render fmtF fl d ++ rest) tr)
  = Ok (expect parseF e wc ignore v fd t, cur true rest tr).
Proof. intros (A & B & C). apply ror2_roundtrip; assumption. Qed.

Theorem L4_toplevel fmtF parseF e wc ignore fl qr fe scope t v d fd qp :
  float_oracle_ok fmtF parseF ->
  wf_env e -> wf_ty t -> typed e t v -> enc e wc ps_empty fe scope t v = Ok d -> vsize v <= fd ->
  decode_ror2 e wc ps_empty ignore parseF (unescape (plus_of fl)) v2_empty_string v2_list_prefix qr fd qp t (render fmtF fl d)
  = DOk (expect parseF e wc ignore v fd t).
Proof. intros (A & B & C). apply decode_ror2_roundtrip; assumption. Qed.

Theorem L4_toplevel_nodefaults fmtF parseF e wc ignore fl qr fe scope t v d fd qp :
  float_oracle_ok fmtF parseF ->
  wf_env e -> no_defaults e -> wf_ty t -> typed e t v -> enc e wc ps_empty fe scope t v = Ok d -> vsize v <= fd ->
  decode_ror2 e wc ps_empty ignore parseF (unescape (plus_of fl)) v2_empty_string v2_list_prefix qr fd qp t (render fmtF fl d)
  = DOk (canon v).
Proof.
  intros Hf Hw Hn Hwt Ht He Hs. rewrite <- (expect_is_canon parseF e wc ignore t v fd Hw Hn Ht).
  eapply L4_toplevel; eassumption.
Qed.

(* ======================================================================================================
   Non-vacuity: a schema with an included record, an optional map field, a default, an array of unions, and a value of it
   (the premises hold; the conclusion of the top-level theorem is checked by computation, default 42 filled in)
   ====================================================================================================== *)
Definition fa := {| f_name := [x61]; f_ty := TPrim PInt; f_opt := Required |}.
Definition fb := {| f_name := [x62]; f_ty := TMap (TPrim PString); f_opt := Optional |}.
Definition fd_ := {| f_name := [x64]; f_ty := TPrim PInt; f_opt := Default [x34; x32] |}.
Definition fc := {| f_name := [x63]; f_ty := TArray (TRef 1); f_opt := Required |}.
Definition ex_env : env :=
  [ DRecord [] [fa; fb]; DUnion false [([x78], TPrim PLong); ([x79], TRef 0)]; DRecord [0] [fc; fd_] ].
Definition ex_v : value :=
  VRec [VRec [] [Some (VInt 5); Some (VMap [([x6b; x32], VStr []); ([x6b; x31], VStr [x28; x20])])]]
       [Some (VArr [VUnion [Some (VLong 7); None]; VUnion [None; Some (VRec [] [Some (VInt (-1)); None])]]); None].
Definition fmt0 (is32 : bool) (b : N) : bytes := [x30].
Definition prs0 (m : nat) (s : bytes) : option N := None.
Ltac ty_tac :=
  repeat first
    [ reflexivity | discriminate
    | match goal with
      | |- forall x, Some _ = Some x -> _ => let E := fresh in intros ? E; injection E as <-
      | |- forall x, None = Some x -> _ => let E := fresh in intros ? E; discriminate E
      | |- typed _ (TRef _) (VRec _ _) => eapply T_rec; [reflexivity| |]
      | |- typed _ (TRef _) (VUnion _) => eapply T_union; [reflexivity|]
      | |- ~ In _ _ => simpl; intuition discriminate
      | |- _ /\ _ => split
      | |- _ -> _ => intro
      end
    | progress cbn [snd f_ty f_opt is_required map fst]
    | constructor ].
Lemma ex_typed : typed ex_env (TRef 2) ex_v.
Proof. unfold ex_v. ty_tac. Qed.
Lemma ex_wf : wf_env ex_env.
Proof.
  split.
  - intros n incs fs H. destruct n as [|[|[|n]]]; cbn in H; try discriminate; try (destruct n; discriminate); injection H as <- <-.
    + split; [cbn; constructor|]. split; [cbn; repeat constructor; simpl; intuition discriminate|]. repeat constructor.
    + split; [cbn; repeat constructor|]. split; [cbn; repeat constructor; simpl; intuition discriminate|]. repeat constructor.
  - intros n nullable ms H. destruct n as [|[|[|n]]]; cbn in H; try discriminate; try (destruct n; discriminate).
    injection H as <- <-. split; [cbn; repeat constructor; simpl; intuition discriminate|]. repeat constructor.
Qed.
Lemma ex_nonvacuous :
  wf_env ex_env /\ wf_ty (TRef 2) /\ typed ex_env (TRef 2) ex_v /\
  exists d, enc ex_env v2_wildcard ps_empty 10 [] (TRef 2) ex_v = Ok d /\
            decode_ror2 ex_env v2_wildcard ps_empty 0 prs0 (unescape false) v2_empty_string v2_list_prefix false 30 None (TRef 2)
              (render_ror2 fmt0 v2_hex_chars v2_unescaped_path_chars v2_unescaped_query_chars
                                    v2_header_escaped_chars v2_empty_string v2_list_prefix FPath d)
            = DOk (expect prs0 ex_env v2_wildcard 0 ex_v 30 (TRef 2)).
Proof.
  split; [exact ex_wf|]. split; [exact I|]. split; [exact ex_typed|]. eexists. split; [vm_compute; reflexivity|]. vm_compute. reflexivity.
Qed.

(* Observation made precise by [expect] (eb_incs applies expect_body, which does not fill defaults): the default of a field
   declared in an INCLUDED record is not populated when the field is absent - only the own fields of the record being
   decoded are; decoding the included record on its own does populate it.  Input "(a:1)": *)
Definition fe_ := {| f_name := [x65]; f_ty := TPrim PInt; f_opt := Default [x37] |}.
Definition env_incdef : env := [ DRecord [] [fd_; fa]; DRecord [0] [fe_] ].
Example include_default_not_filled :
  decode_ror2 env_incdef v2_wildcard ps_empty 0 prs0 (unescape false) v2_empty_string v2_list_prefix false 30 None (TRef 1)
    [x28; x61; x3a; x31; x29] = DOk (VRec [VRec [] [None; Some (VInt 1)]] [Some (VInt 7)])
  /\ decode_ror2 env_incdef v2_wildcard ps_empty 0 prs0 (unescape false) v2_empty_string v2_list_prefix false 30 None (TRef 0)
    [x28; x61; x3a; x31; x29] = DOk (VRec [] [Some (VInt 42); Some (VInt 1)]).
Proof. split; vm_compute; reflexivity. Qed.
