(* Proofs about D2/Choose.v, for every announcement set, scheme list, pair of iteration orders per attempt and draw. *)
From Coq Require Import List Bool Arith Lia QArith Lqa Permutation.
From Coq.Strings Require Import Byte.
From GR Require Import Base.Bytes D2.Announce D2.Choose.
Import ListNotations.
Local Open Scope Q_scope.

(* ------------------------------------------------------------------------------------------- sums *)

(* the total weight of the entries an entry-level filter lets through, as a structural sum *)
Fixpoint tsumE (f : entry -> bool) (l : list entry) : Q :=
  match l with
  | [] => 0
  | e :: r => if f e then snd e + tsumE f r else tsumE f r
  end.

Definition hostf (filt : host -> bool) (e : entry) : bool := filt (fst e).

(* total eligible weight for a host filter *)
Definition tsum (filt : host -> bool) (l : list entry) : Q := tsumE (hostf filt) l.

Definition nonneg (l : list entry) : Prop := forall e, In e l -> 0 <= snd e.

Lemma total_from_tsum filt l : forall acc, total_from filt l acc == acc + tsum filt l.
Proof.
  unfold tsum, hostf. induction l as [|[h w] l IH]; intros acc; simpl.
  - lra.
  - destruct (filt h); rewrite IH; lra.
Qed.

Lemma total_tsum filt l : total filt l == tsum filt l.
Proof. unfold total. rewrite total_from_tsum. lra. Qed.

Lemma tsumE_perm f l l' : Permutation l l' -> tsumE f l == tsumE f l'.
Proof.
  induction 1 as [|e l l' _ IH|e1 e2 l|l l' l'' _ IH1 _ IH2]; simpl.
  - reflexivity.
  - destruct (f e); rewrite IH; reflexivity.
  - destruct (f e1), (f e2); lra.
  - rewrite IH1. exact IH2.
Qed.

Lemma tsum_perm filt l l' : Permutation l l' -> tsum filt l == tsum filt l'.
Proof. apply tsumE_perm. Qed.

Lemma nonneg_cons e l : nonneg (e :: l) -> 0 <= snd e /\ nonneg l.
Proof. intros H. split; [apply H; left; reflexivity|intros x Hx; apply H; right; exact Hx]. Qed.

Lemma nonneg_app l1 l2 : nonneg (l1 ++ l2) -> nonneg l1 /\ nonneg l2.
Proof. intros H. split; intros x Hx; apply H; apply in_or_app; [left|right]; exact Hx. Qed.

Lemma nonneg_perm l l' : Permutation l l' -> nonneg l -> nonneg l'.
Proof. intros P H e He. apply H. eapply Permutation_in; [apply Permutation_sym; exact P|exact He]. Qed.

Lemma tsumE_nonneg f l : nonneg l -> 0 <= tsumE f l.
Proof.
  induction l as [|e l IH]; intros H; simpl; [lra|].
  apply nonneg_cons in H as [Hw Hl]. specialize (IH Hl).
  destruct (f e); lra.
Qed.

Lemma tsum_nonneg filt l : nonneg l -> 0 <= tsum filt l.
Proof. apply tsumE_nonneg. Qed.

Lemma tsumE_none f l : (forall e, In e l -> f e = false) -> tsumE f l == 0.
Proof.
  induction l as [|e l IH]; intros H; simpl; [reflexivity|].
  rewrite (H e (or_introl eq_refl)). apply IH. intros x Hx. apply H. right. exact Hx.
Qed.

Lemma tsumE_ge_member f l e : nonneg l -> In e l -> f e = true -> snd e <= tsumE f l.
Proof.
  induction l as [|x l IH]; intros Hn Hin Hf; [destruct Hin|].
  apply nonneg_cons in Hn as [Hw Hl]. simpl.
  pose proof (tsumE_nonneg f l Hl) as Hs.
  destruct Hin as [<-|Hin].
  - rewrite Hf. lra.
  - specialize (IH Hl Hin Hf). destruct (f x); lra.
Qed.

Lemma tsum_ge_member filt l e : nonneg l -> In e l -> filt (fst e) = true -> snd e <= tsum filt l.
Proof. intros Hn Hin Hf. apply (tsumE_ge_member (hostf filt) l e Hn Hin Hf). Qed.

(* ------------------------------------------------------------------------------------------- the second pass *)

Lemma Qle_bool_false a b : Qle_bool a b = false <-> b < a.
Proof.
  split.
  - intros H. apply Qnot_le_lt. intros Hle. apply Qle_bool_iff in Hle. congruence.
  - intros H. destruct (Qle_bool a b) eqn:E; [|reflexivity].
    apply Qle_bool_iff in E. lra.
Qed.

(* Specification of the second pass: walk the entries an entry-level filter lets through, subtracting weights, and
   stop at the first one that brings the running value to 0 or below. *)
Fixpoint pickE (f : entry -> bool) (l : list entry) (rw : Q) : option entry :=
  match l with
  | [] => None
  | e :: r =>
      if f e then (if Qle_bool (rw - snd e) 0 then Some e else pickE f r (rw - snd e))
      else pickE f r rw
  end.

(* eligible AND carrying weight *)
Definition posf (filt : host -> bool) (e : entry) : bool := filt (fst e) && negb (Qle_bool (snd e) 0).

Lemma posf_true filt e : posf filt e = true <-> filt (fst e) = true /\ 0 < snd e.
Proof.
  unfold posf. rewrite andb_true_iff, negb_true_iff, Qle_bool_false. tauto.
Qed.

(* the code's second pass is pickE: over the eligible entries with weight when the total is positive ... *)
Lemma pick_pos filt l tot : 0 < tot -> forall rw, pick filt l tot rw = pickE (posf filt) l rw.
Proof.
  intros HT. assert (ET : Qle_bool tot 0 = false) by (apply Qle_bool_false; exact HT).
  induction l as [|[h w] l IH]; intros rw; simpl; [reflexivity|].
  unfold posf at 1. simpl. rewrite ET. simpl negb. rewrite andb_true_r.
  destruct (filt h); simpl; [|apply IH].
  destruct (Qle_bool w 0); simpl; [apply IH|].
  destruct (Qle_bool (rw - w) 0); [reflexivity|apply IH].
Qed.

(* ... and over all eligible entries when it is not *)
Lemma pick_zero filt l tot : tot <= 0 -> forall rw, pick filt l tot rw = pickE (hostf filt) l rw.
Proof.
  intros HT. assert (ET : Qle_bool tot 0 = true) by (apply Qle_bool_iff; exact HT).
  induction l as [|[h w] l IH]; intros rw; simpl; [reflexivity|].
  unfold hostf at 1. simpl. rewrite ET. simpl negb. rewrite andb_false_r.
  destruct (filt h); [|apply IH].
  destruct (Qle_bool (rw - w) 0); [reflexivity|apply IH].
Qed.

(* entries without weight contribute nothing to the total *)
Lemma tsumE_posf filt l : nonneg l -> tsumE (posf filt) l == tsum filt l.
Proof.
  unfold tsum. induction l as [|e l IH]; intros Hn; simpl; [reflexivity|].
  apply nonneg_cons in Hn as [Hw Hl]. specialize (IH Hl).
  unfold posf at 1, hostf at 1. destruct (filt (fst e)); simpl; [|exact IH].
  destruct (Qle_bool (snd e) 0) eqn:E; simpl.
  - apply Qle_bool_iff in E. lra.
  - lra.
Qed.

Lemma pick_compat filt l : forall tot tot' rw rw', tot == tot' -> rw == rw' ->
  pick filt l tot rw = pick filt l tot' rw'.
Proof.
  induction l as [|[h w] l IH]; intros tot tot' rw rw' HT H; simpl; [reflexivity|].
  destruct (filt h); [|apply IH; assumption].
  rewrite (Qleb_comp _ _ HT 0 0 (Qeq_refl 0)).
  destruct (Qle_bool w 0 && negb (Qle_bool tot' 0)); [apply IH; assumption|].
  assert (H' : rw - w == rw' - w) by (rewrite H; reflexivity).
  rewrite (Qleb_comp _ _ H' 0 0 (Qeq_refl 0)).
  destruct (Qle_bool (rw' - w) 0); [reflexivity|apply IH; assumption].
Qed.

Lemma pickE_sound f l : forall rw e, pickE f l rw = Some e -> In e l /\ f e = true.
Proof.
  induction l as [|x l IH]; intros rw e H; simpl in H; [discriminate|].
  destruct (f x) eqn:F.
  - destruct (Qle_bool (rw - snd x) 0).
    + injection H as <-. split; [left; reflexivity|exact F].
    + apply IH in H. destruct H. split; [right; assumption|assumption].
  - apply IH in H. destruct H. split; [right; assumption|assumption].
Qed.

(* no result: either nothing passes the filter, or the draw lies beyond the total *)
Lemma pickE_none f l : forall rw, pickE f l rw = None ->
  (forall e, In e l -> f e = false) \/ tsumE f l < rw.
Proof.
  induction l as [|x l IH]; intros rw H; simpl in H.
  - left. intros e [].
  - simpl. destruct (f x) eqn:F.
    + destruct (Qle_bool (rw - snd x) 0) eqn:E; [discriminate|].
      apply Qle_bool_false in E. right.
      destruct (IH _ H) as [Hn|Hlt].
      * rewrite (tsumE_none _ _ Hn). lra.
      * lra.
    + destruct (IH _ H) as [Hn|Hlt]; [left|right; exact Hlt].
      intros e [<-|He]; [exact F|apply Hn; exact He].
Qed.

(* the entry at a given position is chosen exactly when the draw falls into its interval (left-open, right-closed) *)
Lemma pickE_interval_complete f l1 : forall e l2 rw,
  nonneg l1 -> f e = true ->
  tsumE f l1 < rw -> rw <= tsumE f l1 + snd e ->
  pickE f (l1 ++ e :: l2) rw = Some e.
Proof.
  induction l1 as [|x l1 IH]; intros e l2 rw Hn Hf Hlo Hhi; simpl in *.
  - rewrite Hf. assert (E : Qle_bool (rw - snd e) 0 = true) by (apply Qle_bool_iff; lra).
    rewrite E. reflexivity.
  - apply nonneg_cons in Hn as [Hw Hl].
    pose proof (tsumE_nonneg f l1 Hl) as Hs.
    destruct (f x).
    + assert (E : Qle_bool (rw - snd x) 0 = false) by (apply Qle_bool_false; lra).
      rewrite E. apply IH; try assumption; lra.
    + apply IH; assumption.
Qed.

Lemma pickE_interval_sound f l : forall rw e, 0 < rw -> pickE f l rw = Some e ->
  exists l1 l2, l = l1 ++ e :: l2 /\ f e = true /\
                tsumE f l1 < rw /\ rw <= tsumE f l1 + snd e.
Proof.
  induction l as [|x l IH]; intros rw e Hpos H; simpl in H; [discriminate|].
  destruct (f x) eqn:F.
  - destruct (Qle_bool (rw - snd x) 0) eqn:E.
    + injection H as <-. apply Qle_bool_iff in E.
      exists [], l. simpl. repeat split; try assumption; lra.
    + apply Qle_bool_false in E.
      destruct (IH _ _ E H) as (l1 & l2 & -> & Hf & Hlo & Hhi).
      exists (x :: l1), l2. simpl. rewrite F. repeat split; try assumption; lra.
  - destruct (IH _ _ Hpos H) as (l1 & l2 & -> & Hf & Hlo & Hhi).
    exists (x :: l1), l2. simpl. rewrite F. repeat split; assumption.
Qed.

(* at a running value of 0 or below the first entry that passes the filter wins *)
Lemma pickE_nonpos f l : forall rw, nonneg l -> rw <= 0 -> pickE f l rw = find f l.
Proof.
  induction l as [|x l IH]; intros rw Hn Hrw; simpl; [reflexivity|].
  apply nonneg_cons in Hn as [Hw Hl].
  destruct (f x); [|apply IH; assumption].
  assert (E : Qle_bool (rw - snd x) 0 = true) by (apply Qle_bool_iff; lra).
  rewrite E. reflexivity.
Qed.

Lemma pick_filter filt l : forall tot rw,
  pick filt l tot rw = pick (fun _ => true) (filter (fun e => filt (fst e)) l) tot rw.
Proof.
  induction l as [|[h w] l IH]; intros tot rw; simpl; [reflexivity|].
  destruct (filt h); simpl; [|apply IH].
  destruct (Qle_bool w 0 && negb (Qle_bool tot 0)); [apply IH|].
  destruct (Qle_bool (rw - w) 0); [reflexivity|apply IH].
Qed.

Lemma tsum_filter filt l : tsum filt l = tsum (fun _ => true) (filter (fun e => filt (fst e)) l).
Proof.
  unfold tsum, hostf. induction l as [|[h w] l IH]; simpl; [reflexivity|].
  destruct (filt h); simpl; rewrite IH; reflexivity.
Qed.

(* ------------------------------------------------------------------------------------------- one attempt *)

Section Attempt.
  Variable fl : list entry.          (* the announced (host, weight) entries *)
  Variable filt : host -> bool.
  Variables o1 o2 : list entry.      (* iteration orders of the two passes *)
  Variable r : Q.
  Hypothesis P1 : Permutation fl o1.
  Hypothesis P2 : Permutation fl o2.
  Hypothesis NN : nonneg fl.

  Lemma attempt_tot : total filt o1 == tsum filt fl.
  Proof. rewrite total_tsum, <- (tsum_perm filt _ _ P1). reflexivity. Qed.

  (* the attempt in terms of the specification, by the sign of the total *)
  Lemma attempt_pos : 0 < tsum filt fl ->
    filter_and_choose filt o1 o2 r = pickE (posf filt) o2 (r * tsum filt fl).
  Proof.
    intros HT. unfold filter_and_choose.
    rewrite (pick_compat filt o2 _ (tsum filt fl) _ (r * tsum filt fl) attempt_tot)
      by (rewrite attempt_tot; reflexivity).
    apply pick_pos. exact HT.
  Qed.

  Lemma attempt_zero : tsum filt fl <= 0 ->
    filter_and_choose filt o1 o2 r = pickE (hostf filt) o2 (r * tsum filt fl).
  Proof.
    intros HT. unfold filter_and_choose.
    rewrite (pick_compat filt o2 _ (tsum filt fl) _ (r * tsum filt fl) attempt_tot)
      by (rewrite attempt_tot; reflexivity).
    apply pick_zero. exact HT.
  Qed.

  Lemma NN2 : nonneg o2.
  Proof. apply (nonneg_perm _ _ P2 NN). Qed.

  Lemma attempt_sound e : filter_and_choose filt o1 o2 r = Some e -> In e fl /\ filt (fst e) = true.
  Proof.
    intros H. destruct (Qlt_le_dec 0 (tsum filt fl)) as [HT|HT].
    - rewrite (attempt_pos HT) in H. apply pickE_sound in H as [Hin Hf]. apply posf_true in Hf.
      split; [|tauto]. eapply Permutation_in; [apply Permutation_sym; exact P2|exact Hin].
    - rewrite (attempt_zero HT) in H. apply pickE_sound in H as [Hin Hf].
      split; [|exact Hf]. eapply Permutation_in; [apply Permutation_sym; exact P2|exact Hin].
  Qed.

  Lemma attempt_none : 0 <= r -> r <= 1 ->
    filter_and_choose filt o1 o2 r = None -> forall e, In e fl -> filt (fst e) = false.
  Proof.
    intros R0 R1 H. pose proof (tsum_nonneg filt fl NN) as HT0.
    destruct (Qlt_le_dec 0 (tsum filt fl)) as [HT|HT].
    - exfalso. rewrite (attempt_pos HT) in H. apply pickE_none in H.
      rewrite (tsumE_posf filt o2 NN2), <- (tsum_perm filt _ _ P2) in H.
      destruct H as [Hn|Hlt]; [|nra].
      pose proof (tsumE_none _ _ Hn) as Z.
      rewrite (tsumE_posf filt o2 NN2), <- (tsum_perm filt _ _ P2) in Z. lra.
    - rewrite (attempt_zero HT) in H. apply pickE_none in H.
      destruct H as [Hn|Hlt].
      + intros e He. apply Hn. eapply Permutation_in; [exact P2|exact He].
      + exfalso. change (tsumE (hostf filt) o2) with (tsum filt o2) in Hlt.
        rewrite <- (tsum_perm filt _ _ P2) in Hlt. nra.
  Qed.

  Lemma attempt_none_iff : 0 <= r -> r <= 1 ->
    (filter_and_choose filt o1 o2 r = None <-> forall e, In e fl -> filt (fst e) = false).
  Proof.
    intros R0 R1. split; [apply attempt_none; assumption|].
    intros Hn. destruct (filter_and_choose filt o1 o2 r) as [e|] eqn:E; [|reflexivity].
    apply attempt_sound in E as [Hin Hf]. rewrite (Hn e Hin) in Hf. discriminate.
  Qed.

  (* proportional choice: for this pair of orders, the entry at a given position of the second pass is returned
     exactly when r * total lies in (prefix sum before it, prefix sum before it + its weight] - which is empty for
     an entry without weight *)
  Lemma attempt_interval e : 0 < r -> 0 < tsum filt fl ->
    (filter_and_choose filt o1 o2 r = Some e <->
     exists l1 l2, o2 = l1 ++ e :: l2 /\ filt (fst e) = true /\
                   tsum filt l1 < r * tsum filt fl /\ r * tsum filt fl <= tsum filt l1 + snd e).
  Proof.
    intros R0 T0. rewrite (attempt_pos T0).
    assert (Hpos : 0 < r * tsum filt fl) by nra.
    split.
    - intros H. destruct (pickE_interval_sound _ _ _ _ Hpos H) as (l1 & l2 & E & Hf & Hlo & Hhi).
      exists l1, l2. apply posf_true in Hf.
      assert (N1 : nonneg l1) by (pose proof NN2 as Hn; rewrite E in Hn; apply nonneg_app in Hn; tauto).
      rewrite (tsumE_posf filt l1 N1) in Hlo, Hhi. tauto.
    - intros (l1 & l2 & E & Hf & Hlo & Hhi).
      assert (N1 : nonneg l1) by (pose proof NN2 as Hn; rewrite E in Hn; apply nonneg_app in Hn; tauto).
      rewrite E. apply pickE_interval_complete; try assumption.
      + apply posf_true. split; [exact Hf|lra].
      + rewrite (tsumE_posf filt l1 N1). exact Hlo.
      + rewrite (tsumE_posf filt l1 N1). exact Hhi.
  Qed.

  (* while the eligible total is positive, an entry without weight is never returned - whatever the draw *)
  Lemma attempt_positive e : 0 < tsum filt fl ->
    filter_and_choose filt o1 o2 r = Some e -> 0 < snd e.
  Proof.
    intros T0 H. rewrite (attempt_pos T0) in H. apply pickE_sound in H as [_ Hf].
    apply posf_true in Hf. tauto.
  Qed.

  (* r = 0: the first eligible entry WITH weight of the second pass (the first eligible one when none has weight) *)
  Lemma attempt_at_zero : r == 0 -> 0 < tsum filt fl ->
    filter_and_choose filt o1 o2 r = find (posf filt) o2.
  Proof.
    intros R0 T0. rewrite (attempt_pos T0). apply pickE_nonpos; [exact NN2|]. rewrite R0. lra.
  Qed.

  Lemma attempt_no_weight : tsum filt fl <= 0 ->
    filter_and_choose filt o1 o2 r = find (hostf filt) o2.
  Proof.
    intros T0. rewrite (attempt_zero T0). apply pickE_nonpos; [exact NN2|].
    pose proof (tsum_nonneg filt fl NN). assert (Z : tsum filt fl == 0) by lra. rewrite Z. lra.
  Qed.
End Attempt.

(* ------------------------------------------------------------------------------------------- chooseHost *)

(* the highest-priority scheme for which any host exists (independent of the code: a search in the scheme list) *)
Definition best_scheme (schemes : list bytes) (fl : list entry) : option bytes :=
  find (fun s => existsb (fun e => scheme_is s (fst e)) fl) schemes.

(* an entry host selection may return *)
Definition eligible (schemes : list bytes) (fl : list entry) (e : entry) : Prop :=
  In e fl /\ (schemes = [] \/ best_scheme schemes fl = Some (h_scheme (fst e))).

Record wf_inputs (fl : list entry) (o1 o2 : nat -> list entry) (r : nat -> Q) : Prop := {
  wf_o1 : forall i, Permutation fl (o1 i);
  wf_o2 : forall i, Permutation fl (o2 i);
  wf_nonneg : nonneg fl;
  wf_r : forall i, 0 <= r i /\ r i < 1
}.

Lemma scheme_is_eq s h : scheme_is s h = true <-> h_scheme h = s.
Proof. unfold scheme_is. apply bytes_eqb_eq. Qed.

Lemma existsb_scheme_false s (fl : list entry) :
  existsb (fun e => scheme_is s (fst e)) fl = false <-> forall e, In e fl -> scheme_is s (fst e) = false.
Proof.
  split.
  - intros H e He. destruct (scheme_is s (fst e)) eqn:E; [|reflexivity].
    assert (X : existsb (fun e => scheme_is s (fst e)) fl = true) by (apply existsb_exists; eauto).
    congruence.
  - intros H. destruct (existsb (fun e => scheme_is s (fst e)) fl) eqn:E; [|reflexivity].
    apply existsb_exists in E as (e & He & Hs). rewrite (H e He) in Hs. discriminate.
Qed.

Section Choose.
  Variable fl : list entry.
  Variables o1 o2 : nat -> list entry.
  Variable r : nat -> Q.
  Hypothesis WF : wf_inputs fl o1 o2 r.

  Let R0 i : 0 <= r i := proj1 (wf_r _ _ _ _ WF i).
  Let R1 i : r i <= 1 := Qlt_le_weak _ _ (proj2 (wf_r _ _ _ _ WF i)).

  (* which attempt produced the result *)
  Lemma choose_prio_attempt schemes : forall i e,
    choose_prio schemes i o1 o2 r = Some e ->
    exists j s, filter_and_choose (scheme_is s) (o1 j) (o2 j) (r j) = Some e /\
                best_scheme schemes fl = Some s.
  Proof.
    induction schemes as [|s rest IH]; intros i e H; simpl in H; [discriminate|].
    unfold best_scheme. simpl.
    destruct (filter_and_choose (scheme_is s) (o1 i) (o2 i) (r i)) as [e0|] eqn:A.
    - injection H as <-. exists i, s. split; [exact A|].
      apply (attempt_sound fl _ _ _ _ (wf_o1 _ _ _ _ WF i) (wf_o2 _ _ _ _ WF i)) in A as [Hin Hf].
      assert (X : existsb (fun e => scheme_is s (fst e)) fl = true) by (apply existsb_exists; eauto).
      rewrite X. reflexivity.
    - pose proof (attempt_none fl _ _ _ _ (wf_o1 _ _ _ _ WF i) (wf_o2 _ _ _ _ WF i) (wf_nonneg _ _ _ _ WF)
                    (R0 i) (R1 i) A) as Hn.
      apply existsb_scheme_false in Hn. rewrite Hn. apply (IH _ _ H).
  Qed.

  Lemma choose_prio_none schemes : forall i,
    choose_prio schemes i o1 o2 r = None <-> best_scheme schemes fl = None.
  Proof.
    induction schemes as [|s rest IH]; intros i; simpl; [unfold best_scheme; simpl; tauto|].
    unfold best_scheme. simpl.
    destruct (filter_and_choose (scheme_is s) (o1 i) (o2 i) (r i)) as [e0|] eqn:A.
    - apply (attempt_sound fl _ _ _ _ (wf_o1 _ _ _ _ WF i) (wf_o2 _ _ _ _ WF i)) in A as [Hin Hf].
      assert (X : existsb (fun e => scheme_is s (fst e)) fl = true) by (apply existsb_exists; eauto).
      rewrite X. split; discriminate.
    - pose proof (attempt_none fl _ _ _ _ (wf_o1 _ _ _ _ WF i) (wf_o2 _ _ _ _ WF i) (wf_nonneg _ _ _ _ WF)
                    (R0 i) (R1 i) A) as Hn.
      apply existsb_scheme_false in Hn. rewrite Hn. apply IH.
  Qed.

  (* the attempt that produced the result, with the filter it used: every eligible entry passes that filter *)
  Lemma choose_host_attempt schemes e :
    choose_host schemes o1 o2 r = Some e ->
    exists j filt, filter_and_choose filt (o1 j) (o2 j) (r j) = Some e /\
                   (forall e', eligible schemes fl e' -> filt (fst e') = true) /\
                   eligible schemes fl e.
  Proof.
    destruct schemes as [|s rest].
    - simpl. intros H. exists O, (fun _ => true). split; [exact H|]. split; [reflexivity|].
      apply (attempt_sound fl _ _ _ _ (wf_o1 _ _ _ _ WF O) (wf_o2 _ _ _ _ WF O)) in H as [Hin _].
      split; [exact Hin|left; reflexivity].
    - unfold choose_host. intros H.
      destruct (choose_prio_attempt _ _ _ H) as (j & s' & A & B).
      exists j, (scheme_is s'). split; [exact A|].
      apply (attempt_sound fl _ _ _ _ (wf_o1 _ _ _ _ WF j) (wf_o2 _ _ _ _ WF j)) in A as [Hin Hf].
      split.
      + intros e' [_ [Hnil|Hb]]; [discriminate|].
        rewrite B in Hb. injection Hb as ->. apply scheme_is_eq. reflexivity.
      + split; [exact Hin|right]. rewrite B. apply scheme_is_eq in Hf. rewrite Hf. reflexivity.
  Qed.

  Theorem chosen_is_eligible schemes e :
    choose_host schemes o1 o2 r = Some e ->
    In e fl /\ (schemes = [] \/ best_scheme schemes fl = Some (h_scheme (fst e))).
  Proof. intros H. destruct (choose_host_attempt _ _ H) as (_ & _ & _ & _ & He). exact He. Qed.

  Theorem none_eligible_is_error schemes :
    (forall e, ~ eligible schemes fl e) -> choose_host schemes o1 o2 r = None.
  Proof.
    intros Hno. destruct (choose_host schemes o1 o2 r) as [e|] eqn:H; [|reflexivity].
    destruct (choose_host_attempt _ _ H) as (_ & _ & _ & _ & He). destruct (Hno e He).
  Qed.

  (* and only then: an eligible entry always gets some host returned (over Q; with floats see the stated gap) *)
  Theorem eligible_gets_host schemes e' :
    eligible schemes fl e' -> exists e, choose_host schemes o1 o2 r = Some e.
  Proof.
    intros [Hin Hs]. destruct (choose_host schemes o1 o2 r) as [e|] eqn:H; [eauto|exfalso].
    destruct schemes as [|s rest].
    - simpl in H.
      pose proof (attempt_none fl _ _ _ _ (wf_o1 _ _ _ _ WF O) (wf_o2 _ _ _ _ WF O) (wf_nonneg _ _ _ _ WF)
                    (R0 O) (R1 O) H e' Hin). discriminate.
    - destruct Hs as [Hs|Hs]; [discriminate|].
      unfold choose_host in H. apply choose_prio_none in H. congruence.
  Qed.

  (* never a zero-weight entry while an eligible entry with positive weight exists - for every draw, 0 included *)
  Theorem no_zero_weight schemes e :
    choose_host schemes o1 o2 r = Some e ->
    (exists e', eligible schemes fl e' /\ 0 < snd e') ->
    0 < snd e.
  Proof.
    intros H (e' & He' & Hw').
    destruct (choose_host_attempt _ _ H) as (j & filt & A & Hall & _).
    apply (attempt_positive fl filt (o1 j) (o2 j) (r j) (wf_o1 _ _ _ _ WF j) e); [|exact A].
    pose proof (tsum_ge_member filt fl e' (wf_nonneg _ _ _ _ WF) (proj1 He') (Hall _ He')). lra.
  Qed.
End Choose.

(* The input that used to refute no_zero_weight (D32: http://a weight 0 iterated before http://b weight 1, r = 0). *)
Definition d32_a : entry := (Host [x68;x74;x74;x70] [x61], 0).
Definition d32_b : entry := (Host [x68;x74;x74;x70] [x62], 1).

(* ------------------------------------------------------------------------------------------- proportionality *)

(* the length of the interval of draws r for which the entry after prefix sum S is returned: weight / total *)
Lemma interval_length S w T : 0 < T -> (S + w) / T - S / T == w / T.
Proof. intros H. field. lra. Qed.

Lemma Qdiv_lt_iff S r T : 0 < T -> (S / T < r <-> S < r * T).
Proof.
  intros H. split.
  - intros Hlt. assert (E : S == (S / T) * T) by (field; lra). rewrite E.
    apply Qmult_lt_compat_r; assumption.
  - intros Hlt. apply Qlt_shift_div_r; assumption.
Qed.

Lemma Qdiv_le_iff S r T : 0 < T -> (r <= S / T <-> r * T <= S).
Proof.
  intros H. split.
  - intros Hle. assert (E : S == (S / T) * T) by (field; lra). rewrite E.
    apply Qmult_le_compat_r; [exact Hle|lra].
  - intros Hle. apply Qle_shift_div_l; assumption.
Qed.

(* Proportional choice, per attempt and per pair of iteration orders: with total eligible weight T > 0, the entry
   standing after the eligible prefix l1 in the second pass is returned exactly for the draws r in
   ( S/T , (S + w)/T ]  where S = weight of the eligible entries before it and w its own weight -
   an interval of length w / T; the intervals of different positions are disjoint (the result is a function of r)
   and, by eligible_gets_host, cover (0,1). *)
Theorem proportional : forall fl filt o1 o2 r e,
  Permutation fl o1 -> Permutation fl o2 -> nonneg fl ->
  0 < r -> 0 < tsum filt fl ->
  (filter_and_choose filt o1 o2 r = Some e <->
   exists l1 l2, o2 = l1 ++ e :: l2 /\ filt (fst e) = true /\
                 tsum filt l1 / tsum filt fl < r /\ r <= (tsum filt l1 + snd e) / tsum filt fl).
Proof.
  intros fl filt o1 o2 r e P1 P2 NN R0 T0.
  rewrite (attempt_interval fl filt o1 o2 r P1 P2 NN e R0 T0).
  split; intros (l1 & l2 & E & Hf & Hlo & Hhi); exists l1, l2; (split; [exact E|]); (split; [exact Hf|]).
  - split; [apply Qdiv_lt_iff; assumption|apply Qdiv_le_iff; assumption].
  - split; [apply Qdiv_lt_iff in Hlo; assumption|apply Qdiv_le_iff in Hhi; assumption].
Qed.

(* ------------------------------------------------------------------------------------------- all orders *)

Lemma in_insert_all {A} (x : A) l1 : forall l2, In (l1 ++ x :: l2) (insert_all x (l1 ++ l2)).
Proof.
  induction l1 as [|y l1 IH]; intros l2; simpl.
  - destruct l2; simpl; left; reflexivity.
  - right. apply in_map. apply IH.
Qed.

Lemma perms_complete {A} (l : list A) : forall l', Permutation l l' -> In l' (perms l).
Proof.
  induction l as [|x l IH]; intros l' P.
  - apply Permutation_nil in P. subst. left. reflexivity.
  - assert (Hin : In x l') by (eapply Permutation_in; [exact P|left; reflexivity]).
    apply in_split in Hin as (l1 & l2 & ->).
    apply Permutation_cons_app_inv in P.
    simpl. apply in_flat_map. exists (l1 ++ l2). split; [apply IH; exact P|apply in_insert_all].
Qed.

Lemma filter_perm {A} (f : A -> bool) l l' : Permutation l l' -> Permutation (filter f l) (filter f l').
Proof.
  induction 1 as [|x l l' _ IH|x y l|l l' l'' _ IH1 _ IH2]; simpl.
  - constructor.
  - destruct (f x); [constructor|]; exact IH.
  - destruct (f x), (f y); try apply Permutation_refl. constructor.
  - eapply Permutation_trans; eassumption.
Qed.

Lemma attempt_in_results fl filt o1 o2 r :
  Permutation fl o1 -> Permutation fl o2 ->
  In (filter_and_choose filt o1 o2 r) (attempt_results filt fl r).
Proof.
  intros P1 P2. unfold filter_and_choose, attempt_results.
  rewrite pick_filter.
  assert (ET : total filt o1 == total (fun _ => true) (filter (fun e => filt (fst e)) fl)).
  { rewrite !total_tsum, <- tsum_filter, (tsum_perm filt _ _ P1). reflexivity. }
  rewrite (pick_compat _ _ _ _ _ (r * total (fun _ => true) (filter (fun e => filt (fst e)) fl)) ET)
    by (rewrite ET; reflexivity).
  apply (in_map (fun p => pick (fun _ => true) p _ _)).
  apply perms_complete. apply filter_perm. exact P2.
Qed.

(* whatever orders Go's maps are iterated in, the result of chooseHost is one of [possible] *)
Theorem possible_complete : forall fl o1 o2 r schemes,
  wf_inputs fl o1 o2 r -> In (choose_host schemes o1 o2 r) (possible schemes fl r).
Proof.
  intros fl o1 o2 r schemes WF.
  destruct schemes as [|s0 rest0].
  - simpl. apply attempt_in_results; [apply (wf_o1 _ _ _ _ WF)|apply (wf_o2 _ _ _ _ WF)].
  - unfold choose_host, possible. generalize (s0 :: rest0) as schemes. generalize O as i.
    intros i schemes. revert i. induction schemes as [|s rest IH]; intros i; simpl; [left; reflexivity|].
    destruct (existsb (fun e => scheme_is s (fst e)) fl) eqn:X.
    + destruct (filter_and_choose (scheme_is s) (o1 i) (o2 i) (r i)) as [e|] eqn:A.
      * rewrite <- A. apply attempt_in_results; [apply (wf_o1 _ _ _ _ WF)|apply (wf_o2 _ _ _ _ WF)].
      * exfalso.
        pose proof (attempt_none fl _ _ _ _ (wf_o1 _ _ _ _ WF i) (wf_o2 _ _ _ _ WF i) (wf_nonneg _ _ _ _ WF)
                      (proj1 (wf_r _ _ _ _ WF i)) (Qlt_le_weak _ _ (proj2 (wf_r _ _ _ _ WF i))) A) as Hn.
        apply existsb_scheme_false in Hn. congruence.
    + destruct (filter_and_choose (scheme_is s) (o1 i) (o2 i) (r i)) as [e|] eqn:A; [|apply IH].
      exfalso. apply (attempt_sound fl _ _ _ _ (wf_o1 _ _ _ _ WF i) (wf_o2 _ _ _ _ WF i)) in A as [Hin Hf].
      rewrite existsb_scheme_false in X. rewrite (X e Hin) in Hf. discriminate.
Qed.

(* ------------------------------------------------------------------------------------------- as stated in Props/C19.v *)

Theorem chosen_is_eligible_m : forall (m : umap) o1 o2 r schemes e,
  wf_inputs (flat m) o1 o2 r ->
  choose_host schemes o1 o2 r = Some e ->
  In e (flat m) /\ (schemes = [] \/ best_scheme schemes (flat m) = Some (h_scheme (fst e))).
Proof. intros m o1 o2 r schemes e WF. exact (chosen_is_eligible (flat m) o1 o2 r WF schemes e). Qed.

Theorem none_eligible_is_error_m : forall (m : umap) o1 o2 r schemes,
  wf_inputs (flat m) o1 o2 r ->
  (forall e, ~ eligible schemes (flat m) e) -> choose_host schemes o1 o2 r = None.
Proof. intros m o1 o2 r schemes WF. exact (none_eligible_is_error (flat m) o1 o2 r WF schemes). Qed.

Theorem eligible_gets_host_m : forall (m : umap) o1 o2 r schemes e',
  wf_inputs (flat m) o1 o2 r ->
  eligible schemes (flat m) e' -> exists e, choose_host schemes o1 o2 r = Some e.
Proof. intros m o1 o2 r schemes e' WF. exact (eligible_gets_host (flat m) o1 o2 r WF schemes e'). Qed.

Theorem no_zero_weight_m : forall (m : umap) o1 o2 r schemes e,
  wf_inputs (flat m) o1 o2 r ->
  choose_host schemes o1 o2 r = Some e ->
  (exists e', eligible schemes (flat m) e' /\ 0 < snd e') ->
  0 < snd e.
Proof. intros m o1 o2 r schemes e WF. exact (no_zero_weight (flat m) o1 o2 r WF schemes e). Qed.

(* a draw of exactly 0: the first eligible entry with weight in the second pass's order *)
Theorem draw_zero_picks_first_weighted : forall fl filt o1 o2 r,
  Permutation fl o1 -> Permutation fl o2 -> nonneg fl -> r == 0 -> 0 < tsum filt fl ->
  filter_and_choose filt o1 o2 r = find (posf filt) o2.
Proof. intros fl filt o1 o2 r P1 P2 NN. exact (attempt_at_zero fl filt o1 o2 r P1 P2 NN). Qed.

(* nobody eligible has weight: the first eligible entry of the second pass, whatever the draw *)
Theorem no_weight_picks_first : forall fl filt o1 o2 r,
  Permutation fl o1 -> Permutation fl o2 -> nonneg fl -> tsum filt fl <= 0 ->
  filter_and_choose filt o1 o2 r = find (hostf filt) o2.
Proof. intros fl filt o1 o2 r P1 P2 NN. exact (attempt_no_weight fl filt o1 o2 r P1 P2 NN). Qed.

Theorem total_order_independent : forall filt l l', Permutation l l' -> total filt l == total filt l'.
Proof. intros filt l l' P. rewrite !total_tsum. apply tsum_perm. exact P. Qed.
